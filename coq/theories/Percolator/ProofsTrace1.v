(* Percolator/ProofsTrace1.v — every accepted step of System.stepr is a [vstep] on the view. *)
From Verif Require Import Percolator.Event Percolator.System Percolator.ProofsTrace0.

Ltac ok_inv H := inversion H; subst; clear H.

Lemma sent_by_cm s r T C ks :
  sent_by s (fun e => match e with ECmSend r' s' c' ks' => (r' =? r) && (s' =? T) && (c' =? C) && leqb ks' ks | _ => false end) = true ->
  In (ECmSend r T C ks) (s_sent s).
Proof.
  unfold sent_by. intros H. apply existsb_exists in H. destruct H as [e [H1 H2]].
  destruct e; try discriminate.
  repeat (apply andb_true_iff in H2; destruct H2 as [H2 ?]).
  apply N.eqb_eq in H2. subst.
  repeat match goal with
         | X : (_ =? _) = true |- _ => apply N.eqb_eq in X; subst
         | X : leqb _ _ = true |- _ => apply leqb_eq in X; subst
         end.
  assumption.
Qed.

Lemma v_pw_send s e r T p ks a o secs s' :
  step_pw_send s e r T p ks a o secs = Ok s' ->
  view_of s' = vcl (vsent (view_of s) e) T (pw_send_rec (vgetc (view_of s) T) ks a o).
Proof.
  unfold step_pw_send. intros H.
  chk1 H E1. chk1 H E2. chk1 H E2b. chk1 H E3. chk1 H E4. chk1 H E5. chk1 H E6.
  ok_inv H. reflexivity.
Qed.

Lemma sent_by_pw s r T ks :
  sent_by s (fun e => match e with EPwSend r' s' _ ks' _ _ _ _ _ => (r' =? r) && (s' =? T) && leqb ks' ks | _ => false end) = true ->
  exists p a o m f secs, In (EPwSend r T p ks a o m f secs) (s_sent s).
Proof.
  unfold sent_by. intros H. apply existsb_exists in H. destruct H as [e [H1 H2]].
  destruct e; try discriminate.
  repeat (apply andb_true_iff in H2; destruct H2 as [H2 ?]).
  apply N.eqb_eq in H2. subst.
  repeat match goal with
         | X : (_ =? _) = true |- _ => apply N.eqb_eq in X; subst
         | X : leqb _ _ = true |- _ => apply leqb_eq in X; subst
         end.
  do 6 eexists. exact H1.
Qed.

Lemma v_pw_tail s1 T ks x s' :
  match x with
  | PwOk m o =>
      if o =? 0 then match step_keys s1 T ks (tr_pw m) with Some s' => Ok s' | None => Rej S_prewrite_after_rollback end
      else match step_keys s1 T ks (tr_1pc o) with Some s' => Ok s' | None => Rej S_onepc end
  | _ => Ok s1
  end = Ok s' -> view_of s' = view_of s1.
Proof.
  intros H. destruct x as [m o| |].
  - destruct (o =? 0).
    + destruct (step_keys _ T ks (tr_pw m)) eqn:K; try discriminate. ok_inv H.
      exact (step_keys_view _ _ _ _ _ K).
    + destruct (step_keys _ T ks (tr_1pc o)) eqn:K; try discriminate. ok_inv H.
      exact (step_keys_view _ _ _ _ _ K).
  - ok_inv H. reflexivity.
  - ok_inv H. reflexivity.
Qed.

Lemma v_pw_deliver s r T ks x s' :
  step_pw_deliver s r T ks x = Ok s' ->
  (exists p a o m f secs, In (EPwSend r T p ks a o m f secs) (v_sent (view_of s))) /\
  exists c', dlv_same (vgetc (view_of s) T) c' /\
    view_of s' = vcl (vdlv (view_of s) (EPwReply r T ks x)) T c'.
Proof.
  unfold step_pw_deliver. intros H.
  chk1 H E1. chk1 H E2. cbv zeta in H. chk1 H E3. chk1 H E4. chk1 H E5.
  split; [exact (sent_by_pw _ _ _ _ E1)|].
  apply v_pw_tail in H. eexists. split; [| rewrite H; reflexivity].
  change (vgetc (view_of s) T) with (getc s T).
  eapply dlv_same_trans; [apply (dlv_same_kl _ KDlv ks); reflexivity|].
  destruct x as [m o| |].
  - match goal with |- dlv_same _ (if ?b then _ else _) => destruct b end.
    + eapply dlv_same_trans; [| apply dlv_same_stfb].
      destruct (o =? 0); [apply dlv_same_lam | apply dlv_same_refl].
    + destruct (o =? 0); [apply dlv_same_lam | apply dlv_same_refl].
  - apply dlv_same_kl; reflexivity.
  - apply dlv_same_kl; reflexivity.
Qed.

Lemma v_pw_reply s r T ks x s' :
  step_pw_reply s (EPwReply r T ks x) r T ks x = Ok s' ->
  In (EPwReply r T ks x) (v_dlv (view_of s)) /\
  view_of s' = vcl (view_of s) T (pw_reply_rec (vgetc (view_of s) T) ks x).
Proof.
  unfold step_pw_reply. intros H. chk1 H E1. chk1 H E2. chk1 H E3. chk1 H E4. ok_inv H.
  split; [exact (delivered_pw _ _ _ _ _ E2) | reflexivity].
Qed.

Lemma v_cm_send s r T C ks s' :
  step_cm_send s (ECmSend r T C ks) r T C ks = Ok s' -> vstep (view_of s) (ECmSend r T C ks) (view_of s').
Proof.
  unfold step_cm_send. intros H. chk1 H E1. chk1 H E2. apply negb_true_iff in E2.
  destruct (fb (getc s T) FHasm) eqn:Eh.
  - chk1 H E3. chk1 H E4. chk1 H E5. chk1 H E6. chk1 H E6b. chk1 H E7.
    apply N.ltb_lt in E5. apply N.leb_le in E6.
    destruct (mem (cn (getc s T) FPrim) ks) eqn:Em.
    + ok_inv H. cbn [vstep]. cbv zeta. change (vgetc (view_of s) T) with (getc s T).
      rewrite Eh, Em. split; [exact E2|]. split; [exact E4|]. split; [exact E5|].
      split; [exact E6|]. split; [exact E6b|]. split; [exact E7|]. reflexivity.
    + chk1 H E8. ok_inv H. cbn [vstep]. cbv zeta. change (vgetc (view_of s) T) with (getc s T).
      rewrite Eh, Em. split; [exact E2|]. split; [exact E4|]. split; [exact E5|].
      split; [exact E6|]. split; [exact E6b|]. split; [exact E7|]. split; [exact E8 | reflexivity].
  - ok_inv H. cbn [vstep]. cbv zeta. change (vgetc (view_of s) T) with (getc s T).
    rewrite Eh. split; [exact E2 | reflexivity].
Qed.

Lemma v_cm_deliver s r T C ks x s' :
  step_cm_deliver s r T C ks x = Ok s' -> vstep (view_of s) (ECmDeliver r T C ks x) (view_of s').
Proof.
  unfold step_cm_deliver. intros H. chk1 H E1. apply sent_by_cm in E1.
  cbv zeta in H. chk1 H E2.
  cbn [vstep]. split; [exact E1|]. change (vgetc (view_of s) T) with (getc s T).
  destruct (has_prim (getc s T) ks).
  - right.
    destruct x.
    + destruct (step_keys _ T ks (tr_cm C)) eqn:K; try discriminate. ok_inv H.
      exists FPcOkd. split; [auto|]. apply step_keys_view in K.
      change (view_of (setc s0 T (incn (incn (getc s T) FPcDlv) FPcOkd)))
        with (vcl (view_of s0) T (incn (incn (getc s T) FPcDlv) FPcOkd)).
      rewrite K. reflexivity.
    + destruct (step_keys _ T ks (tr_push m)) eqn:K; try discriminate. ok_inv H.
      exists FPcFaild. split; [auto|]. apply step_keys_view in K.
      change (view_of (setc s0 T (incn (incn (getc s T) FPcDlv) FPcFaild)))
        with (vcl (view_of s0) T (incn (incn (getc s T) FPcDlv) FPcFaild)).
      rewrite K. reflexivity.
    + chk1 H E3. ok_inv H. exists FPcFaild. split; [auto|]. reflexivity.
    + ok_inv H. exists FPcFaild. split; [auto|]. reflexivity.
    + ok_inv H. exists FPcFaild. split; [auto|]. reflexivity.
  - left.
    destruct x.
    + destruct (step_keys _ T ks (tr_cm C)) eqn:K; try discriminate. ok_inv H.
      apply step_keys_view in K. rewrite K. reflexivity.
    + destruct (step_keys _ T ks (tr_push m)) eqn:K; try discriminate. ok_inv H.
      apply step_keys_view in K. rewrite K. reflexivity.
    + chk1 H E3. ok_inv H. reflexivity.
    + ok_inv H. reflexivity.
    + ok_inv H. reflexivity.
Qed.

Lemma v_cm_reply s r T C ks x s' :
  step_cm_reply s (ECmReply r T C ks x) r T C ks x = Ok s' -> vstep (view_of s) (ECmReply r T C ks x) (view_of s').
Proof.
  unfold step_cm_reply. intros H. chk1 H E1. chk1 H E2. apply delivered_cm in E2.
  cbn [vstep]. split; [exact E2|]. cbv zeta. change (vgetc (view_of s) T) with (getc s T).
  cbv zeta in H.
  destruct (has_prim (getc s T) ks).
  - destruct x; try (chk1 H E3); ok_inv H; reflexivity.
  - ok_inv H. reflexivity.
Qed.

Lemma v_rb_deliver s r T ks x s' :
  step_rb_deliver s r T ks x = Ok s' -> view_of s' = vdlv (view_of s) (ERbReply r T ks x).
Proof.
  unfold step_rb_deliver. intros H. chk1 H E1.
  destruct x; try (ok_inv H; reflexivity).
  destruct (step_keys _ T ks tr_rb) eqn:K; try discriminate. ok_inv H.
  apply step_keys_view in K. rewrite K. reflexivity.
Qed.

Lemma csl_lock_ms_In s r T k M : In (k, M) (csl_lock_ms s r T) ->
  exists ks l, In (ECslReply r T ks (CslLocks l)) (s_csl s) /\ In (k, M) l.
Proof.
  unfold csl_lock_ms. intros J1. apply in_flat_map in J1. destruct J1 as [e1 [K1 K2]].
  destruct e1; cbn [In] in K2; try contradiction.
  destruct st; cbn [In] in K2; try contradiction.
  destruct ((r0 =? r) && (s0 =? T)) eqn:Eb; cbn [In] in K2; try contradiction.
  apply andb_true_iff in Eb. destruct Eb as [Eb1 Eb2].
  apply N.eqb_eq in Eb1. apply N.eqb_eq in Eb2. subst. eauto.
Qed.

Lemma v_cts_send s e r T cur rbine fo s' :
  step_cts_send s e r T cur rbine fo = Ok s' ->
  (cur = maxts \/ rbine = true -> expire_ok (view_of s) r T) /\
  (fo = true -> exists ks l k, In (ECslReply r T ks (CslLocks l)) (v_csl (view_of s)) /\ In (k, 0) l) /\
  view_of s' = vsent (view_of s) e.
Proof.
  unfold step_cts_send. intros H. chk1 H E1. chk1 H E2. chk1 H E2f. ok_inv H. split; [| split; [| reflexivity]].
  2: { intros ->. cbn [negb orb] in E2f. unfold nonasync_seen in E2f. apply existsb_exists in E2f.
       destruct E2f as [[k M] [J1 J2]]. cbn [snd] in J2. apply N.eqb_eq in J2. subst M.
       destruct (csl_lock_ms_In _ _ _ _ _ J1) as (ks & l & K1 & K2). exists ks, l, k. split; assumption. }
  intros Hc.
  assert (Hb : ((cur =? maxts) || rbine) = true).
  { destruct Hc as [Hc | Hc]; subst; [rewrite N.eqb_refl; reflexivity | apply orb_true_r]. }
  rewrite Hb in E2. cbn [negb orb] in E2.
  unfold expire_allowed in E2. apply orb_true_iff in E2. destruct E2 as [E2 | E2].
  - left. apply existsb_exists in E2. destruct E2 as [[[r' s'] ttl] [I1 I2]].
    apply andb_true_iff in I2. destruct I2 as [I2 I3].
    apply andb_true_iff in I2. destruct I2 as [I2 I4].
    apply N.eqb_eq in I2. apply N.eqb_eq in I4. subst.
    exists ttl. split; [exact I1|].
    apply orb_true_iff in I3. destruct I3 as [I3 | I3].
    + left. apply N.eqb_eq in I3. exact I3.
    + right. apply N.leb_le in I3. exact I3.
  - right. apply existsb_exists in E2. destruct E2 as [[r' sp] [I1 I2]].
    apply andb_true_iff in I2. destruct I2 as [I2 I3]. cbn [fst snd] in *.
    apply N.eqb_eq in I2. apply N.leb_le in I3. subst. exists sp. split; auto.
Qed.

Lemma v_cts_deliver s r T p st s' :
  step_cts_deliver s r T p st = Ok s' ->
  exists c', dlv_same (vgetc (view_of s) T) c' /\
    (view_of s' = vdlv (view_of s) (ECtsReply r T p st) \/
     view_of s' = vcl (vdlv (view_of s) (ECtsReply r T p st)) T c').
Proof.
  unfold step_cts_deliver. intros H. chk1 H E1. cbv zeta in H.
  exists (setn (getc s T) FStFb 1). split; [apply dlv_same_stfb|].
  destruct st; try (ok_inv H; left; reflexivity).
  - chk1 H F1. chk1 H F2. chk1 H F3. chk1 H F4.
    destruct (step_key _ T p (tr_cts_locked m)) eqn:K; try discriminate. ok_inv H.
    apply step_key_view in K. rewrite K. left. reflexivity.
  - destruct (step_key _ T p (tr_cts_committed c)) eqn:K; try discriminate. ok_inv H.
    apply step_key_view in K. rewrite K. left. reflexivity.
  - chk1 H E2. chk1 H E3. destruct (step_key _ T p tr_rb) eqn:K; try discriminate. ok_inv H.
    apply step_key_view in K. rewrite K.
    match goal with |- context [if ?b then _ else _] => destruct b end; [right | left]; reflexivity.
Qed.

Lemma v_csl_deliver s r T ks st s' :
  step_csl_deliver s r T ks st = Ok s' -> view_of s' = vdlv (view_of s) (ECslReply r T ks st).
Proof.
  unfold step_csl_deliver. intros H. chk1 H E1. cbv zeta in H.
  destruct st.
  - chk1 H F1. chk1 H F2. destruct (step_csl_locks _ T l) eqn:K; try discriminate. ok_inv H.
    apply step_csl_locks_view in K. rewrite K. reflexivity.
  - destruct (c =? 0); [| chk1 H F1; ok_inv H; reflexivity].
    chk1 H F1. destruct (step_keys _ T _ tr_csl_rb) eqn:K; try discriminate. ok_inv H.
    apply step_keys_view in K. rewrite K. reflexivity.
  - ok_inv H. reflexivity.
Qed.

Lemma v_rs_deliver s r T C ks x s' :
  step_rs_deliver s r T C ks x = Ok s' -> view_of s' = vdlv (view_of s) (ERsReply r T C ks x).
Proof.
  unfold step_rs_deliver. intros H. chk1 H E1. cbv zeta in H.
  destruct x; try (ok_inv H; reflexivity).
  destruct ks.
  - ok_inv H. reflexivity.
  - destruct (step_keys _ T (n :: ks) (tr_rs C)) eqn:K; try discriminate. ok_inv H.
    apply step_keys_view in K. rewrite K. reflexivity.
Qed.

Lemma v_told s T t s' :
  step_told s T t = Ok s' ->
  told_guard (vgetc (view_of s) T) t = true /\ view_of s' = vcl (view_of s) T (told_rec (vgetc (view_of s) T) t).
Proof.
  unfold step_told. intros H. chk1 H E1. chk1 H E2. cbv zeta in H.
  change (vgetc (view_of s) T) with (getc s T).
  destruct t; cbn [told_guard told_rec]; chk1 H E3; try chk1 H E4; ok_inv H; split; reflexivity.
Qed.

Lemma v_rs_send s e r T C s' :
  step_rs_send s e r T C = Ok s' -> rs_just (view_of s) r T C /\ view_of s' = vsent (view_of s) e.
Proof.
  unfold step_rs_send. intros H. chk1 H E1. cbv zeta in H.
  destruct (just_cts s r T C) eqn:J.
  - chk1 H E2. ok_inv H. split; [|reflexivity].
    unfold just_cts in J. destruct (find _ (s_cts s)) eqn:F; try discriminate.
    apply find_some in F. destruct F as [F1 F2].
    destruct e0; try discriminate. ok_inv J. destruct st; try discriminate.
    + repeat (apply andb_true_iff in F2; destruct F2 as [F2 ?]).
      apply N.eqb_eq in F2. subst.
      repeat match goal with X : (_ =? _) = true |- _ => apply N.eqb_eq in X; subst end.
      left. split.
      * intros Hc. subst. discriminate.
      * exists n. exact F1.
    + repeat (apply andb_true_iff in F2; destruct F2 as [F2 ?]).
      apply N.eqb_eq in F2. subst.
      repeat match goal with X : (_ =? _) = true |- _ => apply N.eqb_eq in X; subst end.
      right. left. split; [reflexivity|]. exists n. exact F1.
  - chk1 H E2. ok_inv H. split; [|reflexivity].
    apply orb_true_iff in E2. destruct E2 as [E2 | E2].
    + right. right. left. apply andb_true_iff in E2. destruct E2 as [E2 E3].
      apply async_cts_In in E3. destruct E3 as (p & ttl & m & secs & E3 & _).
      split; [| exists p, ttl, m, secs; exact E3].
      unfold csl_missing in E2. apply existsb_exists in E2.
      destruct E2 as [e0 [I1 I2]]. destruct e0; try discriminate. destruct st; try discriminate.
      repeat (apply andb_true_iff in I2; destruct I2 as [I2 ?]).
      apply N.eqb_eq in I2. subst.
      repeat match goal with X : (_ =? _) = true |- _ => apply N.eqb_eq in X; subst end.
      exists ks. exact I1.
    + right. right. right. unfold csl_all_locked in E2. apply existsb_exists in E2.
      destruct E2 as [e0 [I1 I2]]. destruct e0; try discriminate. destruct st; try discriminate.
      destruct async; try discriminate. cbv zeta in I2.
      apply andb_true_iff in I2. destruct I2 as [I2 I3].
      apply andb_true_iff in I2. destruct I2 as [I2 I4].
      apply andb_true_iff in I3. destruct I3 as [I3 I5].
      apply andb_true_iff in I3. destruct I3 as [I3 I6].
      apply N.eqb_eq in I2. apply N.eqb_eq in I4. apply N.eqb_eq in I5. subst r0 s0.
      exists p, ttl, m, secs. split; [exact I1|].
      pose proof (fold_max_ge (map snd (filter (fun km => mem (fst km) secs) (csl_lock_ms s r T))) m) as [G1 G2].
      rewrite <- I5 in G1, G2. split; [exact G1|].
      intros k Hk. rewrite forallb_forall in I3. specialize (I3 k Hk).
      apply existsb_exists in I3. destruct I3 as [[k' m'] [J1 J2]]. cbn [fst] in J2.
      apply N.eqb_eq in J2. subst k'.
      assert (Hm : m' <= C).
      { apply G2. apply in_map_iff. exists (k, m'). split; [reflexivity|].
        apply filter_In. split; [exact J1|]. cbn [fst]. apply mem_In. exact Hk. }
      assert (Hnz : m' <> 0).
      { rewrite forallb_forall in I6. specialize (I6 (k, m')). cbn [snd] in I6. apply N.eqb_neq. apply negb_true_iff. apply I6.
        apply filter_In. split; [exact J1|]. cbn [fst]. apply mem_In. exact Hk. }
      destruct (csl_lock_ms_In _ _ _ _ _ J1) as (ks0 & l & K1 & K2).
      exists ks0, l, m'. split; [exact K1|]. split; [exact K2 |]. split; [exact Hm | exact Hnz].
Qed.

Theorem stepr_vstep s e s' : stepr s e = Ok s' -> vstep (view_of s) e (view_of s').
Proof.
  destruct e; unfold stepr; intros H; cbn [vstep].
  - chk1 H E. ok_inv H. apply N.ltb_lt in E. split; [exact E | reflexivity].
  - chk1 H E. ok_inv H. reflexivity.
  - ok_inv H. reflexivity.
  - cbv zeta in H. chk1 H E1. chk1 H E2. chk1 H E3. ok_inv H.
    repeat (apply andb_true_iff in E1; destruct E1 as [E1 ?]).
    apply negb_true_iff in E1.
    repeat match goal with X : (_ =? _) = true |- _ => apply N.eqb_eq in X end.
    cbv zeta. change (vgetc (view_of s) s0) with (getc s s0).
    split; [exact E1|]. split; [assumption|]. split; [assumption|].
    split; [apply mem_In; exact E2 | reflexivity].
  - apply v_pw_send in H. exact H.
  - apply v_pw_deliver in H. exact H.
  - apply v_pw_reply in H. exact H.
  - apply v_cm_send in H. exact H.
  - apply v_cm_deliver in H. exact H.
  - apply v_cm_reply in H. exact H.
  - unfold step_rb_send in H. chk1 H E1. chk1 H E2. ok_inv H. split; [exact E2 | reflexivity].
  - apply v_rb_deliver in H. exact H.
  - unfold plain_reply in H. chk1 H E1. chk1 H E2. ok_inv H. reflexivity.
  - cbv zeta in H. chk1 H E1. chk1 H E2. ok_inv H. reflexivity.
  - chk1 H E1. ok_inv H. reflexivity.
  - unfold plain_reply in H. chk1 H E1. chk1 H E2. ok_inv H. reflexivity.
  - unfold plain_send in H. chk1 H E1. ok_inv H. reflexivity.
  - chk1 H E1. ok_inv H. reflexivity.
  - unfold plain_reply in H. chk1 H E1. chk1 H E2. ok_inv H. reflexivity.
  - apply v_cts_send in H. exact H.
  - apply v_cts_deliver in H. exact H.
  - chk1 H E1. chk1 H E2. ok_inv H. reflexivity.
  - chk1 H E1. chk1 H E2. ok_inv H. split; [exact E2 | reflexivity].
  - apply v_csl_deliver in H. exact H.
  - chk1 H E1. chk1 H E2. ok_inv H. reflexivity.
  - apply v_rs_send in H. exact H.
  - apply v_rs_deliver in H. exact H.
  - unfold plain_reply in H. chk1 H E1. chk1 H E2. ok_inv H. reflexivity.
  - unfold step_hb_send in H. chk1 H E1. chk1 H E2. chk1 H E3. chk1 H E4. chk1 H E5. ok_inv H. reflexivity.
  - chk1 H E1. ok_inv H. reflexivity.
  - ok_inv H. reflexivity.
  - apply v_told in H. exact H.
  - ok_inv H. reflexivity.
  - ok_inv H. reflexivity.
  - ok_inv H. reflexivity.
  - ok_inv H. reflexivity.
Qed.
