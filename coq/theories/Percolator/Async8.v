(* Percolator/Async8.v — the async-commit invariant holds after every accepted trace; C02/C03 for async commit. *)
From Verif Require Export Percolator.Async7.

Definition Ainv (s : sys) : Prop := forall T, asyncm s T -> ainv s T.

Lemma asyncm_fields : forall s s' T,
  cn (getc s' T) FHasm = cn (getc s T) FHasm -> cn (getc s' T) FTriedA = cn (getc s T) FTriedA ->
  incl (s_dlv s) (s_dlv s') -> cn (getc s' T) FFb = cn (getc s T) FFb ->
  cn (getc s' T) FStFb = cn (getc s T) FStFb -> asyncm s' T -> asyncm s T.
Proof.
  intros s s' T A B C D E [H1 [H2 [H3 [H4 H5]]]]. apply (no1pc_incl _ _ _ C) in H3.
  unfold asyncm, hasm, F in *. rewrite A, B, D, E in *. auto.
Qed.

Theorem ainv_stepr : forall s e s', Inv s -> Linv s -> Zinv s -> Yinv s -> Ainv s -> stepr s e = Ok s' -> Ainv s'.
Proof.
  intros s e s' HI HL HZ HY HA H T0 Am'.
  destruct (option_map (N.eqb T0) (txn_of e)) as [[|] |] eqn:Et.
  2: { assert (Hne : txn_of e <> Some T0) by (intros E'; rewrite E' in Et; cbn in Et; rewrite N.eqb_refl in Et; discriminate).
       pose proof (stepr_getc_other _ _ _ T0 H Hne) as Gc. eapply ainv_other; eauto. apply HA.
       destruct Am' as [B1 [B2 [B3 [B4 B5]]]]. apply (no1pc_back _ _ _ _ H) in B3. unfold asyncm, hasm, F in *. rewrite Gc in *. auto. }
  2: { assert (Hne : txn_of e <> Some T0) by (intros E'; rewrite E' in Et; discriminate).
       pose proof (stepr_getc_other _ _ _ T0 H Hne) as Gc. eapply ainv_other; eauto. apply HA.
       destruct Am' as [B1 [B2 [B3 [B4 B5]]]]. apply (no1pc_back _ _ _ _ H) in B3. unfold asyncm, hasm, F in *. rewrite Gc in *. auto. }
  destruct (txn_of e) as [T1 |] eqn:Et'; cbn [option_map] in Et; [| discriminate Et].
  assert (T1 = T0) as -> by (injection Et as Et1; apply N.eqb_eq in Et1; auto). clear Et.
  destruct (quiet e) eqn:Q.
  { assert (Am : asyncm s T0) by (eapply asyncm_back; eauto; eapply stepr_quiet; eauto). eapply ainv_quiet; eauto. }
  destruct_event e; cbn [quiet] in Q; try discriminate Q; cbn [txn_of] in Et'; inversion Et'; subst.
  - exfalso. destruct (stepr_quiet3 s (EMutations T0 p ms) s' T0 eq_refl H) as [_ [_ A]]. destruct Am' as [_ [B _]]. unfold F in B.
    rewrite (A FTriedA eq_refl) in B. pose proof (z_tried _ _ (HZ T0) (or_introl B)) as D.
    cbn [stepr] in H. chks H. b2p. unfold F in D. congruence.
  - eapply ainv_pw_send; eauto.
  - eapply ainv_pw_deliver; eauto.
  - eapply ainv_pw_reply; eauto.
  - assert (Am : asyncm s T0).
    { pose proof H as H2. cbn [stepr] in H2. unfold step_rb_send in H2. chks H2. okinv H2.
      eapply asyncm_fields; [| | | | | exact Am']; rd; try reflexivity; apply incl_refl. }
    eapply ainv_rb_send; eauto.
  - eapply ainv_cts_deliver; eauto.
  - assert (Am : asyncm s T0).
    { pose proof H as H2. cbn [stepr] in H2. unfold step_told in H2. chks H2. destruct x; chks H2; okinv H2;
        (eapply asyncm_fields; [| | | | | exact Am']; rd; try reflexivity; apply incl_refl). }
    eapply ainv_told; eauto.
Qed.

Theorem ainv_init : Ainv init.
Proof. intros T [H _]. exfalso. apply H. reflexivity. Qed.

Theorem ainv_run_from : forall evs s s', Inv s -> Linv s -> Zinv s -> Yinv s -> Ainv s -> run_from s evs = Some s' -> Ainv s'.
Proof.
  induction evs as [| e evs IH]; intros s s' HI HL HZ HY HA H; cbn [run_from] in H.
  - inversion H. subst. auto.
  - unfold step in H. destruct (stepr s e) as [s1 | rr] eqn:E; try discriminate.
    eapply IH; [| | | | | eauto].
    + eapply inv_stepr; eauto.
    + eapply linv_stepr; eauto.
    + intros T. eapply l0inv_stepr; eauto.
    + intros T. eapply l1inv_stepr; eauto.
    + eapply ainv_stepr; eauto.
Qed.
Theorem ainv_run : forall evs s, run evs = Some s -> Ainv s.
Proof.
  intros evs s H. eapply ainv_run_from; [apply inv_init | apply linv_init | intros T; apply l0inv_init | intros T; apply l1inv_init | apply ainv_init | exact H].
Qed.

Section AsyncAtomic.
  Variables (evs : list event) (s : sys) (T : N).
  Hypothesis R : run evs = Some s.
  Hypothesis Am : asyncm s T.
  Let L : linv s T := linv_run evs s R T.
  Let A : ainv s T := ainv_run evs s R T Am.

  Lemma async_one_ts : forall k1 k2 c1 c2, kget s T k1 = Committed c1 -> kget s T k2 = Committed c2 -> c1 = c2.
  Proof. apply (a_one_ts s T A). Qed.
  Lemma async_commit_ts : forall k c, kget s T k = Committed c -> Sealed s T /\ c = cstar s T.
  Proof. apply (a_commit s T A). Qed.
  Lemma async_all_or_nothing : forall k1 k2 c, kget s T k1 = Committed c -> In k2 (lm s T) -> kget s T k2 <> RolledBack.
  Proof. apply (a_all_or_nothing s T A). Qed.
  Lemma async_sealed_keys : Sealed s T -> forall k, In k (lm s T) ->
    (exists m, kget s T k = Locked m /\ lamk s T k = Some m /\ m <= cstar s T) \/ kget s T k = Committed (cstar s T).
  Proof. apply (a_sealed_keys s T L A). Qed.
  (* every commit-capable request that was sent carries cstar: the owner's commits and every resolver decision *)
  Lemma async_owner_commit : forall r C ks, In (ECmSend r T C ks) (s_sent s) -> Sealed s T /\ C = cstar s T.
  Proof. apply (a_cmsent s T A). Qed.
  Lemma async_resolver_decision : forall r C ks, In (ERsSend r T C ks) (s_sent s) ->
    (C <> 0 -> Sealed s T /\ C = cstar s T) /\ (C = 0 -> NSa s T).
  Proof.
    intros r C ks H. destruct (inv_run evs s R T) as [G _]. destruct (g_rs_sent _ _ G _ _ _ H) as [j Hj].
    eapply (rs_just s T G L (proj1 Am) A); eauto.
  Qed.
  Lemma async_told_ok : F s T FTold = 1 ->
    Sealed s T /\
    (forall k, In k (lm s T) -> (exists m, kget s T k = Locked m /\ m <= cstar s T) \/ kget s T k = Committed (cstar s T)) /\
    (forall r C ks, In (ERsSend r T C ks) (s_sent s) -> C = cstar s T /\ C <> 0).
  Proof.
    intros Ht. destruct (a_told _ _ A Ht) as [S _]. split; auto. split.
    - intros k Hk. destruct (async_sealed_keys S k Hk) as [[m [E1 [_ E3]]] | E]; eauto.
    - intros r C ks H. destruct (async_resolver_decision _ _ _ H) as [D1 D2]. destruct (N.eq_dec C 0) as [-> | HC].
      + exfalso. eapply Sealed_NSa; eauto.
      + destruct (D1 HC). auto.
  Qed.
  Lemma async_told_err : F s T FTold = 3 ->
    (forall k c, kget s T k <> Committed c) /\ (forall r C ks, In (ERsSend r T C ks) (s_sent s) -> C = 0).
  Proof.
    intros Ht. assert (N : NSa s T) by (apply (a_dead _ _ A); auto). split.
    - apply (a_nsa_no_commit s T A N).
    - intros r C ks H. destruct (async_resolver_decision _ _ _ H) as [D1 _]. destruct (N.eq_dec C 0) as [-> | HC]; auto.
      exfalso. destruct (D1 HC) as [S _]. eapply Sealed_NSa; eauto.
  Qed.
End AsyncAtomic.
