(* Percolator/Closed.v — the owner's own commit point, for EVERY commit mode (classic, async commit,
   1PC, fallen back): the commit requests that contain the primary are delivered at most once each,
   so once every one of them has a definite negative answer and the owner has given up (told err),
   no commit request containing the primary has taken or will ever take effect. *)
From Verif Require Export Percolator.Layer2e.

Lemma getc_w_own : forall s v T, getc (w_own s v) T = getc s T. Proof. reflexivity. Qed.
Lemma getc_w_csl : forall s v T, getc (w_csl s v) T = getc s T. Proof. reflexivity. Qed.
Lemma getc_w_seen : forall s v T, getc (w_seen s v) T = getc s T. Proof. reflexivity. Qed.

Definition pcn (c : crec) : Prop :=
  cn c FPcNeg <= cn c FPcFaild /\ cn c FPcFaild + cn c FPcOkd = cn c FPcDlv /\ cn c FPcDlv <= cn c FPcSent.

(* how one step changes the commit-point counters of T0 *)
Lemma stepr_pcn : forall s e s' T0, stepr s e = Ok s' -> ginv s T0 ->
  (hasm s T0 -> pcn (getc s T0)) -> hasm s' T0 ->
  pcn (getc s' T0) /\
  (hasm s T0 -> F s T0 FDead <> 0 -> F s' T0 FPcSent = F s T0 FPcSent) /\
  (hasm s T0 -> F s T0 FPcNeg <= F s' T0 FPcNeg /\ F s T0 FPcOkd <= F s' T0 FPcOkd) /\
  (forall r c ks, e = ECmDeliver r T0 c ks CmOk -> In (prim s' T0) ks -> F s' T0 FPcOkd <> 0).
Proof.
  intros s e s' T0 H G P Hh'.
  destruct (option_map (N.eqb T0) (txn_of e)) as [[|] |] eqn:Et.
  2: { assert (Hne : txn_of e <> Some T0) by (intros E'; rewrite E' in Et; cbn in Et; rewrite N.eqb_refl in Et; discriminate).
       pose proof (stepr_getc_other _ _ _ T0 H Hne) as Gc. unfold hasm, F, prim, F in *. rewrite Gc in *.
       repeat split; auto; try lia; try (apply P; auto). intros r c ks ->. exfalso. apply Hne. reflexivity. }
  2: { assert (Hne : txn_of e <> Some T0) by (intros E'; rewrite E' in Et; discriminate).
       pose proof (stepr_getc_other _ _ _ T0 H Hne) as Gc. unfold hasm, F, prim, F in *. rewrite Gc in *.
       repeat split; auto; try lia; try (apply P; auto). intros r c ks ->. discriminate Et. }
  destruct (txn_of e) as [T1 |] eqn:Et'; cbn [option_map] in Et; inversion Et as [Et1]. apply N.eqb_eq in Et1. subst T1.
  pose proof (g_fresh_cnt _ _ G) as Z. unfold hasm, prim, F, pcn in *.
  destruct_event e; cbn [txn_of] in Et'; inversion Et'; subst; cbn [stepr] in H;
    unfold step_pw_send, step_pw_deliver, step_pw_reply, step_cm_send, step_cm_deliver, step_cm_reply, step_rb_send,
           step_rb_deliver, step_cts_send, step_cts_deliver, step_csl_deliver, step_rs_send, step_rs_deliver, step_hb_send,
           step_told, plain_send, plain_reply in H;
    chks H.
  all: repeat match type of H with
              | (match ?d with _ => _ end) = Ok _ => destruct d eqn:?; chks H; try discriminate H
              | (if ?d then _ else _) = Ok _ => destruct d eqn:?; chks H; try discriminate H
              end.
  all: try (okinv H).
  all: repeat match goal with Hx : context [match ?d with _ => _ end] |- _ => is_var d; destruct d eqn:? end.
  all: repeat match goal with |- context [match ?d with _ => _ end] => is_var d; destruct d eqn:? end.
  all: repeat match goal with Hx : context [if ?d then _ else _] |- _ => destruct d eqn:? end.
  all: repeat match goal with |- context [if ?d then _ else _] => destruct d eqn:? end.
  all: getc_keys; rd; rewrite ?getc_w_own, ?getc_w_csl, ?getc_w_seen in *; unfold has_prim in *; b2p.
  all: repeat match goal with Hx : (_ || _) = true |- _ => apply orb_true_iff in Hx; destruct Hx end; b2p.
  all: repeat split; intros; try discriminate; try congruence; try (apply P; assumption); try lia.
  all: try (match goal with Hx : _ = ECmDeliver _ _ _ _ _ |- _ => inversion Hx; subst end).
  all: try (exfalso; match goal with Hx : (_ && mem ?p ?ks) = false, Hy : In ?p ?ks |- _ =>
              apply mem_In in Hy; rewrite Hy, andb_true_r in Hx; apply fb_false in Hx;
              repeat match goal with E : step_keys _ _ _ _ = Some ?y, Hq : context [getc ?y _] |- _ =>
                       rewrite (step_keys_getc _ _ _ _ _ _ E) in Hq end;
              rd; contradiction end).
  all: try (assert (A := P ltac:(assumption)); lia).
  all: try (destruct (N.eq_dec (cn (getc s T0) FHasm) 0) as [Hz | Hz]; [destruct (Z Hz) as [? [? [? [? [? [? ?]]]]]]; lia | assert (A := P Hz); lia]).
Qed.

Record pcinv (s : sys) (T : N) : Prop := {
  pc_cnt : hasm s T -> pcn (getc s T);
  pc_okd : hasm s T -> forall r c ks, In (ECmReply r T c ks CmOk) (s_dlv s) -> In (prim s T) ks -> F s T FPcOkd <> 0 }.

Lemma pcinv_stepr : forall s e s' T, Inv s -> stepr s e = Ok s' -> pcinv s T -> pcinv s' T.
Proof.
  intros s e s' T HI H [P1 P2]. destruct (HI T) as [G _].
  assert (Hback : hasm s' T -> hasm s T \/ exists p ms, e = EMutations T p ms).
  { intros Hh'. destruct (N.eq_dec (F s T FHasm) 0) as [Hz | Hz]; [right | left; exact Hz].
    destruct (option_map (N.eqb T) (txn_of e)) as [[|] |] eqn:Et.
    2: { exfalso. assert (Hne : txn_of e <> Some T) by (intros E'; rewrite E' in Et; cbn in Et; rewrite N.eqb_refl in Et; discriminate).
         unfold hasm, F in *. rewrite (stepr_getc_other _ _ _ T H Hne) in Hh'. contradiction. }
    2: { exfalso. assert (Hne : txn_of e <> Some T) by (intros E'; rewrite E' in Et; discriminate).
         unfold hasm, F in *. rewrite (stepr_getc_other _ _ _ T H Hne) in Hh'. contradiction. }
    destruct (quiet2 e) eqn:Q.
    - exfalso. destruct (stepr_quiet2 _ _ _ T Q H) as [_ _ _ _ _ A _]. unfold hasm, F in *. congruence.
    - destruct e; cbn [quiet2] in Q; try discriminate Q; cbn [txn_of option_map] in Et; inversion Et as [Et1]; apply N.eqb_eq in Et1; subst.
      + eauto.
      + exfalso. cbn [stepr] in H. unfold step_pw_deliver in H. chks H.
        repeat match type of H with
               | (match ?d with _ => _ end) = Ok _ => destruct d eqn:?; chks H; try discriminate H
               | (if ?d then _ else _) = Ok _ => destruct d eqn:?; chks H; try discriminate H
               end; try (okinv H); unfold hasm, F in *; revert Hh'; getc_keys; rd;
          repeat match goal with |- context [if ?d then _ else _] => destruct d eqn:? end; rd; auto. }
  constructor; intros Hh'.
  - apply (stepr_pcn _ _ _ T H G P1 Hh').
  - intros r c ks Hi Hp. destruct (stepr_pcn _ _ _ T H G P1 Hh') as [_ [_ [Mono New]]].
    pose proof (stepr_lists _ _ _ H) as [_ [Ld _]]. destruct Ld as [Ld | [e' [R1 Ld]]]; rewrite Ld in Hi.
    + destruct (Hback Hh') as [Hh | [p [ms ->]]].
      * destruct (stepr_frozen _ _ _ T H) as [_ Fz]. destruct (Fz Hh) as [_ [Ep _]]. rewrite Ep in Hp.
        pose proof (P2 Hh _ _ _ Hi Hp). destruct (Mono Hh). lia.
      * exfalso. apply (g_cm_sent _ _ G) in Hi. apply (g_cmsent_p _ _ G) in Hi. cbn [stepr] in H. chks H. b2p.
        unfold hasm, F in *. destruct Hi as [Hi | [Hi _]]; congruence.
    + destruct Hi as [Hi | Hi].
      * subst e'. destruct e; cbn [reply_of] in R1; try discriminate R1. inversion R1. subst. eapply New; eauto.
      * destruct (Hback Hh') as [Hh | [p [ms ->]]]; [| discriminate R1].
        destruct (stepr_frozen _ _ _ T H) as [_ Fz]. destruct (Fz Hh) as [_ [Ep _]]. rewrite Ep in Hp.
        pose proof (P2 Hh _ _ _ Hi Hp). destruct (Mono Hh). lia.
Qed.

Lemma pcinv_init : forall T, pcinv init T.
Proof. intros T. constructor; intros H; exfalso; apply H; reflexivity. Qed.

Lemma pcinv_run_from : forall evs s s' T, Inv s -> pcinv s T -> run_from s evs = Some s' -> pcinv s' T.
Proof.
  induction evs as [| e evs IH]; intros s s' T HI P H; cbn [run_from] in H.
  - inversion H. subst. auto.
  - unfold step in H. destruct (stepr s e) as [s1 | rr] eqn:E; try discriminate.
    eapply IH; [| | eauto]; [eapply inv_stepr; eauto | eapply pcinv_stepr; eauto].
Qed.
Lemma pcinv_run : forall evs s T, run evs = Some s -> pcinv s T.
Proof. intros evs s T H. eapply pcinv_run_from; [apply inv_init | apply pcinv_init | exact H]. Qed.

Lemma stepr_dead : forall s e s' T, stepr s e = Ok s' -> F s T FDead <> 0 -> F s' T FDead <> 0.
Proof.
  intros s e s1 T E Hd. unfold F in *.
  destruct (quiet e) eqn:Q; [destruct (stepr_quiet _ _ _ T Q E) as [_ _ _ _ _ Af]; rewrite (Af FDead eq_refl); auto |].
  destruct (N.eq_dec (cn (getc s1 T) FDead) 0) as [Hz | Hz]; auto. exfalso.
  destruct (option_map (N.eqb T) (txn_of e)) as [[|] |] eqn:Et.
  2: { assert (Hne : txn_of e <> Some T) by (intros E'; rewrite E' in Et; cbn in Et; rewrite N.eqb_refl in Et; discriminate).
       rewrite (stepr_getc_other _ _ _ T E Hne) in Hz. contradiction. }
  2: { assert (Hne : txn_of e <> Some T) by (intros E'; rewrite E' in Et; discriminate).
       rewrite (stepr_getc_other _ _ _ T E Hne) in Hz. contradiction. }
  destruct e; cbn [quiet] in Q; try discriminate Q; cbn [txn_of option_map] in Et; inversion Et as [Et1]; apply N.eqb_eq in Et1; subst;
    cbn [stepr] in E; unfold step_pw_send, step_pw_deliver, step_pw_reply, step_rb_send, step_cts_deliver, step_told in E; chks E;
    repeat match type of E with
           | (match ?d with _ => _ end) = Ok _ => destruct d eqn:?; chks E; try discriminate E
           | (if ?d then _ else _) = Ok _ => destruct d eqn:?; chks E; try discriminate E
           end; try (okinv E); revert Hz; getc_keys; rd;
    repeat match goal with |- context [match ?d with _ => _ end] => is_var d; destruct d eqn:? end;
    repeat match goal with |- context [if ?d then _ else _] => destruct d eqn:? end; rd; b2p; try congruence; try discriminate.
Qed.

(* the owner gave up (FDead) with every primary commit request answered negatively: the counters are
   frozen, so no commit request containing the primary has succeeded or ever will *)
Lemma closed_run_from : forall evs s s' T, Inv s -> pcinv s T -> hasm s T -> F s T FDead <> 0 ->
  F s T FPcNeg = F s T FPcSent -> run_from s evs = Some s' ->
  hasm s' T /\ prim s' T = prim s T /\ F s' T FDead <> 0 /\ F s' T FPcNeg = F s' T FPcSent /\ pcinv s' T /\ F s' T FPcOkd = 0.
Proof.
  induction evs as [| e evs IH]; intros s s' T HI P Hh Hd Hn H; cbn [run_from] in H.
  - inversion H. subst. destruct (pc_cnt _ _ P Hh) as [A [B C]].
    split; [auto |]. split; [auto |]. split; [auto |]. split; [auto |]. split; [auto |]. unfold F in *. lia.
  - unfold step in H. destruct (stepr s e) as [s1 | rr] eqn:E; try discriminate.
    destruct (HI T) as [G _]. destruct (stepr_frozen _ _ _ T E) as [_ Fz]. destruct (Fz Hh) as [Hh1 [Ep _]].
    destruct (stepr_pcn _ _ _ T E G (pc_cnt _ _ P) Hh1) as [Pn [Sent [Mono _]]].
    specialize (Sent Hh Hd). destruct (Mono Hh) as [M1 _]. destruct Pn as [A [B C]]. unfold F in *.
    assert (Hd1 : cn (getc s1 T) FDead <> 0) by (apply (stepr_dead _ _ _ T E); exact Hd).
    destruct (IH s1 s' T) as [R1 [R2 [R3 [R4 [R5 R6]]]]]; auto.
    + eapply inv_stepr; eauto.
    + eapply pcinv_stepr; eauto.
    + unfold F. lia.
    + split; [auto |]. split; [congruence |]. auto.
Qed.
