(* Percolator/Motion.v — how one accepted step can move a key of the abstract store, with its cause
   (regime independent: no hypothesis about the commit mode). *)
From Verif Require Export Percolator.Async8 Percolator.Closed.

Definition kj (s : sys) (e : event) (s' : sys) (T k : N) : Prop :=
  kget s' T k = kget s T k \/
  (exists r ks m o, e = EPwDeliver r T ks (PwOk m o) /\ In k ks /\
     ((o = 0 /\ kget s T k = Unlocked /\ kget s' T k = Locked m) \/ (o <> 0 /\ kget s' T k = Committed o))) \/
  (exists m c, kget s T k = Locked m /\ kget s' T k = Committed c /\
     ((exists r ks, e = ECmDeliver r T c ks CmOk /\ In k ks) \/ (c <> 0 /\ exists j, In (T, c, j) (s_rs s)))) \/
  (kget s' T k = RolledBack /\ (kget s T k = Unlocked \/ exists m, kget s T k = Locked m) /\
     ((exists r ks, e = ERbDeliver r T ks RbOk /\ In k ks) \/ (exists j, In (T, 0, j) (s_rs s)) \/
      (kget s T k = Unlocked /\ exists r ks, e = ECslDeliver r T ks (CslCommit 0) /\ In k ks) \/
      (exists r, e = ECtsDeliver r T k StRolledBack))).

Lemma tr_cts_locked_total : forall m, tr_total_locked (tr_cts_locked m). Proof. intros m m0; discriminate. Qed.
Lemma alt_of_0 : alt_of 0 = RolledBack. Proof. reflexivity. Qed.
Lemma alt_of_nz : forall c, c <> 0 -> alt_of c = Committed c.
Proof. intros c H. unfold alt_of. apply N.eqb_neq in H. rewrite H. reflexivity. Qed.

(* a lock resolved late through a whole-region resolve: the decision is on record *)
Lemma wr_decision : forall s T c, ginv s T -> In (T, c) (s_wr s) -> exists j, In (T, c, j) (s_rs s).
Proof. intros s T c G H. apply (g_wr _ _ G). auto. Qed.

Lemma kj_locked_alt : forall s e s' T k m c, ginv s T -> kget s T k = Locked m -> In (T, c) (s_wr s) ->
  kget s' T k = alt_of c -> kj s e s' T k.
Proof.
  intros s e s' T k m c G Ek W E. destruct (wr_decision _ _ _ G W) as [j Hj]. destruct (N.eq_dec c 0) as [-> | Hc].
  - right. right. right. rewrite alt_of_0 in E. split; auto. split; [right; eauto |]. right. left. eauto.
  - right. right. left. rewrite (alt_of_nz _ Hc) in E. exists m, c. repeat split; auto. right. split; eauto.
Qed.

Lemma stepr_kj : forall s e s' T, stepr s e = Ok s' -> ginv s T -> forall k, kj s e s' T k.
Proof.
  intros s e s' T H G k.
  destruct (option_map (N.eqb T) (txn_of e)) as [[|] |] eqn:Et.
  2: { left. assert (A : agree s s' T) by (apply (step_agree s e s' T H); intros E'; rewrite E' in Et; cbn in Et; rewrite N.eqb_refl in Et; discriminate).
       apply (a_k _ _ _ A). }
  2: { left. assert (A : agree s s' T) by (apply (step_agree s e s' T H); intros E'; rewrite E' in Et; discriminate). apply (a_k _ _ _ A). }
  destruct (txn_of e) as [T1 |] eqn:Et'; cbn [option_map] in Et; inversion Et as [Et1]. apply N.eqb_eq in Et1. subst T1.
  destruct (kchange e) eqn:Kc; [| left; apply kget_of_kst; eapply stepr_kst_same; eauto].
  destruct e; cbn [kchange] in Kc; try discriminate Kc; cbn [txn_of] in Et'; inversion Et'; subst.
  - (* prewrite delivery *)
    cbn [stepr] in H. unfold step_pw_deliver in H. chks H.
    match type of H with context [setc (add_dlv s ?ee) T ?cc] => set (c' := cc) in *; set (e' := ee) in * end.
    change (setc (add_dlv s e') T c') with (add_dlv (setc s T c') e') in H.
    set (b := setc s T c') in *. assert (Kb : forall k0, kget b T k0 = kget s T k0) by reflexivity.
    destruct res as [m o | |]; try (okinv H; left; reflexivity).
    destruct (o =? 0) eqn:Eo.
    + destruct (step_keys _ _ _ _) as [s2 |] eqn:E; [| discriminate]. okinv H.
      destruct (step_keys_char _ _ _ _ _ _ (tr_pw_ok m) (tr_pw_idem m) (tr_pw_total m) E k) as [[Hk Ch] | [_ Ch]]; [| left; rewrite Ch; apply Kb].
      rewrite Kb in Ch. destruct (kget s T k) eqn:Ek; cbn in Ch; inversion Ch; try (left; congruence).
      right. left. exists r, ks, m, o. repeat split; auto. left. apply N.eqb_eq in Eo. auto.
    + destruct (step_keys _ _ _ _) as [s2 |] eqn:E; [| discriminate]. okinv H.
      destruct (step_keys_char _ _ _ _ _ _ (tr_1pc_ok o) (tr_1pc_idem o) (tr_1pc_total o) E k) as [[Hk Ch] | [_ Ch]]; [| left; rewrite Ch; apply Kb].
      apply tr_1pc_res2 in Ch. right. left. exists r, ks, m, o. repeat split; auto. right. apply N.eqb_neq in Eo. auto.
  - (* commit delivery *)
    cbn [stepr] in H. unfold step_cm_deliver in H. chks H.
    destruct res; chks H; try (destruct (has_prim (getc s T) ks); okinv H; left; reflexivity).
    + destruct (step_keys _ _ _ _) as [s2 |] eqn:E; try discriminate.
      pose proof (step_keys_char _ _ _ _ _ _ (tr_cm_ok c) (tr_cm_idem c) (tr_cm_total c) E k) as Ch.
      assert (Kk : kget s' T k = kget s2 T k) by (destruct (has_prim (getc s T) ks); okinv H; reflexivity).
      rewrite <- Kk in Ch. destruct Ch as [[Hk Ch] | [_ Ch]]; [| left; exact Ch]. change (kget (add_dlv s _) T k) with (kget s T k) in Ch.
      destruct (kget s T k) eqn:Ek; cbn in Ch; try discriminate.
      * inversion Ch. right. right. left. exists m, c. repeat split; auto. left. eauto.
      * destruct (c0 =? c); inversion Ch. left. congruence.
    + destruct (step_keys _ _ _ _) as [s2 |] eqn:E; try discriminate.
      pose proof (step_keys_char _ _ _ _ _ _ (tr_push_ok m) (tr_push_idem m) (tr_push_total m) E k) as Ch.
      assert (Kk : kget s' T k = kget s2 T k) by (destruct (has_prim (getc s T) ks); okinv H; reflexivity).
      rewrite <- Kk in Ch. destruct Ch as [[_ Ch] | [_ Ch]]; [| left; exact Ch]. change (kget (add_dlv s _) T k) with (kget s T k) in Ch.
      unfold tr_push in Ch. inversion Ch. left. congruence.
  - (* rollback delivery *)
    cbn [stepr] in H. unfold step_rb_deliver in H. chks H.
    destruct res; try (okinv H; left; reflexivity).
    destruct (step_keys _ _ _ _) as [s2 |] eqn:E; try discriminate. okinv H.
    destruct (step_keys_char _ _ _ _ _ _ tr_rb_ok tr_rb_idem tr_rb_total E k) as [[Hk Ch] | [_ Ch]]; [| left; exact Ch].
    change (kget (add_dlv s _) T k) with (kget s T k) in Ch.
    destruct (kget s T k) eqn:Ek; cbn in Ch; inversion Ch; try (left; congruence).
    + right. right. right. split; auto. split; [left; auto |]. left. eauto.
    + right. right. right. split; auto. split; [right; eauto |]. left. eauto.
  - (* CheckTxnStatus delivery *)
    cbn [stepr] in H. unfold step_cts_deliver in H. chks H.
    destruct st as [ttl m a secs | cc | | | | |]; chks H; try (okinv H; left; reflexivity).
    + destruct (step_key _ _ _ _) as [s2 |] eqn:K; try discriminate. okinv H.
      apply (step_key_total _ _ _ _ _ (tr_cts_locked_total m)) in K. destruct K as [v [-> K2]].
      apply tr_cts_locked_id in K2. left. rewrite kget_kset, N.eqb_refl. cbn [andb].
      destruct (p =? k) eqn:E; auto. apply N.eqb_eq in E. subst. auto.
    + destruct (step_key _ _ _ _) as [s2 |] eqn:K; try discriminate. okinv H. apply step_key_char in K.
      destruct K as [v [K1 K2]]. destruct (p =? k) eqn:E; [| left; rewrite K1, E; auto]. apply N.eqb_eq in E. subst k.
      destruct K2 as [K2 | [_ [m0 [c0 [K3 [K4 K5]]]]]].
      * apply tr_cts_committed_res in K2. destruct K2 as [-> K2]. left. rewrite K1, N.eqb_refl. auto.
      * apply tr_cts_committed_res in K5. destruct K5 as [Ev K5]. change (kget (add_dlv s _) T p) with (kget s T p) in K3.
        change (s_wr (add_dlv s _)) with (s_wr s) in K4.
        eapply kj_locked_alt; eauto. rewrite K1, N.eqb_refl. congruence.
    + assert (Hr : exists x, step_key x T p tr_rb = Some s' /\ forall k0, kget x T k0 = kget s T k0).
      { match type of H with context [if ?bb then _ else _] => destruct bb end;
          (destruct (step_key _ _ _ _) as [s2 |] eqn:K; try discriminate; okinv H; eexists; split; [exact K | reflexivity]). }
      destruct Hr as [x [K Kx]]. apply (step_key_total _ _ _ _ _ tr_rb_total) in K. destruct K as [v [-> K2]].
      unfold kj. rewrite kget_kset, N.eqb_refl. cbn [andb]. rewrite !Kx in *.
      destruct (p =? k) eqn:E; [| left; auto]. apply N.eqb_eq in E. subst k. apply tr_rb_res in K2. destruct K2 as [-> K2].
      destruct (kget s T p) eqn:Ek.
      * right. right. right. split; auto. split; [left; auto |]. right. right. right. eauto.
      * right. right. right. split; auto. split; [right; eauto |]. right. right. right. eauto.
      * exfalso. eapply K2; eauto.
      * left. auto.
  - (* CheckSecondaryLocks delivery *)
    cbn [stepr] in H. unfold step_csl_deliver in H. chks H.
    destruct st; chks H; try (okinv H; left; reflexivity).
    + destruct (step_csl_locks _ _ _) as [s2 |] eqn:E; try discriminate. okinv H.
      pose proof (step_csl_locks_kevos _ _ _ _ E T k) as Ke. change (kget (add_dlv s _) T k) with (kget s T k) in Ke.
      apply step_csl_locks_char in E. destruct E as [_ Ch]. destruct (Ch T k) as [E1 | [a [b [E1 E2]]]]; [left; exact E1 |].
      change (kget (add_dlv s _) T k) with (kget s T k) in E1. rewrite E1, E2 in Ke. apply kevo_locked in Ke. left. congruence.
    + destruct (c =? 0) eqn:Ec; chks H; [| okinv H; left; reflexivity]. apply N.eqb_eq in Ec. subst c.
      destruct (step_keys _ _ _ _) as [s2 |] eqn:E; try discriminate. okinv H.
      destruct (step_keys_char _ _ _ _ _ _ tr_csl_rb_ok tr_csl_rb_idem tr_csl_rb_total E k) as [[Hk Ch] | [_ Ch]]; [| left; exact Ch].
      change (kget (add_dlv s _) T k) with (kget s T k) in Ch.
      destruct (kget s T k) eqn:Ek; cbn in Ch; inversion Ch; try (left; congruence). apply first_gone_In in Hk.
      right. right. right. split; auto. split; [left; auto |]. right. right. left. split; eauto.
  - (* resolve delivery *)
    cbn [stepr] in H. unfold step_rs_deliver in H. chks H.
    apply sent_by_In in C. destruct C as [e0 [Ce1 Ce2]]. destruct e0; try discriminate. beq. subst.
    destruct (g_rs_sent _ _ G _ _ _ Ce1) as [j Hj].
    destruct res; try (okinv H; left; reflexivity).
    destruct ks as [| k0 ks]; [okinv H; left; reflexivity |].
    destruct (step_keys _ _ _ _) as [s2 |] eqn:E; try discriminate. okinv H.
    destruct (step_keys_char _ _ _ _ _ _ (tr_rs_ok c) (tr_rs_idem c) (tr_rs_total c) E k) as [[_ Ch] | [_ Ch]]; [| left; exact Ch].
    change (kget (add_dlv s _) T k) with (kget s T k) in Ch.
    destruct (kget s T k) eqn:Ek; cbn in Ch; inversion Ch; try (left; congruence).
    destruct (N.eq_dec c 0) as [-> | Hc].
    + right. right. right. rewrite alt_of_0 in *. split; [congruence |]. split; [right; eauto |]. right. left. eauto.
    + right. right. left. rewrite (alt_of_nz _ Hc) in *. exists m, c. repeat split; auto; try congruence. right. split; eauto.
Qed.
