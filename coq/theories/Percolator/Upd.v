(* Percolator/Upd.v — reading state components through the setters; tactics for the per-event proofs. *)
From Verif Require Export Percolator.Agree.

Lemma kget_setc : forall s T c T' k, kget (setc s T c) T' k = kget s T' k. Proof. reflexivity. Qed.
Lemma kget_add_sent : forall s e T k, kget (add_sent s e) T k = kget s T k. Proof. reflexivity. Qed.
Lemma kget_add_dlv : forall s e T k, kget (add_dlv s e) T k = kget s T k. Proof. reflexivity. Qed.
Lemma kget_w_cts : forall s v T k, kget (w_cts s v) T k = kget s T k. Proof. reflexivity. Qed.
Lemma kget_w_rs : forall s v T k, kget (w_rs s v) T k = kget s T k. Proof. reflexivity. Qed.
Lemma kget_w_wr : forall s v T k, kget (w_wr s v) T k = kget s T k. Proof. reflexivity. Qed.
Lemma getc_add_sent : forall s e T, getc (add_sent s e) T = getc s T. Proof. reflexivity. Qed.
Lemma getc_add_dlv : forall s e T, getc (add_dlv s e) T = getc s T. Proof. reflexivity. Qed.
Lemma getc_w_cts : forall s v T, getc (w_cts s v) T = getc s T. Proof. reflexivity. Qed.
Lemma getc_w_rs : forall s v T, getc (w_rs s v) T = getc s T. Proof. reflexivity. Qed.
Lemma getc_w_wr : forall s v T, getc (w_wr s v) T = getc s T. Proof. reflexivity. Qed.
Lemma getc_w_kst : forall s v T, getc (w_kst s v) T = getc s T. Proof. reflexivity. Qed.

Lemma sbk_getc : forall s s' T, same_but_kst s s' -> getc s' T = getc s T.
Proof. intros s s' T H. rewrite H. reflexivity. Qed.
Lemma sbk_sent : forall s s', same_but_kst s s' -> s_sent s' = s_sent s. Proof. intros s s' H. rewrite H. reflexivity. Qed.
Lemma sbk_dlv : forall s s', same_but_kst s s' -> s_dlv s' = s_dlv s. Proof. intros s s' H. rewrite H. reflexivity. Qed.
Lemma sbk_cts : forall s s', same_but_kst s s' -> s_cts s' = s_cts s. Proof. intros s s' H. rewrite H. reflexivity. Qed.
Lemma sbk_rs : forall s s', same_but_kst s s' -> s_rs s' = s_rs s. Proof. intros s s' H. rewrite H. reflexivity. Qed.
Lemma sbk_wr : forall s s', same_but_kst s s' -> s_wr s' = s_wr s. Proof. intros s s' H. rewrite H. reflexivity. Qed.

Lemma cn_set_muts : forall c l a f, cn (set_muts c l a) f = cn c f. Proof. reflexivity. Qed.
Lemma cn_add_pwok : forall c ks f, cn (add_pwok c ks) f = cn c f. Proof. reflexivity. Qed.
Lemma cn_add_kl : forall c t ks f, cn (add_kl c t ks) f = cn c f. Proof. reflexivity. Qed.
Lemma cn_add_lam : forall c ks m f, cn (add_lam c ks m) f = cn c f. Proof. reflexivity. Qed.

(* read-through normalisation: goal, then only the hypotheses that mention a setter *)
Ltac sproj_g := cbn [s_tso s_kst s_sent s_dlv s_cl s_own s_crashed s_cts s_csl s_seen s_gc s_rs s_wr
                   setc kset add_sent add_dlv
                   w_tso w_kst w_sent w_dlv w_cl w_own w_crashed w_cts w_csl w_seen w_gc w_rs w_wr].
Ltac sproj_h H := cbn [s_tso s_kst s_sent s_dlv s_cl s_own s_crashed s_cts s_csl s_seen s_gc s_rs s_wr
                   setc kset add_sent add_dlv
                   w_tso w_kst w_sent w_dlv w_cl w_own w_crashed w_cts w_csl w_seen w_gc w_rs w_wr] in H.
Ltac cns_g :=
  repeat (rewrite ?cn_set_muts, ?cn_add_pwok, ?cn_add_kl, ?cn_add_lam, ?cn_incn_eq, ?cn_setn_eq;
          try rewrite cn_incn_ne by discriminate;
          try rewrite cn_setn_ne by discriminate);
  cbn [c_lm c_all c_pwok c_kl c_lam setn incn set_muts add_pwok add_kl add_lam].
Ltac cns_h H :=
  repeat (rewrite ?cn_set_muts, ?cn_add_pwok, ?cn_add_kl, ?cn_add_lam, ?cn_incn_eq, ?cn_setn_eq in H;
          try rewrite cn_incn_ne in H by discriminate;
          try rewrite cn_setn_ne in H by discriminate);
  cbn [c_lm c_all c_pwok c_kl c_lam setn incn set_muts add_pwok add_kl add_lam] in H.
Ltac rd_g :=
  repeat rewrite ?kget_setc, ?kget_add_sent, ?kget_add_dlv, ?kget_w_cts, ?kget_w_rs, ?kget_w_wr,
                 ?getc_setc_eq, ?getc_add_sent, ?getc_add_dlv, ?getc_w_cts, ?getc_w_rs, ?getc_w_wr;
  sproj_g; cns_g.
Ltac rd_h H :=
  repeat rewrite ?kget_setc, ?kget_add_sent, ?kget_add_dlv, ?kget_w_cts, ?kget_w_rs, ?kget_w_wr,
                 ?getc_setc_eq, ?getc_add_sent, ?getc_add_dlv, ?getc_w_cts, ?getc_w_rs, ?getc_w_wr in H;
  sproj_h H; cns_h H.
Ltac rd :=
  rd_g;
  repeat match goal with
         | H : context [setc _ _ _] |- _ => progress (rd_h H)
         | H : context [add_sent _ _] |- _ => progress (rd_h H)
         | H : context [add_dlv _ _] |- _ => progress (rd_h H)
         | H : context [w_cts _ _] |- _ => progress (rd_h H)
         | H : context [w_rs _ _] |- _ => progress (rd_h H)
         | H : context [w_wr _ _] |- _ => progress (rd_h H)
         | H : context [setn _ _ _] |- _ => progress (cns_h H)
         | H : context [incn _ _] |- _ => progress (cns_h H)
         | H : context [add_pwok _ _] |- _ => progress (cns_h H)
         | H : context [set_muts _ _ _] |- _ => progress (cns_h H)
         | H : context [add_kl _ _ _] |- _ => progress (cns_h H)
         | H : context [add_lam _ _ _] |- _ => progress (cns_h H)
         end.

Ltac unf := unfold F, hasm, prim, lm, pwok in *.

(* stability of store facts along kmono *)
Lemma km_committed : forall s s' T k c, kmono s s' -> kget s T k = Committed c -> kget s' T k = Committed c.
Proof. intros s s' T k c H E. specialize (H T k). rewrite E in H. apply kstep_committed in H. auto. Qed.
Lemma km_rolledback : forall s s' T k, kmono s s' -> kget s T k = RolledBack -> kget s' T k = RolledBack.
Proof. intros s s' T k H E. specialize (H T k). rewrite E in H. apply kstep_rolledback in H. auto. Qed.
Lemma km_not_unlocked : forall s s' T k, kmono s s' -> kget s T k <> Unlocked -> kget s' T k <> Unlocked.
Proof. intros s s' T k H E. eapply kstep_not_unlocked; eauto. Qed.
Lemma km_alt : forall s s' T k c, kmono s s' -> kget s T k = alt_of c -> kget s' T k = alt_of c.
Proof.
  intros s s' T k c H E. destruct (alt_of_final c) as [A | A]; rewrite A in *.
  - eapply km_rolledback; eauto.
  - eapply km_committed; eauto.
Qed.
(* a changed key was Unlocked or Locked before *)
Lemma km_changed : forall s s' T k, kmono s s' -> kget s' T k <> kget s T k ->
  (kget s T k = Unlocked \/ exists m, kget s T k = Locked m) /\ kget s' T k <> Unlocked.
Proof. intros s s' T k H E. destruct (H T k) as [A | A]; auto. contradiction. Qed.

Lemma kstate_eq_dec : forall a b : kstate, {a = b} + {a <> b}.
Proof. decide equality; apply N.eq_dec. Qed.

Definition invT (s : sys) (T : N) : Prop := ginv s T /\ (hasm s T -> classic s T -> tinv s T).

Ltac unf2 := unfold hasm, prim, lm, pwok, F in *.
Ltac insplit :=
  repeat match goal with
         | H : In _ (_ :: _) |- _ =>
             destruct H as [H | H]; [ first [discriminate H | inversion H; subst; clear H] | ]
         end.
Ltac fin := first [ solve [eauto] | solve [right; eauto] | solve [left; eauto] | solve [eauto using in_cons] | lia | idtac ].
Ltac b2p :=
  repeat match goal with
         | H : negb _ = true |- _ => apply negb_true_iff in H
         | H : negb _ = false |- _ => apply negb_false_iff in H
         | H : (_ || _) = false |- _ => apply orb_false_iff in H; destruct H
         | H : (_ && _) = true |- _ => let H' := fresh H in apply andb_true_iff in H; destruct H as [H H']
         | H : (_ =? _) = true |- _ => apply N.eqb_eq in H
         | H : (_ =? _) = false |- _ => apply N.eqb_neq in H
         | H : (_ <? _) = true |- _ => apply N.ltb_lt in H
         | H : (_ <=? _) = true |- _ => apply N.leb_le in H
         | H : fb _ _ = true |- _ => apply fb_true in H
         | H : fb _ _ = false |- _ => apply fb_false in H
         | H : mem _ _ = true |- _ => apply mem_In in H
         end.
Lemma mem_false : forall k l, mem k l = false -> ~ In k l.
Proof. intros k l H Hi. apply mem_In in Hi. congruence. Qed.

Ltac exs :=
  match goal with
  | Hc : (forall r ks x, In (EPwReply r _ ks x) _ -> exists _, _), H : In (EPwReply _ _ _ _) _ |- exists _, _ =>
      let Hs := fresh "Hs" in
      destruct (Hc _ _ _ H) as [? [? [? [? [? [? Hs]]]]]]; do 6 eexists; first [right; exact Hs | exact Hs]
  | Hc : (forall r c ks, In (ERsSend r _ c ks) _ -> exists _, _), H : In (ERsSend _ _ _ _) _ |- exists _, _ =>
      let Hj := fresh "Hj" in
      destruct (Hc _ _ _ H) as [? Hj]; eexists; first [right; exact Hj | exact Hj]
  | Hc : (forall c, In (_, c) (s_wr _) -> exists _, _), H : In (_, _) (s_wr _) |- exists _, _ =>
      let Hj := fresh "Hj" in
      destruct (Hc _ H) as [? Hj]; eexists; first [right; exact Hj | exact Hj]
  end.
Ltac fin2 := fin; try exs; try (solve [eexists; left; reflexivity]).

(* ---- transfer of the derived predicates along a step ---- *)
Section Mono.
  Variables (s s' : sys) (T : N).
  Hypothesis K : kmono s s'.
  Hypothesis L : c_lm (getc s' T) = c_lm (getc s T).
  Lemma some_rb_mono : some_rb s T -> some_rb s' T.
  Proof.
    unfold some_rb, lm. rewrite L. intros [k [H1 H2]]. exists k. split; auto. eapply km_rolledback; eauto.
  Qed.
  Hypothesis HD : cn (getc s T) FDead <> 0 -> cn (getc s' T) FDead <> 0.
  Hypothesis HC : cn (getc s T) FDead <> 0 -> cn (getc s T) FPcNeg = cn (getc s T) FPcSent ->
                  cn (getc s' T) FPcNeg = cn (getc s' T) FPcSent.
  Lemma Dn_mono : Dn s T -> Dn s' T.
  Proof.
    unfold Dn, F. intros [H1 [H2 | H2]]; split; auto. right. apply some_rb_mono. auto.
  Qed.
  Hypothesis P : cn (getc s' T) FPrim = cn (getc s T) FPrim.
  Hypothesis HP : forall k, kget s T k = RolledBack -> pwdlv s' T k -> pwdlv s T k.
  Lemma Dd_mono : Dd s T -> Dd s' T.
  Proof.
    unfold Dd, closed, NS, prim, lm, F. rewrite P, L. intros [H | [[H1 H2] | [k [H1 [H2 H3]]]]].
    - left. eapply km_rolledback; eauto.
    - right. left. split; auto.
    - right. right. exists k. split; auto. split; [eapply km_rolledback; eauto |]. intros H4. apply H3. apply HP; auto.
  Qed.
End Mono.

Lemma kmono_same : forall s s', (forall T k, kget s' T k = kget s T k) -> kmono s s'.
Proof. intros s s' H T k. rewrite H. apply kstep_refl. Qed.
Lemma pwdlv_incl : forall s s' T k, incl (s_dlv s) (s_dlv s') -> pwdlv s T k -> pwdlv s' T k.
Proof. intros s s' T k H [r [ks [m [o [H1 H2]]]]]. exists r, ks, m, o. split; auto. Qed.
