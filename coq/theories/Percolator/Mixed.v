(* Percolator/Mixed.v — a transaction one of whose locked mutations holds (held) a lock that is not an
   async-commit lock is a two-phase-commit transaction for everybody: the owner cannot keep async commit,
   no resolver can commit it through the CheckSecondaryLocks fold. Invariant [minv] and its preservation. *)
From Verif Require Export Percolator.Preseal.

Definition mixed (s : sys) (T : N) : Prop :=
  hasm s T /\ no1pc s T /\ exists k0, In k0 (lm s T) /\ lamk s T k0 = Some 0.

Record minv (s : sys) (T : N) : Prop := {
  m_cmsent : forall r c ks, In (ECmSend r T c ks) (s_sent s) -> ~ In (prim s T) ks -> kget s T (prim s T) = Committed c;
  m_one : forall k c, kget s T k = Committed c -> kget s T (prim s T) = Committed c;
  m_pcommit : forall c, kget s T (prim s T) = Committed c -> F s T FPcOkd <> 0;
  m_told_ok : F s T FTold = 1 -> exists c, kget s T (prim s T) = Committed c;
  m_fb : forall k, In k (lm s T) -> lamk s T k = Some 0 -> In k (pwok s T) -> F s T FTriedA <> 0 -> F s T FFb <> 0;
  m_dec : forall C j, In (T, C, j) (s_rs s) -> C <> 0 -> kget s T (prim s T) = Committed C;
  m_cslc : forall r ks C, In (ECslReply r T ks (CslCommit C)) (s_dlv s) -> C <> 0 -> kget s T (prim s T) = Committed C
}.

Lemma stepr_fields2 : forall s e s' T0, stepr s e = Ok s' ->
  (F s T0 FFb <> 0 -> F s' T0 FFb <> 0) /\
  (F s' T0 FTriedA <> 0 -> F s T0 FTriedA <> 0 \/ exists r p ks a o m f secs, e = EPwSend r T0 p ks a o m f secs) /\
  (forall r ks o, e = EPwReply r T0 ks (PwOk 0 o) -> F s' T0 FFb <> 0) /\
  (forall r ks x, e = EPwReply r T0 ks x -> F s' T0 FTriedA = F s T0 FTriedA).
Proof.
  intros s e s' T0 H. unfold F.
  destruct (option_map (N.eqb T0) (txn_of e)) as [[|] |] eqn:Et.
  2: { assert (Hne : txn_of e <> Some T0) by (intros E'; rewrite E' in Et; cbn in Et; rewrite N.eqb_refl in Et; discriminate).
       rewrite (stepr_getc_other _ _ _ T0 H Hne). repeat split; auto; intros; subst; exfalso; apply Hne; reflexivity. }
  2: { assert (Hne : txn_of e <> Some T0) by (intros E'; rewrite E' in Et; discriminate).
       rewrite (stepr_getc_other _ _ _ T0 H Hne). repeat split; auto; intros; subst; discriminate Et. }
  destruct (txn_of e) as [T1 |] eqn:Et'; cbn [option_map] in Et; inversion Et as [Et1]. apply N.eqb_eq in Et1. subst T1.
  destruct_event e; cbn [txn_of] in Et'; inversion Et'; subst; cbn [stepr] in H; brute H.
  all: repeat match goal with |- context [match ?d with _ => _ end] => is_var d; destruct d eqn:? end.
  all: repeat match goal with |- context [if ?d then _ else _] => destruct d eqn:? end.
  all: getc_keys; rd; repeat match goal with |- context [if ?d then _ else _] => destruct d eqn:? end; rd.
  all: repeat split; intros; auto; try discriminate; try (right; do 8 eexists; reflexivity).
  all: try (match goal with Hx : _ = EPwReply _ _ _ _ |- _ => inversion Hx; subst end; try discriminate; cbn in *; try discriminate; auto).
Qed.

(* ---------------- one step of a transaction that is already mixed ---------------- *)
Section MStep.
  Variables (s : sys) (e : event) (s' : sys) (T : N).
  Hypothesis H : stepr s e = Ok s'.
  Hypothesis HI : Inv s.
  Hypothesis HL : Linv s.
  Hypothesis HZ : Zinv s.
  Hypothesis HY : Yinv s.
  Hypothesis Hh : hasm s T.
  Hypothesis PC : pcinv s T.
  Hypothesis U : uinv s T.
  Hypothesis U' : uinv s' T.
  Hypothesis N1' : no1pc s' T.
  Variable k0 : N.
  Hypothesis K0 : In k0 (lm s T).
  Hypothesis K0l : lamk s T k0 = Some 0.
  Hypothesis M : minv s T.
  Let G : ginv s T := proj1 (HI T).
  Let L : linv s T := HL T.
  Let HI' : Inv s' := inv_stepr _ _ _ HI H.
  Let G' : ginv s' T := proj1 (HI' T).
  Let Ep : prim s' T = prim s T := st_prim s e s' T H Hh.
  Let Em : lm s' T = lm s T := st_lm s e s' T H Hh.
  Let N1 : no1pc s T := no1pc_back _ _ _ _ H N1'.
  Let Cm' := st_committed s e s' T H.

  Lemma not_async_kept : (forall k, In k (lm s T) -> In k (pwok s T)) -> async_kept (getc s T) = true -> False.
  Proof.
    intros Hsub Ha. unfold async_kept in Ha. b2p. apply (m_fb _ _ M k0 K0 K0l (Hsub _ K0)); auto.
  Qed.

  Lemma ms_cmsent : forall r c ks, In (ECmSend r T c ks) (s_sent s') -> ~ In (prim s' T) ks -> kget s' T (prim s' T) = Committed c.
  Proof.
    intros r c ks Hi Hp. rewrite Ep in *. apply Cm'. destruct (st_sent_new s e s' H _ Hi) as [B | B]; [eapply (m_cmsent _ _ M); eauto |].
    pose proof H as H2. rewrite <- B in H2. clear B. cbn [stepr] in H2. unfold step_cm_send in H2. chks H2.
    assert (Ef : fb (getc s T) FHasm = true) by (apply fb_true; exact Hh). rewrite Ef in H2. chks H2.
    destruct (mem (cn (getc s T) FPrim) ks) eqn:Emem; [exfalso; apply Hp; apply mem_In; exact Emem |]. chks H2.
    match goal with Hx : _ || async_kept _ = true |- _ => rename Hx into CJ end. apply orb_true_iff in CJ. destruct CJ as [CJ | CJ].
    - b2p. assert (Hc : c <> 0) by lia. rewrite <- CJ in *. apply (l_pcok _ _ L Hh). unfold F. exact Hc.
    - exfalso. eapply not_async_kept; eauto. intros k Hk. eapply subset_In; eauto.
  Qed.

  Lemma ms_one : forall k c, kget s' T k = Committed c -> kget s' T (prim s' T) = Committed c.
  Proof.
    intros k c Ek'. rewrite Ep.
    destruct (st_kj s e s' T H HI k) as [Same | [[r [ks [m [o [Ee [Hk [[_ [_ E]] | [Ho E]]]]]]]] | [[m [c' [_ [E Cause]]]] | [E _]]]]; try congruence.
    - apply Cm'. apply (m_one _ _ M k). congruence.
    - exfalso. apply Ho. apply (N1' r ks m o). eapply deliver_in_dlv; eauto. rewrite Ee. reflexivity.
    - assert (c' = c) by congruence. subst c'. destruct Cause as [[r [ks [Ee Hk]]] | [Hc [j Hj]]].
      + assert (Hi : In (ECmReply r T c ks CmOk) (s_dlv s')) by (eapply deliver_in_dlv; eauto; rewrite Ee; reflexivity).
        destruct (in_dec N.eq_dec (prim s T) ks) as [Hp | Hp]; [apply (g_cm _ _ G' _ _ _ _ Hi Hp) |].
        apply Cm'. apply (g_cm_sent _ _ G') in Hi. destruct (st_sent_new s e s' H _ Hi) as [B | B]; [| rewrite Ee in B; discriminate B].
        eapply (m_cmsent _ _ M); eauto.
      + apply Cm'. eapply (m_dec _ _ M); eauto.
  Qed.

  Lemma ms_pcommit : forall c, kget s' T (prim s' T) = Committed c -> F s' T FPcOkd <> 0.
  Proof.
    intros c Ek'. rewrite Ep in Ek'.
    destruct (stepr_pcn _ _ _ T H G (pc_cnt _ _ PC) (st_hasm s e s' T H Hh)) as [_ [_ [Mono New]]]. destruct (Mono Hh) as [_ M2].
    destruct (st_kj s e s' T H HI (prim s T)) as [Same | [[r [ks [m [o [Ee [Hk [[_ [_ E]] | [Ho E]]]]]]]] | [[m [c' [El [E Cause]]]] | [E _]]]]; try congruence.
    - assert (F s T FPcOkd <> 0) by (apply (m_pcommit _ _ M c); congruence). lia.
    - exfalso. apply Ho. apply (N1' r ks m o). eapply deliver_in_dlv; eauto. rewrite Ee. reflexivity.
    - destruct Cause as [[r [ks [Ee Hk]]] | [Hc [j Hj]]].
      + eapply New; eauto. rewrite Ep. auto.
      + exfalso. rewrite (m_dec _ _ M _ _ Hj Hc) in El. discriminate El.
  Qed.

  Lemma ms_told_ok : F s' T FTold = 1 -> exists c, kget s' T (prim s' T) = Committed c.
  Proof.
    intros Ht. rewrite Ep. destruct (stepr_fields _ _ _ T H) as [[Same | [x [Ee [_ Ex]]]] _].
    - destruct (m_told_ok _ _ M) as [c Hc]; [congruence |]. exists c. auto.
    - rewrite Ht in Ex. destruct x; try discriminate Ex.
      pose proof H as H2. rewrite Ee in H2. clear Ee. cbn [stepr] in H2. unfold step_told in H2. chks H2.
      match goal with Hx : _ || _ || _ || _ = true |- _ => rename Hx into CJ end.
      apply orb_true_iff in CJ. destruct CJ as [CJ | CD]; [| exfalso; b2p; unfold hasm, F in Hh; congruence].
      apply orb_true_iff in CJ. destruct CJ as [CJ | CJ]; [apply orb_true_iff in CJ; destruct CJ as [CJ | CJ] |].
      + b2p. exists (cn (getc s T) FPcOk). apply Cm'. apply (l_pcok _ _ L Hh). auto.
      + exfalso. b2p. destruct (u_1pcts _ _ U CJ) as [r [ks [m [o [B1 B2]]]]]. apply B2. eapply N1; eauto.
      + exfalso. apply andb_true_iff in CJ. destruct CJ as [CJ _]. apply andb_true_iff in CJ. destruct CJ as [CJ Hsub].
        apply andb_true_iff in CJ. destruct CJ as [CJ _]. eapply not_async_kept; eauto. intros k Hk. eapply subset_In; eauto.
  Qed.
  Lemma ms_fb : forall k, In k (lm s' T) -> lamk s' T k = Some 0 -> In k (pwok s' T) -> F s' T FTriedA <> 0 -> F s' T FFb <> 0.
  Proof.
    intros k Hk Hl Hp Ha. rewrite Em in Hk.
    destruct (stepr_fields2 _ _ _ T H) as [Fb [Ta [Fb0 Tsame]]].
    destruct (stepr_fields _ _ _ T H) as [_ [_ [_ [_ [_ Pw]]]]].
    assert (Hl0 : lamk s T k = Some 0).
    { destruct (proj2 (stepr_lam _ _ _ T k H L) _ Hl) as [B | [Eu [r [ks [Ee _]]]]]; auto. exfalso.
      destruct Pw as [Pw | [r1 [ks1 [m1 [o1 [Ee1 _]]]]]]; [| rewrite Ee in Ee1; discriminate Ee1].
      rewrite Pw in Hp. apply (g_pwok _ _ G) in Hp. eapply (pwdlv_not_unlocked s T k); eauto. }
    destruct Pw as [Pw | [r [ks [m [o [Ee Pw]]]]]].
    - rewrite Pw in Hp. destruct (Ta Ha) as [Ha0 | [r [p [ks [a [o [m [f [secs Ee]]]]]]]]]; [apply Fb; apply (m_fb _ _ M k); auto |].
      apply Fb. destruct (N.eq_dec (F s T FPwSent) 0) as [Hz | Hz].
      + exfalso. destruct (y_lam0 _ _ (HY T) Hz) as [_ [Y2 _]]. unfold pwok in Hp. rewrite Y2 in Hp. destruct Hp.
      + destruct (z_mode _ _ (HZ T) Hz) as [_ [B | B]]; auto. apply (m_fb _ _ M k); auto.
    - rewrite Pw in Hp. rewrite (Tsame _ _ _ Ee) in Ha. apply in_app_or in Hp. destruct Hp as [Hp | Hp]; [| apply Fb; apply (m_fb _ _ M k); auto].
      pose proof H as H2. rewrite Ee in H2. cbn [stepr] in H2. unfold step_pw_reply in H2. chks H2. apply delivered_In in C0.
      assert (o = 0) by (eapply N1; eauto). subst o.
      destruct (u_entry _ _ U _ _ _ C0 k Hp) as [E1 | [E1 | E1]].
      + assert (m = 0) by congruence. subst m. eapply Fb0; eauto.
      + subst m. eapply Fb0; eauto.
      + apply Fb. apply (m_fb _ _ M k); auto. apply (u_pwok _ _ U); auto.
        apply (m_one _ _ M) in E1. apply (m_pcommit _ _ M) in E1. destruct (pc_cnt _ _ PC Hh) as [A1 [A2 A3]]. unfold F in *. lia.
  Qed.

  Lemma ms_dec : forall C j, In (T, C, j) (s_rs s') -> C <> 0 -> kget s' T (prim s' T) = Committed C.
  Proof.
    intros C j Hj HC. rewrite Ep. apply Cm'. destruct (st_rs_new s e s' H _ _ _ Hj) as [B | [r [ks Ee]]]; [eapply (m_dec _ _ M); eauto |].
    pose proof H as H2. rewrite Ee in H2. clear Ee. cbn [stepr] in H2. unfold step_rs_send in H2. chks H2.
    destruct (just_cts s r T C) as [p |] eqn:J; chks H2.
    - destruct (just_cts_In _ _ _ _ _ J) as [[_ Hi] | [Hc _]]; [| contradiction].
      apply (g_cts_sub _ _ G) in Hi. apply (g_cts_c _ _ G) in Hi.
      assert (Ef : fb (getc s T) FHasm = true) by (apply fb_true; exact Hh).
      match goal with Hx : negb (fb _ FHasm) || _ = true |- _ => rewrite Ef in Hx; cbn [negb orb] in Hx; apply N.eqb_eq in Hx; unfold prim, F; rewrite <- Hx; auto end.
    - match goal with Hx : _ || csl_all_locked _ _ _ _ = true |- _ => rename Hx into CJ end.
      apply orb_true_iff in CJ. destruct CJ as [CJ | CJ].
      + apply andb_true_iff in CJ. destruct CJ as [CJ _]. unfold csl_missing in CJ. apply existsb_exists in CJ.
        destruct CJ as [e0 [E1 E2]]. destruct e0; try discriminate. destruct st; try discriminate. b2p. subst.
        apply (l_csl_sub _ _ L) in E1. eapply (m_cslc _ _ M); eauto.
      + exfalso. unfold csl_all_locked in CJ. apply existsb_exists in CJ. destruct CJ as [e0 [E1 E2]].
        destruct e0; try discriminate. destruct st; try discriminate. destruct async; try discriminate. cbv zeta in E2. b2p. subst.
        apply (g_cts_sub _ _ G) in E1. destruct (u_ctsl _ _ U _ _ _ _ _ E1) as [Hm [Lp [-> Hs]]].
        destruct (N.eq_dec k0 (prim s T)) as [Eq | Hne]; [rewrite Eq in K0l; congruence |].
        assert (Hk : In k0 secs) by (apply Hs; auto).
        match goal with Hx : forallb _ secs = true |- _ => pose proof (forallb_In _ _ _ Hx Hk) as Cx end. cbn beta in Cx.
        apply existsb_exists in Cx. destruct Cx as [[k' Mm] [X1 X2]]. cbn [fst] in X2. apply N.eqb_eq in X2. subst k'.
        match goal with Hx : forallb _ (filter _ _) = true |- _ => rewrite forallb_forall in Hx; specialize (Hx (k0, Mm)); cbn [snd] in Hx end.
        assert (HM : Mm <> 0).
        { apply N.eqb_neq. apply negb_true_iff. match goal with Hx : In _ (filter _ _) -> _ |- _ => apply Hx end.
          apply filter_In. split; auto. cbn [fst]. apply mem_In. auto. }
        apply csl_lock_ms_In2 in X1. destruct X1 as [ks0 [l [X1 X3]]]. apply (l_csl_sub _ _ L) in X1.
        pose proof (u_csll _ _ U _ _ _ X1 _ _ X3). congruence.
  Qed.

  Lemma ms_cslc : forall r ks C, In (ECslReply r T ks (CslCommit C)) (s_dlv s') -> C <> 0 -> kget s' T (prim s' T) = Committed C.
  Proof.
    intros r ks C Hi HC. rewrite Ep. apply Cm'. destruct (st_dlv_new s e s' H _ Hi) as [B | B]; [eapply (m_cslc _ _ M); eauto |].
    apply reply_of_eq in B. pose proof H as H2. rewrite B in H2. clear B. cbn [stepr] in H2. unfold step_csl_deliver in H2. chks H2.
    apply N.eqb_neq in HC. rewrite HC in H2. apply N.eqb_neq in HC. chks H2.
    match goal with Hx : existsb _ ks = true |- _ => apply existsb_exists in Hx; destruct Hx as [k [K1 K2]] end.
    destruct (kget s T k) eqn:Ek; try discriminate.
    - apply existsb_exists in K2. destruct K2 as [[T' c] [W1 W2]]. cbn [fst snd] in W2. b2p. subst.
      destruct (wr_decision _ _ _ G W1) as [j Hj]. eapply (m_dec _ _ M); eauto.
    - apply N.eqb_eq in K2. subst. eapply (m_one _ _ M); eauto.
  Qed.

  Theorem minv_step : minv s' T.
  Proof. constructor; [exact ms_cmsent | exact ms_one | exact ms_pcommit | exact ms_told_ok | exact ms_fb | exact ms_dec | exact ms_cslc]. Qed.
End MStep.

(* ---------------- the step that writes the first non-async lock on a locked mutation ---------------- *)
Lemma minv_transition : forall s s' r T ks, Inv s -> Linv s -> hasm s T -> uinv s T -> vfacts s T ->
  (forall k, In k (lm s T) -> lamk s T k <> Some 0) ->
  stepr s (EPwDeliver r T ks (PwOk 0 0)) = Ok s' -> minv s' T.
Proof.
  intros s s' r T ks HI HL Hh U VF Hno H. destruct (HI T) as [G _]. pose proof (HL T) as L.
  pose proof (st_prim _ _ _ T H Hh) as Ep. pose proof (st_lm _ _ _ T H Hh) as Em.
  assert (Noc : forall k c, kget s' T k <> Committed c).
  { intros k c Ek'.
    destruct (st_kj _ _ _ T H HI k) as [Same | [[r1 [ks1 [m [o [Ee [Hk [[_ [_ E]] | [Ho E]]]]]]]] | [[m [c' [_ [E Cause]]]] | [E _]]]]; try congruence.
    - apply (v_nocommit _ _ VF k c). congruence.
    - destruct Cause as [[r1 [ks1 [Ee _]]] | [Hc [j Hj]]]; [discriminate Ee | apply Hc; eapply (v_dec _ _ VF); eauto]. }
  constructor.
  - intros r1 c ks1 Hi _. exfalso. destruct (st_sent_new _ _ _ H _ Hi) as [B | B]; [eapply (v_nocm _ _ VF); eauto | discriminate B].
  - intros k c E. exfalso. eapply Noc; eauto.
  - intros c E. exfalso. eapply Noc; eauto.
  - intros Ht. exfalso. destruct (stepr_fields _ _ _ T H) as [[Same | [x [Ee _]]] _]; [apply (v_told _ _ VF); congruence | discriminate Ee].
  - intros k Hk Hl Hp _. exfalso. rewrite Em in Hk.
    destruct (stepr_fields _ _ _ T H) as [_ [_ [_ [_ [_ [Pw | [r1 [ks1 [m1 [o1 [Ee _]]]]]]]]]]]; [| discriminate Ee].
    destruct (proj2 (stepr_lam _ _ _ T k H L) _ Hl) as [B | [Eu _]]; [eapply Hno; eauto |].
    rewrite Pw in Hp. apply (g_pwok _ _ G) in Hp. eapply (pwdlv_not_unlocked s T k); eauto.
  - intros C j Hj HC. exfalso. apply HC. destruct (st_rs_new _ _ _ H _ _ _ Hj) as [B | [r1 [ks1 Ee]]]; [eapply (v_dec _ _ VF); eauto | discriminate Ee].
  - intros r1 ks1 C Hi HC. exfalso. apply HC. destruct (st_dlv_new _ _ _ H _ Hi) as [B | B]; [eapply (v_cslc _ _ VF); eauto | discriminate B].
Qed.

Definition Minv (s : sys) : Prop := forall T, mixed s T -> minv s T.

Theorem minv_stepr : forall s e s', Inv s -> Linv s -> Zinv s -> Yinv s -> Pinv s -> Uinv s -> Uinv s' -> Vinv s -> Minv s ->
  stepr s e = Ok s' -> Minv s'.
Proof.
  intros s e s' HI HL HZ HY HP HU HU' HV HM H T [Hh' [N1' [k0 [K1 K2]]]].
  destruct (N.eq_dec (F s T FHasm) 0) as [Hz | Hz].
  { (* no key of a transaction without logged mutations has ever been locked *)
    exfalso. destruct (HI T) as [G _].
    destruct (proj2 (stepr_lam _ _ _ T k0 H (HL T)) _ K2) as [B | [Eu [r [ks [Ee Hk]]]]].
    - assert (Hs : F s T FPwSent <> 0).
      { intros Hp. destruct (y_lam0 _ _ (HY T) Hp) as [Y1 _]. unfold lamk, lam in B. rewrite Y1 in B. discriminate B. }
      destruct (option_map (N.eqb T) (txn_of e)) as [[|] |] eqn:Et.
      2: { assert (Hne : txn_of e <> Some T) by (intros E'; rewrite E' in Et; cbn in Et; rewrite N.eqb_refl in Et; discriminate).
           unfold hasm, F in *. rewrite (stepr_getc_other _ _ _ T H Hne) in Hh'. contradiction. }
      2: { assert (Hne : txn_of e <> Some T) by (intros E'; rewrite E' in Et; discriminate).
           unfold hasm, F in *. rewrite (stepr_getc_other _ _ _ T H Hne) in Hh'. contradiction. }
      destruct (quiet2 e) eqn:Q.
      + destruct (stepr_quiet2 _ _ _ T Q H) as [_ _ _ _ _ A _]. unfold hasm, F in *. congruence.
      + destruct e; cbn [quiet2] in Q; try discriminate Q; cbn [txn_of option_map] in Et; inversion Et as [Et1]; apply N.eqb_eq in Et1; subst.
        * cbn [stepr] in H. chks H. b2p. unfold F in *. congruence.
        * rewrite (proj2 (proj2 (stepr_quiet3 _ _ _ T eq_refl H)) FHasm eq_refl) in Hh' || idtac.
          cbn [stepr] in H. unfold step_pw_deliver in H. chks H.
          repeat match type of H with
                 | (match ?d with _ => _ end) = Ok _ => destruct d eqn:?; chks H; try discriminate H
                 | (if ?d then _ else _) = Ok _ => destruct d eqn:?; chks H; try discriminate H
                 end; try (okinv H); unfold hasm, F in *; revert Hh'; getc_keys; rd;
            repeat match goal with |- context [if ?d then _ else _] => destruct d eqn:? end; rd; auto.
    - subst e. cbn [stepr] in H. unfold step_pw_deliver in H. chks H.
      repeat match type of H with
             | (match ?d with _ => _ end) = Ok _ => destruct d eqn:?; chks H; try discriminate H
             | (if ?d then _ else _) = Ok _ => destruct d eqn:?; chks H; try discriminate H
             end; try (okinv H); unfold hasm, F in *; revert Hh'; getc_keys; rd;
        repeat match goal with |- context [if ?d then _ else _] => destruct d eqn:? end; rd; auto. }
  assert (Hh : hasm s T) by exact Hz.
  pose proof (st_lm _ _ _ T H Hh) as Em. rewrite Em in K1.
  destruct (existsb (fun k => match lamk s T k with Some 0 => true | _ => false end) (lm s T)) eqn:Ex.
  - apply existsb_exists in Ex. destruct Ex as [k1 [X1 X2]].
    assert (Hl1 : lamk s T k1 = Some 0) by (destruct (lamk s T k1) as [[|?] |]; try discriminate; reflexivity).
    eapply (minv_step s e s' T) with (k0 := k1); eauto.
    apply HM. split; auto. split; [eapply no1pc_back; eauto | eauto].
  - assert (Hno : forall k, In k (lm s T) -> lamk s T k <> Some 0).
    { intros k Hk El. rewrite <- Bool.not_true_iff_false in Ex. apply Ex. apply existsb_exists. exists k. split; auto. rewrite El. reflexivity. }
    destruct (proj2 (stepr_lam _ _ _ T k0 H (HL T)) _ K2) as [B | [Eu [r [ks [Ee Hk]]]]]; [exfalso; eapply Hno; eauto |].
    subst e. eapply minv_transition; eauto. apply HV; auto. exists k0. auto.
Qed.
