(* Percolator/Layer2e.v — more facts about the state before the first prewrite request and about the
   requests that presuppose an async-commit prewrite. *)
From Verif Require Export Percolator.Layer2d.

Lemma stepr_mono_fields : forall s e s' T0, stepr s e = Ok s' ->
  (F s T0 FPwSent <> 0 -> F s' T0 FPwSent <> 0) /\ (F s T0 FTriedA <> 0 -> F s' T0 FTriedA <> 0).
Proof.
  intros s e s' T0 H. unfold F.
  destruct (quiet3 e) eqn:Q.
  { destruct (stepr_quiet3 _ _ _ T0 Q H) as [_ [_ A]]. rewrite (A FPwSent), (A FTriedA) by reflexivity. auto. }
  destruct (option_map (N.eqb T0) (txn_of e)) as [[|] |] eqn:Et.
  2: { rewrite (stepr_getc_other _ _ _ T0 H); auto. intros E'. rewrite E' in Et. cbn in Et. rewrite N.eqb_refl in Et. discriminate. }
  2: { rewrite (stepr_getc_other _ _ _ T0 H); auto. intros E'. rewrite E' in Et. discriminate. }
  destruct (txn_of e) as [T1 |] eqn:Et'; cbn [option_map] in Et; [| discriminate Et].
  assert (T1 = T0) as -> by (injection Et as Et1; apply N.eqb_eq in Et1; auto). clear Et.
  destruct_event e; cbn [quiet3] in Q; try discriminate Q; cbn [txn_of] in Et'; inversion Et'; subst; cbn [stepr] in H;
    unfold step_pw_send, step_pw_deliver, step_pw_reply in H; chks H.
  all: repeat match type of H with
              | (match ?d with _ => _ end) = Ok _ => destruct d eqn:?; chks H; try discriminate H
              | (if ?d then _ else _) = Ok _ => destruct d eqn:?; chks H; try discriminate H
              end.
  all: try (okinv H).
  all: repeat match goal with |- context [match ?d with _ => _ end] => is_var d; destruct d eqn:? end.
  all: repeat (first [ progress getc_keys | progress rd | match goal with |- context [if ?d then _ else _] => destruct d eqn:? end ]).
  all: split; intros; auto; try lia; try discriminate.
Qed.

Record l1inv (s : sys) (T : N) : Prop := {
  y_lam0 : F s T FPwSent = 0 -> c_lam (getc s T) = [] /\ c_pwok (getc s T) = [] /\ F s T FMinc = 0;
  y_cm : hasm s T -> forall r C ks, In (ECmSend r T C ks) (s_sent s) -> F s T FPwSent <> 0;
  y_rsk : hasm s T -> forall C p, In (T, C, JKey p) (s_rs s) -> p = prim s T;
  y_csl : forall r ks, In (ECslSend r T ks) (s_sent s) -> F s T FTriedA <> 0
}.

Lemma l1inv_stepr : forall s e s' T0, Inv s -> Linv s -> stepr s e = Ok s' -> l1inv s T0 -> l1inv s' T0.
Proof.
  intros s e s' T0 HI HL H Y. destruct (HI T0) as [G _]. pose proof (HL T0) as L. destruct Y as [Y1 Y2 Y3 Y4].
  pose proof (stepr_lists _ _ _ H) as [Ls [_ [_ [_ [Lr _]]]]].
  destruct (stepr_mono_fields _ _ _ T0 H) as [M1 M2]. destruct (stepr_frozen _ _ _ T0 H) as [_ Fz].
  assert (HB : hasm s' T0 -> hasm s T0 \/ exists p ms, e = EMutations T0 p ms).
  { intros Hh. destruct (quiet2 e) eqn:Q2.
    - left. destruct (stepr_quiet2 _ _ _ T0 Q2 H) as [_ _ _ _ _ B _]. unfold hasm, F in *. congruence.
    - destruct e; cbn [quiet2] in Q2; try discriminate Q2.
      + destruct (N.eq_dec s0 T0) as [-> | Hne]; [right; eauto |]. left. unfold hasm, F in *.
        rewrite (stepr_getc_other _ _ _ T0 H) in Hh; auto. cbn [txn_of]. congruence.
      + left. destruct (N.eq_dec s0 T0) as [-> | Hne].
        * pose proof (linv_pw_deliver_own _ _ _ _ _ _ H L) as L'. clear L'.
          assert (Gf : cn (getc s' T0) FHasm = cn (getc s T0) FHasm).
          { pose proof H as H2. cbn [stepr] in H2. unfold step_pw_deliver in H2. chks H2.
            repeat match type of H2 with
                   | (match ?d with _ => _ end) = Ok _ => destruct d eqn:?; chks H2; try discriminate H2
                   | (if ?d then _ else _) = Ok _ => destruct d eqn:?; chks H2; try discriminate H2
                   end; try okinv H2;
            repeat (first [ progress getc_keys | progress rd | match goal with |- context [if ?d then _ else _] => destruct d eqn:? end ]);
            reflexivity. }
          unfold hasm, F in *. congruence.
        * unfold hasm, F in *. rewrite (stepr_getc_other _ _ _ T0 H) in Hh; auto. cbn [txn_of]. congruence. }
  constructor.
  - (* nothing before the first prewrite *)
    intros E0. assert (E0s : F s T0 FPwSent = 0) by (destruct (N.eq_dec (F s T0 FPwSent) 0); auto; exfalso; apply M1; auto).
    destruct (Y1 E0s) as [A1 [A2 A3]].
    destruct (quiet3 e) eqn:Q.
    + destruct (stepr_quiet3 _ _ _ T0 Q H) as [_ [B2 B3]]. unfold F in *. rewrite B2, (B3 FMinc) by reflexivity.
      repeat split; auto.
      destruct (quiet2 e) eqn:Q2; [destruct (stepr_quiet2 _ _ _ T0 Q2 H) as [B _ _ _ _ _ _]; congruence |].
      destruct e; cbn [quiet2] in Q2; try discriminate Q2; cbn [quiet3] in Q; try discriminate Q.
      destruct (N.eq_dec s0 T0) as [-> | Hne]; [| rewrite (stepr_getc_other _ _ _ T0 H); auto; cbn [txn_of]; congruence].
      cbn [stepr] in H. chks H. okinv H. rd. auto.
    + destruct_event e; cbn [quiet3] in Q; try discriminate Q.
      all: destruct (N.eq_dec T T0) as [-> | Hne];
        [exfalso | unfold F in *; rewrite (stepr_getc_other _ _ _ T0 H) by (cbn [txn_of]; congruence); auto].
      * cbn [stepr] in H. unfold step_pw_send in H. chks H. okinv H. unfold F in E0. destruct a, o; rd; lia.
      * cbn [stepr] in H. unfold step_pw_deliver in H. chks H. apply sent_by_In in C. destruct C as [e0 [Ce1 Ce2]].
        destruct e0; try discriminate. beq. subst. apply (g_pwsent_cnt _ _ G) in Ce1. contradiction.
      * cbn [stepr] in H. unfold step_pw_reply in H. chks H. apply delivered_In in C0. apply (g_pw_sent _ _ G) in C0.
        destruct C0 as [p [a [o [m [f [secs C0]]]]]]. apply (g_pwsent_cnt _ _ G) in C0. contradiction.
  - (* a commit request presupposes prewrites *)
    intros Hh r C ks Hi.
    assert (Old : In (ECmSend r T0 C ks) (s_sent s) -> F s' T0 FPwSent <> 0).
    { intros Ho. destruct (HB Hh) as [Hs | [p [ms Ee]]]; [apply M1; eapply Y2; eauto |].
      exfalso. subst e. cbn [stepr] in H. chks H. b2p. apply (g_cmsent_p _ _ G) in Ho. unfold hasm, F in *.
      destruct Ho as [Ho | [Ho _]]; congruence. }
    destruct Ls as [Ls | Ls]; rewrite Ls in Hi; auto. destruct Hi as [Hi | Hi]; auto. subst e.
    apply M1. pose proof H as H2. cbn [stepr] in H2. unfold step_cm_send in H2. chks H2.
    destruct (fb (getc s T0) FHasm) eqn:Eh.
    + chks H2. assert (Hp : In (cn (getc s T0) FPrim) (c_pwok (getc s T0))).
      { eapply subset_In; eauto. apply (l_prim _ _ L). unfold hasm, F. apply fb_true in Eh. auto. }
      apply (g_pwok _ _ G) in Hp. destruct Hp as [r0 [ks0 [m0 [o0 [E1 _]]]]]. apply (g_pw_sent _ _ G) in E1.
      destruct E1 as [p0 [a0 [o1 [m1 [f1 [secs1 E1]]]]]]. eapply (g_pwsent_cnt _ _ G); eauto.
    + exfalso. okinv H2. unfold hasm, F in Hh. rd. apply fb_false in Eh. contradiction.
  - (* a resolve justified by CheckTxnStatus names the primary *)
    intros Hh C p Hi.
    assert (Old : In (T0, C, JKey p) (s_rs s) -> p = prim s' T0).
    { intros Ho. destruct (HB Hh) as [Hs | [p0 [ms Ee]]].
      - destruct (Fz Hs) as [_ [Ep _]]. rewrite Ep. eapply Y3; eauto.
      - subst e. cbn [stepr] in H. chks H. okinv H. rewrite forallb_forall in C2. specialize (C2 _ Ho). cbn in C2.
        rewrite N.eqb_refl in C2. cbn in C2. apply N.eqb_eq in C2. unfold prim, F. rd. auto. }
    destruct Lr as [Lr | [r [T1 [c [ks [j [Ee Lr]]]]]]]; rewrite Lr in Hi; auto. destruct Hi as [Hi | Hi]; auto.
    inversion Hi. subst. pose proof H as H2. cbn [stepr] in H2. unfold step_rs_send in H2. chks H2.
    destruct (just_cts s r T0 C) as [p1 |] eqn:J; chks H2; okinv H2; sproj; inversion Lr; subst.
    unfold hasm, prim, F in *. rd. apply orb_true_iff in C1. destruct C1 as [C1 | C1]; [| apply N.eqb_eq in C1; auto].
    exfalso. apply negb_true_iff in C1. apply fb_false in C1. contradiction.
  - (* CheckSecondaryLocks presupposes an async-commit primary lock *)
    intros r ks Hi. destruct Ls as [Ls | Ls]; rewrite Ls in Hi; [apply M2; eapply Y4; eauto |].
    destruct Hi as [Hi | Hi]; [| apply M2; eapply Y4; eauto]. subst e. apply M2.
    cbn [stepr] in H. chks H. apply async_cts_spec in C0. destruct C0 as [p [ttl [m [secs [C0 _]]]]].
    apply (g_cts_sub _ _ G) in C0. eapply (g_async_cts _ _ G); eauto.
Qed.

Lemma l1inv_init : forall T, l1inv init T.
Proof.
  intros T. constructor; unfold F, hasm; cbn; intros; try contradiction; auto; try (exfalso; apply H; reflexivity).
Qed.

Definition Yinv (s : sys) : Prop := forall T, l1inv s T.
Theorem yinv_run : forall evs s, run evs = Some s -> Yinv s.
Proof.
  intros evs s H. unfold run in H.
  assert (Gn : forall evs s0 s', Inv s0 -> Linv s0 -> Yinv s0 -> run_from s0 evs = Some s' -> Yinv s').
  { induction evs0 as [| e evs0 IH]; intros s0 s1 HI HL HY R; cbn [run_from] in R.
    - inversion R. subst. auto.
    - unfold step in R. destruct (stepr s0 e) as [s2 | rr] eqn:E; try discriminate.
      eapply IH; [| | | eauto]; [eapply inv_stepr; eauto | eapply linv_stepr; eauto |]. intros T. eapply l1inv_stepr; eauto. }
  eapply Gn; [apply inv_init | apply linv_init | intros T; apply l1inv_init | exact H].
Qed.
