(* Percolator/ProofsTrace3.v — the per-transaction part [HT] of the history invariant: every
   bookkeeping item of the client record that a guard reads is tied to the history. *)
From Coq Require Import PeanoNat.
From Verif Require Import Percolator.Event Percolator.System Percolator.Trace
  Percolator.ProofsTrace0 Percolator.ProofsTrace2.

Definition is_cm_send (T : N) (e : event) : bool :=
  match e with ECmSend _ s' _ _ => s' =? T | _ => false end.
Definition has_pwok pre T k := exists r ks m o, In (EPwReply r T ks (PwOk m o)) pre /\ In k ks.
Definition has_cmok pre T C p := exists r ks, In (ECmReply r T C ks CmOk) pre /\ In p ks.
Definition has_async pre T := exists r p ks o m f secs, In (EPwSend r T p ks true o m f secs) pre.
Definition has_onepc pre T := exists r p ks a m f secs, In (EPwSend r T p ks a true m f secs) pre.
Definition has_gone pre T p := exists r C ks, In (ECmReply r T C ks CmGone) pre /\ In p ks.
Definition has_1pc pre T o := exists r ks m, In (EPwReply r T ks (PwOk m o)) pre.

Definition fb_reason pre T :=
  (exists r p ks o m f secs, In (EPwSend r T p ks false o m f secs) pre) \/
  (exists r ks o, In (EPwReply r T ks (PwOk 0 o)) pre) \/ has_onepc pre T.
Definition fb1_reason pre T :=
  (exists r p ks a m f secs, In (EPwSend r T p ks a false m f secs) pre) \/
  (exists r ks m, In (EPwReply r T ks (PwOk m 0)) pre).
Definition has_minc pre T m := exists r ks o, In (EPwReply r T ks (PwOk m o)) pre.

Lemma has_pwok_mono pre l T k : has_pwok pre T k -> has_pwok (pre ++ l) T k.
Proof. intros (r & ks & m & o & H1 & H2). exists r, ks, m, o. split; [apply in_or_app; auto | auto]. Qed.
Lemma has_cmok_mono pre l T C p : has_cmok pre T C p -> has_cmok (pre ++ l) T C p.
Proof. intros (r & ks & H1 & H2). exists r, ks. split; [apply in_or_app; auto | auto]. Qed.
Lemma has_async_mono pre l T : has_async pre T -> has_async (pre ++ l) T.
Proof. intros (r & p & ks & o & m & f & secs & H). exists r, p, ks, o, m, f, secs. apply in_or_app; auto. Qed.
Lemma has_onepc_mono pre l T : has_onepc pre T -> has_onepc (pre ++ l) T.
Proof. intros (r & p & ks & o & m & f & secs & H). exists r, p, ks, o, m, f, secs. apply in_or_app; auto. Qed.
Lemma has_gone_mono pre l T p : has_gone pre T p -> has_gone (pre ++ l) T p.
Proof. intros (r & C & ks & H1 & H2). exists r, C, ks. split; [apply in_or_app; auto | auto]. Qed.
Lemma has_1pc_mono pre l T o : has_1pc pre T o -> has_1pc (pre ++ l) T o.
Proof. intros (r & ks & m & H). exists r, ks, m. apply in_or_app; auto. Qed.
Lemma has_minc_mono pre l T m : has_minc pre T m -> has_minc (pre ++ l) T m.
Proof. intros (r & ks & o & H). exists r, ks, o. apply in_or_app; auto. Qed.
Lemma fb_reason_mono pre l T : fb_reason pre T -> fb_reason (pre ++ l) T.
Proof.
  intros [(r & p & ks & o & m & f & secs & H) | [(r & ks & o & H) | H]].
  - left. exists r, p, ks, o, m, f, secs. apply in_or_app; auto.
  - right. left. exists r, ks, o. apply in_or_app; auto.
  - right. right. apply has_onepc_mono. exact H.
Qed.
Lemma fb1_reason_mono pre l T : fb1_reason pre T -> fb1_reason (pre ++ l) T.
Proof.
  intros [(r & p & ks & a & m & f & secs & H) | (r & ks & m & H)].
  - left. exists r, p, ks, a, m, f, secs. apply in_or_app; auto.
  - right. exists r, ks, m. apply in_or_app; auto.
Qed.
#[export] Hint Resolve has_minc_mono fb_reason_mono fb1_reason_mono : core.
#[export] Hint Resolve has_pwok_mono has_cmok_mono has_async_mono has_onepc_mono has_gone_mono has_1pc_mono : core.

Record HT (T : N) (pre : list event) (c : crec) : Prop := {
  t_muts : forall p ms, In (EMutations T p ms) pre ->
             cn c FHasm <> 0 /\ cn c FPrim = p /\ c_lm c = lock_keys ms;
  t_nohasm : cn c FHasm = 0 -> cn c FPcOk = 0 /\ cn c FPcNeg = 0 /\ cn c FPcRep = 0 /\ cn c FPcRb = 0;
  t_pwok : forall k, In k (c_pwok c) -> has_pwok pre T k;
  t_pcok : cn c FPcOk <> 0 -> has_cmok pre T (cn c FPcOk) (cn c FPrim);
  t_pcok0 : cn c FHasm <> 0 -> cn c FPcOk = 0 ->
            forall r C ks, In (ECmReply r T C ks CmOk) pre -> ~ In (cn c FPrim) ks;
  t_trieda : cn c FTriedA <> 0 -> has_async pre T;
  t_tried1 : cn c FTried1 <> 0 -> has_onepc pre T;
  t_sent : cn c FPcSent = N.of_nat (count_if (if cn c FHasm =? 0 then is_cm_send T else is_pc_send T (cn c FPrim)) pre);
  t_neg : cn c FHasm <> 0 -> cn c FPcNeg = N.of_nat (count_if (is_pc_neg T (cn c FPrim)) pre);
  t_rep : cn c FHasm <> 0 -> cn c FPcRep = N.of_nat (count_if (is_pc_reply T (cn c FPrim)) pre);
  t_rb : cn c FPcRb <> 0 -> has_gone pre T (cn c FPrim);
  t_pws : cn c FPwSent = N.of_nat (count_if (is_pw_send T) pre);
  t_pwr : cn c FPwRep = N.of_nat (count_if (is_pw_reply T) pre);
  t_minc : forall r ks m o, In (EPwReply r T ks (PwOk m o)) pre ->
           (cn c FHasm = 0 \/ exists k, In k ks /\ In k (c_lm c)) -> m <= cn c FMinc;
  t_1pc : cn c F1pcTs <> 0 -> has_1pc pre T (cn c F1pcTs);
  t_dead : forall r ks, In (ERbSend r T ks) pre -> cn c FDead <> 0;
  t_cmts : cn c FHasm <> 0 -> forall r C ks, In (ECmSend r T C ks) pre -> T < C;
  t_call : forall pre1 pre2 cz, pre = pre1 ++ ECommitCall T cz :: pre2 ->
             (forall cz', ~ In (ECommitCall T cz') pre2) ->
             cn c FCalled <> 0 /\ (cn c FCausal <> 0 <-> cz = true) /\
             forall t, In (ETso t) pre1 -> t <= cn c FWm;
  t_trieda2 : forall r p ks o m f secs, In (EPwSend r T p ks true o m f secs) pre -> cn c FTriedA <> 0;
  t_tried12 : forall r p ks a m f secs, In (EPwSend r T p ks a true m f secs) pre -> cn c FTried1 <> 0;
  t_ksent : forall k, kcnt c KSent k = N.of_nat (sum_of (pw_send_occ T k) pre);
  t_kneg : forall k, kcnt c KNeg k = N.of_nat (sum_of (pw_negreply_occ T k) pre);
  t_fb : cn c FFb <> 0 -> fb_reason pre T;
  t_minc2 : cn c FMinc <> 0 -> has_minc pre T (cn c FMinc);
  t_primlk : forall p ms, In (EMutations T p ms) pre -> In p (lock_keys ms);
  t_fb1 : cn c FFb1 <> 0 -> fb1_reason pre T;
  t_fbc1 : forall r p ks o m f secs, In (EPwSend r T p ks false o m f secs) pre -> cn c FFb <> 0;
  t_fbc2 : forall r ks o, In (EPwReply r T ks (PwOk 0 o)) pre -> cn c FFb <> 0 }.

Lemma fb_true c f : fb c f = true <-> cn c f <> 0.
Proof. unfold fb. rewrite negb_true_iff, N.eqb_neq. tauto. Qed.
Lemma fb_false c f : fb c f = false <-> cn c f = 0.
Proof. unfold fb. rewrite negb_false_iff, N.eqb_eq. tauto. Qed.

Lemma HT_init T : HT T [] c0.
Proof.
  constructor; unfold kcnt; cbn [c0 cn c_lm c_pwok c_kl kcnt_l sum_of In count_if N.eqb]; intros; try contradiction; try reflexivity;
    try (exfalso; auto; fail); auto.
  destruct pre1; discriminate.
Qed.

(* ---- events that do not concern T ---- *)
Definition txn_ev (e : event) : option N :=
  match e with
  | ECommitCall s _ | EMutations s _ _ | EPwSend _ s _ _ _ _ _ _ _ | EPwReply _ s _ _
  | ECmSend _ s _ _ | ECmReply _ s _ _ _ | ERbSend _ s _ => Some s
  | _ => None
  end.

Ltac notT e :=
  intros Hne; destruct e; cbn [is_cm_send is_pc_send is_pc_reply is_pc_neg is_pw_send is_pw_reply pw_send_occ pw_negreply_occ];
  try reflexivity;
  match goal with |- context [?s =? ?T] =>
    let E := fresh "E" in
    destruct (s =? T) eqn:E;
    [apply N.eqb_eq in E; subst; exfalso; apply Hne; reflexivity | reflexivity]
  end.
Lemma notT_send_occ T k e : txn_ev e <> Some T -> pw_send_occ T k e = 0%nat.
Proof. notT e. Qed.
Lemma notT_negreply_occ T k e : txn_ev e <> Some T -> pw_negreply_occ T k e = 0%nat.
Proof. notT e. Qed.
Lemma notT_cm_send T e : txn_ev e <> Some T -> is_cm_send T e = false.
Proof. notT e. Qed.
Lemma notT_pc_send T p e : txn_ev e <> Some T -> is_pc_send T p e = false.
Proof. notT e. Qed.
Lemma notT_pc_reply T p e : txn_ev e <> Some T -> is_pc_reply T p e = false.
Proof. notT e. Qed.
Lemma notT_pc_neg T p e : txn_ev e <> Some T -> is_pc_neg T p e = false.
Proof. notT e. Qed.
Lemma notT_pw_send T e : txn_ev e <> Some T -> is_pw_send T e = false.
Proof. notT e. Qed.
Lemma notT_pw_reply T e : txn_ev e <> Some T -> is_pw_reply T e = false.
Proof. notT e. Qed.

Ltac snoc_other H Hne :=
  apply in_snoc in H; destruct H as [H | H]; [| exfalso; subst; apply Hne; reflexivity].

Lemma HT_frame T pre c e : txn_ev e <> Some T -> HT T pre c -> HT T (pre ++ [e]) c.
Proof.
  intros Hne [C1 C2 C3 C4 C5 C6 C7 C8 C9 C10 C11 C12 C13 C14 C15 C16 C17 C18 C19 C20 C21 C22 C23 C24 C25 C26 C27 C28].
  constructor; auto.
  - intros p ms H. snoc_other H Hne. eauto.
  - intros Hh H0 r C ks H. snoc_other H Hne. eauto.
  - rewrite count_if_snoc.
    destruct (cn c FHasm =? 0); [rewrite notT_cm_send | rewrite notT_pc_send]; auto;
      rewrite Nat.add_0_r; exact C8.
  - intros Hh. rewrite count_if_snoc, notT_pc_neg, Nat.add_0_r; auto.
  - intros Hh. rewrite count_if_snoc, notT_pc_reply, Nat.add_0_r; auto.
  - rewrite count_if_snoc, notT_pw_send, Nat.add_0_r; auto.
  - rewrite count_if_snoc, notT_pw_reply, Nat.add_0_r; auto.
  - intros r ks m o H Hx. snoc_other H Hne. eauto.
  - intros r ks H. snoc_other H Hne. eauto.
  - intros Hh r C ks H. snoc_other H Hne. eauto.
  - intros pre1 pre2 cz Hd Hno. apply snoc_split in Hd.
    destruct Hd as [(-> & <- & ->) | (q & -> & ->)].
    + exfalso. apply Hne. reflexivity.
    + apply (C18 pre1 q cz eq_refl). intros cz' Hi. apply (Hno cz'). apply in_or_app. auto.
  - intros r p ks o m f secs H. snoc_other H Hne. eauto.
  - intros r p ks a m f secs H. snoc_other H Hne. eauto.
  - intros k. rewrite sum_of_snoc, notT_send_occ, Nat.add_0_r; auto.
  - intros k. rewrite sum_of_snoc, notT_negreply_occ, Nat.add_0_r; auto.
  - intros p ms H. snoc_other H Hne. eauto.
  - intros r p ks o m f secs H. snoc_other H Hne. eauto.
  - intros r ks o H. snoc_other H Hne. eauto.
Qed.

(* ---- changes of fields the invariant does not read ---- *)
Definition tracked (f : fld) : bool :=
  match f with
  | FCalled | FCausal | FWm | FHasm | FPrim | FTriedA | FTried1 | FFb | FFb1 | FPwSent | FPwRep | FMinc | F1pcTs
  | FPcSent | FPcNeg | FPcRep | FPcOk | FPcRb => true
  | _ => false
  end.
Definition tr_same (c c' : crec) : Prop :=
  (forall f, tracked f = true -> cn c' f = cn c f) /\ c_lm c' = c_lm c /\ c_pwok c' = c_pwok c /\
  (forall k, kcnt c' KSent k = kcnt c KSent k) /\ (forall k, kcnt c' KNeg k = kcnt c KNeg k) /\
  (cn c FDead <> 0 -> cn c' FDead <> 0).
Lemma dlv_tr_same c c' : dlv_same c c' -> tr_same c c'.
Proof.
  intros (A1 & A2 & A3 & A4 & A5). split; [| repeat (split; [assumption|])].
  - intros f Hf. apply A1. intros ->. discriminate.
  - rewrite A1; [auto | discriminate].
Qed.

Lemma HT_untracked T pre c c' : tr_same c c' -> HT T pre c -> HT T pre c'.
Proof.
  intros (E & Elm & Epw & Eks & Ekn & Ed) [C1 C2 C3 C4 C5 C6 C7 C8 C9 C10 C11 C12 C13 C14 C15 C16 C17 C18 C19 C20 C21 C22 C23 C24 C25 C26 C27 C28].
  constructor; rewrite ?Elm, ?Epw;
    repeat match goal with |- context [cn c' ?f] =>
             lazymatch f with FDead => fail | _ => rewrite (E f eq_refl) end end; auto.
  - intros r ks H. apply Ed. eauto.
  - intros k. rewrite Eks. auto.
  - intros k. rewrite Ekn. auto.
Qed.

Ltac tr_same_tac :=
  split; [let fl := fresh "fl" in let Hf := fresh "Hf" in
          intros fl Hf; destruct fl; try discriminate Hf; reflexivity |];
  split; [reflexivity|]; split; [reflexivity|]; split; [reflexivity|]; split; [reflexivity|];
  first [intros _; discriminate | let Hd := fresh "Hd" in intros Hd; exact Hd].
