(* Percolator/ProofsTrace2.v — list/counting lemmas and the global part [HG] of the history
   invariant (network sets, resolver knowledge, tso, gc windows are reflected in the history). *)
From Verif Require Import Percolator.Event Percolator.System Percolator.Trace
  Percolator.ProofsTrace0.

(* ---- lists ---- *)
Lemma in_snoc {A} (x e : A) l : In x (l ++ [e]) <-> In x l \/ x = e.
Proof. rewrite in_app_iff. cbn [In]. intuition. Qed.

Lemma snoc_split {A} (pre : list A) e pre1 x pre2 :
  pre ++ [e] = pre1 ++ x :: pre2 ->
  (pre2 = [] /\ x = e /\ pre1 = pre) \/ (exists q, pre2 = q ++ [e] /\ pre = pre1 ++ x :: q).
Proof.
  induction pre2 as [|y l _] using rev_ind; intros H.
  - left. change (pre1 ++ [x]) with (pre1 ++ [x]) in H. apply app_inj_tail in H.
    destruct H as [H1 H2]. subst. auto.
  - right. change (pre1 ++ x :: l ++ [y]) with (pre1 ++ (x :: l) ++ [y]) in H.
    rewrite app_assoc in H. apply app_inj_tail in H. destruct H as [H1 H2]. subst.
    exists l. auto.
Qed.

Lemma count_if_snoc f l e : count_if f (l ++ [e]) = (count_if f l + (if f e then 1 else 0))%nat.
Proof. induction l as [|x l IH]; cbn [count_if app]; [lia | rewrite IH; lia]. Qed.
Lemma count_if_zero f l : count_if f l = 0%nat -> forall e, In e l -> f e = false.
Proof.
  induction l as [|x l IH]; cbn [count_if]; intros H e He; [destruct He|].
  destruct He as [He | He].
  - subst. destruct (f e); [discriminate | reflexivity].
  - apply IH; auto. destruct (f x); [discriminate | exact H].
Qed.
Lemma count_if_none f l : (forall e, In e l -> f e = false) -> count_if f l = 0%nat.
Proof.
  induction l as [|x l IH]; cbn [count_if]; intros H; [reflexivity|].
  rewrite (H x (or_introl eq_refl)). apply IH. intros e He. apply H. right. exact He.
Qed.

Lemma sum_of_snoc w l e : sum_of w (l ++ [e]) = (sum_of w l + w e)%nat.
Proof. induction l as [|x l IH]; cbn [sum_of app]; [lia | rewrite IH; lia]. Qed.
Lemma sum_of_count (w : event -> nat) (f : event -> bool) (l : list event) : (forall e, In e l -> w e = (if f e then 1 else 0)%nat) -> sum_of w l = count_if f l.
Proof.
  induction l as [|x l IH]; cbn [sum_of count_if]; intros H; [reflexivity|].
  rewrite (H x (or_introl eq_refl)), IH; [reflexivity|]. intros e He. apply H. right. exact He.
Qed.
Lemma occ_nodup k ks : NoDup ks -> occ k ks = (if mem k ks then 1 else 0)%nat.
Proof.
  induction 1 as [|x l Hx Hn IH]; [reflexivity|].
  cbn [occ]. change (mem k (x :: l)) with ((k =? x) || mem k l). rewrite IH, (N.eqb_sym k x).
  destruct (x =? k) eqn:E; [|reflexivity]. apply N.eqb_eq in E. subst.
  destruct (mem k l) eqn:Em; [apply mem_In in Em; contradiction | reflexivity].
Qed.

Lemma lock_keys_agree ms : lock_keys_of ms = lock_keys ms.
Proof. reflexivity. Qed.

(* ---- global invariant ---- *)
Definition pw_sent (l : list event) (r T : N) (ks : list N) : Prop :=
  exists p a o m f secs, In (EPwSend r T p ks a o m f secs) l.
Lemma pw_sent_cons l e r T ks : pw_sent l r T ks -> pw_sent (e :: l) r T ks.
Proof. intros (p & a & o & m & f & secs & H). exists p, a, o, m, f, secs. right. exact H. Qed.
#[export] Hint Resolve pw_sent_cons : core.
Record HG (pre : list event) (v : view) : Prop := {
  g_sent : forall e, In e (v_sent v) -> In e pre;
  g_dlv : forall r T C ks x, In (ECmReply r T C ks x) (v_dlv v) -> In (ECmSend r T C ks) (v_sent v);
  g_rep : forall r T C ks x, In (ECmReply r T C ks x) pre -> In (ECmReply r T C ks x) (v_dlv v);
  g_cts : forall e, In e (v_cts v) -> In e pre;
  g_csl : forall e, In e (v_csl v) -> In e pre;
  g_seen : forall r T ttl, In (r, T, ttl) (v_seen v) -> In (ELockSeen r T ttl) pre;
  g_gc : forall r sp, In (r, sp) (v_gc v) -> In (EGcBegin r sp) pre;
  g_tso : forall t, In (ETso t) pre -> t <= v_tso v;
  g_tso2 : v_tso v = 0 \/ In (ETso (v_tso v)) pre;
  g_pwdlv : forall r T ks x, In (EPwReply r T ks x) (v_dlv v) -> pw_sent (v_sent v) r T ks;
  g_pwrep : forall r T ks x, In (EPwReply r T ks x) pre -> In (EPwReply r T ks x) (v_dlv v) }.

Lemma HG_init : HG [] (view_of init).
Proof. constructor; cbn; intros; try contradiction; auto. Qed.

Ltac vproj := cbn [v_tso v_sent v_dlv v_cl v_cts v_csl v_seen v_gc vtso vsent vdlv vcl vcts vcsl vseen vgc].
Ltac ev_inv := repeat match goal with
  | H : @eq event _ _ |- _ => first [discriminate H | inversion H; subst; clear H]
  | H : @eq (N * N * N) _ _ |- _ => inversion H; subst; clear H
  | H : @eq (N * N) _ _ |- _ => inversion H; subst; clear H
  end.
Ltac gtac G :=
  destruct G as [G1 G2 G3 G4 G5 G6 G7 G8 G9 G10 G11];
  constructor; vproj; intros;
  repeat match goal with
         | H : In _ (_ ++ [_]) |- _ => apply in_snoc in H
         | H : In _ (_ :: _) |- _ => cbn [In] in H
         | |- In _ (_ ++ [_]) => apply in_snoc
         | |- In _ (_ :: _) => cbn [In]
         end;
  try solve [ intuition (ev_inv; eauto) ];
  try solve [ destruct G9 as [G9 | G9]; [left; exact G9 | right; apply in_snoc; left; exact G9] ].

Lemma HG_step pre v e v' : HG pre v -> vstep v e v' -> HG (pre ++ [e]) v'.
Proof.
  intros G St. destruct e; cbn [vstep] in St; cbv zeta in St.
  - destruct St as [Ht ->]. gtac G.
    + destruct H as [H | H]; [apply G8 in H; lia | ev_inv; lia].
    + right. apply in_snoc. right. reflexivity.
  - subst. gtac G.
  - subst. gtac G.
  - destruct St as (_ & _ & _ & _ & ->). gtac G.
  - subst. gtac G.
  - destruct St as [Hs (c' & _ & ->)]. fold (pw_sent (v_sent v) r s ks) in Hs. gtac G.
  - destruct St as [Hd ->]. gtac G.
  - destruct St as [_ St]. destruct (fb (vgetc v s) FHasm).
    + destruct St as (_ & _ & _ & _ & _ & St). destruct (mem (cn (vgetc v s) FPrim) ks).
      * subst. gtac G.
      * destruct St as [_ ->]. gtac G.
    + subst. gtac G.
  - destruct St as [Hs [-> | (f & _ & ->)]]; gtac G.
  - destruct St as [Hd St]. destruct (has_prim (vgetc v s) ks); subst; gtac G.
  - destruct St as [_ ->]. gtac G.
  - subst. gtac G.
  - subst. gtac G.
  - subst. gtac G.
  - subst. gtac G.
  - subst. gtac G.
  - subst. gtac G.
  - subst. gtac G.
  - subst. gtac G.
  - destruct St as [_ [_ ->]]. gtac G.
  - destruct St as (c' & _ & [-> | ->]); gtac G.
  - subst. gtac G.
  - destruct St as [_ ->]. gtac G.
  - subst. gtac G.
  - subst. gtac G.
  - destruct St as [_ ->]. gtac G.
  - subst. gtac G.
  - subst. gtac G.
  - subst. gtac G.
  - subst. gtac G.
  - subst. gtac G.
  - destruct St as [_ ->]. gtac G.
  - subst. gtac G.
  - subst. gtac G.
  - subst. gtac G.
  - subst. gtac G.
    left. apply filter_In in H. destruct H as [H _]. eauto.
Qed.
