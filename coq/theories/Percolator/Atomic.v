(* Percolator/Atomic.v — C02 / C03 statements derived from the invariant (classic two-phase commit). *)
From Verif Require Export Percolator.Stable.

Lemma run_from_frozen : forall evs s s' T, run_from s evs = Some s' ->
  (F s T FTold <> 0 -> F s' T FTold = F s T FTold /\ F s' T FTriedA = F s T FTriedA /\ F s' T FTried1 = F s T FTried1) /\
  (hasm s T -> hasm s' T /\ prim s' T = prim s T /\ lm s' T = lm s T).
Proof.
  induction evs as [| e evs IH]; intros s s' T H; cbn [run_from] in H.
  - inversion H. subst. tauto.
  - unfold step in H. destruct (stepr s e) as [s1 | rr] eqn:E; try discriminate.
    destruct (stepr_frozen _ _ _ T E) as [A1 A2]. destruct (IH _ _ T H) as [B1 B2]. split.
    + intros Hn. destruct (A1 Hn) as [A3 [A4 A5]]. destruct B1 as [B3 [B4 B5]]; [congruence |]. repeat split; congruence.
    + intros Hh. destruct (A2 Hh) as [A3 [A4 A5]]. destruct (B2 A3) as [B3 [B4 B5]]. repeat split; congruence.
Qed.

Lemma run_from_inv : forall evs s s', Inv s -> run_from s evs = Some s' -> Inv s'.
Proof. exact inv_run_from. Qed.

Section Atomic.
  Variables (evs : list event) (s : sys) (T : N).
  Hypothesis R : run evs = Some s.
  Hypothesis Hm : hasm s T.
  Hypothesis Hc : classic s T.

  Let HI := inv_run evs s R.
  Let G : ginv s T := proj1 (HI T).
  Let I : tinv s T := proj2 (HI T) Hm Hc.

  Lemma atomic_one_ts : forall k1 k2 c1 c2, kget s T k1 = Committed c1 -> kget s T k2 = Committed c2 -> c1 = c2.
  Proof. intros. eapply one_commit_ts; eauto. Qed.

  Lemma atomic_all_or_nothing : forall k1 k2 c, kget s T k1 = Committed c -> In k2 (lm s T) -> kget s T k2 <> RolledBack.
  Proof. intros k1 k2 c H1 H2 H3. eapply all_or_nothing; eauto. Qed.

  (* a committed transaction: every locked mutation is committed at the one ts or still locked
     (and can then only be resolved to that commit, by one_ts / all_or_nothing in every extension) *)
  Lemma committed_keys : forall c, kget s T (prim s T) = Committed c ->
    forall k, In k (lm s T) -> kget s T k = Committed c \/ exists m, kget s T k = Locked m.
  Proof.
    intros c HP k Hk. destruct (kget s T k) eqn:E.
    - exfalso. pose proof (t_pcommit _ _ I _ HP) as HO. destruct (t_cnt _ _ I) as [A [B C]].
      assert (HS : F s T FPcSent <> 0) by lia.
      eapply (pwdlv_not_unlocked s T k); eauto. apply (g_pwok _ _ G). apply (t_pwok _ _ I HS). auto.
    - right. eauto.
    - left. f_equal. eapply atomic_one_ts; eauto.
    - exfalso. eapply atomic_all_or_nothing; eauto.
  Qed.

  Lemma told_ok_committed : F s T FTold = 1 ->
    exists c, kget s T (prim s T) = Committed c /\
      (forall k, In k (lm s T) -> kget s T k = Committed c \/ exists m, kget s T k = Locked m) /\
      forall evs' s', run_from s evs' = Some s' ->
        F s' T FTold = 1 /\ kget s' T (prim s' T) = Committed c.
  Proof.
    intros Ht. destruct (t_told_ok _ _ I Ht) as [c HP]. exists c. split; auto. split; [apply committed_keys; auto |].
    intros evs' s' R'. destruct (run_from_frozen _ _ _ T R') as [A1 A2]. destruct (A2 Hm) as [_ [A3 _]].
    split; [destruct A1 as [A1 _]; [rewrite Ht; discriminate | congruence] |]. rewrite A3.
    eapply km_committed; [eapply run_from_kmono; eauto | auto].
  Qed.

  Lemma told_err_never : F s T FTold = 3 ->
    forall evs' s', run_from s evs' = Some s' ->
      F s' T FTold = 3 /\ forall k c, kget s' T k <> Committed c.
  Proof.
    intros Ht evs' s' R'. destruct (run_from_frozen _ _ _ T R') as [A1 A2]. destruct (A2 Hm) as [A3 _].
    destruct A1 as [A4 [A5 A6]]; [rewrite Ht; discriminate |].
    assert (Ht' : F s' T FTold = 3) by congruence.
    split; auto. pose proof (inv_run_from _ _ _ HI R' T) as [G' I'].
    assert (Hc' : classic s' T).
    { apply (classic_flags _ _ G'). destruct (proj1 (classic_flags _ _ G) Hc) as [Fa F1]. split; congruence. }
    specialize (I' A3 Hc').
    intros k c. eapply told_err_never_committed; eauto.
  Qed.
End Atomic.

(* one-phase commit: the store applies the whole request in one atomic step *)
Lemma onepc_atomic_step : forall s s' r T ks m o, o <> 0 ->
  stepr s (EPwDeliver r T ks (PwOk m o)) = Ok s' -> forall k, In k ks -> kget s' T k = Committed o.
Proof.
  intros s s' r T ks m o Ho H k Hk. cbn [stepr] in H. unfold step_pw_deliver in H. chks H.
  apply N.eqb_neq in Ho. rewrite Ho in H. destruct (step_keys _ _ _ _) as [s2 |] eqn:E; try discriminate. okinv H.
  pose proof (step_keys_exact _ _ _ _ _ (tr_1pc_ok o) (tr_1pc_idem o) (tr_1pc_total o) E k Hk) as A.
  rewrite kget_setc, kget_add_dlv in A.
  destruct (kget s T k) as [| m0 | c0 |]; cbn in A; try (inversion A; auto; fail).
  destruct (c0 =? o) eqn:Ec; inversion A. apply N.eqb_eq in Ec. subst. auto.
Qed.

(* first rejection of a trace: index and reason (None = accepted) *)
Fixpoint reject_from (s : sys) (i : nat) (evs : list event) : option (nat * reason) :=
  match evs with
  | [] => None
  | e :: r => match stepr s e with Ok s' => reject_from s' (S i) r | Rej x => Some (i, x) end
  end.
Definition reject_of (evs : list event) : option (nat * reason) := reject_from init 0 evs.
Lemma reject_from_run : forall evs s i, reject_from s i evs = None <-> exists s', run_from s evs = Some s'.
Proof.
  induction evs as [| e evs IH]; intros s i; cbn [reject_from run_from].
  - split; eauto.
  - unfold step. destruct (stepr s e) as [s1 | x].
    + apply IH.
    + split; [discriminate | intros [s' H]; discriminate].
Qed.
Lemma reject_of_run : forall evs, reject_of evs = None <-> exists s, run evs = Some s.
Proof. intros. apply reject_from_run. Qed.
