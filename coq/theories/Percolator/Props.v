(* Percolator/Props.v — properties C02, C03, C04: the theorems, nothing else.
   Model: System.v (acceptor over the event vocabulary of docs/PERC_EVENTS.md); a trace is any list of
   events; [run evs = Some s] = the acceptor accepts it. Loss = a send without deliver / a deliver
   without reply; duplication, delay, reordering = delivers in any number and order (the commit-point
   request: at most one delivery per send); crash = [ECrash]. [hasm s T] = T's mutations were logged,
   [classic s T] = T never used async commit / 1PC (then no resolve of T can be derived from the
   CheckSecondaryLocks fold: Inv.classic_flags). [F s T FTold] = 1 / 2 / 3 for Commit returning nil / undetermined / error. *)
From Verif Require Import Percolator.Atomic Percolator.Trace Percolator.ProofsTrace Percolator.AddKeys Percolator.Heartbeat.
From Coq Require Import Sorting.Sorted Permutation.

(* ---------------- C02: crash atomicity (classic 2PC, optimistic and pessimistic prewrite) ---------------- *)
Theorem C02_atomic : forall evs s T, run evs = Some s -> hasm s T -> classic s T ->
  (* (i) one commit timestamp *)
  (forall k1 k2 c1 c2, kget s T k1 = Committed c1 -> kget s T k2 = Committed c2 -> c1 = c2) /\
  (* (ii) never one key committed and a locked mutation rolled back *)
  (forall k1 k2 c, kget s T k1 = Committed c -> In k2 (lm s T) -> kget s T k2 <> RolledBack) /\
  (* once the primary is committed every locked mutation is committed at that ts or still locked *)
  (forall c, kget s T (prim s T) = Committed c ->
     forall k, In k (lm s T) -> kget s T k = Committed c \/ exists m, kget s T k = Locked m) /\
  (* (iii) told success => primary committed, now and in every accepted extension *)
  (F s T FTold = 1 -> exists c, kget s T (prim s T) = Committed c /\
     forall evs' s', run_from s evs' = Some s' -> F s' T FTold = 1 /\ kget s' T (prim s' T) = Committed c) /\
  (* (iv) told a definite failure => no key is committed, now or in any accepted extension *)
  (F s T FTold = 3 -> forall evs' s', run_from s evs' = Some s' ->
     F s' T FTold = 3 /\ forall k c, kget s' T k <> Committed c).
Proof.
  intros evs s T R Hm Hc. split; [| split; [| split; [| split]]].
  - exact (atomic_one_ts evs s T R Hm Hc).
  - exact (atomic_all_or_nothing evs s T R Hm Hc).
  - exact (committed_keys evs s T R Hm Hc).
  - intros Ht. destruct (told_ok_committed evs s T R Hm Hc Ht) as [c [A [_ B]]]. eauto.
  - exact (told_err_never evs s T R Hm Hc).
Qed.
Print Assumptions C02_atomic.

(* the invariant behind it (J1-J6 of DESIGN Appendix B) holds after every accepted trace *)
Theorem C02_invariant : Inv System.init /\ (forall s e s', Inv s -> step s e = Some s' -> Inv s') /\
                        (forall evs s, run evs = Some s -> Inv s).
Proof. exact (conj inv_init (conj inv_step inv_run)). Qed.
Print Assumptions C02_invariant.

(* async commit / 1PC: the acceptor checks rules 1, 6, 7 for them (C04_accept_sound) but the model does not
   derive atomicity from the CheckSecondaryLocks fold; what is proved is the one-step atomicity of 1PC *)
Theorem C02_atomic_async_partial : forall s s' r T ks m o, o <> 0 ->
  stepr s (EPwDeliver r T ks (PwOk m o)) = Ok s' -> forall k, In k ks -> kget s' T k = Committed o.
Proof. exact onepc_atomic_step. Qed.
Print Assumptions C02_atomic_async_partial.

(* ---------------- C03: truthfulness of Commit's answer under faults ---------------- *)
Theorem C03_truthful : forall evs s T, run evs = Some s -> hasm s T -> classic s T ->
  (F s T FTold = 1 -> exists c, kget s T (prim s T) = Committed c /\
     (forall k, In k (lm s T) -> kget s T k = Committed c \/ exists m, kget s T k = Locked m) /\
     forall evs' s', run_from s evs' = Some s' -> F s' T FTold = 1 /\ kget s' T (prim s' T) = Committed c) /\
  (F s T FTold = 3 -> forall evs' s', run_from s evs' = Some s' ->
     F s' T FTold = 3 /\ forall k c, kget s' T k <> Committed c).
Proof.
  intros evs s T R Hm Hc. split.
  - exact (told_ok_committed evs s T R Hm Hc).
  - exact (told_err_never evs s T R Hm Hc).
Qed.
Print Assumptions C03_truthful.

Theorem C03_undetermined_only_if : forall evs s, run evs = Some s -> undetermined_only_if evs.
Proof. exact undetermined_only_if_holds. Qed.
Print Assumptions C03_undetermined_only_if.

Theorem C03_fault_free_never_undetermined : forall evs s0 pre post s p ms,
  run evs = Some s0 -> evs = pre ++ ETold s TUndet :: post -> In (EMutations s p ms) pre ->
  (forall r p' ks a o m f secs, In (EPwSend r s p' ks a o m f secs) pre -> a = false /\ o = false) ->
  count_if (is_pc_send s p) pre = count_if (is_pc_reply s p) pre -> False.
Proof. exact fault_free_never_undetermined. Qed.
Print Assumptions C03_fault_free_never_undetermined.

(* ---------------- C04: request-stream rules ---------------- *)
Theorem C04_accept_sound : forall evs s, run evs = Some s ->
  commit_after_all_prewrites evs /\ secondaries_after_primary evs /\
  no_rollback_after_possible_commit evs /\ resolve_uses_reported_status evs /\
  commit_ts_bounds evs /\ expire_only_expired evs /\ told_ok_after_commit evs /\ undetermined_only_if evs /\
  told_err_only_if evs /\ csl_only_listed evs.
Proof. exact accept_sound. Qed.
Print Assumptions C04_accept_sound.

Theorem C04_addKeys_order_independent : forall m0 rs rs',
  Permutation rs rs' -> consistent m0 rs -> fold_replies (AddKeys.init m0) rs = fold_replies (AddKeys.init m0) rs'.
Proof. exact addKeys_order_independent. Qed.
Print Assumptions C04_addKeys_order_independent.

Theorem C04_addKeys_order_independent_ok : forall m0 rs rs' a a',
  Permutation rs rs' -> fold_replies (AddKeys.init m0) rs = Some a -> fold_replies (AddKeys.init m0) rs' = Some a' -> a = a'.
Proof. exact addKeys_order_independent_ok. Qed.
Print Assumptions C04_addKeys_order_independent_ok.

Theorem C04_addKeys_result : forall m0 rs a, fold_replies (AddKeys.init m0) rs = Some a ->
  (missing a = true <-> exists c, In (Missing c) rs) /\
  ((forall c, ~ In (Missing c) rs) -> commit_ts a = max_all m0 rs) /\
  (forall c, In (Missing c) rs -> commit_ts a = c).
Proof. exact addKeys_result. Qed.
Print Assumptions C04_addKeys_result.

(* without the store-consistency hypothesis the ERROR status of the fold depends on the reply order *)
Theorem C04_addKeys_error_order_dependent_refuted : exists m0 rs rs',
  Permutation rs rs' /\ fold_replies (AddKeys.init m0) rs = None /\ fold_replies (AddKeys.init m0) rs' <> None.
Proof. exact addKeys_error_order_dependent_refuted. Qed.
Print Assumptions C04_addKeys_error_order_dependent_refuted.

Theorem C04_heartbeat_ttl : forall managed (ups : list N), 0 < managed -> StronglySorted N.le ups ->
  StronglySorted N.le (map (advise managed) ups) /\ (forall u, In u ups -> u < advise managed u).
Proof. exact heartbeat_ttl. Qed.
Print Assumptions C04_heartbeat_ttl.

(* ---------------- non-vacuity ---------------- *)
Definition S0 : N := 262144.   (* start ts, physical 1 ms *)
Definition happy_prefix : list event :=
  [ ETso S0; EBegin 1 S0; ETso (S0 + 1); ECommitCall S0 false; EMutations S0 10 [(10, OpPut); (11, OpDel)];
    EPwSend 1 S0 10 [10] false false (S0 + 1) 0 []; EPwSend 1 S0 10 [11] false false (S0 + 1) 0 [];
    EPwDeliver 1 S0 [11] (PwOk 0 0); EPwDeliver 1 S0 [10] (PwOk 0 0);
    EPwReply 1 S0 [10] (PwOk 0 0); EPwReply 1 S0 [11] (PwOk 0 0); ETso (S0 + 2) ].
Definition happy : list event :=
  happy_prefix ++
  [ ECmSend 1 S0 (S0 + 2) [10]; ECmDeliver 1 S0 (S0 + 2) [10] CmOk; ECmReply 1 S0 (S0 + 2) [10] CmOk; ETold S0 TOk;
    ECmSend 1 S0 (S0 + 2) [11]; ECmDeliver 1 S0 (S0 + 2) [11] CmOk; ECmReply 1 S0 (S0 + 2) [11] CmOk ].

Example happy_accepted : exists s, run happy = Some s /\ hasm s S0 /\ classic s S0 /\ F s S0 FTold = 1 /\
  kget s S0 10 = Committed (S0 + 2) /\ kget s S0 11 = Committed (S0 + 2).
Proof.
  destruct (run happy) as [s |] eqn:E; [| vm_compute in E; discriminate]. exists s. split; auto.
  assert (E' : run happy = Some s) by exact E. vm_compute in E. inversion E.
  repeat split; try (vm_compute; congruence); intros c Hc; vm_compute in Hc; tauto.
Qed.

(* crash after the primary commit was delivered; a resolver finishes the secondary with the reported ts *)
Example crash_resolved_accepted : reject_of (happy_prefix ++
  [ ECmSend 1 S0 (S0 + 2) [10]; ECmDeliver 1 S0 (S0 + 2) [10] CmOk; ECrash 1; ELockSeen 2 S0 3000;
    ECtsSend 2 S0 10 0 (S0 + 16) false false false; ECtsDeliver 2 S0 10 (StCommitted (S0 + 2));
    ECtsReply 2 S0 10 (StCommitted (S0 + 2)); ERsSend 2 S0 (S0 + 2) [11]; ERsDeliver 2 S0 (S0 + 2) [11] GOk ]) = None.
Proof. vm_compute. reflexivity. Qed.

Example rejected_secondaries_before_primary_reply : reject_of (happy_prefix ++
  [ ECmSend 1 S0 (S0 + 2) [10]; ECmDeliver 1 S0 (S0 + 2) [10] CmOk; ECmSend 1 S0 (S0 + 2) [11] ]) = Some (14%nat, R1_secondary_first).
Proof. vm_compute. reflexivity. Qed.
Example rejected_commit_before_prewrite : reject_of
  [ ETso S0; EBegin 1 S0; ECommitCall S0 false; EMutations S0 10 [(10, OpPut); (11, OpPut)];
    EPwSend 1 S0 10 [10] false false (S0 + 1) 0 []; EPwDeliver 1 S0 [10] (PwOk 0 0); EPwReply 1 S0 [10] (PwOk 0 0);
    ETso (S0 + 2); ECmSend 1 S0 (S0 + 2) [10] ] = Some (8%nat, R1_unprewritten).
Proof. vm_compute. reflexivity. Qed.
Example rejected_rollback_after_commit_sent : reject_of (happy_prefix ++
  [ ECmSend 1 S0 (S0 + 2) [10]; ERbSend 1 S0 [10; 11] ]) = Some (13%nat, R2_rollback_after_commit).
Proof. vm_compute. reflexivity. Qed.
Example rejected_resolve_unreported_ts : reject_of (happy_prefix ++
  [ ECmSend 1 S0 (S0 + 2) [10]; ECmDeliver 1 S0 (S0 + 2) [10] CmOk; ECrash 1; ELockSeen 2 S0 3000;
    ECtsSend 2 S0 10 0 (S0 + 16) false false false; ECtsDeliver 2 S0 10 (StCommitted (S0 + 2));
    ECtsReply 2 S0 10 (StCommitted (S0 + 2)); ERsSend 2 S0 (S0 + 3) [11] ]) = Some (19%nat, R3_resolve_unreported).
Proof. vm_compute. reflexivity. Qed.
Example rejected_expire_live_lock : reject_of (happy_prefix ++
  [ ECrash 1; ELockSeen 2 S0 3000; ECtsSend 2 S0 10 (S0 + 16) maxts true false false ]) = Some (14%nat, R4_expire_live_lock).
Proof. vm_compute. reflexivity. Qed.
Example rejected_told_ok_without_commit : reject_of (happy_prefix ++
  [ ECmSend 1 S0 (S0 + 2) [10]; ECmDeliver 1 S0 (S0 + 2) [10] CmOk; ETold S0 TOk ]) = Some (14%nat, R7_ok_without_commit).
Proof. vm_compute. reflexivity. Qed.
Example rejected_told_err_with_pending_commit : reject_of (happy_prefix ++
  [ ECmSend 1 S0 (S0 + 2) [10]; ETold S0 TErr ]) = Some (13%nat, R7_err_with_pending).
Proof. vm_compute. reflexivity. Qed.
Example accepted_undetermined_on_lost_reply : reject_of (happy_prefix ++
  [ ECmSend 1 S0 (S0 + 2) [10]; ECmDeliver 1 S0 (S0 + 2) [10] CmOk; ETold S0 TUndet ]) = None.
Proof. vm_compute. reflexivity. Qed.
