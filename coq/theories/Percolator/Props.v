(* Percolator/Props.v — properties C02, C03, C04: the theorems (each closed by [exact] + Print Assumptions) and their
   non-vacuity Examples, nothing else. Proof scripts: ProofsTop.v and the files it exports; example traces: ExData.v.
   Model: System.v (acceptor over the event vocabulary of docs/PERC_EVENTS.md); a trace is any list of
   events; [run evs = Some s] = the acceptor accepts it. Loss = a send without deliver / a deliver
   without reply; duplication, delay, reordering = delivers in any number and order (the commit-point
   request: at most one delivery per send); crash = [ECrash]. [hasm s T] = T's mutations were logged,
   [classic s T] = T never used async commit / 1PC (then no resolve of T can be derived from the
   CheckSecondaryLocks fold: Inv.classic_flags). [F s T FTold] = 1 / 2 / 3 for Commit returning nil / undetermined / error. *)
From Verif Require Import Percolator.ProofsTop Percolator.ExData.
From Coq Require Import Sorting.Sorted Permutation.

(* ---------------- C02: crash atomicity (classic 2PC, optimistic and pessimistic prewrite) ---------------- *)
Theorem C02_atomic : forall evs s T, run evs = Some s -> hasm s T -> classic s T ->
  (* (i) one commit timestamp *)
  (forall k1 k2 c1 c2, kget s T k1 = Committed c1 -> kget s T k2 = Committed c2 -> c1 = c2) /\
  (* (ii) never one key committed and a locked mutation rolled back *)
  (forall k1 k2 c, kget s T k1 = Committed c -> In k2 (lm s T) -> kget s T k2 <> RolledBack) /\
  (* once the primary is committed every locked mutation is committed at that ts or still locked *)
  (forall c, kget s T (prim s T) = Committed c ->
     forall k, In k (lm s T) -> kget s T k = Committed c \/ exists m, kget s T k = Locked m) /\
  (* (iii) told success => primary committed, now and in every accepted extension *)
  (F s T FTold = 1 -> exists c, kget s T (prim s T) = Committed c /\
     forall evs' s', run_from s evs' = Some s' -> F s' T FTold = 1 /\ kget s' T (prim s' T) = Committed c) /\
  (* (iv) told a definite failure => no key is committed, now or in any accepted extension *)
  (F s T FTold = 3 -> forall evs' s', run_from s evs' = Some s' ->
     F s' T FTold = 3 /\ forall k c, kget s' T k <> Committed c).
Proof. exact C02_atomic_proof. Qed.
Print Assumptions C02_atomic.

(* the invariant behind it (J1-J6 of docs/DESIGN_ROUND1.md, Appendix B; the rules are those of docs/PERC_EVENTS.md) holds after every accepted trace *)
Theorem C02_invariant : Inv System.init /\ (forall s e s', Inv s -> step s e = Some s' -> Inv s') /\
                        (forall evs s, run evs = Some s -> Inv s).
Proof. exact (conj inv_init (conj inv_step inv_run)). Qed.
Print Assumptions C02_invariant.

(* ---- one-phase commit that has not fallen back: [onepcm s T] = mutations logged, every prewrite request
   asked for 1PC, the store never answered with a fallback (one-pc ts 0). The store applies the request in
   one step, so all keys of the transaction are committed together at the store-chosen ts. ---- *)
Theorem C02_atomic_onepc : forall evs s T, run evs = Some s -> onepcm s T ->
  (forall k1 k2 c1 c2, kget s T k1 = Committed c1 -> kget s T k2 = Committed c2 -> c1 = c2) /\
  (forall k1 k2 c, kget s T k1 = Committed c -> In k2 (lm s T) -> kget s T k2 <> RolledBack) /\
  (forall k c, kget s T k = Committed c -> forall k', In k' (call s T) -> kget s T k' = Committed c) /\
  (F s T FTold = 1 -> exists c, (forall k, In k (call s T) -> kget s T k = Committed c) /\
     forall evs' s', run_from s evs' = Some s' -> forall k, In k (call s T) -> kget s' T k = Committed c) /\
  (F s T FTold = 3 -> forall evs' s', run_from s evs' = Some s' ->
     F s' T FTold = 3 /\ forall k c, kget s' T k <> Committed c).
Proof. exact C02_atomic_onepc_proof. Qed.
Print Assumptions C02_atomic_onepc.

(* ---- async commit that has not fallen back: [asyncm s T] = mutations logged, every prewrite request asked
   for async commit, no reply / delivery reported min-commit 0, no forced fallback, and no prewrite request was
   applied as a one-phase commit ([no1pc]; 1PC may have been requested too and abandoned after a re-split:
   example async1pc_resplit_accepted; while 1PC is still in force and succeeds, C02_atomic_onepc applies).
   [Sealed s T] = every locked mutation has been prewritten; [cstar s T] = max of the min-commit ts of its
   locks (ghost map [lamk], fixed when a key is first locked); [NSa s T] = some locked mutation can never be
   locked. The theorem holds for EVERY accepted trace, hence also after any accepted extension in which T is
   still in async mode (see C02_atomic_async_extension). ---- *)
Theorem C02_atomic_async : forall evs s T, run evs = Some s -> asyncm s T ->
  (* (i) one commit ts, and it is cstar *)
  (forall k c, kget s T k = Committed c -> Sealed s T /\ c = cstar s T) /\
  (* (ii) all or nothing *)
  (forall k1 k2 c, kget s T k1 = Committed c -> In k2 (lm s T) -> kget s T k2 <> RolledBack) /\
  (* the owner's commit requests and every resolver decision carry cstar (resp. roll back only a dead transaction) *)
  (forall r C ks, In (ECmSend r T C ks) (s_sent s) -> Sealed s T /\ C = cstar s T) /\
  (forall r C ks, In (ERsSend r T C ks) (s_sent s) -> (C <> 0 -> Sealed s T /\ C = cstar s T) /\ (C = 0 -> NSa s T)) /\
  (* (iii) told success => sealed: every locked mutation is locked or committed at cstar, every resolver commits at cstar *)
  (F s T FTold = 1 ->
     Sealed s T /\
     (forall k, In k (lm s T) -> (exists m, kget s T k = Locked m /\ m <= cstar s T) \/ kget s T k = Committed (cstar s T)) /\
     (forall r C ks, In (ERsSend r T C ks) (s_sent s) -> C = cstar s T /\ C <> 0)) /\
  (* (iv) told a definite failure => nothing committed, every resolver decision is a rollback *)
  (F s T FTold = 3 -> (forall k c, kget s T k <> Committed c) /\ (forall r C ks, In (ERsSend r T C ks) (s_sent s) -> C = 0)).
Proof. exact C02_atomic_async_proof. Qed.
Print Assumptions C02_atomic_async.



Theorem C02_atomic_async_extension : forall evs s T evs' s', run evs = Some s -> run_from s evs' = Some s' -> asyncm s' T ->
  (F s T FTold = 1 -> F s' T FTold = 1 /\ Sealed s' T /\
     (forall k, In k (lm s' T) -> (exists m, kget s' T k = Locked m /\ m <= cstar s' T) \/ kget s' T k = Committed (cstar s' T))) /\
  (F s T FTold = 3 -> F s' T FTold = 3 /\ forall k c, kget s' T k <> Committed c).
Proof. exact C02_atomic_async_extension_proof. Qed.
Print Assumptions C02_atomic_async_extension.

(* what is NOT covered by C02_atomic / _onepc / _async / _fallback: a transaction that left async commit / 1PC although no
   locked mutation ever got a non-async lock (min-commit 0 answered only for already committed keys or for a request that
   locks nothing; a 1PC request answered "not committed" with a positive min-commit ts), or in which a request was applied
   as 1PC after the owner gave 1PC up. For them only the request-stream rules (C04_accept_sound), C02_fallback_owner_closed
   and the stability of the store's records are proved: *)
Theorem C02_atomic_fallback_partial : forall evs s T evs' s' k, run evs = Some s -> run_from s evs' = Some s' ->
  (forall c, kget s T k = Committed c -> kget s' T k = Committed c) /\ (kget s T k = RolledBack -> kget s' T k = RolledBack).
Proof. exact C02_atomic_fallback_partial_proof. Qed.
Print Assumptions C02_atomic_fallback_partial.

(* ... and, in EVERY commit mode (fallen back or not), the owner's own commit point is closed by a definite error:
   commit requests containing the primary are delivered at most once each, so when all of them were refused
   (none sent included: e.g. an async-commit transaction that fell back and failed during prewrite) none has
   succeeded or will ever succeed. What is not proved for fallen-back transactions is that no RESOLVER commits
   them through the CheckSecondaryLocks fold (see docs/PERC_EVENTS.md, "not covered"). *)
Theorem C02_fallback_owner_closed : forall evs s T, run evs = Some s -> hasm s T -> F s T FTold = 3 ->
  F s T FPcNeg = F s T FPcSent ->
  forall evs' s', run_from s evs' = Some s' ->
    F s' T FTold = 3 /\ forall r c ks, In (ECmReply r T c ks CmOk) (s_dlv s') -> ~ In (prim s T) ks.
Proof. exact C02_fallback_owner_closed_proof. Qed.
Print Assumptions C02_fallback_owner_closed.

(* ---- fallen back to (or never left) two-phase commit: [mixed s T] = mutations logged, some locked mutation holds
   or held a lock that is NOT an async-commit lock (its prewrite was answered min-commit 0: ghost map [lamk] = Some 0),
   and no prewrite request was applied as a one-phase commit ([no1pc]). The other keys may hold async-commit locks
   written before the fallback. Then the owner cannot have kept async commit and no resolver can commit through the
   CheckSecondaryLocks fold (a resolver that meets the non-async lock must force CheckTxnStatus on the primary):
   the transaction is a 2PC transaction for everybody. Classic transactions are the special case "all locks non-async". *)
Theorem C02_atomic_fallback : forall evs s T, run evs = Some s -> mixed s T ->
  (forall k1 k2 c1 c2, kget s T k1 = Committed c1 -> kget s T k2 = Committed c2 -> c1 = c2) /\
  (forall k1 k2 c, kget s T k1 = Committed c -> In k2 (lm s T) -> kget s T k2 <> RolledBack) /\
  (forall k c, kget s T k = Committed c -> kget s T (prim s T) = Committed c /\
     forall k', In k' (lm s T) -> kget s T k' = Committed c \/ exists m, kget s T k' = Locked m) /\
  (F s T FTold = 1 -> exists c, kget s T (prim s T) = Committed c /\
     forall evs' s', run_from s evs' = Some s' -> F s' T FTold = 1 /\ kget s' T (prim s' T) = Committed c) /\
  (F s T FTold = 3 -> forall evs' s', run_from s evs' = Some s' -> no1pc s' T ->
     F s' T FTold = 3 /\ forall k c, kget s' T k <> Committed c).
Proof. exact C02_atomic_fallback_proof. Qed.
Print Assumptions C02_atomic_fallback.

(* a locked mutation that currently holds a non-async lock makes the transaction mixed *)
Theorem C02_fallback_when : forall evs s T k, run evs = Some s -> hasm s T -> no1pc s T ->
  In k (lm s T) -> kget s T k = Locked 0 -> mixed s T.
Proof. exact C02_fallback_when_proof. Qed.
Print Assumptions C02_fallback_when.

(* how a transaction becomes mixed: the first prewrite that reaches a (so far unlocked) locked mutation is answered
   min-commit 0 (the store declined async commit / 1PC, or the request did not ask for it); from then on, for ever *)
Theorem C02_fallback_first_decline : forall pre s1 r T ks k s, run pre = Some s1 ->
  step s1 (EPwDeliver r T ks (PwOk 0 0)) = Some s -> In k ks -> kget s1 T k = Unlocked ->
  kget s T k = Locked 0 /\ forall evs' s', run_from s evs' = Some s' -> lamk s' T k = Some 0.
Proof. exact C02_fallback_first_decline_proof. Qed.
Print Assumptions C02_fallback_first_decline.

(* ---------------- C03: truthfulness of Commit's answer under faults ---------------- *)
Theorem C03_truthful : forall evs s T, run evs = Some s -> hasm s T -> classic s T ->
  (F s T FTold = 1 -> exists c, kget s T (prim s T) = Committed c /\
     (forall k, In k (lm s T) -> kget s T k = Committed c \/ exists m, kget s T k = Locked m) /\
     forall evs' s', run_from s evs' = Some s' -> F s' T FTold = 1 /\ kget s' T (prim s' T) = Committed c) /\
  (F s T FTold = 3 -> forall evs' s', run_from s evs' = Some s' ->
     F s' T FTold = 3 /\ forall k c, kget s' T k <> Committed c).
Proof. exact C03_truthful_proof. Qed.
Print Assumptions C03_truthful.

Theorem C03_truthful_onepc : forall evs s T, run evs = Some s -> onepcm s T ->
  (F s T FTold = 1 -> exists c, (forall k, In k (call s T) -> kget s T k = Committed c) /\
     forall evs' s', run_from s evs' = Some s' -> forall k, In k (call s T) -> kget s' T k = Committed c) /\
  (F s T FTold = 3 -> forall evs' s', run_from s evs' = Some s' -> F s' T FTold = 3 /\ forall k c, kget s' T k <> Committed c).
Proof. exact C03_truthful_onepc_proof. Qed.
Print Assumptions C03_truthful_onepc.

Theorem C03_truthful_async : forall evs s T, run evs = Some s -> asyncm s T ->
  (F s T FTold = 1 ->
     Sealed s T /\
     (forall k, In k (lm s T) -> (exists m, kget s T k = Locked m /\ m <= cstar s T) \/ kget s T k = Committed (cstar s T)) /\
     (forall r C ks, In (ERsSend r T C ks) (s_sent s) -> C = cstar s T /\ C <> 0)) /\
  (F s T FTold = 3 -> (forall k c, kget s T k <> Committed c) /\ (forall r C ks, In (ERsSend r T C ks) (s_sent s) -> C = 0)).
Proof. exact C03_truthful_async_proof. Qed.
Print Assumptions C03_truthful_async.

Theorem C03_truthful_fallback : forall evs s T, run evs = Some s -> mixed s T ->
  (F s T FTold = 1 -> exists c, kget s T (prim s T) = Committed c /\
     (forall k, In k (lm s T) -> kget s T k = Committed c \/ exists m, kget s T k = Locked m) /\
     forall evs' s', run_from s evs' = Some s' -> F s' T FTold = 1 /\ kget s' T (prim s' T) = Committed c) /\
  (F s T FTold = 3 -> forall evs' s', run_from s evs' = Some s' -> no1pc s' T ->
     F s' T FTold = 3 /\ forall k c, kget s' T k <> Committed c).
Proof. exact C03_truthful_fallback_proof. Qed.
Print Assumptions C03_truthful_fallback.

Theorem C03_undetermined_only_if : forall evs s, run evs = Some s -> undetermined_only_if evs.
Proof. exact undetermined_only_if_holds. Qed.
Print Assumptions C03_undetermined_only_if.

Theorem C03_fault_free_never_undetermined : forall evs s0 pre post s p ms,
  run evs = Some s0 -> evs = pre ++ ETold s TUndet :: post -> In (EMutations s p ms) pre ->
  (forall r p' ks a o m f secs, In (EPwSend r s p' ks a o m f secs) pre -> a = false /\ o = false) ->
  count_if (is_pc_send s p) pre = count_if (is_pc_reply s p) pre -> False.
Proof. exact fault_free_never_undetermined. Qed.
Print Assumptions C03_fault_free_never_undetermined.

(* ---------------- C04: request-stream rules ---------------- *)
Theorem C04_accept_sound : forall evs s, run evs = Some s ->
  commit_after_all_prewrites evs /\ secondaries_after_primary evs /\
  no_rollback_after_possible_commit evs /\ resolve_uses_reported_status evs /\
  commit_ts_bounds evs /\ expire_only_expired evs /\ told_ok_after_commit evs /\ undetermined_only_if evs /\
  told_err_only_if evs /\ csl_only_listed evs /\ force_only_after_nonasync evs.
Proof. exact accept_sound. Qed.
Print Assumptions C04_accept_sound.

Theorem C04_addKeys_order_independent : forall m0 rs rs',
  Permutation rs rs' -> consistent m0 rs -> fold_replies (AddKeys.init m0) rs = fold_replies (AddKeys.init m0) rs'.
Proof. exact addKeys_order_independent. Qed.
Print Assumptions C04_addKeys_order_independent.

Theorem C04_addKeys_order_independent_ok : forall m0 rs rs' a a',
  Permutation rs rs' -> fold_replies (AddKeys.init m0) rs = Some a -> fold_replies (AddKeys.init m0) rs' = Some a' -> a = a'.
Proof. exact addKeys_order_independent_ok. Qed.
Print Assumptions C04_addKeys_order_independent_ok.

Theorem C04_addKeys_result : forall m0 rs a, fold_replies (AddKeys.init m0) rs = Some a ->
  (missing a = true <-> exists c, In (Missing c) rs) /\
  ((forall c, ~ In (Missing c) rs) -> commit_ts a = max_all m0 rs) /\
  (forall c, In (Missing c) rs -> commit_ts a = c).
Proof. exact addKeys_result. Qed.
Print Assumptions C04_addKeys_result.

(* without the store-consistency hypothesis the ERROR status of the fold depends on the reply order *)
Theorem C04_addKeys_error_order_dependent_refuted : exists m0 rs rs',
  Permutation rs rs' /\ fold_replies (AddKeys.init m0) rs = None /\ fold_replies (AddKeys.init m0) rs' <> None.
Proof. exact addKeys_error_order_dependent_refuted. Qed.
Print Assumptions C04_addKeys_error_order_dependent_refuted.

Theorem C04_heartbeat_ttl : forall managed (ups : list N), 0 < managed -> StronglySorted N.le ups ->
  StronglySorted N.le (map (advise managed) ups) /\ (forall u, In u ups -> u < advise managed u).
Proof. exact heartbeat_ttl. Qed.
Print Assumptions C04_heartbeat_ttl.

(* ---------------- non-vacuity ---------------- *)

Example happy_accepted : exists s, run happy = Some s /\ hasm s S0 /\ classic s S0 /\ F s S0 FTold = 1 /\
  kget s S0 10 = Committed (S0 + 2) /\ kget s S0 11 = Committed (S0 + 2).
Proof.
  destruct (run happy) as [s |] eqn:E; [| vm_compute in E; discriminate]. exists s. split; auto.
  assert (E' : run happy = Some s) by exact E. vm_compute in E. inversion E.
  repeat split; try (vm_compute; congruence); intros c Hc; vm_compute in Hc; tauto.
Qed.

(* crash after the primary commit was delivered; a resolver finishes the secondary with the reported ts *)
Example crash_resolved_accepted : reject_of (happy_prefix ++
  [ ECmSend 1 S0 (S0 + 2) [10]; ECmDeliver 1 S0 (S0 + 2) [10] CmOk; ECrash 1; ELockSeen 2 S0 3000;
    ECtsSend 2 S0 10 0 (S0 + 16) false false false; ECtsDeliver 2 S0 10 (StCommitted (S0 + 2));
    ECtsReply 2 S0 10 (StCommitted (S0 + 2)); ERsSend 2 S0 (S0 + 2) [11]; ERsDeliver 2 S0 (S0 + 2) [11] GOk ]) = None.
Proof. vm_compute. reflexivity. Qed.

Example rejected_secondaries_before_primary_reply : reject_of (happy_prefix ++
  [ ECmSend 1 S0 (S0 + 2) [10]; ECmDeliver 1 S0 (S0 + 2) [10] CmOk; ECmSend 1 S0 (S0 + 2) [11] ]) = Some (14%nat, R1_secondary_first).
Proof. vm_compute. reflexivity. Qed.
Example rejected_commit_before_prewrite : reject_of
  [ ETso S0; EBegin 1 S0; ECommitCall S0 false; EMutations S0 10 [(10, OpPut); (11, OpPut)];
    EPwSend 1 S0 10 [10] false false (S0 + 1) 0 []; EPwDeliver 1 S0 [10] (PwOk 0 0); EPwReply 1 S0 [10] (PwOk 0 0);
    ETso (S0 + 2); ECmSend 1 S0 (S0 + 2) [10] ] = Some (8%nat, R1_unprewritten).
Proof. vm_compute. reflexivity. Qed.
Example rejected_rollback_after_commit_sent : reject_of (happy_prefix ++
  [ ECmSend 1 S0 (S0 + 2) [10]; ERbSend 1 S0 [10; 11] ]) = Some (13%nat, R2_rollback_after_commit).
Proof. vm_compute. reflexivity. Qed.
Example rejected_resolve_unreported_ts : reject_of (happy_prefix ++
  [ ECmSend 1 S0 (S0 + 2) [10]; ECmDeliver 1 S0 (S0 + 2) [10] CmOk; ECrash 1; ELockSeen 2 S0 3000;
    ECtsSend 2 S0 10 0 (S0 + 16) false false false; ECtsDeliver 2 S0 10 (StCommitted (S0 + 2));
    ECtsReply 2 S0 10 (StCommitted (S0 + 2)); ERsSend 2 S0 (S0 + 3) [11] ]) = Some (19%nat, R3_resolve_unreported).
Proof. vm_compute. reflexivity. Qed.
Example rejected_expire_live_lock : reject_of (happy_prefix ++
  [ ECrash 1; ELockSeen 2 S0 3000; ECtsSend 2 S0 10 (S0 + 16) maxts true false false ]) = Some (14%nat, R4_expire_live_lock).
Proof. vm_compute. reflexivity. Qed.
Example rejected_told_ok_without_commit : reject_of (happy_prefix ++
  [ ECmSend 1 S0 (S0 + 2) [10]; ECmDeliver 1 S0 (S0 + 2) [10] CmOk; ETold S0 TOk ]) = Some (14%nat, R7_ok_without_commit).
Proof. vm_compute. reflexivity. Qed.
Example rejected_told_err_with_pending_commit : reject_of (happy_prefix ++
  [ ECmSend 1 S0 (S0 + 2) [10]; ETold S0 TErr ]) = Some (13%nat, R7_err_with_pending).
Proof. vm_compute. reflexivity. Qed.
Example accepted_undetermined_on_lost_reply : reject_of (happy_prefix ++
  [ ECmSend 1 S0 (S0 + 2) [10]; ECmDeliver 1 S0 (S0 + 2) [10] CmOk; ETold S0 TUndet ]) = None.
Proof. vm_compute. reflexivity. Qed.

(* async commit and 1PC: the mode hypotheses are satisfiable by accepted traces *)
Example async_happy_accepted : exists s, run async_happy = Some s /\ asyncm s S0 /\ F s S0 FTold = 1 /\
  cstar s S0 = S0 + 4 /\ kget s S0 11 = Committed (S0 + 4) /\ kget s S0 10 = Locked (S0 + 3).
Proof.
  destruct (run async_happy) as [s |] eqn:E; [| vm_compute in E; discriminate]. exists s. split; auto.
  vm_compute in E. inversion E. split; [| repeat split; vm_compute; congruence].
  unfold asyncm, hasm. split; [vm_compute; congruence |]. split; [vm_compute; congruence |]. split; [| split; vm_compute; congruence].
  intros r ks m o Hi. vm_compute in Hi. repeat (destruct Hi as [Hi | Hi]; [inversion Hi; reflexivity |]). destruct Hi.
Qed.
Example onepc_happy_accepted : exists s, run onepc_happy = Some s /\ onepcm s S0 /\ F s S0 FTold = 1 /\
  kget s S0 10 = Committed (S0 + 3) /\ kget s S0 11 = Committed (S0 + 3).
Proof.
  destruct (run onepc_happy) as [s |] eqn:E; [| vm_compute in E; discriminate]. exists s. split; auto.
  vm_compute in E. inversion E. unfold onepcm, hasm. repeat split; vm_compute; congruence.
Qed.
(* async commit: a definite error while the primary's prewrite is unanswered is rejected; with the primary never sent it is accepted *)
Example async_err_primary_pending_rejected : reject_of
  [ ETso S0; EBegin 1 S0; ECommitCall S0 false; EMutations S0 10 [(10, OpPut); (11, OpPut)];
    EPwSend 1 S0 10 [10] true false (S0 + 2) 0 [11]; EPwSend 1 S0 10 [11] true false (S0 + 2) 0 [];
    EPwDeliver 1 S0 [11] (PwOk (S0 + 4) 0); EPwReply 1 S0 [11] (PwOk (S0 + 4) 0); ETold S0 TErr ] = Some (8%nat, R7_err_with_pending).
Proof. vm_compute. reflexivity. Qed.
Example async_err_primary_never_sent_accepted : reject_of
  [ ETso S0; EBegin 1 S0; ECommitCall S0 false; EMutations S0 10 [(10, OpPut); (11, OpPut)];
    EPwSend 1 S0 10 [11] true false (S0 + 2) 0 [];
    EPwDeliver 1 S0 [11] (PwOk (S0 + 4) 0); ETold S0 TErr ] = None.
Proof. vm_compute. reflexivity. Qed.
(* async commit + 1PC requested, the single request hit a region error, re-split: 1PC abandoned, async commit kept *)
Example async1pc_resplit_accepted : exists s, run async1pc_resplit = Some s /\ asyncm s S0 /\ F s S0 FTried1 <> 0 /\
  F s S0 FTold = 1 /\ cstar s S0 = S0 + 4 /\ kget s S0 11 = Committed (S0 + 4).
Proof.
  destruct (run async1pc_resplit) as [s |] eqn:E; [| vm_compute in E; discriminate]. exists s. split; auto.
  vm_compute in E. inversion E. split; [| repeat split; vm_compute; congruence].
  unfold asyncm, hasm. split; [vm_compute; congruence |]. split; [vm_compute; congruence |]. split; [| split; vm_compute; congruence].
  intros r ks m o Hi. vm_compute in Hi. repeat (destruct Hi as [Hi | Hi]; [inversion Hi; reflexivity |]). destruct Hi.
Qed.
(* the owner saw min-commit 0 (store declined async commit): it is a 2PC committer, a definite error needs no closed key ... *)
Example fallback_err_primary_unanswered_accepted : reject_of
  [ ETso S0; EBegin 1 S0; ECommitCall S0 false; EMutations S0 10 [(10, OpPut); (11, OpPut)];
    EPwSend 1 S0 10 [11] true false (S0 + 2) 0 []; EPwDeliver 1 S0 [11] (PwOk 0 0); EPwReply 1 S0 [11] (PwOk 0 0);
    EPwSend 1 S0 10 [10] true false (S0 + 2) 0 [11]; EPwDeliver 1 S0 [10] (PwOk 0 0); ETold S0 TErr ] = None.
Proof. vm_compute. reflexivity. Qed.
Example fallback_owner_closed_hypotheses : exists s, run
  [ ETso S0; EBegin 1 S0; ECommitCall S0 false; EMutations S0 10 [(10, OpPut); (11, OpPut)];
    EPwSend 1 S0 10 [11] true false (S0 + 2) 0 []; EPwDeliver 1 S0 [11] (PwOk 0 0); EPwReply 1 S0 [11] (PwOk 0 0);
    EPwSend 1 S0 10 [10] true false (S0 + 2) 0 [11]; EPwDeliver 1 S0 [10] (PwOk 0 0); ETold S0 TErr ] = Some s /\
  hasm s S0 /\ F s S0 FTold = 3 /\ F s S0 FPcNeg = F s S0 FPcSent /\ F s S0 FTriedA <> 0 /\ F s S0 FFb <> 0.
Proof.
  eexists. split; [vm_compute; reflexivity |]. unfold hasm. repeat split; vm_compute; congruence.
Qed.
(* ... but, as in 2PC, no primary commit request may be outstanding *)
Example fallback_err_with_pending_commit_rejected : reject_of
  [ ETso S0; EBegin 1 S0; ECommitCall S0 false; EMutations S0 10 [(10, OpPut); (11, OpPut)];
    EPwSend 1 S0 10 [10; 11] true false (S0 + 2) 0 [11]; EPwDeliver 1 S0 [10; 11] (PwOk 0 0); EPwReply 1 S0 [10; 11] (PwOk 0 0);
    ETso (S0 + 3); ECmSend 1 S0 (S0 + 3) [10]; ECmDeliver 1 S0 (S0 + 3) [10] CmOk; ETold S0 TErr ] = Some (10%nat, R7_err_with_pending).
Proof. vm_compute. reflexivity. Qed.
(* the fallback hypothesis is satisfiable: async commit declined on key 11 (2PC lock), the owner's error is final ... *)
Example fallback_mixed_told_err : exists s, run
  [ ETso S0; EBegin 1 S0; ECommitCall S0 false; EMutations S0 10 [(10, OpPut); (11, OpPut)];
    EPwSend 1 S0 10 [11] true false (S0 + 2) 0 []; EPwDeliver 1 S0 [11] (PwOk 0 0); EPwReply 1 S0 [11] (PwOk 0 0);
    EPwSend 1 S0 10 [10] true false (S0 + 2) 0 [11]; EPwDeliver 1 S0 [10] (PwOk (S0 + 3) 0); ETold S0 TErr ] = Some s /\
  mixed s S0 /\ F s S0 FTold = 3 /\ kget s S0 10 = Locked (S0 + 3) /\ kget s S0 11 = Locked 0.
Proof.
  eexists. split; [vm_compute; reflexivity |]. split; [| repeat split; vm_compute; congruence].
  split; [unfold hasm; vm_compute; congruence |]. split.
  - intros r ks m o Hi. vm_compute in Hi. repeat (destruct Hi as [Hi | Hi]; [inversion Hi; reflexivity |]). destruct Hi.
  - exists 11. split; [vm_compute; auto | vm_compute; reflexivity].
Qed.
(* ... and the 2PC commit after the fallback *)
Example fallback_mixed_told_ok : exists s, run
  [ ETso S0; EBegin 1 S0; ECommitCall S0 false; ETso (S0 + 1); EMutations S0 10 [(10, OpPut); (11, OpPut)];
    EPwSend 1 S0 10 [10] true false (S0 + 2) 0 [11]; EPwSend 1 S0 10 [11] true false (S0 + 2) 0 [];
    EPwDeliver 1 S0 [10] (PwOk (S0 + 3) 0); EPwDeliver 1 S0 [11] (PwOk 0 0);
    EPwReply 1 S0 [10] (PwOk (S0 + 3) 0); EPwReply 1 S0 [11] (PwOk 0 0); ETso (S0 + 5);
    ECmSend 1 S0 (S0 + 5) [10]; ECmDeliver 1 S0 (S0 + 5) [10] CmOk; ECmReply 1 S0 (S0 + 5) [10] CmOk; ETold S0 TOk ] = Some s /\
  mixed s S0 /\ F s S0 FTold = 1 /\ kget s S0 10 = Committed (S0 + 5) /\ kget s S0 11 = Locked 0.
Proof.
  eexists. split; [vm_compute; reflexivity |]. split; [| repeat split; vm_compute; congruence].
  split; [unfold hasm; vm_compute; congruence |]. split.
  - intros r ks m o Hi. vm_compute in Hi. repeat (destruct Hi as [Hi | Hi]; [inversion Hi; reflexivity |]). destruct Hi.
  - exists 11. split; [vm_compute; auto | vm_compute; reflexivity].
Qed.
(* why C02_atomic_fallback_partial stays partial: the corner is real ON THE MODEL. A store that answers min-commit 0 for a
   request that wrote no lock (here: a CheckNotExists-only batch) makes the owner a 2PC committer although every lock is an
   async-commit lock with the full secondaries list; a resolver folds to the locks' maximum, the owner commits its primary
   at a fresh ts: two commit timestamps. (TiKV answers max(requested, start+1) for such a request and writes non-async
   locks whenever it declines: no store in the test bed produces this trace.) *)
Example fallback_corner_two_commit_ts_on_the_model : exists s, run
  [ ETso S0; EBegin 1 S0; ECommitCall S0 false; ETso (S0 + 1); EMutations S0 10 [(10, OpPut); (11, OpPut); (12, OpCne)];
    EPwSend 1 S0 10 [10] true false (S0 + 2) 0 [11]; EPwSend 1 S0 10 [11] true false (S0 + 2) 0 []; EPwSend 1 S0 10 [12] true false (S0 + 2) 0 [];
    EPwDeliver 1 S0 [10] (PwOk (S0 + 3) 0); EPwDeliver 1 S0 [11] (PwOk (S0 + 4) 0); EPwDeliver 1 S0 [12] (PwOk 0 0);
    EPwReply 1 S0 [10] (PwOk (S0 + 3) 0); EPwReply 1 S0 [11] (PwOk (S0 + 4) 0); EPwReply 1 S0 [12] (PwOk 0 0);
    ELockSeen 2 S0 3000; ECtsSend 2 S0 10 (S0 + 5) (S0 + 5) false false false; ECtsDeliver 2 S0 10 (StLocked 3000 (S0 + 3) true [11]);
    ECtsReply 2 S0 10 (StLocked 3000 (S0 + 3) true [11]); ECslSend 2 S0 [11]; ECslDeliver 2 S0 [11] (CslLocks [(11, S0 + 4)]);
    ECslReply 2 S0 [11] (CslLocks [(11, S0 + 4)]); ERsSend 2 S0 (S0 + 4) [11]; ERsDeliver 2 S0 (S0 + 4) [11] GOk;
    ETso (S0 + 9); ECmSend 1 S0 (S0 + 9) [10]; ECmDeliver 1 S0 (S0 + 9) [10] CmOk ] = Some s /\
  kget s S0 11 = Committed (S0 + 4) /\ kget s S0 10 = Committed (S0 + 9) /\
  ~ mixed s S0 /\ ~ asyncm s S0 /\ ~ classic s S0.
Proof.
  eexists. split; [vm_compute; reflexivity |]. split; [vm_compute; reflexivity |]. split; [vm_compute; reflexivity |].
  split; [| split].
  - intros [_ [_ [k0 [K1 K2]]]]. vm_compute in K1. destruct K1 as [<- | [<- | []]]; vm_compute in K2; discriminate K2.
  - intros [_ [_ [_ [Hf _]]]]. vm_compute in Hf. discriminate Hf.
  - intros [Ha _]. vm_compute in Ha. discriminate Ha.
Qed.

