(* Percolator/ProofsTrace.v — every trace accepted by System.run satisfies the automaton-independent
   trace predicates of Trace.v. *)
From Verif Require Import Percolator.Event Percolator.System Percolator.Trace
  Percolator.ProofsTrace0 Percolator.ProofsTrace1 Percolator.ProofsTrace2 Percolator.ProofsTrace3
  Percolator.ProofsTrace4 Percolator.ProofsTrace5.

Lemma lock_keys_of_agrees ms : lock_keys_of ms = lock_keys ms.
Proof. reflexivity. Qed.

Lemma step_stepr s e s' : step s e = Some s' -> stepr s e = Ok s'.
Proof. unfold step. destruct (stepr s e); intros E; inversion E; reflexivity. Qed.

Lemma H_step pre s e s' : H pre (view_of s) -> stepr s e = Ok s' -> H (pre ++ [e]) (view_of s').
Proof.
  intros Hh St. apply stepr_vstep in St. split.
  - eapply HG_step; [exact (proj1 Hh) | exact St].
  - eapply HT_step; eauto.
Qed.

Lemma H_run evs : forall pre s s', H pre (view_of s) -> run_from s evs = Some s' -> H (pre ++ evs) (view_of s').
Proof.
  induction evs as [|e evs IH]; intros pre s s' Hh R; cbn [run_from] in R.
  - inversion R; subst. rewrite app_nil_r. exact Hh.
  - destruct (step s e) eqn:E; try discriminate. apply step_stepr in E.
    change (pre ++ e :: evs) with (pre ++ [e] ++ evs). rewrite app_assoc.
    eapply IH; [eapply H_step; eauto | exact R].
Qed.

Lemma run_split a : forall s e b s', run_from s (a ++ e :: b) = Some s' ->
  exists s1 s2, run_from s a = Some s1 /\ stepr s1 e = Ok s2 /\ run_from s2 b = Some s'.
Proof.
  induction a as [|x a IH]; intros s e b s' R.
  - cbn [app run_from] in R. destruct (step s e) eqn:E; try discriminate.
    exists s, s0. split; [reflexivity|]. split; [apply step_stepr; exact E | exact R].
  - cbn [app run_from] in R. destruct (step s x) eqn:E; try discriminate.
    destruct (IH _ _ _ _ R) as (s1 & s2 & R1 & R2 & R3).
    exists s1, s2. cbn [run_from]. rewrite E. auto.
Qed.

Lemma at_event evs s0 pre e post :
  run evs = Some s0 -> evs = pre ++ e :: post -> exists v v', H pre v /\ vstep v e v'.
Proof.
  intros R ->. unfold run in R. apply run_split in R. destruct R as (s1 & s2 & R1 & R2 & _).
  exists (view_of s1), (view_of s2). split.
  - apply (H_run pre [] init s1 H_init R1).
  - apply stepr_vstep. exact R2.
Qed.

(* ---- what an accepted commit_send of a transaction with logged mutations has checked ---- *)
Lemma cm_send_facts pre v v' r T C ks p ms :
  H pre v -> vstep v (ECmSend r T C ks) v' -> In (EMutations T p ms) pre ->
  let c := vgetc v T in
  HT T pre c /\ cn c FDead = 0 /\ cn c FPrim = p /\ c_lm c = lock_keys ms /\
  subset (c_lm c) (c_pwok c) = true /\ T < C /\ cn c FMinc <= C /\
  (negb (fb c FCalled) || fb c FCausal || (cn c FWm <? C)) = true /\
  (mem p ks = false -> ((cn c FPcOk =? C) || async_kept c) = true) /\
  (negb (async_kept c) || (C =? cn c FMinc)) = true.
Proof.
  intros [G A] St Hm. cbv zeta. cbn [vstep] in St. cbv zeta in St.
  destruct St as [Hd St]. apply fb_false in Hd.
  destruct (t_muts _ _ _ (A T) _ _ Hm) as (Hh & Hp & Hl).
  apply fb_true in Hh. rewrite Hh in St. destruct St as (S1 & S2 & S3 & S3b & S4 & St).
  split; [exact (A T)|]. split; [exact Hd|]. split; [exact Hp|]. split; [exact Hl|].
  split; [exact S1|]. split; [exact S2|]. split; [exact S3|]. split; [exact S4|].
  split; [| exact S3b].
  intros Em. rewrite Hp, Em in St. exact (proj1 St).
Qed.

Theorem commit_after_all_prewrites_holds evs s0 : run evs = Some s0 -> commit_after_all_prewrites evs.
Proof.
  intros R pre post r T C ks p ms E Hm k Hk.
  destruct (at_event _ _ _ _ _ R E) as (v & v' & Hh & St).
  destruct (cm_send_facts _ _ _ _ _ _ _ _ _ Hh St Hm) as (HTc & _ & _ & Hl & Hsub & _).
  rewrite lock_keys_of_agrees, <- Hl in Hk.
  apply (subset_In _ _ Hsub) in Hk. exact (t_pwok _ _ _ HTc _ Hk).
Qed.

Theorem secondaries_after_primary_holds evs s0 : run evs = Some s0 -> secondaries_after_primary evs.
Proof.
  intros R pre post r T C ks p ms E Hm Hnp.
  destruct (at_event _ _ _ _ _ R E) as (v & v' & Hh & St).
  destruct (cm_send_facts _ _ _ _ _ _ _ _ _ Hh St Hm) as (HTc & _ & Hp & _ & _ & Hts & _ & _ & Hsec & _).
  assert (Em : mem p ks = false).
  { destruct (mem p ks) eqn:Em; [|reflexivity]. apply mem_In in Em. contradiction. }
  specialize (Hsec Em). apply orb_true_iff in Hsec. destruct Hsec as [Hs | Hs].
  - left. apply N.eqb_eq in Hs.
    assert (Hnz : cn (vgetc v T) FPcOk <> 0) by lia.
    pose proof (t_pcok _ _ _ HTc Hnz) as Hc. rewrite Hs, Hp in Hc. exact Hc.
  - right. unfold async_kept in Hs. apply andb_true_iff in Hs. destruct Hs as [Hs _].
    apply fb_true in Hs. exact (t_trieda _ _ _ HTc Hs).
Qed.

Theorem no_rollback_after_possible_commit_holds evs s0 :
  run evs = Some s0 -> no_rollback_after_possible_commit evs.
Proof.
  intros R. split.
  - intros pre post r T ks p ms E Hm.
    destruct (at_event _ _ _ _ _ R E) as (v & v' & [G A] & St).
    cbn [vstep] in St. destruct St as [Hn _]. apply andb_true_iff in Hn. destruct Hn as [Hn _].
    pose proof (A T) as HTc. destruct (t_muts _ _ _ HTc _ _ Hm) as (Hh & Hp & _).
    unfold neg_ok in Hn. apply andb_true_iff in Hn. destruct Hn as [H0 Hn]. apply N.eqb_eq in H0.
    split.
    + intros r' c' ks' Hi. pose proof (t_pcok0 _ _ _ HTc Hh H0 _ _ _ Hi) as Hx. rewrite Hp in Hx. exact Hx.
    + apply orb_true_iff in Hn. destruct Hn as [Hn | Hn].
      * left. apply N.eqb_eq in Hn.
        pose proof (t_sent _ _ _ HTc) as Hs. pose proof (t_neg _ _ _ HTc Hh) as Hg.
        apply N.eqb_neq in Hh. rewrite Hh, Hp in Hs. rewrite Hp in Hg. lia.
      * right. apply fb_true in Hn. pose proof (t_rb _ _ _ HTc Hn) as Hx. rewrite Hp in Hx. exact Hx.
  - intros pre post r T C ks p ms E Hm r' ks' Hi.
    destruct (at_event _ _ _ _ _ R E) as (v & v' & Hh & St).
    destruct (cm_send_facts _ _ _ _ _ _ _ _ _ Hh St Hm) as (HTc & Hd & _).
    exact (t_dead _ _ _ HTc _ _ Hi Hd).
Qed.

Theorem resolve_uses_reported_status_holds evs s0 : run evs = Some s0 -> resolve_uses_reported_status evs.
Proof.
  intros R pre post r T C ks E.
  destruct (at_event _ _ _ _ _ R E) as (v & v' & [G A] & St).
  cbn [vstep] in St. destruct St as [J _].
  destruct J as [(Hc & p & Hi) | [(Hc & p & Hi) | [((ks' & Hi) & (p & ttl & m & secs & Hj)) | (p & ttl & m & secs & Hi & Hm & Hs)]]].
  - left. split; [exact Hc|]. exists p. exact (g_cts _ _ G _ Hi).
  - right. left. split; [exact Hc|]. exists p. exact (g_cts _ _ G _ Hi).
  - right. right. left. split; [exists ks'; exact (g_csl _ _ G _ Hi) | exists p, ttl, m, secs; exact (g_cts _ _ G _ Hj)].
  - right. right. right. exists p, ttl, m, secs. split; [exact (g_cts _ _ G _ Hi)|]. split; [exact Hm|].
    intros k Hk. destruct (Hs k Hk) as (ks' & l & m' & I1 & I2 & I3 & I4).
    exists ks', l, m'. split; [exact (g_csl _ _ G _ I1)|]. split; [assumption |]. split; assumption.
Qed.

Theorem commit_ts_bounds_holds evs s0 : run evs = Some s0 -> commit_ts_bounds evs.
Proof.
  intros R pre post r T C ks p ms E Hm.
  destruct (at_event _ _ _ _ _ R E) as (v & v' & Hh & St).
  destruct (cm_send_facts _ _ _ _ _ _ _ _ _ Hh St Hm) as (HTc & _ & _ & Hl & Hsub & Hts & Hmin & Hwm & _ & Hak).
  split; [exact Hts|]. split; [| split].
  - intros r' ks' m o Hi [k [Hk1 Hk2]].
    assert (m <= cn (vgetc v T) FMinc).
    { apply (t_minc _ _ _ HTc _ _ _ _ Hi). right. exists k. split; [exact Hk1 |]. rewrite Hl, <- lock_keys_of_agrees. exact Hk2. }
    lia.
  - intros pre1 pre2 Hd Hno t Ht.
    destruct (t_call _ _ _ HTc _ _ _ Hd Hno) as (Hc & Hcz & Hw).
    assert (Hcausal : cn (vgetc v T) FCausal = 0).
    { destruct (N.eq_dec (cn (vgetc v T) FCausal) 0) as [Hz | Hz]; [exact Hz|].
      apply Hcz in Hz. discriminate. }
    apply fb_true in Hc. apply fb_false in Hcausal. rewrite Hc, Hcausal in Hwm. cbn [negb orb] in Hwm.
    apply N.ltb_lt in Hwm. specialize (Hw t Ht). lia.
  - intros Hall Hno0. destruct Hh as [G A].
    (* the primary is a locked mutation, so some prewrite reply, hence some prewrite request exists *)
    pose proof (t_primlk _ _ _ HTc _ _ Hm) as Hpl. rewrite <- Hl in Hpl.
    apply (subset_In _ _ Hsub) in Hpl. destruct (t_pwok _ _ _ HTc _ Hpl) as (r1 & ks1 & m1 & o1 & Hi1 & _).
    destruct (g_pwdlv _ _ G _ _ _ _ (g_pwrep _ _ G _ _ _ _ Hi1)) as (p1 & a1 & o2 & m2 & f2 & secs2 & Hs1).
    apply (g_sent _ _ G) in Hs1. destruct (Hall _ _ _ _ _ _ _ _ Hs1) as [-> ->].
    assert (Hta : cn (vgetc v T) FTriedA <> 0) by (eapply t_trieda2; eauto).
    assert (Hfb : cn (vgetc v T) FFb = 0).
    { destruct (N.eq_dec (cn (vgetc v T) FFb) 0) as [Hz | Hz]; [exact Hz | exfalso].
      destruct (t_fb _ _ _ HTc Hz) as [(r2 & p2 & ks2 & o3 & m3 & f3 & secs3 & Hi) | [(r2 & ks2 & o3 & Hi) | (r2 & p2 & ks2 & a3 & m3 & f3 & secs3 & Hi)]].
      - destruct (Hall _ _ _ _ _ _ _ _ Hi) as [Hx _]. discriminate.
      - exact (Hno0 _ _ _ Hi).
      - destruct (Hall _ _ _ _ _ _ _ _ Hi) as [_ Hx]. discriminate. }
    assert (Hk : async_kept (vgetc v T) = true).
    { unfold async_kept. apply fb_true in Hta. apply fb_false in Hfb. rewrite Hta, Hfb. reflexivity. }
    rewrite Hk in Hak. cbn [negb orb] in Hak. apply N.eqb_eq in Hak.
    assert (Hnz : cn (vgetc v T) FMinc <> 0) by lia.
    destruct (t_minc2 _ _ _ HTc Hnz) as (r2 & ks2 & o3 & Hi). rewrite <- Hak in Hi. exists r2, ks2, o3. exact Hi.
Qed.

Theorem expire_only_expired_holds evs s0 : run evs = Some s0 -> expire_only_expired evs.
Proof.
  intros R pre post r T p caller cur rbine force respess E Hc.
  destruct (at_event _ _ _ _ _ R E) as (v & v' & [G A] & St).
  cbn [vstep] in St. destruct St as [Hx _]. specialize (Hx Hc).
  destruct Hx as [(ttl & Hi & Ht) | (sp & Hi & Hle)].
  - left. exists ttl. split; [exact (g_seen _ _ G _ _ _ Hi)|].
    destruct Ht as [Ht | Ht]; [left; exact Ht|].
    destruct (g_tso2 _ _ G) as [Hz | Hz].
    + left. rewrite Hz in Ht. unfold phys in Ht. rewrite N.div_0_l in Ht by discriminate.
      generalize dependent (T / 262144). intros q Ht. lia.
    + right. exists (v_tso v). split; [exact Hz | exact Ht].
  - right. exists sp. split; [exact (g_gc _ _ G _ _ Hi) | exact Hle].
Qed.

Theorem told_ok_after_commit_holds evs s0 : run evs = Some s0 -> told_ok_after_commit evs.
Proof.
  intros R pre post T p ms E Hm.
  destruct (at_event _ _ _ _ _ R E) as (v & v' & [G A] & St).
  cbn [vstep] in St. destruct St as [Hg _]. cbn [told_guard] in Hg.
  pose proof (A T) as HTc. destruct (t_muts _ _ _ HTc _ _ Hm) as (Hh & Hp & Hl).
  apply orb_true_iff in Hg. destruct Hg as [Hg | Hd].
  2: { exfalso. repeat (apply andb_true_iff in Hd; destruct Hd as [Hd _]). apply negb_true_iff, fb_false in Hd. contradiction. }
  apply orb_true_iff in Hg. destruct Hg as [Hg | Hg]; [apply orb_true_iff in Hg; destruct Hg as [Hg | Hg]|].
  - left. apply negb_true_iff, N.eqb_neq in Hg.
    destruct (t_pcok _ _ _ HTc Hg) as (r & ks & Hi & Hk). rewrite Hp in Hk. exists r, (cn (vgetc v T) FPcOk), ks. split; assumption.
  - right. left. apply negb_true_iff, N.eqb_neq in Hg.
    destruct (t_1pc _ _ _ HTc Hg) as (r & ks & m & Hi). exists r, ks, m, (cn (vgetc v T) F1pcTs). split; assumption.
  - right. right. apply andb_true_iff in Hg. destruct Hg as [Hg _].
    apply andb_true_iff in Hg. destruct Hg as [Hg Hsub].
    apply andb_true_iff in Hg. destruct Hg as [Hg _].
    unfold async_kept in Hg. apply andb_true_iff in Hg. destruct Hg as [Hg Hfb].
    apply fb_true in Hg. apply negb_true_iff, fb_false in Hfb.
    split; [exact (t_trieda _ _ _ HTc Hg) |]. split; [| split].
    + intros r' p' ks' a o m f secs Hi. destruct a; [reflexivity | exfalso]. exact (t_fbc1 _ _ _ HTc _ _ _ _ _ _ _ Hi Hfb).
    + intros r' ks' o Hi. exact (t_fbc2 _ _ _ HTc _ _ _ Hi Hfb).
    + intros k Hk. rewrite lock_keys_of_agrees, <- Hl in Hk. apply (subset_In _ _ Hsub) in Hk. exact (t_pwok _ _ _ HTc _ Hk).
Qed.

Theorem undetermined_only_if_holds evs s0 : run evs = Some s0 -> undetermined_only_if evs.
Proof.
  intros R pre post T p ms E Hm.
  destruct (at_event _ _ _ _ _ R E) as (v & v' & [G A] & St).
  cbn [vstep] in St. destruct St as [Hg _]. cbn [told_guard] in Hg.
  pose proof (A T) as HTc. destruct (t_muts _ _ _ HTc _ _ Hm) as (Hh & Hp & _).
  apply orb_true_iff in Hg. destruct Hg as [Hg | Hg].
  - left. apply N.ltb_lt in Hg.
    pose proof (t_sent _ _ _ HTc) as Hs. pose proof (t_rep _ _ _ HTc Hh) as Hr.
    apply N.eqb_neq in Hh. rewrite Hh, Hp in Hs. rewrite Hp in Hr. lia.
  - right. apply andb_true_iff in Hg. destruct Hg as [Hcp Hlt]. apply N.ltb_lt in Hlt. split.
    + unfold commit_point_pw in Hcp. apply orb_true_iff in Hcp. destruct Hcp as [Hc | Hc]; apply fb_true in Hc.
      * destruct (t_trieda _ _ _ HTc Hc) as (r & p' & ks & o & m & f & secs & Hi).
        exists r, p', ks, true, o, m, f, secs. split; [exact Hi | left; reflexivity].
      * destruct (t_tried1 _ _ _ HTc Hc) as (r & p' & ks & a & m & f & secs & Hi).
        exists r, p', ks, a, true, m, f, secs. split; [exact Hi | right; reflexivity].
    + pose proof (t_pws _ _ _ HTc). pose proof (t_pwr _ _ _ HTc). lia.
Qed.

Theorem told_err_only_if_occ_holds evs s0 : run evs = Some s0 -> told_err_only_if_occ evs.
Proof.
  intros R pre post T p ms E Hm Hcp.
  destruct (at_event _ _ _ _ _ R E) as (v & v' & [G A] & St).
  cbn [vstep] in St. destruct St as [Hg _]. cbn [told_guard] in Hg.
  pose proof (A T) as HTc. destruct (t_muts _ _ _ HTc _ _ Hm) as (Hh & Hp & Hl).
  apply andb_true_iff in Hg. destruct Hg as [Hg _]. apply andb_true_iff in Hg. destruct Hg as [_ Hg].
  assert (Hcpw : cp_active (vgetc v T) = true).
  { destruct Hcp as [(r & p' & ks & a & o & m & f & secs & Hi) [[Hall Hno] | [Hall Hno]]].
    - (* async commit in force *)
      destruct (Hall _ _ _ _ _ _ _ _ Hi) as [-> ->].
      assert (Hta : cn (vgetc v T) FTriedA <> 0) by (eapply t_trieda2; eauto).
      assert (Hfb : cn (vgetc v T) FFb = 0).
      { destruct (N.eq_dec (cn (vgetc v T) FFb) 0) as [Hz | Hz]; [exact Hz | exfalso].
        destruct (t_fb _ _ _ HTc Hz) as [(r2 & p2 & ks2 & o3 & m3 & f3 & secs3 & Hi2) | [(r2 & ks2 & o3 & Hi2) | (r2 & p2 & ks2 & a3 & m3 & f3 & secs3 & Hi2)]].
        - destruct (Hall _ _ _ _ _ _ _ _ Hi2) as [Hx _]. discriminate.
        - exact (Hno _ _ _ Hi2).
        - destruct (Hall _ _ _ _ _ _ _ _ Hi2) as [_ Hx]. discriminate. }
      unfold cp_active, async_kept. apply fb_true in Hta. apply fb_false in Hfb. rewrite Hta, Hfb. reflexivity.
    - (* 1PC in force *)
      pose proof (Hall _ _ _ _ _ _ _ _ Hi) as ->.
      assert (Ht1 : cn (vgetc v T) FTried1 <> 0) by (eapply t_tried12; eauto).
      assert (Hfb1 : cn (vgetc v T) FFb1 = 0).
      { destruct (N.eq_dec (cn (vgetc v T) FFb1) 0) as [Hz | Hz]; [exact Hz | exfalso].
        destruct (t_fb1 _ _ _ HTc Hz) as [(r2 & p2 & ks2 & a3 & m3 & f3 & secs3 & Hi2) | (r2 & ks2 & m3 & Hi2)].
        - pose proof (Hall _ _ _ _ _ _ _ _ Hi2). discriminate.
        - exact (Hno _ _ _ Hi2). }
      unfold cp_active, onepc_on. apply fb_true in Ht1. apply fb_false in Hfb1. rewrite Ht1, Hfb1. apply orb_true_r. }
  rewrite Hcpw in Hg. cbn [negb orb] in Hg. unfold err_ok in Hg.
  apply fb_true in Hh. rewrite Hh in Hg. cbn [negb orb] in Hg.
  apply existsb_exists in Hg. destruct Hg as (k & Hk & Heq). apply N.eqb_eq in Heq.
  exists k. split; [rewrite lock_keys_of_agrees, <- Hl; exact Hk|].
  rewrite (t_ksent _ _ _ HTc), (t_kneg _ _ _ HTc) in Heq. lia.
Qed.

(* for duplicate-free key lists, counting with multiplicity = counting the events that mention k *)
Lemma occ_counts pre v T k :
  HG pre v -> (forall r p' ks a o m f secs, In (EPwSend r T p' ks a o m f secs) pre -> NoDup ks) ->
  sum_of (pw_send_occ T k) pre = count_if (is_pw_send_k T k) pre /\
  sum_of (pw_negreply_occ T k) pre = count_if (is_pw_negreply_k T k) pre.
Proof.
  intros G Hnd. split; apply sum_of_count; intros e He; destruct e; try reflexivity.
  - cbn [pw_send_occ is_pw_send_k]. destruct (s =? T) eqn:Es; [|reflexivity].
    apply N.eqb_eq in Es. subst s. cbn [andb]. apply occ_nodup. eapply Hnd. exact He.
  - cbn [pw_negreply_occ is_pw_negreply_k]. destruct (s =? T) eqn:Es; [|reflexivity].
    apply N.eqb_eq in Es. subst s. cbn [andb].
    destruct (is_pwneg res); [| rewrite andb_false_r; reflexivity]. rewrite andb_true_r.
    apply occ_nodup.
    destruct (g_pwdlv _ _ G _ _ _ _ (g_pwrep _ _ G _ _ _ _ He)) as (p1 & a1 & o1 & m1 & f1 & secs1 & Hs).
    apply (g_sent _ _ G) in Hs. eapply Hnd. exact Hs.
Qed.

Theorem told_err_only_if_holds evs s0 : run evs = Some s0 -> told_err_only_if evs.
Proof.
  intros R pre post T p ms E Hm.
  destruct (at_event _ _ _ _ _ R E) as (v & v' & [G A] & St).
  cbn [vstep] in St. destruct St as [Hg _]. cbn [told_guard] in Hg.
  pose proof (A T) as HTc. destruct (t_muts _ _ _ HTc _ _ Hm) as (Hh & Hp & _).
  apply andb_true_iff in Hg. destruct Hg as [Hg _]. apply andb_true_iff in Hg. destruct Hg as [Hn _].
  unfold neg_ok in Hn. apply andb_true_iff in Hn. destruct Hn as [H0 Hn]. apply N.eqb_eq in H0.
  split; [| split].
  - intros r' c' ks' Hi. pose proof (t_pcok0 _ _ _ HTc Hh H0 _ _ _ Hi) as Hx. rewrite Hp in Hx. exact Hx.
  - apply orb_true_iff in Hn. destruct Hn as [Hn | Hn].
    + left. apply N.eqb_eq in Hn.
      pose proof (t_sent _ _ _ HTc) as Hs. pose proof (t_neg _ _ _ HTc Hh) as Hng.
      apply N.eqb_neq in Hh. rewrite Hh, Hp in Hs. rewrite Hp in Hng. lia.
    + right. apply fb_true in Hn. pose proof (t_rb _ _ _ HTc Hn) as Hx. rewrite Hp in Hx. exact Hx.
  - intros Hcp Hnd.
    destruct (told_err_only_if_occ_holds _ _ R _ _ _ _ _ E Hm Hcp) as (k & Hk & Heq).
    exists k. split; [exact Hk|].
    destruct (occ_counts pre v T k G Hnd) as [Q1 Q2]. rewrite <- Q1, <- Q2. exact Heq.
Qed.

Theorem csl_only_listed_holds evs s0 : run evs = Some s0 -> csl_only_listed evs.
Proof.
  intros R pre post r T ks E.
  destruct (at_event _ _ _ _ _ R E) as (v & v' & [G A] & St).
  cbn [vstep] in St. destruct St as [Hg _].
  apply async_cts_In in Hg. destruct Hg as (p & ttl & m & secs & Hi & Hs).
  exists p, ttl, m, secs. split; [exact (g_cts _ _ G _ Hi) | exact Hs].
Qed.

Theorem force_only_after_nonasync_holds evs s0 : run evs = Some s0 -> force_only_after_nonasync evs.
Proof.
  intros R pre post r T p caller cur rbine respess E.
  destruct (at_event _ _ _ _ _ R E) as (v & v' & [G A] & St).
  cbn [vstep] in St. destruct St as [_ [Hf _]]. destruct (Hf eq_refl) as (ks & l & k & I1 & I2).
  exists ks, l, k. split; [exact (g_csl _ _ G _ I1) | exact I2].
Qed.

Theorem accept_sound : forall evs s, run evs = Some s ->
  commit_after_all_prewrites evs /\ secondaries_after_primary evs /\
  no_rollback_after_possible_commit evs /\ resolve_uses_reported_status evs /\
  commit_ts_bounds evs /\ expire_only_expired evs /\ told_ok_after_commit evs /\
  undetermined_only_if evs /\ told_err_only_if evs /\ csl_only_listed evs /\ force_only_after_nonasync evs.
Proof.
  intros evs s R.
  split; [eapply commit_after_all_prewrites_holds; eauto|].
  split; [eapply secondaries_after_primary_holds; eauto|].
  split; [eapply no_rollback_after_possible_commit_holds; eauto|].
  split; [eapply resolve_uses_reported_status_holds; eauto|].
  split; [eapply commit_ts_bounds_holds; eauto|].
  split; [eapply expire_only_expired_holds; eauto|].
  split; [eapply told_ok_after_commit_holds; eauto|].
  split; [eapply undetermined_only_if_holds; eauto|].
  split; [eapply told_err_only_if_holds; eauto|].
  split; [eapply csl_only_listed_holds; eauto|].
  eapply force_only_after_nonasync_holds; eauto.
Qed.

(* if every commit-point request sent before [told] has its reply before [told], the answer is
   not "undetermined" *)
Theorem fault_free_never_undetermined : forall evs s0 pre post s p ms,
  run evs = Some s0 -> evs = pre ++ ETold s TUndet :: post -> In (EMutations s p ms) pre ->
  (forall r p' ks a o m f secs, In (EPwSend r s p' ks a o m f secs) pre -> a = false /\ o = false) ->
  count_if (is_pc_send s p) pre = count_if (is_pc_reply s p) pre ->
  False.
Proof.
  intros evs s0 pre post s p ms R E Hm Hno Hcnt.
  destruct (undetermined_only_if_holds _ _ R _ _ _ _ _ E Hm) as [Hlt | [(r & p' & ks & a & o & m & f & secs & Hi & Hao) _]].
  - lia.
  - destruct (Hno _ _ _ _ _ _ _ _ Hi) as [-> ->]. destruct Hao; discriminate.
Qed.

(* non-vacuity: a complete 2PC commit of transaction 1 on keys 7 (primary), 8 is accepted *)
Example accepted_2pc :
  exists s, run [ ETso 1; EBegin 9 1; ECommitCall 1 false; EMutations 1 7 [(7, OpPut); (8, OpPut)];
                  EPwSend 9 1 7 [7; 8] false false 0 0 []; EPwDeliver 9 1 [7; 8] (PwOk 0 0);
                  EPwReply 9 1 [7; 8] (PwOk 0 0); ETso 2;
                  ECmSend 9 1 2 [7]; ECmDeliver 9 1 2 [7] CmOk; ECmReply 9 1 2 [7] CmOk;
                  ETold 1 TOk; ECmSend 9 1 2 [8] ] = Some s.
Proof. eexists. vm_compute. reflexivity. Qed.

(* non-vacuity of the async-commit parts (5: commit ts = max min-commit ts, 10: csl_send only for listed
   secondaries, 4: async resolve route): transaction 1 on keys 7 (primary), 8, observed by resolver 4 *)
Example accepted_async :
  exists s, run [ ETso 1; EBegin 9 1; ECommitCall 1 false; EMutations 1 7 [(7, OpPut); (8, OpPut)];
                  EPwSend 9 1 7 [7] true false 0 0 [8]; EPwSend 9 1 7 [8] true false 0 0 [];
                  EPwDeliver 9 1 [7] (PwOk 5 0); EPwDeliver 9 1 [8] (PwOk 6 0);
                  EPwReply 9 1 [7] (PwOk 5 0); EPwReply 9 1 [8] (PwOk 6 0); ETold 1 TOk;
                  ECtsSend 4 1 7 0 0 false false false; ECtsDeliver 4 1 7 (StLocked 3 5 true [8]);
                  ECtsReply 4 1 7 (StLocked 3 5 true [8]);
                  ECslSend 4 1 [8]; ECslDeliver 4 1 [8] (CslLocks [(8, 6)]); ECslReply 4 1 [8] (CslLocks [(8, 6)]);
                  ERsSend 4 1 6 []; ECmSend 9 1 6 [7] ] = Some s.
Proof. eexists. vm_compute. reflexivity. Qed.
(* ... and of 9(c): an async prewrite answered with a region error, then a definite error *)
Example accepted_async_err :
  exists s, run [ EMutations 1 7 [(7, OpPut)]; EPwSend 9 1 7 [7] true false 0 0 [];
                  EPwDeliver 9 1 [7] PwRegion; EPwReply 9 1 [7] PwRegion; ETold 1 TErr ] = Some s.
Proof. eexists. vm_compute. reflexivity. Qed.

(* ---- first-draft statements that System.v does NOT imply, with accepted witnesses ---- *)
(* 9(c) without the duplicate-free premise: System counts once per OCCURRENCE of a key in a request *)
Definition told_err_draft (evs : list event) : Prop :=
  forall pre post s p ms, evs = pre ++ ETold s TErr :: post -> In (EMutations s p ms) pre ->
    (exists r p' ks a o m f secs, In (EPwSend r s p' ks a o m f secs) pre /\ (a = true \/ o = true)) ->
    exists k, In k (lock_keys_of ms) /\
      count_if (is_pw_send_k s k) pre = count_if (is_pw_negreply_k s k) pre.
Definition cex_told_err_pre : list event :=
  [ EMutations 1 7 [(7, OpPut)]; EPwSend 9 1 7 [7; 7] true false 0 0 []; EPwSend 9 1 7 [7] true false 0 0 [];
    EPwDeliver 9 1 [7] PwRegion; EPwDeliver 9 1 [7] PwRegion; EPwDeliver 9 1 [7] PwRegion;
    EPwReply 9 1 [7] PwRegion; EPwReply 9 1 [7] PwRegion; EPwReply 9 1 [7] PwRegion ].
Theorem told_err_draft_refuted :
  (exists s, run (cex_told_err_pre ++ [ETold 1 TErr]) = Some s) /\ ~ told_err_draft (cex_told_err_pre ++ [ETold 1 TErr]).
Proof.
  split; [eexists; vm_compute; reflexivity|].
  intros D.
  destruct (D cex_told_err_pre [] 1 7 [(7, OpPut)] eq_refl (or_introl eq_refl)) as (k & Hk & Heq).
  - exists 9, 7, [7], true, false, 0, 0, []. split; [right; right; left; reflexivity | left; reflexivity].
  - destruct Hk as [<- | []]. vm_compute in Heq. discriminate Heq.
Qed.

Definition resolve_draft (evs : list event) : Prop :=
  forall pre post r s c ks, evs = pre ++ ERsSend r s c ks :: post ->
    (c <> 0 /\ exists p, In (ECtsReply r s p (StCommitted c)) pre) \/
    (c = 0 /\ exists p, In (ECtsReply r s p StRolledBack) pre) \/
    (exists ks' st, In (ECslReply r s ks' st) pre).
Definition cex_resolve : list event :=
  [ EPwSend 9 1 7 [7] true false 0 0 []; EPwDeliver 9 1 [7] (PwOk 5 0);
    ECtsSend 9 1 7 0 0 false false false; ECtsDeliver 9 1 7 (StLocked 5 5 true []);
    ECtsReply 9 1 7 (StLocked 5 5 true []); ERsSend 9 1 5 [] ].
Theorem resolve_draft_refuted : (exists s, run cex_resolve = Some s) /\ ~ resolve_draft cex_resolve.
Proof.
  split; [eexists; vm_compute; reflexivity|].
  intros D.
  specialize (D [EPwSend 9 1 7 [7] true false 0 0 []; EPwDeliver 9 1 [7] (PwOk 5 0);
                 ECtsSend 9 1 7 0 0 false false false; ECtsDeliver 9 1 7 (StLocked 5 5 true []);
                 ECtsReply 9 1 7 (StLocked 5 5 true [])] [] 9 1 5 [] eq_refl).
  cbn [In] in D.
  destruct D as [(_ & p & D) | [(D & _) | (ks & st & D)]]; try discriminate;
    repeat (destruct D as [D | D]; try discriminate D); exact D.
Qed.

Definition ts_bound_draft (evs : list event) : Prop :=
  forall pre post r s c ks p ms, evs = pre ++ ECmSend r s c ks :: post ->
    In (EMutations s p ms) pre ->
    forall pre1 pre2, pre = pre1 ++ ECommitCall s false :: pre2 -> forall t, In (ETso t) pre1 -> t < c.
Definition cex_ts_bound : list event :=
  [ ETso 10; ECommitCall 1 false; ECommitCall 1 true; EMutations 1 7 [(7, OpPut)];
    EPwSend 9 1 7 [7] false false 0 0 []; EPwDeliver 9 1 [7] (PwOk 0 0); EPwReply 9 1 [7] (PwOk 0 0);
    ECmSend 9 1 5 [7] ].
Theorem ts_bound_draft_refuted : (exists s, run cex_ts_bound = Some s) /\ ~ ts_bound_draft cex_ts_bound.
Proof.
  split; [eexists; vm_compute; reflexivity|].
  intros D.
  specialize (D [ETso 10; ECommitCall 1 false; ECommitCall 1 true; EMutations 1 7 [(7, OpPut)];
                 EPwSend 9 1 7 [7] false false 0 0 []; EPwDeliver 9 1 [7] (PwOk 0 0);
                 EPwReply 9 1 [7] (PwOk 0 0)] [] 9 1 5 [7] 7 [(7, OpPut)] eq_refl).
  assert (Hi : In (EMutations 1 7 [(7, OpPut)])
                 [ETso 10; ECommitCall 1 false; ECommitCall 1 true; EMutations 1 7 [(7, OpPut)];
                  EPwSend 9 1 7 [7] false false 0 0 []; EPwDeliver 9 1 [7] (PwOk 0 0);
                  EPwReply 9 1 [7] (PwOk 0 0)]).
  { cbn [In]. auto. }
  specialize (D Hi [ETso 10]
                [ECommitCall 1 true; EMutations 1 7 [(7, OpPut)]; EPwSend 9 1 7 [7] false false 0 0 [];
                 EPwDeliver 9 1 [7] (PwOk 0 0); EPwReply 9 1 [7] (PwOk 0 0)] eq_refl 10 (or_introl eq_refl)).
  lia.
Qed.

Print Assumptions accept_sound.
Print Assumptions fault_free_never_undetermined.
