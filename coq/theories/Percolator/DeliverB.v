(* Percolator/DeliverB.v — rollback, check-txn-status, check-secondary-locks and resolve deliveries. *)
From Verif Require Export Percolator.DeliverA.

Lemma tr_rb_res : forall v v', tr_rb v = Some v' -> v' = RolledBack /\ (forall c, v <> Committed c).
Proof. intros v v' H. destruct v; cbn in H; inversion H; split; auto; discriminate. Qed.
Lemma tr_rs_res : forall c v v', tr_rs c v = Some v' -> v' = v \/ (exists m, v = Locked m /\ v' = alt_of c).
Proof. intros c v v' H. destruct v; cbn in H; inversion H; auto. right. eauto. Qed.
Lemma tr_csl_rb_res : forall v v', tr_csl_rb v = Some v' -> v' = v \/ (v = Unlocked /\ v' = RolledBack).
Proof. intros v v' H. destruct v; cbn in H; inversion H; auto. Qed.
Lemma tr_rb_fresh : tr_fresh tr_rb. Proof. intros v' E. inversion E. auto. Qed.
Lemma tr_rs_fresh : forall c, tr_fresh (tr_rs c). Proof. intros c v' E. inversion E. auto. Qed.
Lemma tr_csl_rb_fresh : tr_fresh tr_csl_rb. Proof. intros v' E. inversion E. auto. Qed.

(* a locked mutation other than ... that was never prewritten and is now marked rolled back *)
Lemma mark_NS : forall b s2 T e' k, dshape b s2 T e' -> ginv b T ->
  (forall r ks x, e' <> EPwReply r T ks x) ->
  In k (c_lm (getc b T)) -> kget b T k = Unlocked -> kget s2 T k = RolledBack -> Dd s2 T.
Proof.
  intros b s2 T e' k D G Hne Hk U R. right. right. exists k. unfold lm. rewrite (d_c _ _ _ _ D). repeat split; auto.
  intros [r [ks [m [o [H1 H2]]]]]. rewrite (d_dlv _ _ _ _ D) in H1. destruct H1 as [H1 | H1].
  - eapply Hne; eauto.
  - eapply (g_pw _ _ G); eauto.
Qed.

Lemma own_rb_deliver : forall s s' r T ks x, invT s T -> stepr s (ERbDeliver r T ks x) = Ok s' -> invT s' T.
Proof.
  intros s s' r T ks x HI H. cbn [stepr] in H. unfold step_rb_deliver in H. chks H.
  apply sent_by_In in C. destruct C as [e [Ce Cm]]. destruct e; try discriminate. b2p. beq. subst.
  set (e' := ERbReply r T ks x) in *.
  assert (exists s2, step_keys (add_dlv s e') T (match x with RbOk => ks | _ => [] end) tr_rb = Some s2 /\ s' = s2) as [s2 [E ->]].
  { destruct x; try (okinv H; eexists; split; reflexivity).
    destruct (step_keys _ _ _ _) as [s2 |] eqn:E; try discriminate. okinv H. eauto. }
  pose proof (step_keys_char _ _ _ _ _ _ tr_rb_ok tr_rb_idem tr_rb_total E) as Ch.
  assert (D : dshape s s2 T e') by (eapply dshape_keys; eauto using tr_rb_ok, tr_rb_fresh).
  apply (deliver_inv _ _ T e' D HI); unfold e'; vac; auto.
  intros Ib Hcb Hhb. repeat split; vac.
  - intros k c A B. exfalso. destruct (Ch k) as [[_ A'] | [_ A']]; [| congruence]. apply tr_rb_res in A'. destruct A'. congruence.
  - intros c A B. exfalso. destruct (Ch (cn (getc s T) FPrim)) as [[_ A'] | [_ A']]; [| congruence]. apply tr_rb_res in A'. destruct A'. congruence.
  - intros k Hk A B. destruct HI as [G _]. apply (dl_Dd _ _ _ _ D); vac. apply Dn_Dd; auto. eapply (t_rb_sent _ _ Ib); eauto.
Qed.

Lemma own_rs_deliver : forall s s' r T C ks x, invT s T -> stepr s (ERsDeliver r T C ks x) = Ok s' -> invT s' T.
Proof.
  intros s s' r T C ks x HI H. cbn [stepr] in H. unfold step_rs_deliver in H. chks H.
  apply sent_by_In in C0. destruct C0 as [e [Ce Cm]]. destruct e; try discriminate. b2p. beq. subst.
  destruct HI as [G I]. destruct (g_rs_sent _ _ G _ _ _ Ce) as [j Hj].
  set (e' := ERsReply r T C ks x) in *.
  destruct (match x with GOk => match ks with [] => true | _ => false end | _ => false end) eqn:WR.
  - (* whole-region resolve: recorded, applied lazily *)
    destruct x; try discriminate. destruct ks; try discriminate. okinv H.
    split; [constructor; prep; useG G; try (eapply pwdlv_incl; [| eauto]; rd; apply incl_tl, incl_refl) |].
    intros Hh' Hc'. assert (Hm : hasm s T) by (unf2; rd; auto). assert (Hc : classic s T) by (classic_back Hc').
    specialize (I Hm Hc). constructor; prep; useGI G I.
    all: t_some_rb s; t_Dn s; t_Dd s.
    destruct H2 as [r1 [ks1 [m1 [o1 [A1 A2]]]]]. rd. insplit. exists r1, ks1, m1, o1. auto.
  - assert (exists s2, step_keys (add_dlv s e') T (match x with GOk => ks | _ => [] end) (tr_rs C) = Some s2 /\ s' = s2) as [s2 [E ->]].
    { destruct x; try (okinv H; eexists; split; reflexivity). destruct ks; try discriminate.
      destruct (step_keys _ _ _ _) as [s2 |] eqn:E; try discriminate. okinv H. eauto. }
    pose proof (step_keys_char _ _ _ _ _ _ (tr_rs_ok C) (tr_rs_idem C) (tr_rs_total C) E) as Ch.
    assert (D : dshape s s2 T e') by (eapply dshape_keys; eauto using tr_rs_ok, tr_rs_fresh).
    apply (deliver_inv _ _ T e' D (conj G I)); unfold e'; vac; auto.
    intros Ib Hcb Hhb.
    assert (HP : kget s T (cn (getc s T) FPrim) = alt_of C).
    { destruct j as [p |]; [| exfalso; destruct Hcb as [_ [_ B]]; eapply B; eauto].
      pose proof (t_rs_p _ _ Ib _ _ Hj) as ->. apply (g_rs _ _ G). auto. }
    assert (CH : forall k, kget s2 T k <> kget s T k -> kget s2 T k = alt_of C).
    { intros k Hk. destruct (Ch k) as [[_ A'] | [_ A']]; [| congruence]. apply tr_rs_res in A'.
      destruct A' as [A' | [m [A1 A2]]]; congruence. }
    repeat split; vac.
    + intros k c A B. assert (E1 : kget s2 T k = alt_of C) by (apply CH; congruence). rewrite A in E1. rewrite E1.
      eapply km_alt; [apply (d_k _ _ _ _ D) | exact HP].
    + intros c A B. exfalso. apply B. assert (E1 : kget s2 T (cn (getc s T) FPrim) = alt_of C) by (apply CH; congruence). congruence.
    + intros k Hk A B. left. unfold prim, F. rewrite (d_c _ _ _ _ D).
      assert (E1 : kget s2 T k = alt_of C) by (apply CH; congruence). rewrite A in E1.
      eapply km_rolledback; [apply (d_k _ _ _ _ D) |]. congruence.
Qed.

Lemma step_key_char : forall b e' T p tr s2, step_key (add_dlv b e') T p tr = Some s2 ->
  exists v, (forall k, kget s2 T k = if p =? k then v else kget b T k) /\
    (tr (kget b T p) = Some v \/
     (tr (kget b T p) = None /\ exists m c, kget b T p = Locked m /\ In (T, c) (s_wr b) /\ tr (alt_of c) = Some v)).
Proof.
  intros b e' T p tr s2 H. apply step_key_spec in H. destruct H as [v [H1 H2]]. exists v. split; [| exact H2].
  intros k. subst s2. rewrite kget_kset, N.eqb_refl. cbn [andb]. destruct (p =? k); reflexivity.
Qed.

Lemma tr_cts_committed_res : forall c v v', tr_cts_committed c v = Some v' -> v' = Committed c /\ v = Committed c.
Proof.
  intros c v v' H. destruct v; cbn in H; try discriminate. destruct (c0 =? c) eqn:E; inversion H.
  apply N.eqb_eq in E. subst. auto.
Qed.
Lemma tr_cts_locked_res : forall m v v', tr_cts_locked m v = Some v' -> v' = v \/ (exists a b, v = Locked a /\ v' = Locked b).
Proof. intros m v v' H. destruct v; cbn in H; inversion H; auto. Qed.
Lemma tr_cts_committed_fresh : forall c, tr_fresh (tr_cts_committed c). Proof. intros c v' E. discriminate. Qed.
Lemma tr_cts_locked_fresh : forall m, tr_fresh (tr_cts_locked m). Proof. intros c v' E. inversion E. auto. Qed.

Lemma cts_rb_core : forall s s2 r T p, invT s T ->
  negb (fb (getc s T) FHasm && negb (p =? cn (getc s T) FPrim) && match kget s T p with Locked _ => true | _ => false end) = true ->
  step_key (add_dlv s (ECtsReply r T p StRolledBack)) T p tr_rb = Some s2 -> invT s2 T.
Proof.
  intros s s2 r T p HI C E. set (e' := ECtsReply r T p StRolledBack) in *. pose proof HI as [G I].
  assert (NE : forall r0 ks0 x0, e' <> EPwReply r0 T ks0 x0) by (intros; discriminate).
    assert (D : dshape s s2 T e') by (eapply dshape_key; eauto using tr_rb_ok, tr_rb_fresh).
    apply step_key_char in E. destruct E as [v [K [E | [E [m0 [c0 [E1 _]]]]]]]; [| rewrite E1 in E; discriminate].
    apply tr_rb_res in E. destruct E as [-> NC].
    apply (deliver_inv _ _ T e' D HI); unfold e'; vac; auto.
    + intros r0 p0 E0. inversion E0. subst. rewrite K, N.eqb_refl. auto.
    + intros Ib Hcb Hhb. repeat split; vac.
      * intros k c A B. exfalso. rewrite K in A. destruct (p =? k); congruence.
      * intros c A B. exfalso. rewrite K in A. destruct (p =? cn (getc s T) FPrim); congruence.
      * intros k Hk A B. rewrite K in A. destruct (N.eqb_spec p k) as [-> | Hne]; [| congruence].
        destruct (N.eq_dec k (cn (getc s T) FPrim)) as [-> | HnP].
        -- left. unfold prim, F. rewrite (d_c _ _ _ _ D). rewrite K, N.eqb_refl. auto.
        -- apply (mark_NS s s2 T e' k D G NE Hk); [| rewrite K, N.eqb_refl; auto].
           destruct (kget s T k) eqn:Ek; auto; try congruence; exfalso.
           all: try (eapply NC; eauto; fail).
           all: unfold hasm, F in Hhb; apply fb_true in Hhb; rewrite Hhb in C; apply N.eqb_neq in HnP; rewrite HnP in C; discriminate.
Qed.

Lemma own_cts_deliver : forall s s' r T p st, invT s T -> stepr s (ECtsDeliver r T p st) = Ok s' -> invT s' T.
Proof.
  intros s s' r T p st HI H. cbn [stepr] in H. unfold step_cts_deliver in H. chks H. clear C.
  set (e' := ECtsReply r T p st) in *. pose proof HI as [G I].
  assert (NE : forall r0 ks0 x0, e' <> EPwReply r0 T ks0 x0) by (intros; discriminate).
  destruct st as [ttl m a secs | C | | | | |].
  - (* locked *)
    chks H. rename C into CA.
    destruct (step_key _ _ _ _) as [s2 |] eqn:E; try discriminate. injection H as H'; subst s'.
    assert (D : dshape s s2 T e') by (eapply dshape_key; eauto using tr_cts_locked_ok, tr_cts_locked_fresh).
    apply step_key_char in E. destruct E as [v [K [E | [E [m0 [c0 [E1 _]]]]]]]; [| rewrite E1 in E; discriminate].
    apply tr_cts_locked_res in E.
    assert (CH : forall k, kget s2 T k = kget s T k \/ exists a b, kget s T k = Locked a /\ kget s2 T k = Locked b).
    { intros k. rewrite K. destruct (N.eqb_spec p k); auto. subst. auto. }
    apply (deliver_inv _ _ T e' D HI); unfold e'; vac; auto.
    { intros r0 p0 ttl0 m0 secs0 E0. inversion E0. subst. cbn [negb orb] in CA. apply fb_true in CA. auto. }
    intros Ib Hcb Hhb. repeat split; vac.
    + intros k c A B. exfalso. destruct (CH k) as [A' | [a0 [b0 [A1 A2]]]]; congruence.
    + intros c A B. exfalso. destruct (CH (cn (getc s T) FPrim)) as [A' | [a0 [b0 [A1 A2]]]]; congruence.
    + intros k Hk A B. exfalso. destruct (CH k) as [A' | [a0 [b0 [A1 A2]]]]; congruence.
  - (* committed *)
    destruct (step_key _ _ _ _) as [s2 |] eqn:E; try discriminate. injection H as H'; subst s'.
    assert (D : dshape s s2 T e') by (eapply dshape_key; eauto using tr_cts_committed_ok, tr_cts_committed_fresh).
    apply step_key_char in E. destruct E as [v [K E]].
    assert (V : v = Committed C).
    { destruct E as [E | [_ [m0 [c0 [_ [_ E]]]]]]; apply tr_cts_committed_res in E; tauto. }
    subst v.
    assert (CH : forall k, kget s2 T k <> kget s T k -> k = p /\ exists m0, kget s T p = Locked m0 /\ In (T, C) (s_wr s)).
    { intros k Hk. rewrite K in Hk. destruct (N.eqb_spec p k); [| congruence]. subst k. split; auto.
      destruct E as [E | [_ [m0 [c0 [E1 [E2 E3]]]]]].
      - apply tr_cts_committed_res in E. destruct E as [_ E]. congruence.
      - exists m0. split; auto. apply tr_cts_committed_res in E3. destruct E3 as [_ E3].
        unfold alt_of in E3. destruct (c0 =? 0); inversion E3. subst. auto. }
    apply (deliver_inv _ _ T e' D HI); unfold e'; vac; auto.
    + intros r0 p0 c0 E0. inversion E0. subst. rewrite K, N.eqb_refl. auto.
    + intros Ib Hcb Hhb.
      assert (WP : In (T, C) (s_wr s) -> C <> 0 -> kget s T (cn (getc s T) FPrim) = Committed C).
      { intros W HC0. apply (g_wr _ _ G) in W. destruct W as [j W].
        destruct j as [p' |]; [| exfalso; destruct Hcb as [_ [_ B]]; eapply B; eauto].
        pose proof (t_rs_p _ _ Ib _ _ W) as ->. apply (g_rs _ _ G) in W. unfold alt_of in W.
        apply N.eqb_neq in HC0. rewrite HC0 in W. auto. }
      assert (C0' : forall m0, kget s T p = Locked m0 -> In (T, C) (s_wr s) -> C <> 0).
      { intros m0 L W HC0. subst C. destruct E as [E | [_ [m1 [c1 [_ [W1 E3]]]]]].
        - apply tr_cts_committed_res in E. destruct E as [_ E]. congruence.
        - apply tr_cts_committed_res in E3. destruct E3 as [_ E3]. unfold alt_of in E3. destruct (c1 =? 0) eqn:Z; inversion E3.
          apply N.eqb_neq in Z. congruence. }
      repeat split; vac.
      * intros k c A B. destruct (CH k) as [-> [m0 [L W]]]; [congruence |].
        rewrite K, N.eqb_refl in A. inversion A. subst c. eapply km_committed; [apply (d_k _ _ _ _ D) |]. eauto.
      * intros c A B. exfalso. destruct (CH (cn (getc s T) FPrim)) as [Ep [m0 [L W]]]; [congruence |].
        pose proof (WP W (C0' m0 L W)) as X. rewrite Ep in X. congruence.
      * intros k Hk A B. exfalso. destruct (CH k) as [-> _]; [congruence |]. rewrite K, N.eqb_refl in A. discriminate.
  - (* rolled back *)
    chks H.
    match type of H with context [if ?bb then _ else _] => destruct bb end.
    + destruct (step_key _ _ _ _) as [s2 |] eqn:E; try discriminate. injection H as H'; subst s'.
      change (setc (add_dlv s e') T (setn (getc s T) FStFb 1)) with (add_dlv (setc s T (setn (getc s T) FStFb 1)) e') in E.
      eapply (cts_rb_core (setc s T (setn (getc s T) FStFb 1))); [| | exact E].
      * apply invT_acct; auto. intros f0 Hf0; destruct f0; try discriminate Hf0; reflexivity.
      * rewrite getc_setc_eq. exact C.
    + destruct (step_key _ _ _ _) as [s2 |] eqn:E; try discriminate. injection H as H'; subst s'.
      eapply (cts_rb_core s); eauto.
  - okinv H. apply (deliver_inv _ _ T e' (dshape_nokeys s e' T) HI); unfold e'; vac; auto.
    intros Ib Hcb Hhb. repeat split; vac; intros; exfalso; rd; congruence.
  - okinv H. apply (deliver_inv _ _ T e' (dshape_nokeys s e' T) HI); unfold e'; vac; auto.
    intros Ib Hcb Hhb. repeat split; vac; intros; exfalso; rd; congruence.
  - okinv H. apply (deliver_inv _ _ T e' (dshape_nokeys s e' T) HI); unfold e'; vac; auto.
    intros Ib Hcb Hhb. repeat split; vac; intros; exfalso; rd; congruence.
  - okinv H. apply (deliver_inv _ _ T e' (dshape_nokeys s e' T) HI); unfold e'; vac; auto.
    intros Ib Hcb Hhb. repeat split; vac; intros; exfalso; rd; congruence.
Qed.

Lemma tr_csl_lock_res : forall m v v', tr_csl_lock m v = Some v' -> exists a b, v = Locked a /\ v' = Locked b.
Proof. intros m v v' H. destruct v; cbn in H; inversion H. eauto. Qed.

Lemma step_csl_locks_char : forall l x T s2, step_csl_locks x T l = Some s2 ->
  same_but_kst x s2 /\
  forall T' k, kget s2 T' k = kget x T' k \/ exists a b, kget x T' k = Locked a /\ kget s2 T' k = Locked b.
Proof.
  induction l as [| [k m] l IH]; intros x T s2 H; cbn [step_csl_locks] in H.
  - inversion H. subst. split; [apply same_but_kst_refl | auto].
  - destruct (step_key x T k (tr_csl_lock m)) as [x1 |] eqn:E; try discriminate.
    apply IH in H. destruct H as [S1 C1].
    assert (Tot : tr_total_locked (tr_csl_lock m)) by (intros m0; discriminate).
    destruct (step_key_total _ _ _ _ _ Tot E) as [v [-> Ev]]. apply tr_csl_lock_res in Ev. destruct Ev as [a [b' [Ea ->]]].
    split; [eapply same_but_kst_trans; [apply same_but_kst_kset | eauto] |].
    intros T' k'. destruct (C1 T' k') as [C | [a1 [b1 [C2 C3]]]].
    + rewrite C. rewrite kget_kset. destruct ((T =? T') && (k =? k')) eqn:B; auto. beq. subst. right. eauto.
    + rewrite kget_kset in C2. destruct ((T =? T') && (k =? k')) eqn:B.
      * beq. subst. right. eauto.
      * right. eauto.
Qed.

Lemma own_csl_deliver : forall s s' r T ks st, invT s T -> stepr s (ECslDeliver r T ks st) = Ok s' -> invT s' T.
Proof.
  intros s s' r T ks st HI H. cbn [stepr] in H. unfold step_csl_deliver in H. chks H. clear C.
  set (e' := ECslReply r T ks st) in *. pose proof HI as [G I].
  assert (NE : forall r0 ks0 x0, e' <> EPwReply r0 T ks0 x0) by (intros; discriminate).
  destruct st as [l | C |].
  - chks H. destruct (step_csl_locks _ _ _) as [s2 |] eqn:E; try discriminate. injection H as H'; subst s'.
    apply step_csl_locks_char in E. destruct E as [S CH].
    assert (CH' : forall k, kget s2 T k = kget s T k \/ exists a b, kget s T k = Locked a /\ kget s2 T k = Locked b) by (intros k; apply (CH T k)).
    assert (D : dshape s s2 T e').
    { constructor; try (rewrite S; reflexivity).
      - intros T' k. destruct (CH T' k) as [A | [a [b [A1 A2]]]]; [left; auto |]. right. split; [right; eauto | congruence].
      - left. intros k [A | A]; destruct (CH' k) as [A' | [a [b [A1 A2]]]]; try congruence; [left | right]; congruence. }
    apply (deliver_inv _ _ T e' D HI); unfold e'; vac; auto.
    intros Ib Hcb Hhb. repeat split; vac.
    + intros k c A B. exfalso. destruct (CH' k) as [A' | [a0 [b0 [A1 A2]]]]; congruence.
    + intros c A B. exfalso. destruct (CH' (cn (getc s T) FPrim)) as [A' | [a0 [b0 [A1 A2]]]]; congruence.
    + intros k Hk A B. exfalso. destruct (CH' k) as [A' | [a0 [b0 [A1 A2]]]]; congruence.
  - destruct (N.eq_dec C 0) as [-> | HC].
    + cbn [N.eqb] in H. chks H. destruct (step_keys _ _ _ _) as [s2 |] eqn:E; try discriminate. injection H as H'; subst s'.
      pose proof (step_keys_char _ _ _ _ _ _ tr_csl_rb_ok tr_csl_rb_idem tr_csl_rb_total E) as Ch.
      assert (D : dshape s s2 T e') by (eapply dshape_keys; eauto using tr_csl_rb_ok, tr_csl_rb_fresh).
      assert (CH : forall k, kget s2 T k = kget s T k \/ (kget s T k = Unlocked /\ kget s2 T k = RolledBack)).
      { intros k. destruct (Ch k) as [[_ A] | [_ A]]; auto. apply tr_csl_rb_res in A. destruct A as [A | [A1 A2]]; auto. }
      apply (deliver_inv _ _ T e' D HI); unfold e'; vac; auto.
      intros Ib Hcb Hhb. repeat split; vac.
      * intros k c A B. exfalso. destruct (CH k) as [A' | [A1 A2]]; congruence.
      * intros c A B. exfalso. destruct (CH (cn (getc s T) FPrim)) as [A' | [A1 A2]]; congruence.
      * intros k Hk A B. destruct (CH k) as [A' | [A1 A2]]; [congruence |]. eapply mark_NS; eauto.
    + apply N.eqb_neq in HC. rewrite HC in H. chks H. okinv H.
      apply (deliver_inv _ _ T e' (dshape_nokeys s e' T) HI); unfold e'; vac; auto.
      intros Ib Hcb Hhb. repeat split; vac; intros; exfalso; rd; congruence.
  - okinv H. apply (deliver_inv _ _ T e' (dshape_nokeys s e' T) HI); unfold e'; vac; auto.
    intros Ib Hcb Hhb. repeat split; vac; intros; exfalso; rd; congruence.
Qed.
