(* Percolator/OnePC.v — invariants of a one-phase-commit transaction that has not fallen back:
   the store applies the whole request in one step, so all keys are committed together. *)
From Verif Require Export Percolator.Layer2e.

Definition onepcm (s : sys) (T : N) : Prop :=
  hasm s T /\ F s T FTried1 <> 0 /\ F s T FFb1 = 0 /\ F s T FStFb = 0.
Definition call (s : sys) (T : N) : list N := c_all (getc s T).
Lemma onepcm_cp : forall s T, onepcm s T -> cp_active (getc s T) = true.
Proof.
  intros s T [_ [H1 [H2 _]]]. unfold cp_active, onepc_on, F in *. apply fb_true in H1. rewrite H1.
  rewrite (proj2 (fb_false _ _) H2). apply orb_true_r.
Qed.

Record oinv (s : sys) (T : N) : Prop := {
  o_send : forall r p ks a o m f secs, In (EPwSend r T p ks a o m f secs) (s_sent s) ->
           o = true /\ forall k, In k (call s T) -> In k ks;
  o_entry : forall r ks m o, In (EPwReply r T ks (PwOk m o)) (s_dlv s) ->
            o <> 0 /\ forall k, In k (call s T) -> kget s T k = Committed o;
  o_nolock : forall k m, kget s T k <> Locked m;
  o_commit : forall k c, kget s T k = Committed c -> exists r ks m, In (EPwReply r T ks (PwOk m c)) (s_dlv s);
  o_cnt : forall k, kc s T KDlv k <= kc s T KSent k /\ kc s T KNeg k <= kc s T KNegD k;
  o_dead : (F s T FTold = 3 \/ exists r ks, In (ERbSend r T ks) (s_sent s)) ->
           exists k0, In k0 (lm s T) /\ kc s T KSent k0 = kc s T KNegD k0;
  o_1pcts : F s T F1pcTs <> 0 -> exists r ks m, In (EPwReply r T ks (PwOk m (F s T F1pcTs))) (s_dlv s);
  o_told : F s T FTold = 1 -> exists c, kget s T (prim s T) = Committed c
}.

(* consequences *)
Section Cons.
  Variables (s : sys) (T : N).
  Hypothesis G : ginv s T.
  Hypothesis L : linv s T.
  Hypothesis Hm : hasm s T.
  Hypothesis O : oinv s T.
  Lemma o_prim_all : In (prim s T) (call s T).
  Proof. apply (l_lm_all _ _ L). apply (l_prim _ _ L). auto. Qed.
  Lemma o_all_committed : forall k c, kget s T k = Committed c -> forall k', In k' (call s T) -> kget s T k' = Committed c.
  Proof. intros k c H k' Hk. destruct (o_commit _ _ O _ _ H) as [r [ks [m E]]]. apply (o_entry _ _ O) in E. apply E. auto. Qed.
  Lemma o_one_ts : forall k1 k2 c1 c2, kget s T k1 = Committed c1 -> kget s T k2 = Committed c2 -> c1 = c2.
  Proof.
    intros k1 k2 c1 c2 H1 H2. pose proof (o_all_committed _ _ H1 _ o_prim_all) as A. pose proof (o_all_committed _ _ H2 _ o_prim_all) as B.
    congruence.
  Qed.
  Lemma o_all_or_nothing : forall k1 k2 c, kget s T k1 = Committed c -> In k2 (lm s T) -> kget s T k2 <> RolledBack.
  Proof. intros k1 k2 c H Hk E. rewrite (o_all_committed _ _ H k2) in E; [discriminate |]. apply (l_lm_all _ _ L). auto. Qed.
  (* a closed key: no entry can exist, hence nothing is committed *)
  Lemma o_closed_no_commit : forall k0, In k0 (lm s T) -> kc s T KSent k0 = kc s T KNegD k0 -> forall k c, kget s T k <> Committed c.
  Proof.
    intros k0 Hk0 Hc k c E. destruct (o_commit _ _ O _ _ E) as [r [ks [m En]]].
    destruct (g_pw_sent _ _ G _ _ _ En) as [p [a [o [m0 [f [secs Hs]]]]]].
    destruct (o_send _ _ O _ _ _ _ _ _ _ _ Hs) as [_ Hall]. assert (Hin : In k0 ks) by (apply Hall; apply (l_lm_all _ _ L); auto).
    pose proof (l_okcnt _ _ L _ _ _ _ _ En Hin) as Lt. destruct (o_cnt _ _ O k0) as [A _]. lia.
  Qed.
End Cons.

Lemma onepcm_back : forall s s' T, same_acct (getc s T) (getc s' T) -> onepcm s' T -> onepcm s T.
Proof.
  intros s s' T [_ _ _ _ _ A] [H1 [H2 [H3 H4]]]. unfold onepcm, hasm, F in *.
  rewrite (A FHasm), (A FTried1), (A FFb1), (A FStFb) in * by reflexivity. auto.
Qed.

(* a step that does not touch the prewrite bookkeeping of T and moves T's keys by kevo *)
Lemma oinv_stable : forall s s' T,
  (forall k, kevo (kget s T k) (kget s' T k)) -> same_acct (getc s T) (getc s' T) ->
  (forall r p ks a o m f secs, In (EPwSend r T p ks a o m f secs) (s_sent s') -> In (EPwSend r T p ks a o m f secs) (s_sent s)) ->
  (forall r ks, In (ERbSend r T ks) (s_sent s') -> In (ERbSend r T ks) (s_sent s)) ->
  (forall r ks x, In (EPwReply r T ks x) (s_dlv s') -> In (EPwReply r T ks x) (s_dlv s)) ->
  (forall r ks x, In (EPwReply r T ks x) (s_dlv s) -> In (EPwReply r T ks x) (s_dlv s')) ->
  oinv s T -> oinv s' T.
Proof.
  intros s s' T K [A1 A2 A3 A4 A5 A6] Hs Hrb Hd Hd' O.
  assert (KM : forall k c, kget s T k = Committed c -> kget s' T k = Committed c).
  { intros k c E. specialize (K k). rewrite E in K. destruct K as [K | [[m [K _]] | [[m [K _]] | [K _]]]]; auto; discriminate. }
  assert (EF : forall f, modef f = true -> F s' T f = F s T f) by (intros; unfold F; auto).
  constructor; unfold call, kc, lm, prim, kcnt in *; intros; rewrite ?A1, ?A3, ?A4 in *; repeat rewrite EF in * by reflexivity.
  - apply Hs in H. apply (o_send _ _ O) in H. auto.
  - apply Hd in H. destruct (o_entry _ _ O _ _ _ _ H) as [B1 B2]. split; auto.
  - intros E. specialize (K k). rewrite E in K. apply kevo_locked in K. eapply (o_nolock _ _ O); eauto.
  - specialize (K k). rewrite H in K. apply kevo_committed in K. destruct K as [K | [m K]]; [| exfalso; eapply (o_nolock _ _ O); eauto].
    destruct (o_commit _ _ O _ _ K) as [r [ks [m E]]]. exists r, ks, m. auto.
  - apply (o_cnt _ _ O).
  - apply (o_dead _ _ O). destruct H as [H | [r [ks H]]]; [left; auto | right; exists r, ks; auto].
  - destruct (o_1pcts _ _ O H) as [r [ks [m E]]]. exists r, ks, m. auto.
  - destruct (o_told _ _ O H) as [c E]. exists c. auto.
Qed.

Lemma oinv_quiet : forall s e s' T, quiet e = true -> stepr s e = Ok s' -> oinv s T -> oinv s' T.
Proof.
  intros s e s' T Hq H O.
  assert (Hn : npw e = true) by (destruct e; try reflexivity; discriminate Hq).
  pose proof (stepr_kevos _ _ _ Hn H) as K. pose proof (stepr_lists _ _ _ H) as [Ls [Ld _]].
  apply (oinv_stable s s' T); [| | | | | | exact O].
  - intros k. apply K.
  - eapply stepr_quiet; eauto.
  - intros. destruct Ls as [Ls | Ls]; rewrite Ls in H0; auto. destruct H0 as [H0 | H0]; auto. subst e. discriminate Hq.
  - intros. destruct Ls as [Ls | Ls]; rewrite Ls in H0; auto. destruct H0 as [H0 | H0]; auto. subst e. discriminate Hq.
  - intros. destruct Ld as [Ld | [e' [R1 Ld]]]; rewrite Ld in H0; auto. destruct H0 as [H0 | H0]; auto. subst e'.
    destruct e; cbn [reply_of] in R1; try discriminate R1; discriminate Hq.
  - intros. destruct Ld as [Ld | [e' [R1 Ld]]]; rewrite Ld; auto. right. auto.
Qed.

Lemma oinv_other : forall s e s' T, stepr s e = Ok s' -> txn_of e <> Some T -> oinv s T -> oinv s' T.
Proof.
  intros s e s' T H Hne O. pose proof (step_agree _ _ _ T H Hne) as A. pose proof (stepr_getc_other _ _ _ T H Hne) as Gc.
  apply (oinv_stable s s' T); [| | | | | | exact O].
  - intros k. rewrite (a_k _ _ _ A). apply kevo_refl.
  - rewrite Gc. apply same_acct_refl.
  - intros. apply (ag_sent _ _ _ A) in H0; auto.
  - intros. apply (ag_sent _ _ _ A) in H0; auto.
  - intros. apply (ag_dlv _ _ _ A) in H0; auto.
  - intros. apply (ag_dlv' _ _ _ A); auto.
Qed.
