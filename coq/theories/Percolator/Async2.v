(* Percolator/Async2.v — ainv is preserved by steps that leave the prewrite bookkeeping alone and move
   the keys only in justified ways (ainv_stable); instantiation for the quiet events. *)
From Verif Require Export Percolator.Async.

Definition jstep (s s' : sys) (T k : N) : Prop :=
  kget s' T k = kget s T k \/
  (kget s T k = Unlocked /\ kget s' T k = RolledBack) \/
  (exists m c, kget s T k = Locked m /\ kget s' T k = Committed c /\ Sealed s T /\ c = cstar s T) \/
  (exists m, kget s T k = Locked m /\ kget s' T k = RolledBack /\ NSa s T).

Lemma fold_max_ext : forall (f g : N -> N) l, (forall k, f k = g k) ->
  fold_right (fun k acc => N.max (f k) acc) 0 l = fold_right (fun k acc => N.max (g k) acc) 0 l.
Proof. induction l as [| a l IH]; intros H; cbn [fold_right]; auto. rewrite H, IH; auto. Qed.

Section Transfer.
  Variables (s s' : sys) (T : N).
  Hypothesis L : linv s T.
  Hypothesis K : forall k, jstep s s' T k.
  Hypothesis SA : same_acct (getc s T) (getc s' T).
  Lemma tr_lamk : forall k, lamk s' T k = lamk s T k.
  Proof. intros k. unfold lamk, lam. rewrite (sa_lam _ _ SA). auto. Qed.
  Lemma tr_lm : lm s' T = lm s T. Proof. unfold lm. apply (sa_lm _ _ SA). Qed.
  Lemma tr_F : forall f, modef f = true -> F s' T f = F s T f. Proof. intros. unfold F. apply (sa_f _ _ SA). auto. Qed.
  Lemma tr_kc : forall t k, kc s' T t k = kc s T t k. Proof. intros. unfold kc, kcnt. rewrite (sa_kl _ _ SA). auto. Qed.
  Lemma tr_Sealed : Sealed s' T <-> Sealed s T.
  Proof. unfold Sealed. rewrite tr_lm. split; intros H k Hk; specialize (H k Hk); rewrite tr_lamk in *; auto. Qed.
  Lemma tr_cstar : cstar s' T = cstar s T.
  Proof. unfold cstar. rewrite tr_lm. apply fold_max_ext. intros k. unfold lam0. rewrite tr_lamk. auto. Qed.
  Lemma tr_committed : forall k c, kget s T k = Committed c -> kget s' T k = Committed c.
  Proof.
    intros k c E. destruct (K k) as [H | [[H _] | [[m [c' [H _]]] | [m [H _]]]]]; try congruence.
  Qed.
  Lemma tr_rolledback : forall k, kget s T k = RolledBack -> kget s' T k = RolledBack.
  Proof.
    intros k E. destruct (K k) as [H | [[H _] | [[m [c' [H _]]] | [m [H _]]]]]; try congruence.
  Qed.
  Lemma tr_NSa : NSa s T -> NSa s' T.
  Proof.
    intros [k0 [K1 [K2 K3]]]. exists k0. rewrite tr_lm, tr_lamk. repeat split; auto.
    destruct K3 as [K3 | [K3 [K4 K5]]]; [left; apply tr_rolledback; auto |].
    destruct (K k0) as [H | [[_ H] | [[m [c' [H _]]] | [m [H _]]]]]; try congruence; [| left; auto].
    right. rewrite H. repeat split; auto.
    - rewrite !tr_F by reflexivity. auto.
    - rewrite !tr_kc. auto.
  Qed.
  Lemma tr_lam_or : forall k m, lamk s T k = Some m \/ kget s T k = Committed m -> lamk s' T k = Some m \/ kget s' T k = Committed m.
  Proof. intros k m [H | H]; [left; rewrite tr_lamk; auto | right; apply tr_committed; auto]. Qed.
End Transfer.

Lemma ainv_stable : forall s s' T, linv s T -> (forall k, jstep s s' T k) -> same_acct (getc s T) (getc s' T) ->
  (forall r p ks a o m f secs, In (EPwSend r T p ks a o m f secs) (s_sent s') -> In (EPwSend r T p ks a o m f secs) (s_sent s)) ->
  (forall r ks, In (ERbSend r T ks) (s_sent s') -> In (ERbSend r T ks) (s_sent s)) ->
  (forall r ks x, In (EPwReply r T ks x) (s_dlv s') -> In (EPwReply r T ks x) (s_dlv s)) ->
  (forall r C ks, In (ECmSend r T C ks) (s_sent s') -> In (ECmSend r T C ks) (s_sent s) \/ (Sealed s' T /\ C = cstar s' T)) ->
  (forall C p, In (T, C, JKey p) (s_rs s') -> In (T, C, JKey p) (s_rs s) \/ p = prim s' T) ->
  (forall C, In (T, C, JAsync) (s_rs s') -> In (T, C, JAsync) (s_rs s) \/
             ((C <> 0 -> Sealed s' T /\ C = cstar s' T) /\ (C = 0 -> NSa s' T))) ->
  (forall r p ttl m secs, In (ECtsReply r T p (StLocked ttl m true secs)) (s_dlv s') ->
     In (ECtsReply r T p (StLocked ttl m true secs)) (s_dlv s) \/
     (p = prim s' T /\ lamk s' T p = Some m /\ forall k, In k secs <-> (In k (lm s' T) /\ k <> p))) ->
  (forall r ks l, In (ECslReply r T ks (CslLocks l)) (s_dlv s') -> In (ECslReply r T ks (CslLocks l)) (s_dlv s) \/
     ((forall k M, In (k, M) l -> lamk s' T k = Some M) /\ (forall k, In k ks -> exists M, In (k, M) l))) ->
  (forall r ks C, In (ECslReply r T ks (CslCommit C)) (s_dlv s') -> In (ECslReply r T ks (CslCommit C)) (s_dlv s) \/
     ((C <> 0 -> Sealed s' T /\ C = cstar s' T) /\ (C = 0 -> NSa s' T))) ->
  (forall r ks, In (ECslSend r T ks) (s_sent s') -> In (ECslSend r T ks) (s_sent s) \/ forall k, In k ks -> In k (lm s' T)) ->
  ainv s T -> ainv s' T.
Proof.
  intros s s' T L K SA Hs Hrb Hd Hcm Hrk Hra Hctsl Hcsll Hcslc Hcsls A.
  pose proof (tr_lamk s s' T SA) as El. pose proof (tr_lm s s' T SA) as Em. pose proof (tr_F s s' T SA) as Ef.
  pose proof (tr_kc s s' T SA) as Ek. pose proof (tr_Sealed s s' T SA) as Es. pose proof (tr_cstar s s' T SA) as Ec.
  pose proof (tr_NSa s s' T K SA) as En. pose proof (tr_lam_or s s' T K SA) as Eo.
  assert (Ep : prim s' T = prim s T) by (apply Ef; reflexivity).
  assert (Epw : pwok s' T = pwok s T) by (unfold pwok; apply (sa_pwok _ _ SA)).
  assert (Eal : call s' T = call s T) by (unfold call; apply (sa_all _ _ SA)).
  constructor; intros; rewrite ?El, ?Em, ?Ek, ?Es, ?Ec, ?Ep, ?Epw, ?Eal in *; repeat rewrite Ef in * by reflexivity.
  - eapply (a_send _ _ A); eauto.
  - apply Hd in H. destruct (a_entry _ _ A _ _ _ _ H) as [B1 [B2 B4]]. repeat split; auto;
    try (intros k Hk; specialize (B4 k Hk); apply Eo in B4; rewrite El in B4; auto).
  - apply (a_1pcts _ _ A).
  - eapply (a_lam _ _ A); eauto.
  - apply (a_cnt _ _ A).
  - destruct (K k) as [E | [[_ E] | [[m [c' [_ [E [S1 S2]]]]] | [m [_ [E _]]]]]].
    + rewrite E in H. apply (a_commit _ _ A _ _ H).
    + congruence.
    + rewrite E in H. inversion H. subst. auto.
    + congruence.
  - destruct (K k) as [E | [[E0 E] | [[m [c' [_ [E _]]]] | [m [_ [_ N]]]]]].
    + apply En. rewrite E in H0. eapply (a_rb _ _ A); eauto.
    + (* a fresh rollback marker on a key that was never locked *)
      exists k. rewrite El, Em. repeat split; auto.
      destruct (lamk s T k) eqn:E1; auto. exfalso. eapply (l_nu _ _ L); eauto.
    + congruence.
    + apply En. auto.
  - destruct (Hcm _ _ _ H) as [B | B]; [apply (a_cmsent _ _ A) in B | rewrite ?Es, ?Ec in B]; auto.
  - destruct (Hrk _ _ H) as [B | B]; [apply (a_rsk _ _ A) in B | rewrite ?Ep in B]; auto.
  - destruct (Hra _ H) as [B | B]; [apply (a_rsa _ _ A) in B | rewrite ?Es, ?Ec in B]; destruct B as [B1 B2]; split; auto.
  - destruct (Hctsl _ _ _ _ _ H) as [B | B]; [apply (a_ctsl _ _ A) in B | rewrite ?Ep, ?El, ?Em in B]; auto.
  - destruct (Hcsll _ _ _ H) as [B | [B1 B2]]; [apply (a_csll _ _ A) in B; destruct B as [B1 B2] |]; split; auto;
      intros k M Hk; specialize (B1 k M Hk); rewrite ?El in *; auto.
  - destruct (Hcslc _ _ _ H) as [B | B]; [apply (a_cslc _ _ A) in B | rewrite ?Es, ?Ec in B]; destruct B as [B1 B2]; split; auto.
  - destruct (Hcsls _ _ H) as [B | B]; [eapply (a_cslsent _ _ A); eauto | rewrite ?Em in B; auto].
  - destruct (a_minc _ _ A _ H H0) as [m [B1 B2]]. exists m; split; auto; apply Eo in B2; rewrite ?El in B2; auto.
  - destruct (a_minc2 _ _ A) as [B | [k [B1 B2]]]; [left; auto | right]. exists k; split; auto; apply Eo in B2; rewrite ?El in B2; auto.
  - apply En. apply (a_dead _ _ A). destruct H as [H | [r [ks H]]]; [left; auto | right; exists r, ks; auto].
  - destruct (a_told _ _ A H) as [B1 B2]. split; auto. intros k Hk. rewrite !Ek. auto.
Qed.
