(* Percolator/Deliver.v — generic preservation lemma for deliver events: the abstract store moves
   forward (kmono), one reply becomes available, everything else is unchanged. *)
From Verif Require Export Percolator.OwnB.

(* a reflexive-transitive relation respected by tr is respected by step_keys *)
Section Rel.
  Variable R : kstate -> kstate -> Prop.
  Hypothesis Rrefl : forall v, R v v.
  Hypothesis Rtrans : forall a b c, R a b -> R b c -> R a c.
  Variable tr : kstate -> option kstate.
  Hypothesis Rtr : forall v v', tr v = Some v' -> R v v'.
  Hypothesis Ralt : forall m c v', tr (Locked m) = None -> tr (alt_of c) = Some v' -> R (Locked m) v'.
  Lemma step_key_rel : forall s T k s', step_key s T k tr = Some s' -> forall T' k', R (kget s T' k') (kget s' T' k').
  Proof.
    intros s T k s' H T' k'. apply step_key_spec in H. destruct H as [v [H1 H2]]. subst s'.
    rewrite kget_kset. destruct ((T =? T') && (k =? k')) eqn:E; auto. beq. subst.
    destruct H2 as [H2 | [H2 [m [c [H3 [_ H4]]]]]]; auto. rewrite H3 in *. eapply Ralt; eauto.
  Qed.
  Lemma step_keys_rel : forall ks s T s', step_keys s T ks tr = Some s' -> forall T' k', R (kget s T' k') (kget s' T' k').
  Proof.
    induction ks as [| k ks IH]; intros s T s' H T' k'; cbn [step_keys] in H.
    - inversion H. auto.
    - destruct (step_key s T k tr) as [s1 |] eqn:E; try discriminate.
      eapply Rtrans; [eapply step_key_rel; eauto | eapply IH; eauto].
  Qed.
End Rel.

Definition kfresh (v v' : kstate) : Prop :=
  (v = Unlocked \/ v = RolledBack) -> (v' = Unlocked \/ v' = RolledBack).
Definition tr_fresh (tr : kstate -> option kstate) : Prop :=
  forall v', tr Unlocked = Some v' -> v' = Unlocked \/ v' = RolledBack.

Lemma step_keys_fresh : forall tr ks s T s', tr_ok tr -> tr_fresh tr -> step_keys s T ks tr = Some s' ->
  forall k, kfresh (kget s T k) (kget s' T k).
Proof.
  intros tr ks s T s' Hok Hf H k.
  eapply (step_keys_rel kfresh); [ | | | | exact H ]; unfold kfresh.
  - intros v Hv. auto.
  - intros a b c H1 H2 H3. auto.
  - intros v v' E [-> | ->]; auto. right. apply Hok in E. apply kstep_rolledback in E. auto.
  - intros m c v' _ _ [E | E]; discriminate.
Qed.

Record dshape (b s2 : sys) (T : N) (e' : event) : Prop := {
  d_sent : s_sent s2 = s_sent b;
  d_dlv : s_dlv s2 = e' :: s_dlv b;
  d_c : getc s2 T = getc b T;
  d_cts : s_cts s2 = s_cts b;
  d_rs : s_rs s2 = s_rs b;
  d_wr : s_wr s2 = s_wr b;
  d_k : kmono b s2;
  d_fr : (forall k, kfresh (kget b T k) (kget s2 T k)) \/ cn (getc b T) FPwSent <> 0
}.

Lemma dshape_keys : forall b e' T ks tr s2, tr_ok tr -> step_keys (add_dlv b e') T ks tr = Some s2 ->
  (tr_fresh tr \/ cn (getc b T) FPwSent <> 0) -> dshape b s2 T e'.
Proof.
  intros b e' T ks tr s2 Hok H Hf. pose proof (step_keys_kmono _ _ _ _ _ Hok H) as [S [K _]].
  constructor; try (rewrite S; reflexivity).
  - intros T' k. apply (K T' k).
  - destruct Hf as [Hf | Hf]; auto. left. intros k. apply (step_keys_fresh tr ks (add_dlv b e') T s2 Hok Hf H k).
Qed.
Lemma dshape_key : forall b e' T k tr s2, tr_ok tr -> step_key (add_dlv b e') T k tr = Some s2 ->
  tr_fresh tr -> dshape b s2 T e'.
Proof.
  intros b e' T k tr s2 Hok H Hf. apply (dshape_keys b e' T [k] tr s2 Hok); auto.
  cbn [step_keys]. rewrite H. reflexivity.
Qed.

Section Deliver.
  Variables (b s2 : sys) (T : N) (e' : event).
  Hypothesis D : dshape b s2 T e'.
  Hypothesis G : ginv b T.
  Let P := cn (getc b T) FPrim.

  Hypothesis N1 : forall r ks m o, e' = EPwReply r T ks (PwOk m o) ->
    (forall k, In k ks -> kget s2 T k <> Unlocked) /\ (o <> 0 -> cn (getc b T) FTried1 <> 0).
  Hypothesis N2 : forall r c ks, e' = ECmReply r T c ks CmOk -> forall k, In k ks -> kget s2 T k = Committed c.
  Hypothesis N3 : forall r p c, e' = ECtsReply r T p (StCommitted c) -> kget s2 T p = Committed c.
  Hypothesis N4 : forall r p, e' = ECtsReply r T p StRolledBack -> kget s2 T p = RolledBack.
  Hypothesis N5 : forall r c ks x, e' = ECmReply r T c ks x -> In (ECmSend r T c ks) (s_sent b).
  Hypothesis N6 : forall r ks x, e' = EPwReply r T ks x -> exists p a o m f secs, In (EPwSend r T p ks a o m f secs) (s_sent b).
  Hypothesis N7 : forall r p ttl m secs, e' = ECtsReply r T p (StLocked ttl m true secs) -> cn (getc b T) FTriedA <> 0.

  Ltac dnew H := rewrite (d_dlv _ _ _ _ D) in H; destruct H as [H | H].

  Lemma deliver_ginv : ginv s2 T.
  Proof.
    pose proof (d_k _ _ _ _ D) as K.
    constructor; intros; unfold hasm, prim, lm, pwok, F in *;
      rewrite ?(d_c _ _ _ _ D), ?(d_sent _ _ _ _ D), ?(d_cts _ _ _ _ D), ?(d_rs _ _ _ _ D), ?(d_wr _ _ _ _ D) in *.
    - dnew H; [eapply N1; eauto | eapply km_not_unlocked; eauto; eapply g_pw; eauto].
    - dnew H; [eapply N2; eauto | eapply km_committed; eauto; eapply g_cm; eauto].
    - dnew H; [eapply N3; eauto | eapply km_committed; eauto; eapply g_cts_c; eauto].
    - dnew H; [eapply N4; eauto | eapply km_rolledback; eauto; eapply g_cts_r; eauto].
    - rewrite (d_dlv _ _ _ _ D). right. eapply g_cts_sub; eauto.
    - eapply km_alt; eauto. eapply g_rs; eauto.
    - eapply g_rs_sent; eauto.
    - eapply g_wr; eauto.
    - dnew H; [eapply N5; eauto | eapply g_cm_sent; eauto].
    - dnew H; [eapply N6; eauto | eapply g_pw_sent; eauto].
    - eapply g_pwsent_cnt; eauto.
    - eapply g_1pc_sent; eauto.
    - dnew H; [eapply N1; eauto | eapply (g_1pc _ _ G); eauto].
    - destruct (d_fr _ _ _ _ D) as [Fr | Fr]; [| contradiction].
      apply Fr. apply (g_kst_fresh _ _ G). auto.
    - eapply (g_cmsent_p _ _ G); eauto.
    - apply (g_fresh_cnt _ _ G). auto.
    - eapply g_rb_dead; eauto.
    - eapply pwdlv_incl; [| apply (g_pwok _ _ G); auto]. rewrite (d_dlv _ _ _ _ D). apply incl_tl, incl_refl.
    - apply (g_told_dead _ _ G). auto.
    - apply (g_1pcts _ _ G). auto.
    - dnew H; [eapply N7; eauto | eapply (g_async_cts _ _ G); eauto].
    - eapply (g_jasync _ _ G); eauto.
  Qed.

  Hypothesis I : tinv b T.
  Hypothesis T1 : forall k c, kget s2 T k = Committed c -> kget b T k <> Committed c -> kget s2 T P = Committed c.
  Hypothesis T2 : forall c, kget s2 T P = Committed c -> kget b T P <> Committed c -> cn (getc b T) FPcOkd <> 0.
  Hypothesis T3 : forall k, In k (c_lm (getc b T)) -> kget s2 T k = RolledBack -> kget b T k <> RolledBack -> Dd s2 T.
  Hypothesis T4 : forall r c ks, e' = ECmReply r T c ks CmOk -> In P ks -> cn (getc b T) FPcOkd <> 0.
  Hypothesis T5 : forall r c ks, e' = ECmReply r T c ks CmGone -> In P ks -> some_rb s2 T.
  Hypothesis T6 : forall k r ks m o, kget b T k = RolledBack -> e' = EPwReply r T ks (PwOk m o) -> ~ In k ks.

  Lemma dl_some_rb : some_rb b T -> some_rb s2 T.
  Proof. apply some_rb_mono; [apply (d_k _ _ _ _ D) | rewrite (d_c _ _ _ _ D); auto]. Qed.
  Lemma dl_Dn : Dn b T -> Dn s2 T.
  Proof.
    apply Dn_mono; try (rewrite (d_c _ _ _ _ D); auto); [apply (d_k _ _ _ _ D)].
  Qed.
  Lemma dl_Dd : Dd b T -> Dd s2 T.
  Proof.
    apply Dd_mono; try (rewrite (d_c _ _ _ _ D); auto); [apply (d_k _ _ _ _ D) |].
    intros k Hk [r [ks [m [o [H1 H2]]]]]. dnew H1.
    - exfalso. eapply T6; eauto.
    - exists r, ks, m, o. auto.
  Qed.

  Lemma deliver_tinv : tinv s2 T.
  Proof.
    pose proof (d_k _ _ _ _ D) as K.
    constructor; intros; unfold hasm, prim, lm, pwok, F in *;
      rewrite ?(d_c _ _ _ _ D), ?(d_sent _ _ _ _ D), ?(d_cts _ _ _ _ D), ?(d_rs _ _ _ _ D), ?(d_wr _ _ _ _ D) in *.
    - apply (t_prim_lm _ _ I).
    - apply (t_cnt _ _ I).
    - apply (t_pwok _ _ I); auto.
    - destruct (t_cmsent _ _ I _ _ _ H) as [A B]. split; auto. intros Hn. eapply km_committed; eauto.
    - dnew H; [eapply T4; eauto | eapply (t_okd _ _ I); eauto].
    - eapply km_committed; eauto. apply (t_pcok _ _ I). auto.
    - eapply t_rs_p; eauto.
    - destruct (kstate_eq_dec (kget b T k) (Committed c)) as [E | E].
      + eapply km_committed; eauto. eapply (t_one _ _ I); eauto.
      + eapply T1; eauto.
    - destruct (kstate_eq_dec (kget b T P) (Committed c)) as [E | E].
      + eapply (t_pcommit _ _ I); eauto.
      + eapply T2; eauto.
    - dnew H; [eapply T5; eauto | apply dl_some_rb; eapply (t_gone _ _ I); eauto].
    - apply dl_some_rb. apply (t_rbflag _ _ I). auto.
    - apply dl_Dn. eapply (t_rb_sent _ _ I); eauto.
    - apply dl_Dn. apply (t_told_err _ _ I). auto.
    - destruct (kstate_eq_dec (kget b T k) RolledBack) as [E | E].
      + apply dl_Dd. eapply (t_rb_dead _ _ I); eauto.
      + eapply T3; eauto.
    - destruct (t_told_ok _ _ I H) as [c Hc]. exists c. eapply km_committed; eauto.
  Qed.

  Lemma dl_hasm : hasm s2 T <-> hasm b T.
  Proof. unfold hasm, F. rewrite (d_c _ _ _ _ D). tauto. Qed.
  Lemma dl_classic : classic s2 T <-> classic b T.
  Proof. unfold classic, F. rewrite (d_c _ _ _ _ D), (d_rs _ _ _ _ D). tauto. Qed.
End Deliver.

Lemma deliver_inv : forall (b s2 : sys) (T : N) (e' : event),
  dshape b s2 T e' -> invT b T ->
  (forall r ks m o, e' = EPwReply r T ks (PwOk m o) ->
     (forall k, In k ks -> kget s2 T k <> Unlocked) /\ (o <> 0 -> cn (getc b T) FTried1 <> 0)) ->
  (forall r c ks, e' = ECmReply r T c ks CmOk -> forall k, In k ks -> kget s2 T k = Committed c) ->
  (forall r p c, e' = ECtsReply r T p (StCommitted c) -> kget s2 T p = Committed c) ->
  (forall r p, e' = ECtsReply r T p StRolledBack -> kget s2 T p = RolledBack) ->
  (forall r c ks x, e' = ECmReply r T c ks x -> In (ECmSend r T c ks) (s_sent b)) ->
  (forall r ks x, e' = EPwReply r T ks x -> exists p a o m f secs, In (EPwSend r T p ks a o m f secs) (s_sent b)) ->
  (forall r p ttl m secs, e' = ECtsReply r T p (StLocked ttl m true secs) -> cn (getc b T) FTriedA <> 0) ->
  (tinv b T -> classic b T -> hasm b T ->
     (forall k c, kget s2 T k = Committed c -> kget b T k <> Committed c -> kget s2 T (cn (getc b T) FPrim) = Committed c) /\
     (forall c, kget s2 T (cn (getc b T) FPrim) = Committed c -> kget b T (cn (getc b T) FPrim) <> Committed c ->
                cn (getc b T) FPcOkd <> 0) /\
     (forall k, In k (c_lm (getc b T)) -> kget s2 T k = RolledBack -> kget b T k <> RolledBack -> Dd s2 T) /\
     (forall r c ks, e' = ECmReply r T c ks CmOk -> In (cn (getc b T) FPrim) ks -> cn (getc b T) FPcOkd <> 0) /\
     (forall r c ks, e' = ECmReply r T c ks CmGone -> In (cn (getc b T) FPrim) ks -> some_rb s2 T) /\
     (forall k r ks m o, kget b T k = RolledBack -> e' = EPwReply r T ks (PwOk m o) -> ~ In k ks)) ->
  invT s2 T.
Proof.
  intros b s2 T e' D [G I] N1 N2 N3 N4 N5 N6 N7 HT. split.
  - apply (deliver_ginv b s2 T e' D G); auto.
  - intros Hh Hc. rewrite (dl_hasm _ _ _ _ D) in Hh. rewrite (dl_classic _ _ _ _ D) in Hc. specialize (I Hh Hc).
    destruct (HT I Hc Hh) as [T1 [T2 [T3 [T4 [T5 T6]]]]].
    apply (deliver_tinv b s2 T e' D I); auto.
Qed.
