(* Percolator/Basics.v — elementary lemmas about the acceptor's state functions. *)
From Verif Require Export Percolator.System.

Ltac sproj := cbn [s_tso s_kst s_sent s_dlv s_cl s_own s_crashed s_cts s_csl s_seen s_gc s_rs s_wr
                   setc kset add_sent add_dlv
                   w_tso w_kst w_sent w_dlv w_cl w_own w_crashed w_cts w_csl w_seen w_gc w_rs w_wr] in *.

Lemma getc_setc : forall s T c T', getc (setc s T c) T' = if T =? T' then c else getc s T'.
Proof. intros. unfold getc. sproj. cbn [getc_l]. reflexivity. Qed.
Lemma getc_setc_eq : forall s T c, getc (setc s T c) T = c.
Proof. intros. rewrite getc_setc, N.eqb_refl. reflexivity. Qed.
Lemma getc_setc_ne : forall s T c T', T <> T' -> getc (setc s T c) T' = getc s T'.
Proof. intros. rewrite getc_setc. destruct (N.eqb_spec T T'); congruence. Qed.

Lemma kget_kset : forall s T k v T' k',
  kget (kset s T k v) T' k' = if (T =? T') && (k =? k') then v else kget s T' k'.
Proof. intros. unfold kget. sproj. cbn [kget_l]. reflexivity. Qed.
Lemma kget_kset_eq : forall s T k v, kget (kset s T k v) T k = v.
Proof. intros. rewrite kget_kset, !N.eqb_refl. reflexivity. Qed.
Lemma kget_kset_ne : forall s T k v T' k', (T <> T' \/ k <> k') -> kget (kset s T k v) T' k' = kget s T' k'.
Proof.
  intros. rewrite kget_kset. destruct (N.eqb_spec T T'); destruct (N.eqb_spec k k'); cbn [andb]; auto.
  subst. destruct H; congruence.
Qed.

Lemma cn_setn : forall c f v g, cn (setn c f v) g = if fld_eqb g f then v else cn c g.
Proof. reflexivity. Qed.
Lemma fld_eqb_refl : forall f, fld_eqb f f = true.
Proof. destruct f; reflexivity. Qed.
Lemma fld_eqb_eq : forall f g, fld_eqb f g = true -> f = g.
Proof. destruct f, g; cbn [fld_eqb]; intros; try discriminate; reflexivity. Qed.
Lemma cn_setn_eq : forall c f v, cn (setn c f v) f = v.
Proof. intros. rewrite cn_setn, fld_eqb_refl. reflexivity. Qed.
Lemma cn_setn_ne : forall c f v g, g <> f -> cn (setn c f v) g = cn c g.
Proof.
  intros. rewrite cn_setn. destruct (fld_eqb g f) eqn:E; auto. apply fld_eqb_eq in E. congruence.
Qed.
Lemma cn_incn_eq : forall c f, cn (incn c f) f = cn c f + 1.
Proof. intros. unfold incn. apply cn_setn_eq. Qed.
Lemma cn_incn_ne : forall c f g, g <> f -> cn (incn c f) g = cn c g.
Proof. intros. unfold incn. apply cn_setn_ne. auto. Qed.
Lemma fb_true : forall c f, fb c f = true <-> cn c f <> 0.
Proof. intros. unfold fb. rewrite negb_true_iff. rewrite N.eqb_neq. tauto. Qed.
Lemma fb_false : forall c f, fb c f = false <-> cn c f = 0.
Proof. intros. unfold fb. rewrite negb_false_iff. rewrite N.eqb_eq. tauto. Qed.

(* simplification of record-field reads after updates: decides the field comparison by computation *)
Ltac cnsimp :=
  repeat (rewrite ?cn_incn_eq, ?cn_setn_eq in *;
          try rewrite cn_incn_ne in * by discriminate;
          try rewrite cn_setn_ne in * by discriminate);
  cbn [c_lm c_all c_pwok c_kl setn incn set_muts add_pwok add_kl] in *.

(* ---- equality reflected by the boolean equalities ---- *)
Lemma pw_res_eqb_eq : forall a b, pw_res_eqb a b = true -> a = b.
Proof.
  destruct a, b; cbn [pw_res_eqb]; intros H; try discriminate; auto.
  - apply andb_true_iff in H. destruct H as [H1 H2]. apply N.eqb_eq in H1. apply N.eqb_eq in H2. subst. auto.
  - apply N.eqb_eq in H. subst. auto.
Qed.
Lemma cm_res_eqb_eq : forall a b, cm_res_eqb a b = true -> a = b.
Proof. destruct a, b; cbn [cm_res_eqb]; intros H; try discriminate; auto. apply N.eqb_eq in H. subst. auto. Qed.
Lemma rb_res_eqb_eq : forall a b, rb_res_eqb a b = true -> a = b.
Proof. destruct a, b; cbn [rb_res_eqb]; intros H; try discriminate; auto. Qed.
Lemma g_res_eqb_eq : forall a b, g_res_eqb a b = true -> a = b.
Proof. destruct a, b; cbn [g_res_eqb]; intros H; try discriminate; auto. Qed.
Lemma cts_st_eqb_eq : forall a b, cts_st_eqb a b = true -> a = b.
Proof.
  destruct a, b; cbn [cts_st_eqb]; intros H; try discriminate; auto.
  - repeat (apply andb_true_iff in H; destruct H as [H ?]).
    apply N.eqb_eq in H. apply N.eqb_eq in H2. apply eqb_prop in H1. apply leqb_eq in H0. subst. auto.
  - apply N.eqb_eq in H. subst. auto.
Qed.
Lemma csl_st_eqb_eq : forall a b, csl_st_eqb a b = true -> a = b.
Proof.
  destruct a, b; cbn [csl_st_eqb]; intros H; try discriminate; auto.
  - apply lpeqb_eq in H. subst. auto.
  - apply N.eqb_eq in H. subst. auto.
Qed.

Ltac andsplit H :=
  repeat match type of H with
         | (_ && _) = true => let H' := fresh H in apply andb_true_iff in H; destruct H as [H H']
         end.
Ltac beq :=
  repeat match goal with
         | H : (_ && _) = true |- _ => let H' := fresh H in apply andb_true_iff in H; destruct H as [H H']
         | H : (_ =? _) = true |- _ => apply N.eqb_eq in H
         | H : leqb _ _ = true |- _ => apply leqb_eq in H
         | H : pw_res_eqb _ _ = true |- _ => apply pw_res_eqb_eq in H
         | H : cm_res_eqb _ _ = true |- _ => apply cm_res_eqb_eq in H
         | H : rb_res_eqb _ _ = true |- _ => apply rb_res_eqb_eq in H
         | H : g_res_eqb _ _ = true |- _ => apply g_res_eqb_eq in H
         | H : cts_st_eqb _ _ = true |- _ => apply cts_st_eqb_eq in H
         | H : csl_st_eqb _ _ = true |- _ => apply csl_st_eqb_eq in H
         end.

Lemma reply_eqb_eq : forall a b, reply_eqb a b = true -> a = b.
Proof.
  destruct a; intros b H; destruct b; cbn [reply_eqb] in H; try discriminate; beq; subst; reflexivity.
Qed.

Lemma delivered_In : forall s e, delivered s e = true -> In e (s_dlv s).
Proof.
  unfold delivered. intros s e H. apply existsb_exists in H. destruct H as [x [H1 H2]].
  apply reply_eqb_eq in H2. subst. auto.
Qed.
Lemma sent_by_In : forall s p, sent_by s p = true -> exists e, In e (s_sent s) /\ p e = true.
Proof. unfold sent_by. intros s p H. apply existsb_exists in H. auto. Qed.

(* ---- the abstract store only moves forward ---- *)
Definition kstep (v v' : kstate) : Prop :=
  v' = v \/ ((v = Unlocked \/ exists m, v = Locked m) /\ v' <> Unlocked).
Lemma kstep_refl : forall v, kstep v v.
Proof. left. auto. Qed.
Lemma kstep_trans : forall a b c, kstep a b -> kstep b c -> kstep a c.
Proof.
  unfold kstep. intros a b c [H1 | [H1 H1']] [H2 | [H2 H2']]; subst; auto; try (right; split; auto).
Qed.
Lemma kstep_committed : forall c v, kstep (Committed c) v -> v = Committed c.
Proof. intros c v [H | [[H | [m H]] _]]; auto; discriminate. Qed.
Lemma kstep_rolledback : forall v, kstep RolledBack v -> v = RolledBack.
Proof. intros v [H | [[H | [m H]] _]]; auto; discriminate. Qed.
Lemma kstep_not_unlocked : forall v v', kstep v v' -> v <> Unlocked -> v' <> Unlocked.
Proof. intros v v' [H | [_ H]] Hn; subst; auto. Qed.

Definition tr_ok (tr : kstate -> option kstate) : Prop := forall v v', tr v = Some v' -> kstep v v'.
Definition tr_idem (tr : kstate -> option kstate) : Prop := forall v v', tr v = Some v' -> tr v' = Some v'.
Definition tr_total_locked (tr : kstate -> option kstate) : Prop := forall m, tr (Locked m) <> None.

Ltac trtac :=
  intros v v' H; destruct v; cbn in H;
  repeat match type of H with context [if ?b then _ else _] => destruct b eqn:? end;
  inversion H; subst; clear H.
Lemma alt_of_final : forall c, alt_of c = RolledBack \/ alt_of c = Committed c.
Proof. intros c. unfold alt_of. destruct (c =? 0); auto. Qed.
Lemma alt_of_not_unlocked : forall c, alt_of c <> Unlocked.
Proof. intros c. destruct (alt_of_final c) as [H | H]; rewrite H; discriminate. Qed.
Lemma alt_of_not_locked : forall c m, alt_of c <> Locked m.
Proof. intros c m. destruct (alt_of_final c) as [H | H]; rewrite H; discriminate. Qed.

Ltac kst_tac :=
  first [ left; reflexivity
        | right; split; [ first [ left; reflexivity | right; eexists; reflexivity ]
                        | first [ discriminate | apply alt_of_not_unlocked ] ] ].
Lemma tr_pw_ok : forall m, tr_ok (tr_pw m). Proof. intros m. trtac; kst_tac. Qed.
Lemma tr_1pc_ok : forall o, tr_ok (tr_1pc o). Proof. intros o. trtac; kst_tac. Qed.
Lemma tr_cm_ok : forall c, tr_ok (tr_cm c). Proof. intros c. trtac; kst_tac. Qed.
Lemma tr_rb_ok : tr_ok tr_rb. Proof. trtac; kst_tac. Qed.
Lemma tr_rs_ok : forall c, tr_ok (tr_rs c). Proof. intros c. trtac; kst_tac. Qed.
Lemma tr_push_ok : forall m, tr_ok (tr_push m). Proof. intros m. trtac; kst_tac. Qed.
Lemma tr_cts_committed_ok : forall c, tr_ok (tr_cts_committed c). Proof. intros c. trtac; kst_tac. Qed.
Lemma tr_cts_locked_ok : forall m, tr_ok (tr_cts_locked m). Proof. intros m. trtac; kst_tac. Qed.
Lemma tr_csl_lock_ok : forall m, tr_ok (tr_csl_lock m). Proof. intros m. trtac; kst_tac. Qed.
Lemma tr_csl_rb_ok : tr_ok tr_csl_rb. Proof. trtac; kst_tac. Qed.

Lemma max_idem : forall a b, N.max (N.max a b) b = N.max a b.
Proof. intros. lia. Qed.
Ltac idem_tac := cbn; rewrite ?max_idem, ?N.max_id, ?N.eqb_refl; try reflexivity.
Lemma tr_pw_idem : forall m, tr_idem (tr_pw m). Proof. intros m. trtac; idem_tac. Qed.
Lemma tr_1pc_idem : forall o, tr_idem (tr_1pc o).
Proof. intros o. trtac; idem_tac. cbn. rewrite Heqb. reflexivity. Qed.
Lemma tr_cm_idem : forall c, tr_idem (tr_cm c).
Proof. intros c. trtac; idem_tac. cbn. rewrite Heqb. reflexivity. Qed.
Lemma tr_rb_idem : tr_idem tr_rb. Proof. trtac; idem_tac. Qed.
Lemma tr_rs_idem : forall c, tr_idem (tr_rs c).
Proof. intros c. trtac; idem_tac. unfold tr_rs. destruct (alt_of_final c) as [H | H]; rewrite H; reflexivity. Qed.
Lemma tr_push_idem : forall m, tr_idem (tr_push m). Proof. intros m. trtac; idem_tac. Qed.
Lemma tr_csl_rb_idem : tr_idem tr_csl_rb. Proof. trtac; idem_tac. Qed.

(* ---- characterisation of step_key / step_keys ---- *)
Definition same_but_kst (s s' : sys) : Prop := s' = w_kst s (s_kst s').

Lemma same_but_kst_refl : forall s, same_but_kst s s.
Proof. intros s. unfold same_but_kst. destruct s. reflexivity. Qed.
Lemma same_but_kst_trans : forall a b c, same_but_kst a b -> same_but_kst b c -> same_but_kst a c.
Proof. unfold same_but_kst. intros a b c H1 H2. rewrite H2. rewrite H1. destruct a. reflexivity. Qed.
Lemma same_but_kst_kset : forall s T k v, same_but_kst s (kset s T k v).
Proof. intros. unfold same_but_kst, kset. destruct s. reflexivity. Qed.

Lemma wr_alt_spec : forall s T tr v, wr_alt s T tr = Some v -> exists c, In (T, c) (s_wr s) /\ tr (alt_of c) = Some v.
Proof.
  unfold wr_alt. intros s T tr v H. destruct (find _ (s_wr s)) as [[T' c] |] eqn:F; try discriminate.
  apply find_some in F. destruct F as [F1 F2]. cbn [fst snd] in *. andsplit F2. apply N.eqb_eq in F2. subst.
  exists c. auto.
Qed.

Lemma step_key_spec : forall s T k tr s', step_key s T k tr = Some s' ->
  exists v, s' = kset s T k v /\
    (tr (kget s T k) = Some v \/
     (tr (kget s T k) = None /\ exists m c, kget s T k = Locked m /\ In (T, c) (s_wr s) /\ tr (alt_of c) = Some v)).
Proof.
  unfold step_key. intros s T k tr s' H. destruct (tr (kget s T k)) as [v |] eqn:E.
  - inversion H. exists v. auto.
  - destruct (kget s T k) eqn:K; try discriminate. destruct (wr_alt s T tr) as [v |] eqn:W; try discriminate.
    inversion H. apply wr_alt_spec in W. destruct W as [c [W1 W2]]. exists v. split; auto. right. split; auto.
    exists m, c. auto.
Qed.

Lemma step_key_total : forall s T k tr s', tr_total_locked tr -> step_key s T k tr = Some s' ->
  exists v, s' = kset s T k v /\ tr (kget s T k) = Some v.
Proof.
  intros s T k tr s' Ht H. apply step_key_spec in H. destruct H as [v [H1 [H2 | [H2 [m [c [H3 _]]]]]]].
  - exists v. auto.
  - rewrite H3 in H2. exfalso. eapply Ht; eauto.
Qed.

(* weak: every key moves by kstep, nothing else changes *)
Definition kmono (s s' : sys) : Prop := forall T k, kstep (kget s T k) (kget s' T k).
Lemma kmono_refl : forall s, kmono s s. Proof. intros s T k. apply kstep_refl. Qed.
Lemma kmono_trans : forall a b c, kmono a b -> kmono b c -> kmono a c.
Proof. intros a b c H1 H2 T k. eapply kstep_trans; eauto. Qed.

Lemma step_key_kmono : forall s T k tr s', tr_ok tr -> step_key s T k tr = Some s' ->
  same_but_kst s s' /\ kmono s s' /\ (forall T' k', (T' <> T \/ k' <> k) -> kget s' T' k' = kget s T' k').
Proof.
  intros s T k tr s' Hok H. apply step_key_spec in H. destruct H as [v [H1 H2]]. subst s'.
  split; [apply same_but_kst_kset |]. split.
  - intros T' k'. rewrite kget_kset. destruct ((T =? T') && (k =? k')) eqn:E; [| apply kstep_refl].
    beq. subst. destruct H2 as [H2 | [_ [m [c [H3 [_ H4]]]]]].
    + apply Hok. auto.
    + rewrite H3. right. split; [right; eexists; reflexivity |].
      apply Hok in H4. eapply kstep_not_unlocked; eauto. apply alt_of_not_unlocked.
  - intros T' k' Hne. apply kget_kset_ne. destruct Hne; auto.
Qed.

Lemma step_keys_kmono : forall ks s T tr s', tr_ok tr -> step_keys s T ks tr = Some s' ->
  same_but_kst s s' /\ kmono s s' /\ (forall T' k', (T' <> T \/ ~ In k' ks) -> kget s' T' k' = kget s T' k').
Proof.
  induction ks as [| k ks IH]; intros s T tr s' Hok H; cbn [step_keys] in H.
  - inversion H. subst. split; [apply same_but_kst_refl |]. split; [apply kmono_refl | auto].
  - destruct (step_key s T k tr) as [s1 |] eqn:E; try discriminate.
    apply step_key_kmono in E; auto. destruct E as [E1 [E2 E3]].
    apply IH in H; auto. destruct H as [H1 [H2 H3]].
    split; [eapply same_but_kst_trans; eauto |]. split; [eapply kmono_trans; eauto |].
    intros T' k' Hne. rewrite H3.
    + apply E3. destruct Hne as [Hne | Hne]; auto. right. intros ->. apply Hne. left. auto.
    + destruct Hne as [Hne | Hne]; auto. right. intros Hin. apply Hne. right. auto.
Qed.

(* precise: for idempotent transitions total on Locked, every listed key takes exactly one tr step *)
Lemma step_keys_exact : forall ks s T tr s', tr_ok tr -> tr_idem tr -> tr_total_locked tr ->
  step_keys s T ks tr = Some s' -> forall k, In k ks -> tr (kget s T k) = Some (kget s' T k).
Proof.
  induction ks as [| k0 ks IH]; intros s T tr s' Hok Hid Htot H k Hin; [destruct Hin |].
  cbn [step_keys] in H. destruct (step_key s T k0 tr) as [s1 |] eqn:E; try discriminate.
  apply step_key_total in E; auto. destruct E as [v [E1 E2]]. subst s1.
  destruct (in_dec N.eq_dec k ks) as [Hk | Hk].
  - specialize (IH _ _ _ _ Hok Hid Htot H k Hk). rewrite kget_kset in IH.
    destruct ((T =? T) && (k0 =? k)) eqn:B.
    + beq. subst k0. rewrite E2. apply Hid in E2. rewrite E2 in IH. auto.
    + auto.
  - destruct Hin as [-> | Hin]; [| contradiction].
    destruct (step_keys_kmono ks (kset s T k v) T tr s' Hok H) as [_ [_ F]].
    rewrite F by (right; auto). rewrite kget_kset_eq. auto.
Qed.

Lemma first_gone_spec : forall s T ks, existsb (gone_key s T) ks = true ->
  exists k0, first_gone s T ks = [k0] /\ In k0 ks /\ gone_key s T k0 = true.
Proof.
  intros s T ks H. unfold first_gone. destruct (find (gone_key s T) ks) as [k0 |] eqn:Fd.
  - apply find_some in Fd. exists k0. tauto.
  - apply existsb_exists in H. destruct H as [k [K1 K2]]. rewrite (find_none _ _ Fd k K1) in K2. discriminate.
Qed.
Lemma first_gone_In : forall s T ks k, In k (first_gone s T ks) -> In k ks.
Proof.
  intros s T ks k H. unfold first_gone in H. destruct (find (gone_key s T) ks) as [k0 |] eqn:Fd; [| destruct H].
  destruct H as [<- | []]. apply find_some in Fd. tauto.
Qed.

