(* Percolator/Async6.v — ainv and CheckTxnStatus deliveries, rollback_send, told. *)
From Verif Require Export Percolator.Async5.

Lemma tr_cts_locked_id : forall m v v', tr_cts_locked m v = Some v' -> v' = v.
Proof. intros m v v' H. destruct v; cbn in H; inversion H; auto. Qed.

Lemma ctsd_rb_async : forall s s' r T p m, stepr s (ECtsDeliver r T p StRolledBack) = Ok s' ->
  kget s T p = Locked m -> m <> 0 -> existsb (fun sc => (fst sc =? T) && (snd sc =? 0)) (s_wr s) = false -> F s' T FStFb <> 0.
Proof.
  intros s s' r T p m H E Hm Hw. cbn [stepr] in H. unfold step_cts_deliver in H. chks H. rewrite E in *.
  apply N.eqb_neq in Hm. rewrite Hm, Hw in *. cbn [negb andb] in H.
  destruct (step_key _ _ _ _) as [s2 |] eqn:K; try discriminate. okinv H. unfold F.
  rewrite (step_key_getc _ _ _ _ _ T K). rd. discriminate.
Qed.

Lemma asyncm_ctsd_back : forall s s' r T p st, stepr s (ECtsDeliver r T p st) = Ok s' -> asyncm s' T -> asyncm s T.
Proof.
  intros s s' r T p st H [B1 [B2 [B3 [B4 B5]]]]. destruct (ctsd_fields _ _ _ _ _ _ T H) as [A B].
  apply (no1pc_back _ _ _ _ H) in B3. unfold asyncm, hasm, F in *.
  rewrite (A FHasm), (A FTriedA), (A FFb) in * by discriminate. repeat split; auto.
Qed.

Lemma ainv_cts_deliver : forall s s' r T p st, Inv s -> Linv s -> stepr s (ECtsDeliver r T p st) = Ok s' ->
  (asyncm s T -> ainv s T) -> asyncm s' T -> ainv s' T.
Proof.
  intros s s' r T p st HI HL H AI Am'. destruct (HI T) as [G _]. pose proof (HL T) as L.
  pose proof (asyncm_ctsd_back _ _ _ _ _ _ H Am') as Am. pose proof (AI Am) as A. pose proof (proj1 Am) as Hm.
  assert (NL : st = StRolledBack -> forall m, kget s T p = Locked m ->
               m = 0 \/ existsb (fun sc => (fst sc =? T) && (snd sc =? 0)) (s_wr s) = true).
  { intros -> m E. destruct (N.eq_dec m 0); auto. right.
    destruct (existsb (fun sc => (fst sc =? T) && (snd sc =? 0)) (s_wr s)) eqn:Ew; auto.
    exfalso. destruct Am' as [_ [_ [_ [_ B]]]]. eapply ctsd_rb_async; eauto. }
  pose proof (ctsd_acct _ _ _ _ _ _ T H NL) as SA.
  pose proof (stepr_lists _ _ _ H) as [Ls [Ld _]]. cbn [reply_of] in Ld.
  (* a locked primary reported "rolled back": a whole-region resolve with commit ts 0 removed the lock *)
  assert (NoLk : st = StRolledBack -> forall m, kget s T p = Locked m -> NSa s T).
  { intros E m El. destruct (NL E m El) as [-> | Ew]; [exfalso; apply (a_lam _ _ A _ _ (l_locked _ _ L _ _ El)); auto |].
    apply existsb_exists in Ew. destruct Ew as [[T' c] [W1 W2]]. cbn [fst snd] in W2. b2p. subst T' c.
    apply (wr_just s T G L Am A 0 W1). auto. }
  (* how the key moves *)
  assert (J : forall k, jstep s s' T k).
  { intros k. unfold jstep. pose proof H as H2. cbn [stepr] in H2. unfold step_cts_deliver in H2. chks H2.
    destruct st as [ttl m a secs | cc | | | | |]; chks H2; try (okinv H2; left; reflexivity).
    - destruct (step_key _ _ _ _) as [s2 |] eqn:K; try discriminate. okinv H2. apply step_key_char in K.
      destruct K as [v [K1 [K2 | [K2 [m0 [c0 [K3 _]]]]]]]; [| rewrite K3 in K2; discriminate].
      apply tr_cts_locked_id in K2. left. rewrite K1. destruct (p =? k) eqn:E; auto. apply N.eqb_eq in E. subst. auto.
    - destruct (step_key _ _ _ _) as [s2 |] eqn:K; try discriminate. okinv H2. apply step_key_char in K.
      destruct K as [v [K1 K2]]. rewrite K1. destruct (p =? k) eqn:E; [| left; auto]. apply N.eqb_eq in E. subst k.
      destruct K2 as [K2 | [_ [m0 [c0 [K3 [K4 K5]]]]]].
      + apply tr_cts_committed_res in K2. destruct K2 as [-> K2]. left. auto.
      + apply tr_cts_committed_res in K5. destruct K5 as [-> K5]. unfold alt_of in K5. destruct (c0 =? 0) eqn:Z; inversion K5. subst c0.
        apply N.eqb_neq in Z. destruct (wr_just s T G L Am A cc K4) as [W _]. destruct (W Z) as [S1 S2].
        right. right. left. exists m0, cc. auto.
    - match type of H2 with context [if ?bb then _ else _] => destruct bb eqn:Ea end.
      + exfalso. destruct (kget s T p) eqn:Ek; try discriminate. apply andb_true_iff in Ea. destruct Ea as [Ea1 Ea2].
        destruct (NL eq_refl _ eq_refl) as [-> | Ew]; [discriminate Ea1 | rewrite Ew in Ea2; discriminate Ea2].
      + destruct (step_key _ _ _ _) as [s2 |] eqn:K; try discriminate. okinv H2. apply step_key_char in K.
        destruct K as [v [K1 [K2 | [K2 [m0 [c0 [K3 _]]]]]]]; [| cbn in K2; rewrite K3 in K2; discriminate K2].
        apply tr_rb_res in K2. destruct K2 as [-> K2]. rewrite K1. destruct (p =? k) eqn:E; [| left; auto]. apply N.eqb_eq in E. subst k.
        destruct (kget s T p) eqn:Ek.
        * right. left. auto.
        * right. right. right. exists m. repeat split; auto. eapply NoLk; eauto.
        * exfalso. eapply K2; eauto.
        * left. auto. }
  apply (ainv_stable s s' T L J SA); try exact A.
  - intros. destruct Ls as [Ls | Ls]; rewrite Ls in H0; auto. destruct H0 as [H0 | H0]; auto. discriminate H0.
  - intros. destruct Ls as [Ls | Ls]; rewrite Ls in H0; auto. destruct H0 as [H0 | H0]; auto. discriminate H0.
  - intros. destruct Ld as [Ld | [e' [R1 Ld]]]; rewrite Ld in H0; auto. destruct H0 as [H0 | H0]; auto. subst. inversion R1.
  - intros. left. destruct Ls as [Ls | Ls]; rewrite Ls in H0; auto. destruct H0 as [H0 | H0]; auto. discriminate H0.
  - intros. left. pose proof (stepr_lists _ _ _ H) as [_ [_ [_ [_ [Lr _]]]]]. destruct Lr as [Lr | [r0 [T1 [c [ks [j [Ee _]]]]]]]; [rewrite Lr in H0; auto | discriminate Ee].
  - intros. left. pose proof (stepr_lists _ _ _ H) as [_ [_ [_ [_ [Lr _]]]]]. destruct Lr as [Lr | [r0 [T1 [c [ks [j [Ee _]]]]]]]; [rewrite Lr in H0; auto | discriminate Ee].
  - (* the reported async primary lock *)
    intros r0 p0 ttl m secs H0. destruct Ld as [Ld | [e' [R1 Ld]]]; rewrite Ld in H0; auto. destruct H0 as [H0 | H0]; auto.
    subst e'. inversion R1. subst. right.
    unfold prim. rewrite (tr_F s s' T SA FPrim eq_refl), (tr_lamk s s' T SA), (tr_lm s s' T SA). fold (prim s T).
    cbn [stepr] in H. unfold step_cts_deliver in H. chks H. cbn [negb andb orb] in *.
    assert (Hh : fb (getc s T) FHasm = true) by (apply fb_true; exact Hm). rewrite Hh in *. cbn [negb andb orb] in *.
    apply N.eqb_eq in C2. apply andb_true_iff in C3. destruct C3 as [C3 C5]. apply andb_true_iff in C3. destruct C3 as [C3 C4].
    apply negb_true_iff in C4. split; [unfold prim, F; auto |]. split.
    + destruct (kget s T p0) eqn:Ek; try discriminate. pose proof (l_locked _ _ L _ _ Ek) as El.
      apply andb_true_iff in C1. destruct C1 as [C1 _]. apply N.eqb_eq in C1. congruence.
    + intros k. split.
      * intros Hk. split; [eapply subset_In; eauto |]. intros ->. apply mem_false in C4. contradiction.
      * intros [Hk Hne]. rewrite forallb_forall in C5. specialize (C5 k Hk). apply orb_true_iff in C5.
        destruct C5 as [C5 | C5]; [apply N.eqb_eq in C5; contradiction | apply mem_In; auto].
  - intros. left. destruct Ld as [Ld | [e' [R1 Ld]]]; rewrite Ld in H0; auto. destruct H0 as [H0 | H0]; auto. subst. inversion R1.
  - intros. left. destruct Ld as [Ld | [e' [R1 Ld]]]; rewrite Ld in H0; auto. destruct H0 as [H0 | H0]; auto. subst. inversion R1.
  - intros. left. destruct Ls as [Ls | Ls]; rewrite Ls in H0; auto. destruct H0 as [H0 | H0]; auto. discriminate H0.
Qed.

Lemma err_ok_closed_a : forall s T, linv s T -> ainv s T -> hasm s T -> err_ok (getc s T) = true ->
  exists k0, In k0 (lm s T) /\ lamk s T k0 = None /\
    (kget s T k0 = RolledBack \/ (kget s T k0 = Unlocked /\ kc s T KSent k0 = kc s T KNegD k0)).
Proof.
  intros s T L A Hm H. unfold err_ok in H. apply orb_true_iff in H. destruct H as [H | H].
  - exfalso. unfold hasm, F in Hm. apply negb_true_iff in H. apply fb_false in H. contradiction.
  - apply existsb_exists in H. destruct H as [k0 [H1 H2]]. apply N.eqb_eq in H2. exists k0. split; auto.
    destruct (a_cnt _ _ A k0) as [B1 B2]. pose proof (l_cntle _ _ L k0) as B3. unfold kc in *.
    assert (El : lamk s T k0 = None).
    { destruct (lamk s T k0) eqn:E; auto. exfalso. pose proof (l_lamcnt _ _ L _ _ E) as Lt. unfold kc in Lt. lia. }
    split; auto. destruct (kget s T k0) eqn:Ek.
    + right. split; auto. lia.
    + exfalso. pose proof (l_locked _ _ L _ _ Ek). congruence.
    + exfalso. destruct (a_commit _ _ A _ _ Ek) as [S _]. apply (S k0 H1). auto.
    + left. auto.
Qed.

(* the owner's record changes only in FTold / FDead: everything else of ainv is untouched *)
Lemma ainv_flags : forall s s' T, linv s T -> ainv s T ->
  (forall k, kget s' T k = kget s T k) -> s_dlv s' = s_dlv s -> s_rs s' = s_rs s ->
  (forall x, In x (s_sent s') -> In x (s_sent s) \/ exists r ks, x = ERbSend r T ks) ->
  c_kl (getc s' T) = c_kl (getc s T) -> c_lam (getc s' T) = c_lam (getc s T) -> c_lm (getc s' T) = c_lm (getc s T) ->
  c_all (getc s' T) = c_all (getc s T) -> c_pwok (getc s' T) = c_pwok (getc s T) ->
  (forall f, f <> FTold -> f <> FDead -> cn (getc s' T) f = cn (getc s T) f) ->
  (cn (getc s T) FTold <> 0 -> cn (getc s' T) FTold = cn (getc s T) FTold) ->
  (cn (getc s T) FDead <> 0 -> cn (getc s' T) FDead <> 0) ->
  ((F s' T FTold = 3 \/ exists r ks, In (ERbSend r T ks) (s_sent s')) -> NSa s' T) ->
  (F s' T FTold = 1 -> Sealed s' T /\ forall k, In k (call s' T) -> kc s' T KSent k = kc s' T KRep k) ->
  ainv s' T.
Proof.
  intros s s' T L A K Hd Hr Hs E1 E2 E3 E4 E5 Ef Et Ed Hdead Htold.
  assert (El : forall k, lamk s' T k = lamk s T k) by (intros; unfold lamk, lam; rewrite E2; auto).
  assert (Em : lm s' T = lm s T) by (unfold lm; auto).
  assert (Ek : forall t k, kc s' T t k = kc s T t k) by (intros; unfold kc, kcnt; rewrite E1; auto).
  assert (Es : Sealed s' T <-> Sealed s T) by (unfold Sealed; rewrite Em; split; intros S k Hk; specialize (S k Hk); rewrite El in *; auto).
  assert (Ec : cstar s' T = cstar s T) by (unfold cstar; rewrite Em; apply fold_max_ext; intros k; unfold lam0; rewrite El; auto).
  assert (Ep : prim s' T = prim s T) by (unfold prim, F; apply Ef; discriminate).
  assert (Emc : F s' T FMinc = F s T FMinc) by (unfold F; apply Ef; discriminate).
  assert (En : NSa s T -> NSa s' T).
  { intros [k0 [K1 [K2 K3]]]. exists k0. rewrite Em, El, K. repeat split; auto.
    destruct K3 as [K3 | [K3 [K4 K5]]]; [left; auto | right]. repeat split; auto; [| rewrite !Ek; auto].
    unfold F in *. destruct K4 as [K4 | K4]; [left; rewrite Et; auto | right; auto]. }
  assert (Hs' : forall x, (forall r ks, x <> ERbSend r T ks) -> In x (s_sent s') -> In x (s_sent s)).
  { intros x Hx Hi. destruct (Hs x Hi) as [B | [r [ks B]]]; auto. exfalso. eapply Hx; eauto. }
  constructor; intros; rewrite ?El, ?Em, ?Ek, ?Es, ?Ec, ?Ep, ?Emc, ?K, ?Hd, ?Hr in *; auto.
  - apply Hs' in H; [| discriminate]. eapply (a_send _ _ A); eauto.
  - destruct (a_entry _ _ A _ _ _ _ H) as [B1 [B2 B4]]. repeat split; auto. intros k Hk. rewrite ?K, ?El. auto.
  - unfold F. rewrite Ef by discriminate. apply (a_1pcts _ _ A).
  - eapply (a_lam _ _ A); eauto.
  - apply (a_cnt _ _ A).
  - apply (a_commit _ _ A _ _ H).
  - apply En. eapply (a_rb _ _ A); eauto.
  - apply Hs' in H; [| discriminate]. apply (a_cmsent _ _ A _ _ _ H).
  - eapply (a_rsk _ _ A); eauto.
  - destruct (a_rsa _ _ A _ H) as [B1 B2]. split; auto.
  - apply (a_ctsl _ _ A _ _ _ _ _ H).
  - destruct (a_csll _ _ A _ _ _ H) as [B1 B2]. split; auto. intros k M Hk. rewrite El. auto.
  - destruct (a_cslc _ _ A _ _ _ H) as [B1 B2]. split; auto.
  - apply Hs' in H; [| discriminate]. eapply (a_cslsent _ _ A); eauto.
  - unfold pwok in *. rewrite E5 in H0. destruct (a_minc _ _ A _ H H0) as [m [B1 B2]]. exists m. rewrite ?K, ?El. auto.
  - destruct (a_minc2 _ _ A) as [B | [k [B1 B2]]]; [left; auto | right; exists k; rewrite ?K, ?El; auto].
Qed.

Lemma asyncm_cp : forall s T, asyncm s T -> commit_point_pw (getc s T) = true /\ async_kept (getc s T) = true /\ fb (getc s T) FHasm = true.
Proof.
  intros s T [H0 [H1 [H2 [H3 H4]]]]. unfold commit_point_pw, async_kept, hasm, F in *.
  apply fb_true in H1. rewrite H1. rewrite (proj2 (fb_false _ _) H3). repeat split; auto. apply fb_true. auto.
Qed.

Lemma asyncm_cpa : forall s T, asyncm s T -> cp_active (getc s T) = true.
Proof. intros s T Am. destruct (asyncm_cp _ _ Am) as [_ [H _]]. unfold cp_active. rewrite H. reflexivity. Qed.

Lemma ainv_rb_send : forall s s' r T ks, Linv s -> stepr s (ERbSend r T ks) = Ok s' -> asyncm s T -> ainv s T -> ainv s' T.
Proof.
  intros s s' r T ks HL H Am A. pose proof (HL T) as L. pose proof (asyncm_cpa _ _ Am) as Hcp. pose proof (proj1 Am) as Hm.
  cbn [stepr] in H. unfold step_rb_send in H. chks H. okinv H.
  apply andb_true_iff in C0. destruct C0 as [_ C0]. rewrite Hcp in C0. cbn [negb orb] in C0.
  destruct (err_ok_closed_a _ _ L A Hm C0) as [k0 [K1 [K2 K3]]].
  apply (ainv_flags s _ T L A); try reflexivity; rd; try reflexivity.
  - intros x Hx. destruct Hx as [Hx | Hx]; [right; eauto | left; auto].
  - intros f Hf1 Hf2. rewrite cn_setn_ne; auto.
  - intros. rd. discriminate.
  - intros _. exists k0. unfold lm, lamk, kc, F. rd. repeat split; auto.
    destruct K3 as [K3 | [K3 K4]]; [left; auto | right]. repeat split; auto. right. discriminate.
  - intros Ht. unfold F in Ht. rd. exfalso. destruct (a_told _ _ A Ht) as [S _]. apply (S k0 K1). auto.
Qed.

Lemma ainv_told : forall s s' T x, Inv s -> Linv s -> stepr s (ETold T x) = Ok s' -> asyncm s T -> ainv s T -> ainv s' T.
Proof.
  intros s s' T x HI HL H Am A. destruct (HI T) as [G _]. pose proof (HL T) as L.
  destruct (asyncm_cp _ _ Am) as [_ [Hak Hh]]. pose proof (asyncm_cpa _ _ Am) as Hcp. pose proof (proj1 Am) as Hm.
  cbn [stepr] in H. unfold step_told in H. chks H. b2p.
  assert (NoRb : forall r ks, In (ERbSend r T ks) (s_sent s) -> NSa s T) by (intros; apply (a_dead _ _ A); right; eauto).
  destruct x; chks H; okinv H.
  - (* ok *)
    rewrite Hak in C1. cbn [negb orb] in C1.
    apply (ainv_flags s _ T L A); try reflexivity; rd; try reflexivity; auto.
    + intros f Hf1 Hf2. rewrite cn_setn_ne; auto.
    + intros. congruence.
    + intros [Ht | [r [ks Hr]]]; [unfold F in Ht; rd; discriminate |].
      destruct (NoRb _ _ Hr) as [k0 [K1 [K2 K3]]]. exists k0. unfold lm, lamk, kc, F in *. rd. repeat split; auto.
      destruct K3 as [K3 | [K3 [K4 K5]]]; [left; auto | right]. repeat split; auto. left. discriminate.
    + intros _. split.
      * (* sealed *)
        match goal with Hx : negb (cn _ FPcOk =? 0) || _ || _ || _ = true |- _ => rename Hx into CR end.
        apply orb_true_iff in CR. destruct CR as [CR | CD]; [| exfalso; b2p; unfold hasm, F in Hm; congruence].
        apply orb_true_iff in CR. destruct CR as [CR | CR]; [apply orb_true_iff in CR; destruct CR as [CR | CR] |]; b2p.
        all: try (exfalso; apply CR; apply (a_1pcts _ _ A)).
        all: try (pose proof (l_pcok _ _ L Hm CR) as E; destruct (a_commit _ _ A _ _ E) as [S _];
                  unfold Sealed, lm, lamk in *; rd; auto; fail).
        all: intros k Hk; unfold lm, lamk in *; rd;
           assert (Hp : In k (pwok s T)) by (unfold pwok; eapply subset_In; eauto);
           destruct (a_minc _ _ A _ Hk Hp) as [m [_ [E | E]]]; [unfold lamk, lam in *; cbn [c_lam setn] in *; congruence |];
           destruct (a_commit _ _ A _ _ E) as [S _]; apply (S k Hk).
      * intros k Hk. unfold call, kc in *. rd. unfold pw_closed in C1. pose proof (forallb_In _ _ _ C1 Hk) as B. apply N.eqb_eq in B. auto.
  - (* undetermined *)
    apply (ainv_flags s _ T L A); try reflexivity; rd; try reflexivity; auto.
    + intros f Hf1 Hf2. rewrite !cn_setn_ne; auto.
    + intros. congruence.
    + intros. discriminate.
    + intros [Ht | [r [ks Hr]]]; [unfold F in Ht; rd; discriminate |].
      destruct (NoRb _ _ Hr) as [k0 [K1 [K2 K3]]]. exists k0. unfold lm, lamk, kc, F in *. rd. repeat split; auto.
      destruct K3 as [K3 | [K3 [K4 K5]]]; [left; auto | right]. repeat split; auto. left. discriminate.
    + intros Ht. unfold F in Ht. rd. discriminate.
  - (* definite error *)
    apply andb_true_iff in C1. destruct C1 as [C1 _]. apply andb_true_iff in C1. destruct C1 as [_ C1].
    rewrite Hcp in C1. cbn [negb orb] in C1. destruct (err_ok_closed_a _ _ L A Hm C1) as [k0 [K1 [K2 K3]]].
    apply (ainv_flags s _ T L A); try reflexivity; rd; try reflexivity; auto.
    + intros f Hf1 Hf2. rewrite !cn_setn_ne; auto.
    + intros. congruence.
    + intros. discriminate.
    + intros _. exists k0. unfold lm, lamk, kc, F. rd. repeat split; auto.
      destruct K3 as [K3 | [K3 K4]]; [left; auto | right]. repeat split; auto. left. discriminate.
    + intros Ht. unfold F in Ht. rd. discriminate.
Qed.
