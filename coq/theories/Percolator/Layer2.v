(* Percolator/Layer2.v — second invariant layer, general part: how the abstract store can evolve
   outside prewrite deliveries (kevo), the ghost min-commit map and the per-key prewrite accounting. *)
From Verif Require Export Percolator.Atomic.

(* evolution of a key outside prewrite deliveries: a lock is committed or rolled back, an unlocked
   key gets a rollback marker; nothing else *)
Definition kevo (v v' : kstate) : Prop :=
  v' = v \/ (exists m, v = Locked m /\ exists c, v' = Committed c) \/
  (exists m, v = Locked m /\ v' = RolledBack) \/ (v = Unlocked /\ v' = RolledBack).
Lemma kevo_refl : forall v, kevo v v. Proof. left. auto. Qed.
Lemma kevo_trans : forall a b c, kevo a b -> kevo b c -> kevo a c.
Proof.
  unfold kevo. intros a b c H1 H2.
  destruct H1 as [-> | [[m [-> [c1 ->]]] | [[m [-> ->]] | [-> ->]]]]; auto.
  - destruct H2 as [-> | [[m' [E _]] | [[m' [E _]] | [E _]]]]; try discriminate. right. left. eauto.
  - destruct H2 as [-> | [[m' [E _]] | [[m' [E _]] | [E _]]]]; try discriminate. right. right. left. eauto.
  - destruct H2 as [-> | [[m' [E _]] | [[m' [E _]] | [E _]]]]; try discriminate. right. right. right. auto.
Qed.
Lemma kevo_locked : forall v m, kevo v (Locked m) -> v = Locked m.
Proof. intros v m [H | [[m' [_ [c H]]] | [[m' [_ H]] | [_ H]]]]; auto; discriminate. Qed.
Lemma kevo_committed : forall v c, kevo v (Committed c) -> v = Committed c \/ exists m, v = Locked m.
Proof. intros v c [H | [[m' [H _]] | [[m' [_ H]] | [_ H]]]]; eauto; discriminate. Qed.
Lemma kevo_unlocked : forall v, kevo v Unlocked -> v = Unlocked.
Proof. intros v [H | [[m' [_ [c H]]] | [[m' [_ H]] | [_ H]]]]; auto; discriminate. Qed.

Definition tr_evo (tr : kstate -> option kstate) : Prop :=
  (forall v v', tr v = Some v' -> kevo v v') /\
  (forall m c v', tr (Locked m) = None -> tr (alt_of c) = Some v' -> kevo (Locked m) v').
Ltac evo_tac :=
  split; [ intros v0 v0' H; destruct v0; cbn in H;
           repeat match type of H with context [if ?b then _ else _] => destruct b eqn:? end;
           inversion H; subst; clear H; unfold kevo; eauto 8
         | intros ? ? ? H0 H1; try discriminate H0 ].
Lemma tr_cm_evo : forall c, tr_evo (tr_cm c). Proof. intros c. evo_tac. Qed.
Lemma tr_push_evo : forall m, tr_evo (tr_push m). Proof. intros m. split; [intros v v' H; inversion H; apply kevo_refl | intros ? ? ? H0; discriminate H0]. Qed.
Lemma tr_rb_evo : tr_evo tr_rb. Proof. evo_tac. Qed.
Lemma tr_rs_evo : forall c, tr_evo (tr_rs c).
Proof.
  intros c. split; [| intros ? ? ? H0; discriminate H0]. intros v v' H. destruct v; cbn in H; inversion H; try apply kevo_refl.
  destruct (alt_of_final c) as [E | E]; rewrite E; unfold kevo; eauto 8.
Qed.
Lemma tr_cts_committed_evo : forall c, tr_evo (tr_cts_committed c).
Proof.
  intros c. split.
  - intros v v' H. apply tr_cts_committed_res in H. destruct H as [-> ->]. apply kevo_refl.
  - intros m c0 v' _ H. apply tr_cts_committed_res in H. destruct H as [-> _]. unfold kevo. eauto 8.
Qed.
Lemma tr_cts_locked_evo : forall m, tr_evo (tr_cts_locked m). Proof. intros m. evo_tac. Qed.
Lemma tr_csl_lock_evo : forall m, tr_evo (tr_csl_lock m). Proof. intros m. evo_tac. Qed.
Lemma tr_csl_rb_evo : tr_evo tr_csl_rb. Proof. evo_tac. Qed.

Definition kevos (s s' : sys) : Prop := forall T k, kevo (kget s T k) (kget s' T k).
Lemma kevos_refl : forall s, kevos s s. Proof. intros s T k. apply kevo_refl. Qed.
Section KE.
  Variables (s x : sys).
  Hypothesis K : kevos s x.
  Lemma ke_setc : forall T c, kevos s (setc x T c). Proof. intros T c T' k. apply (K T' k). Qed.
  Lemma ke_add_sent : forall e, kevos s (add_sent x e). Proof. intros e T' k. apply (K T' k). Qed.
  Lemma ke_add_dlv : forall e, kevos s (add_dlv x e). Proof. intros e T' k. apply (K T' k). Qed.
  Lemma ke_w_cts : forall v, kevos s (w_cts x v). Proof. intros v T' k. apply (K T' k). Qed.
  Lemma ke_w_rs : forall v, kevos s (w_rs x v). Proof. intros v T' k. apply (K T' k). Qed.
  Lemma ke_w_wr : forall v, kevos s (w_wr x v). Proof. intros v T' k. apply (K T' k). Qed.
  Lemma ke_w_tso : forall v, kevos s (w_tso x v). Proof. intros v T' k. apply (K T' k). Qed.
  Lemma ke_w_own : forall v, kevos s (w_own x v). Proof. intros v T' k. apply (K T' k). Qed.
  Lemma ke_w_crashed : forall v, kevos s (w_crashed x v). Proof. intros v T' k. apply (K T' k). Qed.
  Lemma ke_w_csl : forall v, kevos s (w_csl x v). Proof. intros v T' k. apply (K T' k). Qed.
  Lemma ke_w_seen : forall v, kevos s (w_seen x v). Proof. intros v T' k. apply (K T' k). Qed.
  Lemma ke_w_gc : forall v, kevos s (w_gc x v). Proof. intros v T' k. apply (K T' k). Qed.
  Lemma ke_step_keys : forall T ks tr y, tr_evo tr -> step_keys x T ks tr = Some y -> kevos s y.
  Proof.
    intros T ks tr y [H1 H2] E T' k. eapply kevo_trans; [apply (K T' k) |].
    eapply (step_keys_rel kevo kevo_refl kevo_trans tr H1 H2); eauto.
  Qed.
  Lemma ke_step_key : forall T k0 tr y, tr_evo tr -> step_key x T k0 tr = Some y -> kevos s y.
  Proof.
    intros T k0 tr y [H1 H2] E T' k. eapply kevo_trans; [apply (K T' k) |].
    eapply (step_key_rel kevo kevo_refl tr H1 H2); eauto.
  Qed.
End KE.

Lemma step_csl_locks_kevos : forall l x T y, step_csl_locks x T l = Some y -> kevos x y.
Proof.
  induction l as [| [k m] l IH]; intros x T y E; cbn [step_csl_locks] in E.
  - inversion E. apply kevos_refl.
  - destruct (step_key x T k (tr_csl_lock m)) as [x1 |] eqn:E1; try discriminate.
    intros T' k'. eapply kevo_trans; [| apply (IH _ _ _ E T' k')].
    apply (ke_step_key x x (kevos_refl x) T k (tr_csl_lock m) x1 (tr_csl_lock_evo m) E1 T' k').
Qed.
Lemma ke_step_csl : forall s x T l y, kevos s x -> step_csl_locks x T l = Some y -> kevos s y.
Proof. intros s x T l y K E T' k. eapply kevo_trans; [apply (K T' k) | apply (step_csl_locks_kevos _ _ _ _ E T' k)]. Qed.


Ltac ke_tac :=
  repeat first [ apply kevos_refl | apply ke_setc | apply ke_add_sent | apply ke_add_dlv | apply ke_w_cts | apply ke_w_rs
               | apply ke_w_wr | apply ke_w_tso | apply ke_w_own | apply ke_w_crashed | apply ke_w_csl | apply ke_w_seen | apply ke_w_gc
               | match goal with
                 | E : step_keys _ _ _ _ = Some ?y |- kevos _ ?y =>
                     eapply ke_step_keys; [| | exact E];
                     [| first [apply tr_cm_evo | apply tr_rb_evo | apply tr_rs_evo | apply tr_push_evo | apply tr_csl_rb_evo ]]
                 | E : step_key _ _ _ _ = Some ?y |- kevos _ ?y =>
                     eapply ke_step_key; [| | exact E];
                     [| first [apply tr_cts_committed_evo | apply tr_rb_evo | apply tr_cts_locked_evo ]]
                 | E : step_csl_locks _ _ _ = Some ?y |- kevos _ ?y => eapply ke_step_csl; [| exact E]
                 end ].

Definition npw (e : event) : bool := match e with EPwDeliver _ _ _ _ => false | _ => true end.

(* outside prewrite deliveries the store evolves by kevo *)
Lemma stepr_kevos : forall s e s', npw e = true -> stepr s e = Ok s' -> kevos s s'.
Proof.
  intros s e s' Hn H. destruct_event e; cbn [npw] in Hn; try discriminate Hn; cbn [stepr] in H.
  - chks H. okinv H. ke_tac.
  - chks H. okinv H. ke_tac.
  - chks H. okinv H. ke_tac.
  - chks H. okinv H. ke_tac.
  - unfold step_pw_send in H. chks H. okinv H. ke_tac.
  - unfold step_pw_reply in H. chks H. okinv H. ke_tac.
  - unfold step_cm_send in H. chks H.
    destruct (fb (getc s T) FHasm); chks H; [destruct (mem _ ks); chks H |]; okinv H; ke_tac.
  - unfold step_cm_deliver in H. chks H.
    destruct x; chks H; try (destruct (step_keys _ _ _ _) eqn:E; try discriminate);
      destruct (has_prim (getc s T) ks); okinv H; ke_tac.
  - unfold step_cm_reply in H. chks H. destruct (has_prim (getc s T) ks); [| okinv H; ke_tac].
    destruct x; chks H; okinv H; ke_tac.
  - unfold step_rb_send in H. chks H. okinv H. ke_tac.
  - unfold step_rb_deliver in H. chks H. destruct x; try (okinv H; ke_tac).
    destruct (step_keys _ _ _ _) eqn:E; try discriminate. okinv H. ke_tac.
  - unfold plain_reply in H. chks H. okinv H. ke_tac.
  - chks H. okinv H. destruct (fb (getc s T) FPlAny); ke_tac.
  - chks H. okinv H. ke_tac.
  - unfold plain_reply in H. chks H. okinv H. ke_tac.
  - unfold plain_send in H. chks H. okinv H. ke_tac.
  - chks H. okinv H. ke_tac.
  - unfold plain_reply in H. chks H. okinv H. ke_tac.
  - unfold step_cts_send in H. chks H. okinv H. ke_tac.
  - unfold step_cts_deliver in H. chks H. destruct st; chks H; try (okinv H; ke_tac);
      try match type of H with context [if ?b then setc _ _ _ else _] => destruct b end;
      (destruct (step_key _ _ _ _) eqn:E; try discriminate; okinv H; ke_tac).
  - chks H. okinv H. ke_tac.
  - chks H. okinv H. ke_tac.
  - unfold step_csl_deliver in H. chks H. destruct st; chks H; try (okinv H; ke_tac).
    + destruct (step_csl_locks _ _ _) eqn:E; try discriminate. okinv H. ke_tac.
    + destruct (c =? 0); chks H; [destruct (step_keys _ _ _ _) eqn:E; try discriminate |]; okinv H; ke_tac.
  - chks H. okinv H. ke_tac.
  - unfold step_rs_send in H. chks H. destruct (just_cts s r T c); chks H; okinv H; ke_tac.
  - unfold step_rs_deliver in H. chks H. destruct x; try (okinv H; ke_tac).
    destruct ks; [okinv H; ke_tac |]. destruct (step_keys _ _ _ _) eqn:E; try discriminate. okinv H. ke_tac.
  - unfold plain_reply in H. chks H. okinv H. ke_tac.
  - unfold step_hb_send in H. chks H. okinv H. ke_tac.
  - chks H. okinv H. ke_tac.
  - okinv H. ke_tac.
  - unfold step_told in H. chks H. destruct x; chks H; okinv H; ke_tac.
  - okinv H. ke_tac.
  - okinv H. ke_tac.
  - okinv H. ke_tac.
  - okinv H. ke_tac.
Qed.

(* ---------------- which events touch the prewrite bookkeeping of a transaction ---------------- *)
Definition modef (f : fld) : bool :=
  match f with
  | FHasm | FPrim | FTriedA | FTried1 | FFb | FFb1 | FStFb | FMinc | F1pcTs | FTold | FDead | FPwSent => true
  | _ => false
  end.
Record same_acct (c c' : crec) : Prop := {
  sa_kl : c_kl c' = c_kl c; sa_lam : c_lam c' = c_lam c; sa_lm : c_lm c' = c_lm c; sa_all : c_all c' = c_all c;
  sa_pwok : c_pwok c' = c_pwok c; sa_f : forall f, modef f = true -> cn c' f = cn c f }.
Lemma same_acct_refl : forall c, same_acct c c. Proof. intros. constructor; auto. Qed.
Definition quiet (e : event) : bool :=
  match e with
  | EMutations _ _ _ | EPwSend _ _ _ _ _ _ _ _ _ | EPwDeliver _ _ _ _ | EPwReply _ _ _ _ | ETold _ _ | ERbSend _ _ _
  | ECtsDeliver _ _ _ _ => false
  | _ => true
  end.

Ltac sa_tac := constructor; rd; try reflexivity; intros f0 Hf0; destruct f0; try discriminate Hf0; rd; reflexivity.

Lemma stepr_quiet : forall s e s' T0, quiet e = true -> stepr s e = Ok s' -> same_acct (getc s T0) (getc s' T0).
Proof.
  intros s e s' T0 Hq H.
  destruct (option_map (N.eqb T0) (txn_of e)) as [[|] |] eqn:Et.
  2: { assert (A : getc s' T0 = getc s T0); [| rewrite A; apply same_acct_refl].
       assert (Hne : txn_of e <> Some T0) by (intros E'; rewrite E' in Et; cbn in Et; rewrite N.eqb_refl in Et; discriminate).
       clear Et. destruct_event e; cbn [txn_of] in Hne; cbn [stepr] in H;
         unfold step_pw_send, step_pw_deliver, step_pw_reply, step_cm_send, step_cm_deliver, step_cm_reply, step_rb_send,
           step_rb_deliver, step_cts_send, step_cts_deliver, step_csl_deliver, step_rs_send, step_rs_deliver, step_hb_send,
           step_told, plain_send, plain_reply in H; chks H.
       all: repeat match type of H with
              | (match ?d with _ => _ end) = Ok _ => destruct d eqn:?; chks H; try discriminate H
              | (if ?d then _ else _) = Ok _ => destruct d eqn:?; chks H; try discriminate H
              end.
       all: try (okinv H).
       all: repeat match goal with |- context [match ?d with _ => _ end] => is_var d; destruct d eqn:? end.
       all: repeat match goal with |- context [if ?d then _ else _] => destruct d eqn:? end.
       all: repeat (first [ rewrite getc_setc_ne by congruence | progress getc_keys | progress rd
                          | match goal with |- context [if ?d then _ else _] => destruct d eqn:? end ]); reflexivity. }
  2: { assert (A : getc s' T0 = getc s T0); [| rewrite A; apply same_acct_refl].
       destruct_event e; cbn [txn_of option_map] in Et; try discriminate Et; cbn [stepr] in H; chks H; okinv H; reflexivity. }
  destruct (txn_of e) as [T1 |] eqn:Et'; cbn [option_map] in Et; inversion Et as [Et1]. apply N.eqb_eq in Et1. subst T1.
  destruct_event e; cbn [quiet] in Hq; try discriminate Hq; cbn [txn_of] in Et'; inversion Et'; subst; cbn [stepr] in H;
    unfold step_cm_send, step_cm_deliver, step_cm_reply, step_rb_deliver, step_cts_send, step_csl_deliver, step_rs_send,
           step_rs_deliver, step_hb_send, plain_send, plain_reply in H;
    chks H.
  all: repeat match type of H with
              | (match ?d with _ => _ end) = Ok _ => destruct d eqn:?; chks H; try discriminate H
              | (if ?d then _ else _) = Ok _ => destruct d eqn:?; chks H; try discriminate H
              end.
  all: try (okinv H).
  all: repeat match goal with |- context [match ?d with _ => _ end] => is_var d; destruct d eqn:? end.
  all: repeat match goal with |- context [if ?d then _ else _] => destruct d eqn:? end.
  all: getc_keys; sa_tac.
Qed.

Definition reply_of (e : event) : option event :=
  match e with
  | EPwDeliver r T ks x => Some (EPwReply r T ks x)
  | ECmDeliver r T c ks x => Some (ECmReply r T c ks x)
  | ERbDeliver r T ks x => Some (ERbReply r T ks x)
  | EPlDeliver r T f ks x => Some (EPlReply r T f ks x)
  | EPrDeliver r T f ks x => Some (EPrReply r T f ks x)
  | ECtsDeliver r T p st => Some (ECtsReply r T p st)
  | ECslDeliver r T ks st => Some (ECslReply r T ks st)
  | ERsDeliver r T c ks x => Some (ERsReply r T c ks x)
  | _ => None
  end.

Lemma step_keys_lists : forall ks x T tr y, step_keys x T ks tr = Some y ->
  s_sent y = s_sent x /\ s_dlv y = s_dlv x /\ s_cts y = s_cts x /\ s_csl y = s_csl x /\ s_rs y = s_rs x /\ s_wr y = s_wr x.
Proof. intros ks x T tr y E. apply step_keys_sbk in E. rewrite E. repeat split; reflexivity. Qed.
Lemma step_key_lists : forall k x T tr y, step_key x T k tr = Some y ->
  s_sent y = s_sent x /\ s_dlv y = s_dlv x /\ s_cts y = s_cts x /\ s_csl y = s_csl x /\ s_rs y = s_rs x /\ s_wr y = s_wr x.
Proof. intros k x T tr y E. apply step_key_sbk in E. rewrite E. repeat split; reflexivity. Qed.
Lemma step_csl_lists : forall l x T y, step_csl_locks x T l = Some y ->
  s_sent y = s_sent x /\ s_dlv y = s_dlv x /\ s_cts y = s_cts x /\ s_csl y = s_csl x /\ s_rs y = s_rs x /\ s_wr y = s_wr x.
Proof. intros l x T y E. apply step_csl_locks_char in E. destruct E as [E _]. rewrite E. repeat split; reflexivity. Qed.

Ltac lists_keys :=
  repeat match goal with
         | E : step_keys _ _ _ _ = Some ?y |- _ =>
             let L := fresh "L" in pose proof (step_keys_lists _ _ _ _ _ E) as L; destruct L as [? [? [? [? [? ?]]]]]; clear E
         | E : step_key _ _ _ _ = Some ?y |- _ =>
             let L := fresh "L" in pose proof (step_key_lists _ _ _ _ _ E) as L; destruct L as [? [? [? [? [? ?]]]]]; clear E
         | E : step_csl_locks _ _ _ = Some ?y |- _ =>
             let L := fresh "L" in pose proof (step_csl_lists _ _ _ _ E) as L; destruct L as [? [? [? [? [? ?]]]]]; clear E
         end.

(* how the message sets grow in one step *)
Lemma stepr_lists : forall s e s', stepr s e = Ok s' ->
  (s_sent s' = s_sent s \/ s_sent s' = e :: s_sent s) /\
  (s_dlv s' = s_dlv s \/ exists e', reply_of e = Some e' /\ s_dlv s' = e' :: s_dlv s) /\
  (s_cts s' = s_cts s \/ ((exists r T p st, e = ECtsReply r T p st) /\ s_cts s' = e :: s_cts s)) /\
  (s_csl s' = s_csl s \/ ((exists r T ks st, e = ECslReply r T ks st) /\ s_csl s' = e :: s_csl s)) /\
  (s_rs s' = s_rs s \/ exists r T c ks j, e = ERsSend r T c ks /\ s_rs s' = (T, c, j) :: s_rs s) /\
  (s_wr s' = s_wr s \/ exists r T c, e = ERsDeliver r T c [] GOk /\ s_wr s' = (T, c) :: s_wr s).
Proof.
  intros s e s' H. destruct_event e; cbn [stepr] in H;
    unfold step_pw_send, step_pw_deliver, step_pw_reply, step_cm_send, step_cm_deliver, step_cm_reply, step_rb_send,
           step_rb_deliver, step_cts_send, step_cts_deliver, step_csl_deliver, step_rs_send, step_rs_deliver, step_hb_send,
           step_told, plain_send, plain_reply in H; chks H.
  all: repeat match type of H with
              | (match ?d with _ => _ end) = Ok _ => destruct d eqn:?; chks H; try discriminate H
              | (if ?d then _ else _) = Ok _ => destruct d eqn:?; chks H; try discriminate H
              end.
  all: try (okinv H).
  all: repeat match goal with H0 : context [if ?d then setc _ _ _ else _] |- _ => destruct d eqn:? end.
  all: lists_keys; sproj.
  all: repeat match goal with |- context [if ?d then _ else _] => destruct d eqn:? end; sproj.
  all: repeat match goal with Hx : _ = _ |- _ => rewrite Hx end; sproj.
  all: cbn [reply_of]; repeat split; try (left; reflexivity); right; eauto 12.
Qed.
