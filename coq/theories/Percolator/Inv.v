(* Percolator/Inv.v — the invariants (J1–J6 of docs/DESIGN_ROUND1.md, Appendix B, adapted to System.v's state)
   and their consequences. Preservation is proved in OwnA.v, OwnB.v, Deliver*.v and assembled in Proofs.v. *)
From Verif Require Export Percolator.Basics.

Definition F (s : sys) (T : N) (f : fld) : N := cn (getc s T) f.
Definition hasm (s : sys) (T : N) : Prop := F s T FHasm <> 0.
Definition prim (s : sys) (T : N) : N := F s T FPrim.
Definition lm (s : sys) (T : N) : list N := c_lm (getc s T).
Definition pwok (s : sys) (T : N) : list N := c_pwok (getc s T).
(* classic two-phase commit: never tried async commit / 1PC, no resolve justified by the async fold *)
Definition classic (s : sys) (T : N) : Prop :=
  F s T FTriedA = 0 /\ F s T FTried1 = 0 /\ (forall c, ~ In (T, c, JAsync) (s_rs s)).
Definition pwdlv (s : sys) (T k : N) : Prop :=
  exists r ks m o, In (EPwReply r T ks (PwOk m o)) (s_dlv s) /\ In k ks.
Definition some_rb (s : sys) (T : N) : Prop := exists k, In k (lm s T) /\ kget s T k = RolledBack.
(* a locked mutation was rolled back before any prewrite reached it: the commit phase is unreachable *)
Definition NS (s : sys) (T : N) : Prop :=
  exists k, In k (lm s T) /\ kget s T k = RolledBack /\ ~ pwdlv s T k.
Definition closed (s : sys) (T : N) : Prop := F s T FDead <> 0 /\ F s T FPcNeg = F s T FPcSent.
(* "the primary can never be committed" *)
Definition Dd (s : sys) (T : N) : Prop := kget s T (prim s T) = RolledBack \/ closed s T \/ NS s T.
(* what the owner knows when it cleans up / answers a definite error (J5) *)
Definition Dn (s : sys) (T : N) : Prop :=
  F s T FDead <> 0 /\ (F s T FPcNeg = F s T FPcSent \/ some_rb s T).

(* ---- invariants that hold for every transaction T ---- *)
Record ginv (s : sys) (T : N) : Prop := {
  g_pw : forall r ks m o k, In (EPwReply r T ks (PwOk m o)) (s_dlv s) -> In k ks -> kget s T k <> Unlocked;
  g_cm : forall r c ks k, In (ECmReply r T c ks CmOk) (s_dlv s) -> In k ks -> kget s T k = Committed c;
  g_cts_c : forall r p c, In (ECtsReply r T p (StCommitted c)) (s_dlv s) -> kget s T p = Committed c;
  g_cts_r : forall r p, In (ECtsReply r T p StRolledBack) (s_dlv s) -> kget s T p = RolledBack;
  g_cts_sub : forall r p st, In (ECtsReply r T p st) (s_cts s) -> In (ECtsReply r T p st) (s_dlv s);
  g_rs : forall c p, In (T, c, JKey p) (s_rs s) -> kget s T p = alt_of c;          (* J3, J4 *)
  g_rs_sent : forall r c ks, In (ERsSend r T c ks) (s_sent s) -> exists j, In (T, c, j) (s_rs s);
  g_wr : forall c, In (T, c) (s_wr s) -> exists j, In (T, c, j) (s_rs s);
  g_cm_sent : forall r c ks x, In (ECmReply r T c ks x) (s_dlv s) -> In (ECmSend r T c ks) (s_sent s);
  g_pw_sent : forall r ks x, In (EPwReply r T ks x) (s_dlv s) ->
              exists p a o m f secs, In (EPwSend r T p ks a o m f secs) (s_sent s);
  g_pwsent_cnt : forall r p ks a o m f secs, In (EPwSend r T p ks a o m f secs) (s_sent s) -> F s T FPwSent <> 0;
  g_1pc_sent : forall r p ks a m f secs, In (EPwSend r T p ks a true m f secs) (s_sent s) -> F s T FTried1 <> 0;
  g_1pc : forall r ks m o, In (EPwReply r T ks (PwOk m o)) (s_dlv s) -> o <> 0 -> F s T FTried1 <> 0;
  g_kst_fresh : forall k, F s T FPwSent = 0 -> kget s T k = Unlocked \/ kget s T k = RolledBack;
  g_cmsent_p : forall r c ks, In (ECmSend r T c ks) (s_sent s) ->
               F s T FPcSent <> 0 \/ (hasm s T /\ ~ In (prim s T) ks);
  g_fresh_cnt : ~ hasm s T ->
               F s T FPcDlv = 0 /\ F s T FPcOkd = 0 /\ F s T FPcFaild = 0 /\ F s T FPcNeg = 0 /\
               F s T FPcRep = 0 /\ F s T FPcOk = 0 /\ F s T FPcRb = 0;
  g_rb_dead : forall r ks, In (ERbSend r T ks) (s_sent s) -> F s T FDead <> 0;
  g_pwok : forall k, In k (pwok s T) -> pwdlv s T k;
  g_told_dead : F s T FTold = 2 \/ F s T FTold = 3 -> F s T FDead <> 0;
  g_1pcts : F s T F1pcTs <> 0 -> F s T FTried1 <> 0;
  g_async_cts : forall r p ttl m secs, In (ECtsReply r T p (StLocked ttl m true secs)) (s_dlv s) -> F s T FTriedA <> 0;
  g_jasync : forall c, In (T, c, JAsync) (s_rs s) -> F s T FTriedA <> 0
}.

(* ---- invariants of a classic transaction whose mutations are known ---- *)
Record tinv (s : sys) (T : N) : Prop := {
  t_prim_lm : In (prim s T) (lm s T);
  t_cnt : F s T FPcNeg <= F s T FPcFaild /\ F s T FPcFaild + F s T FPcOkd = F s T FPcDlv /\ F s T FPcDlv <= F s T FPcSent;
  t_pwok : F s T FPcSent <> 0 -> forall k, In k (lm s T) -> In k (pwok s T);
  t_cmsent : forall r c ks, In (ECmSend r T c ks) (s_sent s) ->
             (forall k, In k ks -> In k (lm s T)) /\ (~ In (prim s T) ks -> kget s T (prim s T) = Committed c);   (* J2 *)
  t_okd : forall r c ks, In (ECmReply r T c ks CmOk) (s_dlv s) -> In (prim s T) ks -> F s T FPcOkd <> 0;
  t_pcok : F s T FPcOk <> 0 -> kget s T (prim s T) = Committed (F s T FPcOk);
  t_rs_p : forall c p, In (T, c, JKey p) (s_rs s) -> p = prim s T;
  t_one : forall k c, kget s T k = Committed c -> kget s T (prim s T) = Committed c;
  t_pcommit : forall c, kget s T (prim s T) = Committed c -> F s T FPcOkd <> 0;                              (* J1 *)
  t_gone : forall r c ks, In (ECmReply r T c ks CmGone) (s_dlv s) -> In (prim s T) ks -> some_rb s T;
  t_rbflag : F s T FPcRb <> 0 -> some_rb s T;
  t_rb_sent : forall r ks, In (ERbSend r T ks) (s_sent s) -> Dn s T;                                          (* J5 *)
  t_told_err : F s T FTold = 3 -> Dn s T;
  t_rb_dead : forall k, In k (lm s T) -> kget s T k = RolledBack -> Dd s T;
  t_told_ok : F s T FTold = 1 -> exists c, kget s T (prim s T) = Committed c
}.

(* classic = the owner never tried async commit / 1PC; a resolve derived from the CheckSecondaryLocks
   fold then cannot exist (g_jasync) *)
Lemma classic_flags : forall s T, ginv s T -> (classic s T <-> F s T FTriedA = 0 /\ F s T FTried1 = 0).
Proof.
  intros s T G. unfold classic. split; [tauto |]. intros [A B]. repeat split; auto.
  intros c Hc. apply (g_jasync _ _ G) in Hc. contradiction.
Qed.

Definition Inv (s : sys) : Prop := forall T, ginv s T /\ (hasm s T -> classic s T -> tinv s T).

(* ---------------- consequences ---------------- *)
Lemma pwdlv_not_unlocked : forall s T k, ginv s T -> pwdlv s T k -> kget s T k <> Unlocked.
Proof. intros s T k G [r [ks [m [o [H1 H2]]]]]. eapply g_pw; eauto. Qed.

Lemma Dd_not_committed : forall s T c, ginv s T -> tinv s T -> Dd s T -> kget s T (prim s T) <> Committed c.
Proof.
  intros s T c G I [H | [[H1 H2] | [k [H1 [H2 H3]]]]] HC.
  - rewrite H in HC. discriminate.
  - apply (t_pcommit _ _ I) in HC. destruct (t_cnt _ _ I) as [A [B C]]. lia.
  - pose proof (t_pcommit _ _ I _ HC) as HO. destruct (t_cnt _ _ I) as [A [B C]].
    assert (HS : F s T FPcSent <> 0) by lia.
    apply H3. apply (g_pwok _ _ G). apply (t_pwok _ _ I HS). auto.
Qed.

Lemma Dn_Dd : forall s T, tinv s T -> Dn s T -> Dd s T.
Proof.
  intros s T I [H1 [H2 | [k [H2 H3]]]].
  - right. left. split; auto.
  - eapply t_rb_dead; eauto.
Qed.

(* C02 (i) one commit timestamp; (ii) never one key committed and a locked mutation rolled back *)
Lemma one_commit_ts : forall s T k1 k2 c1 c2, tinv s T ->
  kget s T k1 = Committed c1 -> kget s T k2 = Committed c2 -> c1 = c2.
Proof.
  intros s T k1 k2 c1 c2 I H1 H2. apply (t_one _ _ I) in H1. apply (t_one _ _ I) in H2. congruence.
Qed.
Lemma all_or_nothing : forall s T k1 k2 c, ginv s T -> tinv s T ->
  kget s T k1 = Committed c -> In k2 (lm s T) -> kget s T k2 = RolledBack -> False.
Proof.
  intros s T k1 k2 c G I H1 H2 H3. apply (t_one _ _ I) in H1.
  eapply Dd_not_committed; eauto. eapply t_rb_dead; eauto.
Qed.
Lemma told_err_never_committed : forall s T k c, ginv s T -> tinv s T -> F s T FTold = 3 -> kget s T k <> Committed c.
Proof.
  intros s T k c G I H HC. apply (t_one _ _ I) in HC. eapply Dd_not_committed; eauto.
  apply Dn_Dd; auto. apply (t_told_err _ _ I). auto.
Qed.
