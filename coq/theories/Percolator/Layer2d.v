(* Percolator/Layer2d.v — the commit mode is fixed by the first prewrite request; no accounting before it. *)
From Verif Require Export Percolator.Layer2c.

Definition quiet3 (e : event) : bool :=
  match e with EPwSend _ _ _ _ _ _ _ _ _ | EPwDeliver _ _ _ _ | EPwReply _ _ _ _ => false | _ => true end.
Definition modef3 (f : fld) : bool :=
  match f with FPwSent | FTriedA | FTried1 | FFb | FFb1 | FMinc | F1pcTs => true | _ => false end.

Lemma stepr_quiet3 : forall s e s' T0, quiet3 e = true -> stepr s e = Ok s' ->
  c_kl (getc s' T0) = c_kl (getc s T0) /\ c_pwok (getc s' T0) = c_pwok (getc s T0) /\
  forall f, modef3 f = true -> cn (getc s' T0) f = cn (getc s T0) f.
Proof.
  intros s e s' T0 Hq H.
  destruct (quiet e) eqn:Q.
  { destruct (stepr_quiet _ _ _ T0 Q H) as [A1 A2 A3 A4 A5 A6]. repeat split; auto. intros f Hf. apply A6. destruct f; try discriminate Hf; reflexivity. }
  destruct (option_map (N.eqb T0) (txn_of e)) as [[|] |] eqn:Et.
  2: { rewrite (stepr_getc_other _ _ _ T0 H); auto. intros E'. rewrite E' in Et. cbn in Et. rewrite N.eqb_refl in Et. discriminate. }
  2: { rewrite (stepr_getc_other _ _ _ T0 H); auto. intros E'. rewrite E' in Et. discriminate. }
  destruct (txn_of e) as [T1 |] eqn:Et'; cbn [option_map] in Et; [| discriminate Et].
  assert (T1 = T0) as -> by (injection Et as Et1; apply N.eqb_eq in Et1; auto). clear Et.
  destruct_event e; cbn [quiet] in Q; try discriminate Q; cbn [quiet3] in Hq; try discriminate Hq; cbn [txn_of] in Et'; inversion Et'; subst;
    cbn [stepr] in H; unfold step_rb_send, step_cts_deliver, step_told in H; chks H.
  all: repeat match type of H with
              | (match ?d with _ => _ end) = Ok _ => destruct d eqn:?; chks H; try discriminate H
              | (if ?d then _ else _) = Ok _ => destruct d eqn:?; chks H; try discriminate H
              end.
  all: try (okinv H).
  all: repeat (first [ progress getc_keys | progress rd | match goal with |- context [if ?d then _ else _] => destruct d eqn:? end ]).
  all: repeat split; try reflexivity; try (intros f0 Hf0; destruct f0; try discriminate Hf0; rd; reflexivity).
Qed.

Record l0inv (s : sys) (T : N) : Prop := {
  z_tried : F s T FTriedA <> 0 \/ F s T FTried1 <> 0 -> F s T FPwSent <> 0;
  z_mode : F s T FPwSent <> 0 -> (F s T FTried1 <> 0 \/ F s T FFb1 <> 0) /\ (F s T FTriedA <> 0 \/ F s T FFb <> 0);
  z_cnt0 : F s T FPwSent = 0 -> c_kl (getc s T) = []
}.

Lemma l0inv_stepr : forall s e s' T0, Inv s -> stepr s e = Ok s' -> l0inv s T0 -> l0inv s' T0.
Proof.
  intros s e s' T0 HI H Z. destruct (quiet3 e) eqn:Q.
  { destruct (stepr_quiet3 _ _ _ T0 Q H) as [A1 [_ A2]]. destruct Z as [Z1 Z2 Z3].
    constructor; unfold F in *; rewrite ?A1; repeat rewrite A2 by reflexivity; auto. }
  destruct (option_map (N.eqb T0) (txn_of e)) as [[|] |] eqn:Et.
  2: { assert (Hne : txn_of e <> Some T0) by (intros E'; rewrite E' in Et; cbn in Et; rewrite N.eqb_refl in Et; discriminate).
       pose proof (stepr_getc_other _ _ _ T0 H Hne) as Gc. destruct Z as [Z1 Z2 Z3]. constructor; unfold F in *; rewrite Gc; auto. }
  2: { destruct e; cbn [quiet3] in Q; try discriminate Q; cbn in Et; discriminate Et. }
  destruct (txn_of e) as [T1 |] eqn:Et'; cbn [option_map] in Et; [| discriminate Et].
  assert (T1 = T0) as -> by (injection Et as Et1; apply N.eqb_eq in Et1; auto). clear Et.
  destruct (HI T0) as [G _]. destruct Z as [Z1 Z2 Z3].
  destruct_event e; cbn [quiet3] in Q; try discriminate Q; cbn [txn_of] in Et'; inversion Et'; subst; cbn [stepr] in H.
  - (* prewrite send *) unfold step_pw_send in H. chks H. okinv H.
    constructor; unfold F in *; rd; destruct a, o; rd; intros; try lia; try (split; [left; discriminate | left; discriminate]);
      try (split; [right; discriminate | left; discriminate]); try (split; [left; discriminate | right; discriminate]);
      try (split; [right; discriminate | right; discriminate]).
  - (* prewrite deliver *)
    assert (HS : F s T0 FPwSent <> 0).
    { unfold step_pw_deliver in H. chks H. apply sent_by_In in C. destruct C as [e0 [Ce1 Ce2]]. destruct e0; try discriminate. beq. subst.
      eapply (g_pwsent_cnt _ _ G); eauto. }
    assert (Gf : forall f, modef3 f = true -> cn (getc s' T0) f = cn (getc s T0) f).
    { intros f Hf. unfold step_pw_deliver in H. chks H.
      repeat match type of H with
             | (match ?d with _ => _ end) = Ok _ => destruct d eqn:?; chks H; try discriminate H
             | (if ?d then _ else _) = Ok _ => destruct d eqn:?; chks H; try discriminate H
             end; try okinv H;
      repeat (first [ progress getc_keys | progress rd | match goal with |- context [if ?d then _ else _] => destruct d eqn:? end ]);
      destruct f; try discriminate Hf; rd; reflexivity. }
    constructor; unfold F in *; repeat rewrite Gf by reflexivity; auto. intros E. contradiction.
  - (* prewrite reply *)
    assert (HS : F s T0 FPwSent <> 0).
    { unfold step_pw_reply in H. chks H. apply delivered_In in C0. apply (g_pw_sent _ _ G) in C0.
      destruct C0 as [p [a [o [m [f [secs C0]]]]]]. eapply (g_pwsent_cnt _ _ G); eauto. }
    unfold step_pw_reply in H. chks H. okinv H.
    constructor; unfold F in *; rd.
    all: repeat match goal with |- context [match ?d with _ => _ end] => is_var d; destruct d eqn:? end.
    all: repeat (first [ progress rd | match goal with |- context [if ?d then _ else _] => destruct d eqn:? end ]).
    all: intros; try contradiction; auto.
    all: destruct (Z2 HS) as [[B1 | B1] [B2 | B2]]; split; auto; try (right; discriminate).
Qed.

Lemma l0inv_init : forall T, l0inv init T.
Proof. intros T. constructor; unfold F; cbn; intros; try reflexivity; try tauto. Qed.

Definition Zinv (s : sys) : Prop := forall T, l0inv s T.
Theorem zinv_run : forall evs s, run evs = Some s -> Zinv s.
Proof.
  intros evs s H. unfold run in H.
  assert (G : forall evs s0 s', Inv s0 -> Zinv s0 -> run_from s0 evs = Some s' -> Zinv s').
  { induction evs0 as [| e evs0 IH]; intros s0 s1 HI HZ R; cbn [run_from] in R.
    - inversion R. subst. auto.
    - unfold step in R. destruct (stepr s0 e) as [s2 | rr] eqn:E; try discriminate.
      eapply IH; [| | eauto]; [eapply inv_stepr; eauto |]. intros T. eapply l0inv_stepr; eauto. }
  eapply G; [apply inv_init | intros T; apply l0inv_init | exact H].
Qed.
