(* Percolator/Agree.v — every accepted event about T agrees, for every other transaction, with
   the state before it (so Frame.v applies); plus the step-inversion tactic. *)
From Verif Require Export Percolator.Frame.

Lemma agree_refl : forall s T, agree s s T.
Proof. intros. constructor; intros; try apply lext_refl; tauto. Qed.

Section Outer.
  Variables (s x : sys) (T' : N).
  Hypothesis A : agree s x T'.
  Lemma ag_setc : forall T c, T <> T' -> agree s (setc x T c) T'.
  Proof.
    intros T c H. destruct A as [a_k0 a_c0 a_lm0 a_pwok0 a_sent0 a_dlv0 a_cts0 a_rs0 a_wr0].
    constructor; sproj; auto; rewrite getc_setc_ne; auto.
  Qed.
  Lemma ag_setc_rel : forall c, (forall f, rel f = true -> cn c f = cn (getc x T') f) ->
    c_lm c = c_lm (getc x T') -> c_pwok c = c_pwok (getc x T') -> agree s (setc x T' c) T'.
  Proof.
    intros c H1 H2 H3. destruct A as [a_k0 a_c0 a_lm0 a_pwok0 a_sent0 a_dlv0 a_cts0 a_rs0 a_wr0].
    constructor; sproj; auto; rewrite getc_setc_eq; try congruence.
    intros f Hf. rewrite H1; auto.
  Qed.
  Lemma ag_add_sent : forall e, (txn_of e <> Some T' \/ relev e = false) -> agree s (add_sent x e) T'.
  Proof.
    intros e H. destruct A as [a_k0 a_c0 a_lm0 a_pwok0 a_sent0 a_dlv0 a_cts0 a_rs0 a_wr0]. constructor; sproj; auto.
    intros y Hy Hr. rewrite <- (a_sent0 y Hy Hr). apply (lext_cons T' (s_sent x) e H y Hy Hr).
  Qed.
  Lemma ag_add_dlv : forall e, (txn_of e <> Some T' \/ relev e = false) -> agree s (add_dlv x e) T'.
  Proof.
    intros e H. destruct A as [a_k0 a_c0 a_lm0 a_pwok0 a_sent0 a_dlv0 a_cts0 a_rs0 a_wr0]. constructor; sproj; auto.
    intros y Hy Hr. rewrite <- (a_dlv0 y Hy Hr). apply (lext_cons T' (s_dlv x) e H y Hy Hr).
  Qed.
  Lemma ag_w_cts : forall e, (txn_of e <> Some T' \/ relev e = false) -> agree s (w_cts x (e :: s_cts x)) T'.
  Proof.
    intros e H. destruct A as [a_k0 a_c0 a_lm0 a_pwok0 a_sent0 a_dlv0 a_cts0 a_rs0 a_wr0]. constructor; sproj; auto.
    intros y Hy Hr. rewrite <- (a_cts0 y Hy Hr). apply (lext_cons T' (s_cts x) e H y Hy Hr).
  Qed.
  Lemma ag_w_rs : forall T c j, T <> T' -> agree s (w_rs x ((T, c, j) :: s_rs x)) T'.
  Proof.
    intros T c j H. destruct A as [a_k0 a_c0 a_lm0 a_pwok0 a_sent0 a_dlv0 a_cts0 a_rs0 a_wr0]. constructor; sproj; auto.
    intros c' j'. rewrite <- a_rs0. cbn [In]. split; auto. intros [E | E]; auto. inversion E. congruence.
  Qed.
  Lemma ag_w_rs2 : forall y T c j, T <> T' -> s_rs y = s_rs x -> agree s (w_rs x ((T, c, j) :: s_rs y)) T'.
  Proof. intros y T c j H E. rewrite E. apply ag_w_rs. auto. Qed.
  Lemma ag_w_wr : forall T c, T <> T' -> agree s (w_wr x ((T, c) :: s_wr x)) T'.
  Proof.
    intros T c H. destruct A as [a_k0 a_c0 a_lm0 a_pwok0 a_sent0 a_dlv0 a_cts0 a_rs0 a_wr0]. constructor; sproj; auto.
    intros c'. rewrite <- a_wr0. cbn [In]. split; auto. intros [E | E]; auto. inversion E. congruence.
  Qed.
  Lemma ag_w_wr2 : forall y T c, T <> T' -> s_wr y = s_wr x -> agree s (w_wr x ((T, c) :: s_wr y)) T'.
  Proof. intros y T c H E. rewrite E. apply ag_w_wr. auto. Qed.
  Lemma ag_w_cts2 : forall y e, (txn_of e <> Some T' \/ relev e = false) -> s_cts y = s_cts x -> agree s (w_cts x (e :: s_cts y)) T'.
  Proof. intros y e H E. rewrite E. apply ag_w_cts. auto. Qed.
  Lemma ag_w_tso : forall v, agree s (w_tso x v) T'. Proof. intros. destruct A as [a_k0 a_c0 a_lm0 a_pwok0 a_sent0 a_dlv0 a_cts0 a_rs0 a_wr0]. constructor; sproj; auto. Qed.
  Lemma ag_w_own : forall v, agree s (w_own x v) T'. Proof. intros. destruct A as [a_k0 a_c0 a_lm0 a_pwok0 a_sent0 a_dlv0 a_cts0 a_rs0 a_wr0]. constructor; sproj; auto. Qed.
  Lemma ag_w_crashed : forall v, agree s (w_crashed x v) T'. Proof. intros. destruct A as [a_k0 a_c0 a_lm0 a_pwok0 a_sent0 a_dlv0 a_cts0 a_rs0 a_wr0]. constructor; sproj; auto. Qed.
  Lemma ag_w_csl : forall v, agree s (w_csl x v) T'. Proof. intros. destruct A as [a_k0 a_c0 a_lm0 a_pwok0 a_sent0 a_dlv0 a_cts0 a_rs0 a_wr0]. constructor; sproj; auto. Qed.
  Lemma ag_w_seen : forall v, agree s (w_seen x v) T'. Proof. intros. destruct A as [a_k0 a_c0 a_lm0 a_pwok0 a_sent0 a_dlv0 a_cts0 a_rs0 a_wr0]. constructor; sproj; auto. Qed.
  Lemma ag_w_gc : forall v, agree s (w_gc x v) T'. Proof. intros. destruct A as [a_k0 a_c0 a_lm0 a_pwok0 a_sent0 a_dlv0 a_cts0 a_rs0 a_wr0]. constructor; sproj; auto. Qed.

  Lemma ag_same_but_kst : forall y, same_but_kst x y -> (forall k, kget y T' k = kget x T' k) -> agree s y T'.
  Proof.
    intros y H K. destruct A as [a_k0 a_c0 a_lm0 a_pwok0 a_sent0 a_dlv0 a_cts0 a_rs0 a_wr0]. rewrite H. constructor; sproj; auto.
    intros k. rewrite <- a_k0. rewrite <- K. rewrite H. reflexivity.
  Qed.
  Lemma ag_step_key : forall T k tr y, T <> T' -> tr_ok tr -> step_key x T k tr = Some y -> agree s y T'.
  Proof.
    intros T k tr y H Ho E. apply step_key_kmono in E; auto. destruct E as [E1 [_ E3]].
    apply ag_same_but_kst; auto.
  Qed.
  Lemma ag_step_keys : forall T ks tr y, T <> T' -> tr_ok tr -> step_keys x T ks tr = Some y -> agree s y T'.
  Proof.
    intros T ks tr y H Ho E. apply step_keys_kmono in E; auto. destruct E as [E1 [_ E3]].
    apply ag_same_but_kst; auto.
  Qed.
End Outer.

Lemma ag_step_csl_locks : forall l s x T' T y, agree s x T' -> T <> T' -> step_csl_locks x T l = Some y -> agree s y T'.
Proof.
  induction l as [| [k m] l IH]; intros s x T' T y A H E; cbn [step_csl_locks] in E.
  - inversion E. subst. auto.
  - destruct (step_key x T k (tr_csl_lock m)) as [x1 |] eqn:E1; try discriminate.
    eapply IH; [| eauto | eauto]. eapply ag_step_key; eauto. apply tr_csl_lock_ok.
Qed.

(* ---- step inversion: open the guards of an accepted step ---- *)
Ltac chk1 H :=
  match type of H with
  | (if ?b then _ else Rej _) = Ok _ => let C := fresh "C" in destruct b eqn:C; [| discriminate H]
  | (let x := _ in _) = Ok _ => cbv zeta in H
  end.
Ltac chks H := repeat chk1 H.
Ltac okinv H := match type of H with Ok _ = Ok _ => inversion H; subst; clear H end.

Ltac ag_tac :=
  repeat first [ apply agree_refl
               | apply ag_setc; [| congruence]
               | apply ag_add_sent; [| first [left; cbn [txn_of]; congruence | right; reflexivity]]
               | apply ag_add_dlv; [| first [left; cbn [txn_of]; congruence | right; reflexivity]]
               | apply ag_w_cts; [| first [left; cbn [txn_of]; congruence | right; reflexivity]]
               | apply ag_w_rs; [| congruence]
               | apply ag_w_rs2; [| congruence | reflexivity]
               | apply ag_w_wr; [| congruence]
               | apply ag_w_wr2; [| congruence | reflexivity]
               | apply ag_w_cts2; [| first [left; cbn [txn_of]; congruence | right; reflexivity] | reflexivity]
               | apply ag_w_tso | apply ag_w_own | apply ag_w_crashed | apply ag_w_csl | apply ag_w_seen | apply ag_w_gc
               | match goal with
                 | E : step_keys _ _ _ _ = Some ?y |- agree _ ?y _ =>
                     eapply ag_step_keys; [| | | exact E];
                     [| congruence | first [apply tr_pw_ok | apply tr_1pc_ok | apply tr_cm_ok | apply tr_rb_ok | apply tr_rs_ok
                                          | apply tr_push_ok | apply tr_csl_rb_ok ]]
                 | E : step_key _ _ _ _ = Some ?y |- agree _ ?y _ =>
                     eapply ag_step_key; [| | | exact E];
                     [| congruence | first [apply tr_cts_committed_ok | apply tr_rb_ok | apply tr_cts_locked_ok ]]
                 | E : step_csl_locks _ _ _ = Some ?y |- agree _ ?y _ =>
                     eapply ag_step_csl_locks; [| | exact E]; [| congruence]
                 end ].

Ltac destruct_event e :=
  destruct e as [t | r T | T causal | T p ms | r T p ks a o m f secs | r T ks x | r T ks x
                | r T c ks | r T c ks x | r T c ks x | r T ks | r T ks x | r T ks x
                | r T p f ks | r T f ks x | r T f ks x | r T f ks | r T f ks x | r T f ks x
                | r T p caller cur rbine force respess | r T p st | r T p st
                | r T ks | r T ks st | r T ks st | r T c ks | r T c ks x | r T c ks x
                | r T p ttl | r T p ok ttl | r T ttl | T x | T | r | r sp | r ].

Lemma step_agree : forall s e s' T', stepr s e = Ok s' -> txn_of e <> Some T' -> agree s s' T'.
Proof.
  intros s e s' T' H Hne. destruct_event e; cbn [txn_of] in Hne; cbn [stepr] in H.
  - (* tso *) chks H. okinv H. ag_tac.
  - chks H. okinv H. ag_tac.
  - chks H. okinv H. ag_tac.
  - chks H. okinv H. ag_tac.
  - (* pw send *) unfold step_pw_send in H. chks H. okinv H. ag_tac.
  - unfold step_pw_deliver in H. chks H. destruct x as [m0 o0 | |]; try (okinv H; ag_tac).
    destruct (o0 =? 0); [destruct (step_keys _ _ _ (tr_pw m0)) eqn:E | destruct (step_keys _ _ _ (tr_1pc o0)) eqn:E];
      try discriminate; okinv H; ag_tac.
  - unfold step_pw_reply in H. chks H. okinv H. ag_tac.
  - (* cm send *) unfold step_cm_send in H. chks H.
    destruct (fb (getc s T) FHasm); chks H; [destruct (mem _ ks); chks H |]; okinv H; ag_tac.
  - unfold step_cm_deliver in H. chks H.
    destruct x; chks H;
      try (destruct (step_keys _ _ _ _) eqn:E; try discriminate);
      destruct (has_prim (getc s T) ks); okinv H; ag_tac.
  - unfold step_cm_reply in H. chks H. destruct (has_prim (getc s T) ks); [| okinv H; ag_tac].
    destruct x; chks H; okinv H; ag_tac.
  - unfold step_rb_send in H. chks H. okinv H. ag_tac.
  - unfold step_rb_deliver in H. chks H. destruct x; try (okinv H; ag_tac).
    destruct (step_keys _ _ _ _) eqn:E; try discriminate. okinv H. ag_tac.
  - unfold plain_reply in H. chks H. okinv H. ag_tac.
  - chks H. okinv H. destruct (fb (getc s T) FPlAny); ag_tac.
  - chks H. okinv H. ag_tac.
  - unfold plain_reply in H. chks H. okinv H. ag_tac.
  - unfold plain_send in H. chks H. okinv H. ag_tac.
  - chks H. okinv H. ag_tac.
  - unfold plain_reply in H. chks H. okinv H. ag_tac.
  - unfold step_cts_send in H. chks H. okinv H. ag_tac.
  - unfold step_cts_deliver in H. chks H. destruct st; chks H; try (okinv H; ag_tac);
      try match type of H with context [if ?b then setc _ _ _ else _] => destruct b end;
      (destruct (step_key _ _ _ _) eqn:E; try discriminate; okinv H; ag_tac).
  - chks H. okinv H. ag_tac.
  - unfold plain_send in H. chks H. okinv H. ag_tac.
  - unfold step_csl_deliver in H. chks H. destruct st; chks H; try (okinv H; ag_tac).
    + destruct (step_csl_locks _ _ _) eqn:E; try discriminate. okinv H. ag_tac.
    + destruct (c =? 0); chks H; [destruct (step_keys _ _ _ _) eqn:E; try discriminate |]; okinv H; ag_tac.
  - chks H. okinv H. ag_tac.
  - unfold step_rs_send in H. chks H. destruct (just_cts s r T c); chks H; okinv H; ag_tac.
  - unfold step_rs_deliver in H. chks H. destruct x; try (okinv H; ag_tac).
    destruct ks; [okinv H; ag_tac |]. destruct (step_keys _ _ _ _) eqn:E; try discriminate. okinv H. ag_tac.
  - unfold plain_reply in H. chks H. okinv H. ag_tac.
  - unfold step_hb_send in H. chks H. okinv H. ag_tac.
  - chks H. okinv H. ag_tac.
  - okinv H. ag_tac.
  - unfold step_told in H. chks H. destruct x; chks H; okinv H; ag_tac.
  - okinv H. ag_tac.
  - okinv H. ag_tac.
  - okinv H. ag_tac.
  - okinv H. ag_tac.
Qed.

(* events that touch nothing the invariants talk about: they agree even for their own transaction *)
Definition irrel (e : event) : bool :=
  match e with
  | EBegin _ _ | ECommitCall _ _ | ERbReply _ _ _ _ | EPlSend _ _ _ _ _ | EPlDeliver _ _ _ _ _ | EPlReply _ _ _ _ _
  | EPrSend _ _ _ _ | EPrDeliver _ _ _ _ _ | EPrReply _ _ _ _ _ | ECtsSend _ _ _ _ _ _ _ _ | ECslSend _ _ _
  | ECslReply _ _ _ _ | ERsReply _ _ _ _ _ | EHbSend _ _ _ _ | EHbDeliver _ _ _ _ _ | ELockSeen _ _ _
  | ERollbackTold _ => true
  | _ => false
  end.

Ltac ag_own :=
  repeat first [ apply agree_refl
               | apply ag_setc_rel; [| intros f0 Hf0; destruct f0; try discriminate Hf0; reflexivity | reflexivity | reflexivity]
               | apply ag_add_sent; [| right; reflexivity]
               | apply ag_add_dlv; [| right; reflexivity]
               | apply ag_w_own | apply ag_w_csl | apply ag_w_seen ].

Lemma step_agree_irrel : forall s e s' T', stepr s e = Ok s' -> irrel e = true -> agree s s' T'.
Proof.
  intros s e s' T' H Hi.
  destruct (option_map (N.eqb T') (txn_of e)) as [[|] |] eqn:E.
  2: { apply (step_agree s e s' T' H). intros E'. rewrite E' in E. cbn in E. rewrite N.eqb_refl in E. discriminate. }
  2: { apply (step_agree s e s' T' H). intros E'. rewrite E' in E. discriminate. }
  destruct_event e; cbn [irrel] in Hi; try discriminate Hi; cbn [txn_of option_map] in E; inversion E as [E'];
    apply N.eqb_eq in E'; subst T'; cbn [stepr] in H; unfold plain_reply, plain_send, step_cts_send, step_hb_send in H;
    chks H; okinv H; try (destruct (fb (getc s T) FPlAny)); ag_own.
Qed.
