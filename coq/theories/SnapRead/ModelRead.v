(* SnapRead/ModelRead.v — executable model for C05, part 2: lock classification, point get,
   batch get, snapshot cache.
   Mirrors /repo/txnkv/txnlock/lock_resolver.go (TxnStatus, resolveLocks' classification),
   /repo/txnkv/txnsnapshot/snapshot.go (get, batchGetKeysByRegions, batchGetSingleRegion,
   Get/BatchGetWithTier cache paths, UpdateSnapshotCache, SetSnapshotTS),
   /repo/internal/mockstore/mocktikv/mvcc.go (mvccLock.check), mvcc_leveldb.go (getValue, CheckTxnStatus). *)
From Verif Require Import Base.Lex SnapRead.Model.

(* ---------------------------------------------------------------- (c) classification *)
Inductive action := NoAction | TTLExpireRollback | LockNotExistRollback | MinCommitTSPushed
                  | TTLExpirePessimisticRollback | LockNotExistDoNothing.
Record txn_status := mkSt { st_ttl : N; st_commit : N; st_action : action }.

Definition is_committed (s : txn_status) : bool := 0 <? st_commit s.
Definition is_rolled_back (s : txn_status) : bool :=
  (st_ttl s =? 0) && (st_commit s =? 0) &&
  match st_action s with NoAction | LockNotExistRollback | TTLExpireRollback => true | _ => false end.
Definition is_pushed (s : txn_status) : bool :=
  match st_action s with MinCommitTSPushed => true | _ => false end.

Inductive verdict := Ignore | Access | Wait.

(* the loop body of resolveLocks after the status is known *)
Definition classify (for_read : bool) (s : txn_status) (ts : N) : verdict :=
  if negb for_read && negb (st_ttl s =? 0) then Wait
  else if is_pushed s || is_rolled_back s || (is_committed s && (ts <? st_commit s)) then Ignore
  else if is_committed s && (st_commit s <=? ts) then Access
  else Wait.

(* ---------------------------------------------------------------- the world a reader meets *)
Inductive lkind := LPut (v : value) | LDel | LLock | LPess.
Record lock := mkLock { l_start : N; l_kind : lkind }.
Inductive fin := FRolledBack | FCommitted (c : N).
(* TFinished: outcome decided.  TPushed: alive, a status check pushes its min commit ts above the
   caller's ts (large-transaction protocol).  TAlive n f: alive for n more status checks, then f
   (the owner finishes, or the TTL expires and the check rolls it back). *)
Inductive tstate := TFinished (f : fin) | TPushed (f : fin) | TAlive (n : nat) (f : fin).
Record kstate := mkKs { ks_ws : list write; ks_lock : option lock }.
Record world := mkWorld { w_keys : list (key * kstate); w_txns : list (N * tstate) }.

Definition eventual (t : tstate) : fin :=
  match t with TFinished f => f | TPushed f => f | TAlive _ f => f end.

Fixpoint tx_get (tx : list (N * tstate)) (t : N) : option tstate :=
  match tx with [] => None | (t', s) :: r => if t' =? t then Some s else tx_get r t end.
Fixpoint tx_set (tx : list (N * tstate)) (t : N) (s : tstate) : list (N * tstate) :=
  match tx with [] => [] | (t', s') :: r => if t' =? t then (t', s) :: r else (t', s') :: tx_set r t s end.
(* a transaction nobody knows is rolled back by the status check (rollbackIfNotExist) *)
Definition tx_fin (tx : list (N * tstate)) (t : N) : fin :=
  match tx_get tx t with Some s => eventual s | None => FRolledBack end.

Definition ks_empty : kstate := mkKs [] None.
Fixpoint k_get (l : list (key * kstate)) (k : key) : kstate :=
  match l with [] => ks_empty | (k', s) :: r => if keqb k' k then s else k_get r k end.
Fixpoint k_set (l : list (key * kstate)) (k : key) (s : kstate) : list (key * kstate) :=
  match l with [] => [] | (k', s') :: r => if keqb k' k then (k', s) :: r else (k', s') :: k_set r k s end.

(* what a lock contributes to the final truth *)
Definition contrib (tx : list (N * tstate)) (ol : option lock) : list write :=
  match ol with
  | None => []
  | Some l => match tx_fin tx (l_start l), l_kind l with
              | FCommitted c, LPut v => [(c, Put v)]
              | FCommitted c, LDel => [(c, Del)]
              | _, _ => []
              end
  end.
Definition final_ws (tx : list (N * tstate)) (s : kstate) : list write := ks_ws s ++ contrib tx (ks_lock s).
Definition final_truth (w : world) : truth := map (fun e => (fst e, final_ws (w_txns w) (snd e))) (w_keys w).

Definition memN (t : N) (l : list N) : bool := existsb (N.eqb t) l.

(* mvccLock.check: does the lock block a read at ts (ts below the max timestamp)? *)
Definition blocks (l : lock) (ts : N) (resolved : list N) : bool :=
  negb (ts <? l_start l)
  && match l_kind l with LPut _ | LDel => true | LLock | LPess => false end
  && negb (memN (l_start l) resolved).

Inductive sres := SVal (o : option value) | SLocked (l : lock).
Definition store_get (s : kstate) (ts : N) (resolved : list N) : sres :=
  match ks_lock s with
  | Some l => if blocks l ts resolved then SLocked l else SVal (vis (ks_ws s) ts)
  | None => SVal (vis (ks_ws s) ts)
  end.

(* CheckTxnStatus as the reader sees it *)
Definition st_of_fin (f : fin) (a : action) : txn_status :=
  match f with FRolledBack => mkSt 0 0 a | FCommitted c => mkSt 0 c NoAction end.
Definition probe (tx : list (N * tstate)) (t : N) : list (N * tstate) * txn_status :=
  match tx_get tx t with
  | None => (tx, mkSt 0 0 LockNotExistRollback)
  | Some (TFinished f) => (tx, st_of_fin f NoAction)
  | Some (TPushed _) => (tx, mkSt 1 0 MinCommitTSPushed)
  | Some (TAlive (S n) f) => (tx_set tx t (TAlive n f), mkSt 1 0 NoAction)
  | Some (TAlive O f) => (tx_set tx t (TFinished f), st_of_fin f TTLExpireRollback)
  end.

(* resolving a key's lock once the outcome is known (ResolveLock on the store) *)
Definition resolve_ks (tx : list (N * tstate)) (s : kstate) : kstate := mkKs (final_ws tx s) None.

Definition finished (s : txn_status) : bool := is_committed s || is_rolled_back s.

(* one lock met by a read: status check, classification, bookkeeping *)
Definition handle_lock (ts : N) (st : world * list N) (kl : key * lock) : world * list N :=
  let '(w, rs) := st in
  let '(k, l) := kl in
  let '(tx', s) := probe (w_txns w) (l_start l) in
  let keys' := if finished s then k_set (w_keys w) k (resolve_ks tx' (k_get (w_keys w) k)) else w_keys w in
  let w' := mkWorld keys' tx' in
  match classify true s ts with
  | Ignore => (w', l_start l :: rs)
  | Access => (w', rs)
  | Wait => (w', rs)
  end.

(* KVSnapshot.get *)
Fixpoint get (fuel : nat) (w : world) (rs : list N) (ts : N) (k : key) : option (option value) * world * list N :=
  match fuel with
  | O => (None, w, rs)
  | S f =>
      match store_get (k_get (w_keys w) k) ts rs with
      | SVal o => (Some o, w, rs)
      | SLocked l => let '(w', rs') := handle_lock ts (w, rs) (k, l) in get f w' rs' ts k
      end
  end.

(* ---------------------------------------------------------------- (b) batch get *)
Definition same_region (L : layout) (a b : key) : bool :=
  keqb (r_start (locate_key L a)) (r_start (locate_key L b)).

Fixpoint insert_group (L : layout) (k : key) (gs : list (list key)) : list (list key) :=
  match gs with
  | [] => [[k]]
  | g :: gs' =>
      match g with
      | k0 :: _ => if same_region L k0 k then (g ++ [k]) :: gs' else g :: insert_group L k gs'
      | [] => g :: insert_group L k gs'
      end
  end.
(* GroupKeysByRegion *)
Definition group_keys (L : layout) (ks : list key) : list (list key) :=
  fold_left (fun gs k => insert_group L k gs) ks [].

(* batchKeys.relocate: still one region? *)
Definition one_region (L : layout) (b : list key) : bool :=
  match b with [] => true | k0 :: r => forallb (same_region L k0) r end.

(* the store serving one BatchGet request *)
Fixpoint serve (w : world) (rs : list N) (ts : N) (b : list key) : list (key * value) * list (key * lock) :=
  match b with
  | [] => ([], [])
  | k :: r =>
      let '(vals, locked) := serve w rs ts r in
      match store_get (k_get (w_keys w) k) ts rs with
      | SVal (Some v) => ((k, v) :: vals, locked)
      | SVal None => (vals, locked)
      | SLocked l => (vals, (k, l) :: locked)
      end
  end.

(* EvBatchLocked k: the store answers the whole request with a response-level lock error naming the
   lock of key k (no pairs): the lock is handled and the WHOLE batch stays pending
   (batchGetSingleRegion / retryBatchGetSingleRegionAfterAsyncAPI: `if lockInfo.keyErr == nil`). *)
Inductive bg_event := EvOk | EvRegionErr (L : layout) | EvBatchLocked (k : key).

(* work-list form of batchGetKeysByRegions / batchGetSingleRegion: a request is served (values
   collected, only the still-locked keys stay pending) or hits a region error (stay if the batch
   is still inside one region of the new layout, otherwise re-split) *)
Fixpoint bget (fuel : nat) (ev : nat -> bg_event) (i : nat) (w : world) (rs : list N) (ts : N)
         (pend : list (list key)) (acc : list (key * value)) : option (list (key * value)) * world * list N :=
  match fuel with
  | O => (None, w, rs)
  | S f =>
      match pend with
      | [] => (Some acc, w, rs)
      | b :: rest =>
          match ev i with
          | EvRegionErr L =>
              let gs := if one_region L b then [b] else group_keys L b in
              bget f ev (S i) w rs ts (gs ++ rest) acc
          | EvBatchLocked k =>
              let '(w', rs') := match store_get (k_get (w_keys w) k) ts rs with
                                | SLocked l => handle_lock ts (w, rs) (k, l)
                                | SVal _ => (w, rs)
                                end in
              bget f ev (S i) w' rs' ts pend acc
          | EvOk =>
              let '(vals, locked) := serve w rs ts b in
              let '(w', rs') := fold_left (handle_lock ts) locked (w, rs) in
              let pend' := match locked with [] => rest | _ => map fst locked :: rest end in
              bget f ev (S i) w' rs' ts pend' (acc ++ vals)
          end
      end
  end.

Definition batch_get (fuel : nat) (ev : nat -> bg_event) (L0 : layout) (w : world) (ts : N) (keys : list key) :=
  bget fuel ev 0 w [] ts (group_keys L0 keys) [].

(* ---------------------------------------------------------------- (d) snapshot cache *)
Definition maxts : N := 18446744073709551615.
Record snap := mkSnap { version : N; cached : option (list (key * value)) }.   (* value [] = not exist *)
(* CGetErr / CBatchErr: the call fails (an RPC returns a non-retryable error: cancelled, aborted, back-off
   exhausted); [got] are the keys whose region had already answered.  Get and BatchGetWithTier return
   the error before UpdateSnapshotCache: a failed call caches nothing, not even what it did read. *)
Inductive cop := CGet (k : key) | CBatchGet (ks : list key) | CSetTS (ts : N)
               | CGetErr (k : key) | CBatchErr (ks got : list key).
Inductive cres := RGet (o : option value) | RBatch (l : list (key * option value)) | RUnit | RErr | RRefused.

Definition norm (o : option value) : option value := match o with Some [] => None | x => x end.
Definition val_of (o : option value) : value := match o with Some v => v | None => [] end.
Definition opt_of (v : value) : option value := match v with [] => None | _ => Some v end.

Fixpoint c_lookup (c : list (key * value)) (k : key) : option value :=
  match c with [] => None | (k', v) :: r => if keqb k' k then Some v else c_lookup r k end.
Definition cache_lookup (s : snap) (k : key) : option value :=
  match cached s with Some c => c_lookup c k | None => None end.

(* UpdateSnapshotCache: nothing at the max timestamp *)
Definition cache_update (s : snap) (kvs : list (key * value)) : snap :=
  if version s =? maxts then s
  else mkSnap (version s) (Some (kvs ++ match cached s with Some c => c | None => [] end)).

Section Cache.
  Variable rd : N -> key -> option value.      (* what the uncached read path returns *)
  Variable sp : N.                             (* the transaction safe point cached by the store (CheckVisibility) *)

  (* Get: a cache hit is served at once; otherwise the value is fetched, THEN the visibility check runs
     and only a read that passes it is cached — a read refused by the safe point leaves nothing behind *)
  Definition c_get (s : snap) (k : key) : cres * snap :=
    match cache_lookup s k with
    | Some v => (RGet (opt_of v), s)
    | None =>
        if version s <? sp then (RRefused, s)
        else let o := norm (rd (version s) k) in (RGet o, cache_update s [(k, val_of o)])
    end.

  (* BatchGet: if every key is cached the call returns before the check; otherwise fetch, check, cache *)
  Definition c_batch (s : snap) (ks : list key) : cres * snap :=
    let miss := filter (fun k => match cache_lookup s k with Some _ => false | None => true end) ks in
    let fetched := map (fun k => (k, val_of (norm (rd (version s) k)))) miss in
    let ans := map (fun k => (k, match cache_lookup s k with
                                 | Some v => opt_of v
                                 | None => norm (rd (version s) k) end)) ks in
    match miss with
    | [] => (RBatch ans, s)
    | _ => if version s <? sp then (RRefused, s) else (RBatch ans, cache_update s fetched)
    end.

  Definition c_step (s : snap) (o : cop) : cres * snap :=
    match o with
    | CGet k => c_get s k
    | CBatchGet ks => c_batch s ks
    | CSetTS ts => (RUnit, mkSnap ts None)
    | CGetErr _ => (RErr, s)
    | CBatchErr _ _ => (RErr, s)
    end.

  Fixpoint c_run (s : snap) (ops : list cop) : list cres :=
    match ops with [] => [] | o :: r => let '(x, s') := c_step s o in x :: c_run s' r end.

  (* the same program on a snapshot without a cache *)
  Definition u_step (ver : N) (o : cop) : cres * N :=
    match o with
    | CGet k => (if ver <? sp then RRefused else RGet (norm (rd ver k)), ver)
    | CBatchGet ks =>
        (match ks with
         | [] => RBatch []
         | _ => if ver <? sp then RRefused else RBatch (map (fun k => (k, norm (rd ver k))) ks)
         end, ver)
    | CSetTS ts => (RUnit, ts)
    | CGetErr _ => (RErr, ver)
    | CBatchErr _ _ => (RErr, ver)
    end.
  Fixpoint u_run (ver : N) (ops : list cop) : list cres :=
    match ops with [] => [] | o :: r => let '(x, v') := u_step ver o in x :: u_run v' r end.

  Fixpoint c_final (s : snap) (ops : list cop) : snap :=
    match ops with [] => s | o :: r => c_final (snd (c_step s o)) r end.
End Cache.

(* ---------------------------------------------------------------- (e) moving the timestamp of a snapshot that has met locks *)
(* The snapshot object: version, cache, and the set of transactions it decided to ignore
   (KVSnapshot.resolvedLocks).  SetSnapshotTS clears the cache AND that set on every call, whatever
   the direction of the move (also for a pipelined snapshot: the own start ts registered by
   SetPipelined is wiped as well — that is what the code does).  PFinish t: the owner of transaction
   t finishes it (a lock-state change between two reads of the program). *)
Record rsnap := mkRS { rv : N; rcache : option (list (key * value)); rrs : list N }.
Inductive pop := PGet (k : key) | PSetTS (ts : N) | PFinish (t : N).

Definition finish_tx (tx : list (N * tstate)) (t : N) : list (N * tstate) :=
  match tx_get tx t with Some st => tx_set tx t (TFinished (eventual st)) | None => tx end.

Definition rs_lookup (s : rsnap) (k : key) : option value :=
  match rcache s with Some c => c_lookup c k | None => None end.

(* the answer of a Get: Some (Some v) value, Some None not found, None = no answer (other op, or out of fuel) *)
Definition p_step (fuel : nat) (st : world * rsnap) (o : pop) : option (option value) * (world * rsnap) :=
  let '(w, s) := st in
  match o with
  | PGet k =>
      match rs_lookup s k with
      | Some v => (Some (opt_of v), (w, s))
      | None =>
          match get fuel w (rrs s) (rv s) k with
          | (Some o, w', rs') =>
              let o' := norm o in
              let c' := if rv s =? maxts then rcache s
                        else Some ((k, val_of o') :: match rcache s with Some c => c | None => [] end) in
              (Some o', (w', mkRS (rv s) c' rs'))
          | (None, w', rs') => (None, (w', mkRS (rv s) (rcache s) rs'))
          end
      end
  | PSetTS ts => (None, (w, mkRS ts None []))
  | PFinish t => (None, (mkWorld (w_keys w) (finish_tx (w_txns w) t), s))
  end.

(* ---------------------------------------------------------------- (f) the buffer tier of BatchGetWithTier *)
(* A pipelined transaction [own] has flushed part of its buffer into the store as locks.
   BatchGetWithTier(keys, BatchGetBufferTier) sends BufferBatchGet{keys, version = own start ts}: the
   store answers, for each key, the content of the lock that [own] holds on it — the flushed value, the
   empty value for a flushed delete — and nothing for a key without such a lock; committed data and
   locks of other transactions are not looked at, no lock is resolved, the snapshot cache is neither
   consulted nor updated; region errors re-split like in the snapshot tier. *)
Definition buf_val (own : N) (s : kstate) : option value :=
  match ks_lock s with
  | Some l => if l_start l =? own then
                match l_kind l with LPut v => Some v | LDel => Some [] | LLock | LPess => None end
              else None
  | None => None
  end.

Fixpoint buf_serve (w : world) (own : N) (b : list key) : list (key * value) :=
  match b with
  | [] => []
  | k :: r => match buf_val own (k_get (w_keys w) k) with
              | Some v => (k, v) :: buf_serve w own r
              | None => buf_serve w own r
              end
  end.

Fixpoint bbuf (fuel : nat) (ev : nat -> bg_event) (i : nat) (w : world) (own : N)
         (pend : list (list key)) (acc : list (key * value)) : option (list (key * value)) :=
  match fuel with
  | O => None
  | S f =>
      match pend with
      | [] => Some acc
      | b :: rest =>
          match ev i with
          | EvRegionErr L =>
              bbuf f ev (S i) w own ((if one_region L b then [b] else group_keys L b) ++ rest) acc
          | _ => bbuf f ev (S i) w own rest (acc ++ buf_serve w own b)
          end
      end
  end.

Definition buffer_batch_get (fuel : nat) (ev : nat -> bg_event) (L0 : layout) (w : world) (own : N) (keys : list key) :=
  bbuf fuel ev 0 w own (group_keys L0 keys) [].

(* ---------------------------------------------------------------- (g) the scanner over the world *)
(* The rows a scan request of snapshot (ts, ignored set rs) is served in world w: the visible value of a
   key, or "locked" for a key whose lock blocks the read (no value: the store does not know it). *)
Definition wrows (w : world) (ts : N) (rs : list N) : rows :=
  filter_map (fun k => match store_get (k_get (w_keys w) k) ts rs with
                       | SVal (Some v) => Some (k, Val v)
                       | SVal None => None
                       | SLocked _ => Some (k, Lk None)
                       end) (map fst (w_keys w)).

(* Scanner.Next over one batch: a locked pair is resolved by the point get of the same snapshot
   (resolveCurrentLock -> snapshot.get: it shares the ignored set and changes the world by resolving
   locks); None = the point get did not come back *)
Fixpoint consume_w (gfuel : nat) (ko : bool) (ts : N) (c : cursor) (ps : rows) (st : world * list N)
  : option (list (key * value) * bool * (world * list N)) :=
  match ps with
  | [] => Some ([], false, st)
  | e :: ps' =>
      if out_of_bound c (fst e) then Some ([], true, st)
      else match snd e with
           | Val v =>
               match consume_w gfuel ko ts c ps' st with
               | Some (rest, stop, st') => Some ((fst e, if ko then [] else v) :: rest, stop, st')
               | None => None
               end
           | Lk _ =>
               match get gfuel (fst st) (snd st) ts (fst e) with
               | (Some o, w', rs') =>
                   match consume_w gfuel ko ts c ps' (w', rs') with
                   | Some (rest, stop, st') =>
                       Some (match o with Some v => (fst e, v) :: rest | None => rest end, stop, st')
                   | None => None
                   end
               | (None, _, _) => None
               end
           end
  end.

Fixpoint wscan_loop (fuel gfuel B : nat) (ko : bool) (ts : N) (retry : nat -> option retry_kind)
         (lay : nat -> layout) (i : nat) (st : world * list N) (c : cursor) : outcome :=
  match fuel with
  | O => OutOfFuel []
  | S f =>
      if eof c then Done [] else
      match retry i with
      | Some _ => wscan_loop f gfuel B ko ts retry lay (S i) st c
      | None =>
          match get_data B (lay i) (wrows (fst st) ts (snd st)) c with
          | GDPanic => Panicked []
          | GD ps c' =>
              match consume_w gfuel ko ts c' ps st with
              | None => OutOfFuel []
              | Some (out, stop, st') =>
                  if stop then Done out else prepend out (wscan_loop f gfuel B ko ts retry lay (S i) st' c')
              end
          end
      end
  end.

Definition wscan (fuel gfuel B : nat) (ko : bool) (ts : N) (w : world) (retry : nat -> option retry_kind)
           (lay : nat -> layout) (lo hi : key) (rv : bool) : outcome :=
  wscan_loop fuel gfuel (norm_batch B) ko ts retry lay 0 (w, []) (init_cursor lo hi rv).

(* ---------------------------------------------------------------- (h) a store that honours committed_locks *)
(* TiKV / unistore read THROUGH a lock whose transaction the request names in committed_locks (the
   reader has seen it committed at or below its timestamp): the lock's own value is the answer.  The
   snapshot object keeps that set (KVSnapshot.committedLocks) next to the ignored set; SetSnapshotTS must
   drop BOTH: each is a statement about one timestamp.  [lands]: whether the asynchronous ResolveLock of a
   read has landed before the retry (a read does not wait for it). *)
Definition store_get_rt (s : kstate) (ts : N) (rs cs : list N) : sres :=
  match ks_lock s with
  | Some l =>
      if memN (l_start l) cs then
        match l_kind l with
        | LPut v => SVal (Some v)
        | LDel => SVal None
        | LLock | LPess => SVal (vis (ks_ws s) ts)
        end
      else if blocks l ts rs then SLocked l else SVal (vis (ks_ws s) ts)
  | None => SVal (vis (ks_ws s) ts)
  end.

Record rstate := mkRst { st_w : world; st_rs : list N; st_cs : list N }.

Definition handle_lock_rt (lands : bool) (ts : N) (st : rstate) (kl : key * lock) : rstate :=
  let '(k, l) := kl in
  let w := st_w st in
  let '(tx', s) := probe (w_txns w) (l_start l) in
  let keys' := if lands && finished s then k_set (w_keys w) k (resolve_ks tx' (k_get (w_keys w) k)) else w_keys w in
  let w' := mkWorld keys' tx' in
  match classify true s ts with
  | Ignore => mkRst w' (l_start l :: st_rs st) (st_cs st)
  | Access => mkRst w' (st_rs st) (l_start l :: st_cs st)
  | Wait => mkRst w' (st_rs st) (st_cs st)
  end.

Fixpoint get_rt (fuel : nat) (lands : nat -> bool) (i : nat) (st : rstate) (ts : N) (k : key) : option (option value) * rstate :=
  match fuel with
  | O => (None, st)
  | S f =>
      match store_get_rt (k_get (w_keys (st_w st)) k) ts (st_rs st) (st_cs st) with
      | SVal o => (Some o, st)
      | SLocked l => get_rt f lands (S i) (handle_lock_rt (lands i) ts st (k, l)) ts k
      end
  end.

(* programs on one snapshot object over such a store; PSetTS drops the cache-free object's two sets *)
Definition q_step (fuel : nat) (lands : nat -> bool) (ver : N) (st : rstate) (o : pop) : option (option value) * (N * rstate) :=
  match o with
  | PGet k => let '(a, st') := get_rt fuel lands 0 st ver k in (a, (ver, st'))
  | PSetTS ts => (None, (ts, mkRst (st_w st) [] []))
  | PFinish t => (None, (ver, mkRst (mkWorld (w_keys (st_w st)) (finish_tx (w_txns (st_w st)) t)) (st_rs st) (st_cs st)))
  end.
