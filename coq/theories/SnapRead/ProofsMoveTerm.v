(* SnapRead/ProofsMoveTerm.v — the termination half of the timestamp-move theorems: with fuel at least
   patience + 2 every Get of a program returns an answer (both store models). *)
From Verif Require Import Base.Lex SnapRead.Model SnapRead.ModelRead SnapRead.ProofsCache SnapRead.ProofsRead
  SnapRead.ProofsTerm SnapRead.ProofsMove SnapRead.ProofsWorldScan SnapRead.ProofsReadThrough.

Lemma patience_finish tx t : (patience (finish_tx tx t) <= patience tx)%nat.
Proof.
  unfold finish_tx. destruct (tx_get tx t) as [st|] eqn:E; [|lia].
  pose proof (patience_set tx t st (TFinished (eventual st)) E) as H. cbn [pat] in H. lia.
Qed.

Lemma finished_not_wait s ts : finished s = true -> classify true s ts <> Wait.
Proof.
  unfold finished, classify. cbn [negb andb]. intros H.
  destruct (is_pushed s); cbn [orb]; [discriminate|].
  destruct (is_rolled_back s); cbn [orb]; [discriminate|]. cbn [orb] in H. rewrite orb_false_r in H. rewrite H. cbn [andb].
  destruct (ts <? st_commit s) eqn:E; [discriminate|]. apply N.ltb_ge in E.
  assert (E2 : (st_commit s <=? ts) = true) by (apply N.leb_le; exact E). rewrite E2. discriminate.
Qed.

(* ---------------------------------------------------------------- programs over the ignoring store *)
Section MoveTerm.
  Variable Fin : key -> list write.

  Fixpoint p_answered (fuel : nat) (st : world * rsnap) (ops : list pop) : Prop :=
    match ops with
    | [] => True
    | o :: r => (forall k, o = PGet k -> exists a, fst (p_step fuel st o) = Some a) /\ p_answered fuel (snd (p_step fuel st o)) r
    end.

  Lemma p_step_answers fuel st o :
    pinv Fin st -> (patience (w_txns (fst st)) + 2 <= fuel)%nat ->
    (forall k, o = PGet k -> exists a, fst (p_step fuel st o) = Some a) /\
    (patience (w_txns (fst (snd (p_step fuel st o)))) <= patience (w_txns (fst st)))%nat.
  Proof.
    destruct st as [w s]. intros (Hinv & _ & _) Hf. cbn [fst snd] in *. destruct o as [k|ts|t]; cbn [p_step].
    - destruct (rs_lookup s k) as [v|]; [cbn [fst snd]; split; [eauto|lia]|].
      destruct (get_total (rv s) Fin fuel w (rrs s) k Hinv Hf) as (o & w' & rs' & Hg & _ & _ & Hp & _).
      rewrite Hg. cbn [fst snd]. split; [eauto|exact Hp].
    - cbn [fst snd]. split; [intros k Hk; discriminate|lia].
    - cbn [fst snd w_txns]. split; [intros k Hk; discriminate|apply patience_finish].
  Qed.

  Lemma p_program_answers fuel : forall ops st,
    pinv Fin st -> p_env fuel st ops -> (patience (w_txns (fst st)) + 2 <= fuel)%nat -> p_answered fuel st ops.
  Proof.
    induction ops as [|o r IH]; intros st Hinv Henv Hf; cbn [p_answered]; [exact I|].
    destruct Henv as [He Hr]. destruct (p_step_correct Fin fuel st o Hinv He) as [Hinv' _].
    destruct (p_step_answers fuel st o Hinv Hf) as [Ha Hp].
    split; [exact Ha|apply IH; [exact Hinv'|exact Hr|lia]].
  Qed.
End MoveTerm.

(* ---------------------------------------------------------------- programs over the read-through store *)
Section MoveTermRT.
  Variable Fin : key -> list write.

  Lemma handle_lock_rt_progress lands ts st k l :
    rinv Fin ts st ->
    store_get_rt (k_get (w_keys (st_w st)) k) ts (st_rs st) (st_cs st) = SLocked l ->
    let st' := handle_lock_rt lands ts st (k, l) in
    (patience (w_txns (st_w st')) <= patience (w_txns (st_w st)))%nat /\
    ((patience (w_txns (st_w st')) < patience (w_txns (st_w st)))%nat \/
     exists o, store_get_rt (k_get (w_keys (st_w st')) k) ts (st_rs st') (st_cs st') = SVal o).
  Proof.
    intros ((Htx & _) & _) Hs. unfold handle_lock_rt.
    pose proof (probe_progress (w_txns (st_w st)) (l_start l) ts Htx) as Hp.
    destruct (probe (w_txns (st_w st)) (l_start l)) as [tx' s]. destruct Hp as [Hp1 Hp2].
    set (keys' := if lands && finished s then k_set (w_keys (st_w st)) k (resolve_ks tx' (k_get (w_keys (st_w st)) k)) else w_keys (st_w st)).
    assert (Hl : ks_lock (k_get (w_keys (st_w st)) k) = Some l /\ memN (l_start l) (st_cs st) = false).
    { unfold store_get_rt in Hs. destruct (ks_lock (k_get (w_keys (st_w st)) k)) as [l0|]; [|discriminate].
      destruct (memN (l_start l0) (st_cs st)) eqn:Em; [destruct (l_kind l0); discriminate|].
      destruct (blocks l0 ts (st_rs st)); inversion Hs; subst. auto. }
    destruct Hl as [Hl Hm].
    assert (Hk : ks_lock (k_get keys' k) = None \/ k_get keys' k = k_get (w_keys (st_w st)) k).
    { unfold keys'. destruct (lands && finished s); [|right; reflexivity]. left. rewrite k_get_set.
      assert (Hkk : keqb k k = true) by (apply bytes_eqb_eq; reflexivity). rewrite Hkk.
      rewrite (k_get_present _ _ ltac:(rewrite Hl; discriminate)). reflexivity. }
    assert (Hres : forall rs' cs', ks_lock (k_get keys' k) = None -> exists o, store_get_rt (k_get keys' k) ts rs' cs' = SVal o).
    { intros rs' cs' Hn. unfold store_get_rt. rewrite Hn. eauto. }
    destruct (classify true s ts) eqn:Ec; cbn [st_w st_rs st_cs w_txns w_keys]; (split; [exact Hp1|]).
    - right. destruct Hk as [Hk|Hk]; [apply Hres; exact Hk|]. rewrite Hk. unfold store_get_rt. rewrite Hl, Hm.
      unfold blocks, memN. cbn [existsb]. rewrite N.eqb_refl. cbn [orb negb]. rewrite andb_false_r. eauto.
    - right. destruct Hk as [Hk|Hk]; [apply Hres; exact Hk|]. rewrite Hk. unfold store_get_rt. rewrite Hl.
      unfold memN. cbn [existsb]. rewrite N.eqb_refl. cbn [orb]. destruct (l_kind l); eauto.
    - destruct Hp2 as [Hp2|[Hp2|Hp2]]; [left; exact Hp2| |congruence].
      exfalso. exact (finished_not_wait s ts Hp2 Ec).
  Qed.

  Lemma get_rt_terminates ts lands : forall fuel i st k,
    rinv Fin ts st -> (patience (w_txns (st_w st)) + 2 <= fuel)%nat ->
    (exists o, fst (get_rt fuel lands i st ts k) = Some o) /\
    (patience (w_txns (st_w (snd (get_rt fuel lands i st ts k)))) <= patience (w_txns (st_w st)))%nat.
  Proof.
    induction fuel as [|f IH]; intros i st k Hinv Hf; [lia|]. cbn [get_rt].
    destruct (store_get_rt (k_get (w_keys (st_w st)) k) ts (st_rs st) (st_cs st)) as [o|l] eqn:Es.
    - cbn [fst snd]. split; [eauto|lia].
    - pose proof (handle_lock_rt_inv Fin (lands i) ts st k l Hinv) as Hinv'.
      destruct (handle_lock_rt_progress (lands i) ts st k l Hinv Es) as [Hp [Hlt|[o Ho]]].
      + destruct (IH (S i) _ k Hinv') as [H1 H2]; [lia|]. split; [exact H1|lia].
      + destruct f as [|f']; [lia|]. cbn [get_rt]. rewrite Ho. cbn [fst snd]. split; [eauto|exact Hp].
  Qed.

  Fixpoint q_answered (fuel : nat) (lands : nat -> bool) (st : N * rstate) (ops : list pop) : Prop :=
    match ops with
    | [] => True
    | o :: r => (forall k, o = PGet k -> exists a, fst (q_step fuel lands (fst st) (snd st) o) = Some a)
                /\ q_answered fuel lands (snd (q_step fuel lands (fst st) (snd st) o)) r
    end.

  Lemma q_program_answers fuel lands : forall ops st,
    rinv Fin (fst st) (snd st) -> q_envs fuel lands st ops ->
    (patience (w_txns (st_w (snd st))) + 2 <= fuel)%nat -> q_answered fuel lands st ops.
  Proof.
    induction ops as [|o r IH]; intros st Hinv Henv Hf; cbn [q_answered]; [exact I|].
    destruct Henv as [He Hr]. destruct (q_step_correct Fin fuel lands st o Hinv He) as [Hinv' _].
    destruct st as [ver st]. cbn [fst snd] in *.
    assert (Hstep : (forall k, o = PGet k -> exists a, fst (q_step fuel lands ver st o) = Some a) /\
                    (patience (w_txns (st_w (snd (snd (q_step fuel lands ver st o))))) <= patience (w_txns (st_w st)))%nat).
    { destruct o as [k|ts|t]; cbn [q_step].
      - destruct (get_rt_terminates ver lands fuel 0%nat st k Hinv Hf) as [[a Ha] Hp].
        destruct (get_rt fuel lands 0 st ver k) as [a' st'] eqn:Eg. cbn [fst snd] in *. split; [intros k' _; eauto|exact Hp].
      - cbn [fst snd st_w]. split; [intros k Hk; discriminate|lia].
      - cbn [fst snd st_w w_txns]. split; [intros k Hk; discriminate|apply patience_finish]. }
    destruct Hstep as [Ha Hp]. split; [exact Ha|apply IH; [exact Hinv'|exact Hr|lia]].
  Qed.
End MoveTermRT.
