(* SnapRead/ProofsWorldScan.v — the scanner over the world, part 2: consuming a batch with point gets,
   and the whole iteration in both directions. *)
From Coq Require Import Sorting.Sorted.
From Verif Require Import Base.Lex SnapRead.Model SnapRead.ModelRead SnapRead.ProofsOrd SnapRead.ProofsList
  SnapRead.ProofsScanF SnapRead.ProofsScanR SnapRead.ProofsScanLoop SnapRead.ProofsScanLoopR
  SnapRead.ProofsCache SnapRead.ProofsRead SnapRead.ProofsTerm SnapRead.ProofsWorld.

Lemma k_set_keys l k s : map fst (k_set l k s) = map fst l.
Proof.
  induction l as [|[a sa] l IH]; cbn [k_set map fst]; [reflexivity|].
  destruct (keqb a k); cbn [map fst]; [reflexivity|rewrite IH; reflexivity].
Qed.

Lemma handle_lock_keys ts st kl : map fst (w_keys (fst (handle_lock ts st kl))) = map fst (w_keys (fst st)).
Proof.
  destruct st as [w rs]. destruct kl as [k l]. unfold handle_lock.
  destruct (probe (w_txns w) (l_start l)) as [tx' s].
  assert (H : map fst (if finished s then k_set (w_keys w) k (resolve_ks tx' (k_get (w_keys w) k)) else w_keys w) = map fst (w_keys w))
    by (destruct (finished s); [apply k_set_keys|reflexivity]).
  destruct (classify true s ts); cbn [fst w_keys]; exact H.
Qed.

Section WorldScan.
  Variables (ts : N) (Fin : key -> list write).

  (* a point get that has enough fuel: returns the truth, keeps the invariant, does not raise the
     patience, keeps the key set *)
  Lemma get_mono : forall fuel w rs k, inv ts Fin (w, rs) ->
    (patience (w_txns (snd (fst (get fuel w rs ts k)))) <= patience (w_txns w))%nat /\
    map fst (w_keys (snd (fst (get fuel w rs ts k)))) = map fst (w_keys w).
  Proof.
    induction fuel as [|f IH]; intros w rs k Hinv; cbn [get]; [cbn [fst snd]; split; [lia|reflexivity]|].
    destruct (store_get (k_get (w_keys w) k) ts rs) as [o|l]; [cbn [fst snd]; split; [lia|reflexivity]|].
    pose proof (handle_lock_inv ts Fin (w, rs) (k, l) Hinv) as Hinv'.
    destruct Hinv as (Htx & _).
    destruct (handle_lock_effect ts (w, rs) k l Htx) as (_ & Hp & _).
    pose proof (handle_lock_keys ts (w, rs) (k, l)) as Hk.
    destruct (handle_lock ts (w, rs) (k, l)) as [w1 rs1]. cbn [fst snd] in *.
    destruct (IH w1 rs1 k Hinv') as [I1 I2]. split; [lia|congruence].
  Qed.

  Lemma get_total gfuel w rs k : inv ts Fin (w, rs) -> (patience (w_txns w) + 2 <= gfuel)%nat ->
    exists o w' rs', get gfuel w rs ts k = (Some o, w', rs') /\ o = vis (Fin k) ts /\ inv ts Fin (w', rs') /\
                     (patience (w_txns w') <= patience (w_txns w))%nat /\ map fst (w_keys w') = map fst (w_keys w).
  Proof.
    intros Hinv Hf. destruct (get_terminates ts gfuel Fin w rs k Hinv Hf) as (o & w' & rs' & Hg).
    destruct (get_correct ts Fin gfuel w rs k o w' rs' Hinv Hg) as [Ho Hinv'].
    destruct (get_mono gfuel w rs k Hinv) as [M1 M2]. rewrite Hg in M1, M2. cbn [fst snd] in M1, M2.
    exists o, w', rs'. split; [exact Hg|]. split; [exact Ho|]. split; [exact Hinv'|]. split; assumption.
  Qed.

  Lemma consume_w_spec gfuel ko c : forall ps st,
    inv ts Fin st -> (patience (w_txns (fst st)) + 2 <= gfuel)%nat ->
    (forall e, In e ps -> out_of_bound c (fst e) = false) ->
    (forall k o, In (k, Lk o) ps -> o = vis (Fin k) ts) ->
    exists st', consume_w gfuel ko ts c (map blank ps) st = Some (emit ko ps, false, st') /\
                inv ts Fin st' /\ (patience (w_txns (fst st')) <= patience (w_txns (fst st)))%nat /\
                map fst (w_keys (fst st')) = map fst (w_keys (fst st)).
  Proof.
    induction ps as [|[k r] ps IH]; intros st Hinv Hf Hb Hl; cbn [map consume_w].
    - exists st. split; [reflexivity|]. split; [exact Hinv|]. split; [lia|reflexivity].
    - rewrite fst_blank. pose proof (Hb (k, r) (or_introl eq_refl)) as Hbk. cbn [fst] in Hbk |- *. rewrite Hbk.
      assert (Hb' : forall e, In e ps -> out_of_bound c (fst e) = false) by (intros e He; apply Hb; right; exact He).
      assert (Hl' : forall k' o, In (k', Lk o) ps -> o = vis (Fin k') ts) by (intros k' o He; apply Hl; right; exact He).
      destruct r as [v|o]; cbn [blank snd fst].
      + destruct (IH st Hinv Hf Hb' Hl') as (st' & Hc & H1 & H2 & H3). rewrite Hc.
        exists st'. split; [reflexivity|]. split; [exact H1|]. split; assumption.
      + destruct st as [w rs]. cbn [fst snd] in *.
        destruct (get_total gfuel w rs k Hinv Hf) as (o' & w' & rs' & Hg & Ho & Hinv' & Hp & Hk).
        rewrite Hg. assert (Hf' : (patience (w_txns w') + 2 <= gfuel)%nat) by lia.
        destruct (IH (w', rs') Hinv' Hf' Hb' Hl') as (st' & Hc & H1 & H2 & H3). cbn [fst] in *. rewrite Hc.
        exists st'. split.
        * rewrite Ho, <- (Hl k o (or_introl eq_refl)). unfold emit. cbn [filter_map emit_row snd fst]. destruct o; reflexivity.
        * split; [exact H1|]. split; [lia|congruence].
  Qed.

  Variable T : truth.
  Hypothesis HT : forall k, read_at ts k T = vis (Fin k) ts.

  Lemma rows_of_lk lk k o : In (k, Lk o) (rows_of ts T lk) -> o = vis (Fin k) ts.
  Proof.
    unfold rows_of. set (f := fun _ : key * list write => _). intros H. rewrite <- HT.
    assert (Hf : forall a x, f a = Some x -> forall o', x = (k, Lk o') -> o' = read_at ts k T).
    { intros a x. unfold f. destruct (read_at ts (fst a) T) eqn:Er, (memk (fst a) lk); intros Hx; inversion Hx; subst;
        intros o' Ho'; inversion Ho'; subst; symmetry; exact Er. }
    revert H. generalize T at 1. intros l. induction l as [|a l IH]; cbn [filter_map]; [intros []|].
    destruct (f a) as [x|] eqn:Ea; [|exact IH]. intros [Hx|Hx]; [eapply Hf; [exact Ea|exact Hx]|apply IH; exact Hx].
  Qed.

  Variables (ko : bool) (B gfuel : nat) (P : list key) (retry : nat -> option retry_kind) (lay : nat -> layout).
  Hypothesis HB : (1 <= B)%nat.
  Hypothesis HTs : tsorted T.
  Hypothesis Hlay : forall i, incl (lay i) P.

  Definition stinv (st : world * list N) : Prop :=
    inv ts Fin st /\ map fst (w_keys (fst st)) = map fst T /\ (patience (w_txns (fst st)) + 2 <= gfuel)%nat.

  Definition Eexp (a b : key) : list (key * value) := map (canon ko) (expected ts a b T).

  Lemma ideal_emit lk a b : map (canon ko) (emit ko (filter (key_in a b) (rows_of ts T lk))) = Eexp a b.
  Proof. unfold Eexp, expected, key_in. apply (emit_rows_of ko ts T lk (in_range a b)). Qed.

  Lemma wfwd_loop : forall fuel i st c R,
    stinv st -> reverse c = false -> bounded_retry retry i R -> (mu' P (map fst T) c + R < fuel)%nat ->
    exists out, wscan_loop fuel gfuel B ko ts retry lay i st c = Done out /\
                map (canon ko) out = if eof c then [] else Eexp (next_start c) (end_key c).
  Proof.
    induction fuel as [|f IH]; intros i st c R Hst Hrev Hb Hmu; [lia|].
    cbn [wscan_loop]. destruct (eof c) eqn:Heof.
    - exists []. split; reflexivity.
    - destruct (retry i) as [k|] eqn:Er.
      { destruct (bounded_retry_some _ _ _ _ Hb Er) as (R' & -> & Hb').
        destruct (IH (S i) st c R' Hst Hrev Hb') as (out & H1 & H2); [lia|].
        exists out. split; [exact H1|]. rewrite H2, Heof. reflexivity. }
      pose proof (bounded_retry_none _ _ _ Hb Er) as Hb'.
      unfold mu' in Hmu. rewrite Heof in Hmu.
      destruct st as [w rs]. destruct Hst as (Hinv & HK & Hpat). cbn [fst snd] in *.
      set (lk := filter (lockedb w ts rs) (map fst T)).
      rewrite (wrows_ideal ts Fin T HT w rs Hinv HK). fold lk. rewrite get_data_blank.
      destruct (fwd_step ko B P (map fst T) HB (lay i) (rows_of ts T lk) c (rows_of_sorted ts T lk HTs) Hrev Heof (Hlay i)
                  (fun e => rows_of_keys ts T lk e))
        as (ps & c' & Hgd & Hrev' & Hend' & Hcons & Hsplit & Hdec).
      rewrite Hgd. cbn [gd_blank].
      assert (Hin : forall e, In e ps -> In e (rows_of ts T lk)).
      { intros e He. assert (H : In e (filter (key_in (next_start c) (end_key c)) (rows_of ts T lk))) by (rewrite Hsplit; apply in_or_app; left; exact He).
        apply filter_In in H. exact (proj1 H). }
      destruct (consume_w_spec gfuel ko c' ps (w, rs) Hinv Hpat (consume_all_in_bound ko c' ps _ Hcons)
                  (fun k o H => rows_of_lk lk k o (Hin _ H))) as (st' & Hcw & Hinv' & Hp' & Hk').
      rewrite Hcw. cbn [fst snd] in *.
      assert (Hst' : stinv st') by (split; [exact Hinv'|split; [congruence|lia]]).
      assert (Hmu' : (mu' P (map fst T) c' + R < f)%nat).
      { unfold mu'. destruct (eof c') eqn:E'; [lia|]. specialize (Hdec eq_refl). lia. }
      destruct (IH (S i) st' c' R Hst' Hrev' Hb' Hmu') as (out' & Hloop & Hout).
      exists (emit ko ps ++ out'). split; [apply prepend_done; exact Hloop|].
      rewrite map_app, Hout. rewrite <- (ideal_emit lk (next_start c) (end_key c)). rewrite Hsplit.
      rewrite emit_app, map_app. f_equal.
      destruct (eof c'); [reflexivity|]. rewrite Hend'. symmetry. apply ideal_emit.
  Qed.

  Hypothesis Hnn : forall e, In e T -> fst e <> [].

  Lemma wrev_loop : forall fuel i st c R,
    stinv st -> reverse c = true -> bounded_retry retry i R -> (mur' P (map fst T) c + R < fuel)%nat ->
    exists out, wscan_loop fuel gfuel B ko ts retry lay i st c = Done out /\
                map (canon ko) out = if eof c then [] else rev (Eexp (next_start c) (next_end c)).
  Proof.
    induction fuel as [|f IH]; intros i st c R Hst Hrev Hb Hmu; [lia|].
    cbn [wscan_loop]. destruct (eof c) eqn:Heof.
    - exists []. split; reflexivity.
    - destruct (retry i) as [k|] eqn:Er.
      { destruct (bounded_retry_some _ _ _ _ Hb Er) as (R' & -> & Hb').
        destruct (IH (S i) st c R' Hst Hrev Hb') as (out & H1 & H2); [lia|].
        exists out. split; [exact H1|]. rewrite H2, Heof. reflexivity. }
      pose proof (bounded_retry_none _ _ _ Hb Er) as Hb'.
      unfold mur' in Hmu. rewrite Heof in Hmu.
      destruct st as [w rs]. destruct Hst as (Hinv & HK & Hpat). cbn [fst snd] in *.
      set (lk := filter (lockedb w ts rs) (map fst T)).
      rewrite (wrows_ideal ts Fin T HT w rs Hinv HK). fold lk. rewrite get_data_blank.
      assert (Hne : forall e, In e (rows_of ts T lk) -> fst e <> []).
      { intros e He. apply rows_of_keys in He. apply in_map_iff in He. destruct He as (a & Ha1 & Ha2). rewrite <- Ha1. apply Hnn. exact Ha2. }
      destruct (rev_step ko B P (map fst T) HB (lay i) (rows_of ts T lk) c (rows_of_sorted ts T lk HTs) Hne Hrev Heof (Hlay i)
                  (fun e => rows_of_keys ts T lk e))
        as (ps & c' & Hgd & Hrev' & Hlo' & Hcons & Hsplit & Hdec).
      rewrite Hgd. cbn [gd_blank].
      assert (Hin : forall e, In e ps -> In e (rows_of ts T lk)).
      { intros e He. assert (H : In e (rev (filter (key_in (next_start c) (next_end c)) (rows_of ts T lk)))) by (rewrite Hsplit; apply in_or_app; left; exact He).
        apply in_rev in H. apply filter_In in H. exact (proj1 H). }
      destruct (consume_w_spec gfuel ko c' ps (w, rs) Hinv Hpat (consume_all_in_bound ko c' ps _ Hcons)
                  (fun k o H => rows_of_lk lk k o (Hin _ H))) as (st' & Hcw & Hinv' & Hp' & Hk').
      rewrite Hcw. cbn [fst snd] in *.
      assert (Hst' : stinv st') by (split; [exact Hinv'|split; [congruence|lia]]).
      assert (Hmu' : (mur' P (map fst T) c' + R < f)%nat).
      { unfold mur'. destruct (eof c') eqn:E'; [lia|]. destruct (Hdec eq_refl). lia. }
      destruct (IH (S i) st' c' R Hst' Hrev' Hb' Hmu') as (out' & Hloop & Hout).
      exists (emit ko ps ++ out'). split; [apply prepend_done; exact Hloop|].
      assert (Hrevspec : forall a b, rev (Eexp a b) = map (canon ko) (filter_map (emit_row ko) (rev (filter (key_in a b) (rows_of ts T lk))))).
      { intros a b. rewrite <- (ideal_emit lk a b). unfold emit. rewrite filter_map_rev, map_rev. reflexivity. }
      rewrite map_app, Hout. rewrite (Hrevspec (next_start c) (next_end c)). rewrite Hsplit.
      rewrite filter_map_app, map_app. f_equal.
      destruct (eof c'); [reflexivity|]. rewrite Hlo'. apply Hrevspec.
  Qed.
End WorldScan.
