(* SnapRead/ProofsCache.v — classification table soundness and cache transparency. *)
From Verif Require Import Base.Lex SnapRead.Model SnapRead.ModelRead.

(* ---------------------------------------------------------------- classification *)
Lemma classify_sound fr s ts :
  (classify fr s ts = Ignore ->
     is_rolled_back s = true \/ (is_committed s = true /\ ts < st_commit s) \/ is_pushed s = true) /\
  (classify fr s ts = Access -> is_committed s = true /\ st_commit s <= ts) /\
  ((is_rolled_back s = true \/ (is_committed s = true /\ st_ttl s = 0)) -> classify fr s ts <> Wait).
Proof.
  unfold classify.
  destruct (negb fr && negb (st_ttl s =? 0)) eqn:E0.
  - split; [discriminate|]. split; [discriminate|].
    apply andb_true_iff in E0. destruct E0 as [_ E0]. apply negb_true_iff in E0. apply N.eqb_neq in E0.
    intros [H|[_ H]]; [|congruence]. unfold is_rolled_back in H.
    apply andb_true_iff in H. destruct H as [H _]. apply andb_true_iff in H. destruct H as [H _].
    apply N.eqb_eq in H. congruence.
  - destruct (is_pushed s) eqn:Ep; cbn [orb].
    + split; [auto|]. split; discriminate.
    + destruct (is_rolled_back s) eqn:Er; cbn [orb].
      * split; [auto|]. split; discriminate.
      * destruct (is_committed s) eqn:Ec; cbn [andb].
        -- destruct (ts <? st_commit s) eqn:E1.
           ++ apply N.ltb_lt in E1. split; [auto|]. split; discriminate.
           ++ apply N.ltb_ge in E1. assert (E2 : (st_commit s <=? ts) = true) by (apply N.leb_le; exact E1).
              rewrite E2. split; [discriminate|]. split; [auto|]. discriminate.
        -- split; [discriminate|]. split; [discriminate|]. intros [H|[H _]]; discriminate.
Qed.

Lemma later_lock_ignored l ts rs : ts < l_start l -> blocks l ts rs = false.
Proof. intros H. unfold blocks. apply N.ltb_lt in H. rewrite H. reflexivity. Qed.

Lemma pessimistic_never_blocks l ts rs : l_kind l = LPess \/ l_kind l = LLock -> blocks l ts rs = false.
Proof. intros [H|H]; unfold blocks; rewrite H; apply andb_false_iff; left; apply andb_false_r. Qed.

(* ---------------------------------------------------------------- cache *)
Section CacheProofs.
  Variable rd : N -> key -> option value.
  Variable sp : N.

  Definition cache_ok (s : snap) : Prop :=
    (forall k v, cache_lookup s k = Some v -> opt_of v = norm (rd (version s) k) /\ sp <= version s) /\
    (version s = maxts -> cached s = None).

  Lemma opt_val_norm o : opt_of (val_of (norm o)) = norm o.
  Proof. destruct o as [[|b v]|]; reflexivity. Qed.

  Lemma keqb_eq a b : keqb a b = true -> a = b.
  Proof. apply bytes_eqb_eq. Qed.

  Lemma c_lookup_app a b k : c_lookup (a ++ b) k = match c_lookup a k with Some v => Some v | None => c_lookup b k end.
  Proof.
    induction a as [|[k' v] a IH]; cbn [app c_lookup]; [reflexivity|].
    destruct (keqb k' k); [reflexivity|exact IH].
  Qed.

  Lemma cache_update_ok s kvs :
    cache_ok s -> sp <= version s ->
    (forall k v, c_lookup kvs k = Some v -> opt_of v = norm (rd (version s) k)) ->
    cache_ok (cache_update s kvs) /\ version (cache_update s kvs) = version s.
  Proof.
    intros [H1 H2] Hsp Hk. unfold cache_update. destruct (version s =? maxts) eqn:E.
    - split; [split; assumption|reflexivity].
    - split; [|reflexivity]. split; cbn [version cached].
      + intros k v. unfold cache_lookup. cbn [cached]. rewrite c_lookup_app.
        destruct (c_lookup kvs k) as [v'|] eqn:E1.
        * intros Hv. inversion Hv; subst. split; [apply Hk; exact E1|exact Hsp].
        * intros Hv. apply H1. unfold cache_lookup. destruct (cached s); [exact Hv|discriminate].
      + intros Hm. apply N.eqb_neq in E. congruence.
  Qed.

  Lemma c_step_ok s o : cache_ok s ->
    fst (c_step rd sp s o) = fst (u_step rd sp (version s) o) /\
    cache_ok (snd (c_step rd sp s o)) /\ version (snd (c_step rd sp s o)) = snd (u_step rd sp (version s) o).
  Proof.
    intros Hok. destruct o as [k|ks|ts|k|ks got]; cbn [c_step u_step];
      try (cbn [fst snd]; split; [reflexivity|split; [exact Hok|reflexivity]]).
    - unfold c_get. destruct (cache_lookup s k) as [v|] eqn:E; cbn [fst snd].
      + destruct (proj1 Hok k v E) as [Hv Hsp]. assert (Hlt : (version s <? sp) = false) by (apply N.ltb_ge; exact Hsp).
        rewrite Hlt. split; [f_equal; exact Hv|]. split; [exact Hok|reflexivity].
      + destruct (version s <? sp) eqn:Hlt; cbn [fst snd]; [split; [reflexivity|split; [exact Hok|reflexivity]]|].
        apply N.ltb_ge in Hlt.
        destruct (cache_update_ok s [(k, val_of (norm (rd (version s) k)))] Hok Hlt) as [H1 H2].
        { intros k' v. cbn [c_lookup]. destruct (keqb k k') eqn:Ek; [|discriminate].
          apply keqb_eq in Ek. subst k'. intros Hv. inversion Hv. apply opt_val_norm. }
        split; [reflexivity|]. split; assumption.
    - unfold c_batch. set (miss := filter _ ks).
      assert (Hans : map (fun k => (k, match cache_lookup s k with Some v => opt_of v | None => norm (rd (version s) k) end)) ks
                     = map (fun k => (k, norm (rd (version s) k))) ks).
      { apply map_ext_in. intros k _. destruct (cache_lookup s k) as [v|] eqn:E; [|reflexivity].
        f_equal. apply (proj1 Hok k v E). }
      rewrite Hans.
      destruct miss as [|m miss'] eqn:Em.
      + (* everything cached: served before the visibility check *)
        cbn [fst snd]. split; [|split; [exact Hok|reflexivity]].
        destruct ks as [|k0 ks']; [reflexivity|].
        assert (Hc : exists v, cache_lookup s k0 = Some v).
        { destruct (cache_lookup s k0) as [v|] eqn:E0; [eauto|]. exfalso.
          assert (Hin : In k0 miss) by (unfold miss; apply filter_In; split; [left; reflexivity|rewrite E0; reflexivity]).
          rewrite Em in Hin. destruct Hin. }
        destruct Hc as [v Hv]. destruct (proj1 Hok k0 v Hv) as [_ Hsp].
        assert (Hlt : (version s <? sp) = false) by (apply N.ltb_ge; exact Hsp). rewrite Hlt. reflexivity.
      + assert (Hks : ks <> []).
        { intros ->. unfold miss in Em. cbn in Em. discriminate. }
        destruct (version s <? sp) eqn:Hlt; cbn [fst snd].
        * split; [destruct ks; [congruence|reflexivity]|]. split; [exact Hok|reflexivity].
        * split; [destruct ks; [congruence|reflexivity]|]. rewrite <- Em. apply N.ltb_ge in Hlt.
          apply cache_update_ok; [exact Hok|exact Hlt|].
          intros k v. generalize miss. intros l. induction l as [|a l IH]; cbn [map c_lookup]; [discriminate|].
          destruct (keqb a k) eqn:Ek; [|exact IH].
          apply keqb_eq in Ek. subst a. intros Hv. inversion Hv. apply opt_val_norm.
    - cbn [fst snd]. split; [reflexivity|]. split; [|reflexivity].
      split; cbn [version cached cache_lookup]; [discriminate|reflexivity].
  Qed.

  Lemma cache_transparent : forall ops s, cache_ok s ->
    c_run rd sp s ops = u_run rd sp (version s) ops /\ cache_ok (c_final rd sp s ops).
  Proof.
    induction ops as [|o ops IH]; intros s Hok; cbn [c_run u_run c_final]; [split; [reflexivity|exact Hok]|].
    destruct (c_step_ok s o Hok) as (H1 & H2 & H3).
    destruct (c_step rd sp s o) as [x s'] eqn:E1. destruct (u_step rd sp (version s) o) as [y v'] eqn:E2.
    cbn [fst snd] in *. subst y v'. destruct (IH s' H2) as [H4 H5]. split; [f_equal; exact H4|exact H5].
  Qed.

  Lemma fresh_ok ts : cache_ok (mkSnap ts None).
  Proof. split; cbn [cache_lookup cached version]; [discriminate|reflexivity]. Qed.

  (* a read refused by the safe point stays refused on re-read, Get and BatchGet (non-empty key list),
     whatever was read before on that snapshot object *)
  Lemma refused_stays : forall s, cache_ok s -> version s < sp ->
    (forall k, c_step rd sp s (CGet k) = (RRefused, s)) /\
    (forall ks, ks <> [] -> c_step rd sp s (CBatchGet ks) = (RRefused, s)).
  Proof.
    intros s Hok Hlt. assert (Hnone : forall k, cache_lookup s k = None).
    { intros k. destruct (cache_lookup s k) as [v|] eqn:E; [|reflexivity]. destruct (proj1 Hok k v E) as [_ H]. lia. }
    assert (Hb : (version s <? sp) = true) by (apply N.ltb_lt; exact Hlt).
    split.
    - intros k. cbn [c_step]. unfold c_get. rewrite Hnone, Hb. reflexivity.
    - intros ks Hks. cbn [c_step]. unfold c_batch.
      destruct ks as [|k0 ks']; [congruence|]. cbn [filter]. rewrite Hnone. rewrite Hb. reflexivity.
  Qed.
End CacheProofs.
