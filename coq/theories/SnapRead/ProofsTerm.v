(* SnapRead/ProofsTerm.v — termination of point get and batch get.
   Environment assumption (built into the world): a live transaction stays alive for a finite number of
   status checks (TAlive n), after which it is finished; [patience] is the total number of such
   waiting rounds.  Region errors: the schedule contains at most E of them from the current step on. *)
From Verif Require Import Base.Lex SnapRead.Model SnapRead.ModelRead SnapRead.ProofsList SnapRead.ProofsCache SnapRead.ProofsRead.

Definition pat (s : tstate) : nat := match s with TAlive n _ => S n | _ => 0%nat end.
Fixpoint patience (tx : list (N * tstate)) : nat :=
  match tx with [] => 0%nat | (_, s) :: r => (pat s + patience r)%nat end.

Lemma patience_set tx t old s' :
  tx_get tx t = Some old -> (patience (tx_set tx t s') + pat old = patience tx + pat s')%nat.
Proof.
  induction tx as [|[a sa] tx IH]; cbn [tx_get tx_set patience]; [discriminate|].
  destruct (a =? t); cbn [patience].
  - intros H; inversion H; subst. lia.
  - intros H. specialize (IH H). lia.
Qed.

(* what one status check does to the patience, and when it does not wait *)
Lemma probe_progress tx t ts : txs_ok tx ts ->
  let '(tx', s) := probe tx t in
  (patience tx' <= patience tx)%nat /\
  ((patience tx' < patience tx)%nat \/ finished s = true \/ classify true s ts = Ignore).
Proof.
  intros Hok. unfold probe. destruct (tx_get tx t) as [st|] eqn:Eg.
  2:{ split; [lia|]. right; left. reflexivity. }
  assert (Hfin : forall f a, eventual st = f -> (a = NoAction \/ a = TTLExpireRollback) -> finished (st_of_fin f a) = true).
  { intros f a Hf Ha. destruct f as [|c]; cbn.
    - destruct Ha as [->| ->]; reflexivity.
    - destruct (Hok t st Eg) as [Hc _]. specialize (Hc c Hf). unfold finished, is_committed. cbn.
      assert (E : (0 <? c) = true) by (apply N.ltb_lt; lia). rewrite E. reflexivity. }
  destruct st as [f|f|[|n] f].
  - split; [lia|]. right; left. apply (Hfin f NoAction eq_refl). auto.
  - split; [lia|]. right; right. reflexivity.
  - pose proof (patience_set tx t _ (TFinished f) Eg) as Hp. cbn [pat] in Hp. split; [lia|]. left. lia.
  - pose proof (patience_set tx t _ (TAlive n f) Eg) as Hp. cbn [pat] in Hp. split; [lia|]. left. lia.
Qed.

Section Term.
  Variable ts : N.

  Definition blockedb (st : world * list N) (k : key) : bool :=
    match store_get (k_get (w_keys (fst st)) k) ts (snd st) with SLocked _ => true | SVal _ => false end.

  Lemma blocks_mono l t rs : blocks l ts (t :: rs) = true -> blocks l ts rs = true.
  Proof.
    unfold blocks, memN. cbn [existsb]. intros H. apply andb_true_iff in H. destruct H as [H1 H2].
    rewrite H1. cbn [andb]. apply negb_true_iff in H2. apply orb_false_iff in H2. destruct H2 as [_ H2]. rewrite H2. reflexivity.
  Qed.

  Lemma store_get_mono s t rs : (exists l, store_get s ts (t :: rs) = SLocked l) -> exists l, store_get s ts rs = SLocked l.
  Proof.
    unfold store_get. destruct (ks_lock s) as [l|]; [|intros [l H]; discriminate].
    destruct (blocks l ts (t :: rs)) eqn:E; [|intros [l' H]; discriminate].
    rewrite (blocks_mono _ _ _ E). intros _. eauto.
  Qed.

  Lemma k_get_present l k : ks_lock (k_get l k) <> None -> existsb (fun e => keqb (fst e) k) l = true.
  Proof.
    intros H. destruct (existsb (fun e => keqb (fst e) k) l) eqn:E; [reflexivity|].
    rewrite (k_get_absent _ _ E) in H. cbn in H. congruence.
  Qed.

  (* the effect of handling one lock: nothing gets blocked that was not, the patience does not
     grow, and for the key of a genuinely met lock there is progress *)
  Lemma handle_lock_effect st k l :
    txs_ok (w_txns (fst st)) ts ->
    let st' := handle_lock ts st (k, l) in
    (forall k', blockedb st' k' = true -> blockedb st k' = true) /\
    (patience (w_txns (fst st')) <= patience (w_txns (fst st)))%nat /\
    (store_get (k_get (w_keys (fst st)) k) ts (snd st) = SLocked l ->
       (patience (w_txns (fst st')) < patience (w_txns (fst st)))%nat \/ blockedb st' k = false).
  Proof.
    destruct st as [w rs]. cbn [fst snd]. intros Htx. unfold handle_lock.
    pose proof (probe_progress (w_txns w) (l_start l) ts Htx) as Hp.
    destruct (probe (w_txns w) (l_start l)) as [tx' s]. destruct Hp as [Hp1 Hp2].
    set (keys' := if finished s then k_set (w_keys w) k (resolve_ks tx' (k_get (w_keys w) k)) else w_keys w).
    assert (Hkeys : forall k' rs', (exists l', store_get (k_get keys' k') ts rs' = SLocked l') ->
                                   exists l', store_get (k_get (w_keys w) k') ts rs' = SLocked l').
    { intros k' rs'. unfold keys'. destruct (finished s); [|auto].
      rewrite k_get_set. destruct (keqb k k') eqn:Ek; [|auto].
      destruct (existsb _ (w_keys w)); intros [l' H]; cbn in H; discriminate. }
    assert (Hmono : forall rs', (rs' = rs \/ rs' = l_start l :: rs) ->
              forall k', blockedb (mkWorld keys' tx', rs') k' = true -> blockedb (w, rs) k' = true).
    { intros rs' Hrs k'. unfold blockedb. cbn [fst snd w_keys].
      destruct (store_get (k_get keys' k') ts rs') as [o|l'] eqn:E1; [discriminate|]. intros _.
      destruct (Hkeys k' rs' (ex_intro _ l' E1)) as [l2 H2].
      destruct Hrs as [->| ->]; [rewrite H2; reflexivity|].
      destruct (store_get_mono _ _ _ (ex_intro _ l2 H2)) as [l3 H3]. rewrite H3. reflexivity. }
    assert (Hres : finished s = true -> ks_lock (k_get (w_keys w) k) <> None -> forall rs', blockedb (mkWorld keys' tx', rs') k = false).
    { intros Hf Hl rs'. unfold blockedb, keys'. cbn [fst snd w_keys]. rewrite Hf, k_get_set.
      assert (Hkk : keqb k k = true) by (apply bytes_eqb_eq; reflexivity).
      rewrite Hkk, (k_get_present _ _ Hl). reflexivity. }
    destruct (classify true s ts) eqn:Ec; cbn [fst snd w_txns];
      (split; [apply Hmono; auto|]); (split; [exact Hp1|]); intros Hs;
      assert (Hl : ks_lock (k_get (w_keys w) k) = Some l)
        by (unfold store_get in Hs; destruct (ks_lock (k_get (w_keys w) k)) as [l0|]; [destruct (blocks l0 ts rs); inversion Hs; reflexivity|discriminate]).
    - (* Ignore: the transaction is in the resolved set now *)
      right. destruct (finished s) eqn:Ef; [apply Hres; [reflexivity|congruence]|].
      unfold blockedb, keys'. cbn [fst snd w_keys]. unfold store_get. rewrite Hl.
      unfold blocks, memN. cbn [existsb]. rewrite N.eqb_refl. cbn [orb negb]. rewrite andb_false_r. reflexivity.
    - destruct Hp2 as [Hp2|[Hp2|Hp2]]; [left; exact Hp2| |congruence].
      right. apply Hres; [exact Hp2|congruence].
    - destruct Hp2 as [Hp2|[Hp2|Hp2]]; [left; exact Hp2| |congruence].
      right. apply Hres; [exact Hp2|congruence].
  Qed.

  (* ---------------------------------------------------------------- point get *)
  Lemma get_terminates : forall fuel Fin w rs k,
    inv ts Fin (w, rs) -> (patience (w_txns w) + 2 <= fuel)%nat ->
    exists o w' rs', get fuel w rs ts k = (Some o, w', rs').
  Proof.
    induction fuel as [|f IH]; intros Fin w rs k Hinv Hf; [lia|]. cbn [get].
    destruct (store_get (k_get (w_keys w) k) ts rs) as [o|l] eqn:Es; [eauto|].
    pose proof (handle_lock_inv ts Fin (w, rs) (k, l) Hinv) as Hinv'.
    destruct Hinv as (Htx & _).
    destruct (handle_lock_effect (w, rs) k l Htx) as (_ & Hpat & Hprog). cbn [fst snd] in *.
    destruct (handle_lock ts (w, rs) (k, l)) as [w1 rs1]. cbn [fst snd] in *.
    destruct (Hprog Es) as [Hlt|Hub].
    - apply (IH Fin); [exact Hinv'|lia].
    - destruct f as [|f']; [lia|]. cbn [get]. unfold blockedb in Hub. cbn [fst snd] in Hub.
      destruct (store_get (k_get (w_keys w1) k) ts rs1); [eauto|discriminate].
  Qed.

  (* ---------------------------------------------------------------- batch get *)
  Definition nblocked (st : world * list N) (ks : list key) : nat := length (filter (blockedb st) ks).

  Fixpoint count_err (ev : nat -> bg_event) (i n : nat) : nat :=
    match n with
    | O => 0%nat
    | S n' => ((match ev i with EvRegionErr _ | EvBatchLocked _ => 1 | EvOk => 0 end) + count_err ev (S i) n')%nat
    end.
  (* at most E region errors / whole-batch lock answers from step i on *)
  Definition bounded_errs (ev : nat -> bg_event) (i E : nat) : Prop := forall n, (count_err ev i n <= E)%nat.

  Lemma bounded_ok ev i E : bounded_errs ev i E -> ev i = EvOk -> bounded_errs ev (S i) E.
  Proof. intros H He n. specialize (H (S n)). cbn [count_err] in H. rewrite He in H. exact H. Qed.
  Lemma bounded_err ev i E : bounded_errs ev i E -> ev i <> EvOk ->
    exists E', E = S E' /\ bounded_errs ev (S i) E'.
  Proof.
    intros H He0. assert (He : match ev i with EvRegionErr _ | EvBatchLocked _ => 1%nat | EvOk => 0%nat end = 1%nat) by (destruct (ev i); congruence).
    destruct E as [|E'].
    - specialize (H 1%nat). cbn [count_err] in H. rewrite He in H. lia.
    - exists E'. split; [reflexivity|]. intros n. specialize (H (S n)). cbn [count_err] in H. rewrite He in H. lia.
  Qed.

  Lemma serve_locked w rs b : map fst (snd (serve w rs ts b)) = filter (blockedb (w, rs)) b.
  Proof.
    induction b as [|k b IH]; cbn [serve filter]; [reflexivity|].
    destruct (serve w rs ts b) as [vals locked]. unfold blockedb at 1. cbn [fst snd] in *.
    destruct (store_get (k_get (w_keys w) k) ts rs) as [[v|]|l]; cbn [snd map fst]; rewrite ?IH; reflexivity.
  Qed.

  Lemma serve_locked_in w rs b k l : In (k, l) (snd (serve w rs ts b)) -> store_get (k_get (w_keys w) k) ts rs = SLocked l.
  Proof.
    induction b as [|a b IH]; cbn [serve]; [intros []|].
    destruct (serve w rs ts b) as [vals locked]. cbn [snd] in IH.
    destruct (store_get (k_get (w_keys w) a) ts rs) as [[v|]|l0] eqn:Ea; cbn [snd]; try exact IH.
    intros [H|H]; [inversion H; subst; exact Ea|apply IH; exact H].
  Qed.

  Lemma fold_effect locked : forall st, txs_ok (w_txns (fst st)) ts -> (forall Fin, inv ts Fin st -> True) ->
    forall Fin, inv ts Fin st ->
    let st' := fold_left (handle_lock ts) locked st in
    (forall k', blockedb st' k' = true -> blockedb st k' = true) /\
    (patience (w_txns (fst st')) <= patience (w_txns (fst st)))%nat.
  Proof.
    induction locked as [|[k l] locked IH]; intros st Htx _ Fin Hinv; cbn [fold_left]; [split; [auto|lia]|].
    destruct (handle_lock_effect st k l Htx) as (H1 & H2 & _).
    pose proof (handle_lock_inv ts Fin st (k, l) Hinv) as Hinv'.
    assert (Htx' : txs_ok (w_txns (fst (handle_lock ts st (k, l)))) ts).
    { destruct (handle_lock ts st (k, l)) as [w1 rs1]. destruct Hinv' as (H & _). exact H. }
    destruct (IH _ Htx' (fun _ _ => I) Fin Hinv') as (H3 & H4).
    split; [intros k' Hk; apply H1; apply H3; exact Hk|lia].
  Qed.

  Lemma concat_nonempty_len (pend : list (list key)) :
    Forall (fun b => b <> []) pend -> (length pend <= length (concat pend))%nat.
  Proof.
    induction 1 as [|b pend Hb _ IH]; cbn [concat length]; [lia|].
    rewrite app_length. destruct b; [congruence|]. cbn [length]. lia.
  Qed.

  Lemma insert_group_props L k gs :
    Forall (fun b => b <> []) gs ->
    Forall (fun b => b <> []) (insert_group L k gs) /\ length (concat (insert_group L k gs)) = S (length (concat gs)).
  Proof.
    induction 1 as [|g gs Hg Hgs IH]; cbn [insert_group concat].
    - split; [constructor; [discriminate|constructor]|reflexivity].
    - destruct g as [|a g']; [congruence|]. destruct (same_region L a k); cbn [concat].
      + split; [constructor; [destruct g'; discriminate|exact Hgs]|]. rewrite !app_length. cbn [length]. lia.
      + destruct IH as [I1 I2]. split; [constructor; [discriminate|exact I1]|]. rewrite !app_length, I2. cbn [length]. lia.
  Qed.

  Lemma group_keys_props L b :
    Forall (fun g => g <> []) (group_keys L b) /\ length (concat (group_keys L b)) = length b.
  Proof.
    unfold group_keys.
    assert (H : forall gs, Forall (fun g => g <> []) gs ->
              Forall (fun g => g <> []) (fold_left (fun gs k => insert_group L k gs) b gs) /\
              length (concat (fold_left (fun gs k => insert_group L k gs) b gs)) = (length b + length (concat gs))%nat).
    { induction b as [|a b IH]; intros gs Hgs; cbn [fold_left length]; [auto|].
      destruct (insert_group_props L a gs Hgs) as [I1 I2]. destruct (IH _ I1) as [J1 J2]. split; [exact J1|]. rewrite J2, I2. lia. }
    destruct (H [] (Forall_nil _)) as [H1 H2]. split; [exact H1|]. rewrite H2. cbn. lia.
  Qed.

  Lemma nblocked_le st ks : (nblocked st ks <= length ks)%nat.
  Proof. unfold nblocked. induction ks as [|a ks IH]; cbn [filter length]; [lia|]. destruct (blockedb st a); cbn [length]; lia. Qed.

  Lemma bget_terminates K : forall fuel Fin ev i w rs pend acc E,
    inv ts Fin (w, rs) -> bounded_errs ev i E ->
    Forall (fun b => b <> []) pend -> (length (concat pend) <= K)%nat ->
    (E * (2 * K + 1) + patience (w_txns w) + nblocked (w, rs) (concat pend) + length pend < fuel)%nat ->
    exists res w' rs', bget fuel ev i w rs ts pend acc = (Some res, w', rs').
  Proof.
    induction fuel as [|f IH]; intros Fin ev i w rs pend acc E Hinv Herr Hne HK Hf; [lia|]. cbn [bget].
    destruct pend as [|b rest]; [eauto|].
    inversion Hne as [|? ? Hb Hrest]; subst. cbn [concat length] in *. rewrite app_length in HK.
    destruct (ev i) as [|L|kl] eqn:Eev.
    - pose proof (serve_locked w rs b) as Hsl. pose proof (serve_locked_in w rs b) as Hsi.
      destruct (serve w rs ts b) as [vals locked]. cbn [snd] in Hsl, Hsi.
      pose proof (fold_handle_inv ts Fin locked (w, rs) Hinv) as Hinv'.
      assert (Htx : txs_ok (w_txns w) ts) by (destruct Hinv as (H & _); exact H).
      unfold nblocked in Hf. rewrite filter_app, app_length in Hf.
      destruct locked as [|[k1 l1] more].
      + cbn [fold_left] in *. cbv beta iota. eapply (IH Fin); [exact Hinv|exact (bounded_ok _ _ _ Herr Eev)|exact Hrest|lia|].
        unfold nblocked. lia.
      + (* progress on the first lock, monotonicity on the others *)
        cbn [fold_left] in *.
        assert (Hl1 : store_get (k_get (w_keys w) k1) ts rs = SLocked l1) by (apply Hsi; left; reflexivity).
        destruct (handle_lock_effect (w, rs) k1 l1 Htx) as (M1 & P1 & Prog1). cbn [fst snd] in *.
        specialize (Prog1 Hl1).
        pose proof (handle_lock_inv ts Fin (w, rs) (k1, l1) Hinv) as Hinv1.
        set (st1 := handle_lock ts (w, rs) (k1, l1)) in *.
        assert (Htx1 : txs_ok (w_txns (fst st1)) ts) by (destruct st1 as [w1 rs1]; destruct Hinv1 as (H & _); exact H).
        destruct (fold_effect more st1 Htx1 (fun _ _ => I) Fin Hinv1) as (M2 & P2).
        set (st' := fold_left (handle_lock ts) more st1) in *.
        destruct st' as [w' rs'] eqn:Est'. cbn [fst snd] in *.
        set (lk := map fst ((k1, l1) :: more)) in *.
        assert (Hlklen : (length lk <= length (filter (blockedb (w, rs)) b))%nat) by (rewrite Hsl; lia).
        assert (Hlkb : (length (filter (blockedb (w, rs)) b) <= length b)%nat).
        { clear. induction b as [|a b IH]; cbn [filter length]; [lia|]. destruct (blockedb (w, rs) a); cbn [length]; lia. }
        eapply (IH Fin); [exact Hinv'|exact (bounded_ok _ _ _ Herr Eev)|constructor; [unfold lk; discriminate|exact Hrest]| |].
        * cbn [concat]. rewrite app_length. lia.
        * cbn [concat length]. unfold nblocked.
          assert (Hmono : forall k', blockedb (w', rs') k' = true -> blockedb (w, rs) k' = true) by (intros k' Hk; apply M1; apply M2; exact Hk).
          assert (Hle : (length (filter (blockedb (w', rs')) (lk ++ concat rest)) <= length (filter (blockedb (w, rs)) (lk ++ concat rest)))%nat)
            by (apply count_le; intros x _; apply Hmono).
          assert (Hlk2 : (length (filter (blockedb (w, rs)) (lk ++ concat rest)) <= length lk + length (filter (blockedb (w, rs)) (concat rest)))%nat).
          { rewrite filter_app, app_length. pose proof (nblocked_le (w, rs) lk). unfold nblocked in H. lia. }
          destruct Prog1 as [Hlt|Hub].
          -- lia.
          -- assert (Hub' : blockedb (w', rs') k1 = false).
             { destruct (blockedb (w', rs') k1) eqn:Eb; [|reflexivity]. rewrite (M2 k1 Eb) in Hub. discriminate. }
             assert (Hg : blockedb (w, rs) k1 = true) by (unfold blockedb; cbn [fst snd]; rewrite Hl1; reflexivity).
             assert (Hstrict : (length (filter (blockedb (w', rs')) (lk ++ concat rest)) < length (filter (blockedb (w, rs)) (lk ++ concat rest)))%nat).
             { apply (count_lt _ _ _ k1); [intros x _; apply Hmono|apply in_or_app; left; left; reflexivity|exact Hg|exact Hub']. }
             lia.
    - destruct (bounded_err _ _ _ Herr ltac:(rewrite Eev; discriminate)) as (E' & -> & Herr').
      set (gs := if one_region L b then [b] else group_keys L b).
      assert (Hgs : Forall (fun g => g <> []) gs /\ length (concat gs) = length b).
      { unfold gs. destruct (one_region L b); [|apply group_keys_props]. split; [constructor; [exact Hb|constructor]|cbn; rewrite app_nil_r; reflexivity]. }
      destruct Hgs as [G1 G2].
      assert (Hne' : Forall (fun g => g <> []) (gs ++ rest)) by (apply Forall_app; split; assumption).
      assert (HK' : (length (concat (gs ++ rest)) <= K)%nat) by (rewrite concat_app, app_length, G2; exact HK).
      eapply (IH Fin); [exact Hinv|exact Herr'|exact Hne'|exact HK'|].
      pose proof (nblocked_le (w, rs) (concat (gs ++ rest))). pose proof (concat_nonempty_len _ Hne'). cbn [Nat.mul] in Hf. nia.
    - (* whole-batch lock answer: the batch stays, the potential does not grow, one event is used up *)
      destruct (bounded_err _ _ _ Herr ltac:(rewrite Eev; discriminate)) as (E' & -> & Herr').
      assert (Htx : txs_ok (w_txns w) ts) by (destruct Hinv as (H & _); exact H).
      assert (Hst : exists st', st' = (match store_get (k_get (w_keys w) kl) ts rs with
                             | SLocked l => handle_lock ts (w, rs) (kl, l) | SVal _ => (w, rs) end) /\
                    inv ts Fin st' /\ (forall k', blockedb st' k' = true -> blockedb (w, rs) k' = true) /\
                    (patience (w_txns (fst st')) <= patience (w_txns w))%nat).
      { destruct (store_get (k_get (w_keys w) kl) ts rs) as [o|l].
        - exists (w, rs). split; [reflexivity|]. split; [exact Hinv|]. split; [auto|cbn; lia].
        - exists (handle_lock ts (w, rs) (kl, l)). split; [reflexivity|]. split; [apply handle_lock_inv; exact Hinv|].
          destruct (handle_lock_effect (w, rs) kl l Htx) as (M1 & P1 & _). split; [exact M1|exact P1]. }
      destruct Hst as (st' & <- & Hinv' & M & Pp). destruct st' as [w1 rs1]. cbn [fst snd] in *.
      eapply (IH Fin); [exact Hinv'|exact Herr'|exact Hne|cbn [concat]; rewrite app_length; exact HK|].
      cbn [concat length]. unfold nblocked in *.
      assert (Hle : (length (filter (blockedb (w1, rs1)) (b ++ concat rest)) <= length (filter (blockedb (w, rs)) (b ++ concat rest)))%nat)
        by (apply count_le; intros x _; apply M).
      cbn [Nat.mul] in Hf. nia.
  Qed.
End Term.
