(* SnapRead/ProofsScanLoop.v — the forward iteration as a whole: for every sequence of
   layouts / lock sets the concatenated output is the specification, within the stated fuel. *)
From Coq Require Import Sorting.Sorted.
From Verif Require Import Base.Lex SnapRead.Model SnapRead.ProofsOrd SnapRead.ProofsList SnapRead.ProofsScanF.

Lemma prepend_done l o out : o = Done out -> prepend l o = Done (l ++ out).
Proof. intros ->. reflexivity. Qed.

Lemma bounded_retry_none retry i E : bounded_retry retry i E -> retry i = None -> bounded_retry retry (S i) E.
Proof. intros H He n. specialize (H (S n)). cbn [count_retry] in H. rewrite He in H. exact H. Qed.
Lemma bounded_retry_some retry i E k : bounded_retry retry i E -> retry i = Some k ->
  exists E', E = S E' /\ bounded_retry retry (S i) E'.
Proof.
  intros H He. destruct E as [|E'].
  - specialize (H 1%nat). cbn [count_retry] in H. rewrite He in H. lia.
  - exists E'. split; [reflexivity|]. intros n. specialize (H (S n)). cbn [count_retry] in H. rewrite He in H. lia.
Qed.

Section Loop.
  Variables (ko : bool) (B : nat) (P U : list key) (retry : nat -> option retry_kind) (env : nat -> layout * rows).
  Variable E : key -> key -> list (key * value).
  Hypothesis HB : (1 <= B)%nat.
  Hypothesis Hsorted : forall i, ksorted (snd (env i)).
  Hypothesis Hlay : forall i, incl (fst (env i)) P.
  Hypothesis Hkeys : forall i e, In e (snd (env i)) -> In (fst e) U.
  (* what is emitted for a key range does not depend on the call (which keys happen to be locked) *)
  Hypothesis Hind : forall i lo hi, map (canon ko) (emit ko (filter (key_in lo hi) (snd (env i)))) = E lo hi.

  Definition mu' (c : cursor) : nat := if eof c then 0%nat else S (mu P U c).

  Lemma fwd_loop : forall fuel i c R,
    reverse c = false -> bounded_retry retry i R -> (mu' c + R < fuel)%nat ->
    exists out, scan_loop fuel B ko retry env i c = Done out /\
                map (canon ko) out = if eof c then [] else E (next_start c) (end_key c).
  Proof.
    induction fuel as [|f IH]; intros i c R Hrev Hb Hmu; [lia|].
    cbn [scan_loop]. destruct (eof c) eqn:Heof.
    - exists []. split; reflexivity.
    - destruct (retry i) as [k|] eqn:Er.
      { destruct (bounded_retry_some _ _ _ _ Hb Er) as (R' & -> & Hb').
        destruct (IH (S i) c R' Hrev Hb') as (out & H1 & H2); [lia|].
        exists out. split; [exact H1|]. rewrite H2, Heof. reflexivity. }
      pose proof (bounded_retry_none _ _ _ Hb Er) as Hb'.
      unfold mu' in Hmu. rewrite Heof in Hmu.
      destruct (fwd_step ko B P U HB (fst (env i)) (snd (env i)) c (Hsorted i) Hrev Heof (Hlay i) (Hkeys i))
        as (ps & c' & Hgd & Hrev' & Hend' & Hcons & Hsplit & Hdec).
      rewrite Hgd, Hcons.
      assert (Hmu' : (mu' c' + R < f)%nat).
      { unfold mu'. destruct (eof c') eqn:E'; [lia|]. specialize (Hdec eq_refl). lia. }
      destruct (IH (S i) c' R Hrev' Hb' Hmu') as (out' & Hloop & Hout).
      exists (emit ko ps ++ out'). split; [apply prepend_done; exact Hloop|].
      rewrite map_app, Hout. rewrite <- (Hind i (next_start c) (end_key c)). rewrite Hsplit.
      rewrite emit_app, map_app. f_equal.
      destruct (eof c'); [reflexivity|]. rewrite Hend'. symmetry. apply Hind.
  Qed.
End Loop.

(* ---------------------------------------------------------------- instantiation on the MVCC truth *)
Definition tsorted (T : truth) : Prop := ksorted T.

Lemma ksorted_filter_map {A C} (f : key * A -> option (key * C)) (l : list (key * A)) :
  (forall e x, f e = Some x -> fst x = fst e) -> ksorted l -> ksorted (filter_map f l).
Proof.
  intros Hf. induction 1 as [|e l Hs IH He]; cbn [filter_map]; [constructor|].
  destruct (f e) as [x|] eqn:Ex; [|exact IH].
  constructor; [exact IH|]. rewrite Forall_forall in *. intros y Hy.
  assert (Hy' : exists e', In e' l /\ f e' = Some y).
  { clear - Hy. induction l as [|a l IHl]; cbn [filter_map] in Hy; [destruct Hy|].
    destruct (f a) as [z|] eqn:Ea.
    - destruct Hy as [<-|Hy]; [exists a; split; [left; reflexivity|exact Ea]|].
      destruct (IHl Hy) as (e' & H1 & H2). exists e'. split; [right; exact H1|exact H2].
    - destruct (IHl Hy) as (e' & H1 & H2). exists e'. split; [right; exact H1|exact H2]. }
  destruct Hy' as (e' & He' & Hfe'). unfold kfst_lt. rewrite (Hf _ _ Ex), (Hf _ _ Hfe'). apply He. exact He'.
Qed.

Lemma rows_of_sorted ts T lk : tsorted T -> ksorted (rows_of ts T lk).
Proof.
  intros H. unfold rows_of. apply ksorted_filter_map; [|exact H].
  intros e x. destruct (read_at ts (fst e) T), (memk (fst e) lk); intros Hx; inversion Hx; reflexivity.
Qed.

Lemma rows_of_keys ts T lk e : In e (rows_of ts T lk) -> In (fst e) (map fst T).
Proof.
  unfold rows_of. set (f := fun _ : key * list write => _).
  assert (Hf : forall a x, f a = Some x -> fst x = fst a).
  { intros a x. unfold f. destruct (read_at ts (fst a) T), (memk (fst a) lk); intros Hx; inversion Hx; reflexivity. }
  generalize T. intros l. induction l as [|a l IH]; cbn [filter_map map]; [intros []|].
  destruct (f a) as [x|] eqn:Ea; cbn [In].
  - intros [<-|H]; [left; symmetry; apply Hf; exact Ea|right; apply IH; exact H].
  - intros H. right. apply IH. exact H.
Qed.

(* emitting the rows of a key range gives the specification, whichever keys are locked *)
Lemma emit_rows_of ko ts T lk Q :
  map (canon ko) (emit ko (filter (fun e => Q (fst e)) (rows_of ts T lk))) = map (canon ko) (expected_q Q ts T).
Proof.
  unfold rows_of, expected_q, emit.
  set (f := fun _ : key * list write => _). set (g := fun _ : key * list write => _).
  assert (Hfg : forall a, map (canon ko) (filter_map (emit_row ko) (filter (fun e => Q (fst e)) (match f a with Some r => [r] | None => [] end)))
                          = map (canon ko) (match g a with Some x => [x] | None => [] end)).
  { intros a. unfold f, g. destruct (read_at ts (fst a) T) as [v|], (memk (fst a) lk); cbn [filter fst];
      destruct (Q (fst a)); cbn [filter_map option_map emit_row snd fst map]; try reflexivity.
    unfold canon. destruct ko; reflexivity. }
  generalize T. intros l. induction l as [|a l IH]; cbn [filter_map filter map]; [reflexivity|].
  specialize (Hfg a).
  destruct (f a) as [r|]; destruct (g a) as [x|]; cbn [filter] in *.
  - destruct (Q (fst r)); cbn [filter_map] in *.
    + destruct (emit_row ko r); cbn [map] in *; [inversion Hfg; f_equal; exact IH|discriminate].
    + discriminate.
  - destruct (Q (fst r)); cbn [filter_map] in *; [|exact IH].
    destruct (emit_row ko r); cbn [map] in *; [discriminate|exact IH].
  - discriminate.
  - exact IH.
Qed.

Lemma mu_bound P U c : (mu P U c <= length P + length U)%nat.
Proof.
  assert (Hfl : forall (f : key -> bool) l, (length (filter f l) <= length l)%nat).
  { intros f l. induction l as [|a l IH]; cbn [filter length]; [lia|]. destruct (f a); cbn [length]; lia. }
  unfold mu. pose proof (Hfl (fun p => kltb (next_start c) p) P).
  pose proof (Hfl (fun k => kleb (next_start c) k) U). lia.
Qed.

Lemma norm_batch_pos b : (1 <= norm_batch b)%nat.
Proof.
  unfold norm_batch. destruct (Nat.leb b 1) eqn:E; [lia|]. apply Nat.leb_gt in E.
  destruct (N.of_nat b <? 4294967296); [lia|].
  assert (H : (0 < N.to_nat 4294967295)%nat); [|lia].
  unfold N.to_nat. apply Pos2Nat.is_pos.
Qed.

Theorem scan_forward_complete :
  forall (T : truth) (ts : N) (lo hi : key) (B : nat) (ko : bool)
         (retry : nat -> option retry_kind) (R : nat) (lay : nat -> layout) (lk : nat -> list key) (P : list key),
    tsorted T -> (forall i, incl (lay i) P) -> bounded_retry retry 0 R ->
    exists out,
      scan (length P + length T + 2 + R) B ko ts T retry lay lk lo hi false = Done out /\
      map (canon ko) out = map (canon ko) (expected ts lo hi T).
Proof.
  intros T ts lo hi B ko retry R lay lk P HT Hlay Hb. unfold scan.
  destruct (fwd_loop ko (norm_batch B) P (map fst T) retry (scan_env ts T lay lk)
              (fun a b => map (canon ko) (expected ts a b T)) (norm_batch_pos B))
    with (fuel := (length P + length T + 2 + R)%nat) (i := 0%nat) (c := init_cursor lo hi false) (R := R) as (out & H1 & H2).
  - intros i. cbn. apply rows_of_sorted. exact HT.
  - intros i. cbn. apply Hlay.
  - intros i e. cbn. apply rows_of_keys.
  - intros i a b. cbn [scan_env snd]. unfold expected, key_in. apply (emit_rows_of ko ts T (lk i) (in_range a b)).
  - reflexivity.
  - exact Hb.
  - unfold mu'. cbn [init_cursor eof]. pose proof (mu_bound P (map fst T) (init_cursor lo hi false)).
    rewrite map_length in H. lia.
  - exists out. split; [exact H1|]. exact H2.
Qed.
