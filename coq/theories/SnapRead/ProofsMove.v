(* SnapRead/ProofsMove.v — programs of Get / SetSnapshotTS (both directions) / lock-state changes on
   ONE snapshot object that remembers which transactions it ignores: every answer is read_at at the
   version current at that moment. *)
From Verif Require Import Base.Lex SnapRead.Model SnapRead.ModelRead SnapRead.ProofsCache SnapRead.ProofsRead.

Lemma tx_fin_finish tx t t' : tx_fin (finish_tx tx t) t' = tx_fin tx t'.
Proof.
  unfold finish_tx. destruct (tx_get tx t) as [st|] eqn:E; [|reflexivity].
  unfold tx_fin. rewrite tx_get_set. destruct (t =? t') eqn:Et; [|reflexivity].
  apply N.eqb_eq in Et. subst t'. rewrite E. reflexivity.
Qed.

Lemma txs_ok_finish tx t ts : txs_ok tx ts -> txs_ok (finish_tx tx t) ts.
Proof.
  intros Hok. unfold finish_tx. destruct (tx_get tx t) as [st|] eqn:E; [|exact Hok].
  intros t' st'. rewrite tx_get_set. destruct (t =? t') eqn:Et.
  - apply N.eqb_eq in Et. subst t'. rewrite E. intros H; inversion H; subst st'. split.
    + intros c Hc. cbn in Hc. apply (proj1 (Hok t st E)). exact Hc.
    + intros f Hf. discriminate.
  - apply Hok.
Qed.

Lemma get_inv ts Fin : forall fuel w rs k, inv ts Fin (w, rs) ->
  inv ts Fin (snd (fst (get fuel w rs ts k)), snd (get fuel w rs ts k)).
Proof.
  induction fuel as [|f IH]; intros w rs k Hinv; cbn [get]; [exact Hinv|].
  destruct (store_get (k_get (w_keys w) k) ts rs) as [o|l]; [exact Hinv|].
  pose proof (handle_lock_inv ts Fin (w, rs) (k, l) Hinv) as Hinv'.
  destruct (handle_lock ts (w, rs) (k, l)) as [w1 rs1]. apply IH. exact Hinv'.
Qed.

Section Move.
  Variable Fin : key -> list write.

  Definition pinv (st : world * rsnap) : Prop :=
    inv (rv (snd st)) Fin (fst st, rrs (snd st)) /\
    (forall k v, rs_lookup (snd st) k = Some v -> opt_of v = norm (vis (Fin k) (rv (snd st)))) /\
    (rv (snd st) = maxts -> rcache (snd st) = None).

  (* environment assumption at a timestamp move: the transactions that are still alive and pushable
     can only commit above the NEW timestamp *)
  Definition step_env (st : world * rsnap) (o : pop) : Prop :=
    match o with PSetTS ts => txs_ok (w_txns (fst st)) ts | _ => True end.

  Lemma p_step_correct fuel st o :
    pinv st -> step_env st o ->
    pinv (snd (p_step fuel st o)) /\
    (forall k a, o = PGet k -> fst (p_step fuel st o) = Some a -> a = norm (vis (Fin k) (rv (snd st)))).
  Proof.
    destruct st as [w s]. intros (Hinv & Hc & Hm) Henv. cbn [fst snd] in *. destruct o as [k|ts|t]; cbn [p_step].
    - destruct (rs_lookup s k) as [v|] eqn:El.
      + cbn [fst snd]. split; [split; [exact Hinv|split; assumption]|]. intros k' a Hk Ha. inversion Hk; subst k'. inversion Ha. apply Hc. exact El.
      + pose proof (get_inv (rv s) Fin fuel w (rrs s) k Hinv) as Hinv'.
        pose proof (get_correct (rv s) Fin fuel w (rrs s) k) as Hcorr.
        destruct (get fuel w (rrs s) (rv s) k) as [[[o|] w'] rs'] eqn:Eg; cbn [fst snd] in *.
        * destruct (Hcorr o w' rs' Hinv eq_refl) as [Ho _]. split.
          -- split; [exact Hinv'|]. cbn [rv rcache rs_lookup]. destruct (rv s =? maxts) eqn:Emx.
             ++ split; [exact Hc|exact Hm].
             ++ split; [|intros Hx; apply N.eqb_neq in Emx; exfalso; apply Emx; exact Hx].
                intros k' v. unfold rs_lookup. cbn [fst snd rv rcache c_lookup]. destruct (keqb k k') eqn:Ek.
                ** apply keqb_eq in Ek. subst k'. intros Hv. injection Hv as <-. cbn [snd rv]. rewrite opt_val_norm, Ho. reflexivity.
                ** intros Hv. apply Hc. unfold rs_lookup. destruct (rcache s); [exact Hv|discriminate].
          -- intros k' a Hk Ha. inversion Hk; subst k'. inversion Ha. rewrite Ho. reflexivity.
        * split; [split; [exact Hinv'|split; assumption]|]. intros k' a _ Ha. discriminate.
    - cbn [fst snd rv rrs rcache]. split; [|intros k a Hk; discriminate].
      destruct Hinv as (_ & _ & Hf). split; [split; [exact Henv|split; [intros t []|exact Hf]]|].
      split; [intros k v Hv; discriminate|reflexivity].
    - cbn [fst snd]. split; [|intros k a Hk; discriminate].
      destruct Hinv as (Htx & Hrs & Hf). split; [|split; assumption].
      split; [apply txs_ok_finish; exact Htx|]. split.
      + intros t' Ht'. cbn [fst snd w_txns rrs] in *. rewrite tx_fin_finish. apply Hrs. exact Ht'.
      + intros k. cbn [fst snd w_txns w_keys]. rewrite <- (Hf k). unfold final_ws. rewrite (contrib_ext _ _ _ (tx_fin_finish (w_txns w) t)). reflexivity.
  Qed.

  (* every answer of a program is right, under the environment assumption at each move *)
  Fixpoint p_env (fuel : nat) (st : world * rsnap) (ops : list pop) : Prop :=
    match ops with [] => True | o :: r => step_env st o /\ p_env fuel (snd (p_step fuel st o)) r end.
  Fixpoint p_right (fuel : nat) (st : world * rsnap) (ops : list pop) : Prop :=
    match ops with
    | [] => True
    | o :: r => (forall k a, o = PGet k -> fst (p_step fuel st o) = Some a -> a = norm (vis (Fin k) (rv (snd st))))
                /\ p_right fuel (snd (p_step fuel st o)) r
    end.

  Lemma p_program_right fuel : forall ops st, pinv st -> p_env fuel st ops -> p_right fuel st ops.
  Proof.
    induction ops as [|o r IH]; intros st Hinv Henv; cbn [p_right]; [exact I|].
    destruct Henv as [He Hr]. destruct (p_step_correct fuel st o Hinv He) as [Hinv' Hans].
    split; [exact Hans|apply IH; assumption].
  Qed.
End Move.
