(* SnapRead/ProofsScanLoopR.v — the reverse iteration as a whole, and the F08b witness. *)
From Coq Require Import Sorting.Sorted.
From Verif Require Import Base.Lex SnapRead.Model SnapRead.ProofsOrd SnapRead.ProofsList SnapRead.ProofsScanF
  SnapRead.ProofsScanR SnapRead.ProofsScanLoop.

Lemma filter_map_rev {A B} (f : A -> option B) l : filter_map f (rev l) = rev (filter_map f l).
Proof.
  induction l as [|a l IH]; cbn [rev filter_map]; [reflexivity|].
  rewrite filter_map_app, IH. cbn [filter_map]. destruct (f a); cbn [rev]; [reflexivity|apply app_nil_r].
Qed.

Section LoopR.
  Variables (ko : bool) (B : nat) (P U : list key) (retry : nat -> option retry_kind) (env : nat -> layout * rows).
  Variable E : key -> key -> list (key * value).
  Hypothesis HB : (1 <= B)%nat.
  Hypothesis Hsorted : forall i, ksorted (snd (env i)).
  Hypothesis Hnonempty : forall i e, In e (snd (env i)) -> fst e <> [].
  Hypothesis Hlay : forall i, incl (fst (env i)) P.
  Hypothesis Hkeys : forall i e, In e (snd (env i)) -> In (fst e) U.
  Hypothesis Hind : forall i lo hi, map (canon ko) (emit ko (filter (key_in lo hi) (snd (env i)))) = E lo hi.

  Definition mur' (c : cursor) : nat := if eof c then 0%nat else S (mur P U c).

  Lemma rev_loop : forall fuel i c R,
    reverse c = true -> bounded_retry retry i R -> (mur' c + R < fuel)%nat ->
    exists out, scan_loop fuel B ko retry env i c = Done out /\
                map (canon ko) out = if eof c then [] else rev (E (next_start c) (next_end c)).
  Proof.
    induction fuel as [|f IH]; intros i c R Hrev Hb Hmu; [lia|].
    cbn [scan_loop]. destruct (eof c) eqn:Heof.
    - exists []. split; reflexivity.
    - destruct (retry i) as [k|] eqn:Er.
      { destruct (bounded_retry_some _ _ _ _ Hb Er) as (R' & -> & Hb').
        destruct (IH (S i) c R' Hrev Hb') as (out & H1 & H2); [lia|].
        exists out. split; [exact H1|]. rewrite H2, Heof. reflexivity. }
      pose proof (bounded_retry_none _ _ _ Hb Er) as Hb'.
      unfold mur' in Hmu. rewrite Heof in Hmu.
      destruct (rev_step ko B P U HB (fst (env i)) (snd (env i)) c (Hsorted i) (Hnonempty i) Hrev Heof (Hlay i) (Hkeys i))
        as (ps & c' & Hgd & Hrev' & Hlo' & Hcons & Hsplit & Hdec).
      rewrite Hgd, Hcons.
      assert (Hmu' : (mur' c' + R < f)%nat).
      { unfold mur'. destruct (eof c') eqn:E'; [lia|]. destruct (Hdec eq_refl). lia. }
      destruct (IH (S i) c' R Hrev' Hb' Hmu') as (out' & Hloop & Hout).
      exists (emit ko ps ++ out'). split; [apply prepend_done; exact Hloop|].
      assert (Hrevspec : forall a b, rev (E a b) = map (canon ko) (filter_map (emit_row ko) (rev (filter (key_in a b) (snd (env i)))))).
      { intros a b. rewrite <- (Hind i a b). unfold emit. rewrite filter_map_rev, map_rev. reflexivity. }
      rewrite map_app, Hout. rewrite (Hrevspec (next_start c) (next_end c)). rewrite Hsplit.
      rewrite filter_map_app, map_app. f_equal.
      destruct (eof c'); [reflexivity|]. rewrite Hlo'. apply Hrevspec.
  Qed.
End LoopR.

Lemma mur_bound P U c : (mur P U c <= length P + length U)%nat.
Proof.
  assert (Hfl : forall (f : key -> bool) l, (length (filter f l) <= length l)%nat).
  { intros f l. induction l as [|a l IH]; cbn [filter length]; [lia|]. destruct (f a); cbn [length]; lia. }
  unfold mur. pose proof (Hfl (fun p => below (next_end c) p) P).
  pose proof (Hfl (fun k => below (next_end c) k) U). lia.
Qed.

Theorem scan_reverse_complete :
  forall (T : truth) (ts : N) (lo hi : key) (B : nat) (ko : bool)
         (retry : nat -> option retry_kind) (R : nat) (lay : nat -> layout) (lk : nat -> list key) (P : list key),
    tsorted T -> (forall e, In e T -> fst e <> []) -> (forall i, incl (lay i) P) -> bounded_retry retry 0 R ->
    exists out,
      scan (length P + length T + 2 + R) B ko ts T retry lay lk lo hi true = Done out /\
      map (canon ko) out = map (canon ko) (rev (expected ts lo hi T)).
Proof.
  intros T ts lo hi B ko retry R lay lk P HT Hnn Hlay Hb. unfold scan.
  destruct (rev_loop ko (norm_batch B) P (map fst T) retry (scan_env ts T lay lk)
              (fun a b => map (canon ko) (expected ts a b T)) (norm_batch_pos B))
    with (fuel := (length P + length T + 2 + R)%nat) (i := 0%nat) (c := init_cursor lo hi true) (R := R) as (out & H1 & H2).
  - intros i. cbn. apply rows_of_sorted. exact HT.
  - intros i e He. cbn in He. apply rows_of_keys in He. apply in_map_iff in He. destruct He as (a & Ha1 & Ha2).
    rewrite <- Ha1. apply Hnn. exact Ha2.
  - intros i. cbn. apply Hlay.
  - intros i e. cbn. apply rows_of_keys.
  - intros i a b. cbn [scan_env snd]. unfold expected, key_in. apply (emit_rows_of ko ts T (lk i) (in_range a b)).
  - reflexivity.
  - exact Hb.
  - unfold mur'. cbn [init_cursor eof]. pose proof (mur_bound P (map fst T) (init_cursor lo hi true)).
    rewrite map_length in H. lia.
  - exists out. split; [exact H1|]. cbn [init_cursor eof next_start next_end] in H2. rewrite H2. rewrite map_rev. reflexivity.
Qed.

(* ---------------------------------------------------------------- regression: the former F08b witness *)
(* keys a..h (one committed Put each), regions split at "c" and "f", IterReverse(nil, nil), batch 256:
   all eight keys come back (before 0dbaf7e LocateEndKey("") returned the first region: only b, a). *)
Definition w_keys8 : list key := [[97]; [98]; [99]; [100]; [101]; [102]; [103]; [104]].
Definition w_truth : truth := map (fun k => (k, [(5, Put [118])])) w_keys8.
Definition w_layout : layout := [[99]; [102]].

Lemma reverse_unbounded_regression :
  scan (length w_layout + length w_truth + 2) 256 false 10 w_truth (fun _ => None) (fun _ => w_layout) (fun _ => []) [] [] true
    = Done (rev (expected 10 [] [] w_truth))
  /\ length (expected 10 [] [] w_truth) = 8%nat.
Proof. split; vm_compute; reflexivity. Qed.
