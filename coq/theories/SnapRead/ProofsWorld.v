(* SnapRead/ProofsWorld.v — the scanner over the world, part 1: what getData does depends on the keys of
   the served rows only; the rows a world serves are the ideal rows with the lock answers blanked. *)
From Coq Require Import Sorting.Sorted.
From Verif Require Import Base.Lex SnapRead.Model SnapRead.ModelRead SnapRead.ProofsOrd SnapRead.ProofsList
  SnapRead.ProofsScanF SnapRead.ProofsCache SnapRead.ProofsRead SnapRead.ProofsTerm.

Definition blank (e : key * row) : key * row := (fst e, match snd e with Val v => Val v | Lk _ => Lk None end).

Lemma fst_blank e : fst (blank e) = fst e.
Proof. reflexivity. Qed.

Lemma filter_map_blank (P : key * row -> bool) R :
  (forall e, P (blank e) = P e) -> filter P (map blank R) = map blank (filter P R).
Proof.
  intros HP. induction R as [|e R IH]; cbn [map filter]; [reflexivity|].
  rewrite HP. destruct (P e); cbn [map]; rewrite IH; reflexivity.
Qed.

Lemma last_key_blank ps : last_key (map blank ps) = last_key ps.
Proof.
  unfold last_key. rewrite <- map_rev. destruct (rev ps) as [|[k r] l]; cbn [map blank fst]; reflexivity.
Qed.

Definition gd_blank (g : gd) : gd := match g with GD ps c => GD (map blank ps) c | GDPanic => GDPanic end.

Lemma get_data_blank B L R c : get_data B L (map blank R) c = gd_blank (get_data B L R c).
Proof.
  unfold get_data. destruct (no_rpc c); [reflexivity|].
  destruct (scan_req L c) as [[loc rs] re]. destruct (negb (reverse c)).
  - unfold store_scan. destruct (region_contains loc rs); [|reflexivity].
    rewrite filter_map_blank by (intros e; reflexivity). rewrite firstn_map, map_length, last_key_blank.
    destruct (Nat.ltb _ B); reflexivity.
  - unfold store_rscan. destruct (region_contains loc re); [|reflexivity].
    rewrite filter_map_blank by (intros e; reflexivity). rewrite <- map_rev, firstn_map, map_length, last_key_blank.
    destruct (Nat.ltb _ B); reflexivity.
Qed.

(* a batch that was consumed to its end lies inside the bounds *)
Lemma consume_all_in_bound ko c ps out : consume ko c ps = (out, false) -> forall e, In e ps -> out_of_bound c (fst e) = false.
Proof.
  revert out. induction ps as [|a ps IH]; intros out; cbn [consume]; [intros _ e []|].
  destruct (out_of_bound c (fst a)) eqn:Ea; [discriminate|].
  destruct (consume ko c ps) as [rest stop] eqn:Ec. intros H. inversion H; subst.
  intros e [<-|He]; [exact Ea|]. eapply IH; [reflexivity|exact He].
Qed.

(* ---------------------------------------------------------------- the world's rows *)
Definition lockedb (w : world) (ts : N) (rs : list N) (k : key) : bool :=
  match store_get (k_get (w_keys w) k) ts rs with SLocked _ => true | SVal _ => false end.

Lemma filter_map_map {A B C} (f : B -> option C) (g : A -> B) l : filter_map f (map g l) = filter_map (fun a => f (g a)) l.
Proof. induction l as [|a l IH]; cbn [map filter_map]; [reflexivity|]. destruct (f (g a)); rewrite IH; reflexivity. Qed.

Lemma filter_map_ext_in {A B} (f g : A -> option B) l : (forall a, In a l -> f a = g a) -> filter_map f l = filter_map g l.
Proof.
  induction l as [|a l IH]; cbn [filter_map]; intros H; [reflexivity|].
  rewrite (H a (or_introl eq_refl)). rewrite IH by (intros b Hb; apply H; right; exact Hb). reflexivity.
Qed.

Lemma filter_map_then_map {A B C} (f : A -> option B) (g : B -> C) l :
  map g (filter_map f l) = filter_map (fun a => option_map g (f a)) l.
Proof. induction l as [|a l IH]; cbn [filter_map map]; [reflexivity|]. destruct (f a); cbn [option_map map]; rewrite IH; reflexivity. Qed.

Lemma memk_filter (P : key -> bool) K k : In k K -> memk k (filter P K) = P k.
Proof.
  intros Hin. unfold memk. destruct (P k) eqn:E.
  - apply existsb_exists. exists k. split; [apply filter_In; auto|apply bytes_eqb_eq; reflexivity].
  - destruct (existsb (keqb k) (filter P K)) eqn:Ex; [|reflexivity].
    apply existsb_exists in Ex. destruct Ex as (x & Hx & Hk). apply keqb_eq in Hk. subst x.
    apply filter_In in Hx. destruct Hx as [_ Hx]. congruence.
Qed.

Section WorldRows.
  Variables (ts : N) (Fin : key -> list write) (T : truth).
  Hypothesis HT : forall k, read_at ts k T = vis (Fin k) ts.

  (* the rows a world serves = the ideal rows over the final truth (lock answers = the point-get
     answers) with the lock answers blanked; [lk] = the keys that answer "locked" right now *)
  Lemma wrows_ideal w rs :
    inv ts Fin (w, rs) -> map fst (w_keys w) = map fst T ->
    wrows w ts rs = map blank (rows_of ts T (filter (lockedb w ts rs) (map fst T))).
  Proof.
    intros Hinv HK. unfold wrows, rows_of. rewrite HK.
    rewrite <- (filter_map_map (fun k => match read_at ts k T, memk k (filter (lockedb w ts rs) (map fst T)) with
                                         | o, true => Some (k, Lk o) | Some v, false => Some (k, Val v) | None, false => None end) fst T).
    rewrite filter_map_then_map. apply filter_map_ext_in. intros k Hk.
    rewrite (memk_filter _ _ _ Hk). unfold lockedb. rewrite HT.
    destruct (store_get (k_get (w_keys w) k) ts rs) as [o|l] eqn:Es.
    - rewrite <- (store_get_val ts Fin w rs k o Hinv Es). destruct o; reflexivity.
    - destruct (vis (Fin k) ts); reflexivity.
  Qed.
End WorldRows.
