(* SnapRead/ProofsBuffer.v — the buffer tier: exactly the own flushed locks, total, independent of the
   committed data; the snapshot tier of a pipelined reader skips the own locks. *)
From Verif Require Import Base.Lex SnapRead.Model SnapRead.ModelRead SnapRead.ProofsCache SnapRead.ProofsRead SnapRead.ProofsTerm.

Lemma buf_serve_spec w own b k v : In (k, v) (buf_serve w own b) <-> In k b /\ buf_val own (k_get (w_keys w) k) = Some v.
Proof.
  induction b as [|a b IH]; cbn [buf_serve In]; [tauto|].
  destruct (buf_val own (k_get (w_keys w) a)) as [va|] eqn:E; cbn [In]; rewrite IH; split.
  - intros [H|[H1 H2]]; [inversion H; subst; auto|auto].
  - intros [[->|H1] H2]; [left; congruence|auto].
  - intros [H1 H2]; auto.
  - intros [[->|H1] H2]; [congruence|auto].
Qed.

Lemma bbuf_correct (Fin0 : key -> list write) own w : forall fuel ev i pend acc res,
  bbuf fuel ev i w own pend acc = Some res ->
  forall k v, In (k, v) res <-> In (k, v) acc \/ (In k (concat pend) /\ buf_val own (k_get (w_keys w) k) = Some v).
Proof.
  induction fuel as [|f IH]; intros ev i pend acc res; cbn [bbuf]; [discriminate|].
  destruct pend as [|b rest].
  - intros H; inversion H; subst. intros k v. cbn. tauto.
  - assert (Hserved : bbuf f ev (S i) w own rest (acc ++ buf_serve w own b) = Some res ->
                      forall k v, In (k, v) res <-> In (k, v) acc \/ (In k (concat (b :: rest)) /\ buf_val own (k_get (w_keys w) k) = Some v)).
    { intros H k v. rewrite (IH _ _ _ _ _ H k v). rewrite in_app_iff, buf_serve_spec. cbn [concat]. rewrite in_app_iff. tauto. }
    destruct (ev i) as [|L|kl]; [exact Hserved| |exact Hserved].
    intros H k v. rewrite (IH _ _ _ _ _ H k v). rewrite concat_app. cbn [concat]. rewrite !in_app_iff.
    destruct (one_region L b); [cbn [concat]; rewrite app_nil_r; tauto|rewrite (group_keys_mem Fin0); tauto].
Qed.

Lemma bbuf_terminates K own w : forall fuel ev i pend acc E,
  bounded_errs ev i E -> Forall (fun b => b <> []) pend -> (length (concat pend) <= K)%nat ->
  (E * (K + 1) + length pend < fuel)%nat ->
  exists res, bbuf fuel ev i w own pend acc = Some res.
Proof.
  induction fuel as [|f IH]; intros ev i pend acc E Herr Hne HK Hf; [lia|]. cbn [bbuf].
  destruct pend as [|b rest]; [eauto|].
  inversion Hne as [|? ? Hb Hrest]; subst. cbn [concat length] in *. rewrite app_length in HK.
  assert (Hserved : forall E', bounded_errs ev (S i) E' -> (E' <= E)%nat ->
            exists res, bbuf f ev (S i) w own rest (acc ++ buf_serve w own b) = Some res).
  { intros E' He Hle. eapply IH; [exact He|exact Hrest|lia|]. nia. }
  destruct (ev i) as [|L|kl] eqn:Eev.
  - apply (Hserved E); [apply bounded_ok; assumption|lia].
  - destruct (bounded_err _ _ _ Herr ltac:(rewrite Eev; discriminate)) as (E' & -> & Herr').
    set (gs := if one_region L b then [b] else group_keys L b).
    assert (Hgs : Forall (fun g => g <> []) gs /\ length (concat gs) = length b).
    { unfold gs. destruct (one_region L b); [|apply group_keys_props]. split; [constructor; [exact Hb|constructor]|cbn; rewrite app_nil_r; reflexivity]. }
    destruct Hgs as [G1 G2].
    assert (Hne' : Forall (fun g => g <> []) (gs ++ rest)) by (apply Forall_app; split; assumption).
    assert (HK' : (length (concat (gs ++ rest)) <= K)%nat) by (rewrite concat_app, app_length, G2; exact HK).
    eapply IH; [exact Herr'|exact Hne'|exact HK'|].
    pose proof (concat_nonempty_len _ Hne'). cbn [Nat.mul] in Hf. nia.
  - destruct (bounded_err _ _ _ Herr ltac:(rewrite Eev; discriminate)) as (E' & -> & Herr').
    apply (Hserved E'); [exact Herr'|lia].
Qed.

(* the snapshot tier of a pipelined reader (own start ts in the ignored set, SetPipelined) never
   blocks on an own lock and reads the committed data below it *)
Lemma own_lock_skipped own ts rs s l :
  ks_lock s = Some l -> l_start l = own -> store_get s ts (own :: rs) = SVal (vis (ks_ws s) ts).
Proof.
  intros Hl Ho. unfold store_get. rewrite Hl. unfold blocks, memN. cbn [existsb]. rewrite Ho, N.eqb_refl.
  cbn [orb negb]. rewrite andb_false_r. reflexivity.
Qed.
