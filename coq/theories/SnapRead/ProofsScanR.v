(* SnapRead/ProofsScanR.v — the reverse scanner: one getData step, then the loop.  The step needs
   the cursor's upper end to be a real key (or a single region): LocateEndKey("") is the F08 defect. *)
From Coq Require Import Sorting.Sorted.
From Verif Require Import Base.Lex SnapRead.Model SnapRead.ProofsOrd SnapRead.ProofsList SnapRead.ProofsScanF.

Lemma nil_lt k : k <> [] -> klt [] k.
Proof. intros H. pose proof (nil_le k). assert ([] <> k) by congruence. KeyOT.order. Qed.

Lemma locate_end_from_spec L : forall s k, klt s k ->
  let r := locate_end_from s L k in
  klt (r_start r) k /\ (r_end r = [] \/ kle k (r_end r)) /\ (r_start r = s \/ In (r_start r) L).
Proof.
  induction L as [|p L IH]; intros s k Hs; cbn [locate_end_from].
  - cbn. auto.
  - destruct (kleb k p) eqn:E.
    + cbn. split; [exact Hs|]. split; [right; kord|left; reflexivity].
    + assert (Hp : klt p k) by kord. destruct (IH p k Hp) as (H1 & H2 & H3).
      split; [exact H1|]. split; [exact H2|]. destruct H3 as [H3|H3]; [right; left; symmetry; exact H3|right; right; exact H3].
Qed.

Lemma last_in (L : list key) : last L [] = [] \/ In (last L []) L.
Proof.
  induction L as [|a [|b L'] IH]; [left; reflexivity|right; left; reflexivity|].
  change (last (a :: b :: L') []) with (last (b :: L') []).
  destruct IH as [IH|IH]; [left; exact IH|right; right; exact IH].
Qed.

Section Reverse.
  Variables (ko : bool) (B : nat) (P U : list key).
  Hypothesis HB : (1 <= B)%nat.

  Definition mur (c : cursor) : nat :=
    (length (filter (fun p => below (next_end c) p) P) + length (filter (fun k => below (next_end c) k) U))%nat.

  Lemma rev_step L R c :
    ksorted R -> (forall e, In e R -> fst e <> []) -> reverse c = true -> eof c = false ->
    incl L P -> (forall e, In e R -> In (fst e) U) ->
    exists ps c',
      get_data B L R c = GD ps c' /\ reverse c' = true /\ next_start c' = next_start c /\
      consume ko c' ps = (emit ko ps, false) /\
      rev (filter (key_in (next_start c) (next_end c)) R) =
        ps ++ (if eof c' then [] else rev (filter (key_in (next_start c) (next_end c')) R)) /\
      (eof c' = false -> next_end c' <> [] /\ (mur c' < mur c)%nat).
  Proof.
    intros Hs Hne Hrev Heof HL HU.
    set (lo := next_start c) in *. set (ne := next_end c) in *.
    unfold get_data. destruct (no_rpc c) eqn:Enr.
    { (* the remaining range is empty: nothing is sent *)
      unfold no_rpc in Enr. rewrite Hrev in Enr. fold lo ne in Enr. cbn [andb] in Enr.
      apply andb_true_iff in Enr. destruct Enr as [Enr E3]. apply andb_true_iff in Enr. destruct Enr as [E1 E2].
      exists [], (mkCur lo ne (end_key c) true true). cbn [reverse next_start eof app].
      repeat split; try discriminate.
      rewrite (filter_none (key_in lo ne)); [reflexivity|].
      intros x _. unfold key_in, in_range. destruct (below ne (fst x)) eqn:Eb; [|apply andb_false_r].
      rewrite andb_true_r. apply below_spec in Eb.
      destruct Eb as [Eb|Eb]; [rewrite Eb in E2; discriminate|]. kord. }
    unfold no_rpc in Enr. rewrite Hrev in Enr. fold lo ne in Enr. cbn [andb] in Enr.
    unfold scan_req. rewrite Hrev. cbn [negb]. fold lo ne.
    set (loc := locate_end_key L ne). set (s := r_start loc). set (e := r_end loc).
    assert (Hloc : (ne = [] /\ loc = mkRegion (last L []) []) \/ (ne <> [] /\ loc = locate_end_from [] L ne)).
    { unfold loc, locate_end_key. destruct ne; cbn [is_nil]; [left; auto|right; split; [discriminate|reflexivity]]. }
    assert (FA : e = [] \/ (ne <> [] /\ kle ne e)).
    { destruct Hloc as [[Hn Hl]|[Hg Hl]].
      - left. unfold e. rewrite Hl. reflexivity.
      - destruct (locate_end_from_spec L [] ne (nil_lt ne Hg)) as (_ & H2 & _). rewrite <- Hl in H2. fold e in H2.
        destruct H2; auto. }
    assert (FB : s = [] \/ (In s L /\ (ne = [] \/ klt s ne))).
    { destruct Hloc as [[Hn Hl]|[Hg Hl]].
      - unfold s. rewrite Hl. cbn [r_start]. destruct (last_in L) as [H|H]; [left; exact H|right; split; [exact H|left; exact Hn]].
      - destruct (locate_end_from_spec L [] ne (nil_lt ne Hg)) as (H1 & _ & H3). rewrite <- Hl in H1, H3. fold s in H1, H3.
        destruct H3 as [H3|H3]; [left; exact H3|right; auto]. }
    set (rs := if is_nil lo || (negb (is_nil s) && kltb lo s) then s else lo).
    assert (Hrs1 : kle s rs /\ kle lo rs /\ (rs = s \/ rs = lo)).
    { unfold rs. destruct (is_nil lo) eqn:El; cbn [orb].
      - apply is_nil_true in El. rewrite El. split; [KeyOT.order|]. split; [apply nil_le|left; reflexivity].
      - destruct (is_nil s) eqn:Es; cbn [negb andb].
        + apply is_nil_true in Es. rewrite Es. split; [apply nil_le|]. split; [KeyOT.order|right; reflexivity].
        + destruct (kltb lo s) eqn:E1; (split; [kord|]; split; [kord|auto]). }
    destruct Hrs1 as (Hrs1 & Hrs2 & Hrs3).
    assert (FC : ne = [] \/ klt rs ne).
    { destruct ne as [|b ne'] eqn:Ene; [left; reflexivity|right]. rewrite <- Ene in *.
      assert (Hnn : ne <> []) by (rewrite Ene; discriminate).
      destruct Hrs3 as [Hr|Hr]; rewrite Hr.
      - destruct FB as [FB|(_ & [FB|FB])]; [rewrite FB; apply nil_lt; exact Hnn|congruence|exact FB].
      - destruct (is_nil lo) eqn:El; [apply is_nil_true in El; rewrite El; apply nil_lt; exact Hnn|].
        cbn [negb andb] in Enr. apply is_nil_false in Hnn. rewrite Hnn in Enr. cbn [negb andb] in Enr. kord. }
    unfold store_rscan. fold s e.
    assert (Hcont : region_contains loc rs = true).
    { unfold region_contains. fold s e. apply andb_true_iff. split; [kord|]. apply below_spec.
      destruct FA as [FA|(FA1 & FA2)]; [left; exact FA|right]. destruct FC as [FC|FC]; [congruence|]. kord. }
    rewrite Hcont.
    set (G := filter (key_in lo ne) R).
    set (F := filter (key_in rs (min_end ne e)) R).
    assert (HF : F = filter (fun x => key_in lo ne x && negb (kltb (fst x) rs)) R).
    { apply filter_ext_in'. intros x _. unfold key_in, in_range. rewrite below_min_end.
      change (negb (kltb (fst x) rs)) with (kleb rs (fst x)).
      assert (Hbe : below ne (fst x) && below e (fst x) = below ne (fst x)).
      { destruct (below ne (fst x)) eqn:Eb; cbn [andb]; [|reflexivity]. apply below_spec.
        destruct FA as [FA|(FA1 & FA2)]; [left; exact FA|right]. apply below_spec in Eb. destruct Eb as [Eb|Eb]; [congruence|]. kord. }
      rewrite Hbe. destruct (kleb rs (fst x)) eqn:E1; cbn [andb].
      - rewrite andb_true_r. assert (Hlo : kleb lo (fst x) = true) by kord. rewrite Hlo. reflexivity.
      - rewrite andb_false_r. reflexivity. }
    set (Glow := filter (fun x => key_in lo ne x && kltb (fst x) rs) R).
    assert (HG : G = Glow ++ F) by (rewrite HF; apply filter_split; exact Hs).
    assert (HGs : ksorted G) by (apply ksorted_filter; exact Hs).
    assert (HinF : forall x, In x F -> In x R /\ kle rs (fst x) /\ below ne (fst x) = true).
    { intros x Hx. rewrite HF in Hx. apply filter_In in Hx. destruct Hx as [Hx1 Hx2].
      apply andb_true_iff in Hx2. destruct Hx2 as [Hx2 Hx4]. unfold key_in, in_range in Hx2.
      apply andb_true_iff in Hx2. destruct Hx2 as [Hx2 Hx3]. split; [exact Hx1|]. split; [|exact Hx3].
      change (negb (kltb (fst x) rs)) with (kleb rs (fst x)) in Hx4. kord. }
    assert (Hob : forall c', reverse c' = true -> next_start c' = lo ->
                  forall ps, (forall x, In x ps -> In x F) -> consume ko c' ps = (emit ko ps, false)).
    { intros c' Hr He ps Hps. apply consume_in_bound. intros x Hx. destruct (HinF x (Hps x Hx)) as (_ & Hb & _).
      unfold out_of_bound. rewrite Hr, He. destruct (is_nil lo); cbn [negb andb]; [reflexivity|]. kord. }
    assert (HrevG : rev G = rev F ++ rev Glow) by (rewrite HG; apply rev_app_distr).
    destruct (Nat.ltb (length (firstn B (rev F))) B) eqn:Elen.
    - (* short batch *)
      apply Nat.ltb_lt in Elen.
      assert (Hall : firstn B (rev F) = rev F).
      { apply firstn_all2. destruct (Nat.le_gt_cases (length (rev F)) B) as [Hle|Hgt]; [exact Hle|].
        rewrite firstn_length_le in Elen by lia. lia. }
      rewrite Hall.
      eexists (rev F), _. split; [reflexivity|]. cbn [reverse end_key eof next_start next_end].
      split; [reflexivity|]. split; [reflexivity|].
      split; [apply Hob; cbn; auto; intros x Hx; apply in_rev; exact Hx|].
      fold G. rewrite HrevG.
      destruct (is_nil s || negb (is_nil lo) && kleb rs lo) eqn:Ee.
      + split; [|discriminate]. f_equal.
        assert (Hle : kle rs lo).
        { apply orb_true_iff in Ee. destruct Ee as [Ee|Ee].
          - apply is_nil_true in Ee. unfold rs. rewrite Ee. cbn [is_nil negb andb]. rewrite orb_false_r.
            destruct (is_nil lo) eqn:El; [apply is_nil_true in El; rewrite El|]; KeyOT.order.
          - apply andb_true_iff in Ee. destruct Ee as [_ Ee]. kord. }
        unfold Glow. rewrite filter_none; [reflexivity|]. intros x _. unfold key_in, in_range.
        destruct (kltb (fst x) rs) eqn:E1; [|apply andb_false_r]. rewrite andb_true_r.
        apply andb_false_iff. left. kord.
      + apply orb_false_iff in Ee. destruct Ee as [Es Ee]. apply is_nil_false in Es.
        assert (Hrss : rs = s).
        { destruct Hrs3 as [Hr|Hr]; [exact Hr|]. exfalso.
          destruct (is_nil lo) eqn:El.
          - apply is_nil_true in El. unfold rs in Hr. rewrite El in Hr. cbn [is_nil orb] in Hr. congruence.
          - cbn [negb andb] in Ee. rewrite Hr in Ee. kord. }
        destruct FB as [FB|(FB3 & FB2)]; [congruence|].
        assert (Hbs : forall k, klt k s \/ k = s -> below ne k = true).
        { intros k Hk. apply below_spec. destruct FB2 as [FB2|FB2]; [left; exact FB2|right]. destruct Hk as [Hk| ->]; [KeyOT.order|exact FB2]. }
        split.
        * f_equal. f_equal. unfold Glow. apply filter_ext_in'. intros x _. unfold key_in, in_range.
          rewrite Hrss. unfold below at 2. apply is_nil_false in Es. rewrite Es.
          destruct (kltb (fst x) s) eqn:E1; [|rewrite !andb_false_r; reflexivity].
          rewrite !andb_true_r. assert (Hb : below ne (fst x) = true) by (apply Hbs; left; kord).
          rewrite Hb. apply andb_true_r.
        * intros _. split; [rewrite Hrss; exact Es|]. unfold mur. cbn [next_end]. fold ne. rewrite Hrss.
          apply Nat.add_lt_le_mono.
          -- apply (count_lt _ _ P s).
             ++ intros p _ Hp. apply below_spec in Hp. destruct Hp as [Hp|Hp]; [congruence|]. apply Hbs. left. exact Hp.
             ++ apply HL; exact FB3.
             ++ apply Hbs. right. reflexivity.
             ++ apply below_false. split; [exact Es|KeyOT.order].
          -- apply count_le. intros k _ Hk. apply below_spec in Hk. destruct Hk as [Hk|Hk]; [congruence|]. apply Hbs. left. exact Hk.
    - (* full batch: continue below its last key *)
      apply Nat.ltb_ge in Elen.
      assert (Hlen : length (firstn B (rev F)) = B) by (pose proof (firstn_le_length B (rev F)); lia).
      destruct (firstn_full_last B (rev F) HB Hlen) as (p & x & Hpx).
      rewrite Hpx. rewrite last_key_snoc.
      eexists (p ++ [x]), _. split; [reflexivity|]. cbn [reverse end_key eof next_start next_end].
      split; [reflexivity|]. split; [reflexivity|].
      assert (Hsub : forall y, In y (p ++ [x]) -> In y F).
      { intros y Hy. rewrite <- Hpx in Hy. apply in_rev. rewrite <- (firstn_skipn B (rev F)). apply in_or_app. left. exact Hy. }
      split; [apply Hob; cbn; auto|].
      rewrite Heof.
      assert (Hx : In x F) by (apply Hsub; apply in_or_app; right; left; reflexivity).
      destruct (HinF x Hx) as (HxR & Hxrs & Hxne).
      assert (Hxnn : fst x <> []) by (apply Hne; exact HxR).
      split.
      + fold G.
        set (tail := skipn B (rev F) ++ rev Glow).
        assert (Hdec : rev G = (p ++ [x]) ++ tail).
        { rewrite HrevG. rewrite <- (firstn_skipn B (rev F)) at 1. rewrite Hpx. unfold tail. rewrite <- !app_assoc. reflexivity. }
        assert (HG2 : G = rev tail ++ x :: rev p).
        { rewrite <- (rev_involutive G), Hdec. rewrite rev_app_distr, rev_app_distr. cbn [rev app]. reflexivity. }
        assert (Hbelow := sorted_below (rev tail) (rev p) x (eq_ind _ ksorted HGs _ HG2)).
        rewrite <- HG2 in Hbelow.
        rewrite Hdec. f_equal. rewrite <- (rev_involutive tail). f_equal. rewrite <- Hbelow.
        unfold G. rewrite filter_filter. apply filter_ext_in'. intros y _. unfold key_in, in_range.
        unfold below at 2. apply is_nil_false in Hxnn. rewrite Hxnn.
        destruct (kltb (fst y) (fst x)) eqn:E1; [|rewrite !andb_false_r; reflexivity].
        rewrite !andb_true_r. assert (Hb : below ne (fst y) = true).
        { apply below_spec. apply below_spec in Hxne. destruct Hxne as [Hxne|Hxne]; [left; exact Hxne|right; kord]. }
        rewrite Hb. rewrite ?andb_true_r. reflexivity.
      + intros _. split; [exact Hxnn|]. unfold mur. cbn [next_end]. fold ne.
        apply Nat.add_le_lt_mono.
        * apply count_le. intros q _ Hq. apply below_spec in Hq. apply below_spec.
          apply below_spec in Hxne. destruct Hq as [Hq|Hq]; [congruence|]. destruct Hxne as [Hxne|Hxne]; [left; exact Hxne|right; kord].
        * apply (count_lt _ _ U (fst x)).
          -- intros k _ Hk. apply below_spec in Hk. apply below_spec.
             apply below_spec in Hxne. destruct Hk as [Hk|Hk]; [congruence|]. destruct Hxne as [Hxne|Hxne]; [left; exact Hxne|right; kord].
          -- apply HU; exact HxR.
          -- exact Hxne.
          -- apply below_false. split; [exact Hxnn|KeyOT.order].
  Qed.
End Reverse.
