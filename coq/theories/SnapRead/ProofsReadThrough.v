(* SnapRead/ProofsReadThrough.v — point reads over a store that honours committed_locks (read through),
   with the asynchronous lock resolution landing or not, and programs that move the timestamp of the
   snapshot object in both directions: both lock sets are statements about ONE timestamp. *)
From Verif Require Import Base.Lex SnapRead.Model SnapRead.ModelRead SnapRead.ProofsCache SnapRead.ProofsRead SnapRead.ProofsMove.

Lemma newest_in ws ts best r : newest ws ts best = Some r -> In r ws \/ best = Some r.
Proof.
  revert best. induction ws as [|[c o] ws IH]; intros best; cbn [newest]; [auto|].
  intros H. apply IH in H. destruct H as [H|H]; [left; right; exact H|].
  destruct ((c <=? ts) && match best with None => true | Some (cb, _) => cb <? c end); [inversion H; left; left; reflexivity|right; exact H].
Qed.

(* the write a lock turns into is the newest one at ts if it is younger than everything committed so far *)
Lemma vis_app_newest ws c o ts :
  (forall c' o', In (c', o') ws -> c' < c) -> c <= ts ->
  vis (ws ++ [(c, o)]) ts = match o with Put v => Some v | Del => None end.
Proof.
  intros Hw Hc. unfold vis. rewrite newest_app. cbn [newest].
  assert (E1 : (c <=? ts) = true) by (apply N.leb_le; exact Hc). rewrite E1. cbn [andb].
  destruct (newest ws ts None) as [[cb ob]|] eqn:En.
  - destruct (newest_in _ _ _ _ En) as [Hin|Hn]; [|discriminate].
    assert (E2 : (cb <? c) = true) by (apply N.ltb_lt; exact (Hw _ _ Hin)). rewrite E2. destruct o; reflexivity.
  - destruct o; reflexivity.
Qed.

Definition cs_ok (tx : list (N * tstate)) (ts : N) (cs : list N) : Prop :=
  forall t, In t cs -> exists c, tx_fin tx t = FCommitted c /\ c <= ts.

(* a key's committed writes are all older than the lock it carries *)
Definition lock_fresh (w : world) : Prop :=
  forall k l, ks_lock (k_get (w_keys w) k) = Some l ->
  forall c' o', In (c', o') (ks_ws (k_get (w_keys w) k)) -> c' < l_start l.

Lemma probe_access tx t ts : txs_ok tx ts ->
  classify true (snd (probe tx t)) ts = Access -> exists c, tx_fin tx t = FCommitted c /\ c <= ts.
Proof.
  intros Hok. unfold probe, tx_fin. destruct (tx_get tx t) as [st|] eqn:Eg; [|cbn; discriminate].
  assert (Hfin : forall f a, classify true (st_of_fin f a) ts = Access -> exists c, f = FCommitted c /\ c <= ts).
  { intros f a Hc. destruct (classify_sound true (st_of_fin f a) ts) as (_ & H2 & _). destruct (H2 Hc) as [Hcm Hle].
    destruct f as [|c]; [destruct a; cbn in Hcm; discriminate|]. exists c. split; [reflexivity|exact Hle]. }
  destruct st as [f|f|[|n] f]; cbn [snd eventual].
  - apply Hfin.
  - cbn. discriminate.
  - apply Hfin.
  - cbn. discriminate.
Qed.

Section ReadThrough.
  Variable Fin : key -> list write.

  Definition rinv (ts : N) (st : rstate) : Prop :=
    inv ts Fin (st_w st, st_rs st) /\ cs_ok (w_txns (st_w st)) ts (st_cs st) /\ lock_fresh (st_w st).

  Lemma store_get_rt_val ts st k o :
    rinv ts st -> store_get_rt (k_get (w_keys (st_w st)) k) ts (st_rs st) (st_cs st) = SVal o -> o = vis (Fin k) ts.
  Proof.
    intros (Hinv & Hcs & Hfr). unfold store_get_rt.
    destruct (ks_lock (k_get (w_keys (st_w st)) k)) as [l|] eqn:El.
    2:{ intros H. apply (store_get_val ts Fin (st_w st) (st_rs st) k o Hinv). unfold store_get. rewrite El. exact H. }
    destruct (memN (l_start l) (st_cs st)) eqn:Em.
    - unfold memN in Em. apply existsb_exists in Em. destruct Em as (t & Ht & Et). apply N.eqb_eq in Et. subst t.
      destruct (Hcs _ Ht) as (c & Hc & Hle).
      destruct Hinv as (Htx & _ & Hfin). rewrite <- (Hfin k). unfold final_ws. rewrite El. cbn [contrib]. rewrite Hc.
      assert (Hlt : l_start l < c).
      { unfold tx_fin in Hc. destruct (tx_get (w_txns (st_w st)) (l_start l)) as [s|] eqn:Eg; [|discriminate].
        exact (proj1 (Htx _ _ Eg) c Hc). }
      assert (Hold : forall c' o', In (c', o') (ks_ws (k_get (w_keys (st_w st)) k)) -> c' < c)
        by (intros c' o' Hin; specialize (Hfr k l El c' o' Hin); lia).
      destruct (l_kind l); intros H; inversion H; subst.
      + symmetry. apply (vis_app_newest _ c (Put v) ts Hold Hle).
      + symmetry. apply (vis_app_newest _ c Del ts Hold Hle).
      + rewrite app_nil_r. reflexivity.
      + rewrite app_nil_r. reflexivity.
    - intros H. apply (store_get_val ts Fin (st_w st) (st_rs st) k o Hinv). unfold store_get. rewrite El. exact H.
  Qed.

  Lemma handle_lock_rt_inv lands ts st k l : rinv ts st -> rinv ts (handle_lock_rt lands ts st (k, l)).
  Proof.
    intros ((Htx & Hrs & Hfin) & Hcs & Hfr). unfold handle_lock_rt.
    pose proof (probe_spec (w_txns (st_w st)) (l_start l) ts Htx) as Hp.
    pose proof (probe_access (w_txns (st_w st)) (l_start l) ts Htx) as Hacc.
    destruct (probe (w_txns (st_w st)) (l_start l)) as [tx' s]. destruct Hp as (Hf & Htx' & Hig). cbn [snd] in Hacc.
    set (keys' := if lands && finished s then k_set (w_keys (st_w st)) k (resolve_ks tx' (k_get (w_keys (st_w st)) k)) else w_keys (st_w st)).
    assert (Hkg : forall k', k_get keys' k' = k_get (w_keys (st_w st)) k' \/
                             (k' = k /\ k_get keys' k' = resolve_ks tx' (k_get (w_keys (st_w st)) k))).
    { intros k'. unfold keys'. destruct (lands && finished s); [|left; reflexivity].
      rewrite k_get_set. destruct (keqb k k') eqn:Ek; [|left; reflexivity].
      apply keqb_eq in Ek. subst k'. destruct (existsb (fun e => keqb (fst e) k) (w_keys (st_w st))) eqn:Ex; [right; auto|].
      left. rewrite (k_get_absent _ _ Ex). reflexivity. }
    assert (Hfin' : forall k', final_ws tx' (k_get keys' k') = Fin k').
    { intros k'. rewrite <- (Hfin k'). destruct (Hkg k') as [->|[-> ->]].
      - unfold final_ws. rewrite (contrib_ext _ _ _ Hf). reflexivity.
      - unfold resolve_ks, final_ws at 1. cbn [ks_ws ks_lock contrib]. rewrite app_nil_r.
        unfold final_ws. rewrite (contrib_ext _ _ _ Hf). reflexivity. }
    assert (Hfr' : lock_fresh (mkWorld keys' tx')).
    { intros k' l'. cbn [w_keys]. destruct (Hkg k') as [->|[-> ->]]; [apply Hfr|cbn; discriminate]. }
    assert (Hrs' : rs_ok tx' ts (st_rs st)) by (intros t Ht; rewrite Hf; apply Hrs; exact Ht).
    assert (Hcs' : cs_ok tx' ts (st_cs st)) by (intros t Ht; rewrite Hf; apply Hcs; exact Ht).
    destruct (classify true s ts) eqn:Ec; (split; [split; [exact Htx'|split; [|exact Hfin']]|split; [|exact Hfr']]); cbn [st_rs st_cs st_w w_txns]; try assumption.
    - intros t [<-|Ht]; [rewrite Hf; apply Hig; reflexivity|apply Hrs'; exact Ht].
    - intros t [<-|Ht]; [rewrite Hf; apply Hacc; reflexivity|apply Hcs'; exact Ht].
  Qed.

  Lemma get_rt_correct ts lands : forall fuel i st k,
    rinv ts st ->
    rinv ts (snd (get_rt fuel lands i st ts k)) /\
    (forall o, fst (get_rt fuel lands i st ts k) = Some o -> o = vis (Fin k) ts).
  Proof.
    induction fuel as [|f IH]; intros i st k Hinv; cbn [get_rt]; [split; [exact Hinv|discriminate]|].
    destruct (store_get_rt (k_get (w_keys (st_w st)) k) ts (st_rs st) (st_cs st)) as [o|l] eqn:Es.
    - cbn [fst snd]. split; [exact Hinv|]. intros o' H; inversion H; subst. eapply store_get_rt_val; eassumption.
    - apply IH. apply handle_lock_rt_inv. exact Hinv.
  Qed.

  (* programs: Get / SetSnapshotTS in both directions / the owner finishes a transaction *)
  Definition q_env (st : N * rstate) (o : pop) : Prop :=
    match o with PSetTS ts => txs_ok (w_txns (st_w (snd st))) ts | _ => True end.

  Lemma q_step_correct fuel lands st o :
    rinv (fst st) (snd st) -> q_env st o ->
    let r := q_step fuel lands (fst st) (snd st) o in
    rinv (fst (snd r)) (snd (snd r)) /\
    (forall k a, o = PGet k -> fst r = Some a -> a = vis (Fin k) (fst st)).
  Proof.
    destruct st as [ver st]. cbn [fst snd]. intros Hinv Henv. destruct o as [k|ts|t]; cbn [q_step].
    - pose proof (get_rt_correct ver lands fuel 0%nat st k Hinv) as [H1 H2].
      destruct (get_rt fuel lands 0 st ver k) as [a st'] eqn:Eg. cbn [fst snd] in *. split; [exact H1|].
      intros k' a' Hk Ha. inversion Hk; subst k'. apply H2. exact Ha.
    - cbn [fst snd]. split; [|intros k a Hk; discriminate].
      destruct Hinv as ((_ & _ & Hf) & _ & Hfr). split; [split; [exact Henv|split; [intros t []|exact Hf]]|]. split; [intros t []|exact Hfr].
    - cbn [fst snd]. split; [|intros k a Hk; discriminate].
      destruct Hinv as ((Htx & Hrs & Hf) & Hcs & Hfr).
      unfold rinv, inv. cbn [fst snd st_w st_rs st_cs w_txns w_keys].
      split; [split; [apply txs_ok_finish; exact Htx|split]|split].
      + intros t' Ht'. rewrite tx_fin_finish. apply Hrs. exact Ht'.
      + intros k. rewrite <- (Hf k). unfold final_ws. rewrite (contrib_ext _ _ _ (tx_fin_finish (w_txns (st_w st)) t)). reflexivity.
      + intros t' Ht'. rewrite tx_fin_finish. apply Hcs. exact Ht'.
      + exact Hfr.
  Qed.

  Fixpoint q_envs (fuel : nat) (lands : nat -> bool) (st : N * rstate) (ops : list pop) : Prop :=
    match ops with [] => True | o :: r => q_env st o /\ q_envs fuel lands (snd (q_step fuel lands (fst st) (snd st) o)) r end.
  Fixpoint q_right (fuel : nat) (lands : nat -> bool) (st : N * rstate) (ops : list pop) : Prop :=
    match ops with
    | [] => True
    | o :: r => (forall k a, o = PGet k -> fst (q_step fuel lands (fst st) (snd st) o) = Some a -> a = vis (Fin k) (fst st))
                /\ q_right fuel lands (snd (q_step fuel lands (fst st) (snd st) o)) r
    end.

  Lemma q_program_right fuel lands : forall ops st, rinv (fst st) (snd st) -> q_envs fuel lands st ops -> q_right fuel lands st ops.
  Proof.
    induction ops as [|o r IH]; intros st Hinv Henv; cbn [q_right]; [exact I|].
    destruct Henv as [He Hr]. destruct (q_step_correct fuel lands st o Hinv He) as [Hinv' Hans].
    split; [exact Hans|apply IH; assumption].
  Qed.
End ReadThrough.
