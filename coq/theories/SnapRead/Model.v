(* SnapRead/Model.v — executable model for C05, part 1: the MVCC truth and the scanner.
   Mirrors /repo/txnkv/txnsnapshot/scan.go (newScanner, Next, getData, resolveCurrentLock),
   /repo/internal/locate/region_cache.go (LocateKey, LocateEndKey — as they are, F08),
   /repo/internal/mockstore/mocktikv/rpc.go:handleKvScan + mvcc_leveldb.go:Scan/ReverseScan
   (region clamp, "startKey not in region" panic), /repo/kv/key.go:NextKey.
   Keys / values are byte strings (list N).  [] as an upper bound means "unbounded"; [] as a
   lower bound is the least key, so it needs no special treatment. *)
From Verif Require Import Base.Lex.

Definition key := list N.
Definition value := list N.

Definition is_nil (k : key) : bool := match k with [] => true | _ => false end.
Definition kltb (a b : key) : bool := lex_ltb a b.
Definition kleb (a b : key) : bool := negb (lex_ltb b a).
Definition keqb (a b : key) : bool := bytes_eqb a b.
(* k below an upper bound; [] = +infinity *)
Definition below (hi k : key) : bool := if is_nil hi then true else kltb k hi.
Definition in_range (lo hi k : key) : bool := kleb lo k && below hi k.
(* kv.NextKey *)
Definition next_key (k : key) : key := k ++ [0].

(* ---------------------------------------------------------------- MVCC truth *)
Inductive wop := Put (v : value) | Del.
Definition write := (N * wop)%type.                 (* commit_ts, operation *)
Definition truth := list (key * list write).        (* ascending by key, keys distinct *)

(* newest write with commit_ts <= ts (commit timestamps of one key are distinct) *)
Fixpoint newest (ws : list write) (ts : N) (best : option write) : option write :=
  match ws with
  | [] => best
  | (c, o) :: r =>
      let better := match best with None => true | Some (cb, _) => cb <? c end in
      newest r ts (if (c <=? ts) && better then Some (c, o) else best)
  end.

Definition vis (ws : list write) (ts : N) : option value :=
  match newest ws ts None with Some (_, Put v) => Some v | _ => None end.

Fixpoint writes_of (k : key) (T : truth) : list write :=
  match T with
  | [] => []
  | (k', ws) :: r => if keqb k' k then ws else writes_of k r
  end.

Definition read_at (ts : N) (k : key) (T : truth) : option value := vis (writes_of k T) ts.

Fixpoint filter_map {A B} (f : A -> option B) (l : list A) : list B :=
  match l with
  | [] => []
  | a :: r => match f a with Some b => b :: filter_map f r | None => filter_map f r end
  end.

(* the specification of a scan: [(k,v) | k in keys T ascending, Q k, read_at ts k = Some v] *)
Definition expected_q (Q : key -> bool) (ts : N) (T : truth) : list (key * value) :=
  filter_map (fun e => if Q (fst e) then option_map (pair (fst e)) (read_at ts (fst e) T) else None) T.
Definition expected (ts : N) (lo hi : key) (T : truth) : list (key * value) :=
  expected_q (in_range lo hi) ts T.

(* ---------------------------------------------------------------- what the store serves to a scan *)
(* Val v: committed value visible at ts.  Lk o: the store answered "key is locked" for this key;
   o is what the point get (snapshot.get, which resolves the lock) returns for it. *)
Inductive row := Val (v : value) | Lk (o : option value).
Definition rows := list (key * row).

Definition memk (k : key) (l : list key) : bool := existsb (keqb k) l.

Definition rows_of (ts : N) (T : truth) (locked : list key) : rows :=
  filter_map (fun e =>
    let k := fst e in
    match read_at ts k T, memk k locked with
    | o, true => Some (k, Lk o)
    | Some v, false => Some (k, Val v)
    | None, false => None
    end) T.

(* ---------------------------------------------------------------- region layouts *)
Record region := mkRegion { r_start : key; r_end : key }.   (* [start, end), end [] = unbounded *)
Definition layout := list key.                                (* split points, ascending *)

Fixpoint locate_from (s : key) (l : layout) (k : key) : region :=
  match l with
  | [] => mkRegion s []
  | p :: l' => if kltb k p then mkRegion s p else locate_from p l' k
  end.
(* RegionCache.LocateKey: the region with start <= k < end *)
Definition locate_key (l : layout) (k : key) : region := locate_from [] l k.

Fixpoint locate_end_from (s : key) (l : layout) (k : key) : region :=
  match l with
  | [] => mkRegion s []
  | p :: l' => if kleb k p then mkRegion s p else locate_end_from p l' k
  end.
(* RegionCache.LocateEndKey: the region with start < k <= end; the empty key is the end of the key
   space and belongs to the last region (0dbaf7e; before that fix the code returned the first region). *)
Definition locate_end_key (l : layout) (k : key) : region :=
  if is_nil k then mkRegion (last l []) [] else locate_end_from [] l k.

Definition region_contains (r : region) (k : key) : bool := kleb (r_start r) k && below (r_end r) k.

(* smaller of two upper bounds, [] = +infinity *)
Definition min_end (a b : key) : key :=
  if is_nil a then b else if is_nil b then a else if kltb a b then a else b.

(* ---------------------------------------------------------------- the store's scan *)
Inductive resp := RPairs (ps : rows) | RPanic.

Definition key_in (lo hi : key) (e : key * row) : bool := in_range lo hi (fst e).

(* forward: handleKvScan checks start in region, clamps the end to the region, Scan(start,end,limit) *)
Definition store_scan (R : rows) (reg : region) (start endk : key) (limit : nat) : resp :=
  if region_contains reg start
  then RPairs (firstn limit (filter (key_in start (min_end endk (r_end reg))) R))
  else RPanic.

(* reverse: req.StartKey = upper (exclusive), req.EndKey = lower (inclusive, must lie in the region) *)
Definition store_rscan (R : rows) (reg : region) (upper lower : key) (limit : nat) : resp :=
  if region_contains reg lower
  then RPairs (firstn limit (rev (filter (key_in lower (min_end upper (r_end reg))) R)))
  else RPanic.

(* ---------------------------------------------------------------- Scanner *)
Record cursor := mkCur {
  next_start : key;   (* forward: where the next batch starts; reverse: the lower bound *)
  next_end : key;     (* reverse: exclusive upper end of the next batch *)
  end_key : key;      (* forward: the upper bound *)
  eof : bool;
  reverse : bool }.

(* newScanner: batch size <= 1 is replaced by the default; a size above the uint32 Limit field of the
   scan request is capped at 2^32-1 (8f02ec4; the comparison goes through N so that evaluating
   norm_batch on ordinary sizes never builds the unary constant) *)
Definition norm_batch (b : nat) : nat :=
  if Nat.leb b 1 then 256%nat
  else if N.of_nat b <? 4294967296 then b else N.to_nat 4294967295.

(* Iter(k, upper) / IterReverse(k, lower) *)
Definition init_cursor (lo hi : key) (rev : bool) : cursor := mkCur lo hi hi false rev.

Definition last_key (ps : rows) : key := match rev ps with [] => [] | (k, _) :: _ => k end.

Inductive gd := GD (batch : rows) (c : cursor) | GDPanic.

(* the located region and the StartKey / EndKey of the ScanRequest built by getData *)
Definition scan_req (L : layout) (c : cursor) : region * key * key :=
  if negb (reverse c) then
    let loc := locate_key L (next_start c) in
    let req_end :=
      if is_nil (end_key c) || (negb (is_nil (r_end loc)) && kltb (r_end loc) (end_key c))
      then r_end loc else end_key c in
    (loc, next_start c, req_end)
  else
    let loc := locate_end_key L (next_end c) in
    let req_start :=
      if is_nil (next_start c) || (negb (is_nil (r_start loc)) && kltb (next_start c) (r_start loc))
      then r_start loc else next_start c in
    (loc, next_end c, req_start).

(* reverse scan whose remaining range [lower bound, cursor) is empty: getData sends nothing *)
Definition no_rpc (c : cursor) : bool :=
  reverse c && negb (is_nil (next_start c)) && negb (is_nil (next_end c)) && kleb (next_end c) (next_start c).

(* Scanner.getData: one successful RPC against the layout valid at that moment (or none, see no_rpc) *)
Definition get_data (B : nat) (L : layout) (R : rows) (c : cursor) : gd :=
  if no_rpc c then GD [] (mkCur (next_start c) (next_end c) (end_key c) true true) else
  let '(loc, rs, re) := scan_req L c in
  if negb (reverse c) then
    match store_scan R loc rs re B with
    | RPanic => GDPanic
    | RPairs ps =>
        if Nat.ltb (length ps) B then
          let ns := r_end loc in
          let e := is_nil (r_end loc) || (negb (is_nil (end_key c)) && kleb (end_key c) ns) in
          GD ps (mkCur ns (next_end c) (end_key c) e false)
        else GD ps (mkCur (next_key (last_key ps)) (next_end c) (end_key c) (eof c) false)
    end
  else
    match store_rscan R loc rs re B with
    | RPanic => GDPanic
    | RPairs ps =>
        if Nat.ltb (length ps) B then
          let ne := re in
          let e := is_nil (r_start loc) || (negb (is_nil (next_start c)) && kleb ne (next_start c)) in
          GD ps (mkCur (next_start c) ne (end_key c) e true)
        else GD ps (mkCur (next_start c) (last_key ps) (end_key c) (eof c) true)
    end.

(* the bound check of Scanner.Next *)
Definition out_of_bound (c : cursor) (k : key) : bool :=
  if reverse c then negb (is_nil (next_start c)) && kltb k (next_start c)
  else negb (is_nil (end_key c)) && kleb (end_key c) k.

Definition emit_row (ko : bool) (e : key * row) : option (key * value) :=
  match snd e with
  | Val v => Some (fst e, if ko then [] else v)
  | Lk (Some v) => Some (fst e, v)          (* resolveCurrentLock filled the value by a point get *)
  | Lk None => None                         (* empty value after the point get = not exist: skipped *)
  end.

(* Scanner.Next walking over one cached batch: emitted pairs, and whether the bound check fired *)
Fixpoint consume (ko : bool) (c : cursor) (ps : rows) : list (key * value) * bool :=
  match ps with
  | [] => ([], false)
  | e :: ps' =>
      if out_of_bound c (fst e) then ([], true)
      else let (rest, stop) := consume ko c ps' in
           (match emit_row ko e with Some x => x :: rest | None => rest end, stop)
  end.

Inductive outcome := Done (out : list (key * value)) | Panicked (out : list (key * value))
                   | OutOfFuel (out : list (key * value)).

Definition prepend (l : list (key * value)) (o : outcome) : outcome :=
  match o with
  | Done x => Done (l ++ x) | Panicked x => Panicked (l ++ x) | OutOfFuel x => OutOfFuel (l ++ x)
  end.

(* A scan RPC that does not move the cursor: a region error (stale region: back off, re-locate, send
   again) or a response-level lock error (cmdScanResp.GetError(): resolve the named lock with
   ResolveLocks, back off if it is alive, send the same request again). *)
Inductive retry_kind := RetryRegionError | RetryRespLocked.

(* the whole iteration: the i-th scan RPC either is a retry ([retry i = Some _], the cursor stays) or is
   served against layout/rows [env i] *)
Fixpoint scan_loop (fuel B : nat) (ko : bool) (retry : nat -> option retry_kind) (env : nat -> layout * rows)
         (i : nat) (c : cursor) : outcome :=
  match fuel with
  | O => OutOfFuel []
  | S f =>
      if eof c then Done [] else
      match retry i with
      | Some _ => scan_loop f B ko retry env (S i) c
      | None =>
          match get_data B (fst (env i)) (snd (env i)) c with
          | GDPanic => Panicked []
          | GD ps c' =>
              let (out, stop) := consume ko c' ps in
              if stop then Done out else prepend out (scan_loop f B ko retry env (S i) c')
          end
      end
  end.

(* at most E retries from step i on *)
Fixpoint count_retry (retry : nat -> option retry_kind) (i n : nat) : nat :=
  match n with
  | O => 0%nat
  | S n' => ((match retry i with Some _ => 1 | None => 0 end) + count_retry retry (S i) n')%nat
  end.
Definition bounded_retry (retry : nat -> option retry_kind) (i E : nat) : Prop :=
  forall n, (count_retry retry i n <= E)%nat.

(* canonical observable: under key-only only keys are compared *)
Definition canon (ko : bool) (x : key * value) : key * value := if ko then (fst x, []) else x.

Definition scan_env (ts : N) (T : truth) (lay : nat -> layout) (lk : nat -> list key) (i : nat) : layout * rows :=
  (lay i, rows_of ts T (lk i)).

Definition scan (fuel B : nat) (ko : bool) (ts : N) (T : truth) (retry : nat -> option retry_kind)
           (lay : nat -> layout) (lk : nat -> list key) (lo hi : key) (rv : bool) : outcome :=
  scan_loop fuel (norm_batch B) ko retry (scan_env ts T lay lk) 0 (init_cursor lo hi rv).
