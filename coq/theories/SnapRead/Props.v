(* SnapRead/Props.v — theorems for C05 (snapshot reads are stable and identical across all access paths). *)
From Verif Require Import Base.Lex SnapRead.Model SnapRead.ModelRead SnapRead.ProofsOrd SnapRead.ProofsList
  SnapRead.ProofsScanF SnapRead.ProofsScanR SnapRead.ProofsScanLoop SnapRead.ProofsScanLoopR
  SnapRead.ProofsCache SnapRead.ProofsRead SnapRead.ProofsTerm SnapRead.ProofsMove SnapRead.ProofsReadThrough SnapRead.ProofsMoveTerm SnapRead.ProofsTop.

(* For every truth (ascending keys), every snapshot ts, all bounds (empty = unbounded; even lo > hi),
   every batch size (0 and 1 are replaced by the default, sizes above 2^32-1 are capped, as in newScanner), key-only or not, EVERY
   sequence of region layouts (one per getData call, split points drawn from a finite set P) and
   EVERY sequence of lock sets met by the scan requests, EVERY schedule of retries (region errors and
   response-level lock errors: RPCs that leave the cursor where it is) with at most R retries: the scan
   terminates within |P| + |T| + 2 + R scan RPCs without panic and its concatenated output is exactly
   [(k,v) | in_range lo hi k, read_at ts k = Some v], ascending (descending for reverse) — so no
   key is repeated or skipped.  Under key-only the keys are compared (canon).
   Reverse scans from the end of the key space (hi = []) are covered for every layout sequence
   (LocateEndKey("") returns the last region since 0dbaf7e; formerly refuted, F08b). *)
Theorem C05_scan_complete :
  forall (T : truth) (ts : N) (lo hi : key) (B : nat) (ko rv : bool)
         (retry : nat -> option retry_kind) (R : nat) (lay : nat -> layout) (lk : nat -> list key) (P : list key),
    tsorted T -> (forall i, incl (lay i) P) -> bounded_retry retry 0 R ->
    (rv = true -> forall e, In e T -> fst e <> []) ->
    exists out,
      scan (length P + length T + 2 + R) B ko ts T retry lay lk lo hi rv = Done out /\
      map (canon ko) out = map (canon ko) (if rv then rev (expected ts lo hi T) else expected ts lo hi T).
Proof. exact C05_scan_complete_proof. Qed.
Print Assumptions C05_scan_complete.

(* get / batch get / scan / reverse scan all equal read_at on the final truth of the world
   (committed writes plus what the leftover locks of committed transactions will become),
   whatever locks are met, whatever region errors / re-splits happen: for EVERY fuel an answer that
   comes back is right (the total statement with the fuel bound is C05_reads_total; the scans are total here). *)
Theorem C05_paths_agree :
  forall (w : world) (ts : N),
    txs_ok (w_txns w) ts ->
    let T := final_truth w in
    (forall fuel k o w' rs', get fuel w [] ts k = (Some o, w', rs') -> o = read_at ts k T) /\
    (forall fuel ev L0 keys res w' rs',
        batch_get fuel ev L0 w ts keys = (Some res, w', rs') ->
        forall k v, In (k, v) res <-> In k keys /\ read_at ts k T = Some v) /\
    (tsorted T -> forall lo hi B ko retry R lay lk P, (forall i, incl (lay i) P) -> bounded_retry retry 0 R ->
        exists out, scan (length P + length T + 2 + R) B ko ts T retry lay lk lo hi false = Done out /\
                    map (canon ko) out = map (canon ko) (expected ts lo hi T)) /\
    (tsorted T -> (forall e, In e T -> fst e <> []) ->
        forall lo hi B ko retry R lay lk P, (forall i, incl (lay i) P) -> bounded_retry retry 0 R ->
        exists out, scan (length P + length T + 2 + R) B ko ts T retry lay lk lo hi true = Done out /\
                    map (canon ko) out = map (canon ko) (rev (expected ts lo hi T))).
Proof. exact C05_paths_agree_proof. Qed.
Print Assumptions C05_paths_agree.

(* Termination of the two fuelled read loops.  Environment assumption (part of the world): a live
   transaction answers "alive" to finitely many status checks (TAlive n) and is finished afterwards,
   or its min commit ts can be pushed; [patience] is the total number of such waiting rounds.  The
   region-error schedule contains at most E errors.  get needs patience + 2 rounds; batch get needs
   E * (2|keys| + 1) + patience + 2|keys| + 1. *)
Theorem C05_reads_terminate :
  forall (w : world) (ts : N),
    txs_ok (w_txns w) ts ->
    (forall fuel k, (patience (w_txns w) + 2 <= fuel)%nat ->
        exists o w' rs', get fuel w [] ts k = (Some o, w', rs')) /\
    (forall fuel ev L0 keys E, bounded_errs ev 0 E ->
        (E * (2 * length keys + 1) + patience (w_txns w) + 2 * length keys < fuel)%nat ->
        exists res w' rs', batch_get fuel ev L0 w ts keys = (Some res, w', rs')).
Proof. exact C05_reads_terminate_proof. Qed.
Print Assumptions C05_reads_terminate.

(* Every point read returns and returns the truth: under the environment assumption of
   C05_reads_terminate (finitely many waiting rounds = patience; at most E region errors and
   whole-batch lock answers in the schedule) get and batch get END with an answer within the stated
   fuel, and the answer is read_at on the final truth — whatever locks are met, whatever re-splits and
   whole-batch lock answers happen. *)
Theorem C05_reads_total :
  forall (w : world) (ts : N),
    txs_ok (w_txns w) ts ->
    let T := final_truth w in
    (forall fuel k, (patience (w_txns w) + 2 <= fuel)%nat ->
        exists o w' rs', get fuel w [] ts k = (Some o, w', rs') /\ o = read_at ts k T) /\
    (forall fuel ev L0 keys E, bounded_errs ev 0 E ->
        (E * (2 * length keys + 1) + patience (w_txns w) + 2 * length keys < fuel)%nat ->
        exists res w' rs', batch_get fuel ev L0 w ts keys = (Some res, w', rs') /\
                           forall k v, In (k, v) res <-> In k keys /\ read_at ts k T = Some v).
Proof. exact C05_reads_total_proof. Qed.
Print Assumptions C05_reads_total.

(* The tiers of BatchGetWithTier.  Buffer tier of a pipelined transaction [own]: the call returns
   (total, within E*(|keys|+1)+|keys|+1 rounds for a schedule with at most E region errors) exactly the
   pairs (k, flushed value) — the empty value for a flushed delete — of the requested keys on which
   [own] holds a lock, for every region-error / re-split schedule; it does not depend on the committed
   data of the key (the snapshot tier is never consulted for a flushed key); and the snapshot tier of
   the same reader (own start ts in the ignored set, SetPipelined) never blocks on an own lock: it
   reads the committed data below it.  Together with C05_reads_total: every tier returns and returns
   its truth. *)
Theorem C05_tiers_agree :
  forall (w : world) (own : N),
    (forall fuel ev L0 keys E, bounded_errs ev 0 E ->
        (E * (length keys + 1) + length keys < fuel)%nat ->
        exists res, buffer_batch_get fuel ev L0 w own keys = Some res /\
                    forall k v, In (k, v) res <-> In k keys /\ buf_val own (k_get (w_keys w) k) = Some v) /\
    (forall ws ws' ol, buf_val own (mkKs ws ol) = buf_val own (mkKs ws' ol)) /\
    (forall ts rs s l, ks_lock s = Some l -> l_start l = own ->
        store_get s ts (own :: rs) = SVal (vis (ks_ws s) ts)).
Proof. exact C05_tiers_agree_proof. Qed.
Print Assumptions C05_tiers_agree.

(* The scanner composed with the point get, over the world: the rows of every scan RPC are what the
   world serves at that moment (a blocking lock answers "locked", without a value), a locked pair is
   resolved by the point get of the same snapshot (resolveCurrentLock -> snapshot.get: status checks,
   classification, lock resolution, the shared ignored set — all of it changing the world for the later
   RPCs), region layouts change between the RPCs, RPCs are retried.  For every world with a sane
   transaction table, every layout sequence, every retry schedule with at most R retries: the scan ends
   within |P| + |T| + 2 + R scan RPCs (each point get within patience + 2 rounds) and returns exactly the
   specification on the final truth, in both directions. *)
Theorem C05_world_scan :
  forall (w : world) (ts : N) (lo hi : key) (B gfuel : nat) (ko rv : bool)
         (retry : nat -> option retry_kind) (R : nat) (lay : nat -> layout) (P : list key),
    txs_ok (w_txns w) ts ->
    let T := final_truth w in
    tsorted T -> (forall i, incl (lay i) P) -> bounded_retry retry 0 R ->
    (patience (w_txns w) + 2 <= gfuel)%nat ->
    (rv = true -> forall e, In e T -> fst e <> []) ->
    exists out,
      wscan (length P + length T + 2 + R) gfuel B ko ts w retry lay lo hi rv = Done out /\
      map (canon ko) out = map (canon ko) (if rv then rev (expected ts lo hi T) else expected ts lo hi T).
Proof. exact C05_world_scan_proof. Qed.
Print Assumptions C05_world_scan.

(* resolveLocks' decision: Ignore only if rolled back, committed above the caller's ts, or min
   commit ts pushed; Access only if committed at or below ts; a finished transaction is never
   waited for; the store ignores locks with start > ts and pessimistic / lock-only locks. *)
Theorem C05_classify_sound :
  forall (for_read : bool) (s : txn_status) (ts : N),
    (classify for_read s ts = Ignore ->
       is_rolled_back s = true \/ (is_committed s = true /\ ts < st_commit s) \/ is_pushed s = true) /\
    (classify for_read s ts = Access -> is_committed s = true /\ st_commit s <= ts) /\
    ((is_rolled_back s = true \/ (is_committed s = true /\ st_ttl s = 0)) -> classify for_read s ts <> Wait) /\
    (forall l rs, ts < l_start l -> blocks l ts rs = false) /\
    (forall l rs, l_kind l = LPess \/ l_kind l = LLock -> blocks l ts rs = false).
Proof. exact C05_classify_sound_proof. Qed.
Print Assumptions C05_classify_sound.

(* any interleaving of Get / BatchGet / SetSnapshotTS — including calls that FAIL after part of their
   keys were read, and calls refused by the transaction safe point [sp] (CheckVisibility) — on a
   snapshot with the cache returns what the same program returns without a cache; a failed call leaves
   the snapshot (cache and version) exactly as it was; a read refused by the safe point caches nothing
   and stays refused on every re-read (Get, and BatchGet of a non-empty key list) whatever ran before on
   that snapshot object; nothing is cached while the version is the max timestamp *)
Theorem C05_cache_transparent :
  forall (rd : N -> key -> option value) (sp : N) (ops : list cop) (ts : N),
    c_run rd sp (mkSnap ts None) ops = u_run rd sp ts ops /\
    (version (c_final rd sp (mkSnap ts None) ops) = maxts -> cached (c_final rd sp (mkSnap ts None) ops) = None) /\
    (forall s k, c_step rd sp s (CGetErr k) = (RErr, s)) /\
    (forall s ks got, c_step rd sp s (CBatchErr ks got) = (RErr, s)) /\
    (let s := c_final rd sp (mkSnap ts None) ops in
     version s < sp ->
     (forall k, c_step rd sp s (CGet k) = (RRefused, s)) /\
     (forall ks, ks <> [] -> c_step rd sp s (CBatchGet ks) = (RRefused, s))).
Proof. exact C05_cache_transparent_proof. Qed.
Print Assumptions C05_cache_transparent.

(* One snapshot object that remembers which transactions it ignores (resolvedLocks), read by a
   program of Gets interleaved with SetSnapshotTS in BOTH directions and with lock-state changes (the
   owner of a transaction finishes it): every answer is read_at, at the version current at that
   moment, on the final truth.  SetSnapshotTS clears the cache and the ignored set on every call;
   environment assumption at a move (p_env): transactions still alive and pushable can only commit
   above the new timestamp.  Second half (so that the statement is not vacuous for small fuel): with
   fuel >= patience + 2 (patience = the waiting rounds the live transactions impose) EVERY Get of the
   program returns an answer. *)
Theorem C05_ts_moves :
  forall (w : world) (ts : N) (fuel : nat) (ops : list pop),
    txs_ok (w_txns w) ts ->
    let Fin := fun k => final_ws (w_txns w) (k_get (w_keys w) k) in
    let st := (w, mkRS ts None []) in
    p_env fuel st ops ->
    p_right Fin fuel st ops /\
    ((patience (w_txns w) + 2 <= fuel)%nat -> p_answered fuel st ops).
Proof. exact C05_ts_moves_proof. Qed.
Print Assumptions C05_ts_moves.

(* The same over a store that honours committed_locks (TiKV, unistore: a lock whose transaction the
   request names as committed is read THROUGH), with the asynchronous lock resolution of a read landing
   or not ([lands], arbitrary): the snapshot object carries the ignored set AND the committed set; both
   are statements about one timestamp and SetSnapshotTS drops both.  Every answer of every program of
   Get / SetSnapshotTS (forward and BACKWARD) / finish events is read_at at the current version.
   (Found here: the code kept the committed set across SetSnapshotTS; after a backward move below the
   commit ts the value of the not yet committed-at-that-ts transaction was read — ex_backward_move.)
   Second half: with fuel >= patience + 2 every Get returns an answer, whether the resolutions land or not. *)
Theorem C05_ts_moves_read_through :
  forall (w : world) (ts : N) (fuel : nat) (lands : nat -> bool) (ops : list pop),
    txs_ok (w_txns w) ts -> lock_fresh w ->
    let Fin := fun k => final_ws (w_txns w) (k_get (w_keys w) k) in
    let st := (ts, mkRst w [] []) in
    q_envs fuel lands st ops ->
    q_right Fin fuel lands st ops /\
    ((patience (w_txns w) + 2 <= fuel)%nat -> q_answered fuel lands st ops).
Proof. exact C05_ts_moves_read_through_proof. Qed.
Print Assumptions C05_ts_moves_read_through.

(* ---------------------------------------------------------------- non-vacuity *)
(* ex_world (ProofsTop.v): a world with every kind of leftover lock; ts = 50 *)
Example ex_world_ok : txs_ok (w_txns ex_world) 50.
Proof.
  intros t st. cbn [ex_world w_txns tx_get].
  repeat (match goal with |- context [?a =? t] =>
            let E := fresh "E" in destruct (a =? t) eqn:E;
            [apply N.eqb_eq in E; subst t; intros H; inversion H; subst st;
             split; [intros c Hc; inversion Hc; lia|intros f Hf; inversion Hf; cbn; lia]|] end).
  discriminate.
Qed.

Example ex_get_terminates :
  map (fun k => fst (fst (get 10 ex_world [] 50 k))) [[97]; [98]; [99]; [100]; [101]; [102]; [103]]
  = [Some (Some [2]); Some (Some [3]); Some None; Some (Some [5]); Some (Some [6]); Some (Some [8]); Some None].
Proof. vm_compute. reflexivity. Qed.

Example ex_batch_get_value :
  match fst (fst (batch_get 20 (fun i => if Nat.eqb i 1 then EvRegionErr [[99]; [101]] else EvOk) [[100]] ex_world 50
                      [[97]; [98]; [99]; [100]; [101]; [102]; [103]])) with
  | Some res => length res = 5%nat
  | None => False
  end.
Proof. vm_compute. reflexivity. Qed.

(* a scan over 3 layouts that change between the calls, with a lock met in the second call *)
Example ex_scan_splits :
  scan 14 2 false 10 w_truth (fun i => match i with 1%nat => Some RetryRegionError | 3%nat => Some RetryRespLocked | _ => None end) (fun i => match i with O => [[99]; [102]] | 1%nat => [[100]] | _ => [] end)
       (fun i => match i with 1%nat => [[100]] | _ => [] end) [98] [103] false
  = Done [([98], [118]); ([99], [118]); ([100], [118]); ([101], [118]); ([102], [118])].
Proof. vm_compute. reflexivity. Qed.

(* the former F08b witness, now a regression example: all of a..h in descending order *)
Example ex_reverse_unbounded_three_regions :
  scan 12 256 false 10 w_truth (fun _ => None) (fun _ => w_layout) (fun _ => []) [] [] true
  = Done [([104], [118]); ([103], [118]); ([102], [118]); ([101], [118]); ([100], [118]); ([99], [118]); ([98], [118]); ([97], [118])].
Proof. vm_compute. reflexivity. Qed.

Example ex_reverse_bounded :
  scan 12 3 false 10 w_truth (fun _ => None) (fun _ => w_layout) (fun _ => []) [99] [104] true
  = Done [([103], [118]); ([102], [118]); ([101], [118]); ([100], [118]); ([99], [118])].
Proof. vm_compute. reflexivity. Qed.

Example ex_cache :
  c_run (fun ts k => if ts <? 20 then Some [1] else None) 0 (mkSnap 10 None)
        [CGet [97]; CBatchErr [[97]; [98]] [[98]]; CGet [98]; CSetTS 30; CGet [97]; CSetTS maxts; CGet [97]]
  = [RGet (Some [1]); RErr; RGet (Some [1]); RUnit; RGet None; RUnit; RGet None].
Proof. vm_compute. reflexivity. Qed.

(* reader at ts 50 meets the pushable transaction 48 (key f) and ignores it; the owner commits it at 80;
   the SAME snapshot moved forward to 100 must see the new value (the ignored set is dropped), moved
   back to 50 the old one *)
Example ex_forward_move :
  let run := fix run (st : world * rsnap) (ops : list pop) : list (option (option value)) :=
               match ops with [] => [] | o :: r => let '(a, st') := p_step 10 st o in a :: run st' r end in
  run (ex_world, mkRS 50 None []) [PGet [102]; PFinish 48; PSetTS 100; PGet [102]; PSetTS 50; PGet [102]]
  = [Some (Some [8]); None; None; Some (Some [9]); None; Some (Some [8])].
Proof. vm_compute. reflexivity. Qed.

(* transaction 48 (pushable, own) holds a Put lock on f; 70 holds one on e; the buffer tier of 48 returns
   only f with the flushed value, whatever is committed below; a region error re-splits *)
Example ex_buffer_tier :
  buffer_batch_get 10 (fun i => if Nat.eqb i 0 then EvRegionErr [[101]] else EvOk) [] ex_world 48 [[97]; [101]; [102]; [103]]
  = Some [([102], [9])].
Proof. vm_compute. reflexivity. Qed.

(* safe point 15: reads at version 10 are refused and stay refused; after moving to 30 they are served *)
Example ex_refused :
  c_run (fun ts k => Some [1]) 15 (mkSnap 10 None)
        [CGet [97]; CGet [97]; CBatchGet [[97]; [98]]; CSetTS 30; CGet [97]; CBatchGet [[97]]]
  = [RRefused; RRefused; RRefused; RUnit; RGet (Some [1]); RBatch [([97], Some [1])]].
Proof. vm_compute. reflexivity. Qed.

(* the scanner over ex_world at ts 50: a (secondary of a transaction committed at 30) and c (a live
   transaction that commits at 60 after two more status checks) answer "locked" and are resolved by point
   gets, b's lock is rolled back, d's pessimistic and e's later lock never block, f's pushable lock is
   ignored; regions change between the RPCs and the second RPC is retried *)
Example ex_world_scan :
  wscan 12 10 2 false 50 ex_world (fun i => if Nat.eqb i 1 then Some RetryRespLocked else None)
        (fun i => if Nat.eqb i 0 then [[99]] else [[100]; [102]]) [] [] false
  = Done [([97], [2]); ([98], [3]); ([100], [5]); ([101], [6]); ([102], [8])]
  /\ wscan 12 10 3 false 50 ex_world (fun _ => None) (fun _ => [[100]]) [98] [] true
  = Done [([102], [8]); ([101], [6]); ([100], [5]); ([98], [3])].
Proof. split; vm_compute; reflexivity. Qed.

(* key a carries the secondary lock of transaction 20, committed at 30, below it the value [1] committed at
   10; the resolution never lands.  At 50 the reader sees 20 committed and reads through: [2].  Moved BACK
   to 25 (below the commit) it must answer [1]; moved forward again [2].  The second run is what the code
   did before the fix (the committed set survives the move): it answers [2] at 25. *)
Example ex_backward_move :
  let run := fix run (ver : N) (st : rstate) (ops : list pop) : list (option (option value)) :=
               match ops with [] => [] | o :: r => let '(a, (ver', st')) := q_step 10 (fun _ => false) ver st o in a :: run ver' st' r end in
  let leaky := fix leaky (ver : N) (st : rstate) (ops : list pop) : list (option (option value)) :=
               match ops with
               | [] => []
               | PSetTS ts :: r => None :: leaky ts (mkRst (st_w st) [] (st_cs st)) r
               | o :: r => let '(a, (ver', st')) := q_step 10 (fun _ => false) ver st o in a :: leaky ver' st' r
               end in
  run 50 (mkRst ex_world [] []) [PGet [97]; PSetTS 25; PGet [97]; PSetTS 50; PGet [97]]
    = [Some (Some [2]); None; Some (Some [1]); None; Some (Some [2])]
  /\ leaky 50 (mkRst ex_world [] []) [PGet [97]; PSetTS 25; PGet [97]]
    = [Some (Some [2]); None; Some (Some [2])].
Proof. split; vm_compute; reflexivity. Qed.

Example ex_world_lock_fresh : lock_fresh ex_world.
Proof.
  intros k l. cbn [ex_world w_keys k_get].
  repeat (match goal with |- context [keqb ?a k] => destruct (keqb a k) end;
          [cbn [ks_lock ks_ws]; intros H; inversion H; subst; cbn [In l_start]; intros c' o' Hin;
           repeat (destruct Hin as [Hin|Hin]; [inversion Hin; subst; lia|]); destruct Hin|]).
  cbn. discriminate.
Qed.
