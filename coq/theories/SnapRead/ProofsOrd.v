(* SnapRead/ProofsOrd.v — the lexicographic order on keys as a total order (with the [order]
   tactic), the successor law of kv.NextKey, bounds. *)
From Coq Require Import Orders OrdersTac.
From Verif Require Import Base.Lex SnapRead.Model.

Lemma kltb_irrefl a : kltb a a = false.
Proof. unfold kltb, lex_ltb. rewrite lex_cmp_refl. reflexivity. Qed.

Lemma kltb_trans a b c : kltb a b = true -> kltb b c = true -> kltb a c = true.
Proof.
  unfold kltb. rewrite !lex_ltb_lt. unfold lex_lt. apply lex_cmp_lt_trans.
Qed.

Lemma kltb_total a b : kltb a b = false -> kltb b a = false -> a = b.
Proof.
  unfold kltb, lex_ltb. intros H1 H2. apply lex_cmp_eq.
  rewrite (lex_cmp_antisym a b) in H2.
  destruct (lex_cmp a b); cbn in *; congruence.
Qed.

Lemma kltb_nil a : kltb a [] = false.
Proof. unfold kltb, lex_ltb. destruct a; reflexivity. Qed.

Lemma lex_cmp_next k : lex_cmp k (next_key k) = Lt.
Proof. unfold next_key. induction k as [|x k IH]; cbn; [reflexivity|]. rewrite N.compare_refl. exact IH. Qed.

Lemma lex_cmp_next_least k : forall x, lex_cmp k x = Lt -> lex_cmp x (next_key k) <> Lt.
Proof.
  unfold next_key. induction k as [|a k IH]; intros [|y x]; cbn [lex_cmp app]; try discriminate.
  - intros _. destruct (N.compare y 0) eqn:E; try discriminate.
    + destruct x; discriminate.
    + rewrite N.compare_lt_iff in E. exfalso. lia.
  - rewrite (N.compare_antisym a y). destruct (N.compare a y) eqn:E; cbn [CompOpp]; try discriminate.
    intros H. apply IH. exact H.
Qed.

(* lt / le are stated with Is_true so that they are not equations themselves (the [order]
   tactic treats equations specially) *)
Definition klt (a b : key) : Prop := Is_true (kltb a b).
Definition kle (a b : key) : Prop := Is_true (kleb a b).
Module KeyO <: EqLtLe.
  Definition t := key.
  Definition eq := @Logic.eq key.
  Definition lt := klt.
  Definition le := kle.
End KeyO.

Lemma lt_iff a b : klt a b <-> kltb a b = true.
Proof. unfold klt. destruct (kltb a b); cbn; split; auto; discriminate. Qed.
Lemma le_iff a b : kle a b <-> kltb b a = false.
Proof. unfold kle, kleb, kltb. destruct (lex_ltb b a); cbn; split; auto; try discriminate; intros []. Qed.

Module KeyTO <: IsTotalOrder KeyO.
  Definition eq_equiv : Equivalence KeyO.eq := eq_equivalence.
  Lemma lt_strorder : StrictOrder KeyO.lt.
  Proof.
    split.
    - intros a H. apply lt_iff in H. rewrite kltb_irrefl in H. discriminate.
    - intros a b c H1 H2. apply lt_iff. apply lt_iff in H1. apply lt_iff in H2. eapply kltb_trans; eassumption.
  Qed.
  Lemma lt_compat : Proper (KeyO.eq ==> KeyO.eq ==> iff) KeyO.lt.
  Proof. intros a b -> c d ->. reflexivity. Qed.
  Lemma le_lteq : forall x y, KeyO.le x y <-> KeyO.lt x y \/ KeyO.eq x y.
  Proof.
    unfold KeyO.eq, KeyO.le, KeyO.lt. intros x y. rewrite le_iff, lt_iff. split.
    - intros H. destruct (kltb x y) eqn:E; [left; reflexivity|right; apply kltb_total; assumption].
    - intros [H| ->]; [|apply kltb_irrefl].
      destruct (kltb y x) eqn:E; [|reflexivity].
      pose proof (kltb_trans _ _ _ H E) as H1. rewrite kltb_irrefl in H1. discriminate.
  Qed.
  Lemma lt_total : forall x y, KeyO.lt x y \/ KeyO.eq x y \/ KeyO.lt y x.
  Proof.
    unfold KeyO.eq, KeyO.lt. intros x y. rewrite !lt_iff.
    destruct (kltb x y) eqn:E1; [left; reflexivity|].
    destruct (kltb y x) eqn:E2; [right; right; reflexivity|].
    right; left. apply kltb_total; assumption.
  Qed.
End KeyTO.

Module KeyOT := MakeOrderTac KeyO KeyTO.

Lemma kltb_true a b : kltb a b = true -> klt a b.
Proof. apply lt_iff. Qed.
Lemma kltb_false a b : kltb a b = false -> kle b a.
Proof. apply le_iff. Qed.
Lemma kltb_intro_true a b : klt a b -> kltb a b = true.
Proof. apply lt_iff. Qed.
Lemma kltb_intro_false a b : kle b a -> kltb a b = false.
Proof. apply le_iff. Qed.
Lemma kleb_true a b : kleb a b = true -> kle a b.
Proof. unfold kle. intros ->. exact I. Qed.
Lemma kleb_false a b : kleb a b = false -> klt b a.
Proof. unfold kleb. intros H. apply lt_iff. unfold kltb. destruct (lex_ltb b a); cbn in *; congruence. Qed.
Lemma kleb_intro_true a b : kle a b -> kleb a b = true.
Proof. unfold kle. destruct (kleb a b); cbn; [reflexivity|intros []]. Qed.
Lemma kleb_intro_false a b : klt b a -> kleb a b = false.
Proof. intros H. apply lt_iff in H. unfold kleb, kltb in *. rewrite H. reflexivity. Qed.

Lemma nil_le k : kle [] k.
Proof. apply le_iff. apply kltb_nil. Qed.
Lemma next_gt k : klt k (next_key k).
Proof. apply lt_iff. unfold kltb, lex_ltb. rewrite lex_cmp_next. reflexivity. Qed.
Lemma next_least k x : klt k x -> kle (next_key k) x.
Proof.
  rewrite lt_iff, le_iff. unfold kltb, lex_ltb. intros H.
  destruct (lex_cmp k x) eqn:E; try discriminate.
  pose proof (lex_cmp_next_least k x E) as H1.
  destruct (lex_cmp x (next_key k)); congruence.
Qed.
Lemma next_not_nil k : next_key k <> [].
Proof. unfold next_key. destruct k; discriminate. Qed.

(* bring boolean comparisons into the shape the [order] tactic understands; every hypothesis is
   converted exactly once (revert all, re-introduce one by one) *)
Ltac kconv H :=
  lazymatch type of H with
  | kleb ?a ?b = true => apply kleb_true in H
  | kleb ?a ?b = false => apply kleb_false in H
  | kltb ?a ?b = true => apply kltb_true in H
  | kltb ?a ?b = false => apply kltb_false in H
  | _ => idtac
  end.
Ltac kprep :=
  generalize I;
  repeat match goal with
  | H : kleb _ _ = _ |- _ => revert H
  | H : kltb _ _ = _ |- _ => revert H
  end;
  repeat lazymatch goal with
  | |- True -> _ => fail
  | |- _ -> _ => let H := fresh "K" in intro H; kconv H
  end;
  intros _.
Ltac kgoal :=
  lazymatch goal with
  | |- kleb ?a ?b = true => apply kleb_intro_true
  | |- kleb ?a ?b = false => apply kleb_intro_false
  | |- kltb ?a ?b = true => apply kltb_intro_true
  | |- kltb ?a ?b = false => apply kltb_intro_false
  | |- _ => idtac
  end.
Ltac kord := kprep; kgoal; KeyOT.order.

Lemma is_nil_true k : is_nil k = true <-> k = [].
Proof. destruct k; cbn; split; congruence. Qed.
Lemma is_nil_false k : is_nil k = false <-> k <> [].
Proof. destruct k; cbn; split; congruence. Qed.

Lemma below_spec hi k : below hi k = true <-> hi = [] \/ klt k hi.
Proof.
  unfold below. destruct hi as [|h hi]; cbn [is_nil].
  - split; auto.
  - rewrite lt_iff. split; [intros H; right; exact H|intros [H|H]; [discriminate|exact H]].
Qed.
Lemma below_false hi k : below hi k = false <-> hi <> [] /\ kle hi k.
Proof.
  unfold below. destruct hi as [|h hi]; cbn [is_nil].
  - split; [discriminate|intros [H _]; congruence].
  - rewrite le_iff. split; [intros H; split; [discriminate|exact H]|intros [_ H]; exact H].
Qed.

Lemma in_range_spec lo hi k : in_range lo hi k = true <-> kle lo k /\ (hi = [] \/ klt k hi).
Proof.
  unfold in_range. rewrite andb_true_iff, below_spec. split; intros [H1 H2]; split; auto.
  - apply kleb_true; exact H1.
  - apply kleb_intro_true; exact H1.
Qed.

(* min_end behaves as a minimum with [] as +infinity *)
Lemma below_min_end a b k : below (min_end a b) k = below a k && below b k.
Proof.
  unfold min_end. destruct a as [|x a]; cbn [is_nil]; [reflexivity|].
  destruct b as [|y b]; cbn [is_nil]; [cbn [below is_nil]; rewrite andb_true_r; reflexivity|].
  destruct (kltb (x :: a) (y :: b)) eqn:E; cbn [below is_nil].
  - destruct (kltb k (x :: a)) eqn:E1; cbn [andb]; [|reflexivity]. symmetry. kord.
  - destruct (kltb k (y :: b)) eqn:E1; cbn [andb].
    + rewrite andb_true_r. symmetry. kord.
    + rewrite andb_false_r. reflexivity.
Qed.
