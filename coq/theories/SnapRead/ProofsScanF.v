(* SnapRead/ProofsScanF.v — the forward scanner: one getData step splits the remaining
   specification into "this batch" ++ "the rest from the new cursor"; the loop terminates. *)
From Coq Require Import Sorting.Sorted.
From Verif Require Import Base.Lex SnapRead.Model SnapRead.ProofsOrd SnapRead.ProofsList.

Definition emit (ko : bool) (ps : rows) : list (key * value) := filter_map (emit_row ko) ps.

Lemma filter_map_app {A B} (f : A -> option B) l1 l2 : filter_map f (l1 ++ l2) = filter_map f l1 ++ filter_map f l2.
Proof.
  induction l1 as [|a l1 IH]; cbn [filter_map app]; [reflexivity|].
  destruct (f a); cbn [app]; rewrite IH; reflexivity.
Qed.

Lemma emit_app ko a b : emit ko (a ++ b) = emit ko a ++ emit ko b.
Proof. apply filter_map_app. Qed.

Lemma consume_in_bound ko c ps :
  (forall e, In e ps -> out_of_bound c (fst e) = false) -> consume ko c ps = (emit ko ps, false).
Proof.
  induction ps as [|e ps IH]; cbn [consume emit filter_map]; intros H; [reflexivity|].
  rewrite (H e (or_introl eq_refl)). rewrite IH by (intros y Hy; apply H; right; exact Hy).
  unfold emit. destruct (emit_row ko e); reflexivity.
Qed.

(* ---------------------------------------------------------------- locate_key *)
Lemma locate_from_spec L : forall s k, kle s k ->
  let r := locate_from s L k in
  kle (r_start r) k /\ (r_end r = [] \/ klt k (r_end r)) /\ (r_end r = [] \/ In (r_end r) L).
Proof.
  induction L as [|p L IH]; intros s k Hs; cbn [locate_from].
  - cbn. auto.
  - destruct (kltb k p) eqn:E.
    + cbn. split; [exact Hs|]. split; right; [kord|left; reflexivity].
    + assert (Hp : kle p k) by kord. destruct (IH p k Hp) as (H1 & H2 & H3).
      split; [exact H1|]. split; [exact H2|]. destruct H3 as [H3|H3]; [left; exact H3|right; right; exact H3].
Qed.

Lemma locate_key_spec L k :
  let r := locate_key L k in
  kle (r_start r) k /\ (r_end r = [] \/ klt k (r_end r)) /\ (r_end r = [] \/ In (r_end r) L).
Proof. apply locate_from_spec. apply nil_le. Qed.

(* ---------------------------------------------------------------- splitting filters *)
Lemma filter_split_below {A} (P : key * A -> bool) (e : key) (l : list (key * A)) :
  ksorted l ->
  filter P l = filter (fun x => P x && below e (fst x)) l ++ filter (fun x => P x && negb (below e (fst x))) l.
Proof.
  intros Hs. destruct e as [|b e].
  - cbn [below is_nil negb]. rewrite (filter_none (fun x => P x && false)) by (intros; apply andb_false_r).
    rewrite app_nil_r. apply filter_ext_in'. intros x _. rewrite andb_true_r. reflexivity.
  - cbn [below is_nil]. apply filter_split. exact Hs.
Qed.

Section Forward.
  Variables (ko : bool) (B : nat) (P U : list key).
  Hypothesis HB : (1 <= B)%nat.

  Definition mu (c : cursor) : nat :=
    (length (filter (fun p => kltb (next_start c) p) P) + length (filter (fun k => kleb (next_start c) k) U))%nat.

  Lemma fwd_step L R c :
    ksorted R -> reverse c = false -> eof c = false -> incl L P -> (forall e, In e R -> In (fst e) U) ->
    exists ps c',
      get_data B L R c = GD ps c' /\ reverse c' = false /\ end_key c' = end_key c /\
      consume ko c' ps = (emit ko ps, false) /\
      filter (key_in (next_start c) (end_key c)) R =
        ps ++ (if eof c' then [] else filter (key_in (next_start c') (end_key c)) R) /\
      (eof c' = false -> (mu c' < mu c)%nat).
  Proof.
    intros Hs Hrev Heof HL HU.
    set (ns := next_start c). set (hi := end_key c).
    unfold get_data, no_rpc, scan_req. rewrite Hrev. cbn [andb negb]. fold ns hi.
    set (loc := locate_key L ns).
    destruct (locate_key_spec L ns) as (F1 & F2 & F3). fold loc in F1, F2, F3.
    set (e := r_end loc) in *.
    set (req_end := if is_nil hi || (negb (is_nil e) && kltb e hi) then e else hi).
    unfold store_scan. fold e.
    assert (Hcont : region_contains loc ns = true).
    { unfold region_contains. fold e. apply andb_true_iff. split; [kord|]. apply below_spec. exact F2. }
    rewrite Hcont.
    (* what the store returns, as a filter of the remaining specification *)
    set (G := filter (key_in ns hi) R).
    set (F := filter (key_in ns (min_end req_end e)) R).
    assert (HF : F = filter (fun x => key_in ns hi x && below e (fst x)) R).
    { apply filter_ext_in'. intros x _. unfold key_in, in_range. rewrite below_min_end.
      rewrite <- andb_assoc. f_equal.
      unfold req_end. destruct (is_nil hi) eqn:Ehi; cbn [orb].
      - apply is_nil_true in Ehi. rewrite Ehi. cbn [below is_nil]. destruct (below e (fst x)); reflexivity.
      - destruct (is_nil e) eqn:Ee; cbn [negb andb].
        + reflexivity.
        + destruct (kltb e hi) eqn:Elt; [|reflexivity].
          destruct (below e (fst x)) eqn:Eb; cbn [andb]; [|rewrite andb_false_r; reflexivity].
          symmetry. rewrite andb_true_r. apply below_spec. right.
          apply below_spec in Eb. destruct Eb as [Eb|Eb]; [apply is_nil_false in Ee; congruence|]. kord. }
    assert (HG : G = F ++ filter (fun x => key_in ns hi x && negb (below e (fst x))) R).
    { rewrite HF. apply filter_split_below. exact Hs. }
    assert (HGs : ksorted G) by (apply ksorted_filter; exact Hs).
    assert (HinF : forall x, In x F -> In x R /\ kle ns (fst x) /\ below hi (fst x) = true).
    { intros x Hx. rewrite HF in Hx. apply filter_In in Hx. destruct Hx as [Hx1 Hx2].
      apply andb_true_iff in Hx2. destruct Hx2 as [Hx2 _]. unfold key_in, in_range in Hx2.
      apply andb_true_iff in Hx2. destruct Hx2 as [Hx2 Hx3]. split; [exact Hx1|]. split; [kord|exact Hx3]. }
    assert (Hob : forall c', reverse c' = false -> end_key c' = hi ->
                  forall ps, (forall x, In x ps -> In x F) -> consume ko c' ps = (emit ko ps, false)).
    { intros c' Hr He ps Hps. apply consume_in_bound. intros x Hx. destruct (HinF x (Hps x Hx)) as (_ & _ & Hb).
      unfold out_of_bound. rewrite Hr, He. destruct (is_nil hi) eqn:Ehi; cbn [negb andb]; [reflexivity|].
      apply below_spec in Hb. destruct Hb as [Hb|Hb]; [apply is_nil_false in Ehi; congruence|]. kord. }
    destruct (Nat.ltb (length (firstn B F)) B) eqn:Elen.
    - (* short batch: the region is exhausted *)
      apply Nat.ltb_lt in Elen.
      assert (Hall : firstn B F = F).
      { apply firstn_all2. destruct (Nat.le_gt_cases (length F) B) as [Hle|Hgt]; [exact Hle|].
        rewrite firstn_length_le in Elen by lia. lia. }
      rewrite Hall.
      eexists F, _. split; [reflexivity|]. cbn [reverse end_key eof next_start].
      split; [reflexivity|]. split; [reflexivity|].
      split; [apply Hob; cbn; auto|].
      fold G. rewrite HG.
      destruct (is_nil e) eqn:Ee; cbn [orb].
      + (* last region *)
        split; [|discriminate]. f_equal.
        apply filter_none. intros x _. apply is_nil_true in Ee. rewrite Ee. cbn [below is_nil negb]. apply andb_false_r.
      + destruct (is_nil hi) eqn:Ehi; cbn [negb andb].
        * split.
          -- f_equal. apply filter_ext_in'. intros x _. unfold key_in, in_range.
             apply is_nil_true in Ehi. rewrite Ehi. cbn [below is_nil]. rewrite !andb_true_r.
             apply is_nil_false in Ee. destruct F2 as [F2|F2]; [congruence|].
             unfold below. apply is_nil_false in Ee. rewrite Ee.
             destruct (kltb (fst x) e) eqn:E1; cbn [negb].
             ++ rewrite andb_false_r. symmetry. kord.
             ++ rewrite andb_true_r. destruct (kleb ns (fst x)) eqn:E2; symmetry; kord.
          -- intros _. unfold mu. cbn [next_start]. fold ns.
             apply is_nil_false in Ee. destruct F2 as [F2|F2]; [congruence|]. destruct F3 as [F3|F3]; [congruence|].
             apply Nat.add_lt_le_mono.
             ++ apply (count_lt _ _ P e); [intros p _ Hp; kord|apply HL; exact F3|kord|apply kltb_irrefl].
             ++ apply count_le. intros k _ Hk. kord.
        * destruct (kleb hi e) eqn:Ehe.
          -- (* the region reaches the upper bound *)
             split; [|discriminate]. f_equal. apply filter_none. intros x _.
             unfold key_in, in_range. destruct (below hi (fst x)) eqn:Eb; [|rewrite andb_false_r; reflexivity].
             rewrite andb_true_r. apply below_spec in Eb. destruct Eb as [Eb|Eb]; [apply is_nil_false in Ehi; congruence|].
             assert (Hbe : below e (fst x) = true) by (apply below_spec; right; kord).
             rewrite Hbe. apply andb_false_r.
          -- split.
             ++ f_equal. apply filter_ext_in'. intros x _. unfold key_in, in_range.
                apply is_nil_false in Ee. destruct F2 as [F2|F2]; [congruence|].
                unfold below at 2. apply is_nil_false in Ee. rewrite Ee.
                destruct (kltb (fst x) e) eqn:E1; cbn [negb].
                ** rewrite andb_false_r. symmetry. apply andb_false_iff. left. kord.
                ** rewrite andb_true_r. f_equal. destruct (kleb ns (fst x)) eqn:E2; symmetry; kord.
             ++ intros _. unfold mu. cbn [next_start]. fold ns.
                apply is_nil_false in Ee. destruct F2 as [F2|F2]; [congruence|]. destruct F3 as [F3|F3]; [congruence|].
                apply Nat.add_lt_le_mono.
                ** apply (count_lt _ _ P e); [intros p _ Hp; kord|apply HL; exact F3|kord|apply kltb_irrefl].
                ** apply count_le. intros k _ Hk. kord.
    - (* full batch: continue right after its last key *)
      apply Nat.ltb_ge in Elen.
      assert (Hlen : length (firstn B F) = B) by (pose proof (firstn_le_length B F); lia).
      destruct (firstn_full_last B F HB Hlen) as (p & x & Hpx).
      rewrite Hpx. rewrite last_key_snoc.
      eexists (p ++ [x]), _. split; [reflexivity|]. cbn [reverse end_key eof next_start].
      split; [reflexivity|]. split; [reflexivity|].
      assert (Hsub : forall y, In y (p ++ [x]) -> In y F).
      { intros y Hy. rewrite <- Hpx in Hy. rewrite <- (firstn_skipn B F). apply in_or_app. left. exact Hy. }
      split; [apply Hob; cbn; auto|].
      rewrite Heof.
      assert (Hx : In x F) by (apply Hsub; apply in_or_app; right; left; reflexivity).
      destruct (HinF x Hx) as (HxR & Hxns & Hxhi).
      split.
      + fold G.
        assert (Hdec : G = p ++ x :: (skipn B F ++ filter (fun x => key_in ns hi x && negb (below e (fst x))) R)).
        { rewrite HG. rewrite <- (firstn_skipn B F) at 1. rewrite Hpx. rewrite <- !app_assoc. reflexivity. }
        assert (Habove := sorted_above p _ x (eq_ind _ ksorted HGs _ Hdec)).
        rewrite <- Hdec in Habove.
        rewrite Hdec at 1. rewrite <- (app_assoc p [x]). cbn [app]. f_equal. f_equal.
        rewrite <- Habove. unfold G. rewrite filter_filter.
        apply filter_ext_in'. intros y _. unfold key_in, in_range.
        destruct (kltb (fst x) (fst y)) eqn:E1.
        * rewrite andb_true_r. f_equal.
          assert (kle (next_key (fst x)) (fst y)) by (apply next_least; kord).
          destruct (kleb ns (fst y)) eqn:E2; symmetry; kord.
        * rewrite andb_false_r. symmetry. apply andb_false_iff. left. pose proof (next_gt (fst x)). kord.
      + intros _. unfold mu. cbn [next_start]. fold ns. pose proof (next_gt (fst x)) as Hn.
        apply Nat.add_le_lt_mono.
        * apply count_le. intros q _ Hq. kord.
        * apply (count_lt _ _ U (fst x)); [intros k _ Hk; kord|apply HU; exact HxR|kord|kord].
  Qed.
End Forward.
