(* SnapRead/ProofsRead.v — point get and batch get return read_at on the final truth of the world,
   whatever locks are met (partial correctness; the loops are fuelled). *)
From Verif Require Import Base.Lex SnapRead.Model SnapRead.ModelRead SnapRead.ProofsCache.

(* ---------------------------------------------------------------- visibility *)
Lemma newest_app a b ts best : newest (a ++ b) ts best = newest b ts (newest a ts best).
Proof.
  revert best. induction a as [|[c o] a IH]; intros best; cbn [app newest]; [reflexivity|]. apply IH.
Qed.

Lemma vis_app_later ws c o ts : ts < c -> vis (ws ++ [(c, o)]) ts = vis ws ts.
Proof.
  intros H. unfold vis. rewrite newest_app. cbn [newest].
  assert (E : (c <=? ts) = false) by (apply N.leb_gt; exact H). rewrite E. reflexivity.
Qed.

(* ---------------------------------------------------------------- transaction table *)
Definition fin_ignorable (f : fin) (ts : N) : Prop :=
  match f with FRolledBack => True | FCommitted c => ts < c end.

Definition txs_ok (tx : list (N * tstate)) (ts : N) : Prop :=
  forall t st, tx_get tx t = Some st ->
    (forall c, eventual st = FCommitted c -> t < c) /\
    (forall f, st = TPushed f -> fin_ignorable f ts).

Definition rs_ok (tx : list (N * tstate)) (ts : N) (rs : list N) : Prop :=
  forall t, In t rs -> fin_ignorable (tx_fin tx t) ts.

Lemma tx_get_set tx t s t' :
  tx_get (tx_set tx t s) t' =
    if t =? t' then match tx_get tx t with Some _ => Some s | None => None end else tx_get tx t'.
Proof.
  induction tx as [|[a sa] tx IH]; cbn [tx_set tx_get].
  - destruct (t =? t'); reflexivity.
  - destruct (a =? t) eqn:E1; cbn [tx_get].
    + apply N.eqb_eq in E1. subst a. destruct (t =? t') eqn:E2; reflexivity.
    + destruct (a =? t') eqn:E2.
      * apply N.eqb_eq in E2. subst a. rewrite N.eqb_sym in E1. rewrite E1. reflexivity.
      * exact IH.
Qed.

Lemma probe_spec tx t ts : txs_ok tx ts ->
  let '(tx', s) := probe tx t in
  (forall t', tx_fin tx' t' = tx_fin tx t') /\ txs_ok tx' ts /\
  (classify true s ts = Ignore -> fin_ignorable (tx_fin tx t) ts).
Proof.
  intros Hok. unfold probe. destruct (tx_get tx t) as [st|] eqn:Eg.
  2:{ split; [reflexivity|]. split; [exact Hok|]. intros _. unfold tx_fin. rewrite Eg. exact I. }
  destruct (Hok t st Eg) as [Hc Hp].
  assert (Hfinished : forall f a, eventual st = f -> (a = NoAction \/ a = TTLExpireRollback) ->
            classify true (st_of_fin f a) ts = Ignore -> fin_ignorable (tx_fin tx t) ts).
  { intros f a Hf Ha Hcl. unfold tx_fin. rewrite Eg, Hf. destruct f as [|c]; [exact I|]. cbn [fin_ignorable].
    destruct (classify_sound true (st_of_fin (FCommitted c) a) ts) as (H1 & _ & _).
    specialize (Hc c Hf).
    destruct (H1 Hcl) as [H|[[_ H]|H]].
    - exfalso. unfold is_rolled_back in H. cbn [st_of_fin st_ttl st_commit st_action] in H.
      apply andb_true_iff in H. destruct H as [H _]. apply andb_true_iff in H. destruct H as [_ H].
      apply N.eqb_eq in H. lia.
    - exact H.
    - cbn in H. discriminate. }
  assert (Hset : forall s', eventual s' = eventual st -> (forall f, s' <> TPushed f) ->
            (forall t', tx_fin (tx_set tx t s') t' = tx_fin tx t') /\ txs_ok (tx_set tx t s') ts).
  { intros s' He Hnp. split.
    - intros t'. unfold tx_fin. rewrite tx_get_set. destruct (t =? t') eqn:E; [|reflexivity].
      apply N.eqb_eq in E. subst t'. rewrite Eg. exact He.
    - intros t' st'. rewrite tx_get_set. destruct (t =? t') eqn:E.
      + apply N.eqb_eq in E. subst t'. rewrite Eg. intros H; inversion H; subst st'. split.
        * intros c. rewrite He. apply Hc.
        * intros f Hf. exfalso. exact (Hnp f Hf).
      + apply Hok. }
  destruct st as [f|f|[|n] f].
  - split; [reflexivity|]. split; [exact Hok|]. apply (Hfinished f NoAction eq_refl). auto.
  - split; [reflexivity|]. split; [exact Hok|]. intros _. unfold tx_fin. rewrite Eg. cbn [eventual]. apply Hp. reflexivity.
  - destruct (Hset (TFinished f) eq_refl) as [H1 H2]; [discriminate|].
    split; [exact H1|]. split; [exact H2|]. apply (Hfinished f TTLExpireRollback eq_refl). auto.
  - destruct (Hset (TAlive n f) eq_refl) as [H1 H2]; [discriminate|].
    split; [exact H1|]. split; [exact H2|]. cbn. discriminate.
Qed.

(* ---------------------------------------------------------------- keys *)
Lemma k_get_set l k s k' :
  k_get (k_set l k s) k' = if keqb k k' then (if existsb (fun e => keqb (fst e) k) l then s else ks_empty) else k_get l k'.
Proof.
  induction l as [|[a sa] l IH]; cbn [k_set k_get existsb fst].
  - destruct (keqb k k'); reflexivity.
  - destruct (keqb a k) eqn:E1; cbn [k_get orb].
    + apply keqb_eq in E1. subst a. destruct (keqb k k'); reflexivity.
    + destruct (keqb a k') eqn:E2.
      * apply keqb_eq in E2. subst a. destruct (keqb k k') eqn:E3; [|reflexivity].
        apply keqb_eq in E3. subst k'. unfold keqb in E1. rewrite (proj2 (bytes_eqb_eq k k) eq_refl) in E1. discriminate.
      * exact IH.
Qed.

Lemma k_get_absent l k : existsb (fun e => keqb (fst e) k) l = false -> k_get l k = ks_empty.
Proof.
  induction l as [|[a sa] l IH]; cbn [existsb k_get fst]; [reflexivity|].
  destruct (keqb a k); cbn [orb]; [discriminate|exact IH].
Qed.

Lemma contrib_ext tx tx' ol : (forall t, tx_fin tx' t = tx_fin tx t) -> contrib tx' ol = contrib tx ol.
Proof. intros H. destruct ol as [l|]; cbn [contrib]; [rewrite H|]; reflexivity. Qed.

Lemma writes_of_final w k : writes_of k (final_truth w) = final_ws (w_txns w) (k_get (w_keys w) k).
Proof.
  unfold final_truth. induction (w_keys w) as [|[a sa] l IH]; cbn [map writes_of k_get fst snd]; [reflexivity|].
  destruct (keqb a k); [reflexivity|exact IH].
Qed.

(* ---------------------------------------------------------------- the invariant of a read *)
Section Inv.
  Variable ts : N.
  Variable Fin : key -> list write.        (* the final committed writes of every key *)

  Definition inv (st : world * list N) : Prop :=
    let '(w, rs) := st in
    txs_ok (w_txns w) ts /\ rs_ok (w_txns w) ts rs /\
    forall k, final_ws (w_txns w) (k_get (w_keys w) k) = Fin k.

  Lemma store_get_val w rs k o :
    inv (w, rs) -> store_get (k_get (w_keys w) k) ts rs = SVal o -> o = vis (Fin k) ts.
  Proof.
    intros (Htx & Hrs & Hfin). rewrite <- (Hfin k). unfold store_get, final_ws.
    destruct (ks_lock (k_get (w_keys w) k)) as [l|] eqn:El; cbn [contrib].
    2:{ intros H. inversion H. rewrite app_nil_r. reflexivity. }
    destruct (blocks l ts rs) eqn:Eb; [discriminate|]. intros H. inversion H. clear H.
    unfold tx_fin. destruct (tx_get (w_txns w) (l_start l)) as [st|] eqn:Eg; [|rewrite app_nil_r; reflexivity].
    destruct (eventual st) as [|c] eqn:Ee; [rewrite app_nil_r; reflexivity|].
    destruct (Htx _ _ Eg) as [Hc _]. specialize (Hc c Ee).
    assert (Hlater : l_kind l = LLock \/ l_kind l = LPess \/ ts < c).
    { unfold blocks in Eb. destruct (l_kind l); auto; right; right.
      - rewrite andb_true_r in Eb. apply andb_false_iff in Eb. destruct Eb as [Eb|Eb].
        + apply negb_false_iff in Eb. apply N.ltb_lt in Eb. lia.
        + apply negb_false_iff in Eb. unfold memN in Eb. apply existsb_exists in Eb. destruct Eb as (t & Ht & Et).
          apply N.eqb_eq in Et. subst t. specialize (Hrs _ Ht). unfold tx_fin in Hrs. rewrite Eg, Ee in Hrs. exact Hrs.
      - rewrite andb_true_r in Eb. apply andb_false_iff in Eb. destruct Eb as [Eb|Eb].
        + apply negb_false_iff in Eb. apply N.ltb_lt in Eb. lia.
        + apply negb_false_iff in Eb. unfold memN in Eb. apply existsb_exists in Eb. destruct Eb as (t & Ht & Et).
          apply N.eqb_eq in Et. subst t. specialize (Hrs _ Ht). unfold tx_fin in Hrs. rewrite Eg, Ee in Hrs. exact Hrs. }
    destruct (l_kind l) eqn:Ek; try (rewrite app_nil_r; reflexivity);
      destruct Hlater as [H|[H|H]]; try discriminate; symmetry; apply vis_app_later; exact H.
  Qed.

  Lemma handle_lock_inv st kl : inv st -> inv (handle_lock ts st kl).
  Proof.
    destruct st as [w rs]. destruct kl as [k l]. intros (Htx & Hrs & Hfin). unfold handle_lock.
    pose proof (probe_spec (w_txns w) (l_start l) ts Htx) as Hp.
    destruct (probe (w_txns w) (l_start l)) as [tx' s]. destruct Hp as (Hf & Htx' & Hig).
    set (keys' := if finished s then k_set (w_keys w) k (resolve_ks tx' (k_get (w_keys w) k)) else w_keys w).
    assert (Hfin' : forall k', final_ws tx' (k_get keys' k') = Fin k').
    { intros k'. rewrite <- (Hfin k'). unfold keys'. destruct (finished s).
      - rewrite k_get_set. destruct (keqb k k') eqn:Ek.
        + apply keqb_eq in Ek. subst k'.
          destruct (existsb (fun e => keqb (fst e) k) (w_keys w)) eqn:Ex.
          * unfold resolve_ks, final_ws at 1. cbn [ks_ws ks_lock contrib]. rewrite app_nil_r.
            unfold final_ws. rewrite (contrib_ext _ _ _ Hf). reflexivity.
          * rewrite (k_get_absent _ _ Ex). reflexivity.
        + unfold final_ws. rewrite (contrib_ext _ _ _ Hf). reflexivity.
      - unfold final_ws. rewrite (contrib_ext _ _ _ Hf). reflexivity. }
    assert (Hrs' : rs_ok tx' ts rs) by (intros t Ht; rewrite Hf; apply Hrs; exact Ht).
    destruct (classify true s ts) eqn:Ec; cbn [inv w_txns w_keys]; (split; [exact Htx'|]); (split; [|exact Hfin']); try exact Hrs'.
    intros t [<-|Ht]; [rewrite Hf; apply Hig; reflexivity|apply Hrs'; exact Ht].
  Qed.

  Lemma get_correct : forall fuel w rs k o w' rs',
    inv (w, rs) -> get fuel w rs ts k = (Some o, w', rs') -> o = vis (Fin k) ts /\ inv (w', rs').
  Proof.
    induction fuel as [|f IH]; intros w rs k o w' rs' Hinv; cbn [get]; [discriminate|].
    destruct (store_get (k_get (w_keys w) k) ts rs) as [o'|l] eqn:Es.
    - intros H. inversion H; subst. split; [eapply store_get_val; eassumption|exact Hinv].
    - pose proof (handle_lock_inv (w, rs) (k, l) Hinv) as Hinv'.
      destruct (handle_lock ts (w, rs) (k, l)) as [w1 rs1]. apply IH. exact Hinv'.
  Qed.

  (* ---------------------------------------------------------------- batch get *)
  Lemma serve_spec w rs b : inv (w, rs) ->
    let '(vals, locked) := serve w rs ts b in
    (forall k v, In (k, v) vals -> In k b /\ vis (Fin k) ts = Some v) /\
    (forall k v, In k b -> vis (Fin k) ts = Some v -> In (k, v) vals \/ In k (map fst locked)) /\
    (forall k, In k (map fst locked) -> In k b).
  Proof.
    intros Hinv. induction b as [|k b IH]; cbn [serve].
    - split; [intros k v []|]. split; [intros k v []|intros k []].
    - destruct (serve w rs ts b) as [vals locked]. destruct IH as (I1 & I2 & I3).
      destruct (store_get (k_get (w_keys w) k) ts rs) as [[v|]|l] eqn:Es.
      + pose proof (store_get_val w rs k _ Hinv Es) as Hv. split; [|split].
        * intros k' v' [H|H]; [inversion H; subst; split; [left; reflexivity|symmetry; exact Hv]|].
          destruct (I1 _ _ H). split; [right|]; assumption.
        * intros k' v' [<-|H] Hvis; [left; left; rewrite <- Hv in Hvis; inversion Hvis; reflexivity|].
          destruct (I2 _ _ H Hvis); [left; right|right]; assumption.
        * intros k' H. right. apply I3. exact H.
      + pose proof (store_get_val w rs k _ Hinv Es) as Hv. split; [|split].
        * intros k' v' H. destruct (I1 _ _ H). split; [right|]; assumption.
        * intros k' v' [<-|H] Hvis; [rewrite <- Hv in Hvis; discriminate|]. apply I2; assumption.
        * intros k' H. right. apply I3. exact H.
      + split; [|split].
        * intros k' v' H. destruct (I1 _ _ H). split; [right|]; assumption.
        * intros k' v' [<-|H] Hvis; [right; left; reflexivity|].
          destruct (I2 _ _ H Hvis); [left|right; right]; assumption.
        * intros k' [<-|H]; [left; reflexivity|right; apply I3; exact H].
  Qed.

  Lemma fold_handle_inv locked st : inv st -> inv (fold_left (handle_lock ts) locked st).
  Proof. revert st. induction locked as [|kl l IH]; intros st H; cbn [fold_left]; [exact H|]. apply IH. apply handle_lock_inv. exact H. Qed.

  Lemma insert_group_mem L k0 gs k : In k (concat (insert_group L k0 gs)) <-> k = k0 \/ In k (concat gs).
  Proof.
    induction gs as [|g gs IH]; cbn [insert_group concat].
    - cbn. intuition (subst; auto).
    - destruct g as [|a g'].
      + cbn [concat app]. exact IH.
      + destruct (same_region L a k0); cbn [concat].
        * rewrite !in_app_iff. cbn [In]. intuition (subst; auto).
        * rewrite !in_app_iff. rewrite IH. intuition (subst; auto).
  Qed.

  Lemma group_keys_mem L b k : In k (concat (group_keys L b)) <-> In k b.
  Proof.
    unfold group_keys. assert (H : forall gs, In k (concat (fold_left (fun gs k => insert_group L k gs) b gs)) <-> In k b \/ In k (concat gs)).
    { induction b as [|a b IH]; intros gs; cbn [fold_left]; [cbn; tauto|]. rewrite IH, insert_group_mem. cbn [In]. intuition. }
    rewrite H. cbn. tauto.
  Qed.

  Lemma bget_correct : forall fuel ev i w rs pend acc res w' rs',
    inv (w, rs) -> bget fuel ev i w rs ts pend acc = (Some res, w', rs') ->
    incl acc res /\
    (forall k v, In (k, v) res -> In (k, v) acc \/ (In k (concat pend) /\ vis (Fin k) ts = Some v)) /\
    (forall k v, In k (concat pend) -> vis (Fin k) ts = Some v -> In (k, v) res).
  Proof.
    induction fuel as [|f IH]; intros ev i w rs pend acc res w' rs' Hinv; cbn [bget]; [discriminate|].
    destruct pend as [|b rest].
    - intros H. inversion H; subst. split; [apply incl_refl|]. split; [auto|intros k v []].
    - destruct (ev i) as [|L|kl].
      3:{ assert (Hinv' : inv (match store_get (k_get (w_keys w) kl) ts rs with
                               | SLocked l => handle_lock ts (w, rs) (kl, l) | SVal _ => (w, rs) end)).
          { destruct (store_get (k_get (w_keys w) kl) ts rs); [exact Hinv|apply handle_lock_inv; exact Hinv]. }
          destruct (match store_get (k_get (w_keys w) kl) ts rs with
                    | SLocked l => handle_lock ts (w, rs) (kl, l) | SVal _ => (w, rs) end) as [w1 rs1].
          intros Hb. exact (IH _ _ _ _ _ _ _ _ _ Hinv' Hb). }
      + pose proof (serve_spec w rs b Hinv) as Hs. destruct (serve w rs ts b) as [vals locked]. destruct Hs as (S1 & S2 & S3).
        pose proof (fold_handle_inv locked (w, rs) Hinv) as Hinv'.
        destruct (fold_left (handle_lock ts) locked (w, rs)) as [w1 rs1].
        intros Hb. apply IH in Hb; [|exact Hinv']. destruct Hb as (B1 & B2 & B3).
        assert (Hpend : forall k, In k (concat (match locked with [] => rest | _ :: _ => map fst locked :: rest end)) <->
                                  In k (map fst locked) \/ In k (concat rest)).
        { intros k. destruct locked; cbn [concat map]; [cbn; tauto|]. rewrite in_app_iff. tauto. }
        split; [intros x Hx; apply B1; apply in_or_app; left; exact Hx|]. split.
        * intros k v Hr. destruct (B2 _ _ Hr) as [Ha|[Hp Hv]].
          -- apply in_app_or in Ha. destruct Ha as [Ha|Ha]; [left; exact Ha|right].
             destruct (S1 _ _ Ha). split; [cbn [concat]; apply in_or_app; left|]; assumption.
          -- right. split; [|exact Hv]. cbn [concat]. apply in_or_app. apply Hpend in Hp. destruct Hp as [Hp|Hp]; [left; apply S3; exact Hp|right; exact Hp].
        * intros k v Hk Hv. cbn [concat] in Hk. apply in_app_or in Hk. destruct Hk as [Hk|Hk].
          -- destruct (S2 _ _ Hk Hv) as [H|H]; [apply B1; apply in_or_app; right; exact H|].
             apply B3; [|exact Hv]. apply Hpend. left. exact H.
          -- apply B3; [|exact Hv]. apply Hpend. right. exact Hk.
      + intros Hb. apply IH in Hb; [|exact Hinv]. destruct Hb as (B1 & B2 & B3).
        assert (Hpend : forall k, In k (concat ((if one_region L b then [b] else group_keys L b) ++ rest)) <-> In k (concat (b :: rest))).
        { intros k. rewrite concat_app. cbn [concat]. rewrite !in_app_iff.
          destruct (one_region L b); [cbn [concat]; rewrite app_nil_r; tauto|rewrite group_keys_mem; tauto]. }
        split; [exact B1|]. split.
        * intros k v Hr. destruct (B2 _ _ Hr) as [Ha|[Hp Hv]]; [left; exact Ha|right; split; [apply Hpend; exact Hp|exact Hv]].
        * intros k v Hk Hv. apply B3; [apply Hpend; exact Hk|exact Hv].
  Qed.
End Inv.
