(* SnapRead/ProofsTop.v — the proofs of the theorems restated in Props.v. *)
From Verif Require Import Base.Lex SnapRead.Model SnapRead.ModelRead SnapRead.ProofsOrd SnapRead.ProofsList
  SnapRead.ProofsScanF SnapRead.ProofsScanR SnapRead.ProofsScanLoop SnapRead.ProofsScanLoopR
  SnapRead.ProofsCache SnapRead.ProofsRead SnapRead.ProofsTerm SnapRead.ProofsMove SnapRead.ProofsBuffer SnapRead.ProofsWorld SnapRead.ProofsWorldScan SnapRead.ProofsReadThrough SnapRead.ProofsMoveTerm.

(* For every truth (ascending keys), every snapshot ts, all bounds (empty = unbounded; even lo > hi),
   every batch size (0 and 1 are replaced by the default, sizes above 2^32-1 are capped, as in newScanner), key-only or not, EVERY
   sequence of region layouts (one per getData call, split points drawn from a finite set P) and
   EVERY sequence of lock sets met by the scan requests, EVERY schedule of retries (region errors and
   response-level lock errors: RPCs that leave the cursor where it is) with at most R retries: the scan
   terminates within |P| + |T| + 2 + R scan RPCs without panic and its concatenated output is exactly
   [(k,v) | in_range lo hi k, read_at ts k = Some v], ascending (descending for reverse) — so no
   key is repeated or skipped.  Under key-only the keys are compared (canon).
   Reverse scans from the end of the key space (hi = []) are covered for every layout sequence
   (LocateEndKey("") returns the last region since 0dbaf7e; formerly refuted, F08b). *)
Lemma C05_scan_complete_proof :
  forall (T : truth) (ts : N) (lo hi : key) (B : nat) (ko rv : bool)
         (retry : nat -> option retry_kind) (R : nat) (lay : nat -> layout) (lk : nat -> list key) (P : list key),
    tsorted T -> (forall i, incl (lay i) P) -> bounded_retry retry 0 R ->
    (rv = true -> forall e, In e T -> fst e <> []) ->
    exists out,
      scan (length P + length T + 2 + R) B ko ts T retry lay lk lo hi rv = Done out /\
      map (canon ko) out = map (canon ko) (if rv then rev (expected ts lo hi T) else expected ts lo hi T).
Proof.
  intros T ts lo hi B ko rv retry R lay lk P HT Hlay Hb Hrv. destruct rv.
  - apply scan_reverse_complete; auto.
  - apply scan_forward_complete; assumption.
Qed.

(* get / batch get / scan / reverse scan all equal read_at on the final truth of the world
   (committed writes plus what the leftover locks of committed transactions will become),
   whatever locks are met, whatever region errors / re-splits happen, for every fuel (partial
   correctness for the two fuelled read loops; the scans also terminate). *)
Lemma C05_paths_agree_proof :
  forall (w : world) (ts : N),
    txs_ok (w_txns w) ts ->
    let T := final_truth w in
    (forall fuel k o w' rs', get fuel w [] ts k = (Some o, w', rs') -> o = read_at ts k T) /\
    (forall fuel ev L0 keys res w' rs',
        batch_get fuel ev L0 w ts keys = (Some res, w', rs') ->
        forall k v, In (k, v) res <-> In k keys /\ read_at ts k T = Some v) /\
    (tsorted T -> forall lo hi B ko retry R lay lk P, (forall i, incl (lay i) P) -> bounded_retry retry 0 R ->
        exists out, scan (length P + length T + 2 + R) B ko ts T retry lay lk lo hi false = Done out /\
                    map (canon ko) out = map (canon ko) (expected ts lo hi T)) /\
    (tsorted T -> (forall e, In e T -> fst e <> []) ->
        forall lo hi B ko retry R lay lk P, (forall i, incl (lay i) P) -> bounded_retry retry 0 R ->
        exists out, scan (length P + length T + 2 + R) B ko ts T retry lay lk lo hi true = Done out /\
                    map (canon ko) out = map (canon ko) (rev (expected ts lo hi T))).
Proof.
  intros w ts Htx T.
  set (Fin := fun k => final_ws (w_txns w) (k_get (w_keys w) k)).
  assert (Hinv : inv ts Fin (w, [])).
  { split; [exact Htx|]. split; [intros t []|intros k; reflexivity]. }
  assert (Hread : forall k, read_at ts k T = vis (Fin k) ts).
  { intros k. unfold read_at, T. rewrite writes_of_final. reflexivity. }
  split; [|split; [|split]].
  - intros fuel k o w' rs' H. rewrite Hread. eapply get_correct; eassumption.
  - intros fuel ev L0 keys res w' rs' H k v. unfold batch_get in H.
    destruct (bget_correct ts Fin _ _ _ _ _ _ _ _ _ _ Hinv H) as (_ & B2 & B3).
    rewrite Hread. split.
    + intros Hr. destruct (B2 _ _ Hr) as [[]|[Hk Hv]]. split; [apply (group_keys_mem Fin L0 keys k); exact Hk|exact Hv].
    + intros [Hk Hv]. apply B3; [apply (group_keys_mem Fin L0 keys k); exact Hk|exact Hv].
  - intros HT lo hi B ko retry R lay lk P Hlay Hb. apply scan_forward_complete; assumption.
  - intros HT Hnn lo hi B ko retry R lay lk P Hlay Hb. apply scan_reverse_complete; assumption.
Qed.

(* Termination of the two fuelled read loops.  Environment assumption (part of the world): a live
   transaction answers "alive" to finitely many status checks (TAlive n) and is finished afterwards,
   or its min commit ts can be pushed; [patience] is the total number of such waiting rounds.  The
   region-error schedule contains at most E errors.  get needs patience + 2 rounds; batch get needs
   E * (2|keys| + 1) + patience + 2|keys| + 1. *)
Lemma C05_reads_terminate_proof :
  forall (w : world) (ts : N),
    txs_ok (w_txns w) ts ->
    (forall fuel k, (patience (w_txns w) + 2 <= fuel)%nat ->
        exists o w' rs', get fuel w [] ts k = (Some o, w', rs')) /\
    (forall fuel ev L0 keys E, bounded_errs ev 0 E ->
        (E * (2 * length keys + 1) + patience (w_txns w) + 2 * length keys < fuel)%nat ->
        exists res w' rs', batch_get fuel ev L0 w ts keys = (Some res, w', rs')).
Proof.
  intros w ts Htx.
  set (Fin := fun k => final_ws (w_txns w) (k_get (w_keys w) k)).
  assert (Hinv : inv ts Fin (w, [])).
  { split; [exact Htx|]. split; [intros t []|intros k; reflexivity]. }
  split.
  - intros fuel k Hf. eapply get_terminates; eassumption.
  - intros fuel ev L0 keys E Herr Hf. unfold batch_get.
    destruct (group_keys_props L0 keys) as [G1 G2].
    eapply (bget_terminates ts (length keys)); [exact Hinv|exact Herr|exact G1|rewrite G2; lia|].
    pose proof (nblocked_le ts (w, []) (concat (group_keys L0 keys))) as H1. rewrite G2 in H1.
    pose proof (concat_nonempty_len _ G1) as H2. rewrite G2 in H2. lia.
Qed.

(* Every point read returns and returns the truth: under the environment assumption of
   C05_reads_terminate (finitely many waiting rounds = patience; at most E region errors and
   whole-batch lock answers in the schedule) get and batch get END with an answer within the stated
   fuel, and the answer is read_at on the final truth — whatever locks are met, whatever re-splits and
   whole-batch lock answers happen. *)
Lemma C05_reads_total_proof :
  forall (w : world) (ts : N),
    txs_ok (w_txns w) ts ->
    let T := final_truth w in
    (forall fuel k, (patience (w_txns w) + 2 <= fuel)%nat ->
        exists o w' rs', get fuel w [] ts k = (Some o, w', rs') /\ o = read_at ts k T) /\
    (forall fuel ev L0 keys E, bounded_errs ev 0 E ->
        (E * (2 * length keys + 1) + patience (w_txns w) + 2 * length keys < fuel)%nat ->
        exists res w' rs', batch_get fuel ev L0 w ts keys = (Some res, w', rs') /\
                           forall k v, In (k, v) res <-> In k keys /\ read_at ts k T = Some v).
Proof.
  intros w ts Htx T.
  destruct (C05_reads_terminate_proof w ts Htx) as [Tg Tb].
  destruct (C05_paths_agree_proof w ts Htx) as (Pg & Pb & _).
  split.
  - intros fuel k Hf. destruct (Tg fuel k Hf) as (o & w' & rs' & Hg).
    exists o, w', rs'. split; [exact Hg|]. exact (Pg fuel k o w' rs' Hg).
  - intros fuel ev L0 keys E He Hf. destruct (Tb fuel ev L0 keys E He Hf) as (res & w' & rs' & Hb).
    exists res, w', rs'. split; [exact Hb|]. exact (Pb fuel ev L0 keys res w' rs' Hb).
Qed.

(* The tiers of BatchGetWithTier.  Buffer tier of a pipelined transaction [own]: the call returns
   (total, within E*(|keys|+1)+|keys|+1 rounds for a schedule with at most E region errors) exactly the
   pairs (k, flushed value) — the empty value for a flushed delete — of the requested keys on which
   [own] holds a lock, for every region-error / re-split schedule; it does not depend on the committed
   data of the key (the snapshot tier is never consulted for a flushed key); and the snapshot tier of
   the same reader (own start ts in the ignored set, SetPipelined) never blocks on an own lock: it
   reads the committed data below it.  Together with C05_reads_total: every tier returns and returns
   its truth. *)
Lemma C05_tiers_agree_proof :
  forall (w : world) (own : N),
    (forall fuel ev L0 keys E, bounded_errs ev 0 E ->
        (E * (length keys + 1) + length keys < fuel)%nat ->
        exists res, buffer_batch_get fuel ev L0 w own keys = Some res /\
                    forall k v, In (k, v) res <-> In k keys /\ buf_val own (k_get (w_keys w) k) = Some v) /\
    (forall ws ws' ol, buf_val own (mkKs ws ol) = buf_val own (mkKs ws' ol)) /\
    (forall ts rs s l, ks_lock s = Some l -> l_start l = own ->
        store_get s ts (own :: rs) = SVal (vis (ks_ws s) ts)).
Proof.
  intros w own. split; [|split].
  - intros fuel ev L0 keys E He Hf. unfold buffer_batch_get.
    destruct (group_keys_props L0 keys) as [G1 G2].
    destruct (bbuf_terminates (length keys) own w fuel ev 0%nat (group_keys L0 keys) [] E He G1) as [res Hres].
    + rewrite G2. lia.
    + pose proof (concat_nonempty_len _ G1) as H2. rewrite G2 in H2. nia.
    + exists res. split; [exact Hres|]. intros k v.
      rewrite (bbuf_correct (fun _ => []) own w _ _ _ _ _ _ Hres k v). rewrite (group_keys_mem (fun _ => [])). cbn [In]. tauto.
  - intros ws ws' ol. reflexivity.
  - intros ts rs s l. apply own_lock_skipped.
Qed.

(* The scanner composed with the point get, over the world: the rows of every scan RPC are what the
   world serves at that moment (a blocking lock answers "locked", without a value), a locked pair is
   resolved by the point get of the same snapshot (resolveCurrentLock -> snapshot.get: status checks,
   classification, lock resolution, the shared ignored set — all of it changing the world for the later
   RPCs), region layouts change between the RPCs, RPCs are retried.  For every world with a sane
   transaction table, every layout sequence, every retry schedule with at most R retries: the scan ends
   within |P| + |T| + 2 + R scan RPCs (each point get within patience + 2 rounds) and returns exactly the
   specification on the final truth, in both directions. *)
Lemma C05_world_scan_proof :
  forall (w : world) (ts : N) (lo hi : key) (B gfuel : nat) (ko rv : bool)
         (retry : nat -> option retry_kind) (R : nat) (lay : nat -> layout) (P : list key),
    txs_ok (w_txns w) ts ->
    let T := final_truth w in
    tsorted T -> (forall i, incl (lay i) P) -> bounded_retry retry 0 R ->
    (patience (w_txns w) + 2 <= gfuel)%nat ->
    (rv = true -> forall e, In e T -> fst e <> []) ->
    exists out,
      wscan (length P + length T + 2 + R) gfuel B ko ts w retry lay lo hi rv = Done out /\
      map (canon ko) out = map (canon ko) (if rv then rev (expected ts lo hi T) else expected ts lo hi T).
Proof.
  intros w ts lo hi B gfuel ko rv retry R lay P Htx T HTs Hlay Hb Hg Hrv.
  set (Fin := fun k => final_ws (w_txns w) (k_get (w_keys w) k)).
  assert (HT : forall k, read_at ts k T = vis (Fin k) ts).
  { intros k. unfold read_at, T. rewrite writes_of_final. reflexivity. }
  assert (Hst : stinv ts Fin T gfuel (w, [])).
  { split; [split; [exact Htx|split; [intros t []|intros k; reflexivity]]|]. split; [|exact Hg].
    cbn [fst]. unfold T, final_truth. rewrite map_map. reflexivity. }
  unfold wscan. destruct rv.
  - destruct (wrev_loop ts Fin T HT ko (norm_batch B) gfuel P retry lay (norm_batch_pos B) HTs Hlay (Hrv eq_refl)
                (length P + length T + 2 + R)%nat 0%nat (w, []) (init_cursor lo hi true) R Hst eq_refl Hb) as (out & H1 & H2).
    + unfold mur'. cbn [init_cursor eof]. pose proof (mur_bound P (map fst T) (init_cursor lo hi true)) as H.
      rewrite map_length in H. lia.
    + exists out. split; [exact H1|]. cbn [init_cursor eof next_start next_end] in H2. rewrite H2. unfold Eexp. rewrite map_rev. reflexivity.
  - destruct (wfwd_loop ts Fin T HT ko (norm_batch B) gfuel P retry lay (norm_batch_pos B) HTs Hlay
                (length P + length T + 2 + R)%nat 0%nat (w, []) (init_cursor lo hi false) R Hst eq_refl Hb) as (out & H1 & H2).
    + unfold mu'. cbn [init_cursor eof]. pose proof (mu_bound P (map fst T) (init_cursor lo hi false)) as H.
      rewrite map_length in H. lia.
    + exists out. split; [exact H1|]. exact H2.
Qed.

(* resolveLocks' decision: Ignore only if rolled back, committed above the caller's ts, or min
   commit ts pushed; Access only if committed at or below ts; a finished transaction is never
   waited for; the store ignores locks with start > ts and pessimistic / lock-only locks. *)
Lemma C05_classify_sound_proof :
  forall (for_read : bool) (s : txn_status) (ts : N),
    (classify for_read s ts = Ignore ->
       is_rolled_back s = true \/ (is_committed s = true /\ ts < st_commit s) \/ is_pushed s = true) /\
    (classify for_read s ts = Access -> is_committed s = true /\ st_commit s <= ts) /\
    ((is_rolled_back s = true \/ (is_committed s = true /\ st_ttl s = 0)) -> classify for_read s ts <> Wait) /\
    (forall l rs, ts < l_start l -> blocks l ts rs = false) /\
    (forall l rs, l_kind l = LPess \/ l_kind l = LLock -> blocks l ts rs = false).
Proof.
  intros fr s ts. destruct (classify_sound fr s ts) as (H1 & H2 & H3).
  split; [exact H1|]. split; [exact H2|]. split; [exact H3|]. split.
  - intros l rs. apply later_lock_ignored.
  - intros l rs. apply pessimistic_never_blocks.
Qed.

(* any interleaving of Get / BatchGet / SetSnapshotTS — including calls that FAIL after part of their
   keys were read, and calls refused by the transaction safe point [sp] (CheckVisibility) — on a
   snapshot with the cache returns what the same program returns without a cache; a failed call leaves
   the snapshot (cache and version) exactly as it was; a read refused by the safe point caches nothing
   and stays refused on every re-read (Get, and BatchGet of a non-empty key list) whatever ran before on
   that snapshot object; nothing is cached while the version is the max timestamp *)
Lemma C05_cache_transparent_proof :
  forall (rd : N -> key -> option value) (sp : N) (ops : list cop) (ts : N),
    c_run rd sp (mkSnap ts None) ops = u_run rd sp ts ops /\
    (version (c_final rd sp (mkSnap ts None) ops) = maxts -> cached (c_final rd sp (mkSnap ts None) ops) = None) /\
    (forall s k, c_step rd sp s (CGetErr k) = (RErr, s)) /\
    (forall s ks got, c_step rd sp s (CBatchErr ks got) = (RErr, s)) /\
    (let s := c_final rd sp (mkSnap ts None) ops in
     version s < sp ->
     (forall k, c_step rd sp s (CGet k) = (RRefused, s)) /\
     (forall ks, ks <> [] -> c_step rd sp s (CBatchGet ks) = (RRefused, s))).
Proof.
  intros rd sp ops ts. destruct (cache_transparent rd sp ops (mkSnap ts None) (fresh_ok rd sp ts)) as [H1 Hok].
  split; [exact H1|]. split; [exact (proj2 Hok)|]. split; [reflexivity|]. split; [reflexivity|].
  intros s Hlt. apply refused_stays; [exact Hok|exact Hlt].
Qed.

(* One snapshot object that remembers which transactions it ignores (resolvedLocks), read by a
   program of Gets interleaved with SetSnapshotTS in BOTH directions and with lock-state changes (the
   owner of a transaction finishes it): every answer is read_at, at the version current at that
   moment, on the final truth.  SetSnapshotTS clears the cache and the ignored set on every call;
   environment assumption at a move (p_env): transactions still alive and pushable can only commit
   above the new timestamp.  Second half (so that the statement is not vacuous for small fuel): with
   fuel >= patience + 2 (patience = the waiting rounds the live transactions impose) EVERY Get of the
   program returns an answer. *)
Lemma C05_ts_moves_proof :
  forall (w : world) (ts : N) (fuel : nat) (ops : list pop),
    txs_ok (w_txns w) ts ->
    let Fin := fun k => final_ws (w_txns w) (k_get (w_keys w) k) in
    let st := (w, mkRS ts None []) in
    p_env fuel st ops ->
    p_right Fin fuel st ops /\
    ((patience (w_txns w) + 2 <= fuel)%nat -> p_answered fuel st ops).
Proof.
  intros w ts fuel ops Htx Fin st Henv.
  assert (Hinv : pinv Fin st).
  { split; [|split].
    - cbn. split; [exact Htx|]. split; [intros t []|intros k; reflexivity].
    - intros k v Hv. discriminate.
    - reflexivity. }
  split; [apply p_program_right; assumption|].
  intros Hf. apply (p_program_answers Fin); assumption.
Qed.


(* The same over a store that honours committed_locks (TiKV, unistore: a lock whose transaction the
   request names as committed is read THROUGH), with the asynchronous lock resolution of a read landing
   or not ([lands], arbitrary): the snapshot object carries the ignored set AND the committed set; both
   are statements about one timestamp and SetSnapshotTS drops both.  Every answer of every program of
   Get / SetSnapshotTS (forward and BACKWARD) / finish events is read_at at the current version.
   (Found here: the code kept the committed set across SetSnapshotTS; after a backward move below the
   commit ts the value of the not yet committed-at-that-ts transaction was read — ex_backward_move.)
   Second half: with fuel >= patience + 2 every Get returns an answer, whether the resolutions land or not. *)
Lemma C05_ts_moves_read_through_proof :
  forall (w : world) (ts : N) (fuel : nat) (lands : nat -> bool) (ops : list pop),
    txs_ok (w_txns w) ts -> lock_fresh w ->
    let Fin := fun k => final_ws (w_txns w) (k_get (w_keys w) k) in
    let st := (ts, mkRst w [] []) in
    q_envs fuel lands st ops ->
    q_right Fin fuel lands st ops /\
    ((patience (w_txns w) + 2 <= fuel)%nat -> q_answered fuel lands st ops).
Proof.
  intros w ts fuel lands ops Htx Hfr Fin st Henv.
  assert (Hinv : rinv Fin (fst st) (snd st)).
  { split; [split; [exact Htx|split; [intros t []|intros k; reflexivity]]|]. split; [intros t []|exact Hfr]. }
  split; [apply q_program_right; assumption|].
  intros Hf. apply (q_program_answers Fin); assumption.
Qed.

(* ---------------------------------------------------------------- the world of the examples in Props.v *)
(* a world with every kind of leftover lock; ts = 50 *)
Definition ex_world : world :=
  mkWorld
    [ ([97], mkKs [(10, Put [1])] (Some (mkLock 20 (LPut [2]))));      (* a: secondary of txn 20, committed at 30 *)
      ([98], mkKs [(10, Put [3])] (Some (mkLock 40 LDel)));            (* b: txn 40 rolled back *)
      ([99], mkKs [] (Some (mkLock 45 (LPut [4]))));                    (* c: txn 45 alive, finishes committed at 60 *)
      ([100], mkKs [(12, Put [5])] (Some (mkLock 47 LPess)));           (* d: pessimistic *)
      ([101], mkKs [(12, Put [6])] (Some (mkLock 70 (LPut [7]))));      (* e: later transaction *)
      ([102], mkKs [(12, Put [8])] (Some (mkLock 48 (LPut [9])))) ]     (* f: txn 48 pushable *)
    [ (20, TFinished (FCommitted 30)); (40, TFinished FRolledBack); (45, TAlive 2 (FCommitted 60));
      (47, TAlive 0 FRolledBack); (70, TAlive 5 (FCommitted 90)); (48, TPushed (FCommitted 80)) ].

