(* SnapRead/ProofsList.v — lists sorted by key: filters split at a threshold, prefixes of a
   sorted list are "everything up to the last key of the prefix". *)
From Coq Require Import Sorting.Sorted.
From Verif Require Import Base.Lex SnapRead.Model SnapRead.ProofsOrd.

Section Sorted.
  Context {A : Type}.
  Definition kfst_lt (a b : key * A) : Prop := klt (fst a) (fst b).
  Definition ksorted (l : list (key * A)) : Prop := StronglySorted kfst_lt l.

  Lemma ksorted_filter P (l : list (key * A)) : ksorted l -> ksorted (filter P l).
  Proof.
    induction 1 as [|x l Hs IH Hx]; cbn [filter]; [constructor|].
    destruct (P x); [|exact IH].
    constructor; [exact IH|].
    rewrite Forall_forall in *. intros y Hy. apply filter_In in Hy. apply Hx. tauto.
  Qed.

  Lemma ksorted_app_inv (a b : list (key * A)) :
    ksorted (a ++ b) -> ksorted a /\ ksorted b /\ (forall x y, In x a -> In y b -> kfst_lt x y).
  Proof.
    induction a as [|e a IH]; cbn [app]; intros H.
    - split; [constructor|split; [exact H|intros x y []]].
    - inversion H as [|? ? Hs Hf]; subst. destruct (IH Hs) as (Ha & Hb & Hab).
      rewrite Forall_forall in Hf.
      split; [constructor; [exact Ha|rewrite Forall_forall; intros y Hy; apply Hf; apply in_or_app; auto]|].
      split; [exact Hb|].
      intros x y [->|Hx] Hy; [apply Hf; apply in_or_app; auto|apply Hab; assumption].
  Qed.

  Lemma filter_filter (P Q : key * A -> bool) l :
    filter P (filter Q l) = filter (fun x => Q x && P x) l.
  Proof.
    induction l as [|x l IH]; cbn [filter]; [reflexivity|].
    destruct (Q x); cbn [andb filter]; [destruct (P x); rewrite IH; reflexivity|exact IH].
  Qed.

  Lemma filter_all (P : key * A -> bool) l : (forall x, In x l -> P x = true) -> filter P l = l.
  Proof.
    induction l as [|x l IH]; cbn [filter]; intros H; [reflexivity|].
    rewrite (H x (or_introl eq_refl)). f_equal. apply IH. intros y Hy; apply H; right; exact Hy.
  Qed.

  Lemma filter_none (P : key * A -> bool) l : (forall x, In x l -> P x = false) -> filter P l = [].
  Proof.
    induction l as [|x l IH]; cbn [filter]; intros H; [reflexivity|].
    rewrite (H x (or_introl eq_refl)). apply IH. intros y Hy; apply H; right; exact Hy.
  Qed.

  (* a filter of a sorted list splits at any threshold m: the part below m comes first *)
  Lemma filter_split (P : key * A -> bool) (m : key) l :
    ksorted l ->
    filter P l = filter (fun e => P e && kltb (fst e) m) l ++ filter (fun e => P e && negb (kltb (fst e) m)) l.
  Proof.
    induction 1 as [|x l Hs IH Hx]; cbn [filter]; [reflexivity|].
    destruct (P x) eqn:EP; cbn [andb]; [|exact IH].
    destruct (kltb (fst x) m) eqn:E; cbn [negb app].
    - f_equal. exact IH.
    - rewrite (filter_none (fun e => P e && kltb (fst e) m) l).
      + cbn [app]. f_equal. rewrite IH.
        rewrite (filter_none (fun e => P e && kltb (fst e) m) l); [reflexivity|].
        intros y Hy. rewrite Forall_forall in Hx. specialize (Hx y Hy). unfold kfst_lt in Hx.
        destruct (P y); cbn [andb]; [|reflexivity]. kord.
      + intros y Hy. rewrite Forall_forall in Hx. specialize (Hx y Hy). unfold kfst_lt in Hx.
        destruct (P y); cbn [andb]; [|reflexivity]. kord.
  Qed.

  (* in a sorted list p ++ [x] ++ q, q is exactly what lies above x and p what lies below *)
  Lemma sorted_above (p q : list (key * A)) x :
    ksorted (p ++ x :: q) -> filter (fun e => kltb (fst x) (fst e)) (p ++ x :: q) = q.
  Proof.
    intros H. destruct (ksorted_app_inv _ _ H) as (Hp & Hxq & Hpq).
    inversion Hxq as [|? ? Hq Hxq']; subst. rewrite Forall_forall in Hxq'.
    rewrite filter_app. cbn [filter]. rewrite kltb_irrefl.
    rewrite filter_none, filter_all; [reflexivity| |].
    - intros y Hy. specialize (Hxq' y Hy). unfold kfst_lt in Hxq'. kord.
    - intros y Hy. specialize (Hpq y x Hy (or_introl eq_refl)). unfold kfst_lt in Hpq. kord.
  Qed.

  Lemma sorted_below (p q : list (key * A)) x :
    ksorted (p ++ x :: q) -> filter (fun e => kltb (fst e) (fst x)) (p ++ x :: q) = p.
  Proof.
    intros H. destruct (ksorted_app_inv _ _ H) as (Hp & Hxq & Hpq).
    inversion Hxq as [|? ? Hq Hxq']; subst. rewrite Forall_forall in Hxq'.
    rewrite filter_app. cbn [filter]. rewrite kltb_irrefl.
    rewrite filter_all, filter_none; [apply app_nil_r| |].
    - intros y Hy. specialize (Hxq' y Hy). unfold kfst_lt in Hxq'. kord.
    - intros y Hy. specialize (Hpq y x Hy (or_introl eq_refl)). unfold kfst_lt in Hpq. kord.
  Qed.

  (* a full prefix of length n >= 1 ends with some x *)
  Lemma firstn_full_last n (l : list (key * A)) :
    (1 <= n)%nat -> length (firstn n l) = n -> exists p x, firstn n l = p ++ [x].
  Proof.
    intros Hn Hl. destruct (firstn n l) as [|a r] eqn:E using rev_ind.
    - cbn in Hl. lia.
    - eauto.
  Qed.
End Sorted.

Lemma last_key_snoc (p : rows) x : last_key (p ++ [x]) = fst x.
Proof. unfold last_key. rewrite rev_app_distr. cbn. destruct x; reflexivity. Qed.

Lemma filter_ext_in' {A} (f g : A -> bool) l : (forall x, In x l -> f x = g x) -> filter f l = filter g l.
Proof.
  induction l as [|x l IH]; cbn [filter]; intros H; [reflexivity|].
  rewrite (H x (or_introl eq_refl)). rewrite IH; [reflexivity|]. intros y Hy; apply H; right; exact Hy.
Qed.

Lemma count_le {A} (f g : A -> bool) l :
  (forall x, In x l -> f x = true -> g x = true) -> (length (filter f l) <= length (filter g l))%nat.
Proof.
  induction l as [|x l IH]; cbn [filter]; intros H; [lia|].
  assert (IH' := IH (fun y Hy => H y (or_intror Hy))).
  destruct (f x) eqn:E; [rewrite (H x (or_introl eq_refl) E); cbn [length]; lia|].
  destruct (g x); cbn [length]; lia.
Qed.

Lemma count_lt {A} (f g : A -> bool) l a :
  (forall x, In x l -> f x = true -> g x = true) -> In a l -> g a = true -> f a = false ->
  (length (filter f l) < length (filter g l))%nat.
Proof.
  induction l as [|x l IH]; cbn [filter]; intros H Ha Hg Hf; [destruct Ha|].
  assert (Hle := count_le f g l (fun y Hy => H y (or_intror Hy))).
  destruct Ha as [->|Ha].
  - rewrite Hf, Hg. cbn [length]. lia.
  - assert (IH' := IH (fun y Hy => H y (or_intror Hy)) Ha Hg Hf).
    destruct (f x) eqn:E; [rewrite (H x (or_introl eq_refl) E); cbn [length]; lia|].
    destruct (g x); cbn [length]; lia.
Qed.
