(* Codec/ProofsComposite.v — concatenated fields: prefix-free encodings compare field by field;
   mvccEncode / mvccDecode (key ascending, version descending) and the memcomparable key codec. *)
From Verif Require Import Base.Lex Codec.Model Codec.ProofsBytes Codec.ProofsNum.
Open Scope N_scope.

Definition not_proper_prefix (a b : list N) : Prop := forall r, b = a ++ r -> r = [].

(* the comparison of two concatenations is decided by the first fields unless they are equal *)
Lemma lex_cmp_app_fields a : forall b x y,
  not_proper_prefix a b -> not_proper_prefix b a ->
  lex_cmp (a ++ x) (b ++ y) = match lex_cmp a b with Eq => lex_cmp x y | c => c end.
Proof.
  induction a as [|c a IH]; intros b x y Hab Hba.
  - destruct b as [|d b]; [reflexivity|].
    specialize (Hab (d :: b) eq_refl). discriminate.
  - destruct b as [|d b].
    + specialize (Hba (c :: a) eq_refl). discriminate.
    + cbn [app lex_cmp]. destruct (N.compare c d) eqn:Hcd; try reflexivity.
      apply IH.
      * intros r Hr. apply (Hab r). apply N.compare_eq in Hcd. subst. reflexivity.
      * intros r Hr. apply (Hba r). apply N.compare_eq in Hcd. subst. reflexivity.
Qed.

Lemma encode_bytes_npp a b : not_proper_prefix (encode_bytes a) (encode_bytes b).
Proof. intros r Hr. apply encode_bytes_prefix_free in Hr. tauto. Qed.

(* any two-field key whose first field is a memcomparable byte string *)
Lemma bytes_then_field_order a b x y :
  lex_cmp (encode_bytes a ++ x) (encode_bytes b ++ y) = match lex_cmp a b with Eq => lex_cmp x y | c => c end.
Proof.
  rewrite lex_cmp_app_fields by apply encode_bytes_npp. now rewrite encode_bytes_order.
Qed.

Lemma mvcc_encode_order k1 v1 k2 v2 : v1 < two64 -> v2 < two64 ->
  lex_cmp (mvcc_encode k1 v1) (mvcc_encode k2 v2) =
  match lex_cmp k1 k2 with Eq => N.compare v2 v1 | c => c end.
Proof.
  intros H1 H2. unfold mvcc_encode. rewrite bytes_then_field_order.
  now rewrite encode_uint_desc_order.
Qed.

Lemma length_encode_uint_desc v : length (encode_uint_desc v) = 8%nat.
Proof. reflexivity. Qed.

Lemma decode_uint_desc_strict b rest v : wf_bytes b -> decode_uint_desc b = Some (rest, v) ->
  b = encode_uint_desc v ++ rest /\ v < two64.
Proof.
  unfold decode_uint_desc, encode_uint_desc. intros Hwf H. destruct (take8 b) as [[r h]|] eqn:E; [|discriminate].
  injection H as <- <-. apply take8_inv in E. destruct E as [-> Hl].
  apply Forall_app in Hwf. destruct Hwf as [Hh _].
  pose proof (of_be_bound h Hh) as Hb. rewrite Hl, pow256_8 in Hb.
  assert (Hc : compl64 (of_be h) < two64) by (apply compl64_lt; exact Hb).
  split; [|exact Hc].
  rewrite compl64_invol by exact Hb. rewrite <- Hl, be_of_be by exact Hh. reflexivity.
Qed.

Lemma mvcc_decode_encode k v : v < two64 -> mvcc_decode (mvcc_encode k v) = MOk k v.
Proof.
  intros Hv. unfold mvcc_decode, mvcc_encode. rewrite decode_encode_bytes.
  destruct (encode_uint_desc v) eqn:He; [discriminate (f_equal (@length N) He)|]. rewrite <- He.
  pose proof (decode_encode_uint_desc v [] Hv) as Hd. rewrite app_nil_r in Hd. now rewrite Hd.
Qed.

Lemma mvcc_decode_meta k : mvcc_decode (encode_bytes k) = MOk k 0.
Proof.
  unfold mvcc_decode. pose proof (decode_encode_bytes k []) as H. rewrite app_nil_r in H. now rewrite H.
Qed.

(* strictness: whatever mvccDecode accepts is a meta key or exactly an mvccEncode image *)
Lemma mvcc_decode_strict b k v : wf_bytes b -> mvcc_decode b = MOk k v ->
  (b = encode_bytes k /\ v = 0) \/ (b = mvcc_encode k v /\ v < two64).
Proof.
  intros Hwf. unfold mvcc_decode. destruct (decode_bytes b) as [[rest key]|] eqn:Hd; [|discriminate].
  apply decode_bytes_strict in Hd. destruct rest as [|c rest].
  - intros H; inversion H; subst. left. now rewrite app_nil_r.
  - destruct (decode_uint_desc (c :: rest)) as [[r2 ver]|] eqn:Hu; [|discriminate].
    destruct r2; [|discriminate]. intros H; inversion H; subst. right.
    assert (Hwr : wf_bytes (c :: rest)).
    { unfold wf_bytes in *. apply Forall_app in Hwf. tauto. }
    apply decode_uint_desc_strict in Hu; [|exact Hwr]. destruct Hu as [Hu Hlt].
    rewrite app_nil_r in Hu. unfold mvcc_encode. now rewrite Hu.
Qed.

(* versions of one key sort newest first and between the meta key and every greater key *)
Lemma mvcc_meta_first k v : v < two64 -> lex_cmp (encode_bytes k) (mvcc_encode k v) = Lt.
Proof.
  intros _. unfold mvcc_encode. rewrite <- (app_nil_r (encode_bytes k)) at 1.
  rewrite lex_cmp_app_same. reflexivity.
Qed.

Lemma mem_decode_encode_key k : mem_decode_key (mem_encode_key k) = Some k.
Proof.
  unfold mem_decode_key, mem_encode_key. pose proof (decode_encode_bytes k []) as H.
  rewrite app_nil_r in H. now rewrite H.
Qed.

(* memcomparable key codec: order-preserving, injective, and whatever it decodes is an encoded key followed by
   ignored bytes (decodeKey drops the leftover: it is a decoder of key PREFIXES, stated as such) *)
Lemma mem_encode_key_order a b : lex_cmp (mem_encode_key a) (mem_encode_key b) = lex_cmp a b.
Proof. unfold mem_encode_key. apply encode_bytes_order. Qed.
Lemma mem_encode_key_inj a b : mem_encode_key a = mem_encode_key b -> a = b.
Proof.
  intros H. pose proof (mem_decode_encode_key a) as Ha. rewrite H, mem_decode_encode_key in Ha. now inversion Ha.
Qed.
Lemma mem_decode_key_prefix b k : mem_decode_key b = Some k -> exists rest, b = mem_encode_key k ++ rest.
Proof.
  unfold mem_decode_key, mem_encode_key. destruct (decode_bytes b) as [[rest d]|] eqn:E; [|discriminate].
  intros H. inversion H; subst d. exists rest. apply decode_bytes_strict. exact E.
Qed.
Lemma mem_decode_key_ignores_suffix k rest : mem_decode_key (mem_encode_key k ++ rest) = Some k.
Proof. unfold mem_decode_key, mem_encode_key. now rewrite decode_encode_bytes. Qed.
