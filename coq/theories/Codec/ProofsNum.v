(* Codec/ProofsNum.v — lemmas about the integer codecs *)
From Verif Require Import Codec.Model.
From Coq Require Import ZifyNat ZifyN ZifyBool.
Open Scope N_scope.
Ltac Zify.zify_post_hook ::= Z.div_mod_to_equations.

Definition pow256 (n : nat) : N := 256 ^ N.of_nat n.

Lemma pow256_0 : pow256 0 = 1. Proof. reflexivity. Qed.
Lemma pow256_S n : pow256 (S n) = 256 * pow256 n.
Proof. unfold pow256. rewrite Nat2N.inj_succ, N.pow_succ_r'. reflexivity. Qed.
Lemma pow256_pos n : 0 < pow256 n.
Proof. induction n as [|n IH]; [rewrite pow256_0; lia|rewrite pow256_S; lia]. Qed.

Lemma be_length n v : length (be n v) = n.
Proof. revert v; induction n as [|n IH]; intros v; cbn [be]; [reflexivity|]. rewrite app_length, IH. cbn [length]. lia. Qed.

Lemma of_be_snoc l c : of_be (l ++ [c]) = of_be l * 256 + c.
Proof. unfold of_be. rewrite fold_left_app. reflexivity. Qed.

Lemma of_be_be n : forall v, v < pow256 n -> of_be (be n v) = v.
Proof.
  induction n as [|n IH]; intros v Hv.
  - rewrite pow256_0 in Hv. cbn. lia.
  - rewrite pow256_S in Hv. cbn [be]. rewrite of_be_snoc, IH by lia. lia.
Qed.

Lemma be_wf n : forall v, wf_bytes (be n v).
Proof.
  induction n as [|n IH]; intros v; cbn [be]; [constructor|].
  apply Forall_app; split; [apply IH|]. constructor; [|constructor]. unfold wf_byte. lia.
Qed.

Lemma of_be_bound l : wf_bytes l -> of_be l < pow256 (length l).
Proof.
  induction l as [|c l IH] using rev_ind; intros H.
  - cbn. lia.
  - apply Forall_app in H. destruct H as [Hl Hc]. inversion Hc as [|? ? Hc' _]; subst. unfold wf_byte in Hc'.
    rewrite of_be_snoc, app_length. cbn [length]. rewrite Nat.add_1_r, pow256_S.
    specialize (IH Hl). lia.
Qed.

Lemma be_of_be l : wf_bytes l -> be (length l) (of_be l) = l.
Proof.
  induction l as [|c l IH] using rev_ind; intros H; [reflexivity|].
  apply Forall_app in H. destruct H as [Hl Hc]. inversion Hc as [|? ? Hc' _]; subst. unfold wf_byte in Hc'.
  rewrite app_length. cbn [length]. rewrite Nat.add_1_r. cbn [be]. rewrite of_be_snoc.
  replace ((of_be l * 256 + c) / 256) with (of_be l) by lia.
  replace ((of_be l * 256 + c) mod 256) with c by lia.
  rewrite IH by exact Hl. reflexivity.
Qed.

Lemma be_order n : forall a b, a < pow256 n -> b < pow256 n -> lex_cmp (be n a) (be n b) = N.compare a b.
Proof.
  induction n as [|n IH]; intros a b Ha Hb.
  - rewrite pow256_0 in *. assert (a = 0) by lia. assert (b = 0) by lia. subst. reflexivity.
  - rewrite pow256_S in *. cbn [be].
    rewrite lex_cmp_app_eqlen by (rewrite !be_length; reflexivity).
    rewrite IH by lia. cbn [lex_cmp].
    destruct (N.compare_spec (a / 256) (b / 256)) as [E|E|E].
    + destruct (N.compare_spec (a mod 256) (b mod 256)) as [E2|E2|E2]; symmetry.
      * apply N.compare_eq_iff. lia.
      * apply N.compare_lt_iff. lia.
      * apply N.compare_gt_iff. lia.
    + symmetry. apply N.compare_lt_iff. lia.
    + symmetry. apply N.compare_gt_iff. lia.
Qed.

Lemma pow256_8 : pow256 8 = two64. Proof. reflexivity. Qed.

(* ---- fixed width ---- *)
Lemma take8_app h rest : length h = 8%nat -> take8 (h ++ rest) = Some (rest, h).
Proof.
  intros H. unfold take8.
  replace (Nat.ltb (length (h ++ rest)) 8) with false by (symmetry; apply Nat.ltb_ge; rewrite app_length; lia).
  rewrite skipn_app, firstn_app, H, Nat.sub_diag, firstn_O, app_nil_r.
  rewrite (skipn_all2 h), (firstn_all2 h) by lia. reflexivity.
Qed.

Lemma take8_inv b r h : take8 b = Some (r, h) -> b = h ++ r /\ length h = 8%nat.
Proof.
  unfold take8. destruct (Nat.ltb (length b) 8) eqn:E; [discriminate|]. apply Nat.ltb_ge in E.
  intros H. assert (Hr : r = skipn 8 b) by congruence. assert (Hh : h = firstn 8 b) by congruence.
  rewrite Hr, Hh. split; [symmetry; apply firstn_skipn|rewrite firstn_length; lia].
Qed.

Lemma compl64_lt u : u < two64 -> compl64 u < two64.
Proof. unfold compl64, two64. lia. Qed.
Lemma compl64_invol u : u < two64 -> compl64 (compl64 u) = u.
Proof. unfold compl64, two64. lia. Qed.

Definition int64_range (v : Z) : Prop := (- Z.of_N two63 <= v < Z.of_N two63)%Z.

Lemma int_to_cmp_lt v : int64_range v -> int_to_cmp v < two64.
Proof. unfold int64_range, int_to_cmp, two63, two64. lia. Qed.
Lemma cmp_to_int_to_cmp v : int64_range v -> cmp_to_int (int_to_cmp v) = v.
Proof. unfold int64_range, int_to_cmp, cmp_to_int, two63. lia. Qed.
Lemma int_to_cmp_cmp a b : int64_range a -> int64_range b ->
  N.compare (int_to_cmp a) (int_to_cmp b) = Z.compare a b.
Proof.
  unfold int64_range, int_to_cmp, two63. intros Ha Hb.
  destruct (Z.compare_spec a b) as [E|E|E].
  - apply N.compare_eq_iff. lia.
  - apply N.compare_lt_iff. lia.
  - apply N.compare_gt_iff. lia.
Qed.
Lemma compl64_cmp a b : a < two64 -> b < two64 -> N.compare (compl64 a) (compl64 b) = N.compare b a.
Proof.
  unfold compl64, two64. intros Ha Hb.
  destruct (N.compare_spec b a) as [E|E|E].
  - apply N.compare_eq_iff. lia.
  - apply N.compare_lt_iff. lia.
  - apply N.compare_gt_iff. lia.
Qed.

Lemma decode_encode_uint v rest : v < two64 -> decode_uint (encode_uint v ++ rest) = Some (rest, v).
Proof. intros H. unfold decode_uint, encode_uint. rewrite take8_app by apply be_length. rewrite of_be_be by exact H. reflexivity. Qed.
Lemma decode_encode_uint_desc v rest : v < two64 -> decode_uint_desc (encode_uint_desc v ++ rest) = Some (rest, v).
Proof.
  intros H. unfold decode_uint_desc, encode_uint_desc. rewrite take8_app by apply be_length.
  rewrite of_be_be by (apply compl64_lt; exact H). rewrite compl64_invol by exact H. reflexivity.
Qed.
Lemma decode_encode_int v rest : int64_range v -> decode_int (encode_int v ++ rest) = Some (rest, v).
Proof.
  intros H. unfold decode_int, encode_int. rewrite take8_app by apply be_length.
  rewrite of_be_be by (apply int_to_cmp_lt; exact H). rewrite cmp_to_int_to_cmp by exact H. reflexivity.
Qed.
Lemma decode_encode_int_desc v rest : int64_range v -> decode_int_desc (encode_int_desc v ++ rest) = Some (rest, v).
Proof.
  intros H. unfold decode_int_desc, encode_int_desc. rewrite take8_app by apply be_length.
  pose proof (int_to_cmp_lt v H) as Hl.
  rewrite of_be_be by (apply compl64_lt; exact Hl). rewrite compl64_invol by exact Hl.
  rewrite cmp_to_int_to_cmp by exact H. reflexivity.
Qed.

Lemma encode_uint_order a b : a < two64 -> b < two64 -> lex_cmp (encode_uint a) (encode_uint b) = N.compare a b.
Proof. intros; unfold encode_uint; apply be_order; assumption. Qed.
Lemma encode_uint_desc_order a b : a < two64 -> b < two64 -> lex_cmp (encode_uint_desc a) (encode_uint_desc b) = N.compare b a.
Proof. intros Ha Hb; unfold encode_uint_desc. rewrite be_order by (apply compl64_lt; assumption). apply compl64_cmp; assumption. Qed.
Lemma encode_int_order a b : int64_range a -> int64_range b -> lex_cmp (encode_int a) (encode_int b) = Z.compare a b.
Proof. intros Ha Hb; unfold encode_int. rewrite be_order by (apply int_to_cmp_lt; assumption). apply int_to_cmp_cmp; assumption. Qed.
Lemma encode_int_desc_order a b : int64_range a -> int64_range b -> lex_cmp (encode_int_desc a) (encode_int_desc b) = Z.compare b a.
Proof.
  intros Ha Hb; unfold encode_int_desc.
  rewrite be_order by (apply compl64_lt, int_to_cmp_lt; assumption).
  rewrite compl64_cmp by (apply int_to_cmp_lt; assumption). apply int_to_cmp_cmp; assumption.
Qed.

(* strictness: a successful fixed-width decode consumed exactly the canonical encoding *)
Lemma decode_uint_strict b rest v : wf_bytes b -> decode_uint b = Some (rest, v) -> b = encode_uint v ++ rest /\ v < two64.
Proof.
  unfold decode_uint, encode_uint. intros Hwf H. destruct (take8 b) as [[r h]|] eqn:E; [|discriminate].
  injection H as <- <-. apply take8_inv in E. destruct E as [-> Hl].
  apply Forall_app in Hwf. destruct Hwf as [Hh _].
  split; [rewrite <- Hl, be_of_be by exact Hh; reflexivity|].
  rewrite <- pow256_8, <- Hl. apply of_be_bound; exact Hh.
Qed.
Lemma decode_int_strict b rest v : wf_bytes b -> decode_int b = Some (rest, v) -> b = encode_int v ++ rest /\ int64_range v.
Proof.
  unfold decode_int, encode_int. intros Hwf H. destruct (take8 b) as [[r h]|] eqn:E; [|discriminate].
  injection H as <- <-. apply take8_inv in E. destruct E as [-> Hl].
  apply Forall_app in Hwf. destruct Hwf as [Hh _].
  pose proof (of_be_bound h Hh) as Hb. rewrite Hl, pow256_8 in Hb.
  assert (Hr : int64_range (cmp_to_int (of_be h))) by (unfold int64_range, cmp_to_int, two63, two64 in *; lia).
  split; [|exact Hr].
  replace (int_to_cmp (cmp_to_int (of_be h))) with (of_be h) by (unfold int_to_cmp, cmp_to_int, two63, two64 in *; lia).
  rewrite <- Hl, be_of_be by exact Hh. reflexivity.
Qed.

(* fixed width 8: no encoding is a proper prefix of another *)
Lemma be8_prefix_free a b rest : a < two64 -> b < two64 -> be 8 b = be 8 a ++ rest -> a = b /\ rest = [].
Proof.
  intros Ha Hb H. assert (Hr : rest = []).
  { apply (f_equal (@length N)) in H. rewrite app_length, !be_length in H. destruct rest; [reflexivity|cbn [length] in H; lia]. }
  subst rest. rewrite app_nil_r in H. split; [|reflexivity].
  rewrite <- (of_be_be 8 a), <- (of_be_be 8 b) by (rewrite pow256_8; assumption). rewrite H. reflexivity.
Qed.

(* ---- LEB128 ---- *)
Definition pow128 (n : nat) : N := 128 ^ N.of_nat n.
Lemma pow128_S n : pow128 (S n) = 128 * pow128 n.
Proof. unfold pow128. rewrite Nat2N.inj_succ, N.pow_succ_r'. reflexivity. Qed.
Lemma pow128_pos n : 0 < pow128 n.
Proof. induction n as [|n IH]; [cbn; lia|rewrite pow128_S; lia]. Qed.

Lemma uvarint_put : forall f i x acc mul rest fd,
  (i + f = 10)%nat -> (f <= fd)%nat -> x * pow128 i < two64 -> (f = 0%nat -> False) ->
  uvarint_loop fd (put_uvarint f x ++ rest) i acc mul = VOk rest (acc + x * mul).
Proof.
  induction f as [|f IH]; intros i x acc mul rest fd Hi Hf Hx Hnz; [exfalso; apply Hnz; reflexivity|].
  destruct fd as [|fd]; [lia|].
  cbn [put_uvarint]. destruct (x <? 128) eqn:E.
  - cbn [app uvarint_loop]. replace (Nat.eqb i 10) with false by (symmetry; apply Nat.eqb_neq; lia).
    rewrite E.
    assert (Hov : Nat.eqb i 9 && (1 <? x) = false).
    { destruct (Nat.eqb i 9) eqn:E9; [|reflexivity]. apply Nat.eqb_eq in E9. subst i.
      assert (pow128 9 = 9223372036854775808) by reflexivity. unfold two64 in Hx. cbn [andb]. lia. }
    rewrite Hov. reflexivity.
  - cbn [app uvarint_loop]. replace (Nat.eqb i 10) with false by (symmetry; apply Nat.eqb_neq; lia).
    replace (x mod 128 + 128 <? 128) with false by lia.
    assert (Hf0 : f <> 0%nat).
    { intros ->. assert (i = 9%nat) by lia. subst i.
      assert (pow128 9 = 9223372036854775808) by reflexivity. unfold two64 in Hx. lia. }
    rewrite IH; try lia.
    + f_equal. replace (x mod 128 + 128 - 128) with (x mod 128) by lia.
      remember (x / 128) as q eqn:Eq. remember (x mod 128) as r eqn:Er.
      assert (Hx' : x = 128 * q + r) by (subst q r; lia). rewrite Hx'. ring.
    + rewrite pow128_S. pose proof (pow128_pos i). nia.
Qed.

Lemma decode_encode_uvarint v rest : v < two64 -> decode_uvarint (encode_uvarint v ++ rest) = VOk rest v.
Proof.
  intros H. unfold decode_uvarint, encode_uvarint.
  rewrite uvarint_put; [f_equal; lia|reflexivity|lia| |discriminate].
  change (pow128 0) with 1. lia.
Qed.

Lemma zigzag_lt v : int64_range v -> zigzag v < two64.
Proof. unfold int64_range, zigzag, two63, two64. destruct (v <? 0)%Z eqn:E; lia. Qed.

Lemma unzigzag_zigzag v : unzigzag (zigzag v) = v.
Proof.
  unfold zigzag, unzigzag. destruct (v <? 0)%Z eqn:E.
  - replace (Z.to_N (-2 * v - 1)) with (1 + 2 * Z.to_N (- v - 1)) by lia.
    rewrite N.even_add_mul_2. cbn [N.even]. lia.
  - replace (Z.to_N (2 * v)) with (0 + 2 * Z.to_N v) by lia.
    rewrite N.even_add_mul_2. cbn [N.even]. lia.
Qed.

Lemma decode_encode_varint v rest : int64_range v -> decode_varint (encode_varint v ++ rest) = VOk rest v.
Proof.
  intros H. unfold decode_varint, encode_varint.
  rewrite decode_encode_uvarint by (apply zigzag_lt; exact H). rewrite unzigzag_zigzag. reflexivity.
Qed.

(* --- EncodeIntToCmpUint / DecodeCmpUintToInt as exported functions: a bijection int64 <-> uint64 that is monotone --- *)
Lemma cmp_to_int_range u : u < two64 -> int64_range (cmp_to_int u).
Proof. unfold int64_range, cmp_to_int, two63, two64. lia. Qed.
Lemma int_to_cmp_to_int u : u < two64 -> int_to_cmp (cmp_to_int u) = u.
Proof. unfold int_to_cmp, cmp_to_int, two63, two64. lia. Qed.
Lemma cmpuint_roundtrip v : int64_range v -> int_to_cmp v < two64 /\ cmp_to_int (int_to_cmp v) = v.
Proof. intros H. split; [apply int_to_cmp_lt | apply cmp_to_int_to_cmp]; exact H. Qed.
Lemma cmpuint_inverse u : u < two64 -> int64_range (cmp_to_int u) /\ int_to_cmp (cmp_to_int u) = u.
Proof. intros H. split; [apply cmp_to_int_range | apply int_to_cmp_to_int]; exact H. Qed.
Lemma cmp_to_int_cmp a b : a < two64 -> b < two64 ->
  Z.compare (cmp_to_int a) (cmp_to_int b) = N.compare a b.
Proof.
  intros Ha Hb.
  rewrite <- (int_to_cmp_to_int a Ha) at 2. rewrite <- (int_to_cmp_to_int b Hb) at 2.
  symmetry. apply int_to_cmp_cmp; apply cmp_to_int_range; assumption.
Qed.
(* the fixed-width int encodings are the fixed-width uint encodings of the flipped value: the two call sites agree *)
Lemma encode_int_is_uint v : encode_int v = encode_uint (int_to_cmp v) /\ encode_int_desc v = encode_uint_desc (int_to_cmp v).
Proof. split; reflexivity. Qed.

(* --- the bit-level form the code uses: uint64(v) ^ signMask and int64(u ^ signMask) --- *)
Lemma land_small_pow2 a n : a < 2 ^ n -> N.land a (2 ^ n) = 0.
Proof.
  intros H. apply N.bits_inj. intro m. rewrite N.land_spec, N.pow2_bits_eqb, N.bits_0.
  destruct (N.eqb_spec n m) as [E|E]; [subst m|apply Bool.andb_false_r].
  rewrite Bool.andb_true_r. destruct (N.eq_dec a 0) as [Z|NZ]; [subst a; apply N.bits_0|].
  apply N.bits_above_log2. apply N.log2_lt_pow2; [lia|exact H].
Qed.
Lemma xor_flip_low a : a < two63 -> N.lxor a two63 = a + two63.
Proof.
  intros H. symmetry. apply N.add_nocarry_lxor. change two63 with (2 ^ 63). apply land_small_pow2. exact H.
Qed.
Lemma xor_flip_high a : a < two63 -> N.lxor (a + two63) two63 = a.
Proof.
  intros H. rewrite <- (xor_flip_low a H). rewrite N.lxor_assoc, N.lxor_nilpotent, N.lxor_0_r. reflexivity.
Qed.
Lemma int_to_cmp_is_xor v : int64_range v -> int_to_cmp v = int_to_cmp_xor v.
Proof.
  intros H. unfold int64_range in H. unfold int_to_cmp_xor, u64_of_int, int_to_cmp.
  destruct (Z_lt_le_dec v 0) as [Hn|Hp].
  - replace (v mod Z.of_N two64)%Z with (v + Z.of_N two64)%Z
      by (apply Z.mod_unique with (q := (-1)%Z); unfold two63, two64 in *; lia).
    replace (Z.to_N (v + Z.of_N two64)) with (Z.to_N (v + Z.of_N two63) + two63) by (unfold two63, two64 in *; lia).
    symmetry. apply xor_flip_high. unfold two63 in *. lia.
  - rewrite Z.mod_small by (unfold two63, two64 in *; lia).
    rewrite xor_flip_low by (unfold two63 in *; lia). unfold two63 in *. lia.
Qed.
Lemma cmp_to_int_is_xor u : u < two64 -> cmp_to_int u = cmp_to_int_xor u.
Proof.
  intros H. unfold cmp_to_int_xor, int_of_u64, cmp_to_int.
  destruct (N.lt_ge_cases u two63) as [L|G].
  - rewrite xor_flip_low by exact L.
    destruct (Z.ltb_spec (Z.of_N (u + two63)) (Z.of_N two63)); unfold two63, two64 in *; lia.
  - assert (E : N.lxor u two63 = u - two63).
    { replace u with ((u - two63) + two63) at 1 by (unfold two63 in *; lia).
      apply xor_flip_high. unfold two63, two64 in *. lia. }
    rewrite E. destruct (Z.ltb_spec (Z.of_N (u - two63)) (Z.of_N two63)); unfold two63, two64 in *; lia.
Qed.
Lemma int_of_u64_of_int v : int64_range v -> u64_of_int v < two64 /\ int_of_u64 (u64_of_int v) = v.
Proof.
  intros H. unfold int64_range in H. unfold int_of_u64, u64_of_int.
  destruct (Z_lt_le_dec v 0) as [Hn|Hp].
  - replace (v mod Z.of_N two64)%Z with (v + Z.of_N two64)%Z
      by (apply Z.mod_unique with (q := (-1)%Z); unfold two63, two64 in *; lia).
    split; [unfold two63, two64 in *; lia|].
    destruct (Z.ltb_spec (Z.of_N (Z.to_N (v + Z.of_N two64))) (Z.of_N two63)); unfold two63, two64 in *; lia.
  - rewrite Z.mod_small by (unfold two63, two64 in *; lia).
    split; [unfold two63, two64 in *; lia|].
    destruct (Z.ltb_spec (Z.of_N (Z.to_N v)) (Z.of_N two63)); unfold two63, two64 in *; lia.
Qed.
