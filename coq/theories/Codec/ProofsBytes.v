(* Codec/ProofsBytes.v — lemmas about encode_bytes / decode_bytes *)
From Verif Require Import Codec.Model.
From Coq Require Import ZifyNat ZifyN ZifyBool.
Open Scope N_scope.

Lemma pad_length n : length (pad n) = n.
Proof. apply repeat_length. Qed.

Lemma pad_zero n : forallb (N.eqb 0) (pad n) = true.
Proof. induction n as [|n IH]; cbn; [reflexivity|exact IH]. Qed.

(* ---- shape of one 9-byte group ---- *)
Lemma group_firstn (g : list N) m rest : length g = 8%nat -> firstn 8 (g ++ m :: rest) = g.
Proof. intros H. rewrite firstn_app, H, Nat.sub_diag, firstn_O, app_nil_r. apply firstn_all2; lia. Qed.

Lemma group_nth (g : list N) m rest : length g = 8%nat -> nth 8 (g ++ m :: rest) 0 = m.
Proof. intros H. rewrite app_nth2 by lia. rewrite H, Nat.sub_diag. reflexivity. Qed.

Lemma group_skipn (g : list N) m rest : length g = 8%nat -> skipn 9 (g ++ m :: rest) = rest.
Proof.
  intros H. rewrite skipn_app. rewrite H. rewrite (skipn_all2 g) by lia. reflexivity.
Qed.

Lemma skipn_plus {A} (l : list A) a b : skipn a (skipn b l) = skipn (b + a) l.
Proof.
  revert l; induction b as [|b IH]; intros l; cbn [skipn Nat.add]; [reflexivity|].
  destruct l as [|x l]; [destruct a; reflexivity|]. apply IH.
Qed.

Lemma split9 (b : list N) : (9 <= length b)%nat ->
  b = firstn 8 b ++ nth 8 b 0 :: skipn 9 b /\ length (firstn 8 b) = 8%nat.
Proof.
  intros H. split; [|rewrite firstn_length; lia].
  rewrite <- (firstn_skipn 8 b) at 1. f_equal.
  remember (skipn 8 b) as t eqn:Ht.
  assert (Hl : (1 <= length t)%nat) by (subst; rewrite skipn_length; lia).
  destruct t as [|x t]; [cbn in Hl; lia|].
  f_equal.
  - rewrite <- (firstn_skipn 8 b) at 1. rewrite app_nth2 by (rewrite firstn_length; lia).
    rewrite firstn_length, Nat.min_l by lia. rewrite Nat.sub_diag, <- Ht. reflexivity.
  - change 9%nat with (8 + 1)%nat. rewrite <- skipn_plus. rewrite <- Ht. reflexivity.
Qed.

Lemma dec_step f (g : list N) m rest acc : length g = 8%nat ->
  dec_fuel (S f) (g ++ m :: rest) acc =
    if (m <? 247) || (255 <? m) then None else
    let padc := N.to_nat (255 - m) in
    let real := (8 - padc)%nat in
    let acc' := acc ++ firstn real g in
    if Nat.eqb padc 0 then dec_fuel f rest acc'
    else if forallb (N.eqb 0) (skipn real g) then Some (rest, acc') else None.
Proof.
  intros H. cbn [dec_fuel].
  assert (Hl: Nat.ltb (length (g ++ m :: rest)) 9 = false).
  { rewrite app_length; cbn [length]. apply Nat.ltb_ge. lia. }
  rewrite Hl, group_firstn, group_nth, group_skipn by exact H. reflexivity.
Qed.

Lemma dec_short f b acc : (length b < 9)%nat -> dec_fuel f b acc = None.
Proof.
  intros H. destruct f; [reflexivity|]. cbn [dec_fuel].
  replace (Nat.ltb (length b) 9) with true; [reflexivity|]. symmetry; apply Nat.ltb_lt; exact H.
Qed.

Lemma enc_dec_fuel : forall fe d fd acc rest,
  (length d < 8 * fe)%nat -> (fe <= fd)%nat ->
  dec_fuel fd (enc_fuel fe d ++ rest) acc = Some (rest, acc ++ d).
Proof.
  induction fe as [|fe IH]; intros d fd acc rest Hd Hf; [lia|].
  destruct fd as [|fd]; [lia|].
  cbn [enc_fuel]. destruct (Nat.leb 8 (length d)) eqn:E.
  - apply Nat.leb_le in E.
    rewrite <- !app_assoc. cbn [app].
    rewrite dec_step by (rewrite firstn_length; lia).
    change (255 <? 247) with false. change (255 <? 255) with false. cbn [orb].
    change (N.to_nat (255 - 255)) with 0%nat. cbn [Nat.eqb Nat.sub]. cbv zeta.
    rewrite IH.
    + rewrite (firstn_all2 (firstn 8 d)) by (rewrite firstn_length; lia).
      rewrite <- app_assoc, firstn_skipn. reflexivity.
    + rewrite skipn_length. lia.
    + lia.
  - apply Nat.leb_gt in E.
    set (k := (8 - length d)%nat).
    replace ((d ++ pad k ++ [255 - N.of_nat k]) ++ rest)
      with ((d ++ pad k) ++ (255 - N.of_nat k) :: rest) by (rewrite <- !app_assoc; reflexivity).
    rewrite dec_step by (rewrite app_length, pad_length; lia).
    assert (H1 : ((255 - N.of_nat k <? 247) || (255 <? 255 - N.of_nat k)) = false) by lia.
    assert (H2 : N.to_nat (255 - (255 - N.of_nat k)) = k) by lia.
    rewrite H1, H2. cbv zeta.
    assert (H3 : Nat.eqb k 0 = false) by (apply Nat.eqb_neq; lia).
    assert (H4 : (8 - k)%nat = length d) by lia.
    rewrite H3, H4.
    rewrite firstn_app, Nat.sub_diag, firstn_O, app_nil_r, firstn_all.
    rewrite skipn_app, Nat.sub_diag, skipn_all. cbn [skipn app].
    rewrite pad_zero. reflexivity.
Qed.

Lemma enc_fuel_length_ge : forall f d, (length d < 8 * f)%nat -> (length d <= length (enc_fuel f d))%nat.
Proof.
  induction f as [|f IH]; intros d H; [lia|]. cbn [enc_fuel].
  destruct (Nat.leb 8 (length d)) eqn:E.
  - apply Nat.leb_le in E. rewrite !app_length, firstn_length. cbn [length].
    specialize (IH (skipn 8 d)). rewrite skipn_length in IH. lia.
  - rewrite !app_length. lia.
Qed.

Lemma decode_encode_bytes d rest : decode_bytes (encode_bytes d ++ rest) = Some (rest, d).
Proof.
  unfold decode_bytes, encode_bytes.
  rewrite enc_dec_fuel; [reflexivity|lia|].
  rewrite app_length. pose proof (enc_fuel_length_ge (S (length d)) d). lia.
Qed.

Lemma enc_fuel_indep : forall f f' d, (length d < 8 * f)%nat -> (length d < 8 * f')%nat ->
  enc_fuel f d = enc_fuel f' d.
Proof.
  induction f as [|f IH]; intros [|f'] d H H'; try lia. cbn [enc_fuel].
  destruct (Nat.leb 8 (length d)) eqn:E; [|reflexivity]. apply Nat.leb_le in E.
  do 2 f_equal. apply IH; rewrite skipn_length; lia.
Qed.

Lemma zeros_pad (l : list N) : forallb (N.eqb 0) l = true -> l = pad (length l).
Proof.
  induction l as [|x l IH]; cbn [forallb length pad repeat]; [reflexivity|].
  intros H. apply andb_true_iff in H. destruct H as [Hx Hl]. apply N.eqb_eq in Hx. subst x.
  f_equal. apply IH; exact Hl.
Qed.

Lemma dec_strict : forall f b acc rest out, dec_fuel f b acc = Some (rest, out) ->
  exists d, out = acc ++ d /\ b = enc_fuel (S (length d)) d ++ rest.
Proof.
  induction f as [|f IH]; intros b acc rest out H; [discriminate|].
  destruct (Nat.ltb (length b) 9) eqn:E.
  { apply Nat.ltb_lt in E. rewrite dec_short in H by exact E. discriminate. }
  apply Nat.ltb_ge in E. destruct (split9 b E) as [Hb Hg].
  remember (firstn 8 b) as g eqn:Eg. remember (nth 8 b 0) as m eqn:Em. remember (skipn 9 b) as r eqn:Er.
  rewrite Hb in H. rewrite dec_step in H by exact Hg.
  destruct ((m <? 247) || (255 <? m)) eqn:Emm; [discriminate|].
  cbv zeta in H. destruct (Nat.eqb (N.to_nat (255 - m)) 0) eqn:Ep.
  - apply Nat.eqb_eq in Ep. assert (Hm : m = 255) by lia.
    apply IH in H. destruct H as [d' [Hout Hr]]. exists (g ++ d'). split.
    + rewrite Hout. replace (8 - N.to_nat (255 - m))%nat with 8%nat by lia.
      rewrite firstn_all2 by lia. rewrite app_assoc; reflexivity.
    + rewrite Hb. cbn [enc_fuel].
      assert (Hle : Nat.leb 8 (length (g ++ d')) = true) by (apply Nat.leb_le; rewrite app_length; lia).
      rewrite Hle. rewrite firstn_app, Hg, Nat.sub_diag, firstn_O, app_nil_r, (firstn_all2 g) by lia.
      rewrite skipn_app, Hg, Nat.sub_diag, (skipn_all2 g) by lia. cbn [skipn app].
      rewrite <- app_assoc. cbn [app]. rewrite Hm. do 2 f_equal. rewrite Hr. f_equal.
      apply enc_fuel_indep; rewrite ?app_length; lia.
  - destruct (forallb (N.eqb 0) (skipn (8 - N.to_nat (255 - m)) g)) eqn:Ez; [|discriminate].
    apply Nat.eqb_neq in Ep. injection H as <- <-.
    set (k := N.to_nat (255 - m)) in *. assert (Hk : (1 <= k <= 8)%nat) by lia.
    exists (firstn (8 - k) g). split; [reflexivity|].
    rewrite Hb. cbn [enc_fuel].
    assert (Hlen : length (firstn (8 - k) g) = (8 - k)%nat) by (rewrite firstn_length; lia).
    assert (Hle : Nat.leb 8 (length (firstn (8 - k) g)) = false) by (apply Nat.leb_gt; lia).
    rewrite Hle, Hlen. replace (8 - (8 - k))%nat with k by lia.
    replace (255 - N.of_nat k) with m by lia.
    rewrite <- !app_assoc. cbn [app]. rewrite app_assoc. f_equal.
    rewrite <- (firstn_skipn (8 - k) g) at 1. f_equal.
    apply zeros_pad in Ez. rewrite Ez. rewrite skipn_length. f_equal. lia.
Qed.

Lemma decode_bytes_strict b rest d : decode_bytes b = Some (rest, d) -> b = encode_bytes d ++ rest.
Proof.
  unfold decode_bytes, encode_bytes. intros H. apply dec_strict in H.
  destruct H as [d' [-> ->]]. reflexivity.
Qed.

Lemma encode_bytes_prefix_free a b rest : encode_bytes b = encode_bytes a ++ rest -> a = b /\ rest = [].
Proof.
  intros H. pose proof (decode_encode_bytes b []) as Hb. rewrite app_nil_r in Hb.
  rewrite H in Hb. rewrite decode_encode_bytes in Hb. injection Hb as -> ->. split; reflexivity.
Qed.

(* ---- order preservation ---- *)
Lemma pad_lt : forall n (c : list N) m1 m2 X Y, length c = n -> m1 < m2 ->
  lex_cmp (pad n ++ m1 :: X) (c ++ m2 :: Y) = Lt.
Proof.
  induction n as [|n IH]; intros [|c0 c] m1 m2 X Y Hl Hm; cbn [length] in Hl; try lia.
  - cbn [pad repeat app lex_cmp]. rewrite (proj2 (N.compare_lt_iff m1 m2) Hm). reflexivity.
  - cbn [pad repeat app lex_cmp]. destruct c0 as [|p]; cbn [N.compare]; [|reflexivity].
    apply IH; [lia|exact Hm].
Qed.

Definition tailg (a : list N) (k : nat) : list N := a ++ pad k ++ [255 - N.of_nat k].

Lemma tail_cmp : forall a b ka kb, (length a + ka = length b + kb)%nat -> (ka <= 255)%nat -> (kb <= 255)%nat ->
  lex_cmp (tailg a ka) (tailg b kb) = lex_cmp a b.
Proof.
  induction a as [|x a IH]; intros [|y b] ka kb Hl Ha Hb; cbn [length] in Hl.
  - assert (ka = kb) by lia. subst. cbn [lex_cmp]. apply lex_cmp_refl.
  - unfold tailg. cbn [lex_cmp app].
    change (y :: b ++ pad kb ++ [255 - N.of_nat kb]) with ((y :: b) ++ pad kb ++ [255 - N.of_nat kb]).
    rewrite app_assoc. apply pad_lt; [rewrite app_length, pad_length; cbn [length]; lia|lia].
  - rewrite lex_cmp_antisym. unfold tailg. cbn [app].
    change (x :: a ++ pad ka ++ [255 - N.of_nat ka]) with ((x :: a) ++ pad ka ++ [255 - N.of_nat ka]).
    rewrite app_assoc. rewrite pad_lt; [reflexivity|rewrite app_length, pad_length; cbn [length]; lia|lia].
  - unfold tailg. cbn [app lex_cmp]. destruct (N.compare x y); try reflexivity.
    apply (IH b ka kb); lia.
Qed.

Lemma short_long : forall a b g X, (length a < g)%nat -> (g <= length b)%nat -> (g <= 255)%nat ->
  lex_cmp (a ++ pad (g - length a) ++ [255 - N.of_nat (g - length a)]) (firstn g b ++ 255 :: X) = lex_cmp a b.
Proof.
  induction a as [|x a IH]; intros b g X Ha Hb Hg.
  - cbn [length app] in *. rewrite Nat.sub_0_r.
    destruct b as [|y b]; [cbn [length] in Hb; lia|]. cbn [lex_cmp].
    apply pad_lt; [rewrite firstn_length; lia|lia].
  - destruct b as [|y b]; [cbn [length] in Hb; lia|]. destruct g as [|g]; [lia|].
    cbn [length] in *. cbn [firstn app lex_cmp Nat.sub]. destruct (N.compare x y); try reflexivity.
    apply IH; lia.
Qed.

Lemma enc_fuel_order : forall f a b, (length a < 8 * f)%nat -> (length b < 8 * f)%nat ->
  lex_cmp (enc_fuel f a) (enc_fuel f b) = lex_cmp a b.
Proof.
  induction f as [|f IH]; intros a b Ha Hb; [lia|]. cbn [enc_fuel].
  destruct (Nat.leb 8 (length a)) eqn:Ea; destruct (Nat.leb 8 (length b)) eqn:Eb.
  - apply Nat.leb_le in Ea, Eb.
    transitivity (lex_cmp (firstn 8 a ++ skipn 8 a) (firstn 8 b ++ skipn 8 b)); [|rewrite !firstn_skipn; reflexivity].
    rewrite (lex_cmp_app_eqlen (firstn 8 a) (skipn 8 a) (firstn 8 b) (skipn 8 b)) by (rewrite !firstn_length; lia).
    rewrite (lex_cmp_app_eqlen (firstn 8 a) _ (firstn 8 b) _) by (rewrite !firstn_length; lia).
    destruct (lex_cmp (firstn 8 a) (firstn 8 b)); try reflexivity.
    cbn [app lex_cmp]. change (N.compare 255 255) with Eq. cbv iota.
    apply IH; rewrite skipn_length; lia.
  - apply Nat.leb_le in Ea. apply Nat.leb_gt in Eb.
    rewrite (lex_cmp_antisym (b ++ _) (firstn 8 a ++ _)). rewrite (lex_cmp_antisym b a). f_equal.
    cbn [app]. apply short_long; lia.
  - apply Nat.leb_gt in Ea. apply Nat.leb_le in Eb.
    cbn [app]. apply short_long; lia.
  - apply Nat.leb_gt in Ea, Eb. apply (tail_cmp a b); lia.
Qed.

Lemma encode_bytes_order a b : lex_cmp (encode_bytes a) (encode_bytes b) = lex_cmp a b.
Proof.
  unfold encode_bytes.
  rewrite (enc_fuel_indep (S (length a)) (S (length a + length b)) a) by lia.
  rewrite (enc_fuel_indep (S (length b)) (S (length a + length b)) b) by lia.
  apply enc_fuel_order; lia.
Qed.
