(* Codec/Model.v — executable model of util/codec (bytes.go, number.go).
   Only definitions here; proofs are in Proofs.v, property theorems in Props.v. *)
From Verif Require Export Base.Lex.
Open Scope N_scope.

(* ---------- memcomparable byte strings: EncodeBytes / DecodeBytes ---------- *)

Definition pad (n : nat) : list N := repeat 0 n.

(* one loop iteration of EncodeBytes per unit of fuel; idx advances by 8 *)
Fixpoint enc_fuel (fuel : nat) (d : list N) : list N :=
  match fuel with
  | O => []
  | S f =>
      if Nat.leb 8 (length d)
      then firstn 8 d ++ [255] ++ enc_fuel f (skipn 8 d)
      else d ++ pad (8 - length d) ++ [255 - N.of_nat (8 - length d)]
  end.

Definition encode_bytes (d : list N) : list N := enc_fuel (S (length d)) d.

(* decodeBytes(b, nil, reverse=false): returns (leftover, value) *)
Fixpoint dec_fuel (fuel : nat) (b acc : list N) : option (list N * list N) :=
  match fuel with
  | O => None
  | S f =>
      if Nat.ltb (length b) 9 then None else
      let group := firstn 8 b in
      let marker := nth 8 b 0 in
      let rest := skipn 9 b in
      if (marker <? 247) || (255 <? marker) then None else
      let padc := N.to_nat (255 - marker) in
      let real := (8 - padc)%nat in
      let acc' := acc ++ firstn real group in
      if Nat.eqb padc 0 then dec_fuel f rest acc'
      else if forallb (N.eqb 0) (skipn real group) then Some (rest, acc') else None
  end.

Definition decode_bytes (b : list N) : option (list N * list N) :=
  dec_fuel (S (length b)) b [].

(* ---------- fixed-width integers ---------- *)

Definition two64 : N := 18446744073709551616.
Definition two63 : N := 9223372036854775808.

(* big-endian n bytes of v *)
Fixpoint be (n : nat) (v : N) : list N :=
  match n with
  | O => []
  | S n' => be n' (v / 256) ++ [v mod 256]
  end.

Definition of_be (l : list N) : N := fold_left (fun a c => a * 256 + c) l 0.

(* uint64(v) ^ signMask, v an int64 given as Z in [-2^63, 2^63) *)
Definition int_to_cmp (v : Z) : N := Z.to_N (v + Z.of_N two63).
Definition cmp_to_int (u : N) : Z := (Z.of_N u - Z.of_N two63)%Z.
Definition compl64 (u : N) : N := two64 - 1 - u.
(* Go's conversion uint64(v) of an int64: the two's-complement reinterpretation; the code computes the flip as
   uint64(v) ^ signMask and int64(u ^ signMask) — Props relate these bit-level forms to int_to_cmp / cmp_to_int *)
Definition u64_of_int (v : Z) : N := Z.to_N (v mod Z.of_N two64).
Definition int_of_u64 (u : N) : Z := (if Z.of_N u <? Z.of_N two63 then Z.of_N u else Z.of_N u - Z.of_N two64)%Z.
Definition int_to_cmp_xor (v : Z) : N := N.lxor (u64_of_int v) two63.
Definition cmp_to_int_xor (u : N) : Z := int_of_u64 (N.lxor u two63).

Definition encode_uint (v : N) : list N := be 8 v.
Definition encode_uint_desc (v : N) : list N := be 8 (compl64 v).
Definition encode_int (v : Z) : list N := be 8 (int_to_cmp v).
Definition encode_int_desc (v : Z) : list N := be 8 (compl64 (int_to_cmp v)).

Definition take8 (b : list N) : option (list N * list N) :=
  if Nat.ltb (length b) 8 then None else Some (skipn 8 b, firstn 8 b).

Definition decode_uint (b : list N) : option (list N * N) :=
  match take8 b with None => None | Some (r, h) => Some (r, of_be h) end.
Definition decode_uint_desc (b : list N) : option (list N * N) :=
  match take8 b with None => None | Some (r, h) => Some (r, compl64 (of_be h)) end.
Definition decode_int (b : list N) : option (list N * Z) :=
  match take8 b with None => None | Some (r, h) => Some (r, cmp_to_int (of_be h)) end.
Definition decode_int_desc (b : list N) : option (list N * Z) :=
  match take8 b with None => None | Some (r, h) => Some (r, cmp_to_int (compl64 (of_be h))) end.

(* ---------- LEB128 varints (encoding/binary, modelled) ---------- *)

Fixpoint put_uvarint (fuel : nat) (x : N) : list N :=
  match fuel with
  | O => []
  | S f => if x <? 128 then [x] else (x mod 128 + 128) :: put_uvarint f (x / 128)
  end.
Definition encode_uvarint (v : N) : list N := put_uvarint 10 v.

Inductive vres (A : Type) := VOk (rest : list N) (v : A) | VInsufficient | VOverflow | VInvalid.
Arguments VOk {A}. Arguments VInsufficient {A}. Arguments VOverflow {A}. Arguments VInvalid {A}.

(* binary.Uvarint: i = index, x accumulated, s = 7*i expressed as multiplier 128^i *)
Fixpoint uvarint_loop (fuel : nat) (b : list N) (i : nat) (x mul : N) : vres N :=
  match fuel with
  | O => VOverflow
  | S f =>
      match b with
      | [] => VInsufficient
      | c :: b' =>
          if Nat.eqb i 10 then VOverflow else
          if c <? 128 then
            if Nat.eqb i 9 && (1 <? c) then VOverflow
            else VOk b' (x + c * mul)
          else uvarint_loop f b' (S i) (x + (c - 128) * mul) (mul * 128)
      end
  end.
Definition decode_uvarint (b : list N) : vres N := uvarint_loop 11 b 0 0 1.

(* zig-zag: ux = uint64(x) << 1; if x < 0 { ux = ^ux } *)
Definition zigzag (x : Z) : N := if (x <? 0)%Z then Z.to_N (-2 * x - 1) else Z.to_N (2 * x).
Definition unzigzag (u : N) : Z := if N.even u then Z.of_N (u / 2) else (- Z.of_N (u / 2) - 1)%Z.
Definition encode_varint (v : Z) : list N := encode_uvarint (zigzag v).
Definition decode_varint (b : list N) : vres Z :=
  match decode_uvarint b with
  | VOk r u => VOk r (unzigzag u)
  | VInsufficient => VInsufficient | VOverflow => VOverflow | VInvalid => VInvalid
  end.

(* ---------- comparable varints ---------- *)

(* number of value bytes used for a magnitude *)
Definition ulen (v : N) : nat :=
  if v <=? 255 then 1 else if v <=? 65535 then 2 else if v <=? 16777215 then 3
  else if v <=? 4294967295 then 4 else if v <=? 1099511627775 then 5
  else if v <=? 281474976710655 then 6 else if v <=? 72057594037927935 then 7 else 8%nat.

Definition encode_cmp_uvarint (v : N) : list N :=
  if v <=? 239 then [v + 8] else (247 + N.of_nat (ulen v)) :: be (ulen v) v.

(* negative v: tag 8 - len, then the low len bytes of the two's complement *)
Definition encode_cmp_varint (v : Z) : list N :=
  if (v <? 0)%Z then
    let m := Z.to_N (- v) in            (* magnitude, 1 .. 2^63 *)
    let n := ulen m in
    (8 - N.of_nat n) :: be n (Z.to_N (v + Z.of_N two64) mod (256 ^ N.of_nat n))
  else encode_cmp_uvarint (Z.to_N v).

Definition decode_cmp_uvarint (b : list N) : vres N :=
  match b with
  | [] => VInsufficient
  | first :: r =>
      if first <? 8 then VInvalid
      else if first <=? 247 then VOk r (first - 8)
      else let len := N.to_nat (first - 247) in
           if Nat.ltb (length r) len then VInsufficient
           else VOk (skipn len r) (of_be (firstn len r))
  end.

(* [fixed] selects the repaired leftover (b[1:]) for single-byte values;
   [fixed=false] is the behaviour of the tree before the fix: commit (leftover = whole input). *)
Definition decode_cmp_varint_gen (fixed : bool) (b : list N) : vres Z :=
  match b with
  | [] => VInsufficient
  | first :: r =>
      if (8 <=? first) && (first <=? 247) then VOk (if fixed then r else b) (Z.of_N first - 8)%Z
      else
        let neg := first <? 8 in
        let len := if neg then N.to_nat (8 - first) else N.to_nat (first - 247) in
        if Nat.ltb (length r) len then VInsufficient else
        let low := of_be (firstn len r) in
        (* v starts as all ones for negatives: (2^64-1) << 8len | low, mod 2^64 *)
        let v := if neg then (two64 - 256 ^ N.of_nat len + low) mod two64 else low in
        if negb neg && (two63 <=? v) then VInvalid
        else if neg && (v <? two63) then VInvalid
        else VOk (skipn len r) (if two63 <=? v then (Z.of_N v - Z.of_N two64)%Z else Z.of_N v)
  end.
Definition decode_cmp_varint := decode_cmp_varint_gen true.

(* ---------- composite keys built from the codecs ---------- *)

(* internal/mockstore/mocktikv/mvcc_leveldb.go: mvccEncode / mvccDecode.
   mvccEncode(key, ver) = EncodeBytes(key) ++ EncodeUintDesc(ver); a bare EncodeBytes(key) is the "meta key". *)
Definition mvcc_encode (key : list N) (ver : N) : list N := encode_bytes key ++ encode_uint_desc ver.

Inductive mres := MErr | MOk (key : list N) (ver : N).
Definition mvcc_decode (b : list N) : mres :=
  match decode_bytes b with
  | None => MErr
  | Some ([], key) => MOk key 0
  | Some (rest, key) =>
      match decode_uint_desc rest with
      | None => MErr
      | Some ([], ver) => MOk key ver
      | Some (_ :: _, _) => MErr
      end
  end.

(* internal/apicodec/mem_codec.go: memComparableCodec.encodeKey / decodeKey (the leftover is dropped) *)
Definition mem_encode_key (key : list N) : list N := encode_bytes key.
Definition mem_decode_key (b : list N) : option (list N) :=
  match decode_bytes b with None => None | Some (_, key) => Some key end.
