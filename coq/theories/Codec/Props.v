(* Codec/Props.v — property C19: the theorems, nothing else.
   Each is closed by [exact <lemma>] and followed by Print Assumptions. *)
From Verif Require Import Codec.Model Codec.ProofsBytes Codec.ProofsNum Codec.ProofsCmp Codec.ProofsCmpOrder Codec.ProofsComposite.
Open Scope N_scope.

(* --- byte strings --- *)
Theorem C19_bytes_roundtrip : forall d rest, decode_bytes (encode_bytes d ++ rest) = Some (rest, d).
Proof. exact decode_encode_bytes. Qed.
Print Assumptions C19_bytes_roundtrip.

Theorem C19_bytes_order : forall a b, lex_cmp (encode_bytes a) (encode_bytes b) = lex_cmp a b.
Proof. exact encode_bytes_order. Qed.
Print Assumptions C19_bytes_order.

Theorem C19_bytes_prefix_free : forall a b rest, encode_bytes b = encode_bytes a ++ rest -> a = b /\ rest = [].
Proof. exact encode_bytes_prefix_free. Qed.
Print Assumptions C19_bytes_prefix_free.

(* malformed input is rejected: whatever decodes is a canonical encoding followed by the leftover *)
Theorem C19_bytes_strict : forall b rest d, decode_bytes b = Some (rest, d) -> b = encode_bytes d ++ rest.
Proof. exact decode_bytes_strict. Qed.
Print Assumptions C19_bytes_strict.

(* --- fixed-width integers, ascending and descending --- *)
Theorem C19_uint_roundtrip : forall v rest, v < two64 -> decode_uint (encode_uint v ++ rest) = Some (rest, v).
Proof. exact decode_encode_uint. Qed.
Print Assumptions C19_uint_roundtrip.
Theorem C19_uint_desc_roundtrip : forall v rest, v < two64 -> decode_uint_desc (encode_uint_desc v ++ rest) = Some (rest, v).
Proof. exact decode_encode_uint_desc. Qed.
Print Assumptions C19_uint_desc_roundtrip.
Theorem C19_int_roundtrip : forall v rest, int64_range v -> decode_int (encode_int v ++ rest) = Some (rest, v).
Proof. exact decode_encode_int. Qed.
Print Assumptions C19_int_roundtrip.
Theorem C19_int_desc_roundtrip : forall v rest, int64_range v -> decode_int_desc (encode_int_desc v ++ rest) = Some (rest, v).
Proof. exact decode_encode_int_desc. Qed.
Print Assumptions C19_int_desc_roundtrip.

Theorem C19_uint_order : forall a b, a < two64 -> b < two64 -> lex_cmp (encode_uint a) (encode_uint b) = N.compare a b.
Proof. exact encode_uint_order. Qed.
Print Assumptions C19_uint_order.
Theorem C19_uint_desc_order : forall a b, a < two64 -> b < two64 -> lex_cmp (encode_uint_desc a) (encode_uint_desc b) = N.compare b a.
Proof. exact encode_uint_desc_order. Qed.
Print Assumptions C19_uint_desc_order.
Theorem C19_int_order : forall a b, int64_range a -> int64_range b -> lex_cmp (encode_int a) (encode_int b) = Z.compare a b.
Proof. exact encode_int_order. Qed.
Print Assumptions C19_int_order.
Theorem C19_int_desc_order : forall a b, int64_range a -> int64_range b -> lex_cmp (encode_int_desc a) (encode_int_desc b) = Z.compare b a.
Proof. exact encode_int_desc_order. Qed.
Print Assumptions C19_int_desc_order.

Theorem C19_uint_strict : forall b rest v, wf_bytes b -> decode_uint b = Some (rest, v) -> b = encode_uint v ++ rest /\ v < two64.
Proof. exact decode_uint_strict. Qed.
Print Assumptions C19_uint_strict.
Theorem C19_int_strict : forall b rest v, wf_bytes b -> decode_int b = Some (rest, v) -> b = encode_int v ++ rest /\ int64_range v.
Proof. exact decode_int_strict. Qed.
Print Assumptions C19_int_strict.
Theorem C19_fixed_prefix_free : forall a b rest, a < two64 -> b < two64 -> be 8 b = be 8 a ++ rest -> a = b /\ rest = [].
Proof. exact be8_prefix_free. Qed.
Print Assumptions C19_fixed_prefix_free.

(* --- variable length --- *)
Theorem C19_uvarint_roundtrip : forall v rest, v < two64 -> decode_uvarint (encode_uvarint v ++ rest) = VOk rest v.
Proof. exact decode_encode_uvarint. Qed.
Print Assumptions C19_uvarint_roundtrip.
Theorem C19_varint_roundtrip : forall v rest, int64_range v -> decode_varint (encode_varint v ++ rest) = VOk rest v.
Proof. exact decode_encode_varint. Qed.
Print Assumptions C19_varint_roundtrip.
Theorem C19_cmp_uvarint_roundtrip : forall v rest, v < two64 -> decode_cmp_uvarint (encode_cmp_uvarint v ++ rest) = VOk rest v.
Proof. exact decode_encode_cmp_uvarint. Qed.
Print Assumptions C19_cmp_uvarint_roundtrip.
Theorem C19_cmp_varint_roundtrip : forall v rest, int64_range v -> decode_cmp_varint (encode_cmp_varint v ++ rest) = VOk rest v.
Proof. exact decode_encode_cmp_varint. Qed.
Print Assumptions C19_cmp_varint_roundtrip.

Theorem C19_cmp_uvarint_order : forall a b, a < two64 -> b < two64 -> lex_cmp (encode_cmp_uvarint a) (encode_cmp_uvarint b) = N.compare a b.
Proof. exact encode_cmp_uvarint_order. Qed.
Print Assumptions C19_cmp_uvarint_order.
Theorem C19_cmp_varint_order : forall a b, int64_range a -> int64_range b -> lex_cmp (encode_cmp_varint a) (encode_cmp_varint b) = Z.compare a b.
Proof. exact encode_cmp_varint_order. Qed.
Print Assumptions C19_cmp_varint_order.
Theorem C19_cmp_uvarint_prefix_free : forall a b rest, a < two64 -> b < two64 -> encode_cmp_uvarint b = encode_cmp_uvarint a ++ rest -> a = b /\ rest = [].
Proof. exact encode_cmp_uvarint_prefix_free. Qed.
Print Assumptions C19_cmp_uvarint_prefix_free.
Theorem C19_cmp_varint_prefix_free : forall a b rest, int64_range a -> int64_range b -> encode_cmp_varint b = encode_cmp_varint a ++ rest -> a = b /\ rest = [].
Proof. exact encode_cmp_varint_prefix_free. Qed.
Print Assumptions C19_cmp_varint_prefix_free.
Theorem C19_uvarint_prefix_free : forall a b rest, a < two64 -> b < two64 -> encode_uvarint b = encode_uvarint a ++ rest -> a = b /\ rest = [].
Proof. exact encode_uvarint_prefix_free. Qed.
Print Assumptions C19_uvarint_prefix_free.
Theorem C19_varint_prefix_free : forall a b rest, int64_range a -> int64_range b -> encode_varint b = encode_varint a ++ rest -> a = b /\ rest = [].
Proof. exact encode_varint_prefix_free. Qed.
Print Assumptions C19_varint_prefix_free.

(* the behaviour before the repair (leftover = whole input) is refuted: regression witness *)
Theorem C19_cmp_varint_unfixed_refuted :
  exists v rest, int64_range v /\ decode_cmp_varint_gen false (encode_cmp_varint v ++ rest) <> VOk rest v.
Proof. exact decode_cmp_varint_unfixed_refuted. Qed.
Print Assumptions C19_cmp_varint_unfixed_refuted.

(* --- the exported sign-flip pair EncodeIntToCmpUint / DecodeCmpUintToInt: an order isomorphism int64 <-> uint64 --- *)
Theorem C19_cmpuint_roundtrip : forall v, int64_range v -> int_to_cmp v < two64 /\ cmp_to_int (int_to_cmp v) = v.
Proof. exact cmpuint_roundtrip. Qed.
Print Assumptions C19_cmpuint_roundtrip.
Theorem C19_cmpuint_inverse : forall u, u < two64 -> int64_range (cmp_to_int u) /\ int_to_cmp (cmp_to_int u) = u.
Proof. exact cmpuint_inverse. Qed.
Print Assumptions C19_cmpuint_inverse.
Theorem C19_cmpuint_order : forall a b, int64_range a -> int64_range b -> N.compare (int_to_cmp a) (int_to_cmp b) = Z.compare a b.
Proof. exact int_to_cmp_cmp. Qed.
Print Assumptions C19_cmpuint_order.
Theorem C19_cmpuint_decode_order : forall a b, a < two64 -> b < two64 -> Z.compare (cmp_to_int a) (cmp_to_int b) = N.compare a b.
Proof. exact cmp_to_int_cmp. Qed.
Print Assumptions C19_cmpuint_decode_order.
Theorem C19_int_is_uint_of_cmpuint : forall v, encode_int v = encode_uint (int_to_cmp v) /\ encode_int_desc v = encode_uint_desc (int_to_cmp v).
Proof. exact encode_int_is_uint. Qed.
Print Assumptions C19_int_is_uint_of_cmpuint.

(* the code computes the flip with xor on the two's-complement reinterpretation; the arithmetic model equals that form *)
Theorem C19_cmpuint_is_xor : forall v, int64_range v -> int_to_cmp v = int_to_cmp_xor v.
Proof. exact int_to_cmp_is_xor. Qed.
Print Assumptions C19_cmpuint_is_xor.
Theorem C19_cmpuint_decode_is_xor : forall u, u < two64 -> cmp_to_int u = cmp_to_int_xor u.
Proof. exact cmp_to_int_is_xor. Qed.
Print Assumptions C19_cmpuint_decode_is_xor.
Theorem C19_int_uint_conversion : forall v, int64_range v -> u64_of_int v < two64 /\ int_of_u64 (u64_of_int v) = v.
Proof. exact int_of_u64_of_int. Qed.
Print Assumptions C19_int_uint_conversion.

(* non-vacuity: hypotheses are met by concrete non-trivial values *)
Example C19_nonvacuous :
  int64_range (-9223372036854775808)%Z /\ 18446744073709551615 < two64 /\
  decode_bytes (encode_bytes [1;2;3;4;5;6;7;8;0;255] ++ [9]) = Some ([9], [1;2;3;4;5;6;7;8;0;255]) /\
  lex_cmp (encode_bytes [1;2;3]) (encode_bytes [1;2;3;0]) = Lt.
Proof. repeat split; try (unfold two63, two64; lia); vm_compute; reflexivity. Qed.

(* composite keys: concatenated fields compare field by field; MVCC keys; memcomparable key codec *)
Theorem C19_concat_fields_order : forall a b x y,
  (forall r, b = a ++ r -> r = []) -> (forall r, a = b ++ r -> r = []) ->
  lex_cmp (a ++ x) (b ++ y) = match lex_cmp a b with Eq => lex_cmp x y | c => c end.
Proof. exact lex_cmp_app_fields. Qed.
Print Assumptions C19_concat_fields_order.
Theorem C19_bytes_then_field_order : forall a b x y,
  lex_cmp (encode_bytes a ++ x) (encode_bytes b ++ y) = match lex_cmp a b with Eq => lex_cmp x y | c => c end.
Proof. exact bytes_then_field_order. Qed.
Print Assumptions C19_bytes_then_field_order.
Theorem C19_mvcc_roundtrip : forall k v, v < two64 -> mvcc_decode (mvcc_encode k v) = MOk k v.
Proof. exact mvcc_decode_encode. Qed.
Print Assumptions C19_mvcc_roundtrip.
Theorem C19_mvcc_meta_roundtrip : forall k, mvcc_decode (encode_bytes k) = MOk k 0.
Proof. exact mvcc_decode_meta. Qed.
Print Assumptions C19_mvcc_meta_roundtrip.
Theorem C19_mvcc_order : forall k1 v1 k2 v2, v1 < two64 -> v2 < two64 ->
  lex_cmp (mvcc_encode k1 v1) (mvcc_encode k2 v2) = match lex_cmp k1 k2 with Eq => N.compare v2 v1 | c => c end.
Proof. exact mvcc_encode_order. Qed.
Print Assumptions C19_mvcc_order.
Theorem C19_mvcc_strict : forall b k v, wf_bytes b -> mvcc_decode b = MOk k v ->
  (b = encode_bytes k /\ v = 0) \/ (b = mvcc_encode k v /\ v < two64).
Proof. exact mvcc_decode_strict. Qed.
Print Assumptions C19_mvcc_strict.
Theorem C19_mem_key_roundtrip : forall k, mem_decode_key (mem_encode_key k) = Some k.
Proof. exact mem_decode_encode_key. Qed.
Print Assumptions C19_mem_key_roundtrip.
Theorem C19_mem_key_order : forall a b, lex_cmp (mem_encode_key a) (mem_encode_key b) = lex_cmp a b.
Proof. exact mem_encode_key_order. Qed.
Print Assumptions C19_mem_key_order.
Theorem C19_mem_key_injective : forall a b, mem_encode_key a = mem_encode_key b -> a = b.
Proof. exact mem_encode_key_inj. Qed.
Print Assumptions C19_mem_key_injective.
(* decodeKey drops the bytes after the first encoded string: accepted inputs are exactly encoded keys followed by anything *)
Theorem C19_mem_key_decode_prefix : forall b k, mem_decode_key b = Some k -> exists rest, b = mem_encode_key k ++ rest.
Proof. exact mem_decode_key_prefix. Qed.
Print Assumptions C19_mem_key_decode_prefix.
Theorem C19_mem_key_ignores_suffix : forall k rest, mem_decode_key (mem_encode_key k ++ rest) = Some k.
Proof. exact mem_decode_key_ignores_suffix. Qed.
Print Assumptions C19_mem_key_ignores_suffix.
