(* Codec/ProofsCmpOrder.v — comparable varints preserve order and are prefix free *)
From Verif Require Import Codec.Model Codec.ProofsNum Codec.ProofsCmp.
From Coq Require Import ZifyNat ZifyN ZifyBool.
Open Scope N_scope.
Ltac Zify.zify_post_hook ::= Z.div_mod_to_equations.

Lemma ulen_mono a b : a <= b -> (ulen a <= ulen b)%nat.
Proof.
  intros H. unfold ulen.
  destruct (a <=? 255) eqn:A1; [destruct (b <=? 255), (b <=? 65535), (b <=? 16777215), (b <=? 4294967295), (b <=? 1099511627775), (b <=? 281474976710655), (b <=? 72057594037927935); lia|].
  destruct (b <=? 255) eqn:B1; [lia|].
  destruct (a <=? 65535) eqn:A2; [destruct (b <=? 65535), (b <=? 16777215), (b <=? 4294967295), (b <=? 1099511627775), (b <=? 281474976710655), (b <=? 72057594037927935); lia|].
  destruct (b <=? 65535) eqn:B2; [lia|].
  destruct (a <=? 16777215) eqn:A3; [destruct (b <=? 16777215), (b <=? 4294967295), (b <=? 1099511627775), (b <=? 281474976710655), (b <=? 72057594037927935); lia|].
  destruct (b <=? 16777215) eqn:B3; [lia|].
  destruct (a <=? 4294967295) eqn:A4; [destruct (b <=? 4294967295), (b <=? 1099511627775), (b <=? 281474976710655), (b <=? 72057594037927935); lia|].
  destruct (b <=? 4294967295) eqn:B4; [lia|].
  destruct (a <=? 1099511627775) eqn:A5; [destruct (b <=? 1099511627775), (b <=? 281474976710655), (b <=? 72057594037927935); lia|].
  destruct (b <=? 1099511627775) eqn:B5; [lia|].
  destruct (a <=? 281474976710655) eqn:A6; [destruct (b <=? 281474976710655), (b <=? 72057594037927935); lia|].
  destruct (b <=? 281474976710655) eqn:B6; [lia|].
  destruct (a <=? 72057594037927935) eqn:A7; [destruct (b <=? 72057594037927935); lia|].
  destruct (b <=? 72057594037927935) eqn:B7; lia.
Qed.

Lemma cmp_lt a b : a < b -> N.compare a b = Lt.  Proof. intros; apply N.compare_lt_iff; assumption. Qed.
Lemma cmp_gt a b : b < a -> N.compare a b = Gt.  Proof. intros; apply N.compare_gt_iff; assumption. Qed.

(* strictly increasing encodings *)
Lemma cmp_uvarint_lt a b : a < b -> b < two64 -> lex_cmp (encode_cmp_uvarint a) (encode_cmp_uvarint b) = Lt.
Proof.
  intros Hab Hb. assert (Ha : a < two64) by lia.
  unfold encode_cmp_uvarint.
  destruct (a <=? 239) eqn:Ea; destruct (b <=? 239) eqn:Eb.
  - cbn [lex_cmp]. rewrite cmp_lt by lia. reflexivity.
  - destruct (ulen_spec b Hb) as [Hn _]. cbn [lex_cmp]. rewrite cmp_lt by lia. reflexivity.
  - lia.
  - destruct (ulen_spec a Ha) as [Hna Hva]. destruct (ulen_spec b Hb) as [Hnb Hvb].
    pose proof (ulen_mono a b ltac:(lia)) as Hm. cbn [lex_cmp].
    destruct (Nat.eq_dec (ulen a) (ulen b)) as [E|E].
    + rewrite E in *. rewrite N.compare_refl. rewrite be_order by assumption. apply cmp_lt; exact Hab.
    + rewrite cmp_lt by lia. reflexivity.
Qed.

Lemma lex_cmp_of_lt {A} (enc : A -> list N) (lt : A -> A -> Prop) :
  (forall a b, lt a b -> lex_cmp (enc a) (enc b) = Lt) ->
  forall a b, lt b a -> lex_cmp (enc a) (enc b) = Gt.
Proof. intros H a b Hba. rewrite lex_cmp_antisym, (H b a Hba). reflexivity. Qed.

Lemma encode_cmp_uvarint_order a b : a < two64 -> b < two64 ->
  lex_cmp (encode_cmp_uvarint a) (encode_cmp_uvarint b) = N.compare a b.
Proof.
  intros Ha Hb. destruct (N.compare_spec a b) as [E|E|E].
  - subst. apply lex_cmp_refl.
  - apply cmp_uvarint_lt; assumption.
  - rewrite lex_cmp_antisym, cmp_uvarint_lt by assumption. reflexivity.
Qed.

(* low bytes of a negative value: (2^64 - m) mod 256^n = 256^n - m when 1 <= m < 256^n *)
Lemma neg_low m n : (1 <= n <= 8)%nat -> 1 <= m -> m < pow256 n -> (two64 - m) mod pow256 n = pow256 n - m.
Proof.
  intros Hn Hm Hv. destruct (two64_mult n Hn) as [q [Hq Hq0]]. set (P := pow256 n) in *.
  rewrite Hq. replace (q * P - m) with ((P - m) + (q - 1) * P) by nia.
  rewrite N.mod_add by lia. apply N.mod_small. lia.
Qed.

Lemma neg_enc v : int64_range v -> (v < 0)%Z ->
  let m := Z.to_N (- v) in let n := ulen m in
  encode_cmp_varint v = (8 - N.of_nat n) :: be n (pow256 n - m) /\ (1 <= n <= 8)%nat /\ 1 <= m /\ m < pow256 n.
Proof.
  intros H Hneg m n. unfold int64_range in H.
  assert (Hm : 1 <= m <= two63) by (unfold m, two63 in *; lia).
  assert (Hm64 : m < two64) by (unfold two63, two64 in *; lia).
  destruct (ulen_spec m Hm64) as [Hn Hv]. fold n in Hn, Hv.
  unfold encode_cmp_varint. replace (v <? 0)%Z with true by lia. fold m. fold n.
  replace (Z.to_N (v + Z.of_N two64)) with (two64 - m) by (unfold m, two63, two64 in *; lia).
  fold (pow256 n). rewrite neg_low by lia. repeat split; lia.
Qed.

Lemma cmp_varint_lt a b : int64_range a -> int64_range b -> (a < b)%Z ->
  lex_cmp (encode_cmp_varint a) (encode_cmp_varint b) = Lt.
Proof.
  intros Ha Hb Hab.
  destruct (Z.ltb_spec a 0) as [Na|Na]; destruct (Z.ltb_spec b 0) as [Nb|Nb].
  - destruct (neg_enc a Ha Na) as (Ea & Hna & Hma & Hva). destruct (neg_enc b Hb Nb) as (Eb & Hnb & Hmb & Hvb).
    rewrite Ea, Eb. clear Ea Eb.
    set (ma := Z.to_N (- a)) in *. set (mb := Z.to_N (- b)) in *.
    assert (Hmm : mb < ma) by (unfold ma, mb; lia).
    pose proof (ulen_mono mb ma ltac:(lia)) as Hmono. cbn [lex_cmp].
    destruct (Nat.eq_dec (ulen ma) (ulen mb)) as [E|E].
    + rewrite E in *. rewrite N.compare_refl. rewrite be_order by lia. apply cmp_lt. lia.
    + rewrite cmp_lt by lia. reflexivity.
  - destruct (neg_enc a Ha Na) as (Ea & Hna & _). rewrite Ea.
    unfold encode_cmp_varint. replace (b <? 0)%Z with false by lia.
    unfold encode_cmp_uvarint. destruct (Z.to_N b <=? 239); cbn [lex_cmp]; rewrite cmp_lt by lia; reflexivity.
  - lia.
  - unfold encode_cmp_varint. replace (a <? 0)%Z with false by lia. replace (b <? 0)%Z with false by lia.
    unfold int64_range, two63 in *. apply cmp_uvarint_lt; unfold two64; lia.
Qed.

Lemma encode_cmp_varint_order a b : int64_range a -> int64_range b ->
  lex_cmp (encode_cmp_varint a) (encode_cmp_varint b) = Z.compare a b.
Proof.
  intros Ha Hb. destruct (Z.compare_spec a b) as [E|E|E].
  - subst. apply lex_cmp_refl.
  - apply cmp_varint_lt; assumption.
  - rewrite lex_cmp_antisym, cmp_varint_lt by assumption. reflexivity.
Qed.

(* prefix freeness follows from the round trip: decoding enc b = enc a ++ rest yields both (rest, a) and ([], b) *)
Lemma encode_cmp_uvarint_prefix_free a b rest : a < two64 -> b < two64 ->
  encode_cmp_uvarint b = encode_cmp_uvarint a ++ rest -> a = b /\ rest = [].
Proof.
  intros Ha Hb H. pose proof (decode_encode_cmp_uvarint b [] Hb) as Db. rewrite app_nil_r, H in Db.
  rewrite decode_encode_cmp_uvarint in Db by exact Ha. injection Db as -> ->. split; reflexivity.
Qed.
Lemma encode_cmp_varint_prefix_free a b rest : int64_range a -> int64_range b ->
  encode_cmp_varint b = encode_cmp_varint a ++ rest -> a = b /\ rest = [].
Proof.
  intros Ha Hb H. pose proof (decode_encode_cmp_varint b [] Hb) as Db. rewrite app_nil_r, H in Db.
  rewrite decode_encode_cmp_varint in Db by exact Ha. injection Db as -> ->. split; reflexivity.
Qed.
Lemma encode_uvarint_prefix_free a b rest : a < two64 -> b < two64 ->
  encode_uvarint b = encode_uvarint a ++ rest -> a = b /\ rest = [].
Proof.
  intros Ha Hb H. pose proof (decode_encode_uvarint b [] Hb) as Db. rewrite app_nil_r, H in Db.
  rewrite decode_encode_uvarint in Db by exact Ha. injection Db as -> ->. split; reflexivity.
Qed.
Lemma encode_varint_prefix_free a b rest : int64_range a -> int64_range b ->
  encode_varint b = encode_varint a ++ rest -> a = b /\ rest = [].
Proof.
  intros Ha Hb H. pose proof (decode_encode_varint b [] Hb) as Db. rewrite app_nil_r, H in Db.
  rewrite decode_encode_varint in Db by exact Ha. injection Db as -> ->. split; reflexivity.
Qed.
