(* Codec/ProofsCmp.v — comparable varints: round trip *)
From Verif Require Import Codec.Model Codec.ProofsNum.
From Coq Require Import ZifyNat ZifyN ZifyBool.
Open Scope N_scope.
Ltac Zify.zify_post_hook ::= Z.div_mod_to_equations.

Lemma pow256_vals :
  pow256 1 = 256 /\ pow256 2 = 65536 /\ pow256 3 = 16777216 /\ pow256 4 = 4294967296 /\
  pow256 5 = 1099511627776 /\ pow256 6 = 281474976710656 /\ pow256 7 = 72057594037927936 /\
  pow256 8 = 18446744073709551616.
Proof. repeat split; reflexivity. Qed.

Lemma ulen_spec v : v < two64 -> (1 <= ulen v <= 8)%nat /\ v < pow256 (ulen v).
Proof.
  intros H. unfold two64 in H. destruct pow256_vals as (P1&P2&P3&P4&P5&P6&P7&P8). unfold ulen.
  destruct (v <=? 255) eqn:E1; [split; lia|].
  destruct (v <=? 65535) eqn:E2; [split; lia|].
  destruct (v <=? 16777215) eqn:E3; [split; lia|].
  destruct (v <=? 4294967295) eqn:E4; [split; lia|].
  destruct (v <=? 1099511627775) eqn:E5; [split; lia|].
  destruct (v <=? 281474976710655) eqn:E6; [split; lia|].
  destruct (v <=? 72057594037927935) eqn:E7; [split; lia|].
  split; lia.
Qed.

Lemma firstn_skipn_be n v rest : firstn n (be n v ++ rest) = be n v /\ skipn n (be n v ++ rest) = rest.
Proof.
  split.
  - rewrite firstn_app, be_length, Nat.sub_diag, firstn_O, app_nil_r. apply firstn_all2. rewrite be_length; lia.
  - rewrite skipn_app, be_length, Nat.sub_diag. rewrite skipn_all2 by (rewrite be_length; lia). reflexivity.
Qed.

Lemma decode_encode_cmp_uvarint v rest : v < two64 ->
  decode_cmp_uvarint (encode_cmp_uvarint v ++ rest) = VOk rest v.
Proof.
  intros H. unfold encode_cmp_uvarint, decode_cmp_uvarint. destruct (v <=? 239) eqn:E.
  - cbn [app]. replace (v + 8 <? 8) with false by lia. replace (v + 8 <=? 247) with true by lia.
    f_equal. lia.
  - destruct (ulen_spec v H) as [Hn Hv]. set (n := ulen v) in *. cbn [app].
    replace (247 + N.of_nat n <? 8) with false by lia.
    replace (247 + N.of_nat n <=? 247) with false by lia.
    replace (N.to_nat (247 + N.of_nat n - 247)) with n by lia.
    replace (Nat.ltb (length (be n v ++ rest)) n) with false
      by (symmetry; apply Nat.ltb_ge; rewrite app_length, be_length; lia).
    destruct (firstn_skipn_be n v rest) as [-> ->]. rewrite of_be_be by exact Hv. reflexivity.
Qed.

(* multiples of 256^n up to 2^64, for the two's complement truncation *)
Lemma two64_mult n : (1 <= n <= 8)%nat -> exists q, two64 = q * pow256 n /\ 0 < q.
Proof.
  intros H. destruct pow256_vals as (P1&P2&P3&P4&P5&P6&P7&P8).
  assert (C : n = 1%nat \/ n = 2%nat \/ n = 3%nat \/ n = 4%nat \/ n = 5%nat \/ n = 6%nat \/ n = 7%nat \/ n = 8%nat) by lia.
  unfold two64.
  destruct C as [->|[->|[->|[->|[->|[->|[->| ->]]]]]]].
  - exists 72057594037927936. rewrite P1. split; [reflexivity|lia].
  - exists 281474976710656. rewrite P2. split; [reflexivity|lia].
  - exists 1099511627776. rewrite P3. split; [reflexivity|lia].
  - exists 4294967296. rewrite P4. split; [reflexivity|lia].
  - exists 16777216. rewrite P5. split; [reflexivity|lia].
  - exists 65536. rewrite P6. split; [reflexivity|lia].
  - exists 256. rewrite P7. split; [reflexivity|lia].
  - exists 1. rewrite P8. split; [reflexivity|lia].
Qed.

Lemma decode_encode_cmp_varint v rest : int64_range v ->
  decode_cmp_varint (encode_cmp_varint v ++ rest) = VOk rest v.
Proof.
  intros H. unfold int64_range in H. unfold decode_cmp_varint, encode_cmp_varint, decode_cmp_varint_gen.
  destruct (v <? 0)%Z eqn:Eneg.
  - (* negative *)
    set (m := Z.to_N (- v)).
    assert (Hm : 1 <= m <= two63) by (unfold m, two63 in *; lia).
    assert (Hm64 : m < two64) by (unfold two63, two64 in *; lia).
    destruct (ulen_spec m Hm64) as [Hn Hv]. set (n := ulen m) in *.
    destruct (two64_mult n Hn) as [q [Hq Hq0]].
    fold (pow256 n). set (P := pow256 n) in *.
    assert (Htc : Z.to_N (v + Z.of_N two64) = two64 - m) by (unfold m, two63, two64 in *; lia).
    rewrite Htc.
    assert (Hlow : (two64 - m) mod P = P - m).
    { rewrite Hq. replace (q * P - m) with ((P - m) + (q - 1) * P) by nia.
      rewrite N.mod_add by lia. apply N.mod_small. lia. }
    rewrite Hlow. cbn [app].
    replace ((8 <=? 8 - N.of_nat n) && (8 - N.of_nat n <=? 247)) with false by lia.
    replace (8 - N.of_nat n <? 8) with true by lia.
    replace (N.to_nat (8 - (8 - N.of_nat n))) with n by lia.
    replace (Nat.ltb (length (be n (P - m) ++ rest)) n) with false
      by (symmetry; apply Nat.ltb_ge; rewrite app_length, be_length; lia).
    destruct (firstn_skipn_be n (P - m) rest) as [-> ->]. rewrite of_be_be by (fold P; lia).
    fold (pow256 n). fold P.
    assert (Hle : P <= two64) by nia.
    replace ((two64 - P + (P - m)) mod two64) with (two64 - m)
      by (replace (two64 - P + (P - m)) with (two64 - m) by lia; symmetry; apply N.mod_small; lia).
    cbn [negb andb].
    replace (two64 - m <? two63) with false by (unfold two63, two64 in *; lia).
    replace (two63 <=? two64 - m) with true by (unfold two63, two64 in *; lia).
    f_equal. unfold m, two63, two64 in *. lia.
  - (* non-negative *)
    set (u := Z.to_N v). assert (Hu : u < two63) by (unfold u, two63 in *; lia).
    assert (Hu64 : u < two64) by (unfold two63, two64 in *; lia).
    unfold encode_cmp_uvarint. destruct (u <=? 239) eqn:E.
    + cbn [app]. replace ((8 <=? u + 8) && (u + 8 <=? 247)) with true by lia.
      f_equal. unfold u in *. lia.
    + destruct (ulen_spec u Hu64) as [Hn Hv]. set (n := ulen u) in *. cbn [app].
      replace ((8 <=? 247 + N.of_nat n) && (247 + N.of_nat n <=? 247)) with false by lia.
      replace (247 + N.of_nat n <? 8) with false by lia.
      replace (N.to_nat (247 + N.of_nat n - 247)) with n by lia.
      replace (Nat.ltb (length (be n u ++ rest)) n) with false
        by (symmetry; apply Nat.ltb_ge; rewrite app_length, be_length; lia).
      destruct (firstn_skipn_be n u rest) as [-> ->]. rewrite of_be_be by exact Hv.
      cbn [negb andb]. replace (two63 <=? u) with false by lia.
      f_equal. unfold u in *. lia.
Qed.

(* the leftover returned by the unrepaired decoder (tree before the fix: commit) is wrong *)
Lemma decode_cmp_varint_unfixed_refuted :
  exists v rest, int64_range v /\ decode_cmp_varint_gen false (encode_cmp_varint v ++ rest) <> VOk rest v.
Proof. exists 5%Z, [170; 187]. split; [unfold int64_range, two63; lia|]. vm_compute. discriminate. Qed.
