(* C18 — the connection pool layer: RPCClient.connPools[addr] -> connPool with n batchCommandsClients, re-created by
   CloseAddr / idle recycling, closed by RPCClient.Close.  Each batchCommandsClient of each pool generation is ONE instance
   of the core system of Model.v (own table, loops and epoch; the ids it sees are a strictly increasing subsequence of
   the pool's shared id source, which is what the core's Build guard asks for).  Which client a request goes to --
   round-robin over the clients with available() > 0 that can be locked for sending -- is left nondeterministic. *)
From Coq Require Import List Arith Bool Lia.
Import ListNotations.
From Verif Require Import BatchRPC.Model BatchRPC.Proofs BatchRPC.Proofs2 BatchRPC.Proofs3 BatchRPC.Proofs4 BatchRPC.Proofs5.

Record pstate := mkP {
  p_gen : nat;                            (* connPool.ver of the pool currently registered for the address *)
  p_cl : nat -> nat -> state;             (* generation, connection index -> batchCommandsClient *)
  p_home : caller -> option (nat * nat);  (* ghost: where a call was routed *)
  p_rpc_closed : bool;                    (* RPCClient.isClosed *)
  p_idle : bool                           (* batchConn.idle of the current pool *)
}.

Inductive plabel :=
| PRoute (c : caller) (k : nat) (h : host)  (* sendRequest: getConnPool (client not closed, pool not idle; creates the pool of the
                                               current generation if needed), entry enqueued; connection k will carry it *)
| PCore (g k : nat) (l : label)             (* a step of client k of generation g (not Submit) *)
| PCloseAddr                                (* CloseAddr / CloseAddrVer: the pool is taken out of the map and closed; the next
                                               call creates generation + 1 *)
| PClose                                    (* RPCClient.Close: the current pool is closed, no further calls *)
| PIdle                                     (* the idle timer of the current pool fired *)
| PRecycle.                                 (* recycleIdleConnArray: an idle pool is closed like CloseAddrVer *)

Definition set_closed (s : state) : state :=
  mkState (next_id s) (tab s) (ent s) (loops s) (epoch s) true (outdated s) (alloc s).

Definition upd_cl (f : nat -> nat -> state) (g k : nat) (s : state) : nat -> nat -> state :=
  fun g' k' => if Nat.eqb g' g && Nat.eqb k' k then s else f g' k'.
Definition close_gen (f : nat -> nat -> state) (g : nat) : nat -> nat -> state :=
  fun g' k' => if Nat.eqb g' g then set_closed (f g' k') else f g' k'.
Definition upd_home (f : caller -> option (nat * nat)) (c : caller) (v : nat * nat) : caller -> option (nat * nat) :=
  fun c' => if Nat.eqb c' c then Some v else f c'.

Definition is_submit (l : label) : bool := match l with Submit _ _ => true | _ => false end.

Definition pstep (p : pstate) (l : plabel) : option pstate :=
  match l with
  | PRoute c k h =>
      match p_home p c with
      | Some _ => None
      | None =>
          if p_rpc_closed p || p_idle p then None   (* "rpcClient is closed" / "rpcClient is idle": the call fails before it is enqueued *)
          else match step (p_cl p (p_gen p) k) (Submit c h) with
               | Some s => Some (mkP (p_gen p) (upd_cl (p_cl p) (p_gen p) k s) (upd_home (p_home p) c (p_gen p, k)) (p_rpc_closed p) (p_idle p))
               | None => None
               end
      end
  | PCore g k l0 =>
      if is_submit l0 then None
      else match step (p_cl p g k) l0 with
           | Some s => Some (mkP (p_gen p) (upd_cl (p_cl p) g k s) (p_home p) (p_rpc_closed p) (p_idle p))
           | None => None
           end
  | PCloseAddr => Some (mkP (S (p_gen p)) (close_gen (p_cl p) (p_gen p)) (p_home p) (p_rpc_closed p) false)
  | PClose => Some (mkP (p_gen p) (close_gen (p_cl p) (p_gen p)) (p_home p) true (p_idle p))
  | PIdle => Some (mkP (p_gen p) (p_cl p) (p_home p) (p_rpc_closed p) true)
  | PRecycle => if p_idle p then Some (mkP (S (p_gen p)) (close_gen (p_cl p) (p_gen p)) (p_home p) (p_rpc_closed p) false) else None
  end.

Fixpoint prun (p : pstate) (ls : list plabel) : option pstate :=
  match ls with [] => Some p | l :: r => match pstep p l with Some p' => prun p' r | None => None end end.
Definition pinit : pstate := mkP 0 (fun _ _ => init) (fun _ => None) false false.
Definition preach (p : pstate) : Prop := exists ls, prun pinit ls = Some p.

(* ---------------------------------------------------------------- proofs *)
Lemma submit_other_core : forall s c0 h st c, step s (Submit c0 h) = Some st -> c <> c0 -> ent st c = ent s c.
Proof. intros s c0 h st c H N. simpl in H. destruct (e_st (ent s c0)); try discriminate. inversion H; subst. simpl. now apply upd_other. Qed.

(* an entry that has not been submitted is touched by nothing but its own Submit *)
Lemma step_keeps_fresh_entry : forall s l s' c, Inv s -> e_st (ent s c) = Fresh ->
  step s l = Some s' -> is_submit l = false -> ent s' c = ent s c.
Proof.
  intros s l s' c I HQ H NS.
  assert (Hup : forall c0 e, e_st (ent s c0) <> Fresh -> upd (ent s) c0 e c = ent s c).
  { intros c0 e Hn. apply upd_other. intros E; subst. congruence. }
  destruct l; simpl in H; try discriminate NS.
  - destruct (e_st (ent s c0)) eqn:ES; try discriminate. destruct (negb (e_canceled (ent s c0)) && (next_id s <? i)); try discriminate.
    inv_some. simpl. apply Hup. congruence.
  - destruct (e_st (ent s c0)) eqn:ES; try discriminate. destruct (e_canceled (ent s c0)); try discriminate. inv_some. simpl. apply Hup. congruence.
  - destruct (e_st (ent s c0)) eqn:ES; try discriminate. inv_some. simpl. apply Hup. congruence.
  - destruct (e_st (ent s c0)) eqn:ES; try discriminate; [destruct (e_canceled (ent s c0)); try discriminate|]; inv_some; simpl; apply Hup; congruence.
  - destruct (e_st (ent s c0)) eqn:ES; try discriminate. inv_some. simpl. apply Hup. congruence.
  - destruct (e_st (ent s c0)) eqn:ES; try discriminate. destruct (loaded_on (loops s (e_host (ent s c0))) i); try discriminate.
    inv_some. simpl. apply Hup. congruence.
  - destruct (loops s h); try discriminate. destruct (lookup i (tab s)).
    + destruct (Nat.eqb (e_host (ent s c0)) h && match lookup i (alloc s) with Some c' => Nat.eqb p c' | None => true end); try discriminate.
      inv_some. reflexivity.
    + inv_some. reflexivity.
  - destruct (loops s h) eqn:EL; try discriminate. inv_some. simpl. apply Hup.
    destruct (I_loop s I _ _ _ _ _ EL) as (A & _). apply (I_tab_st s I) in A. congruence.
  - destruct (loops s h); try discriminate. destruct (closed s); [inv_some; reflexivity|].
    destruct (fail_pending h (tab s) (ent s)) as [t' f'] eqn:EF.
    assert (Es : ent s' = f') by (destruct (Nat.eqb ep (epoch s)); inv_some; reflexivity). rewrite Es.
    destruct (fail_pending_spec _ _ _ _ _ (tab_callers_nodup s I) EF) as (_ & _ & C). apply C.
    intros [Hin _]. apply in_map_iff in Hin. destruct Hin as [[j c1] [E Hin]]. simpl in E; subst.
    apply (I_tab_st s I) in Hin. congruence.
  - destruct (e_st (ent s c0)) eqn:ES; try discriminate; destruct (e_ret (ent s c0)); try discriminate;
      destruct (is_abort_kind k && match k with EClosed => closed s | _ => true end); try discriminate; inv_some; simpl; apply Hup; congruence.
  - destruct (e_ret (ent s c0)) eqn:ER; try discriminate. destruct (e_comp (ent s c0)) eqn:EC; try discriminate.
    inv_some. simpl. apply Hup. intros EF. destruct (I_good s I c0) as (G1 & _). rewrite EF in G1. congruence.
  - inv_some. reflexivity.
  - inv_some. reflexivity.
  - destruct (loops s h); try discriminate; inv_some; reflexivity.
  - destruct (loops s h); try discriminate. destruct (closed s); try discriminate. inv_some. reflexivity.
  - destruct (e_st (ent s c0)) eqn:ES; try discriminate.
    destruct (closed s && negb (loaded_on (loops s (e_host (ent s c0))) i)); try discriminate. inv_some. simpl. apply Hup. congruence.
  - destruct (e_st (ent s c0)) eqn:ES; try discriminate. destruct (closed s); try discriminate. inv_some. simpl. apply Hup. congruence.
  - destruct (e_st (ent s c0)) eqn:ES; try discriminate. inv_some. simpl. apply Hup. congruence.
Qed.

Lemma fresh_stays_fresh : forall s l s' c, Inv s -> step s l = Some s' -> is_submit l = false ->
  e_st (ent s c) = Fresh -> e_st (ent s' c) = Fresh.
Proof. intros s l s' c I H NS HF. now rewrite (step_keeps_fresh_entry _ _ _ _ I HF H NS). Qed.


Record PInv (p : pstate) : Prop := {
  PI_reach : forall g k, reachable (p_cl p g k);
  PI_home : forall c g k, e_st (ent (p_cl p g k) c) <> Fresh -> p_home p c = Some (g, k);
  PI_gen : forall c g k, p_home p c = Some (g, k) -> g <= p_gen p
}.

Lemma set_closed_step : forall s, step s Close = Some (set_closed s).
Proof. reflexivity. Qed.

Lemma reachable_step : forall s l s', reachable s -> step s l = Some s' -> reachable s'.
Proof. intros s l s' R H. apply (reachable_run s [l] s' R). cbn [run]. now rewrite H. Qed.

Lemma upd_cl_same : forall f g k s, upd_cl f g k s g k = s.
Proof. intros; unfold upd_cl. now rewrite !Nat.eqb_refl. Qed.
Lemma upd_cl_other : forall f g k s g' k', (g', k') <> (g, k) -> upd_cl f g k s g' k' = f g' k'.
Proof.
  intros f g k s g' k' H. unfold upd_cl. destruct (Nat.eqb_spec g' g); destruct (Nat.eqb_spec k' k); simpl; auto. subst. congruence.
Qed.

Lemma pinv_init : PInv pinit.
Proof.
  constructor; simpl; intros; try discriminate.
  - exists []. reflexivity.
  - exfalso. apply H. reflexivity.
Qed.

Lemma close_gen_ent : forall f g g' k', ent (close_gen f g g' k') = ent (f g' k').
Proof. intros. unfold close_gen. destruct (Nat.eqb g' g); reflexivity. Qed.

Lemma close_gen_reach : forall f g, (forall g' k', reachable (f g' k')) -> forall g' k', reachable (close_gen f g g' k').
Proof.
  intros f g H g' k'. unfold close_gen. destruct (Nat.eqb g' g); auto.
  eapply reachable_step; [apply H | apply set_closed_step].
Qed.

Lemma pstep_inv : forall p l p', PInv p -> pstep p l = Some p' -> PInv p'.
Proof.
  intros p l p' [I1 I2 I3] H. destruct l; unfold pstep in H.
  - destruct (p_home p c) eqn:EH; [discriminate|].
    destruct (p_rpc_closed p || p_idle p); [discriminate|].
    destruct (step (p_cl p (p_gen p) k) (Submit c h)) as [s|] eqn:E; [|discriminate]. inversion H; subst; clear H.
    constructor; simpl.
    + intros g k0. destruct (Nat.eq_dec g (p_gen p)); destruct (Nat.eq_dec k0 k); subst;
        try (rewrite upd_cl_other by congruence; auto). rewrite upd_cl_same. eapply reachable_step; eauto.
    + intros c0 g k0 Hst. unfold upd_home. destruct (Nat.eqb_spec c0 c).
      * subst c0. destruct (Nat.eq_dec g (p_gen p)); destruct (Nat.eq_dec k0 k); subst; auto;
          rewrite upd_cl_other in Hst by congruence; apply I2 in Hst; congruence.
      * destruct (Nat.eq_dec g (p_gen p)); destruct (Nat.eq_dec k0 k); subst;
          try (rewrite upd_cl_other in Hst by congruence; auto).
        rewrite upd_cl_same in Hst. rewrite (submit_other_core _ _ _ _ _ E n) in Hst. auto.
    + intros c0 g k0 Hh. unfold upd_home in Hh. destruct (Nat.eqb_spec c0 c); [inversion Hh; subst; lia | eauto].
  - destruct (is_submit l) eqn:ES; [discriminate|].
    destruct (step (p_cl p g k) l) as [s|] eqn:E; [|discriminate]. inversion H; subst; clear H.
    constructor; simpl; auto.
    + intros g0 k0. destruct (Nat.eq_dec g0 g); destruct (Nat.eq_dec k0 k); subst;
        try (rewrite upd_cl_other by congruence; auto). rewrite upd_cl_same. eapply reachable_step; eauto.
    + intros c0 g0 k0 Hst. destruct (Nat.eq_dec g0 g); destruct (Nat.eq_dec k0 k); subst;
        try (rewrite upd_cl_other in Hst by congruence; auto).
      rewrite upd_cl_same in Hst. apply I2. intros HF.
      apply Hst. eapply fresh_stays_fresh; eauto. apply reachable_inv; auto.
  - inversion H; subst; clear H. constructor; simpl.
    + apply close_gen_reach; auto.
    + intros c g k Hst. rewrite close_gen_ent in Hst. auto.
    + intros c g k Hh. apply I3 in Hh. lia.
  - inversion H; subst; clear H. constructor; simpl; auto.
    + apply close_gen_reach; auto.
    + intros c g k Hst. rewrite close_gen_ent in Hst. auto.
  - inversion H; subst; clear H. constructor; simpl; auto.
  - destruct (p_idle p); [|discriminate]. inversion H; subst; clear H. constructor; simpl.
    + apply close_gen_reach; auto.
    + intros c g k Hst. rewrite close_gen_ent in Hst. auto.
    + intros c g k Hh. apply I3 in Hh. lia.
Qed.

Lemma option_pair_dec : forall (o : option (nat * nat)) (v : nat * nat), {o = Some v} + {o <> Some v}.
Proof. intros o v. decide equality. decide equality; apply Nat.eq_dec. Qed.

Lemma preach_inv : forall p, preach p -> PInv p.
Proof.
  intros p [ls H]. revert p H.
  assert (G : forall ls0 p0 p, PInv p0 -> prun p0 ls0 = Some p -> PInv p).
  { induction ls0 as [|l r IH]; simpl; intros p0 p I H; [inversion H; subst; auto|].
    destruct (pstep p0 l) eqn:E; [|discriminate]. eapply IH; [eapply pstep_inv; eauto | eauto]. }
  intros p H. eapply G; [apply pinv_init | exact H].
Qed.

(* every client of every pool generation is a reachable core state; a call lives in exactly one of them *)
Lemma pool_clients : forall p, preach p ->
  (forall g k, reachable (p_cl p g k))
  /\ (forall c g k, p_home p c <> Some (g, k) -> ent (p_cl p g k) c = entry0)
  /\ (forall c g k, p_home p c = Some (g, k) -> g <= p_gen p).
Proof.
  intros p R. destruct (preach_inv p R) as [I1 I2 I3]. split; auto. split; auto.
  intros c g k Hn. destruct (I_good _ (reachable_inv _ (I1 g k)) c) as (_ & _ & _ & _ & G5). apply G5.
  destruct (e_st (ent (p_cl p g k) c)) eqn:ES; auto; exfalso; apply Hn; apply I2; congruence.
Qed.

(* exactly once / own response for a call routed to ANY client of ANY generation: over the whole pool a call has at most
   one completion, a returned response is its own, and a return value never changes whatever happens to the pool *)
Lemma pool_exactly_once : forall p c, preach p ->
  (forall g k, length (e_comp (ent (p_cl p g k) c)) <= 1)
  /\ (forall g k g' k', e_comp (ent (p_cl p g k) c) <> [] -> e_comp (ent (p_cl p g' k') c) <> [] -> (g, k) = (g', k'))
  /\ (forall g k q, e_ret (ent (p_cl p g k) c) = Some (Resp q) -> q = c /\ p_home p c = Some (g, k)).
Proof.
  intros p c R. destruct (pool_clients p R) as (A & B & _). split; [|split].
  - intros g k. apply comp_at_most_once; auto.
  - intros g k g' k' H1 H2.
    assert (E1 : p_home p c = Some (g, k)) by (destruct (option_pair_dec (p_home p c) (g, k)) as [E|E]; auto; rewrite (B _ _ _ E) in H1; exfalso; now apply H1).
    assert (E2 : p_home p c = Some (g', k')) by (destruct (option_pair_dec (p_home p c) (g', k')) as [E|E]; auto; rewrite (B _ _ _ E) in H2; exfalso; now apply H2).
    congruence.
  - intros g k q H. destruct (own_response _ _ _ (A g k) H) as (E & _). split; auto.
    destruct (option_pair_dec (p_home p c) (g, k)) as [E'|E']; auto. rewrite (B _ _ _ E') in H. discriminate.
Qed.

(* pool re-creation (CloseAddr, idle recycling): every client of the old generation is closed, nothing is completed or
   lost by the re-creation itself, later calls are routed to the new generation; in a closed client every synchronous
   caller still waiting can return the closed error (its select on batchConn.closed) *)
Lemma pool_recreate : forall p l p', (l = PCloseAddr \/ l = PRecycle) -> pstep p l = Some p' ->
  p_gen p' = S (p_gen p)
  /\ (forall k, closed (p_cl p' (p_gen p) k) = true)
  /\ (forall g k, ent (p_cl p' g k) = ent (p_cl p g k) /\ tab (p_cl p' g k) = tab (p_cl p g k))
  /\ (forall c k h p'', pstep p' (PRoute c k h) = Some p'' -> p_home p'' c = Some (S (p_gen p), k)).
Proof.
  intros p l p' Hl H.
  assert (Hp : p' = mkP (S (p_gen p)) (close_gen (p_cl p) (p_gen p)) (p_home p) (p_rpc_closed p) false).
  { destruct Hl; subst l; simpl in H; [|destruct (p_idle p); try discriminate]; inversion H; reflexivity. }
  subst p'. split; [reflexivity|]. split; [|split].
  - intros k. cbn [p_cl p_gen]. unfold close_gen. now rewrite Nat.eqb_refl.
  - intros g k. cbn [p_cl]. unfold close_gen. destruct (Nat.eqb g (p_gen p)); auto.
  - intros c k h p'' H2. unfold pstep in H2. cbn [p_home p_rpc_closed p_idle p_gen p_cl] in H2. destruct (p_home p c); [discriminate|].
    destruct (p_rpc_closed p || false); [discriminate|].
    match type of H2 with context [step ?st (Submit c h)] => destruct (step st (Submit c h)) end; [|discriminate].
    inversion H2; subst. cbn [p_home]. unfold upd_home. now rewrite Nat.eqb_refl.
Qed.

Lemma closed_sync_can_return : forall s c, closed s = true -> e_st (ent s c) <> Fresh -> e_ret (ent s c) = None ->
  exists s', step s (Abort c EClosed) = Some s' /\ e_ret (ent s' c) = Some (Err EClosed).
Proof.
  intros s c HC HF HR. simpl. rewrite HR, HC.
  destruct (e_st (ent s c)) eqn:ES; try congruence; (eexists; split; [reflexivity|]; simpl; now rewrite upd_same).
Qed.

(* an entry that is not in the table is not touched by a stream failure *)
Lemma step_keeps_other : forall s h s' c, Inv s -> step s (StreamFail h) = Some s' -> (forall i, e_st (ent s c) <> Stored i) ->
  ent s' c = ent s c.
Proof.
  intros s h s' c I H NS. simpl in H. destruct (loops s h); try discriminate. destruct (closed s); [inv_some; reflexivity|].
  destruct (fail_pending h (tab s) (ent s)) as [t' f'] eqn:EF.
  assert (Es : ent s' = f') by (destruct (Nat.eqb ep (epoch s)); inv_some; reflexivity). rewrite Es.
  destruct (fail_pending_spec _ _ _ _ _ (tab_callers_nodup s I) EF) as (_ & _ & C). apply C.
  intros [Hin _]. apply in_map_iff in Hin. destruct Hin as [[j c1] [E Hin]]. simpl in E; subst.
  apply (I_tab_st s I) in Hin. eapply NS; eauto.
Qed.

(* ---------------------------------------------------------------- streams of one client are isolated from each other *)
(* what happens on stream h -- a response batch, a Recv failure with re-creation, a panic of its recv loop -- completes,
   fails or removes only entries that were sent on h; every entry of another (direct or forwarded-host) stream, with
   whatever id of the shared id space, is untouched and stays in the table *)
Lemma stream_isolation : forall s l h s' c, reachable s -> step s l = Some s' ->
  (l = RecvFinish h \/ l = StreamFail h \/ l = RecvPanic h \/ l = FailPanic h \/ exists i p, l = RecvLoad h i p) ->
  e_host (ent s c) <> h -> e_st (ent s c) <> Fresh ->
  ent s' c = ent s c /\ (forall i, In (i, c) (tab s) -> In (i, c) (tab s')).
Proof.
  intros s l h s' c R H Hl Hh HF. pose proof (reachable_inv s R) as I.
  destruct Hl as [E|[E|[E|[E|[i [p E]]]]]]; subst l; simpl in H.
  - destruct (loops s h) eqn:EL; try discriminate. inv_some. simpl.
    destruct (I_loop s I _ _ _ _ _ EL) as (A & B & _).
    assert (Hne : c <> c0) by (intros E; subst; congruence).
    split; [now apply upd_other|]. intros j Hin. apply remove_id_In. split; auto.
    intros E; subst. apply Hne. eapply NoDup_fst_inj; eauto. apply (I_tab_nodup s I).
  - destruct (closed s) eqn:EC.
    + destruct (loops s h); try discriminate. inv_some. auto.
    + destruct (loops s h) eqn:EL; try discriminate.
      assert (H' : step s (StreamFail h) = Some s') by (simpl; now rewrite EL, EC).
      destruct (fail_pending_total _ _ _ R EC H') as (_ & _ & C).
      destruct (e_st (ent s c)) eqn:ES.
      * congruence.
      * split; [|intros j Hin; apply (I_tab_st s I) in Hin; congruence].
        eapply step_keeps_other; eauto; intros; congruence.
      * split; [|intros j Hin; apply (I_tab_st s I) in Hin; congruence]. eapply step_keeps_other; eauto; intros; congruence.
      * pose proof (I_st_tab s I _ _ ES) as Hin. destruct (C _ _ Hin Hh) as [A B]. split; auto.
        intros j Hj. assert (j = i) by (apply (I_tab_st s I) in Hj; congruence). subst. auto.
      * split; [|intros j Hin; apply (I_tab_st s I) in Hin; congruence]. eapply step_keeps_other; eauto; intros; congruence.
  - destruct (loops s h); try discriminate; inv_some; auto.
  - destruct (loops s h); try discriminate. destruct (closed s); try discriminate. inv_some. auto.
  - destruct (loops s h); try discriminate. destruct (lookup i (tab s)).
    + destruct (Nat.eqb (e_host (ent s c0)) h && match lookup i (alloc s) with Some c' => Nat.eqb p c' | None => true end); try discriminate.
      inv_some. auto.
    + inv_some. auto.
Qed.

Lemma pool_exactly_once_own : forall p c, preach p ->
  (forall g k, reachable (p_cl p g k))
  /\ (forall g k, p_home p c <> Some (g, k) -> ent (p_cl p g k) c = entry0)
  /\ (forall g k, length (e_comp (ent (p_cl p g k) c)) <= 1)
  /\ (forall g k g' k', e_comp (ent (p_cl p g k) c) <> [] -> e_comp (ent (p_cl p g' k') c) <> [] -> (g, k) = (g', k'))
  /\ (forall g k q, e_ret (ent (p_cl p g k) c) = Some (Resp q) -> q = c /\ p_home p c = Some (g, k)).
Proof.
  intros p c R. destruct (pool_clients p R) as (A & B & _). destruct (pool_exactly_once p c R) as (C & D & E).
  split; [exact A|]. split; [intros g k H; apply B; exact H|]. split; [exact C|]. split; [exact D | exact E].
Qed.

Lemma pool_recreate_full :
  (forall p l p', (l = PCloseAddr \/ l = PRecycle) -> pstep p l = Some p' ->
     p_gen p' = S (p_gen p)
     /\ (forall k, closed (p_cl p' (p_gen p) k) = true)
     /\ (forall g k, ent (p_cl p' g k) = ent (p_cl p g k) /\ tab (p_cl p' g k) = tab (p_cl p g k))
     /\ (forall c k h p'', pstep p' (PRoute c k h) = Some p'' -> p_home p'' c = Some (S (p_gen p), k)))
  /\ (forall s c, closed s = true -> e_st (ent s c) <> Fresh -> e_ret (ent s c) = None ->
        exists s', step s (Abort c EClosed) = Some s' /\ e_ret (ent s' c) = Some (Err EClosed)).
Proof. split; [exact pool_recreate | exact closed_sync_can_return]. Qed.
