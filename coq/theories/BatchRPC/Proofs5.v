(* C18 — entries cancelled before Build are never sent; recv-loop panics lose nothing and complete nothing *)
From Coq Require Import List Arith Bool Lia Sorted.
Import ListNotations.
From Verif Require Import BatchRPC.Model BatchRPC.Proofs BatchRPC.Proofs2 BatchRPC.Proofs3 BatchRPC.Proofs4.

(* the allocation log grows only by Build, and only for an entry that is not cancelled *)
Lemma step_alloc : forall s l s', step s l = Some s' ->
  alloc s' = alloc s \/ exists c i, l = Build c i /\ alloc s' = (i, c) :: alloc s /\ e_canceled (ent s c) = false.
Proof.
  intros s l s' H. destruct l; simpl in H;
    try (repeat match type of H with
                | context [match ?x with _ => _ end] => destruct x eqn:?; try discriminate
                end; inv_some; simpl; auto; fail).
  destruct (e_st (ent s c)); try discriminate.
  destruct (negb (e_canceled (ent s c)) && (next_id s <? i)) eqn:EG; try discriminate. inv_some. simpl.
  apply andb_prop in EG. destruct EG as [EC _]. apply negb_true_iff in EC. right. eauto.
Qed.

Definition skipped (s : state) (c : caller) : Prop :=
  e_canceled (ent s c) = true
  /\ (e_st (ent s c) = Queued \/ e_st (ent s c) = Retired)
  /\ (forall i, ~ In (i, c) (alloc s))
  /\ (forall p, ~ In (Resp p) (e_comp (ent s c))).

Lemma step_skipped : forall s l s' c, Inv s -> skipped s c -> step s l = Some s' -> skipped s' c.
Proof.
  intros s l s' c I (HC & HS & HA & HR) H.
  assert (HE : e_canceled (ent s' c) = true /\ (e_st (ent s' c) = Queued \/ e_st (ent s' c) = Retired)
               /\ (forall p, ~ In (Resp p) (e_comp (ent s' c)))).
  { destruct (step_etrans _ _ _ I H c) as [Eq|T]; [rewrite Eq; auto|].
    split; [eapply etrans_canceled_stays; eauto|]. split; [eapply etrans_skipped_st; eauto|].
    intros p Hp. eapply HR. eapply etrans_canceled_resp; eauto. }
  destruct HE as (A & B & C). split; auto. split; auto. split; auto.
  intros i Hin. destruct (step_alloc _ _ _ H) as [Eq|(c0 & i0 & _ & Eq & EC)]; rewrite Eq in Hin.
  - eapply HA; eauto.
  - destruct Hin as [E|Hin]; [inversion E; subst; congruence | eapply HA; eauto].
Qed.

Lemma run_skipped : forall ls s s' c, Inv s -> skipped s c -> run s ls = Some s' -> skipped s' c.
Proof.
  induction ls as [|l r IH]; simpl; intros s s' c I K H; [inversion H; subst; auto|].
  destruct (step s l) as [s1|] eqn:E; [|discriminate].
  eapply IH; [eapply step_inv; eauto | eapply step_skipped; eauto | eauto].
Qed.

(* an allocated entry is past the queue *)
Definition alloc_past_queue (s : state) : Prop :=
  forall i c, In (i, c) (alloc s) -> e_st (ent s c) <> Fresh /\ e_st (ent s c) <> Queued.

Lemma etrans_past_queue : forall e e', etrans e e' -> e_st e <> Fresh -> e_st e <> Queued ->
  e_st e' <> Fresh /\ e_st e' <> Queued.
Proof.
  intros e e' T H1 H2. destruct T; simpl in *; try (split; congruence); auto.
  destruct H as [E|[[i (E & _)]|[i (E & _)]]]; subst; split; discriminate.
Qed.

Lemma step_alloc_past_queue : forall s l s', Inv s -> alloc_past_queue s -> step s l = Some s' -> alloc_past_queue s'.
Proof.
  intros s l s' I P H i c Hin.
  assert (Hold : In (i, c) (alloc s) -> e_st (ent s' c) <> Fresh /\ e_st (ent s' c) <> Queued).
  { intros Hi. destruct (P _ _ Hi) as [A B].
    destruct (step_etrans _ _ _ I H c) as [Eq|T]; [rewrite Eq; auto | eapply etrans_past_queue; eauto]. }
  destruct (step_alloc _ _ _ H) as [Eq|(c0 & i0 & El & Eq & EC)]; rewrite Eq in Hin; auto.
  destruct Hin as [E|Hin]; auto. inversion E; subst. simpl in H.
  destruct (e_st (ent s c)); try discriminate.
  destruct (negb (e_canceled (ent s c)) && (next_id s <? i)); try discriminate. inv_some. simpl.
  rewrite upd_same. simpl. split; discriminate.
Qed.

Lemma reachable_alloc_past_queue : forall s, reachable s -> alloc_past_queue s.
Proof.
  intros s [ls H]. revert s H.
  assert (G : forall ls0 s0 s, Inv s0 -> alloc_past_queue s0 -> run s0 ls0 = Some s -> alloc_past_queue s).
  { induction ls0 as [|l r IH]; simpl; intros s0 s I P H; [inversion H; subst; auto|].
    destruct (step s0 l) as [s1|] eqn:E; [|discriminate].
    eapply IH; [eapply step_inv; eauto | eapply step_alloc_past_queue; eauto | eauto]. }
  intros s H. eapply G; [apply inv_init | | exact H]. intros i c Hin. simpl in Hin. destruct Hin.
Qed.

(* the theorem: cancelled while still queued (before buildWithLimit looked at it) *)
Lemma canceled_before_build : forall s c ls s', reachable s ->
  e_st (ent s c) = Queued -> e_canceled (ent s c) = true -> run s ls = Some s' ->
  (exists k, e_ret (ent s c) = Some (Err k) /\ is_abort_kind k = true)
  /\ e_ret (ent s' c) = e_ret (ent s c)
  /\ (e_st (ent s' c) = Queued \/ e_st (ent s' c) = Retired)
  /\ (forall i, ~ In (i, c) (alloc s')) /\ (forall i, ~ In (i, c) (tab s'))
  /\ (forall p, ~ In (Resp p) (e_comp (ent s' c))).
Proof.
  intros s c ls s' R HS HC Hrun. pose proof (reachable_inv s R) as I.
  destruct (I_good s I c) as (G1 & G2 & G3 & G4 & G5). rewrite HS in G1.
  assert (Hret : exists k, e_ret (ent s c) = Some (Err k) /\ is_abort_kind k = true).
  { destruct (e_ret (ent s c)) as [r|] eqn:ER; [|exfalso; now apply G4].
    destruct (G3 _ eq_refl) as [Hin|(k & E & K & _)]; [rewrite G1 in Hin; destruct Hin | subst; eauto]. }
  assert (K : skipped s c).
  { split; auto. split; auto. split.
    - intros i Hin. destruct (reachable_alloc_past_queue s R _ _ Hin) as [_ B]. congruence.
    - intros p Hp. rewrite G1 in Hp. destruct Hp. }
  destruct (run_skipped _ _ _ _ I K Hrun) as (A & B & C & D).
  split; auto. destruct Hret as (k & Ek & Kk).
  split; [rewrite Ek; eapply run_ret_stable; eauto|].
  split; auto. split; auto. split; auto.
  intros i Hin. pose proof (run_inv _ _ _ I Hrun) as I'.
  apply (C i). apply (I_st_alloc s' I'). left. now apply (I_tab_st s' I').
Qed.

(* ---------------------------------------------------------------- recv-loop panics *)
Lemma recv_panic_keeps : forall s h s', step s (RecvPanic h) = Some s' ->
  tab s' = tab s /\ ent s' = ent s /\ alloc s' = alloc s /\ epoch s' = epoch s /\ loops s' h = LIdle (epoch s').
Proof.
  intros s h s' H. simpl in H. destruct (loops s h); try discriminate; inv_some; simpl; rewrite updl_same; auto.
Qed.

Lemma fail_panic_keeps : forall s h s', step s (FailPanic h) = Some s' ->
  tab s' = tab s /\ ent s' = ent s /\ alloc s' = alloc s /\ loops s' h = LIdle (epoch s').
Proof.
  intros s h s' H. simpl in H. destruct (loops s h); try discriminate. destruct (closed s); try discriminate.
  inv_some; simpl; rewrite updl_same; auto.
Qed.

Lemma etrans_stored : forall e e' i, etrans e e' -> e_st e = Stored i \/ e_st e = Retired ->
  e_st e' = e_st e \/ e_st e' = Retired.
Proof.
  intros e e' i T HS. destruct T; simpl in *; auto.
  - destruct HS; discriminate.
  - destruct H as [E|[[j (E & E2 & _)]|[j (E & E2)]]]; subst; auto; destruct HS as [E|E]; rewrite E in E2; discriminate.
Qed.

Lemma run_stored : forall ls s s' c i, Inv s -> run s ls = Some s' -> e_st (ent s c) = Stored i ->
  e_st (ent s' c) = Stored i \/ e_st (ent s' c) = Retired.
Proof.
  induction ls as [|l r IH]; simpl; intros s s' c i I H HS; [inversion H; subst; auto|].
  destruct (step s l) as [s1|] eqn:E; [|discriminate].
  pose proof (step_inv _ _ _ I E) as I1.
  assert (H1 : e_st (ent s1 c) = Stored i \/ e_st (ent s1 c) = Retired).
  { destruct (step_etrans _ _ _ I E c) as [Eq|T]; [rewrite Eq; auto|].
    destruct (etrans_stored _ _ i T (or_introl HS)) as [A|A]; [rewrite A; auto | auto]. }
  destruct H1 as [H1|H1]; [eapply IH; eauto|].
  right. clear IH HS E. revert s1 I1 H H1. induction r as [|l2 r2 IH2]; simpl; intros s1 I1 H H1; [inversion H; subst; auto|].
  destruct (step s1 l2) as [s2|] eqn:E2; [|discriminate].
  eapply IH2; [eapply step_inv; eauto | eauto |].
  destruct (step_etrans _ _ _ I1 E2 c) as [Eq|T]; [rewrite Eq; auto|].
  destruct (etrans_stored _ _ 0 T (or_intror H1)) as [A|A]; [rewrite A; auto | auto].
Qed.

(* after a recv-loop panic (or a panic inside failPendingRequests) nothing was completed and nothing was lost: every
   entry pending on that stream is still completed at most once, and the next failure of the stream fails exactly the
   ones still in flight *)
Lemma panic_then_fail_once : forall s h l s1 ls s2 s3 i c, reachable s ->
  (l = RecvPanic h \/ l = FailPanic h) -> step s l = Some s1 ->
  In (i, c) (tab s) -> e_host (ent s c) = h ->
  run s1 ls = Some s2 -> closed s2 = false -> step s2 (StreamFail h) = Some s3 ->
  e_comp (ent s1 c) = [] /\ In (i, c) (tab s1)
  /\ e_st (ent s3 c) = Retired /\ length (e_comp (ent s3 c)) <= 1
  /\ (e_comp (ent s3 c) <> [] \/ e_ret (ent s3 c) <> None)
  /\ (In (i, c) (tab s2) -> e_comp (ent s3 c) = [Err EStream]).
Proof.
  intros s h l s1 ls s2 s3 i c R Hl H1 Hin Hh Hrun HC H3.
  pose proof (reachable_inv s R) as I.
  assert (K : tab s1 = tab s /\ ent s1 = ent s).
  { destruct Hl as [El|El]; rewrite El in H1; [destruct (recv_panic_keeps _ _ _ H1) as (A & B & _) | destruct (fail_panic_keeps _ _ _ H1) as (A & B & _)]; auto. }
  destruct K as [Kt Ke].
  pose proof (I_tab_st s I _ _ Hin) as ES.
  assert (EC : e_comp (ent s c) = []) by (destruct (I_good s I c) as (G1 & _); rewrite ES in G1; exact G1).
  assert (R1 : reachable s1) by (apply (reachable_run s [l] s1 R); cbn [run]; rewrite H1; reflexivity).
  assert (R2 : reachable s2) by (eapply reachable_run; eauto).
  assert (R3 : reachable s3) by (apply (reachable_run s2 [StreamFail h] s3 R2); cbn [run]; rewrite H3; reflexivity).
  split; [rewrite Ke; auto|]. split; [rewrite Kt; auto|].
  destruct (fail_pending_total _ _ _ R2 HC H3) as (A & B & C).
  assert (S2 : e_st (ent s2 c) = Stored i \/ e_st (ent s2 c) = Retired).
  { eapply run_stored; [apply (reachable_inv s1 R1) | eauto | rewrite Ke; auto]. }
  assert (Hh2 : In (i, c) (tab s2) -> e_host (ent s2 c) = h).
  { intros Hin2. pose proof (run_comp_prefix ls s1 s2 c (reachable_inv s1 R1) Hrun) as _.
    (* the host of an entry never changes once it is past Fresh *)
    clear - R1 Hrun Hh Ke ES.
    assert (G : forall ls0 sx sy, Inv sx -> run sx ls0 = Some sy -> e_st (ent sx c) <> Fresh -> e_host (ent sy c) = e_host (ent sx c)).
    { induction ls0 as [|l0 r IH]; simpl; intros sa sb Ia H HF; [inversion H; subst; auto|].
      destruct (step sa l0) as [sm|] eqn:E; [|discriminate].
      assert (Hm : e_host (ent sm c) = e_host (ent sa c) /\ e_st (ent sm c) <> Fresh).
      { destruct (step_etrans _ _ _ Ia E c) as [Eq|T]; [rewrite Eq; auto|].
        destruct T; simpl in *; auto; try (split; [reflexivity | discriminate]); try congruence.
        destruct H0 as [E0|[[j (E0 & _)]|[j (E0 & _)]]]; subst; split; auto; discriminate. }
      destruct Hm as [Hm1 Hm2]. rewrite <- Hm1. eapply IH; eauto. eapply step_inv; eauto. }
    rewrite (G ls s1 s2 (reachable_inv s1 R1) Hrun); rewrite Ke; [auto | rewrite ES; discriminate]. }
  assert (S3 : e_st (ent s3 c) = Retired).
  { destruct S2 as [S2|S2].
    - pose proof (I_st_tab s2 (reachable_inv s2 R2) _ _ S2) as Hin2.
      destruct (B _ _ Hin2 (Hh2 Hin2)) as (_ & E & _). exact E.
    - pose proof (run_stored [StreamFail h] s2 s3 c 0 (reachable_inv s2 R2)) as _.
      destruct (step_etrans _ _ _ (reachable_inv s2 R2) H3 c) as [Eq|T]; [rewrite Eq; auto|].
      destruct (etrans_stored _ _ 0 T (or_intror S2)) as [E|E]; [rewrite E; auto | auto]. }
  split; auto. split; [apply comp_at_most_once; auto|].
  split; [apply completed_when_retired; auto|].
  intros Hin2. destruct (B _ _ Hin2 (Hh2 Hin2)) as (E & _). exact E.
Qed.
