(* C18 — invariant of the in-flight-table transition system and its preservation by every step *)
From Coq Require Import List Arith Bool Lia Sorted.
Import ListNotations.
From Verif Require Import BatchRPC.Model.

(* ---------------------------------------------------------------- small facts *)
Lemma upd_same : forall f c e, upd f c e c = e.
Proof. intros; unfold upd; now rewrite Nat.eqb_refl. Qed.

Lemma upd_other : forall f c e c', c' <> c -> upd f c e c' = f c'.
Proof. intros f c e c' H; unfold upd. destruct (Nat.eqb_spec c' c); congruence. Qed.

Lemma updl_same : forall f h l, updl f h l h = l.
Proof. intros; unfold updl; now rewrite Nat.eqb_refl. Qed.

Lemma updl_other : forall f h l h', h' <> h -> updl f h l h' = f h'.
Proof. intros f h l h' H; unfold updl. destruct (Nat.eqb_spec h' h); congruence. Qed.

Lemma lookup_In : forall t i c, lookup i t = Some c -> In (i, c) t.
Proof.
  induction t as [|[j d] r IH]; simpl; intros i c H; [discriminate|].
  destruct (Nat.eqb_spec j i); [inversion H; subst; now left | right; auto].
Qed.

Lemma lookup_None : forall t i c, lookup i t = None -> ~ In (i, c) t.
Proof.
  induction t as [|[j d] r IH]; simpl; intros i c H; [tauto|].
  destruct (Nat.eqb_spec j i); [discriminate|].
  intros [E|E]; [inversion E; congruence | eapply IH; eauto].
Qed.

Lemma NoDup_fst_inj : forall (t : list (id * caller)) i c c',
  NoDup (map fst t) -> In (i, c) t -> In (i, c') t -> c = c'.
Proof.
  induction t as [|[j d] r IH]; simpl; intros i c c' ND H1 H2; [tauto|].
  inversion ND as [|? ? Hn ND']; subst.
  destruct H1 as [E1|H1], H2 as [E2|H2].
  - congruence.
  - inversion E1; subst. exfalso; apply Hn. change i with (fst (i, c')). now apply in_map.
  - inversion E2; subst. exfalso; apply Hn. change i with (fst (i, c)). now apply in_map.
  - eauto.
Qed.

Lemma remove_id_In : forall t i j c, In (j, c) (remove_id i t) <-> In (j, c) t /\ j <> i.
Proof.
  intros; unfold remove_id; rewrite filter_In; simpl.
  destruct (Nat.eqb_spec j i); simpl; intuition congruence.
Qed.

Lemma NoDup_map_filter : forall (A B : Type) (g : A -> B) (p : A -> bool) (l : list A),
  NoDup (map g l) -> NoDup (map g (filter p l)).
Proof.
  induction l as [|a r IH]; simpl; intros ND; [constructor|].
  inversion ND as [|? ? Hn ND']; subst.
  destruct (p a); simpl; [constructor|]; auto.
  intros Hin. apply Hn. apply in_map_iff in Hin. destruct Hin as [x [E Hx]].
  apply filter_In in Hx. rewrite <- E. apply in_map. tauto.
Qed.

Definition newer (a b : id * caller) : Prop := fst b < fst a.

Lemma sorted_unique : forall (l : list (id * caller)) i c c',
  StronglySorted newer l -> In (i, c) l -> In (i, c') l -> c = c'.
Proof.
  induction l as [|a r IH]; simpl; intros i c c' S H1 H2; [tauto|].
  inversion S as [|? ? S' F]; subst. rewrite Forall_forall in F.
  destruct H1 as [E1|H1], H2 as [E2|H2].
  - congruence.
  - subst a. apply F in H2. unfold newer in H2; simpl in H2; lia.
  - subst a. apply F in H1. unfold newer in H1; simpl in H1; lia.
  - eauto.
Qed.

Lemma sorted_lookup : forall (l : list (id * caller)) i c,
  StronglySorted newer l -> In (i, c) l -> lookup i l = Some c.
Proof.
  induction l as [|[j d] r IH]; simpl; intros i c S H; [tauto|].
  inversion S as [|? ? S' F]; subst. rewrite Forall_forall in F.
  destruct H as [E|H].
  - inversion E; subst. now rewrite Nat.eqb_refl.
  - destruct (Nat.eqb_spec j i); [|auto].
    subst. apply F in H. unfold newer in H; simpl in H; lia.
Qed.

(* ---------------------------------------------------------------- per-entry invariant *)
Definition good (c : caller) (e : entry) : Prop :=
  (match e_st e with
   | Retired => length (e_comp e) <= 1 /\ (e_comp e <> [] \/ e_canceled e = true)
   | _ => e_comp e = []
   end)
  /\ (forall p, In (Resp p) (e_comp e) -> p = c)
  /\ (forall r, e_ret e = Some r ->
        In r (e_comp e) \/ (exists k, r = Err k /\ is_abort_kind k = true /\ e_canceled e = true))
  /\ (e_canceled e = true -> e_ret e <> None)
  /\ (e_st e = Fresh -> e = entry0).

Lemma good_entry0 : forall c, good c entry0.
Proof. intros c; unfold good, entry0; simpl. repeat split; try tauto; try discriminate. Qed.

Lemma good_set_st : forall c e st, good c e -> e_st e <> Retired -> st <> Retired -> st <> Fresh -> good c (set_st e st).
Proof.
  intros c e st (G1 & G2 & G3 & G4 & G5) H1 H2 H3. unfold good, set_st; simpl.
  assert (E : e_comp e = []) by (destruct (e_st e); auto; congruence).
  split; [destruct st; auto; congruence|].
  split; [auto|]. split; [auto|]. split; [auto|]. congruence.
Qed.

Lemma good_complete : forall c e r, good c e -> e_st e <> Retired -> e_st e <> Fresh ->
  (forall p, r = Resp p -> p = c) -> good c (complete e r).
Proof.
  intros c e r (G1 & G2 & G3 & G4 & G5) H1 H1' H2. unfold good, complete; simpl.
  assert (E : e_comp e = []) by (destruct (e_st e); auto; congruence).
  rewrite E; simpl.
  split; [split; [lia | left; discriminate]|].
  split; [intros p [Hp|[]]; auto|].
  split; [|split; [auto | discriminate]].
  intros r0 Hr. destruct (G3 _ Hr) as [Hin|Hk]; [rewrite E in Hin; destruct Hin | now right].
Qed.

Lemma good_retire : forall c e, good c e -> e_st e <> Retired -> e_st e <> Fresh -> e_canceled e = true -> good c (retire e).
Proof.
  intros c e (G1 & G2 & G3 & G4 & G5) H1 H1' H2. unfold good, retire, set_st; simpl.
  assert (E : e_comp e = []) by (destruct (e_st e); auto; congruence).
  rewrite E; simpl.
  split; [split; [lia | now right]|].
  split; [intros p []|].
  split; [|split; [auto | discriminate]].
  intros r0 Hr. destruct (G3 _ Hr) as [Hin|Hk]; [rewrite E in Hin; destruct Hin | now right].
Qed.

(* ---------------------------------------------------------------- global invariant *)
Record Inv (s : state) : Prop := {
  I_alloc_le : forall i c, In (i, c) (alloc s) -> i <= next_id s;
  I_alloc_sorted : StronglySorted newer (alloc s);
  I_tab_st : forall i c, In (i, c) (tab s) -> e_st (ent s c) = Stored i;
  I_st_tab : forall i c, e_st (ent s c) = Stored i -> In (i, c) (tab s);
  I_tab_nodup : NoDup (map fst (tab s));
  I_st_alloc : forall i c, e_st (ent s c) = Stored i \/ e_st (ent s c) = Built i -> In (i, c) (alloc s);
  I_good : forall c, good c (ent s c);
  I_resp_alloc : forall c p, In (Resp p) (e_comp (ent s c)) -> exists i, In (i, c) (alloc s);
  I_loop : forall h ep i c p, loops s h = LLoaded ep i c p -> In (i, c) (tab s) /\ e_host (ent s c) = h /\ p = c
}.

Lemma inv_init : Inv init.
Proof.
  constructor; simpl; intros; try tauto; try discriminate.
  - constructor.
  - constructor.
  - destruct H; discriminate.
  - apply good_entry0.
Qed.

Lemma tab_callers_nodup : forall s, Inv s -> NoDup (map snd (tab s)).
Proof.
  intros s I. pose proof (I_tab_st s I) as H. pose proof (I_tab_nodup s I) as ND.
  induction (tab s) as [|[i c] r IH]; simpl in *; [constructor|].
  inversion ND as [|? ? Hn ND']; subst. constructor; [|apply IH; auto].
  intros Hin. apply in_map_iff in Hin. destruct Hin as [[j c'] [E Hx]]. simpl in E; subst c'.
  assert (Stored j = Stored i) as E by (rewrite <- (H j c), <- (H i c); auto).
  inversion E; subst. apply Hn. change i with (fst (i, c)). now apply in_map.
Qed.

(* ---------------------------------------------------------------- failPendingRequests *)
Lemma fail_pending_spec : forall h t f t' f',
  NoDup (map snd t) -> fail_pending h t f = (t', f') ->
  t' = filter (fun x => negb (Nat.eqb (e_host (f (snd x))) h)) t
  /\ (forall c, In c (map snd t) -> e_host (f c) = h -> f' c = complete (f c) (Err EStream))
  /\ (forall c, ~ (In c (map snd t) /\ e_host (f c) = h) -> f' c = f c).
Proof.
  intros h t; induction t as [|[i c0] r IH]; simpl; intros f t' f' ND H.
  - inversion H; subst. repeat split; auto; tauto.
  - inversion ND as [|? ? Hn ND']; subst.
    destruct (Nat.eqb_spec (e_host (f c0)) h) as [Eh|Nh]; simpl.
    + destruct (IH _ _ _ ND' H) as (A & B & C).
      assert (Hf : forall x, In x r -> upd f c0 (complete (f c0) (Err EStream)) (snd x) = f (snd x)).
      { intros x Hx. apply upd_other. intros E. apply Hn. rewrite <- E. now apply in_map. }
      repeat split.
      * rewrite A. apply filter_ext_in. intros x Hx. now rewrite Hf.
      * intros c [E|Hc] Hh.
        -- subst c0. rewrite C; [apply upd_same|]. intros [Hin _]. tauto.
        -- assert (c <> c0) by (intros E; subst; tauto).
           rewrite B; auto; rewrite upd_other; auto.
      * intros c Hc. destruct (Nat.eq_dec c c0) as [E|N].
        -- subst. exfalso. apply Hc. split; auto.
        -- rewrite C; [now apply upd_other|]. rewrite upd_other by auto. intros [H1 H2]. apply Hc; split; auto.
    + destruct (fail_pending h r f) as [t1 f1] eqn:E1. inversion H; subst.
      destruct (IH _ _ _ ND' E1) as (A & B & C).
      repeat split.
      * now rewrite A.
      * intros c [E|Hc] Hh; [subst; congruence | auto].
      * intros c Hc. apply C. intros [H1 H2]. apply Hc; split; auto.
Qed.

(* ---------------------------------------------------------------- preservation *)
Ltac inv_some := match goal with H : Some _ = Some _ |- _ => inversion H; subst; clear H end.

Lemma good_upd : forall (f : caller -> entry) c e, (forall c', good c' (f c')) -> good c e ->
  forall c', good c' (upd f c e c').
Proof.
  intros f c e Hf He c'. destruct (Nat.eq_dec c' c) as [E|N]; [subst; now rewrite upd_same | now rewrite upd_other].
Qed.

(* steps that only rewrite one entry c without touching table, loops, alloc, and keep/leave a non-table state *)
Lemma inv_with_ent_local : forall s c e,
  Inv s -> good c e ->
  (forall i, e_st (ent s c) <> Stored i) -> (forall i, e_st e <> Stored i) ->
  (forall i, e_st e = Built i -> e_st (ent s c) = Built i) ->
  (forall p, In (Resp p) (e_comp e) -> In (Resp p) (e_comp (ent s c))) ->
  e_host e = e_host (ent s c) \/ e_st (ent s c) = Fresh ->
  Inv (with_ent s (upd (ent s) c e)).
Proof.
  intros s c e I G NS NS' HB HR HH. destruct I as [I_alloc_le0 I_alloc_sorted0 I_tab_st0 I_st_tab0 I_tab_nodup0 I_st_alloc0 I_good0 I_resp_alloc0 I_loop0]. constructor; simpl; auto.
  - intros i c' Hin. destruct (Nat.eq_dec c' c) as [E|N]; [subst; apply I_tab_st0 in Hin; exfalso; eapply NS; eauto | rewrite upd_other; auto].
  - intros i c' H. destruct (Nat.eq_dec c' c) as [E|N]; [subst; rewrite upd_same in H; exfalso; eapply NS'; eauto | rewrite upd_other in H; auto].
  - intros i c' H. destruct (Nat.eq_dec c' c) as [E|N].
    + subst; rewrite upd_same in H. destruct H as [H|H]; [exfalso; eapply NS'; eauto | apply I_st_alloc0; right; auto].
    + rewrite upd_other in H; auto.
  - apply good_upd; auto.
  - intros c' p H. destruct (Nat.eq_dec c' c) as [E|N]; [subst; rewrite upd_same in H; eauto | rewrite upd_other in H; eauto].
  - intros h ep i c' p H. destruct (I_loop0 _ _ _ _ _ H) as (A & B & C). repeat split; auto.
    destruct (Nat.eq_dec c' c) as [E|N]; [|rewrite upd_other; auto].
    subst. apply I_tab_st0 in A. exfalso; eapply NS; eauto.
Qed.

(* entry rewrites that keep state/host/completions of an entry (Abort / Return) *)
Lemma inv_with_ent_same : forall s c e,
  Inv s -> good c e -> e_st e = e_st (ent s c) -> e_host e = e_host (ent s c) -> e_comp e = e_comp (ent s c) ->
  Inv (with_ent s (upd (ent s) c e)).
Proof.
  intros s c e I G ES EH EC. destruct I as [I_alloc_le0 I_alloc_sorted0 I_tab_st0 I_st_tab0 I_tab_nodup0 I_st_alloc0 I_good0 I_resp_alloc0 I_loop0]. constructor; simpl; auto.
  - intros i c' Hin. destruct (Nat.eq_dec c' c) as [E|N]; [subst; rewrite upd_same, ES; auto | rewrite upd_other; auto].
  - intros i c' H. destruct (Nat.eq_dec c' c) as [E|N]; [subst; rewrite upd_same, ES in H; auto | rewrite upd_other in H; auto].
  - intros i c' H. destruct (Nat.eq_dec c' c) as [E|N]; [subst; rewrite upd_same, ES in H; auto | rewrite upd_other in H; auto].
  - apply good_upd; auto.
  - intros c' p H. destruct (Nat.eq_dec c' c) as [E|N]; [subst; rewrite upd_same, EC in H; eauto | rewrite upd_other in H; eauto].
  - intros h ep i c' p H. destruct (I_loop0 _ _ _ _ _ H) as (A & B & C). repeat split; auto.
    destruct (Nat.eq_dec c' c) as [E|N]; [subst; rewrite upd_same; congruence | rewrite upd_other; auto].
Qed.
