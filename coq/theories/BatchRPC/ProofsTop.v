(* C18 — the statements of Props.v that are assembled from several lemmas, proved here so that Props.v only says `exact` *)
From Coq Require Import List Arith Bool Sorted.
Import ListNotations.
From Verif Require Import BatchRPC.Model BatchRPC.Proofs BatchRPC.Proofs2 BatchRPC.Proofs3 BatchRPC.Proofs4 BatchRPC.Proofs5
  BatchRPC.System BatchRPC.SysProofs BatchRPC.RunLoop BatchRPC.RunLoopProofs BatchRPC.Pool.

Lemma C18_exactly_once_l :
  (forall s c, reachable s -> length (e_comp (ent s c)) <= 1)
  /\ (forall s ls s' c r, reachable s -> run s ls = Some s' -> e_ret (ent s c) = Some r -> e_ret (ent s' c) = Some r)
  /\ (forall s c, reachable s -> e_st (ent s c) = Retired -> e_comp (ent s c) <> [] \/ e_ret (ent s c) <> None)
  /\ (forall s c, reachable s -> tab s = [] ->
        e_st (ent s c) <> Fresh -> e_st (ent s c) <> Queued -> (forall i, e_st (ent s c) <> Built i) ->
        e_comp (ent s c) <> [] \/ e_ret (ent s c) <> None)
  /\ (forall s c r l, e_ret (ent s c) = None -> e_comp (ent s c) = r :: l ->
        exists s', step s (Return c) = Some s' /\ e_ret (ent s' c) = Some r).
Proof.
  split; [exact comp_at_most_once|].
  split; [intros s ls s' c r R; apply run_ret_stable; now apply reachable_inv|].
  split; [exact completed_when_retired|].
  split; [exact completed_when_table_empty | exact return_enabled].
Qed.

Lemma C18_ids_fresh_across_streams_l : forall s i c c', reachable s ->
  In (i, c) (tab s) -> In (i, c') (tab s) -> c = c' /\ e_host (ent s c) = e_host (ent s c') /\ lookup i (alloc s) = Some c.
Proof.
  intros s i c c' R H1 H2. pose proof (reachable_inv s R) as I.
  pose proof (NoDup_fst_inj _ _ _ _ (I_tab_nodup s I) H1 H2). subst. repeat split; auto.
  apply sorted_lookup; [apply (I_alloc_sorted s I)|]. apply (I_st_alloc s I). left. now apply (I_tab_st s I).
Qed.

Remark recv_panic_keeps_pending : forall s h s',
  (step s (RecvPanic h) = Some s' \/ step s (FailPanic h) = Some s') ->
  tab s' = tab s /\ ent s' = ent s /\ alloc s' = alloc s /\ loops s' h = LIdle (epoch s').
Proof.
  intros s h s' [H|H]; [destruct (recv_panic_keeps _ _ _ H) as (A & B & C & _ & D) | destruct (fail_panic_keeps _ _ _ H) as (A & B & C & D)]; auto.
Qed.

Lemma C18_build_round_l : forall x lim takes x', xstep x (XBuildRound lim takes) = Some x' ->
  (forall t, In t takes -> In t (inb x))
  /\ (forall r, In r (inb x') -> In r (inb x) /\ ~ In r takes /\ pri x r < high_pri /\ forall t, In t takes -> pri x r <= pri x t)
  /\ (let ps := build_pairs (ent (core x)) (next_id (core x)) takes in
      alloc (core x') = rev ps ++ alloc (core x)
      /\ next_id (core x') = next_id (core x) + length ps
      /\ map fst ps = seq (S (next_id (core x))) (length ps)
      /\ (forall i c, In (i, c) ps -> In c takes /\ e_canceled (ent (core x) c) = false)).
Proof.
  intros x lim takes x' H. destruct (round_discipline _ _ _ _ H) as (A & B & _). split; auto. split; auto.
  exact (round_ids_consecutive _ _ _ _ H).
Qed.

Lemma C18_round_nothing_lost_l : forall x lim takes x', xstep x (XBuildRound lim takes) = Some x' ->
  (forall c, In c (inb x) ->
     (In c takes /\ e_canceled (ent (core x) c) = true /\ e_st (ent (core x') c) = Retired)
     \/ (In c takes /\ e_canceled (ent (core x) c) = false /\ exists i, e_st (ent (core x') c) = Built i /\ In (i, c) (alloc (core x')))
     \/ (~ In c takes /\ In c (inb x') /\ ent (core x') c = ent (core x) c))
  /\ (inb x' = [] \/ exists l, lim = Some l /\ l <= counted (ent (core x)) (pri x) takes).
Proof. intros x lim takes x' H. split; [exact (round_nothing_lost _ _ _ _ H) | exact (round_quota _ _ _ _ H)]. Qed.

Lemma C18_leftover_retried_l :
  (forall x c, sendloop x = true -> NoDup (inb x) ->
     (forall c', In c' (inb x) -> e_st (ent (core x) c') = Queued) ->
     In c (inb x) -> e_canceled (ent (core x) c) = false ->
     exists x1, xstep x XWake = Some x1 /\ core x1 = core x /\ inb x1 = inb x
       /\ forall lim, exists x2 i, xstep x1 (XBuildRound lim (inb x)) = Some x2 /\ e_st (ent (core x2) c) = Built i /\ inb x2 = [])
  /\ (forall x l x', ready x = false -> xstep x l = Some x' -> l <> XWake -> (forall c, l <> XFetch c) ->
        ready x' = false /\ (forall lim takes, xstep x (XBuildRound lim takes) = None)).
Proof. split; [exact wake_builds_leftover | exact leftover_needs_wake]. Qed.

Lemma C18_close_fails_queued_async_l :
  (forall x x', xstep x XSendExit = Some x' ->
     chq x' = [] /\ sendloop x' = false
     /\ (forall c, In c (chq x) -> asy x c = true -> e_st (ent (core x) c) = Queued ->
           e_comp (ent (core x') c) = e_comp (ent (core x) c) ++ [Err EClosed] /\ e_st (ent (core x') c) = Retired))
  /\ (forall x c h p, closed (core x) = true -> e_st (ent (core x) c) = Fresh ->
        exists x', xstep x (XSubmit c h p true) = Some x' /\ e_comp (ent (core x') c) = [Err EClosed] /\ e_st (ent (core x') c) = Retired).
Proof. split; [exact send_exit_drains | exact async_submit_when_closed]. Qed.

Lemma C18_unary_exactly_once_l :
  (forall ls u u' c r, urun u ls = Some u' -> ucalls u c = UDone r -> ucalls u' c = UDone r)
  /\ (forall ls u' c p, urun uinit ls = Some u' -> ucalls u' c = UDone (Resp p) -> p = c)
  /\ (forall u c, uclosed u = true -> ucalls u c = UPending ->
        exists u', ustep u (UFail c EClosed) = Some u' /\ ucalls u' c = UDone (Err EClosed)).
Proof.
  split; [exact urun_done_stable|]. split; [|exact uclose_completes].
  intros ls u' c p H. eapply urun_own; eauto. intros c0 p0 H0. discriminate.
Qed.

Lemma C18_runloop_fifo_once_l :
  (forall st, rreach st ->
     r_done st ++ r_running st ++ r_runnable st = r_log st
     /\ (r_running st = [] -> r_runnable st = [] -> r_done st = r_log st)
     /\ (NoDup (r_log st) -> NoDup (r_done st ++ r_running st ++ r_runnable st))
     /\ (exists rest, r_log st = r_done st ++ rest))
  /\ (forall st st', rstep st RStart = Some st' ->
        r_running st' = r_runnable st /\ r_runnable st' = [] /\ r_done st' = r_done st).
Proof. split; [exact runloop_fifo_once | exact runloop_round_start]. Qed.

Lemma C18_collapse_follower_result_l :
  (forall s c r, creach s -> c_call s c = CRet r ->
     (r = Err ECtx \/ r = Err ETimeout)
     \/ exists f, c_joined s c = Some f /\ c_fkey s f = c_key s c /\ c_fres s f = Some r /\ (forall p, r = Resp p -> p = c_key s c))
  /\ (forall s c e s', cstep s (CAbort c e) = Some s' ->
        c_fres s' = c_fres s /\ c_cur s' = c_cur s /\ c_nfl s' = c_nfl s /\ c_fkey s' = c_fkey s
        /\ (forall c', c' <> c -> c_call s' c' = c_call s c') /\ c_call s' c = CRet (Err e) /\ (e = ECtx \/ e = ETimeout))
  /\ (forall s c f r, c_call s c = CWait f -> c_fres s f = Some r ->
        exists s', cstep s (CDeliver c) = Some s' /\ c_call s' c = CRet r).
Proof. split; [exact collapse_follower_result|]. split; [exact collapse_abort_frame | exact collapse_deliver_enabled]. Qed.

(* ---------------------------------------------------------------- helper definitions of the Examples in Props.v *)
Definition get (o : option state) : state := match o with Some s => s | None => init end.
Definition ex_run1 : list label :=
  [Submit 7 0; Submit 8 1; Build 7 1; Build 8 2; Store 7; Store 8;
   RecvLoad 1 2 8; RecvFinish 1; RecvLoad 0 1 7; RecvFinish 0; Return 8; Return 7].
Definition xget (o : option sys) : sys := match o with Some x => x | None => xinit end.
Definition ex_builder : list xlabel :=
  [XSubmit 1 0 0 false; XSubmit 2 0 12 false; XSubmit 3 1 5 false; XCore (Abort 3 ECtx); XFetch 1; XFetch 2; XFetch 3].
Definition mixed_queue : list xlabel := [XSubmit 1 0 0 false; XSubmit 2 0 0 true; XSubmit 3 0 0 false; XSubmit 4 0 0 true].
Definition pget (o : option pstate) : pstate := match o with Some p => p | None => pinit end.
