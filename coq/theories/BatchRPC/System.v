(* C18 — the send side around the in-flight table: batchCommandsBuilder (priority queue of fetched entries, rounds of
   buildWithLimit, cancelled entries skipped, `cancel`, `reset`), the life of batchSendLoop and the asynchronous
   API, as a layer over the core transition system of Model.v.  Every step of this layer is a guarded SEQUENCE of
   core steps, so every theorem about reachable core states holds for it (SysProofs.xreach_core).

     XSubmit c h p a   sendBatchRequest / SendRequestAsync (a = true): entry with priority p on batchCommandsCh
     XFetch c          fetchAllPendingRequests / fetchMorePendingRequests: channel -> reqBuilder.entries
     XBuildRound lim ts  buildWithLimit(limit): lim = None for the default (unbounded) MaxConcurrencyRequestLimit, Some l for
                       l = available(); the entries ts are popped (PriorityQueue.Take), cancelled ones are skipped, the
                       others get the next consecutive ids; what is left behind has no high priority and no
                       priority above a popped entry (round_ok); the loop only stops with entries left behind when the
                       quota is used up: unbounded -> nothing is left, Some l -> at least l normal non-cancelled entries
                       were popped (quota_ok; the quota is soft: a second Take may overshoot it).  Whatever is not
                       popped STAYS in the builder for the next round.
     XWake             fix 7ad2a8a: fetchAllPendingRequests returns on its retry timer because the builder is not empty --
                       the send loop goes on to getClientAndSend with the leftover entries although no request arrived.
                       (The send loop only builds when it is `ready`: after a request arrived (XFetch) or after XWake;
                       a round puts it back to waiting.)
     XClean            reqBuilder.reset -> PriorityQueue.clean: cancelled entries leave the builder
     XNoConn           reqBuilder.cancel ("no available connections"): every entry in the builder is failed
     XSendExit         batchSendLoop returns (closed, builder empty): failQueuedAsyncRequestsOnClose drains
                       batchCommandsCh and fails the async entries in it (fix 000f10e); nothing is fetched or sent afterwards
     XCore l           a core step; Submit/Build/DropCanceled/NoConn only happen through the steps above, sends need a
                       live send loop, InitFail hits built entries, an async call does not watch batchConn.closed once
                       it is enqueued (no Abort EClosed), CloseFail (failAsyncRequestsOnClose) hits async entries; QueueFail only happens
                       inside XSubmit (the async sender's ONE re-check of batchConn.closed right after enqueueing, fix 000f10e)
                       and inside XSendExit (the drain)
     XIdleExit         batchSendLoop returns because the idle timer fired (builder empty, conn not closed): the conn is marked
                       idle for good and -- fix e17a7fd -- the channel is drained, failing the async entries ("rpcClient is idle") *)
From Coq Require Import List Arith Bool.
Import ListNotations.
From Verif Require Import BatchRPC.Model.

Record sys := mkSys {
  core : state;
  chq : list caller;          (* batchConn.batchCommandsCh *)
  inb : list caller;          (* batchCommandsBuilder.entries *)
  pri : caller -> nat;        (* batchCommandsEntry.pri *)
  asy : caller -> bool;       (* entry.cb != nil *)
  sendloop : bool;            (* batchSendLoop is running *)
  ready : bool;               (* ... and past fetchAllPendingRequests: it goes on to getClientAndSend *)
  idle : bool                 (* batchConn.idle: set when the send loop returns on its idle timer, never reset *)
}.

Inductive xlabel :=
| XSubmit (c : caller) (h : host) (p : nat) (a : bool)
| XFetch (c : caller)
| XBuildRound (lim : option nat) (takes : list caller)
| XClean
| XNoConn
| XSendExit
| XIdleExit
| XWake
| XCore (l : label).

Definition high_pri : nat := 10.
Definition memb (c : caller) (l : list caller) : bool := existsb (Nat.eqb c) l.
Fixpoint nodupb (l : list caller) : bool :=
  match l with [] => true | c :: r => negb (memb c r) && nodupb r end.

(* what buildWithLimit may pop from the builder in one call *)
Definition round_ok (pr : caller -> nat) (queue takes : list caller) : bool :=
  nodupb takes && forallb (fun t => memb t queue) takes
  && forallb (fun r => memb r takes
                       || (Nat.ltb (pr r) high_pri && forallb (fun t => Nat.leb (pr r) (pr t)) takes)) queue.

(* the quota: buildWithLimit keeps popping while count < limit and the queue is not empty *)
Definition counted (f : caller -> entry) (pr : caller -> nat) (takes : list caller) : nat :=
  length (filter (fun c => negb (e_canceled (f c)) && Nat.ltb (pr c) high_pri) takes).
Definition quota_ok (lim : option nat) (f : caller -> entry) (pr : caller -> nat) (queue takes : list caller) : bool :=
  forallb (fun r => memb r takes) queue
  || match lim with None => false | Some l => Nat.leb l (counted f pr takes) end.

Fixpoint build_labels (f : caller -> entry) (n : id) (takes : list caller) : list label :=
  match takes with
  | [] => []
  | c :: r => if e_canceled (f c) then DropCanceled c :: build_labels f n r
              else Build c (S n) :: build_labels f (S n) r
  end.

Fixpoint build_pairs (f : caller -> entry) (n : id) (takes : list caller) : list (id * caller) :=
  match takes with
  | [] => []
  | c :: r => if e_canceled (f c) then build_pairs f n r else (S n, c) :: build_pairs f (S n) r
  end.

Definition updn (f : caller -> nat) (c : caller) (v : nat) : caller -> nat := fun c' => if Nat.eqb c' c then v else f c'.
Definition updb (f : caller -> bool) (c : caller) (v : bool) : caller -> bool := fun c' => if Nat.eqb c' c then v else f c'.

Definition is_queued (st : est) : bool := match st with Queued => true | _ => false end.

Definition core_allowed (x : sys) (l : label) : bool :=
  match l with
  | Submit _ _ | Build _ _ | DropCanceled _ | NoConn _ => false
  | InitFail c => sendloop x && match e_st (ent (core x) c) with Built _ => true | _ => false end
  | Store _ | FailSent _ | Restart => sendloop x
  | Abort c k => match k with EClosed => negb (asy x c) | _ => true end
  | CloseFail c => asy x c
  | QueueFail _ | IdleFail _ => false
  | _ => true
  end.

Definition with_core (x : sys) (st : state) : sys := mkSys st (chq x) (inb x) (pri x) (asy x) (sendloop x) (ready x) (idle x).
Definition remove_c (c : caller) (l : list caller) : list caller := filter (fun c' => negb (Nat.eqb c' c)) l.
(* the async entries failQueuedAsyncRequestsOnClose finds in the channel *)
Definition drained (x : sys) : list caller :=
  filter (fun c => asy x c && is_queued (e_st (ent (core x) c))) (chq x).

Definition round_guard (x : sys) (lim : option nat) (takes : list caller) : bool :=
  sendloop x && ready x && round_ok (pri x) (inb x) takes && quota_ok lim (ent (core x)) (pri x) (inb x) takes.

Definition xstep (x : sys) (l : xlabel) : option sys :=
  match l with
  | XSubmit c h p a =>
      match step (core x) (Submit c h) with
      | Some st =>
          (* the async sender re-checks batchConn.closed and isIdle once, right after it has enqueued the entry *)
          let st' := if a && closed st then match step st (QueueFail c) with Some s2 => s2 | None => st end
                     else if a && idle x then match step st (IdleFail c) with Some s2 => s2 | None => st end
                     else st in
          Some (mkSys st' (c :: chq x) (inb x) (updn (pri x) c p) (updb (asy x) c a) (sendloop x) (ready x) (idle x))
      | None => None
      end
  | XFetch c =>
      if sendloop x && memb c (chq x) && negb (memb c (inb x)) && is_queued (e_st (ent (core x) c))
      then Some (mkSys (core x) (remove_c c (chq x)) (c :: inb x) (pri x) (asy x) (sendloop x) true (idle x)) else None
  | XBuildRound lim takes =>
      if round_guard x lim takes then
        match run (core x) (build_labels (ent (core x)) (next_id (core x)) takes) with
        | Some st => Some (mkSys st (chq x) (filter (fun c => negb (memb c takes)) (inb x)) (pri x) (asy x) (sendloop x) false (idle x))
        | None => None
        end
      else None
  | XClean =>
      if sendloop x then
        match run (core x) (map DropCanceled (filter (fun c => e_canceled (ent (core x) c)) (inb x))) with
        | Some st => Some (mkSys st (chq x) (filter (fun c => negb (e_canceled (ent (core x) c))) (inb x)) (pri x) (asy x) (sendloop x) (ready x) (idle x))
        | None => None
        end
      else None
  | XNoConn =>
      if sendloop x then
        match run (core x) (map NoConn (inb x)) with
        | Some st => Some (mkSys st (chq x) [] (pri x) (asy x) (sendloop x) (ready x) (idle x))
        | None => None
        end
      else None
  | XSendExit =>
      if sendloop x && closed (core x) && match inb x with [] => true | _ => false end
      then match run (core x) (map QueueFail (drained x)) with
           | Some st => Some (mkSys st [] (inb x) (pri x) (asy x) false false (idle x))
           | None => None
           end
      else None
  | XIdleExit =>
      if sendloop x && negb (closed (core x)) && match inb x with [] => true | _ => false end
      then match run (core x) (map IdleFail (drained x)) with
           | Some st => Some (mkSys st [] (inb x) (pri x) (asy x) false false true)
           | None => None
           end
      else None
  | XWake =>
      if sendloop x && match inb x with [] => false | _ => true end
      then Some (mkSys (core x) (chq x) (inb x) (pri x) (asy x) (sendloop x) true (idle x)) else None
  | XCore l0 =>
      if core_allowed x l0 then
        match step (core x) l0 with Some st => Some (with_core x st) | None => None end
      else None
  end.

Fixpoint xrun (x : sys) (ls : list xlabel) : option sys :=
  match ls with
  | [] => Some x
  | l :: r => match xstep x l with Some x' => xrun x' r | None => None end
  end.

Definition xinit : sys := mkSys init [] [] (fun _ => 0) (fun _ => false) true false false.
Definition xreach (x : sys) : Prop := exists ls, xrun xinit ls = Some x.

(* ---- the non-batch path: sendRequest -> tikvrpc.CallRPC (one unary gRPC call per request, context with the
        time-out).  gRPC matches a reply to its call; what is left to say is that a call completes once and that
        closing the client (conn.Close) completes the pending ones. ---- *)
Inductive ucall := UFresh | UPending | UDone (r : result).
Record ustate := mkU { ucalls : caller -> ucall; uclosed : bool }.
Inductive ulabel := UCall (c : caller) | UReply (c : caller) | UFail (c : caller) (k : errk) | UClose.
Definition uupd (f : caller -> ucall) (c : caller) (v : ucall) : caller -> ucall := fun c' => if Nat.eqb c' c then v else f c'.
Definition ustep (u : ustate) (l : ulabel) : option ustate :=
  match l with
  | UCall c => match ucalls u c with
               | UFresh => Some (mkU (uupd (ucalls u) c (if uclosed u then UDone (Err EClosed) else UPending)) (uclosed u))
               | _ => None end
  | UReply c => match ucalls u c with
                | UPending => if uclosed u then None else Some (mkU (uupd (ucalls u) c (UDone (Resp c))) (uclosed u))
                | _ => None end
  | UFail c k => match ucalls u c with
                 | UPending => if (match k with ECtx | ETimeout | EStream => true | EClosed => uclosed u | _ => false end)
                               then Some (mkU (uupd (ucalls u) c (UDone (Err k))) (uclosed u)) else None
                 | _ => None end
  | UClose => Some (mkU (ucalls u) true)
  end.
Fixpoint urun (u : ustate) (ls : list ulabel) : option ustate :=
  match ls with [] => Some u | l :: r => match ustep u l with Some u' => urun u' r | None => None end end.
Definition uinit : ustate := mkU (fun _ => UFresh) false.
