(* C18 — the resource-control / RPC-interceptor wrapper around the batch client (client_interceptor.go,
   NewInterceptedClient): per call, getResourceControlInfo decides whether a resource-group controller is active (switch
   on, group name set, not a background group); if so OnRequestWait may refuse the call before it is sent and supplies the
   group's priority, which becomes the request's priority ONLY if the request carries no override priority; the wrapped
   client is called once; OnResponseWait may turn a response into an error.  The wrapper never touches the response. *)
From Coq Require Import List Arith Bool Lia.
Import ListNotations.
From Verif Require Import BatchRPC.Model BatchRPC.Proofs BatchRPC.Proofs2 BatchRPC.Proofs3 BatchRPC.Proofs4 BatchRPC.Proofs5.

Record gspec := mkG {
  g_rc : bool;        (* wrapper in the stack, ResourceControlSwitch on, a controller installed *)
  g_override : nat;   (* ResourceControlContext.OverridePriority of the request *)
  g_group : nat;      (* resource group: 0 = no group name; bg = a background group *)
  g_gate : nat        (* scripted controller: 1 = OnRequestWait fails, 2 = OnResponseWait fails *)
}.

Definition rc_active (bg : nat) (g : gspec) : bool :=
  g_rc g && negb (Nat.eqb (g_group g) 0) && negb (Nat.eqb (g_group g) bg).

(* the priority the request is enqueued with (batchCommandsEntry.pri) *)
Definition gate_priority (bg : nat) (gp : nat -> nat) (g : gspec) : nat :=
  if rc_active bg g && Nat.eqb (g_override g) 0 then gp (g_group g) else g_override g.

Definition gate_admits (bg : nat) (g : gspec) : bool := negb (rc_active bg g && Nat.eqb (g_gate g) 1).

Inductive gres := GReqErr | GRespErr | GInner (r : result).

(* what the wrapped call returns, given what the inner call returned (None: it has not returned / was never made) *)
Definition gate_result (bg : nat) (g : gspec) (inner : option result) : option gres :=
  if negb (gate_admits bg g) then Some GReqErr
  else match inner with
       | None => None
       | Some (Resp p) => if rc_active bg g && Nat.eqb (g_gate g) 2 then Some GRespErr else Some (GInner (Resp p))
       | Some (Err e) => Some (GInner (Err e))
       end.

(* the wrapped call over the core system: caller c's inner call is entry c *)
Definition wrapped_ret (bg : nat) (g : gspec) (s : state) (c : caller) : option gres := gate_result bg g (e_ret (ent s c)).

Lemma gate_wrapped_call : forall bg g,
  (* own response through the wrapper, exactly once *)
  (forall s c p, reachable s -> wrapped_ret bg g s c = Some (GInner (Resp p)) -> p = c /\ e_ret (ent s c) = Some (Resp c))
  /\ (forall s ls s' c r, reachable s -> run s ls = Some s' -> wrapped_ret bg g s c = Some r -> wrapped_ret bg g s' c = Some r)
  (* a refused call is refused whatever happens inside, an admitted call returns nothing before the inner call has *)
  /\ (gate_admits bg g = false -> forall inner, gate_result bg g inner = Some GReqErr)
  /\ (gate_admits bg g = true -> gate_result bg g None = None)
  (* an error of the inner call passes unchanged; a response is only ever replaced by the response gate's error *)
  /\ (gate_admits bg g = true -> forall e, gate_result bg g (Some (Err e)) = Some (GInner (Err e)))
  /\ (gate_admits bg g = true -> forall p, gate_result bg g (Some (Resp p)) = Some (GInner (Resp p)) \/ gate_result bg g (Some (Resp p)) = Some GRespErr).
Proof.
  intros bg g. split; [|split; [|split; [|split; [|split]]]].
  - intros s c p R H. unfold wrapped_ret, gate_result in H. destruct (negb (gate_admits bg g)); [discriminate|].
    destruct (e_ret (ent s c)) as [[q|e]|] eqn:ER; try discriminate.
    destruct (rc_active bg g && Nat.eqb (g_gate g) 2); [discriminate|]. inversion H; subst.
    destruct (own_response _ _ _ R ER) as (E & _). subst. auto.
  - intros s ls s' c r R Hrun H. unfold wrapped_ret, gate_result in *. destruct (negb (gate_admits bg g)); auto.
    destruct (e_ret (ent s c)) as [r0|] eqn:ER; [|discriminate].
    rewrite (run_ret_stable _ _ _ _ _ (reachable_inv s R) Hrun ER). exact H.
  - intros H inner. unfold gate_result. now rewrite H.
  - intros H. unfold gate_result. now rewrite H.
  - intros H e. unfold gate_result. now rewrite H.
  - intros H p. unfold gate_result. rewrite H. simpl. destruct (rc_active bg g && Nat.eqb (g_gate g) 2); auto.
Qed.

Lemma gate_priority_spec : forall bg gp g,
  (g_override g <> 0 -> gate_priority bg gp g = g_override g)
  /\ (rc_active bg g = false -> gate_priority bg gp g = g_override g)
  /\ (g_override g = 0 -> rc_active bg g = true -> gate_priority bg gp g = gp (g_group g))
  /\ (g_rc g = false \/ g_group g = 0 \/ g_group g = bg -> rc_active bg g = false).
Proof.
  intros bg gp g. unfold gate_priority. repeat split.
  - intros H. destruct (Nat.eqb_spec (g_override g) 0); [congruence|]. now rewrite andb_false_r.
  - intros H. now rewrite H.
  - intros H1 H2. rewrite H1, H2. reflexivity.
  - intros [H|[H|H]]; unfold rc_active; rewrite H; simpl; auto.
    + now rewrite andb_false_r.
    + rewrite Nat.eqb_refl. simpl. now rewrite andb_false_r.
Qed.

(* how often the RPC interceptor attached to the call's context runs for a call that has returned: around a synchronous
   call once, unless OnRequestWait refused it; for an asynchronous call only inside the resource-control wrapper's injected
   completion hook, i.e. once if a controller is active for the call and admitted it, otherwise never (code as it is) *)
Definition icpt_runs (bg : nat) (g : gspec) (is_async : bool) : nat :=
  if is_async then (if rc_active bg g && gate_admits bg g then 1 else 0)
  else (if gate_admits bg g then 1 else 0).

Lemma icpt_runs_spec : forall bg g a,
  icpt_runs bg g a <= 1
  /\ (gate_admits bg g = false -> icpt_runs bg g a = 0)
  /\ (gate_admits bg g = true -> icpt_runs bg g false = 1)
  /\ (rc_active bg g = false -> icpt_runs bg g true = 0).
Proof.
  intros bg g a. unfold icpt_runs. repeat split.
  - destruct a; destruct (gate_admits bg g); destruct (rc_active bg g); simpl; lia.
  - intros H. rewrite H. rewrite andb_false_r. destruct a; reflexivity.
  - intros H. now rewrite H.
  - intros H. now rewrite H.
Qed.
