(* C18 — every step preserves the invariant *)
From Coq Require Import List Arith Bool Lia Sorted.
Import ListNotations.
From Verif Require Import BatchRPC.Model BatchRPC.Proofs.

Lemma comp_nil_of_good : forall c e, good c e -> e_st e <> Retired -> e_comp e = [].
Proof. intros c e (G1 & _) H. destruct (e_st e); auto; congruence. Qed.

Lemma step_submit : forall s c h s', Inv s -> step s (Submit c h) = Some s' -> Inv s'.
Proof.
  intros s c h s' I H. simpl in H. destruct (e_st (ent s c)) eqn:ES; try discriminate. inv_some.
  apply inv_with_ent_local; simpl; auto; try congruence; try tauto.
  unfold good; simpl. split; [reflexivity|]. split; [tauto|]. split; [discriminate|]. split; discriminate.
Qed.

Lemma step_drop : forall s c s', Inv s -> step s (DropCanceled c) = Some s' -> Inv s'.
Proof.
  intros s c s' I H. simpl in H. destruct (e_st (ent s c)) eqn:ES; try discriminate.
  destruct (e_canceled (ent s c)) eqn:EC; try discriminate. inv_some.
  pose proof (I_good s I c) as G.
  apply inv_with_ent_local; simpl; auto; try congruence.
  apply good_retire; auto; congruence.
Qed.

Lemma step_noconn : forall s c s', Inv s -> step s (NoConn c) = Some s' -> Inv s'.
Proof.
  intros s c s' I H. simpl in H. destruct (e_st (ent s c)) eqn:ES; try discriminate. inv_some.
  pose proof (I_good s I c) as G.
  assert (E : e_comp (ent s c) = []) by (eapply comp_nil_of_good; eauto; congruence).
  apply inv_with_ent_local; simpl; auto; try congruence.
  - apply good_complete; auto; congruence.
  - rewrite E; simpl. intros p [Hp|[]]; discriminate.
Qed.

Lemma step_idlefail : forall s c s', Inv s -> step s (IdleFail c) = Some s' -> Inv s'.
Proof.
  intros s c s' I H. simpl in H. destruct (e_st (ent s c)) eqn:ES; try discriminate. inv_some.
  pose proof (I_good s I c) as G.
  assert (E : e_comp (ent s c) = []) by (eapply comp_nil_of_good; eauto; congruence).
  apply inv_with_ent_local; simpl; auto; try congruence.
  - apply good_complete; auto; congruence.
  - rewrite E; simpl. intros p [Hp|[]]; discriminate.
Qed.

Lemma step_queuefail : forall s c s', Inv s -> step s (QueueFail c) = Some s' -> Inv s'.
Proof.
  intros s c s' I H. simpl in H. destruct (e_st (ent s c)) eqn:ES; try discriminate. destruct (closed s); try discriminate. inv_some.
  pose proof (I_good s I c) as G.
  assert (E : e_comp (ent s c) = []) by (eapply comp_nil_of_good; eauto; congruence).
  apply inv_with_ent_local; simpl; auto; try congruence.
  - apply good_complete; auto; congruence.
  - rewrite E; simpl. intros p [Hp|[]]; discriminate.
Qed.

Lemma step_initfail : forall s c s', Inv s -> step s (InitFail c) = Some s' -> Inv s'.
Proof.
  intros s c s' I H. simpl in H. pose proof (I_good s I c) as G.
  destruct (e_st (ent s c)) eqn:ES; try discriminate.
  - destruct (e_canceled (ent s c)); try discriminate. inv_some.
    assert (E : e_comp (ent s c) = []) by (eapply comp_nil_of_good; eauto; congruence).
    apply inv_with_ent_local; simpl; auto; try congruence.
    + apply good_complete; auto; congruence.
    + rewrite E; simpl. intros p [Hp|[]]; discriminate.
  - inv_some.
    assert (E : e_comp (ent s c) = []) by (eapply comp_nil_of_good; eauto; congruence).
    apply inv_with_ent_local; simpl; auto; try congruence.
    + apply good_complete; auto; congruence.
    + rewrite E; simpl. intros p [Hp|[]]; discriminate.
Qed.

Lemma good_abort : forall c e k, good c e -> e_st e <> Fresh -> is_abort_kind k = true ->
  good c (mkEntry (e_host e) (e_st e) (e_comp e) true (Some (Err k))).
Proof.
  intros c e k (G1 & G2 & G3 & G4 & G5) HF HK. unfold good; simpl.
  split; [destruct (e_st e); auto; destruct G1 as [G1 _]; split; auto|].
  split; [exact G2|].
  split; [intros r Hr; inversion Hr; subst; right; exists k; auto|].
  split; [discriminate | tauto].
Qed.

Lemma step_abort : forall s c k s', Inv s -> step s (Abort c k) = Some s' -> Inv s'.
Proof.
  intros s c k s' I H. simpl in H. pose proof (I_good s I c) as G.
  assert (HF : e_st (ent s c) <> Fresh) by (intros E; rewrite E in H; discriminate).
  assert (H' : (if is_abort_kind k && match k with EClosed => closed s | _ => true end
                then Some (with_ent s (upd (ent s) c (mkEntry (e_host (ent s c)) (e_st (ent s c)) (e_comp (ent s c)) true (Some (Err k)))))
                else None) = Some s' /\ e_ret (ent s c) = None).
  { destruct (e_st (ent s c)); try congruence; destruct (e_ret (ent s c)); try discriminate; auto. }
  clear H. destruct H' as [H ER].
  destruct (is_abort_kind k && match k with EClosed => closed s | _ => true end) eqn:EK; try discriminate.
  inv_some. apply andb_prop in EK. destruct EK as [EK _].
  apply inv_with_ent_same; simpl; auto. apply good_abort; auto.
Qed.

Lemma step_return : forall s c s', Inv s -> step s (Return c) = Some s' -> Inv s'.
Proof.
  intros s c s' I H. simpl in H. pose proof (I_good s I c) as G.
  destruct (e_ret (ent s c)) eqn:ER; try discriminate.
  destruct (e_comp (ent s c)) as [|r rest] eqn:EC; try discriminate. inv_some.
  apply inv_with_ent_same; simpl; auto.
  destruct G as (G1 & G2 & G3 & G4 & G5); unfold good; simpl. rewrite EC in *.
  split; [exact G1|]. split; [exact G2|].
  split; [intros r0 Hr; inversion Hr; subst; left; now left|].
  split; [discriminate|].
  intros EF. rewrite EF in G1. discriminate.
Qed.

Lemma step_build : forall s c i s', Inv s -> step s (Build c i) = Some s' -> Inv s'.
Proof.
  intros s c i s' I H. simpl in H. pose proof (I_good s I c) as G.
  destruct (e_st (ent s c)) eqn:ES; try discriminate.
  destruct (negb (e_canceled (ent s c)) && (next_id s <? i)) eqn:EG; try discriminate. inv_some.
  apply andb_prop in EG. destruct EG as [_ EL]. apply Nat.ltb_lt in EL.
  destruct I as [I_alloc_le0 I_alloc_sorted0 I_tab_st0 I_st_tab0 I_tab_nodup0 I_st_alloc0 I_good0 I_resp_alloc0 I_loop0]. constructor; simpl.
  - intros j c' [E|Hin]; [inversion E; subst; lia | apply I_alloc_le0 in Hin; lia].
  - constructor; auto. apply Forall_forall. intros [j c'] Hin. unfold newer; simpl.
    apply I_alloc_le0 in Hin. lia.
  - intros j c' Hin. destruct (Nat.eq_dec c' c) as [E|N]; [subst; apply I_tab_st0 in Hin; congruence | rewrite upd_other; auto].
  - intros j c' H. destruct (Nat.eq_dec c' c) as [E|N]; [subst; rewrite upd_same in H; simpl in H; discriminate | rewrite upd_other in H; auto].
  - auto.
  - intros j c' H. destruct (Nat.eq_dec c' c) as [E|N].
    + subst; rewrite upd_same in H; simpl in H. destruct H as [H|H]; inversion H; subst. now left.
    + rewrite upd_other in H; auto.
  - apply good_upd; auto. apply good_set_st; auto; congruence.
  - intros c' p H. destruct (Nat.eq_dec c' c) as [E|N].
    + subst; rewrite upd_same in H; simpl in H. destruct (I_resp_alloc0 _ _ H) as [j Hj]. exists j; now right.
    + rewrite upd_other in H; auto. destruct (I_resp_alloc0 _ _ H) as [j Hj]. exists j; now right.
  - intros h ep j c' p H. destruct (I_loop0 _ _ _ _ _ H) as (A & B & C). repeat split; auto.
    destruct (Nat.eq_dec c' c) as [E|N]; [subst; rewrite upd_same; auto | rewrite upd_other; auto].
Qed.

Lemma step_store : forall s c s', Inv s -> step s (Store c) = Some s' -> Inv s'.
Proof.
  intros s c s' I H. simpl in H. pose proof (I_good s I c) as G.
  destruct (e_st (ent s c)) eqn:ES; try discriminate. inv_some.
  assert (Hfresh : forall c', ~ In (i, c') (tab s)).
  { intros c' Hin. pose proof (I_tab_st s I _ _ Hin) as Hs.
    assert (A1 : In (i, c') (alloc s)) by (apply (I_st_alloc s I); now left).
    assert (A2 : In (i, c) (alloc s)) by (apply (I_st_alloc s I); now right).
    pose proof (sorted_unique _ _ _ _ (I_alloc_sorted s I) A1 A2). subst. congruence. }
  destruct I as [I_alloc_le0 I_alloc_sorted0 I_tab_st0 I_st_tab0 I_tab_nodup0 I_st_alloc0 I_good0 I_resp_alloc0 I_loop0]. constructor; simpl; auto.
  - intros j c' [E|Hin].
    + inversion E; subst. now rewrite upd_same.
    + destruct (Nat.eq_dec c' c) as [E|N]; [subst; apply I_tab_st0 in Hin; congruence | rewrite upd_other; auto].
  - intros j c' H. destruct (Nat.eq_dec c' c) as [E|N].
    + subst; rewrite upd_same in H; simpl in H. inversion H; subst. now left.
    + rewrite upd_other in H; auto.
  - constructor; auto. intros Hin. apply in_map_iff in Hin. destruct Hin as [[j c'] [E Hx]]. simpl in E; subst.
    eapply Hfresh; eauto.
  - intros j c' H. destruct (Nat.eq_dec c' c) as [E|N].
    + subst; rewrite upd_same in H; simpl in H. apply I_st_alloc0. destruct H as [H|H]; inversion H; subst. now right.
    + rewrite upd_other in H; auto.
  - apply good_upd; auto. apply good_set_st; auto; congruence.
  - intros c' p H. destruct (Nat.eq_dec c' c) as [E|N]; [subst; rewrite upd_same in H; eauto | rewrite upd_other in H; eauto].
  - intros h ep j c' p H.
    assert (H' : loops s h = LLoaded ep j c' p).
    { destruct (loops s (e_host (ent s c))) eqn:EL; auto.
      destruct (Nat.eq_dec h (e_host (ent s c))) as [E|N]; [subst; rewrite updl_same in H; discriminate | rewrite updl_other in H; auto]. }
    destruct (I_loop0 _ _ _ _ _ H') as (A & B & C). repeat split; auto.
    destruct (Nat.eq_dec c' c) as [E|N]; [subst; rewrite upd_same; auto | rewrite upd_other; auto].
Qed.

Lemma step_failsent : forall s c s', Inv s -> step s (FailSent c) = Some s' -> Inv s'.
Proof.
  intros s c s' I H. simpl in H. pose proof (I_good s I c) as G.
  destruct (e_st (ent s c)) eqn:ES; try discriminate.
  destruct (loaded_on (loops s (e_host (ent s c))) i) eqn:EL; try discriminate. inv_some.
  assert (E : e_comp (ent s c) = []) by (eapply comp_nil_of_good; eauto; congruence).
  pose proof (I_st_tab s I _ _ ES) as Hin0.
  destruct I as [I_alloc_le0 I_alloc_sorted0 I_tab_st0 I_st_tab0 I_tab_nodup0 I_st_alloc0 I_good0 I_resp_alloc0 I_loop0]. constructor; simpl; auto.
  - intros j c' Hin. apply remove_id_In in Hin. destruct Hin as [Hin Hne].
    destruct (Nat.eq_dec c' c) as [E'|N]; [subst; apply I_tab_st0 in Hin; congruence | rewrite upd_other; auto].
  - intros j c' H. destruct (Nat.eq_dec c' c) as [E'|N].
    + subst; rewrite upd_same in H; simpl in H; discriminate.
    + rewrite upd_other in H; auto. apply remove_id_In. split; auto.
      intros Ej; subst. apply I_st_tab0 in H. pose proof (NoDup_fst_inj _ _ _ _ I_tab_nodup0 H Hin0). congruence.
  - apply NoDup_map_filter; auto.
  - intros j c' H. destruct (Nat.eq_dec c' c) as [E'|N].
    + subst; rewrite upd_same in H; simpl in H. destruct H; discriminate.
    + rewrite upd_other in H; auto.
  - apply good_upd; auto. apply good_complete; auto; congruence.
  - intros c' p H. destruct (Nat.eq_dec c' c) as [E'|N].
    + subst; rewrite upd_same in H; simpl in H. rewrite E in H; simpl in H. destruct H as [H|[]]; discriminate.
    + rewrite upd_other in H; eauto.
  - intros h ep j c' p H. destruct (I_loop0 _ _ _ _ _ H) as (A & B & C). subst p.
    assert (j <> i).
    { intros Ej; subst j. pose proof (NoDup_fst_inj _ _ _ _ I_tab_nodup0 A Hin0) as Ec. subst c'.
      rewrite B in EL. rewrite H in EL. simpl in EL. now rewrite Nat.eqb_refl in EL. }
    repeat split; auto.
    + apply remove_id_In; auto.
    + destruct (Nat.eq_dec c' c) as [E'|N]; [subst; apply I_tab_st0 in A; congruence | rewrite upd_other; auto].
Qed.

Lemma step_closefail : forall s c s', Inv s -> step s (CloseFail c) = Some s' -> Inv s'.
Proof.
  intros s c s' I H. simpl in H. pose proof (I_good s I c) as G.
  destruct (e_st (ent s c)) eqn:ES; try discriminate.
  destruct (closed s); simpl in H; try discriminate.
  destruct (loaded_on (loops s (e_host (ent s c))) i) eqn:EL; simpl in H; try discriminate. inv_some.
  assert (E : e_comp (ent s c) = []) by (eapply comp_nil_of_good; eauto; congruence).
  pose proof (I_st_tab s I _ _ ES) as Hin0.
  destruct I as [I_alloc_le0 I_alloc_sorted0 I_tab_st0 I_st_tab0 I_tab_nodup0 I_st_alloc0 I_good0 I_resp_alloc0 I_loop0]. constructor; simpl; auto.
  - intros j c' Hin. apply remove_id_In in Hin. destruct Hin as [Hin Hne].
    destruct (Nat.eq_dec c' c) as [E'|N]; [subst; apply I_tab_st0 in Hin; congruence | rewrite upd_other; auto].
  - intros j c' H. destruct (Nat.eq_dec c' c) as [E'|N].
    + subst; rewrite upd_same in H; simpl in H; discriminate.
    + rewrite upd_other in H; auto. apply remove_id_In. split; auto.
      intros Ej; subst. apply I_st_tab0 in H. pose proof (NoDup_fst_inj _ _ _ _ I_tab_nodup0 H Hin0). congruence.
  - apply NoDup_map_filter; auto.
  - intros j c' H. destruct (Nat.eq_dec c' c) as [E'|N].
    + subst; rewrite upd_same in H; simpl in H. destruct H; discriminate.
    + rewrite upd_other in H; auto.
  - apply good_upd; auto. apply good_complete; auto; congruence.
  - intros c' p H. destruct (Nat.eq_dec c' c) as [E'|N].
    + subst; rewrite upd_same in H; simpl in H. rewrite E in H; simpl in H. destruct H as [H|[]]; discriminate.
    + rewrite upd_other in H; eauto.
  - intros h ep j c' p H. destruct (I_loop0 _ _ _ _ _ H) as (A & B & C). subst p.
    assert (j <> i).
    { intros Ej; subst j. pose proof (NoDup_fst_inj _ _ _ _ I_tab_nodup0 A Hin0) as Ec. subst c'.
      rewrite B in EL. rewrite H in EL. simpl in EL. now rewrite Nat.eqb_refl in EL. }
    repeat split; auto.
    + apply remove_id_In; auto.
    + destruct (Nat.eq_dec c' c) as [E'|N]; [subst; apply I_tab_st0 in A; congruence | rewrite upd_other; auto].
Qed.

Lemma step_recvload : forall s h i p s', Inv s -> step s (RecvLoad h i p) = Some s' -> Inv s'.
Proof.
  intros s h i p s' I H. simpl in H.
  destruct (loops s h) eqn:EL; try discriminate.
  destruct (lookup i (tab s)) as [c|] eqn:ELK.
  - destruct (Nat.eqb (e_host (ent s c)) h && match lookup i (alloc s) with Some c' => Nat.eqb p c' | None => true end) eqn:EG; try discriminate.
    inv_some. apply andb_prop in EG. destruct EG as [EH EP]. apply Nat.eqb_eq in EH.
    apply lookup_In in ELK.
    assert (A : In (i, c) (alloc s)) by (apply (I_st_alloc s I); left; apply (I_tab_st s I); auto).
    rewrite (sorted_lookup _ _ _ (I_alloc_sorted s I) A) in EP. apply Nat.eqb_eq in EP.
    destruct I as [I_alloc_le0 I_alloc_sorted0 I_tab_st0 I_st_tab0 I_tab_nodup0 I_st_alloc0 I_good0 I_resp_alloc0 I_loop0]. constructor; simpl; auto.
    intros h' ep' j c' p' H. destruct (Nat.eq_dec h' h) as [E|N].
    + subst. rewrite updl_same in H. inversion H; subst. auto.
    + rewrite updl_other in H; eauto.
  - inv_some. destruct I as [I_alloc_le0 I_alloc_sorted0 I_tab_st0 I_st_tab0 I_tab_nodup0 I_st_alloc0 I_good0 I_resp_alloc0 I_loop0]. constructor; simpl; auto.
Qed.

Lemma step_recvfinish : forall s h s', Inv s -> step s (RecvFinish h) = Some s' -> Inv s'.
Proof.
  intros s h s' I H. simpl in H.
  destruct (loops s h) eqn:EL; try discriminate. inv_some.
  destruct (I_loop s I _ _ _ _ _ EL) as (Hin0 & Hh & Hp). subst p.
  pose proof (I_tab_st s I _ _ Hin0) as ES. pose proof (I_good s I c) as G.
  assert (E : e_comp (ent s c) = []) by (eapply comp_nil_of_good; eauto; congruence).
  assert (Gnew : good c (if e_canceled (ent s c) then retire (ent s c) else complete (ent s c) (Resp c))).
  { destruct (e_canceled (ent s c)) eqn:EC.
    - apply good_retire; auto; congruence.
    - apply good_complete; auto; congruence. }
  assert (Snew : e_st (if e_canceled (ent s c) then retire (ent s c) else complete (ent s c) (Resp c)) = Retired)
    by (destruct (e_canceled (ent s c)); reflexivity).
  assert (Hnew : e_host (if e_canceled (ent s c) then retire (ent s c) else complete (ent s c) (Resp c)) = e_host (ent s c))
    by (destruct (e_canceled (ent s c)); reflexivity).
  destruct I as [I_alloc_le0 I_alloc_sorted0 I_tab_st0 I_st_tab0 I_tab_nodup0 I_st_alloc0 I_good0 I_resp_alloc0 I_loop0]. constructor; simpl; auto.
  - intros j c' Hin. apply remove_id_In in Hin. destruct Hin as [Hin Hne].
    destruct (Nat.eq_dec c' c) as [E'|N]; [subst; apply I_tab_st0 in Hin; congruence | rewrite upd_other; auto].
  - intros j c' H. destruct (Nat.eq_dec c' c) as [E'|N].
    + subst; rewrite upd_same in H. rewrite Snew in H. discriminate.
    + rewrite upd_other in H; auto. apply remove_id_In. split; auto.
      intros Ej; subst. apply I_st_tab0 in H. pose proof (NoDup_fst_inj _ _ _ _ I_tab_nodup0 H Hin0). congruence.
  - apply NoDup_map_filter; auto.
  - intros j c' H. destruct (Nat.eq_dec c' c) as [E'|N].
    + subst; rewrite upd_same in H. rewrite Snew in H. destruct H; discriminate.
    + rewrite upd_other in H; auto.
  - apply good_upd; auto.
  - intros c' p H. destruct (Nat.eq_dec c' c) as [E'|N].
    + subst. exists i. apply I_st_alloc0. now left.
    + rewrite upd_other in H; eauto.
  - intros h' ep' j c' p' H. destruct (Nat.eq_dec h' h) as [E'|N].
    + subst. rewrite updl_same in H. discriminate.
    + rewrite updl_other in H; auto. destruct (I_loop0 _ _ _ _ _ H) as (A & B & C).
      assert (c' <> c) by (intros Ec; subst; congruence).
      assert (j <> i) by (intros Ej; subst; apply H0; eapply NoDup_fst_inj; eauto).
      repeat split; auto.
      * apply remove_id_In; auto.
      * rewrite upd_other; auto.
Qed.

Lemma fail_pending_host : forall h t f t' f',
  NoDup (map snd t) -> fail_pending h t f = (t', f') -> forall c, e_host (f' c) = e_host (f c).
Proof.
  intros h t f t' f' ND H c. destruct (fail_pending_spec _ _ _ _ _ ND H) as (A & B & C).
  destruct (in_dec Nat.eq_dec c (map snd t)) as [Hin|Hn].
  - destruct (Nat.eq_dec (e_host (f c)) h) as [E|N].
    + rewrite B; auto.
    + rewrite C; auto. tauto.
  - rewrite C; auto. tauto.
Qed.

Lemma step_streamfail : forall s h s', Inv s -> step s (StreamFail h) = Some s' -> Inv s'.
Proof.
  intros s h s' I H. simpl in H.
  destruct (loops s h) eqn:EL; try discriminate.
  assert (Hl : forall l', (forall ep i c p, l' <> LLoaded ep i c p) ->
            forall h' ep' j c' p', updl (loops s) h l' h' = LLoaded ep' j c' p' -> loops s h' = LLoaded ep' j c' p' /\ h' <> h).
  { intros l' Hl' h' ep' j c' p' H'. destruct (Nat.eq_dec h' h) as [E|N].
    - subst. rewrite updl_same in H'. exfalso; eapply Hl'; eauto.
    - rewrite updl_other in H'; auto. }
  destruct (closed s).
  { inv_some. destruct I as [I_alloc_le0 I_alloc_sorted0 I_tab_st0 I_st_tab0 I_tab_nodup0 I_st_alloc0 I_good0 I_resp_alloc0 I_loop0]. constructor; simpl; auto.
    intros h' ep' j c' p' H'. apply Hl in H'; [|discriminate]. destruct H' as [H' _]. eauto. }
  destruct (fail_pending h (tab s) (ent s)) as [t' f'] eqn:EF.
  assert (Hboth : exists l' e' cl, (forall ep i c p, l' <> LLoaded ep i c p) /\
            s' = mkState (next_id s) t' f' (updl (loops s) h l') e' cl (outdated s) (alloc s)).
  { destruct (Nat.eqb ep (epoch s)); inv_some; do 3 eexists; (split; [|reflexivity]); discriminate. }
  clear H. destruct Hboth as (l' & e' & cl & Hl' & ->).
  pose proof (tab_callers_nodup s I) as NDc.
  destruct (fail_pending_spec _ _ _ _ _ NDc EF) as (A & B & C).
  pose proof (fail_pending_host _ _ _ _ _ NDc EF) as HH.
  destruct I as [I_alloc_le0 I_alloc_sorted0 I_tab_st0 I_st_tab0 I_tab_nodup0 I_st_alloc0 I_good0 I_resp_alloc0 I_loop0]. constructor; simpl; auto.
  - intros j c' Hin. rewrite A in Hin. apply filter_In in Hin. simpl in Hin. destruct Hin as [Hin Hne].
    rewrite C; auto. intros [_ E]. rewrite E, Nat.eqb_refl in Hne. discriminate.
  - intros j c' H.
    assert (Hc : f' c' = ent s c').
    { destruct (in_dec Nat.eq_dec c' (map snd (tab s))) as [Hin|Hn]; [|apply C; tauto].
      destruct (Nat.eq_dec (e_host (ent s c')) h) as [E|N]; [|apply C; tauto].
      rewrite B in H; auto. simpl in H. discriminate. }
    rewrite Hc in H. pose proof (I_st_tab0 _ _ H) as Hin. rewrite A. apply filter_In. split; auto. simpl.
    destruct (Nat.eqb_spec (e_host (ent s c')) h) as [E|N]; auto.
    rewrite B in Hc; auto.
    + rewrite <- Hc in H. simpl in H. discriminate.
    + apply in_map_iff. exists (j, c'). auto.
  - rewrite A. apply NoDup_map_filter; auto.
  - intros j c' H.
    assert (Hc : f' c' = ent s c').
    { destruct (in_dec Nat.eq_dec c' (map snd (tab s))) as [Hin|Hn]; [|apply C; tauto].
      destruct (Nat.eq_dec (e_host (ent s c')) h) as [E|N]; [|apply C; tauto].
      rewrite B in H; auto. simpl in H. destruct H; discriminate. }
    rewrite Hc in H. auto.
  - intros c'.
    destruct (in_dec Nat.eq_dec c' (map snd (tab s))) as [Hin|Hn]; [|rewrite C; auto; tauto].
    destruct (Nat.eq_dec (e_host (ent s c')) h) as [E|N]; [|rewrite C; auto; tauto].
    rewrite B; auto. apply in_map_iff in Hin. destruct Hin as [[j c''] [E' Hin]]. simpl in E'; subst c''.
    apply I_tab_st0 in Hin. apply good_complete; auto; congruence.
  - intros c' p H.
    destruct (in_dec Nat.eq_dec c' (map snd (tab s))) as [Hin|Hn]; [|rewrite C in H; eauto; tauto].
    destruct (Nat.eq_dec (e_host (ent s c')) h) as [E|N]; [|rewrite C in H; eauto; tauto].
    rewrite B in H; auto. simpl in H. apply in_app_or in H. destruct H as [H|[H|[]]]; [eauto | discriminate].
  - intros h' ep' j c' p' H'. apply Hl in H'; [|exact Hl']. destruct H' as [H' Hne].
    destruct (I_loop0 _ _ _ _ _ H') as (A' & B' & C').
    assert (Hc : f' c' = ent s c') by (apply C; intros [_ E]; congruence).
    repeat split; auto; [|now rewrite Hc].
    rewrite A. apply filter_In. split; auto. simpl.
    destruct (Nat.eqb_spec (e_host (ent s c')) h); auto. congruence.
Qed.

Theorem step_inv : forall s l s', Inv s -> step s l = Some s' -> Inv s'.
Proof.
  intros s l s' I H. destruct l.
  - eapply step_submit; eauto.
  - eapply step_build; eauto.
  - eapply step_drop; eauto.
  - eapply step_noconn; eauto.
  - eapply step_initfail; eauto.
  - eapply step_store; eauto.
  - eapply step_failsent; eauto.
  - eapply step_recvload; eauto.
  - eapply step_recvfinish; eauto.
  - eapply step_streamfail; eauto.
  - eapply step_abort; eauto.
  - eapply step_return; eauto.
  - simpl in H. inv_some. destruct I as [I_alloc_le0 I_alloc_sorted0 I_tab_st0 I_st_tab0 I_tab_nodup0 I_st_alloc0 I_good0 I_resp_alloc0 I_loop0]. constructor; simpl; auto.
  - simpl in H. inv_some. exact I.
  - simpl in H. destruct I as [I_alloc_le0 I_alloc_sorted0 I_tab_st0 I_st_tab0 I_tab_nodup0 I_st_alloc0 I_good0 I_resp_alloc0 I_loop0].
    assert (Hs : s' = mkState (next_id s) (tab s) (ent s) (updl (loops s) h (LIdle (epoch s))) (epoch s) (closed s) (outdated s) (alloc s))
      by (destruct (loops s h); try discriminate; inv_some; reflexivity).
    subst s'. constructor; simpl; auto.
    intros h' ep' j c' p' H'. destruct (Nat.eq_dec h' h) as [E|N]; [subst; rewrite updl_same in H'; discriminate | rewrite updl_other in H'; eauto].
  - simpl in H. destruct (loops s h) eqn:EL; try discriminate. destruct (closed s); try discriminate. inv_some.
    destruct I as [I_alloc_le0 I_alloc_sorted0 I_tab_st0 I_st_tab0 I_tab_nodup0 I_st_alloc0 I_good0 I_resp_alloc0 I_loop0].
    constructor; simpl; auto.
    intros h' ep' j c' p' H'. destruct (Nat.eq_dec h' h) as [E|N]; [subst; rewrite updl_same in H'; discriminate | rewrite updl_other in H'; eauto].
  - eapply step_closefail; eauto.
  - eapply step_queuefail; eauto.
  - eapply step_idlefail; eauto.
Qed.

Lemma run_inv : forall ls s s', Inv s -> run s ls = Some s' -> Inv s'.
Proof.
  induction ls as [|l r IH]; simpl; intros s s' I H; [inversion H; subst; auto|].
  destruct (step s l) eqn:E; [|discriminate]. eapply IH; [eapply step_inv; eauto | eauto].
Qed.

Lemma reachable_inv : forall s, reachable s -> Inv s.
Proof. intros s [ls H]. eapply run_inv; [apply inv_init | eauto]. Qed.
