(* C18 — buildWithLimit's LOOP as a function (client_batch.go buildWithLimit + PriorityQueue.Take / pop), and the proof that
   whatever it pops satisfies the guards `round_ok` / `quota_ok` that System.v puts on a builder round (the acceptor checks
   every real round against those guards; this file shows that a loop of the code's shape can only produce legal rounds).

     for (count < limit && entries.Len() > 0) || hasHighPriorityTask() { n := limit; if limit == 0 { n = 1 }; entries.Take(n, build) }

   `pop` is the heap's pop: it removes SOME element of maximal priority (which one among equal priorities is the heap's
   business: a parameter with exactly that specification; a concrete instance is given at the end).  Take(n) with
   n >= Len() hands out the whole array, otherwise n pops: in both cases the n (or all) popped elements are maximal at the
   time, which is all that is used.  `count` counts the popped entries that are not cancelled and below highTaskPriority. *)
From Coq Require Import List Arith Bool Lia.
Import ListNotations.
From Verif Require Import BatchRPC.Model BatchRPC.System BatchRPC.SysProofs.

Section Loop.
Variable pr : caller -> nat.
Variable f : caller -> entry.
Variable pop : list caller -> option (caller * list caller).
Hypothesis pop_spec : forall q,
  match pop q with
  | None => q = []
  | Some (c, q') => In c q /\ q' = remove_c c q /\ (forall r, In r q -> pr r <= pr c)
  end.

Fixpoint take (n : nat) (q : list caller) : list caller * list caller :=
  match n with
  | 0 => ([], q)
  | S n' => match pop q with
            | None => ([], q)
            | Some (c, q') => let (t, q'') := take n' q' in (c :: t, q'')
            end
  end.

Definition has_high (q : list caller) : bool := existsb (fun c => Nat.leb high_pri (pr c)) q.
Definition is_nil (q : list caller) : bool := match q with [] => true | _ => false end.
Definition loop_cond (lim : nat) (q taken : list caller) : bool :=
  (Nat.ltb (counted f pr taken) lim && negb (is_nil q)) || has_high q.

Fixpoint loop (fuel lim : nat) (q taken : list caller) : list caller * list caller :=
  match fuel with
  | 0 => (taken, q)
  | S k => if loop_cond lim q taken
           then let (t, q') := take (if Nat.eqb lim 0 then 1 else lim) q in loop k lim q' (taken ++ t)
           else (taken, q)
  end.

(* buildWithLimit(limit) on a builder holding q: (popped entries in build order, entries left in the heap) *)
Definition build_with_limit (lim : nat) (q : list caller) : list caller * list caller := loop (S (length q)) lim q [].

(* ---- remove_c on duplicate-free lists *)
Lemma In_remove_c : forall c q x, In x (remove_c c q) <-> In x q /\ x <> c.
Proof.
  intros c q x. unfold remove_c. rewrite filter_In. split; intros [A B]; split; auto.
  - intros E. subst. now rewrite Nat.eqb_refl in B.
  - destruct (Nat.eqb_spec x c); auto.
Qed.
Lemma NoDup_remove_c : forall c q, NoDup q -> NoDup (remove_c c q).
Proof. intros c q H. unfold remove_c. now apply NoDup_filter. Qed.
Lemma filter_len_le : forall (A : Type) (p : A -> bool) (l : list A), length (filter p l) <= length l.
Proof. induction l as [|a r IH]; simpl; auto. destruct (p a); simpl; lia. Qed.
Lemma length_remove_c : forall c q, In c q -> length (remove_c c q) < length q.
Proof.
  intros c q. unfold remove_c. induction q as [|a r IH]; simpl; intros H; [destruct H|].
  destruct (Nat.eqb_spec a c); simpl.
  - apply Nat.lt_succ_r. apply filter_len_le.
  - destruct H as [H|H]; [congruence|]. specialize (IH H). lia.
Qed.

Lemma NoDup_app_intro : forall (a b : list caller), NoDup a -> NoDup b -> (forall x, In x a -> In x b -> False) -> NoDup (a ++ b).
Proof.
  induction a as [|x r IH]; simpl; intros b Ha Hb D; auto. inversion Ha; subst. constructor.
  - intros Hin. apply in_app_or in Hin. destruct Hin as [Hin|Hin]; [auto | exact (D x (or_introl eq_refl) Hin)].
  - apply IH; auto. intros y Hy. apply D. now right.
Qed.

(* the state of the loop relative to the builder q0 it started from *)
Record linv (q0 q taken : list caller) : Prop := mkLinv {
  L_nd_t : NoDup taken;
  L_nd_q : NoDup q;
  L_disj : forall c, In c taken -> ~ In c q;
  L_all : forall c, In c q0 <-> In c taken \/ In c q;
  L_max : forall r t, In r q -> In t taken -> pr r <= pr t
}.

Lemma take_spec : forall n q0 q taken t q', linv q0 q taken -> take n q = (t, q') ->
  linv q0 q' (taken ++ t) /\ length q' <= length q /\ (1 <= n -> q <> [] -> length q' < length q).
Proof.
  induction n as [|n IH]; simpl; intros q0 q taken t q' I H.
  - inversion H; subst. rewrite app_nil_r. split; [exact I|]. split; [lia|]. intros; lia.
  - pose proof (pop_spec q) as PS. destruct (pop q) as [[c q1]|] eqn:EP.
    + destruct PS as (Hin & Eq & Hmax). subst q1.
      destruct (take n (remove_c c q)) as [t1 q2] eqn:ET. inversion H; subst. clear H.
      destruct I as [I1 I2 I3 I4 I5].
      assert (I' : linv q0 (remove_c c q) (taken ++ [c])).
      { constructor.
        - apply NoDup_app_intro; auto; [constructor; [intros []|constructor]|].
          intros x Hx [E|[]]. subst. exact (I3 _ Hx Hin).
        - now apply NoDup_remove_c.
        - intros x Hx Hq. apply In_remove_c in Hq. destruct Hq as [Hq Ne]. apply in_app_or in Hx. destruct Hx as [Hx|[E|[]]]; [exact (I3 _ Hx Hq)|congruence].
        - intros x. rewrite I4, in_app_iff, In_remove_c. simpl. destruct (Nat.eq_dec x c); [subst; tauto|]. split; [intros [A|B]; auto | intros [[A|[A|[]]]|[A _]]; auto; congruence].
        - intros r t0 Hr Ht. apply In_remove_c in Hr. destruct Hr as [Hr _]. apply in_app_or in Ht. destruct Ht as [Ht|[E|[]]]; [auto|subst; auto]. }
      destruct (IH _ _ _ _ _ I' ET) as (J & Len & _). rewrite <- app_assoc in J. simpl in J.
      split; [exact J|]. pose proof (length_remove_c _ _ Hin). split; [lia|]. intros; lia.
    + subst q. inversion H; subst. rewrite app_nil_r. split; [exact I|]. split; [lia|]. intros _ N. congruence.
Qed.

Lemma has_high_nonempty : forall q, has_high q = true -> q <> [].
Proof. intros q H E. subst. discriminate. Qed.

Lemma loop_spec : forall fuel lim q0 q taken takes left, linv q0 q taken -> length q < fuel ->
  loop fuel lim q taken = (takes, left) ->
  linv q0 left takes /\ loop_cond lim left takes = false.
Proof.
  induction fuel as [|k IH]; intros lim q0 q taken takes left I Hf H; [lia|]. simpl in H.
  destruct (loop_cond lim q taken) eqn:C; [|inversion H; subst; auto].
  destruct (take (if lim =? 0 then 1 else lim) q) as [t q'] eqn:ET.
  destruct (take_spec _ _ _ _ _ _ I ET) as (I' & _ & Dec).
  assert (NE : q <> []).
  { unfold loop_cond in C. apply orb_true_iff in C. destruct C as [C|C]; [|now apply has_high_nonempty].
    apply andb_true_iff in C. destruct C as [_ C]. destruct q; [discriminate|congruence]. }
  assert (N1 : 1 <= (if lim =? 0 then 1 else lim)) by (destruct (Nat.eqb_spec lim 0); lia).
  specialize (Dec N1 NE). eapply IH; [exact I'| lia | exact H].
Qed.

(* MAIN: the rounds the loop produces are legal rounds of the model, for every limit and every duplicate-free builder *)
Theorem build_with_limit_legal : forall lim q takes left, NoDup q -> build_with_limit lim q = (takes, left) ->
  round_ok pr q takes = true
  /\ quota_ok (Some lim) f pr q takes = true
  /\ NoDup takes /\ (forall c, In c q <-> In c takes \/ In c left) /\ (forall c, In c takes -> ~ In c left)
  /\ (forall r, In r left -> pr r < high_pri /\ forall t, In t takes -> pr r <= pr t)
  /\ (left = [] \/ lim <= counted f pr takes).
Proof.
  intros lim q takes left ND H. unfold build_with_limit in H.
  assert (I0 : linv q q []).
  { constructor; [constructor | exact ND | intros c [] | intros c; simpl; tauto | intros r t _ []]. }
  destruct (loop_spec _ _ _ _ _ _ _ I0 (Nat.lt_succ_diag_r _) H) as ([I1 I2 I3 I4 I5] & C).
  unfold loop_cond in C. apply orb_false_iff in C. destruct C as [C1 C2].
  assert (Hlow : forall r, In r left -> pr r < high_pri).
  { intros r Hr. unfold has_high in C2. destruct (Nat.ltb_spec (pr r) high_pri); auto.
    exfalso. assert (existsb (fun c => high_pri <=? pr c) left = true); [|congruence].
    apply existsb_exists. exists r. split; auto. now apply Nat.leb_le. }
  assert (Hq : left = [] \/ lim <= counted f pr takes).
  { apply andb_false_iff in C1. destruct C1 as [C1|C1]; [right; now apply Nat.ltb_ge in C1|left].
    destruct left; [reflexivity|discriminate]. }
  split; [|split; [|repeat split; auto]].
  - unfold round_ok. rewrite (nodupb_of_NoDup _ I1). simpl.
    assert (A : forallb (fun t => memb t q) takes = true).
    { apply forallb_forall. intros t Ht. apply memb_In. apply I4. now left. }
    rewrite A. simpl. apply forallb_forall. intros r Hr. apply I4 in Hr. destruct Hr as [Hr|Hr].
    + apply memb_In in Hr. now rewrite Hr.
    + apply orb_true_iff. right. apply andb_true_iff. split; [apply Nat.ltb_lt; auto|].
      apply forallb_forall. intros t Ht. apply Nat.leb_le. auto.
  - unfold quota_ok. destruct Hq as [E|L].
    + subst left. apply orb_true_iff. left. apply forallb_forall. intros r Hr. apply memb_In. apply I4 in Hr. destruct Hr as [Hr|[]]. exact Hr.
    + apply orb_true_iff. right. now apply Nat.leb_le.
  - apply I4.
  - apply I4.
Qed.
End Loop.

(* ---- a concrete heap pop: the first element of maximal priority *)
Fixpoint max_of (pr : caller -> nat) (c : caller) (q : list caller) : caller :=
  match q with [] => c | d :: r => max_of pr (if Nat.ltb (pr c) (pr d) then d else c) r end.
Definition pop_max (pr : caller -> nat) (q : list caller) : option (caller * list caller) :=
  match q with [] => None | c :: r => let m := max_of pr c r in Some (m, remove_c m q) end.

Lemma max_of_spec : forall pr q c, In (max_of pr c q) (c :: q) /\ (forall r, In r (c :: q) -> pr r <= pr (max_of pr c q)).
Proof.
  intros pr. induction q as [|d r IH]; intros c; simpl.
  - split; auto. intros x [E|[]]. subst. lia.
  - destruct (IH (if pr c <? pr d then d else c)) as [A B]. split.
    + destruct A as [A|A]; [|auto]. destruct (pr c <? pr d); rewrite <- A; auto.
    + intros x Hx. destruct (Nat.ltb_spec (pr c) (pr d)) as [L|L].
      * destruct Hx as [E|[E|Hx]]; [subst x; specialize (B d (or_introl eq_refl)); lia | subst x; apply B; now left | apply B; now right].
      * destruct Hx as [E|[E|Hx]]; [subst x; apply B; now left | subst x; specialize (B c (or_introl eq_refl)); lia | apply B; now right].
Qed.

Lemma pop_max_spec : forall pr q,
  match pop_max pr q with
  | None => q = []
  | Some (c, q') => In c q /\ q' = remove_c c q /\ (forall r, In r q -> pr r <= pr c)
  end.
Proof.
  intros pr q. destruct q as [|c r]; [reflexivity|]. unfold pop_max. destruct (max_of_spec pr r c) as [A B]. auto.
Qed.

(* the round the loop computes is an ENABLED builder round of the layer: with a live, ready send loop and a well-formed
   builder (duplicate-free, every entry queued), XBuildRound (Some lim) takes is a step, and it leaves exactly `left` *)
Lemma build_loop_is_round : forall x lim takes left, sendloop x = true -> ready x = true -> NoDup (inb x) ->
  (forall c, In c (inb x) -> e_st (ent (core x) c) = Queued) ->
  build_with_limit (pri x) (ent (core x)) (pop_max (pri x)) lim (inb x) = (takes, left) ->
  exists x', xstep x (XBuildRound (Some lim) takes) = Some x'
    /\ (forall c, In c (inb x') <-> In c left)
    /\ (left = [] \/ lim <= counted (ent (core x)) (pri x) takes).
Proof.
  intros x lim takes left HS HR ND HQ HB.
  destruct (build_with_limit_legal (pri x) (ent (core x)) (pop_max (pri x)) (pop_max_spec (pri x)) lim (inb x) takes left ND HB)
    as (RO & QO & NDt & All & Disj & _ & Quota).
  destruct (build_labels_succeeds takes (ent (core x)) (next_id (core x)) (core x) NDt eq_refl) as [s' Hr].
  { intros c Hc. split; auto. apply HQ. apply All. now left. }
  eexists. split; [|split; [|exact Quota]].
  - unfold xstep, round_guard. rewrite HS, HR, RO, QO. simpl. rewrite Hr. reflexivity.
  - intros c. cbn [inb]. rewrite filter_In. split.
    + intros [Hin Hn]. apply All in Hin. destruct Hin as [Hin|Hin]; auto. apply memb_In in Hin. rewrite Hin in Hn. discriminate.
    + intros Hl. split; [apply All; now right|]. destruct (memb c takes) eqn:M; auto. apply memb_In in M. exfalso. exact (Disj _ M Hl).
Qed.
