(* C18 — run loop: every appended callback runs exactly once, in order; collapse: a follower's result is the shared
   flight's result or its own cancellation *)
From Coq Require Import List Arith Bool Lia.
Import ListNotations.
From Verif Require Import BatchRPC.Model BatchRPC.RunLoop.

(* ---------------------------------------------------------------- RunLoop *)
Lemma runloop_fifo_once : forall st, rreach st ->
  r_done st ++ r_running st ++ r_runnable st = r_log st
  /\ (r_running st = [] -> r_runnable st = [] -> r_done st = r_log st)
  /\ (NoDup (r_log st) -> NoDup (r_done st ++ r_running st ++ r_runnable st))
  /\ (exists rest, r_log st = r_done st ++ rest).
Proof.
  intros st R. pose proof (rreach_inv st R) as I. split; auto. split; [|split].
  - intros E1 E2. rewrite E1, E2 in I. now rewrite !app_nil_r in I.
  - intros ND. now rewrite I.
  - exists (r_running st ++ r_runnable st). auto.
Qed.

(* the start of a round hands the WHOLE runnable list to the round and leaves an EMPTY runnable list: what is appended
   during the round can neither overwrite nor duplicate a callback of the round *)
Lemma runloop_round_start : forall st st', rstep st RStart = Some st' ->
  r_running st' = r_runnable st /\ r_runnable st' = [] /\ r_done st' = r_done st.
Proof.
  intros st st' H. simpl in H. destruct (r_running st); try discriminate. destruct (r_runnable st); try discriminate.
  inversion H; subst; auto.
Qed.

(* ---------------------------------------------------------------- reqCollapse *)
Lemma updo_same : forall (A : Type) (f : nat -> A) k v, updo f k v k = v.
Proof. intros; unfold updo; now rewrite Nat.eqb_refl. Qed.
Lemma updo_other : forall (A : Type) (f : nat -> A) k v k', k' <> k -> updo f k v k' = f k'.
Proof. intros A f k v k' H; unfold updo. destruct (Nat.eqb_spec k' k); congruence. Qed.

Record CInv (s : cstate) : Prop := {
  CI_wait : forall c f, c_call s c = CWait f -> c_joined s c = Some f;
  CI_joined : forall c f, c_joined s c = Some f -> f < c_nfl s /\ c_fkey s f = c_key s c;
  CI_resp : forall f p, f < c_nfl s -> c_fres s f = Some (Resp p) -> p = c_fkey s f;
  CI_ret : forall c r, c_call s c = CRet r ->
             (r = Err ECtx \/ r = Err ETimeout) \/ exists f, c_joined s c = Some f /\ c_fres s f = Some r;
  CI_cur : forall k f, c_cur s k = Some f -> f < c_nfl s /\ c_fkey s f = k;
  CI_idle : forall c, c_call s c = CIdle -> c_joined s c = None
}.

Lemma cinv_init : CInv cinit.
Proof. constructor; simpl; intros; try discriminate; auto. Qed.

Lemma cstep_inv : forall s l s', CInv s -> cstep s l = Some s' -> CInv s'.
Proof.
  intros s l s' I H. destruct I as [I1 I2 I3 I4 I5 I6]. destruct l; simpl in H.
  - destruct (c_call s c) eqn:EC; try discriminate. destruct (c_cur s k) as [f|] eqn:EK; inversion H; subst; clear H.
    + destruct (I5 _ _ EK) as [A B].
      constructor; simpl.
      * intros c0 f0 H. destruct (Nat.eq_dec c0 c); [subst; rewrite updo_same in *; congruence | rewrite updo_other in * by auto; auto].
      * intros c0 f0 H. destruct (Nat.eq_dec c0 c); [subst; rewrite updo_same in *; inversion H; subst; auto | rewrite updo_other in * by auto; auto].
      * auto.
      * intros c0 r H. destruct (Nat.eq_dec c0 c); [subst; rewrite updo_same in H; discriminate | rewrite updo_other in * by auto; auto].
      * auto.
      * intros c0 H. destruct (Nat.eq_dec c0 c); [subst; rewrite updo_same in H; discriminate | rewrite updo_other in * by auto; auto].
    + constructor; simpl.
      * intros c0 f0 H. destruct (Nat.eq_dec c0 c); [subst; rewrite updo_same in *; congruence | rewrite updo_other in * by auto; auto].
      * intros c0 f0 H. destruct (Nat.eq_dec c0 c).
        -- subst. rewrite updo_same in *. inversion H; subst. rewrite updo_same. split; auto.
        -- rewrite updo_other in H by auto. destruct (I2 _ _ H) as [A B]. split; [lia|].
           rewrite updo_other by lia. rewrite updo_other by auto. auto.
      * intros f p Hf H. destruct (Nat.eq_dec f (c_nfl s)); [subst; rewrite updo_same in H; discriminate|].
        rewrite updo_other in * by auto. apply I3; auto. lia.
      * intros c0 r H. destruct (Nat.eq_dec c0 c); [subst; rewrite updo_same in H; discriminate|].
        rewrite updo_other in * by auto. destruct (I4 _ _ H) as [A|[f [A B]]]; auto. right. exists f. split; auto.
        destruct (I2 _ _ A) as [C _]. rewrite updo_other by lia. auto.
      * intros k0 f H. destruct (Nat.eq_dec k0 k).
        -- subst. rewrite updo_same in H. inversion H; subst. rewrite updo_same. split; auto.
        -- rewrite updo_other in H by auto. destruct (I5 _ _ H) as [A B]. split; [lia|]. rewrite updo_other by lia. auto.
      * intros c0 H. destruct (Nat.eq_dec c0 c); [subst; rewrite updo_same in H; discriminate | rewrite updo_other in * by auto; auto].
  - destruct (Nat.ltb f (c_nfl s) && match c_fres s f with None => true | Some _ => false end
              && match r with Resp p => Nat.eqb p (c_fkey s f) | Err _ => true end) eqn:G; [|discriminate].
    inversion H; subst; clear H. apply andb_prop in G. destruct G as [G G3]. apply andb_prop in G. destruct G as [G1 G2].
    apply Nat.ltb_lt in G1. destruct (c_fres s f) eqn:EF; [discriminate|].
    constructor; simpl; auto.
    + intros f0 p Hf H. destruct (Nat.eq_dec f0 f).
      * subst. rewrite updo_same in H. inversion H; subst. now apply Nat.eqb_eq in G3.
      * rewrite updo_other in H by auto. auto.
    + intros c0 r0 H. destruct (I4 _ _ H) as [A|[f0 [A B]]]; auto. right. exists f0. split; auto.
      destruct (Nat.eq_dec f0 f); [subst; congruence | rewrite updo_other by auto; auto].
    + intros k f0 H. apply I5.
      destruct (c_cur s (c_fkey s f)) as [f'|] eqn:EK; auto. destruct (Nat.eqb f' f); auto.
      destruct (Nat.eq_dec k (c_fkey s f)); [subst; rewrite updo_same in H; discriminate | rewrite updo_other in H by auto; auto].
  - destruct (c_call s c) eqn:EC; try discriminate. destruct (c_fres s f) eqn:EF; try discriminate. inversion H; subst; clear H.
    constructor; simpl; auto.
    + intros c0 f0 H. destruct (Nat.eq_dec c0 c); [subst; rewrite updo_same in H; discriminate | rewrite updo_other in H by auto; auto].
    + intros c0 r0 H. destruct (Nat.eq_dec c0 c).
      * subst. rewrite updo_same in H. inversion H; subst. right. exists f. split; auto.
      * rewrite updo_other in H by auto. auto.
    + intros c0 H. destruct (Nat.eq_dec c0 c); [subst; rewrite updo_same in H; discriminate | rewrite updo_other in H by auto; auto].
  - destruct (c_call s c) eqn:EC; try discriminate.
    assert (Hs : (e = ECtx \/ e = ETimeout) /\ s' = mkC (c_nfl s) (c_fkey s) (c_fres s) (c_cur s) (updo (c_call s) c (CRet (Err e))) (c_key s) (c_joined s)).
    { destruct e; try discriminate; inversion H; subst; auto. }
    destruct Hs as [He ->]. clear H.
    constructor; simpl; auto.
    + intros c0 f0 H. destruct (Nat.eq_dec c0 c); [subst; rewrite updo_same in H; discriminate | rewrite updo_other in H by auto; auto].
    + intros c0 r0 H. destruct (Nat.eq_dec c0 c).
      * subst. rewrite updo_same in H. inversion H; subst. left. destruct He; subst; auto.
      * rewrite updo_other in H by auto. auto.
    + intros c0 H. destruct (Nat.eq_dec c0 c); [subst; rewrite updo_same in H; discriminate | rewrite updo_other in H by auto; auto].
Qed.

Lemma creach_inv : forall s, creach s -> CInv s.
Proof.
  intros s [ls H]. revert s H.
  assert (G : forall ls0 s0 s, CInv s0 -> crun s0 ls0 = Some s -> CInv s).
  { induction ls0 as [|l r IH]; simpl; intros s0 s I H; [inversion H; subst; auto|].
    destruct (cstep s0 l) eqn:E; [|discriminate]. eapply IH; [eapply cstep_inv; eauto | eauto]. }
  intros s H. eapply G; [apply cinv_init | exact H].
Qed.

Lemma collapse_follower_result : forall s c r, creach s -> c_call s c = CRet r ->
  (r = Err ECtx \/ r = Err ETimeout)
  \/ exists f, c_joined s c = Some f /\ c_fkey s f = c_key s c /\ c_fres s f = Some r /\ (forall p, r = Resp p -> p = c_key s c).
Proof.
  intros s c r R H. destruct (creach_inv s R) as [I1 I2 I3 I4 I5 I6].
  destruct (I4 _ _ H) as [A|[f [A B]]]; auto. right. exists f. destruct (I2 _ _ A) as [C D].
  repeat split; auto. intros p E. subst. rewrite <- D. eapply I3; eauto.
Qed.

(* a caller's cancellation / time-out touches neither the flight nor any other caller *)
Lemma collapse_abort_frame : forall s c e s', cstep s (CAbort c e) = Some s' ->
  c_fres s' = c_fres s /\ c_cur s' = c_cur s /\ c_nfl s' = c_nfl s /\ c_fkey s' = c_fkey s
  /\ (forall c', c' <> c -> c_call s' c' = c_call s c') /\ c_call s' c = CRet (Err e) /\ (e = ECtx \/ e = ETimeout).
Proof.
  intros s c e s' H. simpl in H. destruct (c_call s c); try discriminate.
  destruct e; try discriminate; inversion H; subst; simpl; repeat split; auto; try (intros; now apply updo_other); apply updo_same.
Qed.

(* ... and once the shared request has returned, every caller still waiting on it can take its result *)
Lemma collapse_deliver_enabled : forall s c f r, c_call s c = CWait f -> c_fres s f = Some r ->
  exists s', cstep s (CDeliver c) = Some s' /\ c_call s' c = CRet r.
Proof. intros s c f r H1 H2. simpl. rewrite H1, H2. eexists; split; [reflexivity|]. simpl. apply updo_same. Qed.

(* ---------------------------------------------------------------- the collapse key *)
Lemma collapse_same_flight_same_key : forall s c1 c2 f, creach s ->
  c_joined s c1 = Some f -> c_joined s c2 = Some f -> c_key s c1 = c_key s c2.
Proof.
  intros s c1 c2 f R H1 H2. destruct (creach_inv s R) as [_ I2 _ _ _ _].
  destruct (I2 _ _ H1) as [_ A]. destruct (I2 _ _ H2) as [_ B]. congruence.
Qed.

(* requests that share a flight are equal commands: two DIFFERENT callers whose requests enter the single-flight group
   under the same key are both plain full-region ResolveLock requests (no keys, no txn infos) of the same region, start
   version and async flag -- equal in every component but the commit version, and equal outright when the commit version
   is a function of the transaction (a transaction has one commit ts) *)
Lemma collapse_key_equal_commands : forall (kenc : nat * nat * bool -> nat),
  (forall a b, kenc a = kenc b -> a = b) ->
  forall r1 r2 c1 c2, c1 <> c2 -> flight_key kenc r1 c1 = flight_key kenc r2 c2 ->
  rc_keys r1 = [] /\ rc_txninfos r1 = [] /\ rc_keys r2 = [] /\ rc_txninfos r2 = []
  /\ rc_region r1 = rc_region r2 /\ rc_start r1 = rc_start r2 /\ rc_isasync r1 = rc_isasync r2
  /\ (rc_commit r1 = rc_commit r2 -> r1 = r2).
Proof.
  intros kenc Hinj r1 r2 c1 c2 Hne H. unfold flight_key in H.
  destruct (collapsible r1) eqn:E1; destruct (collapsible r2) eqn:E2; try lia.
  unfold collapsible in E1, E2.
  destruct (rc_keys r1) eqn:K1; try discriminate. destruct (rc_txninfos r1) eqn:T1; try discriminate.
  destruct (rc_keys r2) eqn:K2; try discriminate. destruct (rc_txninfos r2) eqn:T2; try discriminate.
  assert (Hk : collapse_key r1 = collapse_key r2) by (apply Hinj; lia).
  unfold collapse_key in Hk. inversion Hk as [[A B C]].
  repeat split; auto. intros HC. destruct r1, r2; simpl in *. congruence.
Qed.

(* a request that may not be collapsed never shares a flight: its key is its caller's own *)
Lemma not_collapsible_private : forall kenc r1 r2 c1 c2, collapsible r1 = false -> c1 <> c2 ->
  flight_key kenc r1 c1 <> flight_key kenc r2 c2.
Proof.
  intros kenc r1 r2 c1 c2 E1 Hne H. unfold flight_key in H. rewrite E1 in H. destruct (collapsible r2); lia.
Qed.

Lemma collapse_key_full :
  (forall s c1 c2 f, creach s -> c_joined s c1 = Some f -> c_joined s c2 = Some f -> c_key s c1 = c_key s c2)
  /\ (forall (kenc : nat * nat * bool -> nat), (forall a b, kenc a = kenc b -> a = b) ->
        forall r1 r2 c1 c2, c1 <> c2 -> flight_key kenc r1 c1 = flight_key kenc r2 c2 ->
        rc_keys r1 = [] /\ rc_txninfos r1 = [] /\ rc_keys r2 = [] /\ rc_txninfos r2 = []
        /\ rc_region r1 = rc_region r2 /\ rc_start r1 = rc_start r2 /\ rc_isasync r1 = rc_isasync r2
        /\ (rc_commit r1 = rc_commit r2 -> r1 = r2))
  /\ (forall kenc r1 r2 c1 c2, collapsible r1 = false -> c1 <> c2 -> flight_key kenc r1 c1 <> flight_key kenc r2 c2).
Proof. split; [exact collapse_same_flight_same_key|]. split; [exact collapse_key_equal_commands | exact not_collapsible_private]. Qed.
