(* C18 — batched RPC multiplexing: executable transition system of the in-flight table of ONE
   batchCommandsClient (one gRPC connection; its direct stream and its forwarded-host streams share
   the table `batched`), the id source of the batchCommandsBuilder and the per-call completion
   channel, as in /repo/internal/client/client_batch.go.  Every label is one atomic step; the
   granularity follows the code:

     Submit        sendBatchRequest: entry created and put on batchCommandsCh
     Build         batchCommandsBuilder.buildWithLimit: idAlloc++ for a non-canceled entry
                   (abstracted to "some strictly larger id": ids burnt on entries that are failed
                   before being sent need no event)
     DropCanceled  buildWithLimit / PriorityQueue.clean skipping a canceled entry
     NoConn        batchCommandsBuilder.cancel ("no available connections")
     InitFail      batchCommandsClient.send when initBatchClient fails
     Store         send: batched.Store(id, entry) (creates the stream + its batchRecvLoop if absent,
                   the loop copies the current epoch)
     FailSent      send: client.Send failed -> failRequestsByIDs
     RecvLoad      batchRecvLoop: batched.Load(id) (unknown id = outdated response)
     RecvFinish    batchRecvLoop: deliver unless canceled; batched.Delete
     StreamFail    batchRecvLoop: Recv failed -> recreateStreamingClient (epoch CAS; winner and loser both
                   call failPendingRequests(forwardedHost)); loop exits if the client is closed
     Abort         sendBatchRequest's select: ctx.Done / timer / batchConn.closed -> canceled := 1
     Return        sendBatchRequest's select: value or close observed on entry.res
     Close         batchConn.Close / client closed
     RecvPanic / FailPanic / CloseFail   see the comments at the steps
     Restart       batchSendLoop recovered a panic and restarted itself: the batchConn keeps its
                   reqBuilder (idAlloc and the entries already fetched), nothing else changes      *)
From Coq Require Import List Arith Bool.
Import ListNotations.

Definition id := nat.
Definition caller := nat.
Definition host := nat. (* 0 = not forwarded *)

Inductive errk := EStream | ESend | EInit | ENoConn | ECtx | ETimeout | EClosed | EIdle.
Inductive result := Resp (p : nat) | Err (e : errk).

Inductive est := Fresh | Queued | Built (i : id) | Stored (i : id) | Retired.

Record entry := mkEntry {
  e_host : host;
  e_st : est;
  e_comp : list result;   (* completion events on entry.res (value sent / channel closed), oldest first *)
  e_canceled : bool;
  e_ret : option result   (* what sendBatchRequest returned *)
}.

Inductive lstate := LNone | LIdle (ep : nat) | LLoaded (ep : nat) (i : id) (c : caller) (p : nat) | LStopped.

Record state := mkState {
  next_id : id;                    (* batchCommandsBuilder.idAlloc *)
  tab : list (id * caller);        (* batchCommandsClient.batched *)
  ent : caller -> entry;
  loops : host -> lstate;          (* one batchRecvLoop per stream *)
  epoch : nat;                     (* batchCommandsClient.epoch *)
  closed : bool;
  outdated : nat;                  (* responses for ids not in the table *)
  alloc : list (id * caller)       (* ghost: every allocation ever made, newest first *)
}.

Inductive label :=
| Submit (c : caller) (h : host)
| Build (c : caller) (i : id)
| DropCanceled (c : caller)
| NoConn (c : caller)
| InitFail (c : caller)
| Store (c : caller)
| FailSent (c : caller)
| RecvLoad (h : host) (i : id) (p : nat)
| RecvFinish (h : host)
| StreamFail (h : host)
| Abort (c : caller) (k : errk)
| Return (c : caller)
| Close
| Restart
| RecvPanic (h : host)
| FailPanic (h : host)
| CloseFail (c : caller)
| QueueFail (c : caller)
| IdleFail (c : caller).

Definition entry0 : entry := mkEntry 0 Fresh [] false None.

Definition init : state := mkState 0 [] (fun _ => entry0) (fun _ => LNone) 0 false 0 [].

Definition upd (f : caller -> entry) (c : caller) (e : entry) : caller -> entry :=
  fun c' => if Nat.eqb c' c then e else f c'.

Definition updl (f : host -> lstate) (h : host) (l : lstate) : host -> lstate :=
  fun h' => if Nat.eqb h' h then l else f h'.

Definition set_st (e : entry) (s : est) : entry :=
  mkEntry (e_host e) s (e_comp e) (e_canceled e) (e_ret e).

(* entry.response / entry.error: one more completion event on the channel; the entry leaves the system *)
Definition complete (e : entry) (r : result) : entry :=
  mkEntry (e_host e) Retired (e_comp e ++ [r]) (e_canceled e) (e_ret e).

Definition retire (e : entry) : entry := set_st e Retired.

Fixpoint lookup (i : id) (t : list (id * caller)) : option caller :=
  match t with
  | [] => None
  | (j, c) :: r => if Nat.eqb j i then Some c else lookup i r
  end.

Definition remove_id (i : id) (t : list (id * caller)) : list (id * caller) :=
  filter (fun x => negb (Nat.eqb (fst x) i)) t.

(* failPendingRequests(err, forwardedHost): Range over the table, failRequest on every entry of that host *)
Fixpoint fail_pending (h : host) (t : list (id * caller)) (f : caller -> entry)
  : list (id * caller) * (caller -> entry) :=
  match t with
  | [] => ([], f)
  | (i, c) :: r =>
      if Nat.eqb (e_host (f c)) h
      then fail_pending h r (upd f c (complete (f c) (Err EStream)))
      else let '(t', f') := fail_pending h r f in ((i, c) :: t', f')
  end.

Definition is_abort_kind (k : errk) : bool :=
  match k with ECtx | ETimeout | EClosed => true | _ => false end.

Definition loaded_on (l : lstate) (i : id) : bool :=
  match l with LLoaded _ j _ _ => Nat.eqb j i | _ => false end.

Definition with_ent (s : state) (f : caller -> entry) : state :=
  mkState (next_id s) (tab s) f (loops s) (epoch s) (closed s) (outdated s) (alloc s).

Definition step (s : state) (l : label) : option state :=
  match l with
  | Submit c h =>
      match e_st (ent s c) with
      | Fresh => Some (with_ent s (upd (ent s) c (mkEntry h Queued [] false None)))
      | _ => None
      end
  | Build c i =>
      match e_st (ent s c) with
      | Queued =>
          if negb (e_canceled (ent s c)) && Nat.ltb (next_id s) i
          then Some (mkState i (tab s) (upd (ent s) c (set_st (ent s c) (Built i))) (loops s) (epoch s)
                             (closed s) (outdated s) ((i, c) :: alloc s))
          else None
      | _ => None
      end
  | DropCanceled c =>
      match e_st (ent s c) with
      | Queued => if e_canceled (ent s c) then Some (with_ent s (upd (ent s) c (retire (ent s c)))) else None
      | _ => None
      end
  | NoConn c =>
      match e_st (ent s c) with
      | Queued => Some (with_ent s (upd (ent s) c (complete (ent s c) (Err ENoConn))))
      | _ => None
      end
  | InitFail c =>
      match e_st (ent s c) with
      | Queued => if e_canceled (ent s c) then None
                  else Some (with_ent s (upd (ent s) c (complete (ent s c) (Err EInit))))
      | Built _ => Some (with_ent s (upd (ent s) c (complete (ent s c) (Err EInit))))
      | _ => None
      end
  | Store c =>
      match e_st (ent s c) with
      | Built i =>
          let h := e_host (ent s c) in
          let lp := match loops s h with LNone => updl (loops s) h (LIdle (epoch s)) | _ => loops s end in
          Some (mkState (next_id s) ((i, c) :: tab s) (upd (ent s) c (set_st (ent s c) (Stored i))) lp
                        (epoch s) (closed s) (outdated s) (alloc s))
      | _ => None
      end
  | FailSent c =>
      match e_st (ent s c) with
      | Stored i =>
          if loaded_on (loops s (e_host (ent s c))) i then None
          else Some (mkState (next_id s) (remove_id i (tab s)) (upd (ent s) c (complete (ent s c) (Err ESend)))
                             (loops s) (epoch s) (closed s) (outdated s) (alloc s))
      | _ => None
      end
  | RecvLoad h i p =>
      match loops s h with
      | LIdle ep =>
          match lookup i (tab s) with
          | None => Some (mkState (next_id s) (tab s) (ent s) (loops s) (epoch s) (closed s) (S (outdated s)) (alloc s))
          | Some c =>
              (* environment: a response for an id travels on the stream the id was sent on, and the
                 echoing server answers id with the payload it received under id *)
              if Nat.eqb (e_host (ent s c)) h
                 && match lookup i (alloc s) with Some c' => Nat.eqb p c' | None => true end
              then Some (mkState (next_id s) (tab s) (ent s) (updl (loops s) h (LLoaded ep i c p)) (epoch s)
                                 (closed s) (outdated s) (alloc s))
              else None
          end
      | _ => None
      end
  | RecvFinish h =>
      match loops s h with
      | LLoaded ep i c p =>
          let e := ent s c in
          let e' := if e_canceled e then retire e else complete e (Resp p) in
          Some (mkState (next_id s) (remove_id i (tab s)) (upd (ent s) c e') (updl (loops s) h (LIdle ep))
                        (epoch s) (closed s) (outdated s) (alloc s))
      | _ => None
      end
  | StreamFail h =>
      match loops s h with
      | LIdle ep =>
          if closed s then
            Some (mkState (next_id s) (tab s) (ent s) (updl (loops s) h LStopped) (epoch s) (closed s) (outdated s) (alloc s))
          else
            (* both branches of the epoch CAS call failPendingRequests(forwardedHost) (since fix a827fda); only the
               winner bumps the epoch (and waits for the connection), the loser refreshes its copy *)
            let '(t', f') := fail_pending h (tab s) (ent s) in
            if Nat.eqb ep (epoch s) then
              Some (mkState (next_id s) t' f' (updl (loops s) h (LIdle (S ep))) (S (epoch s)) (closed s) (outdated s) (alloc s))
            else
              Some (mkState (next_id s) t' f' (updl (loops s) h (LIdle (epoch s))) (epoch s) (closed s) (outdated s) (alloc s))
      | _ => None
      end
  | Abort c k =>
      match e_st (ent s c), e_ret (ent s c) with
      | Fresh, _ => None
      | _, Some _ => None
      | _, None =>
          if is_abort_kind k && (match k with EClosed => closed s | _ => true end)
          then let e := ent s c in
               Some (with_ent s (upd (ent s) c (mkEntry (e_host e) (e_st e) (e_comp e) true (Some (Err k)))))
          else None
      end
  | Return c =>
      match e_ret (ent s c), e_comp (ent s c) with
      | None, r :: _ =>
          let e := ent s c in
          Some (with_ent s (upd (ent s) c (mkEntry (e_host e) (e_st e) (e_comp e) (e_canceled e) (Some r))))
      | _, _ => None
      end
  | Close =>
      Some (mkState (next_id s) (tab s) (ent s) (loops s) (epoch s) true (outdated s) (alloc s))
  | Restart => Some s
  | RecvPanic h =>
      (* batchRecvLoop panicked (idle, or between Load and deliver -- e.g. a response batch with more ids than
         responses); its deferred recover restarts it on the same stream; the new loop copies the current epoch.
         Nothing is completed and nothing leaves the table. *)
      match loops s h with
      | LIdle _ | LLoaded _ _ _ _ =>
          Some (mkState (next_id s) (tab s) (ent s) (updl (loops s) h (LIdle (epoch s))) (epoch s) (closed s) (outdated s) (alloc s))
      | _ => None
      end
  | FailPanic h =>
      (* panic at the start of failPendingRequests (failpoint panicInFailPendingRequests) inside
         recreateStreamingClient: the epoch CAS has been decided, nothing was failed, the lock is released by the
         deferred unlock, the loop restarts on the still broken stream *)
      match loops s h with
      | LIdle ep =>
          if closed s then None
          else let e' := if Nat.eqb ep (epoch s) then S (epoch s) else epoch s in
               Some (mkState (next_id s) (tab s) (ent s) (updl (loops s) h (LIdle e')) e' (closed s) (outdated s) (alloc s))
      | _ => None
      end
  | CloseFail c =>
      (* failAsyncRequestsOnClose: a recv loop that exits because the client is closed fails an (async) entry *)
      match e_st (ent s c) with
      | Stored i =>
          if closed s && negb (loaded_on (loops s (e_host (ent s c))) i)
          then Some (mkState (next_id s) (remove_id i (tab s)) (upd (ent s) c (complete (ent s c) (Err EClosed)))
                             (loops s) (epoch s) (closed s) (outdated s) (alloc s))
          else None
      | _ => None
      end
  | QueueFail c =>
      (* fix 000f10e: an entry that is still queued when the client is closed is failed with "batchConn closed" (by the
         async sender's re-check of batchConn.closed after enqueueing, or by failQueuedAsyncRequestsOnClose when
         batchSendLoop returns) *)
      match e_st (ent s c) with
      | Queued => if closed s then Some (with_ent s (upd (ent s) c (complete (ent s c) (Err EClosed)))) else None
      | _ => None
      end
  | IdleFail c =>
      (* fix e17a7fd: an entry that is still queued when the batchConn has become idle (the send loop returned on its idle
         timer and never comes back) is failed with "rpcClient is idle" -- by the drain at the loop's exit or by the async
         sender's re-check of isIdle after enqueueing *)
      match e_st (ent s c) with
      | Queued => Some (with_ent s (upd (ent s) c (complete (ent s c) (Err EIdle))))
      | _ => None
      end
  end.

(* regression witness only: the CAS-losing branch as it was BEFORE fix a827fda (stream re-created, epoch copy
   refreshed, failPendingRequests not called) *)
Definition streamfail_prefix_loser (s : state) (h : host) : option state :=
  match loops s h with
  | LIdle ep =>
      if closed s then None
      else if Nat.eqb ep (epoch s) then None
      else Some (mkState (next_id s) (tab s) (ent s) (updl (loops s) h (LIdle (epoch s))) (epoch s) (closed s) (outdated s) (alloc s))
  | _ => None
  end.

Fixpoint run (s : state) (ls : list label) : option state :=
  match ls with
  | [] => Some s
  | l :: r => match step s l with Some s' => run s' r | None => None end
  end.

Definition reachable (s : state) : Prop := exists ls, run init ls = Some s.

(* ---- monitor predicates used by the exploration harness (extracted) ---- *)
(* what the harness observed for one call: its payload, and what SendRequest returned *)
Definition obs_identity (payload : nat) (r : result) : bool :=
  match r with Resp p => Nat.eqb p payload | Err _ => true end.

(* number of RET events seen for a caller must be exactly one; `late` = returned later than 20x its time-out *)
Definition obs_once (returns : nat) : bool := Nat.eqb returns 1.
Definition obs_ok (payload : nat) (r : result) (returns : nat) (late : bool) : bool :=
  obs_identity payload r && obs_once returns && negb late.

(* table oracle evaluated after a StreamFail step: no entry of that host left in flight *)
Definition no_pending_of (h : host) (s : state) : bool :=
  forallb (fun x => negb (Nat.eqb (e_host (ent s (snd x))) h)) (tab s).

Definition ids_of (s : state) : list id := map fst (tab s).

(* the epoch copy held by a recv loop *)
Definition loop_ep (l : lstate) : option nat :=
  match l with LIdle ep => Some ep | LLoaded ep _ _ _ => Some ep | _ => None end.
