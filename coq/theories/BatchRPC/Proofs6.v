(* C18 — an error is the call's own: context / time-out errors are produced by the caller itself and by nobody else *)
From Coq Require Import List Arith Bool Lia Sorted.
Import ListNotations.
From Verif Require Import BatchRPC.Model BatchRPC.Proofs BatchRPC.Proofs2 BatchRPC.Proofs3 BatchRPC.Proofs4 BatchRPC.Proofs5.

Definition comp_clean (e : entry) : Prop := forall k, In (Err k) (e_comp e) -> own_only k = false.

Lemma etrans_comp_clean : forall e e', etrans e e' -> comp_clean e -> comp_clean e'.
Proof.
  intros e e' T C. destruct T; unfold comp_clean in *; simpl in *; intros k0 Hin; auto; try contradiction;
    apply in_app_or in Hin; destruct Hin as [Hin|[E|[]]]; auto; inversion E; subst; auto.
Qed.

Lemma reachable_comp_clean : forall s c, reachable s -> comp_clean (ent s c).
Proof.
  intros s c [ls H]. revert s H.
  assert (G : forall ls0 s0 s, Inv s0 -> comp_clean (ent s0 c) -> run s0 ls0 = Some s -> comp_clean (ent s c)).
  { induction ls0 as [|l r IH]; simpl; intros s0 s I C H; [inversion H; subst; auto|].
    destruct (step s0 l) as [s1|] eqn:E; [|discriminate].
    eapply IH; [eapply step_inv; eauto | | eauto].
    destruct (step_etrans _ _ _ I E c) as [Eq|T]; [now rewrite Eq | eapply etrans_comp_clean; eauto]. }
  intros s H. eapply G; [apply inv_init | | exact H]. intros k Hin. simpl in Hin. destruct Hin.
Qed.

(* the canceled flag of an entry is raised only by the transition of its own caller's abort *)
Lemma etrans_canceled_by_abort : forall e e', etrans e e' -> e_canceled e = false -> e_canceled e' = true ->
  exists k, e' = mkEntry (e_host e) (e_st e) (e_comp e) true (Some (Err k)) /\ e_ret e = None.
Proof.
  intros e e' T H0 H1. destruct T; simpl in *; try congruence. exists k. auto.
Qed.

Lemma own_error : forall s c, reachable s ->
  (forall k, In (Err k) (e_comp (ent s c)) -> own_only k = false)
  /\ (forall k, e_ret (ent s c) = Some (Err k) -> own_only k = true ->
        e_canceled (ent s c) = true /\ ~ In (Err k) (e_comp (ent s c)))
  /\ (forall l s', step s l = Some s' -> e_canceled (ent s c) = false -> e_canceled (ent s' c) = true ->
        exists k, ent s' c = mkEntry (e_host (ent s c)) (e_st (ent s c)) (e_comp (ent s c)) true (Some (Err k))
                  /\ e_ret (ent s c) = None).
Proof.
  intros s c R. pose proof (reachable_comp_clean s c R) as C. pose proof (reachable_inv s R) as I.
  split; [exact C|]. split.
  - intros k H Ho. destruct (I_good s I c) as (_ & _ & G3 & _).
    assert (Hn : ~ In (Err k) (e_comp (ent s c))) by (intros Hin; apply C in Hin; congruence).
    destruct (G3 _ H) as [Hin|(k0 & E & _ & Hc)]; [tauto | auto].
  - intros l s' H H0 H1. destruct (step_etrans _ _ _ I H c) as [Eq|T]; [rewrite Eq in H1; congruence|].
    eapply etrans_canceled_by_abort; eauto.
Qed.
