(* C18 — batched RPC multiplexing: theorems over ALL runs of the in-flight-table transition system
   (any number of callers / forwarded hosts, any interleaving of the atomic steps, any failure points).
   What the model cannot exhibit (gRPC, goroutine scheduling inside a step, timers) is explored on
   the implementation by checks/C18.py. *)
From Coq Require Import List Arith Bool Sorted.
Import ListNotations.
From Verif Require Import BatchRPC.Model BatchRPC.Proofs BatchRPC.Proofs2 BatchRPC.Proofs3 BatchRPC.Proofs4.

(* ids: allocation order is strictly increasing, every id is allocated exactly once (also across stream
   re-creation: no step lowers next_id), every id in the table was allocated to exactly that entry *)
Theorem C18_ids_fresh : forall s, reachable s ->
  StronglySorted newer (alloc s)
  /\ NoDup (map fst (alloc s))
  /\ (forall i c c', In (i, c) (alloc s) -> In (i, c') (alloc s) -> c = c')
  /\ (forall i c, In (i, c) (tab s) -> In (i, c) (alloc s))
  /\ NoDup (map fst (tab s))
  /\ (forall c i s', step s (Build c i) = Some s' ->
        (forall j c', In (j, c') (alloc s) -> j < i) /\ alloc s' = (i, c) :: alloc s).
Proof. exact ids_fresh. Qed.
Print Assumptions C18_ids_fresh.

(* a caller that returned a response returned the echo of its own request, which was put on its channel,
   under an id that was allocated to this caller and to nobody else *)
Theorem C18_own_response : forall s c p, reachable s -> e_ret (ent s c) = Some (Resp p) ->
  p = c /\ In (Resp c) (e_comp (ent s c))
  /\ exists i, In (i, c) (alloc s) /\ forall c', In (i, c') (alloc s) -> c' = c.
Proof. exact own_response. Qed.
Print Assumptions C18_own_response.

(* responses are dispatched by id: what a recv loop holds between Load and deliver is the entry
   registered under that id, on that loop's own stream *)
Theorem C18_dispatch_by_id : forall s h ep i c p, reachable s -> loops s h = LLoaded ep i c p ->
  In (i, c) (tab s) /\ In (i, c) (alloc s) /\ e_host (ent s c) = h /\ p = c.
Proof. exact dispatch_by_id. Qed.
Print Assumptions C18_dispatch_by_id.

(* exactly once: (1) at most one completion event (value or close) ever reaches an entry's channel,
   (2) what a caller returned never changes afterwards, (3) an entry that left the system was completed
   or its caller had already returned, in particular in every state with an empty table every caller that is
   not still queued, (4) a completed caller that has not returned can return, and returns that completion *)
Theorem C18_exactly_once :
  (forall s c, reachable s -> length (e_comp (ent s c)) <= 1)
  /\ (forall s ls s' c r, reachable s -> run s ls = Some s' -> e_ret (ent s c) = Some r -> e_ret (ent s' c) = Some r)
  /\ (forall s c, reachable s -> e_st (ent s c) = Retired -> e_comp (ent s c) <> [] \/ e_ret (ent s c) <> None)
  /\ (forall s c, reachable s -> tab s = [] ->
        e_st (ent s c) <> Fresh -> e_st (ent s c) <> Queued -> (forall i, e_st (ent s c) <> Built i) ->
        e_comp (ent s c) <> [] \/ e_ret (ent s c) <> None)
  /\ (forall s c r l, e_ret (ent s c) = None -> e_comp (ent s c) = r :: l ->
        exists s', step s (Return c) = Some s' /\ e_ret (ent s' c) = Some r).
Proof.
  split; [exact comp_at_most_once|].
  split; [intros s ls s' c r R; apply run_ret_stable; now apply reachable_inv|].
  split; [exact completed_when_retired|].
  split; [exact completed_when_table_empty | exact return_enabled].
Qed.
Print Assumptions C18_exactly_once.

(* stream failure (both branches of the epoch CAS, client not closed): no entry of that stream stays in flight, each
   of them got exactly the stream error, entries of other forwarded hosts are untouched *)
Theorem C18_fail_pending_total : forall s h s', reachable s ->
  closed s = false -> step s (StreamFail h) = Some s' ->
  (forall i c, In (i, c) (tab s') -> e_host (ent s' c) <> h)
  /\ (forall i c, In (i, c) (tab s) -> e_host (ent s c) = h ->
        e_comp (ent s' c) = [Err EStream] /\ e_st (ent s' c) = Retired /\ ~ In (i, c) (tab s'))
  /\ (forall i c, In (i, c) (tab s) -> e_host (ent s c) <> h -> In (i, c) (tab s') /\ ent s' c = ent s c).
Proof. exact fail_pending_total. Qed.
Print Assumptions C18_fail_pending_total.

(* regression witness: with the CAS-losing branch as it was before fix a827fda (`streamfail_prefix_loser`: re-create
   only) a reachable state exists in which an entry of the failed stream stays in flight without any completion *)
Theorem C18_prefix_loser_branch_refuted : exists s s', reachable s /\ closed s = false /\
  streamfail_prefix_loser s 0 = Some s' /\ In (1, 0) (tab s') /\ e_host (ent s' 0) = 0 /\ e_comp (ent s' 0) = [].
Proof. exact prefix_loser_keeps_pending. Qed.
Print Assumptions C18_prefix_loser_branch_refuted.

(* the losing branch of the epoch CAS refreshes the loop's epoch copy (`*epoch = atomic.LoadUint64(&c.epoch)`) and
   leaves the epoch alone; therefore, as long as no other loop wins a CAS in between (epoch unchanged), the NEXT break
   of the same stream wins the CAS: failPendingRequests is reached, every entry then in flight on that stream gets
   the stream error and leaves the table *)
Theorem C18_lost_cas_refreshes_epoch : forall s h ep s', loops s h = LIdle ep -> ep <> epoch s -> closed s = false ->
  step s (StreamFail h) = Some s' ->
  loops s' h = LIdle (epoch s') /\ epoch s' = epoch s.
Proof. exact lost_cas_refreshes. Qed.
Print Assumptions C18_lost_cas_refreshes_epoch.

Theorem C18_lost_cas_then_fail_pending : forall s h ep s1 ls s2 s3, reachable s ->
  loops s h = LIdle ep -> ep <> epoch s -> closed s = false -> step s (StreamFail h) = Some s1 ->
  run s1 ls = Some s2 -> epoch s2 = epoch s1 -> closed s2 = false ->
  step s2 (StreamFail h) = Some s3 ->
  epoch s3 = S (epoch s2)
  /\ (forall i c, In (i, c) (tab s3) -> e_host (ent s3 c) <> h)
  /\ (forall i c, In (i, c) (tab s2) -> e_host (ent s2 c) = h ->
        e_comp (ent s3 c) = [Err EStream] /\ e_st (ent s3 c) = Retired /\ ~ In (i, c) (tab s3)).
Proof. exact lost_cas_then_fail_pending. Qed.
Print Assumptions C18_lost_cas_then_fail_pending.

(* the id source survives a restart of the send loop (panic recovery keeps the batchConn's reqBuilder): Restart is a
   step of the system, so C18_ids_fresh quantifies over runs containing it, and it changes nothing *)
Theorem C18_restart_keeps_ids : forall s s', step s Restart = Some s' -> s' = s.
Proof. exact restart_keeps_ids. Qed.
Print Assumptions C18_restart_keeps_ids.

(* a response is never put on the channel of an entry whose canceled flag was set when the dispatch read it *)
Theorem C18_canceled_never_delivered : forall s l s' c p, reachable s -> step s l = Some s' ->
  e_canceled (ent s c) = true -> In (Resp p) (e_comp (ent s' c)) -> In (Resp p) (e_comp (ent s c)).
Proof. exact canceled_never_delivered. Qed.
Print Assumptions C18_canceled_never_delivered.

(* the extracted monitor predicate used on the implementation accepts every return value of the model *)
Theorem C18_monitor_sound : forall s c r, reachable s -> e_ret (ent s c) = Some r -> obs_identity c r = true.
Proof. exact monitor_sound. Qed.
Print Assumptions C18_monitor_sound.

(* ---------------------------------------------------------------- non-vacuity *)
Definition get (o : option state) : state := match o with Some s => s | None => init end.

(* two callers on two streams, responses arrive in the opposite order, both return their own echo *)
Definition ex_run1 : list label :=
  [Submit 7 0; Submit 8 1; Build 7 1; Build 8 2; Store 7; Store 8;
   RecvLoad 1 2 8; RecvFinish 1; RecvLoad 0 1 7; RecvFinish 0; Return 8; Return 7].
Example ex1_runs : exists s, run init ex_run1 = Some s /\ e_ret (ent s 7) = Some (Resp 7)
  /\ e_ret (ent s 8) = Some (Resp 8) /\ tab s = [].
Proof. eexists; split; [vm_compute; reflexivity|]. vm_compute. auto. Qed.

(* a response carrying somebody else's payload under this id is not a step of the model (echo server) *)
Example ex_wrong_payload_rejected :
  run init [Submit 7 0; Submit 8 0; Build 7 1; Build 8 2; Store 7; Store 8; RecvLoad 0 2 7] = None.
Proof. vm_compute. reflexivity. Qed.

(* an id is never handed out twice, also not after the stream was re-created *)
Example ex_reuse_rejected :
  run init [Submit 1 0; Build 1 1; Store 1; StreamFail 0; Submit 2 0; Build 2 1] = None.
Proof. vm_compute. reflexivity. Qed.

(* stream failure with the current epoch fails exactly the entries of that stream *)
Example ex_fail_pending : let s := get (run init [Submit 1 0; Submit 2 1; Build 1 1; Build 2 2; Store 1; Store 2; StreamFail 0]) in
  tab s = [(2, 2)] /\ e_comp (ent s 1) = [Err EStream] /\ e_comp (ent s 2) = [] /\ epoch s = 1.
Proof. vm_compute. auto. Qed.

(* the hypotheses of C18_fail_pending_total are satisfiable; the CAS-losing branch fails its pending entry too *)
Example ex_fail_pending_hyps : let s := get (run init [Submit 1 0; Build 1 1; Store 1]) in
  reachable s /\ closed s = false /\ step s (StreamFail 0) <> None.
Proof.
  split; [exists [Submit 1 0; Build 1 1; Store 1]; reflexivity|]. vm_compute. repeat split; discriminate.
Qed.
Example ex_loser_fails_pending : let s := get (run init (stale_epoch_run ++ [StreamFail 0])) in
  tab s = [] /\ e_comp (ent s 0) = [Err EStream] /\ e_comp (ent s 1) = [Err EStream] /\ epoch s = 1 /\ loops s 0 = LIdle 1.
Proof. vm_compute. auto. Qed.

(* a canceled (timed-out) entry: its late response is dropped, the entry still leaves the table;
   a duplicate response is counted as outdated *)
Example ex_cancel : let s := get (run init [Submit 1 0; Build 1 1; Store 1; Abort 1 ETimeout; RecvLoad 0 1 1; RecvFinish 0; RecvLoad 0 1 1]) in
  e_ret (ent s 1) = Some (Err ETimeout) /\ e_comp (ent s 1) = [] /\ tab s = [] /\ outdated s = 1.
Proof. vm_compute. auto. Qed.

(* both streams break with nothing pending (host 0 wins, host 1 loses and refreshes), later a request is pending on
   host 1 and its stream breaks again: it is failed at once; ids keep growing across a send-loop restart *)
Example ex_rebreak : let s := get (run init [Submit 1 0; Submit 2 1; Build 1 1; Build 2 2; Store 1; Store 2;
     RecvLoad 0 1 1; RecvFinish 0; RecvLoad 1 2 2; RecvFinish 1; StreamFail 0; StreamFail 1;
     Submit 3 1; Build 3 3; Store 3; StreamFail 1]) in
  tab s = [] /\ e_comp (ent s 3) = [Err EStream] /\ epoch s = 2.
Proof. vm_compute. auto. Qed.

Example ex_restart_then_reuse_rejected :
  run init [Submit 1 0; Build 1 1; Store 1; Restart; Submit 2 0; Build 2 1] = None
  /\ run init [Submit 1 0; Build 1 1; Store 1; Restart; Submit 2 0; Build 2 2] <> None.
Proof. split; vm_compute; [reflexivity | discriminate]. Qed.
