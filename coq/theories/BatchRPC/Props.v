(* C18 — batched RPC multiplexing: theorems over ALL runs of the in-flight-table transition system
   (any number of callers / forwarded hosts, any interleaving of the atomic steps, any failure points).
   What the model cannot exhibit (gRPC, goroutine scheduling inside a step, timers) is explored on
   the implementation by checks/C18.py. *)
From Coq Require Import List Arith Bool Sorted.
Import ListNotations.
From Verif Require Import BatchRPC.Model BatchRPC.Proofs BatchRPC.Proofs2 BatchRPC.Proofs3 BatchRPC.Proofs4 BatchRPC.Proofs5
  BatchRPC.System BatchRPC.SysProofs BatchRPC.RunLoop BatchRPC.RunLoopProofs BatchRPC.Pool BatchRPC.Proofs6 BatchRPC.Gate BatchRPC.ProofsTop BatchRPC.ProofsIds BatchRPC.Round.

(* ids, CORE level: allocation order is strictly increasing, every id is allocated exactly once (also across stream
   re-creation: no step lowers next_id), every id in the table was allocated to exactly that entry.  NOTE: in the core
   the id of `Build c i` is a label parameter guarded by `next_id s < i` (an abstraction of the counter that allows gaps),
   so the last conjunct reads that guard back; what is PROVED is that the guard plus "no step lowers next_id" keep the
   log sorted / duplicate-free and the table inside the log in every reachable state.  The id being COMPUTED from the
   counter is C18_ids_computed below (builder layer), and the acceptor checks the code's ids against it. *)
Theorem C18_ids_fresh : forall s, reachable s ->
  StronglySorted newer (alloc s)
  /\ NoDup (map fst (alloc s))
  /\ (forall i c c', In (i, c) (alloc s) -> In (i, c') (alloc s) -> c = c')
  /\ (forall i c, In (i, c) (tab s) -> In (i, c) (alloc s))
  /\ NoDup (map fst (tab s))
  /\ (forall c i s', step s (Build c i) = Some s' ->
        (forall j c', In (j, c') (alloc s) -> j < i) /\ alloc s' = (i, c) :: alloc s).
Proof. exact ids_fresh. Qed.
Print Assumptions C18_ids_fresh.

(* a caller that returned a response returned the echo of its own request, which was put on its channel,
   under an id that was allocated to this caller and to nobody else *)
Theorem C18_own_response : forall s c p, reachable s -> e_ret (ent s c) = Some (Resp p) ->
  p = c /\ In (Resp c) (e_comp (ent s c))
  /\ exists i, In (i, c) (alloc s) /\ forall c', In (i, c') (alloc s) -> c' = c.
Proof. exact own_response. Qed.
Print Assumptions C18_own_response.

(* responses are dispatched by id: what a recv loop holds between Load and deliver is the entry
   registered under that id, on that loop's own stream *)
Theorem C18_dispatch_by_id : forall s h ep i c p, reachable s -> loops s h = LLoaded ep i c p ->
  In (i, c) (tab s) /\ In (i, c) (alloc s) /\ e_host (ent s c) = h /\ p = c.
Proof. exact dispatch_by_id. Qed.
Print Assumptions C18_dispatch_by_id.

(* exactly once: (1) at most one completion event (value or close) ever reaches an entry's channel,
   (2) what a caller returned never changes afterwards, (3) an entry that left the system was completed
   or its caller had already returned, in particular in every state with an empty table every caller that is
   not still queued, (4) a completed caller that has not returned can return, and returns that completion *)
Theorem C18_exactly_once :
  (forall s c, reachable s -> length (e_comp (ent s c)) <= 1)
  /\ (forall s ls s' c r, reachable s -> run s ls = Some s' -> e_ret (ent s c) = Some r -> e_ret (ent s' c) = Some r)
  /\ (forall s c, reachable s -> e_st (ent s c) = Retired -> e_comp (ent s c) <> [] \/ e_ret (ent s c) <> None)
  /\ (forall s c, reachable s -> tab s = [] ->
        e_st (ent s c) <> Fresh -> e_st (ent s c) <> Queued -> (forall i, e_st (ent s c) <> Built i) ->
        e_comp (ent s c) <> [] \/ e_ret (ent s c) <> None)
  /\ (forall s c r l, e_ret (ent s c) = None -> e_comp (ent s c) = r :: l ->
        exists s', step s (Return c) = Some s' /\ e_ret (ent s' c) = Some r).
Proof. exact C18_exactly_once_l. Qed.
Print Assumptions C18_exactly_once.

(* stream failure (both branches of the epoch CAS, client not closed): no entry of that stream stays in flight, each
   of them got exactly the stream error, entries of other forwarded hosts are untouched *)
Theorem C18_fail_pending_total : forall s h s', reachable s ->
  closed s = false -> step s (StreamFail h) = Some s' ->
  (forall i c, In (i, c) (tab s') -> e_host (ent s' c) <> h)
  /\ (forall i c, In (i, c) (tab s) -> e_host (ent s c) = h ->
        e_comp (ent s' c) = [Err EStream] /\ e_st (ent s' c) = Retired /\ ~ In (i, c) (tab s'))
  /\ (forall i c, In (i, c) (tab s) -> e_host (ent s c) <> h -> In (i, c) (tab s') /\ ent s' c = ent s c).
Proof. exact fail_pending_total. Qed.
Print Assumptions C18_fail_pending_total.

(* regression witness: with the CAS-losing branch as it was before fix a827fda (`streamfail_prefix_loser`: re-create
   only) a reachable state exists in which an entry of the failed stream stays in flight without any completion *)
Theorem C18_prefix_loser_branch_refuted : exists s s', reachable s /\ closed s = false /\
  streamfail_prefix_loser s 0 = Some s' /\ In (1, 0) (tab s') /\ e_host (ent s' 0) = 0 /\ e_comp (ent s' 0) = [].
Proof. exact prefix_loser_keeps_pending. Qed.
Print Assumptions C18_prefix_loser_branch_refuted.

(* the losing branch of the epoch CAS refreshes the loop's epoch copy (`*epoch = atomic.LoadUint64(&c.epoch)`) and
   leaves the epoch alone; therefore, as long as no other loop wins a CAS in between (epoch unchanged), the NEXT break
   of the same stream wins the CAS: failPendingRequests is reached, every entry then in flight on that stream gets
   the stream error and leaves the table *)
Theorem C18_lost_cas_refreshes_epoch : forall s h ep s', loops s h = LIdle ep -> ep <> epoch s -> closed s = false ->
  step s (StreamFail h) = Some s' ->
  loops s' h = LIdle (epoch s') /\ epoch s' = epoch s.
Proof. exact lost_cas_refreshes. Qed.
Print Assumptions C18_lost_cas_refreshes_epoch.

Theorem C18_lost_cas_then_fail_pending : forall s h ep s1 ls s2 s3, reachable s ->
  loops s h = LIdle ep -> ep <> epoch s -> closed s = false -> step s (StreamFail h) = Some s1 ->
  run s1 ls = Some s2 -> epoch s2 = epoch s1 -> closed s2 = false ->
  step s2 (StreamFail h) = Some s3 ->
  epoch s3 = S (epoch s2)
  /\ (forall i c, In (i, c) (tab s3) -> e_host (ent s3 c) <> h)
  /\ (forall i c, In (i, c) (tab s2) -> e_host (ent s2 c) = h ->
        e_comp (ent s3 c) = [Err EStream] /\ e_st (ent s3 c) = Retired /\ ~ In (i, c) (tab s3)).
Proof. exact lost_cas_then_fail_pending. Qed.
Print Assumptions C18_lost_cas_then_fail_pending.


(* a response is never put on the channel of an entry whose canceled flag was set when the dispatch read it *)
Theorem C18_canceled_never_delivered : forall s l s' c p, reachable s -> step s l = Some s' ->
  e_canceled (ent s c) = true -> In (Resp p) (e_comp (ent s' c)) -> In (Resp p) (e_comp (ent s c)).
Proof. exact canceled_never_delivered. Qed.
Print Assumptions C18_canceled_never_delivered.

(* the extracted monitor predicate used on the implementation accepts every return value of the model *)
Theorem C18_monitor_sound : forall s c r, reachable s -> e_ret (ent s c) = Some r -> obs_identity c r = true.
Proof. exact monitor_sound. Qed.
Print Assumptions C18_monitor_sound.

(* ids are fresh ACROSS streams: the direct stream and every forwarded-host stream of a connection draw from the one id
   source and share the table, so two entries in flight -- on whatever hosts -- never carry the same id, and the entry
   found under an id is the one the id was allocated to *)
Theorem C18_ids_fresh_across_streams : forall s i c c', reachable s ->
  In (i, c) (tab s) -> In (i, c') (tab s) -> c = c' /\ e_host (ent s c) = e_host (ent s c') /\ lookup i (alloc s) = Some c.
Proof. exact C18_ids_fresh_across_streams_l. Qed.
Print Assumptions C18_ids_fresh_across_streams.

(* an entry cancelled while it is still queued (before buildWithLimit looked at it): its caller has returned the
   ctx / time-out / closed error, and in EVERY continuation that return value stays, the entry never gets an id, is
   never put in the table (never sent) and never receives a response *)
Theorem C18_canceled_before_build : forall s c ls s', reachable s ->
  e_st (ent s c) = Queued -> e_canceled (ent s c) = true -> run s ls = Some s' ->
  (exists k, e_ret (ent s c) = Some (Err k) /\ is_abort_kind k = true)
  /\ e_ret (ent s' c) = e_ret (ent s c)
  /\ (e_st (ent s' c) = Queued \/ e_st (ent s' c) = Retired)
  /\ (forall i, ~ In (i, c) (alloc s')) /\ (forall i, ~ In (i, c) (tab s'))
  /\ (forall p, ~ In (Resp p) (e_comp (ent s' c))).
Proof. exact canceled_before_build. Qed.
Print Assumptions C18_canceled_before_build.


(* ... and every entry that was pending on that stream is completed exactly once in every continuation that reaches
   the next failure of the stream: at most one completion ever, and the ones still in flight get the stream error *)
Theorem C18_panic_then_failed_once : forall s h l s1 ls s2 s3 i c, reachable s ->
  (l = RecvPanic h \/ l = FailPanic h) -> step s l = Some s1 ->
  In (i, c) (tab s) -> e_host (ent s c) = h ->
  run s1 ls = Some s2 -> closed s2 = false -> step s2 (StreamFail h) = Some s3 ->
  e_comp (ent s1 c) = [] /\ In (i, c) (tab s1)
  /\ e_st (ent s3 c) = Retired /\ length (e_comp (ent s3 c)) <= 1
  /\ (e_comp (ent s3 c) <> [] \/ e_ret (ent s3 c) <> None)
  /\ (In (i, c) (tab s2) -> e_comp (ent s3 c) = [Err EStream]).
Proof. exact panic_then_fail_once. Qed.
Print Assumptions C18_panic_then_failed_once.

(* the builder / send-loop / async layer (System.v) only performs sequences of core steps: everything above holds
   for core x of every reachable x *)
Theorem C18_builder_layer_refines_core : forall x, xreach x -> reachable (core x).
Proof. exact xreach_core. Qed.
Print Assumptions C18_builder_layer_refines_core.

(* one call of buildWithLimit.  NOTE: WHICH entries a round pops (`takes`) is a label parameter; the first two conjuncts
   read the step guard `round_ok` back (the loop over the heap is not modelled as a function; the acceptor checks every
   real round against that guard).  What is proved beyond the guard: the ids (third conjunct) are computed.
   Only fetched entries are popped; whatever is left behind has no high priority and no
   priority above a popped entry; the popped, non-cancelled entries get exactly the next consecutive ids, in
   order; cancelled ones get none *)
Theorem C18_build_round : forall x lim takes x', xstep x (XBuildRound lim takes) = Some x' ->
  (forall t, In t takes -> In t (inb x))
  /\ (forall r, In r (inb x') -> In r (inb x) /\ ~ In r takes /\ pri x r < high_pri /\ forall t, In t takes -> pri x r <= pri x t)
  /\ (let ps := build_pairs (ent (core x)) (next_id (core x)) takes in
      alloc (core x') = rev ps ++ alloc (core x)
      /\ next_id (core x') = next_id (core x) + length ps
      /\ map fst ps = seq (S (next_id (core x))) (length ps)
      /\ (forall i c, In (i, c) ps -> In c takes /\ e_canceled (ent (core x) c) = false)).
Proof. exact C18_build_round_l. Qed.
Print Assumptions C18_build_round.

(* buildWithLimit's LOOP as a function (Round.v: `for (count < limit && Len() > 0) || hasHighPriorityTask() { Take(n) }` over a
   heap whose pop removes SOME element of maximal priority -- `pop` is a parameter with exactly that specification):
   whatever the loop pops is a legal round of the model, for every limit and every duplicate-free builder -- the guards
   round_ok / quota_ok of XBuildRound are not assumptions about the code's loop but consequences of its shape.  Nothing
   of high priority and nothing above a popped entry stays behind; entries stay behind only once `lim` normal
   non-cancelled entries were popped. *)
Theorem C18_build_loop_legal : forall pr f pop,
  (forall q, match pop q with
             | None => q = []
             | Some (c, q') => In c q /\ q' = remove_c c q /\ (forall r, In r q -> pr r <= pr c)
             end) ->
  forall lim q takes left, NoDup q -> build_with_limit pr f pop lim q = (takes, left) ->
  round_ok pr q takes = true
  /\ quota_ok (Some lim) f pr q takes = true
  /\ NoDup takes /\ (forall c, In c q <-> In c takes \/ In c left) /\ (forall c, In c takes -> ~ In c left)
  /\ (forall r, In r left -> pr r < high_pri /\ forall t, In t takes -> pr r <= pr t)
  /\ (left = [] \/ lim <= counted f pr takes).
Proof. exact build_with_limit_legal. Qed.
Print Assumptions C18_build_loop_legal.

(* ... and with a concrete pop (first element of maximal priority) the computed round is an ENABLED XBuildRound step of the
   layer whenever the send loop is alive and ready and the builder is well-formed; it leaves exactly what the loop left *)
Theorem C18_build_loop_is_round : forall x lim takes left, sendloop x = true -> ready x = true -> NoDup (inb x) ->
  (forall c, In c (inb x) -> e_st (ent (core x) c) = Queued) ->
  build_with_limit (pri x) (ent (core x)) (pop_max (pri x)) lim (inb x) = (takes, left) ->
  exists x', xstep x (XBuildRound (Some lim) takes) = Some x'
    /\ (forall c, In c (inb x') <-> In c left)
    /\ (left = [] \/ lim <= counted (ent (core x)) (pri x) takes).
Proof. exact build_loop_is_round. Qed.
Print Assumptions C18_build_loop_is_round.

(* ids, BUILDER layer: here no id is chosen by the environment.  `Build` is not a step of the layer; the only step that
   allocates is a builder round, which numbers the popped non-cancelled entries next_id+1, next_id+2, .. (b.idAlloc++);
   every other step leaves the allocation log alone.  Hence in every layer-reachable state: ids <= the counter, no id
   allocated twice, no id twice in the in-flight table, the table inside the log. *)
Theorem C18_ids_computed : forall x, xreach x ->
  (forall l x', xstep x l = Some x' ->
     alloc (core x') = alloc (core x)
     \/ exists lim takes, l = XBuildRound lim takes
          /\ (let ps := build_pairs (ent (core x)) (next_id (core x)) takes in
              alloc (core x') = rev ps ++ alloc (core x)
              /\ map fst ps = seq (S (next_id (core x))) (length ps)
              /\ next_id (core x') = next_id (core x) + length ps))
  /\ (forall i c, In (i, c) (alloc (core x)) -> i <= next_id (core x))
  /\ NoDup (map fst (alloc (core x)))
  /\ NoDup (map fst (tab (core x)))
  /\ (forall i c, In (i, c) (tab (core x)) -> In (i, c) (alloc (core x))).
Proof. exact ids_computed. Qed.
Print Assumptions C18_ids_computed.

(* buildWithLimit(limit) loses nothing: every entry that was in the builder is afterwards either popped-and-cancelled
   (retired, never sent), or popped and given an id (recorded in the allocation log; from there only Store / InitFail
   apply), or NOT popped and still in the builder, untouched, for the next round.  And entries are only left behind when
   the quota is used up: with the default (unbounded) limit nothing is left, with available() = l at least l normal
   non-cancelled entries were popped. *)
Theorem C18_round_nothing_lost : forall x lim takes x', xstep x (XBuildRound lim takes) = Some x' ->
  (forall c, In c (inb x) ->
     (In c takes /\ e_canceled (ent (core x) c) = true /\ e_st (ent (core x') c) = Retired)
     \/ (In c takes /\ e_canceled (ent (core x) c) = false /\ exists i, e_st (ent (core x') c) = Built i /\ In (i, c) (alloc (core x')))
     \/ (~ In c takes /\ In c (inb x') /\ ent (core x') c = ent (core x) c))
  /\ (inb x' = [] \/ exists l, lim = Some l /\ l <= counted (ent (core x)) (pri x) takes).
Proof. exact C18_round_nothing_lost_l. Qed.
Print Assumptions C18_round_nothing_lost.

(* leftover entries are retried without a new arrival (fix 7ad2a8a).  They are never lost (C18_round_nothing_lost: what is
   not popped stays in the builder untouched).  Progress: whenever the send loop is alive and an entry sits in a
   well-formed builder, the wake-up step XWake is enabled -- no request has to arrive -- and after it a round that builds
   the entry is enabled, under ANY limit (free capacity is not even needed for the step to be legal: the quota is soft -- the statement is for EVERY limit `lim`;
   in the code the round pops at least `available()` > 0 normal entries, which entry is the heap's choice).  Regression
   witness for the code before the fix: a waiting send loop builds nothing, and nothing but an arriving request or the
   wake-up makes it ready. *)
Theorem C18_leftover_retried :
  (forall x c, sendloop x = true -> NoDup (inb x) ->
     (forall c', In c' (inb x) -> e_st (ent (core x) c') = Queued) ->
     In c (inb x) -> e_canceled (ent (core x) c) = false ->
     exists x1, xstep x XWake = Some x1 /\ core x1 = core x /\ inb x1 = inb x
       /\ forall lim, exists x2 i, xstep x1 (XBuildRound lim (inb x)) = Some x2 /\ e_st (ent (core x2) c) = Built i /\ inb x2 = [])
  /\ (forall x l x', ready x = false -> xstep x l = Some x' -> l <> XWake -> (forall c, l <> XFetch c) ->
        ready x' = false /\ (forall lim takes, xstep x (XBuildRound lim takes) = None)).
Proof. exact C18_leftover_retried_l. Qed.
Print Assumptions C18_leftover_retried.

(* Close and the asynchronous API (after fix 000f10e).  (1) When batchSendLoop returns because the client is closed it
   drains the channel: every asynchronous entry still queued there gets exactly the closed error.  (2) The sender's
   re-check: an asynchronous call that enqueues its entry while the client is closed is failed at once. *)
Theorem C18_close_fails_queued_async :
  (forall x x', xstep x XSendExit = Some x' ->
     chq x' = [] /\ sendloop x' = false
     /\ (forall c, In c (chq x) -> asy x c = true -> e_st (ent (core x) c) = Queued ->
           e_comp (ent (core x') c) = e_comp (ent (core x) c) ++ [Err EClosed] /\ e_st (ent (core x') c) = Retired))
  /\ (forall x c h p, closed (core x) = true -> e_st (ent (core x) c) = Fresh ->
        exists x', xstep x (XSubmit c h p true) = Some x' /\ e_comp (ent (core x') c) = [Err EClosed] /\ e_st (ent (core x') c) = Retired).
Proof. exact C18_close_fails_queued_async_l. Qed.
Print Assumptions C18_close_fails_queued_async.

(* the full statement for the code after fixes 000f10e and e17a7fd: an asynchronous call is never left behind by the send
   loop.  (1) Whichever way batchSendLoop returns -- client closed, or the idle timer -- it drains the channel and every
   asynchronous entry queued there gets exactly one error (closed / idle).  (2) The loop is only ever gone when the client
   is closed or the conn idle, and an asynchronous call that enqueues its entry in such a state is failed at once by the
   sender's re-check. *)
Theorem C18_async_never_orphaned :
  (forall x l x', (l = XSendExit \/ l = XIdleExit) -> xstep x l = Some x' ->
     chq x' = [] /\ sendloop x' = false
     /\ (forall c, In c (chq x) -> asy x c = true -> e_st (ent (core x) c) = Queued ->
           exists e, (e = EClosed \/ e = EIdle) /\ e_comp (ent (core x') c) = e_comp (ent (core x) c) ++ [Err e]
                     /\ e_st (ent (core x') c) = Retired))
  /\ (forall x c h p, xreach x -> sendloop x = false -> e_st (ent (core x) c) = Fresh ->
        exists x' e, xstep x (XSubmit c h p true) = Some x' /\ (e = EClosed \/ e = EIdle)
                     /\ e_comp (ent (core x') c) = [Err e] /\ e_st (ent (core x') c) = Retired).
Proof. exact async_never_orphaned. Qed.
Print Assumptions C18_async_never_orphaned.

(* regression witness for the code before those fixes: once the send loop is gone, NO other step but the caller's own
   context touches a queued asynchronous entry -- which is why the drains and the re-check are needed (before them such an
   entry, e.g. one enqueued while the loop returned on its idle timer, was never completed) *)
Theorem C18_async_queued_untouched_after_loop_exit : forall x c l x', xreach x -> sendloop x = false -> asy x c = true ->
  e_st (ent (core x) c) = Queued -> e_comp (ent (core x) c) = [] -> xstep x l = Some x' ->
  (forall k, l <> XCore (Abort c k)) ->
  ent (core x') c = ent (core x) c /\ sendloop x' = false /\ asy x' c = true.
Proof. exact async_after_exit. Qed.
Print Assumptions C18_async_queued_untouched_after_loop_exit.

(* the connection pool: every batchCommandsClient of every pool generation is a reachable core state (so every theorem
   above holds for it); a call lives in exactly one of them; over the whole pool -- across CloseAddr / idle recycling /
   Close -- it has at most one completion and a returned response is its own *)
Theorem C18_pool_exactly_once_own_response : forall p c, preach p ->
  (forall g k, reachable (p_cl p g k))
  /\ (forall g k, p_home p c <> Some (g, k) -> ent (p_cl p g k) c = entry0)
  /\ (forall g k, length (e_comp (ent (p_cl p g k) c)) <= 1)
  /\ (forall g k g' k', e_comp (ent (p_cl p g k) c) <> [] -> e_comp (ent (p_cl p g' k') c) <> [] -> (g, k) = (g', k'))
  /\ (forall g k q, e_ret (ent (p_cl p g k) c) = Some (Resp q) -> q = c /\ p_home p c = Some (g, k)).
Proof. exact pool_exactly_once_own. Qed.
Print Assumptions C18_pool_exactly_once_own_response.

(* pool re-creation: every client of the old generation is closed, the re-creation itself completes and loses nothing,
   later calls are routed to the new generation, and in a closed client every synchronous caller still waiting can return
   the closed error (asynchronous ones: CloseFail / the drain, see above) *)
Theorem C18_pool_recreate :
  (forall p l p', (l = PCloseAddr \/ l = PRecycle) -> pstep p l = Some p' ->
     p_gen p' = S (p_gen p)
     /\ (forall k, closed (p_cl p' (p_gen p) k) = true)
     /\ (forall g k, ent (p_cl p' g k) = ent (p_cl p g k) /\ tab (p_cl p' g k) = tab (p_cl p g k))
     /\ (forall c k h p'', pstep p' (PRoute c k h) = Some p'' -> p_home p'' c = Some (S (p_gen p), k)))
  /\ (forall s c, closed s = true -> e_st (ent s c) <> Fresh -> e_ret (ent s c) = None ->
        exists s', step s (Abort c EClosed) = Some s' /\ e_ret (ent s' c) = Some (Err EClosed)).
Proof. exact pool_recreate_full. Qed.
Print Assumptions C18_pool_recreate.

(* streams of one client share the id space and the table but are isolated: what happens on stream h (response batch,
   Recv failure + re-creation, panic of its recv loop) completes / fails / removes only entries sent on h *)
Theorem C18_stream_isolation : forall s l h s' c, reachable s -> step s l = Some s' ->
  (l = RecvFinish h \/ l = StreamFail h \/ l = RecvPanic h \/ l = FailPanic h \/ exists i p, l = RecvLoad h i p) ->
  e_host (ent s c) <> h -> e_st (ent s c) <> Fresh ->
  ent s' c = ent s c /\ (forall i, In (i, c) (tab s) -> In (i, c) (tab s')).
Proof. exact stream_isolation. Qed.
Print Assumptions C18_stream_isolation.

(* the non-batch path (one unary call per request): a completed call stays completed with the same result, a reply is
   the call's own, and after Close every pending call can be completed with the closed error *)
Theorem C18_unary_exactly_once :
  (forall ls u u' c r, urun u ls = Some u' -> ucalls u c = UDone r -> ucalls u' c = UDone r)
  /\ (forall ls u' c p, urun uinit ls = Some u' -> ucalls u' c = UDone (Resp p) -> p = c)
  /\ (forall u c, uclosed u = true -> ucalls u c = UPending ->
        exists u', ustep u (UFail c EClosed) = Some u' /\ ucalls u' c = UDone (Err EClosed)).
Proof. exact C18_unary_exactly_once_l. Qed.
Print Assumptions C18_unary_exactly_once.

(* util/async.RunLoop, on which every asynchronous completion is scheduled: in every reachable state
   done ++ running ++ runnable is exactly the list of callbacks ever appended, in append order -- so every callback runs
   exactly once, callbacks run in FIFO order, nothing appended during a round (also re-entrantly, by a running callback)
   can overwrite or duplicate a callback of the round, and an idle loop has run everything; the start of a round hands the
   whole runnable list to the round and leaves an EMPTY runnable list *)
Theorem C18_runloop_fifo_once :
  (forall st, rreach st ->
     r_done st ++ r_running st ++ r_runnable st = r_log st
     /\ (r_running st = [] -> r_runnable st = [] -> r_done st = r_log st)
     /\ (NoDup (r_log st) -> NoDup (r_done st ++ r_running st ++ r_runnable st))
     /\ (exists rest, r_log st = r_done st ++ rest))
  /\ (forall st st', rstep st RStart = Some st' ->
        r_running st' = r_runnable st /\ r_runnable st' = [] /\ r_done st' = r_done st).
Proof. exact C18_runloop_fifo_once_l. Qed.
Print Assumptions C18_runloop_fifo_once.

(* reqCollapse: the shared flight is owned by no caller.  A caller that has returned got either ITS OWN cancellation /
   time-out, or the result of the flight it joined -- a flight of its own key, whose response carries that key (own
   response of the layer below).  A caller's cancellation touches neither the flight nor any other caller, and once
   the shared request has returned every caller still waiting on it can take the result. *)
Theorem C18_collapse_follower_result :
  (forall s c r, creach s -> c_call s c = CRet r ->
     (r = Err ECtx \/ r = Err ETimeout)
     \/ exists f, c_joined s c = Some f /\ c_fkey s f = c_key s c /\ c_fres s f = Some r /\ (forall p, r = Resp p -> p = c_key s c))
  /\ (forall s c e s', cstep s (CAbort c e) = Some s' ->
        c_fres s' = c_fres s /\ c_cur s' = c_cur s /\ c_nfl s' = c_nfl s /\ c_fkey s' = c_fkey s
        /\ (forall c', c' <> c -> c_call s' c' = c_call s c') /\ c_call s' c = CRet (Err e) /\ (e = ECtx \/ e = ETimeout))
  /\ (forall s c f r, c_call s c = CWait f -> c_fres s f = Some r ->
        exists s', cstep s (CDeliver c) = Some s' /\ c_call s' c = CRet r).
Proof. exact C18_collapse_follower_result_l. Qed.
Print Assumptions C18_collapse_follower_result.

(* which requests may share a flight: the collapse key, for BOTH entries of the wrapper (tryCollapseRequest and
   SendRequestAsync use the same `collapsible` test).  (1) Callers that joined the same flight entered it under the same key.
   (2) For an injective encoding of (region, start version, async flag): two different callers whose requests enter the
   single-flight group under the same key are both plain full-region ResolveLock requests -- no keys, no txn infos -- equal in
   every component but the commit version (which resolveLockCollapseKey leaves out), and equal commands outright when the
   commit version is a function of the transaction.  (3) A request that may not be collapsed (resolve lock lite, batch
   resolve with TxnInfos) never shares a flight. *)
Theorem C18_collapse_key_equal_commands :
  (forall s c1 c2 f, creach s -> c_joined s c1 = Some f -> c_joined s c2 = Some f -> c_key s c1 = c_key s c2)
  /\ (forall (kenc : nat * nat * bool -> nat), (forall a b, kenc a = kenc b -> a = b) ->
        forall r1 r2 c1 c2, c1 <> c2 -> flight_key kenc r1 c1 = flight_key kenc r2 c2 ->
        rc_keys r1 = [] /\ rc_txninfos r1 = [] /\ rc_keys r2 = [] /\ rc_txninfos r2 = []
        /\ rc_region r1 = rc_region r2 /\ rc_start r1 = rc_start r2 /\ rc_isasync r1 = rc_isasync r2
        /\ (rc_commit r1 = rc_commit r2 -> r1 = r2))
  /\ (forall kenc r1 r2 c1 c2, collapsible r1 = false -> c1 <> c2 -> flight_key kenc r1 c1 <> flight_key kenc r2 c2).
Proof. exact collapse_key_full. Qed.
Print Assumptions C18_collapse_key_equal_commands.

(* an error is the call's OWN (the black-box oracle own_error, over all runs): (1) no completion put on an entry's channel
   ever carries a context / time-out error; (2) a call that returned such an error has its own canceled flag set and no such
   completion; (3) the canceled flag of an entry is raised only by the abort transition of its own caller, which changes
   nothing else of the entry -- so another call's cancellation or time-out can never become this call's result *)
Theorem C18_own_error : forall s c, reachable s ->
  (forall k, In (Err k) (e_comp (ent s c)) -> own_only k = false)
  /\ (forall k, e_ret (ent s c) = Some (Err k) -> own_only k = true ->
        e_canceled (ent s c) = true /\ ~ In (Err k) (e_comp (ent s c)))
  /\ (forall l s', step s l = Some s' -> e_canceled (ent s c) = false -> e_canceled (ent s' c) = true ->
        exists k, ent s' c = mkEntry (e_host (ent s c)) (e_st (ent s c)) (e_comp (ent s c)) true (Some (Err k))
                  /\ e_ret (ent s c) = None).
Proof. exact own_error. Qed.
Print Assumptions C18_own_error.

(* the resource-control / RPC-interceptor wrapper (NewInterceptedClient) over the core: a response that comes out of the
   wrapper is the call's own, the wrapped result never changes once it exists, a call refused by OnRequestWait is refused
   whatever happens inside and an admitted one returns nothing before the inner call has, an inner error passes unchanged
   and a response is only ever replaced by the response gate's error *)
Theorem C18_gate_wrapped_call : forall bg g,
  (forall s c p, reachable s -> wrapped_ret bg g s c = Some (GInner (Resp p)) -> p = c /\ e_ret (ent s c) = Some (Resp c))
  /\ (forall s ls s' c r, reachable s -> run s ls = Some s' -> wrapped_ret bg g s c = Some r -> wrapped_ret bg g s' c = Some r)
  /\ (gate_admits bg g = false -> forall inner, gate_result bg g inner = Some GReqErr)
  /\ (gate_admits bg g = true -> gate_result bg g None = None)
  /\ (gate_admits bg g = true -> forall e, gate_result bg g (Some (Err e)) = Some (GInner (Err e)))
  /\ (gate_admits bg g = true -> forall p, gate_result bg g (Some (Resp p)) = Some (GInner (Resp p)) \/ gate_result bg g (Some (Resp p)) = Some GRespErr).
Proof. exact gate_wrapped_call. Qed.
Print Assumptions C18_gate_wrapped_call.



(* ---------------------------------------------------------------- non-vacuity *)

(* two callers on two streams, responses arrive in the opposite order, both return their own echo *)
Example ex1_runs : exists s, run init ex_run1 = Some s /\ e_ret (ent s 7) = Some (Resp 7)
  /\ e_ret (ent s 8) = Some (Resp 8) /\ tab s = [].
Proof. eexists; split; [vm_compute; reflexivity|]. vm_compute. auto. Qed.

(* a response carrying somebody else's payload under this id is not a step of the model (echo server) *)
Example ex_wrong_payload_rejected :
  run init [Submit 7 0; Submit 8 0; Build 7 1; Build 8 2; Store 7; Store 8; RecvLoad 0 2 7] = None.
Proof. vm_compute. reflexivity. Qed.

(* an id is never handed out twice, also not after the stream was re-created *)
Example ex_reuse_rejected :
  run init [Submit 1 0; Build 1 1; Store 1; StreamFail 0; Submit 2 0; Build 2 1] = None.
Proof. vm_compute. reflexivity. Qed.

(* stream failure with the current epoch fails exactly the entries of that stream *)
Example ex_fail_pending : let s := get (run init [Submit 1 0; Submit 2 1; Build 1 1; Build 2 2; Store 1; Store 2; StreamFail 0]) in
  tab s = [(2, 2)] /\ e_comp (ent s 1) = [Err EStream] /\ e_comp (ent s 2) = [] /\ epoch s = 1.
Proof. vm_compute. auto. Qed.

(* the hypotheses of C18_fail_pending_total are satisfiable; the CAS-losing branch fails its pending entry too *)
Example ex_fail_pending_hyps : let s := get (run init [Submit 1 0; Build 1 1; Store 1]) in
  reachable s /\ closed s = false /\ step s (StreamFail 0) <> None.
Proof.
  split; [exists [Submit 1 0; Build 1 1; Store 1]; reflexivity|]. vm_compute. repeat split; discriminate.
Qed.
Example ex_loser_fails_pending : let s := get (run init (stale_epoch_run ++ [StreamFail 0])) in
  tab s = [] /\ e_comp (ent s 0) = [Err EStream] /\ e_comp (ent s 1) = [Err EStream] /\ epoch s = 1 /\ loops s 0 = LIdle 1.
Proof. vm_compute. auto. Qed.

(* a canceled (timed-out) entry: its late response is dropped, the entry still leaves the table;
   a duplicate response is counted as outdated *)
Example ex_cancel : let s := get (run init [Submit 1 0; Build 1 1; Store 1; Abort 1 ETimeout; RecvLoad 0 1 1; RecvFinish 0; RecvLoad 0 1 1]) in
  e_ret (ent s 1) = Some (Err ETimeout) /\ e_comp (ent s 1) = [] /\ tab s = [] /\ outdated s = 1.
Proof. vm_compute. auto. Qed.

(* both streams break with nothing pending (host 0 wins, host 1 loses and refreshes), later a request is pending on
   host 1 and its stream breaks again: it is failed at once; ids keep growing across a send-loop restart *)
Example ex_rebreak : let s := get (run init [Submit 1 0; Submit 2 1; Build 1 1; Build 2 2; Store 1; Store 2;
     RecvLoad 0 1 1; RecvFinish 0; RecvLoad 1 2 2; RecvFinish 1; StreamFail 0; StreamFail 1;
     Submit 3 1; Build 3 3; Store 3; StreamFail 1]) in
  tab s = [] /\ e_comp (ent s 3) = [Err EStream] /\ epoch s = 2.
Proof. vm_compute. auto. Qed.

Example ex_restart_then_reuse_rejected :
  run init [Submit 1 0; Build 1 1; Store 1; Restart; Submit 2 0; Build 2 1] = None
  /\ run init [Submit 1 0; Build 1 1; Store 1; Restart; Submit 2 0; Build 2 2] <> None.
Proof. split; vm_compute; [reflexivity | discriminate]. Qed.

(* a builder round: entries 1 (pri 0), 2 (pri 12), 3 (pri 5, cancelled) fetched; popping only {2} is a legal round,
   popping only {1} is not (a high-priority entry would stay behind); popping all skips the cancelled entry *)
Example ex_round : let x := xget (xrun xinit ex_builder) in
  xstep x (XBuildRound (Some 0) [1]) = None /\ xstep x (XBuildRound (Some 0) [2]) <> None
  /\ xstep x (XBuildRound None [2]) = None /\ xstep x (XBuildRound (Some 1) [2; 3]) = None
  /\ alloc (core (xget (xstep x (XBuildRound None [2; 3; 1])))) = [(2, 1); (1, 2)]
  /\ e_st (ent (core (xget (xstep x (XBuildRound None [2; 3; 1])))) 3) = Retired
  /\ inb (xget (xstep x (XBuildRound (Some 0) [2]))) = [3; 1].
Proof. vm_compute. repeat split; discriminate. Qed.

(* limit 2, one batch of priorities [16,0,0,0]: Take(2) pops {16,0} (count 1 < 2), the second Take(2) pops the other two:
   all four are built (the quota is soft); leaving any of them behind AND dropping it is not a step *)
Example ex_limit_two_takes : let x := xget (xrun xinit
    [XSubmit 1 0 16 false; XSubmit 2 0 0 false; XSubmit 3 0 0 true; XSubmit 4 0 0 true; XFetch 1; XFetch 2; XFetch 3; XFetch 4]) in
  let x' := xget (xstep x (XBuildRound (Some 2) [1; 2; 3; 4])) in
  alloc (core x') = [(4, 4); (3, 3); (2, 2); (1, 1)] /\ inb x' = []
  /\ inb (xget (xstep x (XBuildRound (Some 2) [1; 2; 3]))) = [4] /\ e_st (ent (core (xget (xstep x (XBuildRound (Some 2) [1; 2; 3])))) 4) = Queued.
Proof. vm_compute. auto. Qed.

(* an asynchronous call queued when the send loop exits is failed with the closed error; one enqueued after the exit
   satisfies the hypotheses of part (3) and is failed by the sender's re-check *)
Example ex_async_close : let x := xget (xrun xinit [XSubmit 1 0 0 true; XCore Close; XSendExit]) in
  e_comp (ent (core x) 1) = [Err EClosed] /\ chq x = [] /\ sendloop x = false.
Proof. vm_compute. auto. Qed.
Example ex_async_after_exit : let x := xget (xrun xinit [XCore Close; XSendExit; XSubmit 1 0 0 true]) in
  e_comp (ent (core x) 1) = [Err EClosed] /\ sendloop x = false.
Proof. vm_compute. auto. Qed.

(* the idle exit after fix e17a7fd: the asynchronous entry sitting in the channel when the send loop returns on its idle
   timer is failed with the idle error (before the fix it stayed Queued for ever: the pre-fix orphan), and a later
   asynchronous call on the idle conn is failed at once *)
Example ex_async_idle_exit : let x := xget (xrun xinit [XSubmit 1 0 0 true; XIdleExit; XSubmit 2 0 0 true; XCore Close]) in
  xreach x /\ sendloop x = false /\ idle x = true /\ e_comp (ent (core x) 1) = [Err EIdle] /\ e_comp (ent (core x) 2) = [Err EIdle]
  /\ e_st (ent (core x) 1) = Retired.
Proof. split; [exists [XSubmit 1 0 0 true; XIdleExit; XSubmit 2 0 0 true; XCore Close]; reflexivity|]. vm_compute. auto 10. Qed.

(* the loop function on a builder with priorities 0,12,5,0,3 (callers 1..5), limit 2: Take(2) pops the high-priority entry 2 (not counted) and 3,
   count = 1 < 2, so Take(2) again pops 5 and 1 (the loop overshoots by design: the quota is soft); 4 stays.  Limit 0 with a high-priority entry: only that one is popped. *)
Example ex_build_loop : let pr := fun c => match c with 2 => 12 | 3 => 5 | 5 => 3 | _ => 0 end in
  build_with_limit pr (fun _ => entry0) (pop_max pr) 2 [1; 2; 3; 4; 5] = ([2; 3; 5; 1], [4])
  /\ build_with_limit pr (fun _ => entry0) (pop_max pr) 0 [1; 2; 3; 4; 5] = ([2], [1; 3; 4; 5])
  /\ build_with_limit pr (fun _ => entry0) (pop_max pr) 9 [1; 2; 3] = ([2; 3; 1], []).
Proof. vm_compute. auto. Qed.

(* MIXED queue at the exit of the send loop (seed C18-10): sync 1, async 2, sync 3, async 4 sit in the channel in that order.
   Both exits fail BOTH async entries -- the drain is a filter over the whole channel, C18_async_never_orphaned quantifies
   over every member of an arbitrary queue, not over a prefix -- and leave the sync entries alone (their callers watch
   the closed signal / their timer themselves) *)
Example ex_mixed_queue_idle_exit : let x0 := xget (xrun xinit mixed_queue) in let x := xget (xrun xinit (mixed_queue ++ [XIdleExit])) in
  chq x0 = [4; 3; 2; 1] (* newest first: the sync entry 1 is the one the loop would receive first *) /\ xreach x /\ chq x = [] /\ e_comp (ent (core x) 2) = [Err EIdle] /\ e_comp (ent (core x) 4) = [Err EIdle]
  /\ e_comp (ent (core x) 1) = [] /\ e_st (ent (core x) 1) = Queued /\ e_comp (ent (core x) 3) = [] /\ e_st (ent (core x) 3) = Queued.
Proof. split; [vm_compute; reflexivity|]. split; [exists (mixed_queue ++ [XIdleExit]); reflexivity|]. vm_compute. auto 10. Qed.
Example ex_mixed_queue_closed_exit : let x := xget (xrun xinit (mixed_queue ++ [XCore Close; XSendExit])) in
  xreach x /\ chq x = [] /\ e_comp (ent (core x) 2) = [Err EClosed] /\ e_comp (ent (core x) 4) = [Err EClosed]
  /\ e_comp (ent (core x) 1) = [] /\ e_comp (ent (core x) 3) = []
  /\ (exists x', xstep x (XCore (Abort 1 EClosed)) = Some x') /\ (exists x', xstep x (XCore (Abort 3 EClosed)) = Some x').
Proof. split; [exists (mixed_queue ++ [XCore Close; XSendExit]); reflexivity|]. vm_compute. repeat split; eauto. Qed.

(* pool: call 1 on connection 0 of generation 0, CloseAddr, call 2 goes to generation 1; call 1 returns the closed error *)
Example ex_pool : let p := pget (prun pinit [PRoute 1 0 0; PCore 0 0 (Build 1 1); PCore 0 0 (Store 1); PCloseAddr; PRoute 2 1 0;
                                              PCore 0 0 (Abort 1 EClosed); PCore 1 1 (Build 2 1)]) in
  p_gen p = 1 /\ p_home p 1 = Some (0, 0) /\ p_home p 2 = Some (1, 1) /\ e_ret (ent (p_cl p 0 0) 1) = Some (Err EClosed)
  /\ e_st (ent (p_cl p 1 1) 2) = Built 1 /\ ent (p_cl p 1 1) 1 = entry0.
Proof. vm_compute. auto 10. Qed.

(* recv-loop panic between Load and deliver: the entry stays in the table, its (re-sent) response is delivered once *)
Example ex_recv_panic : let s := get (run init [Submit 1 0; Build 1 1; Store 1; RecvLoad 0 1 1; RecvPanic 0; RecvLoad 0 1 1; RecvFinish 0; Return 1]) in
  e_ret (ent s 1) = Some (Resp 1) /\ e_comp (ent s 1) = [Resp 1] /\ tab s = [].
Proof. vm_compute. auto. Qed.

Example ex_unary : exists u, urun uinit [UCall 1; UCall 2; UReply 1; UClose; UFail 2 EClosed; UCall 3] = Some u
  /\ ucalls u 1 = UDone (Resp 1) /\ ucalls u 2 = UDone (Err EClosed) /\ ucalls u 3 = UDone (Err EClosed).
Proof. eexists; split; [vm_compute; reflexivity|]. vm_compute. auto. Qed.

(* limit 1, three requests in one build: 1 is built, 2 and 3 stay behind; the waiting send loop cannot build again until
   the wake-up (or an arrival); after XWake the leftovers are built *)
Example ex_leftover_wake : let x := xget (xrun xinit
    [XSubmit 1 0 0 false; XSubmit 2 0 0 true; XSubmit 3 0 0 false; XFetch 1; XFetch 2; XFetch 3; XBuildRound (Some 1) [1]]) in
  inb x = [3; 2] /\ ready x = false /\ xstep x (XBuildRound (Some 1) [2]) = None
  /\ alloc (core (xget (xrun x [XWake; XBuildRound (Some 1) [2]; XWake; XBuildRound (Some 1) [3]]))) = [(3, 3); (2, 2); (1, 1)].
Proof. vm_compute. auto. Qed.

(* run loop: callback 0 appends 3 and 4 while it runs, 1 appends 5: everything runs once, in append order *)
Example ex_runloop : r_done (rl_exec 50 (fun t => match t with 0 => [3; 4] | 1 => [5] | _ => [] end)
                                    (mkR [0; 1; 2] [] [] [0; 1; 2])) = [0; 1; 2; 3; 4; 5].
Proof. vm_compute. reflexivity. Qed.

(* collapse: A (caller 1) starts the flight for key 7, B (caller 2) joins it, A is cancelled, the flight returns: B gets the
   shared response; a caller of key 8 gets its own flight *)
Example ex_collapse : exists s, crun cinit [CJoin 1 7; CJoin 2 7; CJoin 3 8; CAbort 1 ECtx; CFlightDone 0 (Resp 7); CDeliver 2;
                                            CFlightDone 1 (Resp 8); CDeliver 3] = Some s
  /\ c_call s 1 = CRet (Err ECtx) /\ c_call s 2 = CRet (Resp 7) /\ c_call s 3 = CRet (Resp 8) /\ c_nfl s = 2.
Proof. eexists; split; [vm_compute; reflexivity|]. vm_compute. auto. Qed.

(* the collapse key: a plain full-region request is collapsible, one with TxnInfos or Keys is not, whichever entry it takes;
   two plain requests of one (region, start, async flag) get the same flight key, a TxnInfos request a key of its own *)
Example ex_collapse_key : let kenc := fun k : nat * nat * bool => let '(a, b, c) := k in a + 100 * b + (if c then 1 else 0) * 50 in
  let plain := mkCmd 7 30 31 false [] [] in let batch := mkCmd 7 30 31 false [(30, 1)] [] in let lite := mkCmd 7 30 31 false [] [9] in
  collapsible plain = true /\ collapsible batch = false /\ collapsible lite = false
  /\ flight_key kenc plain 1 = flight_key kenc plain 2 /\ flight_key kenc batch 3 <> flight_key kenc plain 1
  /\ flight_key kenc batch 3 <> flight_key kenc batch 4.
Proof. vm_compute. repeat split; discriminate. Qed.

(* the wrapper: group 3 (priority 12) without override -> 12, with override 5 -> 5, background group 9 -> 0; a refused call;
   a response replaced by the response gate; caller 7's own response passing through *)
Example ex_gate : let gp := fun g => match g with 1 => 1 | 2 => 8 | 3 => 12 | _ => 0 end in
  gate_priority 9 gp (mkG true 0 3 0) = 12 /\ gate_priority 9 gp (mkG true 5 3 0) = 5 /\ gate_priority 9 gp (mkG true 0 9 0) = 0
  /\ gate_priority 9 gp (mkG false 0 3 0) = 0
  /\ gate_result 9 (mkG true 0 2 1) (Some (Resp 7)) = Some GReqErr /\ gate_result 9 (mkG true 0 2 2) (Some (Resp 7)) = Some GRespErr
  /\ gate_result 9 (mkG true 0 9 2) (Some (Resp 7)) = Some (GInner (Resp 7)) /\ gate_result 9 (mkG true 0 2 0) None = None.
Proof. vm_compute. auto 10. Qed.

(* own error: caller 1 times out, caller 2's entry is failed by the stream: 1 has its own flag and no completion, 2's
   completion is the stream error; nobody holds the other's error *)
Example ex_own_error : let s := get (run init [Submit 1 0; Submit 2 0; Build 1 1; Build 2 2; Store 1; Store 2; Abort 1 ETimeout; StreamFail 0; Return 2]) in
  e_ret (ent s 1) = Some (Err ETimeout) /\ e_canceled (ent s 1) = true /\ e_comp (ent s 1) = [Err EStream]
  /\ e_ret (ent s 2) = Some (Err EStream) /\ e_canceled (ent s 2) = false.
Proof. vm_compute. auto. Qed.
