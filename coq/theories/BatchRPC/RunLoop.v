(* C18 — one layer out from the batch client:
   (1) util/async.RunLoop, the executor on which the batch recv loop schedules every asynchronous completion
       (entry.response -> cb.Schedule -> RunLoop.Append; the owner calls RunLoop.Exec): two lists, `runnable` (receives
       Append, under the lock) and `running` (the round being executed), swapped at the start of every round;
   (2) reqCollapse (client_collapse.go): full-region ResolveLock requests with the same key share ONE flight
       (singleflight) that is sent with context.Background(), i.e. is owned by no caller. *)
From Coq Require Import List Arith Bool Lia.
Import ListNotations.
From Verif Require Import BatchRPC.Model.

(* ---------------------------------------------------------------- RunLoop *)
Record rstate := mkR { r_runnable : list nat; r_running : list nat; r_done : list nat; r_log : list nat }.
Inductive rlabel :=
| RAppend (fs : list nat)   (* Append, from any goroutine -- also from a callback that is running (re-entrant) *)
| RStart                    (* Exec / run: no round in progress, runnable not empty: running, runnable := runnable, [] *)
| RRunOne                   (* the next callback of the round is executed *)
| RInterrupt.               (* context done during a round: the rest of the round goes back in front of runnable *)

Definition rstep (st : rstate) (l : rlabel) : option rstate :=
  match l with
  | RAppend fs => Some (mkR (r_runnable st ++ fs) (r_running st) (r_done st) (r_log st ++ fs))
  | RStart => match r_running st, r_runnable st with
              | [], _ :: _ => Some (mkR [] (r_runnable st) (r_done st) (r_log st))
              | _, _ => None
              end
  | RRunOne => match r_running st with
               | t :: r => Some (mkR (r_runnable st) r (r_done st ++ [t]) (r_log st))
               | [] => None
               end
  | RInterrupt => Some (mkR (r_running st ++ r_runnable st) [] (r_done st) (r_log st))
  end.

Fixpoint rrun (st : rstate) (ls : list rlabel) : option rstate :=
  match ls with [] => Some st | l :: r => match rstep st l with Some st' => rrun st' r | None => None end end.
Definition rinit : rstate := mkR [] [] [] [].
Definition rreach (st : rstate) : Prop := exists ls, rrun rinit ls = Some st.

(* executable driver used by the differential: callbacks append their children while they run *)
Fixpoint rl_exec (fuel : nat) (spawn : nat -> list nat) (st : rstate) : rstate :=
  match fuel with
  | O => st
  | S f =>
      match r_running st with
      | t :: _ =>
          match rstep st RRunOne with
          | Some st1 => match rstep st1 (RAppend (spawn t)) with Some st2 => rl_exec f spawn st2 | None => st1 end
          | None => st
          end
      | [] => match rstep st RStart with Some st1 => rl_exec f spawn st1 | None => st end
      end
  end.

Lemma rstep_inv : forall st l st', rstep st l = Some st' ->
  r_done st ++ r_running st ++ r_runnable st = r_log st -> r_done st' ++ r_running st' ++ r_runnable st' = r_log st'.
Proof.
  intros st l st' H I. destruct l; simpl in H.
  - inversion H; subst; simpl. rewrite <- I. now rewrite !app_assoc.
  - destruct (r_running st) eqn:E1; try discriminate. destruct (r_runnable st) eqn:E2; try discriminate.
    inversion H; subst; simpl. rewrite <- I. simpl. now rewrite app_nil_r.
  - destruct (r_running st) eqn:E1; try discriminate. inversion H; subst; simpl. rewrite <- I. now rewrite <- app_assoc.
  - inversion H; subst; simpl. exact I.
Qed.

Lemma rreach_inv : forall st, rreach st -> r_done st ++ r_running st ++ r_runnable st = r_log st.
Proof.
  intros st [ls H]. revert st H.
  assert (G : forall ls0 s0 st, r_done s0 ++ r_running s0 ++ r_runnable s0 = r_log s0 -> rrun s0 ls0 = Some st ->
              r_done st ++ r_running st ++ r_runnable st = r_log st).
  { induction ls0 as [|l r IH]; simpl; intros s0 st I H; [inversion H; subst; auto|].
    destruct (rstep s0 l) eqn:E; [|discriminate]. eapply IH; [eapply rstep_inv; eauto | eauto]. }
  intros st H. eapply G; [|exact H]. reflexivity.
Qed.

(* ---------------------------------------------------------------- reqCollapse (single flight) *)
Inductive ccall := CIdle | CWait (f : nat) | CRet (r : result).
Record cstate := mkC {
  c_nfl : nat;                          (* number of flights ever started *)
  c_fkey : nat -> nat;                  (* key of a flight *)
  c_fres : nat -> option result;        (* its result, once the shared request has returned *)
  c_cur : nat -> option nat;            (* singleflight: the flight currently registered under a key *)
  c_call : nat -> ccall;                (* callers *)
  c_key : nat -> nat;                   (* the key a caller asked for *)
  c_joined : nat -> option nat          (* ghost: the flight a caller joined *)
}.
Inductive clabel :=
| CJoin (c k : nat)             (* collapse(): sf.DoChan(key, ...) -- starts the shared request unless one is registered *)
| CFlightDone (f : nat) (r : result)  (* the shared SendRequest(context.Background(), ...) returned; singleflight forgets the key *)
| CDeliver (c : nat)            (* rs := <-rsC *)
| CAbort (c : nat) (e : errk).  (* the caller's own ctx.Done() / timer *)

Definition updo {A : Type} (f : nat -> A) (k : nat) (v : A) : nat -> A := fun k' => if Nat.eqb k' k then v else f k'.

Definition cstep (s : cstate) (l : clabel) : option cstate :=
  match l with
  | CJoin c k =>
      match c_call s c with
      | CIdle =>
          match c_cur s k with
          | Some f => Some (mkC (c_nfl s) (c_fkey s) (c_fres s) (c_cur s) (updo (c_call s) c (CWait f)) (updo (c_key s) c k) (updo (c_joined s) c (Some f)))
          | None => let f := c_nfl s in
                    Some (mkC (S f) (updo (c_fkey s) f k) (updo (c_fres s) f None) (updo (c_cur s) k (Some f))
                              (updo (c_call s) c (CWait f)) (updo (c_key s) c k) (updo (c_joined s) c (Some f)))
          end
      | _ => None
      end
  | CFlightDone f r =>
      if Nat.ltb f (c_nfl s) && match c_fres s f with None => true | Some _ => false end
         && match r with Resp p => Nat.eqb p (c_fkey s f) | Err _ => true end  (* own response of the layer below *)
      then Some (mkC (c_nfl s) (c_fkey s) (updo (c_fres s) f (Some r))
                     (match c_cur s (c_fkey s f) with
                      | Some f' => if Nat.eqb f' f then updo (c_cur s) (c_fkey s f) None else c_cur s
                      | None => c_cur s end)
                     (c_call s) (c_key s) (c_joined s))
      else None
  | CDeliver c =>
      match c_call s c with
      | CWait f => match c_fres s f with
                   | Some r => Some (mkC (c_nfl s) (c_fkey s) (c_fres s) (c_cur s) (updo (c_call s) c (CRet r)) (c_key s) (c_joined s))
                   | None => None end
      | _ => None
      end
  | CAbort c e =>
      match c_call s c, e with
      | CWait _, ECtx | CWait _, ETimeout =>
          Some (mkC (c_nfl s) (c_fkey s) (c_fres s) (c_cur s) (updo (c_call s) c (CRet (Err e))) (c_key s) (c_joined s))
      | _, _ => None
      end
  end.

Fixpoint crun (s : cstate) (ls : list clabel) : option cstate :=
  match ls with [] => Some s | l :: r => match cstep s l with Some s' => crun s' r | None => None end end.
Definition cinit : cstate := mkC 0 (fun _ => 0) (fun _ => None) (fun _ => None) (fun _ => CIdle) (fun _ => 0) (fun _ => None).
Definition creach (s : cstate) : Prop := exists ls, crun cinit ls = Some s.

(* ---------------------------------------------------------------- which requests may share a flight: the collapse key *)
(* a ResolveLock command as reqCollapse sees it *)
Record rcmd := mkCmd {
  rc_region : nat; rc_start : nat; rc_commit : nat; rc_isasync : bool;
  rc_txninfos : list (nat * nat);   (* batch resolve (GC worker) *)
  rc_keys : list nat                (* resolve lock lite *)
}.

(* tryCollapseRequest (sync entry) and SendRequestAsync (async entry) use the SAME test: only a full-region ResolveLock --
   no keys, no txn infos -- is collapsed; everything else goes straight to the wrapped client *)
Definition collapsible (r : rcmd) : bool :=
  match rc_keys r, rc_txninfos r with [], [] => true | _, _ => false end.

(* resolveLockCollapseKey: region id, start version, IsAsync (the commit version is NOT part of it) *)
Definition collapse_key (r : rcmd) : nat * nat * bool := (rc_region r, rc_start r, rc_isasync r).

(* the key under which caller c's request enters the single-flight group: a collapsible request the encoding of its
   collapse key, any other request a key of its own (it is not collapsed at all) *)
Definition flight_key (kenc : nat * nat * bool -> nat) (r : rcmd) (c : nat) : nat :=
  if collapsible r then 2 * kenc (collapse_key r) else 2 * c + 1.
