(* C18 — consequences of the invariant: the lemmas behind the theorems of Props.v *)
From Coq Require Import List Arith Bool Lia Sorted.
Import ListNotations.
From Verif Require Import BatchRPC.Model BatchRPC.Proofs BatchRPC.Proofs2.

(* ---------------------------------------------------------------- how one step can change one entry *)
(* error kinds that only the caller itself produces (its context / its timer) *)
Definition own_only (k : errk) : bool := match k with ECtx | ETimeout => true | _ => false end.

Inductive etrans : entry -> entry -> Prop :=
| T_submit h : etrans entry0 (mkEntry h Queued [] false None)
| T_st e st : (st = Retired \/ (exists i, st = Built i /\ e_st e = Queued /\ e_canceled e = false)
               \/ (exists i, st = Stored i /\ e_st e = Built i)) -> etrans e (set_st e st)
| T_err e k : own_only k = false -> etrans e (complete e (Err k))
| T_resp e p : e_canceled e = false -> etrans e (complete e (Resp p))
| T_abort e k : e_ret e = None -> etrans e (mkEntry (e_host e) (e_st e) (e_comp e) true (Some (Err k)))
| T_return e r : e_ret e = None -> etrans e (mkEntry (e_host e) (e_st e) (e_comp e) (e_canceled e) (Some r)).

Lemma upd_etrans : forall (f : caller -> entry) c e, etrans (f c) e ->
  forall c', upd f c e c' = f c' \/ etrans (f c') (upd f c e c').
Proof.
  intros f c e T c'. destruct (Nat.eq_dec c' c) as [E|N]; [subst; rewrite upd_same; now right | left; now apply upd_other].
Qed.

Lemma step_etrans : forall s l s', Inv s -> step s l = Some s' ->
  forall c, ent s' c = ent s c \/ etrans (ent s c) (ent s' c).
Proof.
  intros s l s' I H c0. destruct l; simpl in H.
  - destruct (e_st (ent s c)) eqn:ES; try discriminate. inv_some. simpl.
    apply upd_etrans. destruct (I_good s I c) as (_ & _ & _ & _ & G5). rewrite (G5 ES). constructor.
  - destruct (e_st (ent s c)) eqn:ES; try discriminate.
    destruct (negb (e_canceled (ent s c)) && (next_id s <? i)) eqn:EG; try discriminate. inv_some. simpl.
    apply andb_prop in EG. destruct EG as [EC _]. apply negb_true_iff in EC.
    apply upd_etrans. apply T_st. right; left. exists i. auto.
  - destruct (e_st (ent s c)); try discriminate. destruct (e_canceled (ent s c)); try discriminate. inv_some. simpl.
    apply upd_etrans. unfold retire. apply T_st. now left.
  - destruct (e_st (ent s c)); try discriminate. inv_some. simpl. apply upd_etrans. constructor; reflexivity.
  - destruct (e_st (ent s c)); try discriminate.
    + destruct (e_canceled (ent s c)); try discriminate. inv_some. simpl. apply upd_etrans. constructor; reflexivity.
    + inv_some. simpl. apply upd_etrans. constructor; reflexivity.
  - destruct (e_st (ent s c)) eqn:ES; try discriminate. inv_some. simpl. apply upd_etrans. apply T_st. right; right. exists i; auto.
  - destruct (e_st (ent s c)); try discriminate.
    destruct (loaded_on (loops s (e_host (ent s c))) i); try discriminate. inv_some. simpl. apply upd_etrans. constructor; reflexivity.
  - destruct (loops s h); try discriminate. destruct (lookup i (tab s)).
    + destruct (Nat.eqb (e_host (ent s c)) h && match lookup i (alloc s) with Some c' => Nat.eqb p c' | None => true end); try discriminate.
      inv_some. now left.
    + inv_some. now left.
  - destruct (loops s h); try discriminate. inv_some. simpl. apply upd_etrans.
    destruct (e_canceled (ent s c)) eqn:EC; [unfold retire; apply T_st; now left | now constructor].
  - destruct (loops s h); try discriminate. destruct (closed s); [inv_some; now left|].
    destruct (fail_pending h (tab s) (ent s)) as [t' f'] eqn:EF.
    assert (Es : ent s' = f') by (destruct (Nat.eqb ep (epoch s)); inv_some; reflexivity).
    rewrite Es.
    destruct (fail_pending_spec _ _ _ _ _ (tab_callers_nodup s I) EF) as (A & B & C).
    destruct (in_dec Nat.eq_dec c0 (map snd (tab s))) as [Hin|Hn]; [|left; apply C; tauto].
    destruct (Nat.eq_dec (e_host (ent s c0)) h) as [E|N]; [|left; apply C; tauto].
    right. rewrite B; auto. constructor; reflexivity.
  - assert (H' : (if is_abort_kind k && match k with EClosed => closed s | _ => true end
                  then Some (with_ent s (upd (ent s) c (mkEntry (e_host (ent s c)) (e_st (ent s c)) (e_comp (ent s c)) true (Some (Err k)))))
                  else None) = Some s' /\ e_ret (ent s c) = None).
    { destruct (e_st (ent s c)); try congruence; destruct (e_ret (ent s c)); try discriminate; auto. }
    clear H. destruct H' as [H ER].
    destruct (is_abort_kind k && match k with EClosed => closed s | _ => true end); try discriminate.
    inv_some; simpl; apply upd_etrans; now constructor.
  - destruct (e_ret (ent s c)) eqn:ER; try discriminate.
    destruct (e_comp (ent s c)) eqn:EC; try discriminate. inv_some. simpl. rewrite <- EC. apply upd_etrans. now constructor.
  - inv_some. now left.
  - inv_some. now left.
  - destruct (loops s h); try discriminate; inv_some; now left.
  - destruct (loops s h); try discriminate. destruct (closed s); try discriminate. inv_some. now left.
  - destruct (e_st (ent s c)); try discriminate.
    destruct (closed s && negb (loaded_on (loops s (e_host (ent s c))) i)); try discriminate. inv_some. simpl. apply upd_etrans. constructor; reflexivity.
  - destruct (e_st (ent s c)); try discriminate. destruct (closed s); try discriminate. inv_some. simpl. apply upd_etrans. constructor; reflexivity.
  - destruct (e_st (ent s c)); try discriminate. inv_some. simpl. apply upd_etrans. constructor; reflexivity.
Qed.

Lemma etrans_ret_stable : forall e e' r, etrans e e' -> e_ret e = Some r -> e_ret e' = Some r.
Proof. intros e e' r T H. destruct T; simpl in *; auto; congruence. Qed.

Lemma etrans_canceled_resp : forall e e' p, etrans e e' -> e_canceled e = true ->
  In (Resp p) (e_comp e') -> In (Resp p) (e_comp e).
Proof.
  intros e e' p T HC H. destruct T; simpl in *; auto; try discriminate; try congruence.
  apply in_app_or in H. destruct H as [H|[H|[]]]; auto. discriminate.
Qed.

Lemma etrans_comp_prefix : forall e e', etrans e e' -> exists l, e_comp e' = e_comp e ++ l.
Proof.
  intros e e' T. destruct T; simpl; try (exists []; now rewrite app_nil_r); eauto.
Qed.

Lemma etrans_canceled_stays : forall e e', etrans e e' -> e_canceled e = true -> e_canceled e' = true.
Proof. intros e e' T H. destruct T; simpl in *; auto. Qed.

Lemma etrans_skipped_st : forall e e', etrans e e' -> e_canceled e = true ->
  (e_st e = Queued \/ e_st e = Retired) -> (e_st e' = Queued \/ e_st e' = Retired).
Proof.
  intros e e' T HC HS. destruct T; simpl in *; auto; try discriminate.
  destruct H as [E|[[i (E & _ & E2)]|[i (E & E2)]]]; subst; auto; [congruence|].
  destruct HS as [E|E]; rewrite E in E2; discriminate.
Qed.

(* ---------------------------------------------------------------- run-level statements *)
Lemma run_ret_stable : forall ls s s' c r, Inv s -> run s ls = Some s' ->
  e_ret (ent s c) = Some r -> e_ret (ent s' c) = Some r.
Proof.
  induction ls as [|l rest IH]; simpl; intros s s' c r I H HR; [inversion H; subst; auto|].
  destruct (step s l) as [s1|] eqn:E; [|discriminate].
  eapply IH; [eapply step_inv; eauto | eauto |].
  destruct (step_etrans _ _ _ I E c) as [Eq|T]; [now rewrite Eq | eapply etrans_ret_stable; eauto].
Qed.

Lemma run_comp_prefix : forall ls s s' c, Inv s -> run s ls = Some s' ->
  exists l, e_comp (ent s' c) = e_comp (ent s c) ++ l.
Proof.
  induction ls as [|l rest IH]; simpl; intros s s' c I H; [inversion H; subst; exists []; now rewrite app_nil_r|].
  destruct (step s l) as [s1|] eqn:E; [|discriminate].
  destruct (IH _ _ c (step_inv _ _ _ I E) H) as [l2 H2].
  destruct (step_etrans _ _ _ I E c) as [Eq|T].
  - rewrite Eq in H2. eauto.
  - destruct (etrans_comp_prefix _ _ T) as [l1 H1]. rewrite H1 in H2. exists (l1 ++ l2). now rewrite app_assoc.
Qed.

Lemma run_app : forall l1 l2 s, run s (l1 ++ l2) = match run s l1 with Some s1 => run s1 l2 | None => None end.
Proof. induction l1 as [|l r IH]; simpl; intros; auto. destruct (step s l); auto. Qed.

(* ---------------------------------------------------------------- ids *)
Lemma sorted_nodup_fst : forall l : list (id * caller), StronglySorted newer l -> NoDup (map fst l).
Proof.
  induction l as [|a r IH]; simpl; intros S; [constructor|].
  inversion S as [|? ? S' F]; subst. constructor; auto.
  rewrite Forall_forall in F. intros Hin. apply in_map_iff in Hin. destruct Hin as [x [E Hx]].
  apply F in Hx. unfold newer in Hx. lia.
Qed.

Lemma ids_fresh : forall s, reachable s ->
  StronglySorted newer (alloc s)
  /\ NoDup (map fst (alloc s))
  /\ (forall i c c', In (i, c) (alloc s) -> In (i, c') (alloc s) -> c = c')
  /\ (forall i c, In (i, c) (tab s) -> In (i, c) (alloc s))
  /\ NoDup (map fst (tab s))
  /\ (forall c i s', step s (Build c i) = Some s' ->
        (forall j c', In (j, c') (alloc s) -> j < i) /\ alloc s' = (i, c) :: alloc s).
Proof.
  intros s R. pose proof (reachable_inv s R) as I.
  split; [apply (I_alloc_sorted s I)|].
  split; [apply sorted_nodup_fst, (I_alloc_sorted s I)|].
  split; [intros; eapply sorted_unique; eauto; apply (I_alloc_sorted s I)|].
  split; [intros i c Hin; apply (I_st_alloc s I); left; now apply (I_tab_st s I)|].
  split; [apply (I_tab_nodup s I)|].
  intros c i s' H. simpl in H. destruct (e_st (ent s c)); try discriminate.
  destruct (negb (e_canceled (ent s c)) && (next_id s <? i)) eqn:EG; try discriminate. inv_some. simpl.
  apply andb_prop in EG. destruct EG as [_ EL]. apply Nat.ltb_lt in EL.
  split; auto. intros j c' Hin. apply (I_alloc_le s I) in Hin. lia.
Qed.

(* ---------------------------------------------------------------- own response *)
Lemma own_response : forall s c p, reachable s -> e_ret (ent s c) = Some (Resp p) ->
  p = c /\ In (Resp c) (e_comp (ent s c))
  /\ exists i, In (i, c) (alloc s) /\ forall c', In (i, c') (alloc s) -> c' = c.
Proof.
  intros s c p R H. pose proof (reachable_inv s R) as I.
  destruct (I_good s I c) as (_ & G2 & G3 & _).
  destruct (G3 _ H) as [Hin|[k [E _]]]; [|discriminate].
  pose proof (G2 _ Hin). subst p. split; auto. split; auto.
  destruct (I_resp_alloc s I _ _ Hin) as [i Hi]. exists i. split; auto.
  intros c' Hc'. eapply sorted_unique; eauto. apply (I_alloc_sorted s I).
Qed.

Lemma dispatch_by_id : forall s h ep i c p, reachable s -> loops s h = LLoaded ep i c p ->
  In (i, c) (tab s) /\ In (i, c) (alloc s) /\ e_host (ent s c) = h /\ p = c.
Proof.
  intros s h ep i c p R H. pose proof (reachable_inv s R) as I.
  destruct (I_loop s I _ _ _ _ _ H) as (A & B & C). repeat split; auto.
  apply (I_st_alloc s I). left. now apply (I_tab_st s I).
Qed.

(* ---------------------------------------------------------------- exactly once *)
Lemma comp_at_most_once : forall s c, reachable s -> length (e_comp (ent s c)) <= 1.
Proof.
  intros s c R. destruct (I_good s (reachable_inv s R) c) as (G1 & _).
  destruct (e_st (ent s c)); try (rewrite G1; simpl; lia). tauto.
Qed.

Lemma completed_when_retired : forall s c, reachable s -> e_st (ent s c) = Retired ->
  e_comp (ent s c) <> [] \/ e_ret (ent s c) <> None.
Proof.
  intros s c R H. destruct (I_good s (reachable_inv s R) c) as (G1 & _ & _ & G4 & _).
  rewrite H in G1. destruct G1 as [_ [G|G]]; auto.
Qed.

Lemma completed_when_table_empty : forall s c, reachable s -> tab s = [] ->
  e_st (ent s c) <> Fresh -> e_st (ent s c) <> Queued -> (forall i, e_st (ent s c) <> Built i) ->
  e_comp (ent s c) <> [] \/ e_ret (ent s c) <> None.
Proof.
  intros s c R HT H1 H2 H3. apply completed_when_retired; auto.
  destruct (e_st (ent s c)) eqn:ES; try congruence.
  all: try (exfalso; eapply H3; reflexivity).
  apply (I_st_tab s (reachable_inv s R)) in ES. rewrite HT in ES. destruct ES.
Qed.

Lemma return_enabled : forall s c r l, e_ret (ent s c) = None -> e_comp (ent s c) = r :: l ->
  exists s', step s (Return c) = Some s' /\ e_ret (ent s' c) = Some r.
Proof.
  intros s c r l H1 H2. simpl. rewrite H1, H2. eexists; split; [reflexivity|]. simpl. now rewrite upd_same.
Qed.

(* ---------------------------------------------------------------- failPendingRequests *)
Lemma fail_pending_total : forall s h s', reachable s ->
  closed s = false -> step s (StreamFail h) = Some s' ->
  (forall i c, In (i, c) (tab s') -> e_host (ent s' c) <> h)
  /\ (forall i c, In (i, c) (tab s) -> e_host (ent s c) = h ->
        e_comp (ent s' c) = [Err EStream] /\ e_st (ent s' c) = Retired /\ ~ In (i, c) (tab s'))
  /\ (forall i c, In (i, c) (tab s) -> e_host (ent s c) <> h -> In (i, c) (tab s') /\ ent s' c = ent s c).
Proof.
  intros s h s' R HC H. pose proof (reachable_inv s R) as I. simpl in H.
  destruct (loops s h) eqn:HL; try discriminate. rewrite HC in H.
  destruct (fail_pending h (tab s) (ent s)) as [t' f'] eqn:EF.
  assert (Es : ent s' = f' /\ tab s' = t') by (destruct (Nat.eqb ep (epoch s)); inv_some; split; reflexivity).
  destruct Es as [Es Et]. rewrite Es, Et. clear H.
  pose proof (tab_callers_nodup s I) as NDc.
  destruct (fail_pending_spec _ _ _ _ _ NDc EF) as (A & B & C).
  pose proof (fail_pending_host _ _ _ _ _ NDc EF) as HH.
  split; [|split].
  - intros i c Hin. rewrite A in Hin. apply filter_In in Hin. simpl in Hin. destruct Hin as [_ Hne].
    rewrite HH. intros E. rewrite E, Nat.eqb_refl in Hne. discriminate.
  - intros i c Hin Hh.
    assert (Hm : In c (map snd (tab s))) by (apply in_map_iff; exists (i, c); auto).
    rewrite B; auto. simpl.
    pose proof (I_tab_st s I _ _ Hin) as ES. destruct (I_good s I c) as (G1 & _). rewrite ES in G1. rewrite G1.
    repeat split; auto. rewrite A. intros Hf. apply filter_In in Hf. simpl in Hf. destruct Hf as [_ Hf].
    rewrite Hh, Nat.eqb_refl in Hf; discriminate.
  - intros i c Hin Hh. split; [|apply C; tauto].
    rewrite A. apply filter_In. split; auto. simpl. destruct (Nat.eqb_spec (e_host (ent s c)) h); simpl; [congruence | auto].
Qed.

(* regression witness for the branch as it was before fix a827fda: caller 0 on the direct stream (host 0), caller 1 on
   a forwarded stream (host 1); the forwarded stream fails first (wins the epoch CAS), then the direct stream fails:
   its loop holds epoch 0, loses the CAS and -- pre-fix -- re-creates the stream without failPendingRequests *)
Definition stale_epoch_run : list label :=
  [Submit 0 0; Submit 1 1; Build 0 1; Build 1 2; Store 0; Store 1; StreamFail 1].

Lemma prefix_loser_keeps_pending : exists s s', reachable s /\ closed s = false /\
  streamfail_prefix_loser s 0 = Some s' /\ In (1, 0) (tab s') /\ e_host (ent s' 0) = 0 /\ e_comp (ent s' 0) = [].
Proof.
  destruct (run init stale_epoch_run) as [s|] eqn:E; [|vm_compute in E; discriminate].
  assert (R : reachable s) by (exists stale_epoch_run; exact E).
  vm_compute in E. inversion E; subst. clear E.
  eexists; eexists. split; [exact R|]. split; [reflexivity|]. split; [vm_compute; reflexivity|].
  simpl. auto.
Qed.

(* ---------------------------------------------------------------- cancellation *)
Lemma canceled_never_delivered : forall s l s' c p, reachable s -> step s l = Some s' ->
  e_canceled (ent s c) = true -> In (Resp p) (e_comp (ent s' c)) -> In (Resp p) (e_comp (ent s c)).
Proof.
  intros s l s' c p R H HC Hin. pose proof (reachable_inv s R) as I.
  destruct (step_etrans _ _ _ I H c) as [Eq|T]; [now rewrite Eq in Hin | eapply etrans_canceled_resp; eauto].
Qed.

(* ---------------------------------------------------------------- monitor soundness *)
Lemma monitor_sound : forall s c r, reachable s -> e_ret (ent s c) = Some r -> obs_identity c r = true.
Proof.
  intros s c r R H. destruct r as [p|k]; simpl; auto.
  destruct (own_response _ _ _ R H) as [E _]. subst. apply Nat.eqb_refl.
Qed.
