(* C18 — the builder / send-loop / async layer refines the core system; builder rounds; async calls and Close *)
From Coq Require Import List Arith Bool Lia Sorted.
Import ListNotations.
From Verif Require Import BatchRPC.Model BatchRPC.Proofs BatchRPC.Proofs2 BatchRPC.Proofs3 BatchRPC.Proofs4 BatchRPC.Proofs5 BatchRPC.System.

(* ---------------------------------------------------------------- refinement *)
Lemma xstep_core_run : forall x l x', xstep x l = Some x' -> exists ls, run (core x) ls = Some (core x').
Proof.
  intros x l x' H. destruct l; unfold xstep in H.
  - destruct (step (core x) (Submit c h)) as [st|] eqn:E; [|discriminate].
    destruct (a && closed st).
    + destruct (step st (QueueFail c)) as [s2|] eqn:E2; inversion H; subst;
        [exists [Submit c h; QueueFail c] | exists [Submit c h]]; cbn [run core]; rewrite E; try rewrite E2; reflexivity.
    + destruct (a && idle x).
      * destruct (step st (IdleFail c)) as [s2|] eqn:E2; inversion H; subst;
          [exists [Submit c h; IdleFail c] | exists [Submit c h]]; cbn [run core]; rewrite E; try rewrite E2; reflexivity.
      * inversion H; subst. exists [Submit c h]. cbn [run core]. now rewrite E.
  - destruct (sendloop x && memb c (chq x) && negb (memb c (inb x)) && is_queued (e_st (ent (core x) c))); [|discriminate].
    inversion H; subst. exists []. reflexivity.
  - destruct (round_guard x lim takes); [|discriminate].
    destruct (run (core x) (build_labels (ent (core x)) (next_id (core x)) takes)) eqn:E; [|discriminate].
    inversion H; subst. eexists; exact E.
  - destruct (sendloop x); [|discriminate].
    destruct (run (core x) (map DropCanceled (filter (fun c => e_canceled (ent (core x) c)) (inb x)))) eqn:E; [|discriminate].
    inversion H; subst. eexists; exact E.
  - destruct (sendloop x); [|discriminate].
    destruct (run (core x) (map NoConn (inb x))) eqn:E; [|discriminate]. inversion H; subst. eexists; exact E.
  - destruct (sendloop x && closed (core x) && match inb x with [] => true | _ => false end); [|discriminate].
    destruct (run (core x) (map QueueFail (drained x))) eqn:E; [|discriminate]. inversion H; subst. eexists; exact E.
  - destruct (sendloop x && negb (closed (core x)) && match inb x with [] => true | _ => false end); [|discriminate].
    destruct (run (core x) (map IdleFail (drained x))) eqn:E; [|discriminate]. inversion H; subst. eexists; exact E.
  - destruct (sendloop x && match inb x with [] => false | _ => true end); [|discriminate].
    inversion H; subst. exists []. reflexivity.
  - destruct (core_allowed x l); [|discriminate]. destruct (step (core x) l) eqn:E; [|discriminate].
    inversion H; subst. exists [l]. cbn [run]. now rewrite E.
Qed.

Lemma xrun_core_run : forall ls x x', xrun x ls = Some x' -> exists cls, run (core x) cls = Some (core x').
Proof.
  induction ls as [|l r IH]; simpl; intros x x' H; [inversion H; subst; exists []; reflexivity|].
  destruct (xstep x l) as [x1|] eqn:E; [|discriminate].
  destruct (xstep_core_run _ _ _ E) as [l1 H1]. destruct (IH _ _ H) as [l2 H2].
  exists (l1 ++ l2). rewrite run_app, H1. exact H2.
Qed.

Lemma xreach_core : forall x, xreach x -> reachable (core x).
Proof. intros x [ls H]. destruct (xrun_core_run _ _ _ H) as [cls Hc]. exists cls. exact Hc. Qed.

(* ---------------------------------------------------------------- builder rounds *)
Lemma memb_In : forall c l, memb c l = true <-> In c l.
Proof.
  intros c l. unfold memb. rewrite existsb_exists. split.
  - intros [y [Hy E]]. apply Nat.eqb_eq in E. now subst.
  - intros H. exists c. split; auto. apply Nat.eqb_refl.
Qed.

Lemma round_discipline : forall x lim takes x', xstep x (XBuildRound lim takes) = Some x' ->
  (forall t, In t takes -> In t (inb x))
  /\ (forall r, In r (inb x') -> In r (inb x) /\ ~ In r takes /\ pri x r < high_pri /\ forall t, In t takes -> pri x r <= pri x t)
  /\ pri x' = pri x.
Proof.
  intros x lim takes x' H. simpl in H.
  destruct (round_guard x lim takes) eqn:G; [|discriminate].
  destruct (run (core x) (build_labels (ent (core x)) (next_id (core x)) takes)); [|discriminate].
  inversion H; subst; clear H. simpl.
  unfold round_guard in G. apply andb_prop in G. destruct G as [G _].
  apply andb_prop in G. destruct G as [_ G]. unfold round_ok in G.
  apply andb_prop in G. destruct G as [G G3]. apply andb_prop in G. destruct G as [_ G2].
  rewrite forallb_forall in G2, G3.
  split; [intros t Ht; apply memb_In; auto|]. split; auto.
  intros r Hr. apply filter_In in Hr. destruct Hr as [Hin Hn]. apply negb_true_iff in Hn.
  specialize (G3 _ Hin). rewrite Hn in G3. simpl in G3. apply andb_prop in G3. destruct G3 as [A B].
  split; auto. split; [intros Hc; apply memb_In in Hc; congruence|].
  split; [now apply Nat.ltb_lt|]. intros t Ht. rewrite forallb_forall in B. apply Nat.leb_le. auto.
Qed.

Lemma build_run_ids : forall takes f n s s', next_id s = n -> run s (build_labels f n takes) = Some s' ->
  alloc s' = rev (build_pairs f n takes) ++ alloc s
  /\ next_id s' = n + length (build_pairs f n takes)
  /\ map fst (build_pairs f n takes) = seq (S n) (length (build_pairs f n takes)).
Proof.
  induction takes as [|c r IH]; simpl; intros f n s s' Hn H.
  - inversion H; subst. simpl. repeat split; auto.
  - destruct (e_canceled (f c)); cbn [run] in H.
    + destruct (step s (DropCanceled c)) as [s1|] eqn:E; [|discriminate].
      assert (K : alloc s1 = alloc s /\ next_id s1 = next_id s).
      { simpl in E. destruct (e_st (ent s c)); try discriminate. destruct (e_canceled (ent s c)); try discriminate.
        inversion E; subst. auto. }
      destruct K as [Ka Kn]. destruct (IH f n s1 s' (eq_trans Kn Hn) H) as (A & B & C). rewrite Ka in A. auto.
    + destruct (step s (Build c (S n))) as [s1|] eqn:E; [|discriminate].
      assert (K : alloc s1 = (S n, c) :: alloc s /\ next_id s1 = S n).
      { simpl in E. destruct (e_st (ent s c)); try discriminate.
        destruct (negb (e_canceled (ent s c)) && (next_id s <? S n)); try discriminate. inversion E; subst. auto. }
      destruct K as [Ka Kn]. destruct (IH f (S n) s1 s' Kn H) as (A & B & C).
      split; [|split].
      * cbn [rev]. rewrite A, Ka, <- app_assoc. reflexivity.
      * cbn [length]. rewrite B. lia.
      * cbn [map fst length seq]. rewrite C. reflexivity.
Qed.

Lemma build_pairs_in : forall takes f n i c, In (i, c) (build_pairs f n takes) -> In c takes /\ e_canceled (f c) = false.
Proof.
  induction takes as [|c0 r IH]; simpl; intros f n i c Hin; [tauto|].
  destruct (e_canceled (f c0)) eqn:EC.
  - destruct (IH _ _ _ _ Hin); auto.
  - destruct Hin as [E|Hin]; [inversion E; subst; auto | destruct (IH _ _ _ _ Hin); auto].
Qed.

Lemma round_ids_consecutive : forall x lim takes x', xstep x (XBuildRound lim takes) = Some x' ->
  let ps := build_pairs (ent (core x)) (next_id (core x)) takes in
  alloc (core x') = rev ps ++ alloc (core x)
  /\ next_id (core x') = next_id (core x) + length ps
  /\ map fst ps = seq (S (next_id (core x))) (length ps)
  /\ (forall i c, In (i, c) ps -> In c takes /\ e_canceled (ent (core x) c) = false).
Proof.
  intros x lim takes x' H. unfold xstep in H.
  destruct (round_guard x lim takes); [|discriminate].
  destruct (run (core x) (build_labels (ent (core x)) (next_id (core x)) takes)) eqn:E; [|discriminate].
  inversion H; subst; clear H. cbn [core].
  destruct (build_run_ids _ _ _ _ _ eq_refl E) as (A & B & C).
  split; [exact A|]. split; [exact B|]. split; [exact C|]. intros i c Hin. eapply build_pairs_in; eauto.
Qed.

(* nothing popped is lost *)
Lemma build_labels_other : forall takes f n s s' c, ~ In c takes -> run s (build_labels f n takes) = Some s' -> ent s' c = ent s c.
Proof.
  induction takes as [|c0 r IH]; simpl; intros f n s s' c Hn H; [inversion H; subst; auto|].
  assert (c <> c0) by (intros E; subst; apply Hn; now left).
  assert (Hr : ~ In c r) by (intros Hin; apply Hn; now right).
  destruct (e_canceled (f c0)); cbn [run] in H.
  - destruct (step s (DropCanceled c0)) as [s1|] eqn:E; [|discriminate]. rewrite (IH _ _ _ _ _ Hr H).
    simpl in E. destruct (e_st (ent s c0)); try discriminate. destruct (e_canceled (ent s c0)); try discriminate.
    inversion E; subst. simpl. now apply upd_other.
  - destruct (step s (Build c0 (S n))) as [s1|] eqn:E; [|discriminate]. rewrite (IH _ _ _ _ _ Hr H).
    simpl in E. destruct (e_st (ent s c0)); try discriminate.
    destruct (negb (e_canceled (ent s c0)) && (next_id s <? S n)); try discriminate. inversion E; subst. simpl. now apply upd_other.
Qed.

Lemma nodupb_NoDup : forall l, nodupb l = true -> NoDup l.
Proof.
  induction l as [|c r IH]; simpl; intros H; [constructor|].
  apply andb_prop in H. destruct H as [A B]. constructor; auto.
  intros Hin. apply memb_In in Hin. rewrite Hin in A. discriminate.
Qed.

Lemma build_labels_popped : forall takes f n s s', NoDup takes -> run s (build_labels f n takes) = Some s' ->
  forall c, In c takes ->
    (e_canceled (f c) = true /\ e_st (ent s' c) = Retired /\ e_comp (ent s' c) = e_comp (ent s c))
    \/ (e_canceled (f c) = false /\ exists i, e_st (ent s' c) = Built i /\ In (i, c) (build_pairs f n takes)).
Proof.
  induction takes as [|c0 r IH]; simpl; intros f n s s' ND H c Hin; [tauto|].
  inversion ND as [|? ? Hn ND']; subst.
  destruct (e_canceled (f c0)) eqn:EC; cbn [run] in H.
  - destruct (step s (DropCanceled c0)) as [s1|] eqn:E; [|discriminate].
    destruct Hin as [E0|Hin].
    + subst c. left. rewrite (build_labels_other _ _ _ _ _ _ Hn H).
      simpl in E. destruct (e_st (ent s c0)); try discriminate. destruct (e_canceled (ent s c0)); try discriminate.
      inversion E; subst. simpl. rewrite upd_same. simpl. auto.
    + assert (c <> c0) by (intros E0; subst; tauto).
      destruct (IH _ _ _ _ ND' H c Hin) as [(A & B & C)|(A & i & B & C)]; [left | right; eauto].
      repeat split; auto. rewrite C.
      simpl in E. destruct (e_st (ent s c0)); try discriminate. destruct (e_canceled (ent s c0)); try discriminate.
      inversion E; subst. simpl. now rewrite upd_other.
  - destruct (step s (Build c0 (S n))) as [s1|] eqn:E; [|discriminate].
    destruct Hin as [E0|Hin].
    + subst c. right. split; auto. exists (S n). split; [|now left]. rewrite (build_labels_other _ _ _ _ _ _ Hn H).
      simpl in E. destruct (e_st (ent s c0)); try discriminate.
      destruct (negb (e_canceled (ent s c0)) && (next_id s <? S n)); try discriminate. inversion E; subst. simpl. now rewrite upd_same.
    + assert (c <> c0) by (intros E0; subst; tauto).
      destruct (IH _ _ _ _ ND' H c Hin) as [(A & B & C)|(A & i & B & C)]; [left | right].
      * repeat split; auto. rewrite C.
        simpl in E. destruct (e_st (ent s c0)); try discriminate.
        destruct (negb (e_canceled (ent s c0)) && (next_id s <? S n)); try discriminate. inversion E; subst. simpl. now rewrite upd_other.
      * split; auto. exists i. split; auto. now right.
Qed.

Lemma round_nothing_lost : forall x lim takes x', xstep x (XBuildRound lim takes) = Some x' ->
  forall c, In c (inb x) ->
    (In c takes /\ e_canceled (ent (core x) c) = true /\ e_st (ent (core x') c) = Retired)
    \/ (In c takes /\ e_canceled (ent (core x) c) = false /\ exists i, e_st (ent (core x') c) = Built i /\ In (i, c) (alloc (core x')))
    \/ (~ In c takes /\ In c (inb x') /\ ent (core x') c = ent (core x) c).
Proof.
  intros x lim takes x' H c Hin. pose proof (round_ids_consecutive _ _ _ _ H) as (A & _). unfold xstep in H.
  destruct (round_guard x lim takes) eqn:G; [|discriminate].
  destruct (run (core x) (build_labels (ent (core x)) (next_id (core x)) takes)) eqn:E; [|discriminate].
  inversion H; subst; clear H. cbn [core inb] in *.
  unfold round_guard in G. apply andb_prop in G. destruct G as [G _]. apply andb_prop in G. destruct G as [_ G].
  unfold round_ok in G. apply andb_prop in G. destruct G as [G _]. apply andb_prop in G. destruct G as [G _].
  apply nodupb_NoDup in G.
  destruct (in_dec Nat.eq_dec c takes) as [Ht|Hn].
  - destruct (build_labels_popped _ _ _ _ _ G E c Ht) as [(P & Q & _)|(P & i & Q & R)]; [left; auto | right; left].
    repeat split; auto. exists i. split; auto. rewrite A. apply in_or_app. left. now apply in_rev in R || (apply -> in_rev; exact R).
  - right; right. split; auto. split; [|eapply build_labels_other; eauto].
    apply filter_In. split; auto. destruct (memb c takes) eqn:M; auto. apply memb_In in M. tauto.
Qed.

(* the quota: entries are only left behind when the (soft) quota is used up *)
Lemma round_quota : forall x lim takes x', xstep x (XBuildRound lim takes) = Some x' ->
  inb x' = [] \/ exists l, lim = Some l /\ l <= counted (ent (core x)) (pri x) takes.
Proof.
  intros x lim takes x' H. unfold xstep in H.
  destruct (round_guard x lim takes) eqn:G; [|discriminate].
  destruct (run (core x) (build_labels (ent (core x)) (next_id (core x)) takes)); [|discriminate].
  inversion H; subst; clear H. cbn [inb].
  unfold round_guard in G. apply andb_prop in G. destruct G as [_ G]. unfold quota_ok in G.
  apply orb_prop in G. destruct G as [G|G].
  - left. rewrite forallb_forall in G. induction (inb x) as [|a r IH]; simpl; auto.
    rewrite (G a (or_introl eq_refl)). simpl. apply IH. intros y Hy. apply G. now right.
  - right. destruct lim as [l|]; [|discriminate]. exists l. split; auto. now apply Nat.leb_le.
Qed.

(* ---------------------------------------------------------------- the retry of leftover entries (fix 7ad2a8a) *)
Lemma build_labels_succeeds : forall takes f n s, NoDup takes -> next_id s = n ->
  (forall c, In c takes -> ent s c = f c /\ e_st (f c) = Queued) ->
  exists s', run s (build_labels f n takes) = Some s'.
Proof.
  induction takes as [|c0 r IH]; simpl; intros f n s ND Hn Hq; [eexists; reflexivity|].
  inversion ND as [|? ? Hnot ND']; subst.
  destruct (Hq c0 (or_introl eq_refl)) as [E0 Q0].
  destruct (e_canceled (f c0)) eqn:EC; cbn [run].
  - assert (Es : step s (DropCanceled c0) = Some (with_ent s (upd (ent s) c0 (retire (ent s c0))))).
    { simpl. rewrite E0, Q0, EC. reflexivity. }
    rewrite Es. apply IH; auto. intros c Hc. simpl.
    assert (c <> c0) by (intros E; subst; tauto). rewrite upd_other by auto. apply Hq. now right.
  - assert (Es : step s (Build c0 (S (next_id s))) = Some (mkState (S (next_id s)) (tab s) (upd (ent s) c0 (set_st (ent s c0) (Built (S (next_id s))))) (loops s) (epoch s) (closed s) (outdated s) ((S (next_id s), c0) :: alloc s))).
    { simpl. rewrite E0, Q0, EC. simpl. assert (next_id s <? S (next_id s) = true) as -> by (apply Nat.ltb_lt; lia). reflexivity. }
    rewrite Es. apply IH; auto. intros c Hc. simpl.
    assert (c <> c0) by (intros E; subst; tauto). rewrite upd_other by auto. apply Hq. now right.
Qed.

Lemma filter_none : forall (A : Type) (p : A -> bool) (l : list A), (forall a, In a l -> p a = false) -> filter p l = [].
Proof.
  induction l as [|a r IH]; simpl; intros H; auto. rewrite (H a (or_introl eq_refl)). apply IH. intros b Hb. apply H. now right.
Qed.

Lemma nodupb_of_NoDup : forall l, NoDup l -> nodupb l = true.
Proof.
  induction l as [|c r IH]; simpl; intros H; auto. inversion H; subst. rewrite IH by auto.
  destruct (memb c r) eqn:M; auto. apply memb_In in M. tauto.
Qed.

(* progress: whenever the send loop is alive and an entry sits in a well-formed builder, the wake-up step is enabled
   -- no request has to arrive -- and after it a round that builds the entry is enabled (popping the whole builder is
   always a legal round: nothing stays behind) *)
Lemma wake_builds_leftover : forall x c, sendloop x = true -> NoDup (inb x) ->
  (forall c', In c' (inb x) -> e_st (ent (core x) c') = Queued) ->
  In c (inb x) -> e_canceled (ent (core x) c) = false ->
  exists x1, xstep x XWake = Some x1 /\ core x1 = core x /\ inb x1 = inb x
    /\ forall lim, exists x2 i, xstep x1 (XBuildRound lim (inb x)) = Some x2 /\ e_st (ent (core x2) c) = Built i /\ inb x2 = [].
Proof.
  intros x c HS ND HQ Hin HC.
  assert (Hw : xstep x XWake = Some (mkSys (core x) (chq x) (inb x) (pri x) (asy x) (sendloop x) true (idle x))).
  { simpl. rewrite HS. destruct (inb x); [destruct Hin | reflexivity]. }
  set (x1 := mkSys (core x) (chq x) (inb x) (pri x) (asy x) (sendloop x) true (idle x)).
  destruct (build_labels_succeeds (inb x) (ent (core x)) (next_id (core x)) (core x) ND eq_refl) as [s' Hr].
  { intros c' Hc'. split; auto. }
  assert (G : forall lim, round_guard x1 lim (inb x) = true).
  { intros lim. unfold round_guard, x1; simpl. rewrite HS. simpl. unfold round_ok, quota_ok.
    rewrite (nodupb_of_NoDup _ ND). simpl.
    assert (A : forallb (fun t => memb t (inb x)) (inb x) = true) by (apply forallb_forall; intros t Ht; now apply memb_In).
    rewrite A. simpl.
    assert (B : forallb (fun r => memb r (inb x) || ((pri x r <? high_pri) && forallb (fun t => pri x r <=? pri x t) (inb x))) (inb x) = true).
    { apply forallb_forall. intros r Hr0. apply memb_In in Hr0. now rewrite Hr0. }
    rewrite B. reflexivity. }
  exists x1. split; [exact Hw|]. split; [reflexivity|]. split; [reflexivity|]. intros lim. eexists.
  assert (Hx2 : xstep x1 (XBuildRound lim (inb x)) = Some (mkSys s' (chq x) (filter (fun c0 => negb (memb c0 (inb x))) (inb x)) (pri x) (asy x) (sendloop x) false (idle x))).
  { unfold xstep. rewrite G. unfold x1; cbn [core inb chq pri asy sendloop]. rewrite Hr. reflexivity. }
  destruct (build_labels_popped _ _ _ _ _ ND Hr c Hin) as [(P & _)|(_ & i & Q & _)]; [congruence|].
  exists i. split; [exact Hx2|]. split; [exact Q|].
  cbn [inb]. apply filter_none. intros a Ha. apply memb_In in Ha. now rewrite Ha.
Qed.

(* before the fix there was no wake-up: a send loop that is waiting (not ready) builds nothing, and only the arrival of a
   request (XFetch) or the wake-up makes it ready again *)
Lemma leftover_needs_wake : forall x l x', ready x = false -> xstep x l = Some x' ->
  l <> XWake -> (forall c, l <> XFetch c) ->
  ready x' = false /\ (forall lim takes, xstep x (XBuildRound lim takes) = None).
Proof.
  intros x l x' HR H N1 N2. split.
  - destruct l; unfold xstep in H.
    + destruct (step (core x) (Submit c h)); [|discriminate]. inversion H; subst; auto.
    + exfalso. eapply N2; eauto.
    + unfold round_guard in H. rewrite HR in H. rewrite andb_false_r in H. simpl in H. discriminate.
    + destruct (sendloop x); [|discriminate]. destruct (run (core x) _); [|discriminate]. inversion H; subst; auto.
    + destruct (sendloop x); [|discriminate]. destruct (run (core x) _); [|discriminate]. inversion H; subst; auto.
    + destruct (sendloop x && closed (core x) && _); [|discriminate]. destruct (run (core x) _); [|discriminate]. inversion H; subst; auto.
    + destruct (sendloop x && negb (closed (core x)) && _); [|discriminate]. destruct (run (core x) _); [|discriminate]. inversion H; subst; auto.
    + congruence.
    + destruct (core_allowed x l); [|discriminate]. destruct (step (core x) l); [|discriminate]. inversion H; subst; auto.
  - intros lim takes. unfold xstep, round_guard. rewrite HR. now rewrite andb_false_r.
Qed.

(* ---------------------------------------------------------------- a queued entry is only touched by its own steps *)
Lemma step_keeps_queued_entry : forall s l s' c, Inv s -> e_st (ent s c) = Queued -> e_comp (ent s c) = [] ->
  step s l = Some s' ->
  (forall h, l <> Submit c h) -> (forall i, l <> Build c i) -> l <> DropCanceled c -> l <> NoConn c -> l <> InitFail c ->
  (forall k, l <> Abort c k) -> l <> QueueFail c -> l <> IdleFail c ->
  ent s' c = ent s c.
Proof.
  intros s l s' c I HQ HC H N1 N2 N3 N4 N5 N6 N7 N8.
  assert (Hup : forall c0 e, c0 <> c -> upd (ent s) c0 e c = ent s c) by (intros; apply upd_other; auto).
  destruct l; simpl in H.
  - destruct (e_st (ent s c0)); try discriminate. inv_some. simpl. apply Hup. intros E; subst. eapply N1; eauto.
  - destruct (e_st (ent s c0)); try discriminate. destruct (negb (e_canceled (ent s c0)) && (next_id s <? i)); try discriminate.
    inv_some. simpl. apply Hup. intros E; subst. eapply N2; eauto.
  - destruct (e_st (ent s c0)); try discriminate. destruct (e_canceled (ent s c0)); try discriminate. inv_some. simpl.
    apply Hup. intros E; subst. now apply N3.
  - destruct (e_st (ent s c0)); try discriminate. inv_some. simpl. apply Hup. intros E; subst. now apply N4.
  - assert (c0 <> c) by (intros E; subst; now apply N5).
    destruct (e_st (ent s c0)); try discriminate; [destruct (e_canceled (ent s c0)); try discriminate|]; inv_some; simpl; auto.
  - destruct (e_st (ent s c0)) eqn:ES; try discriminate. inv_some. simpl. apply Hup. intros E; subst. congruence.
  - destruct (e_st (ent s c0)) eqn:ES; try discriminate. destruct (loaded_on (loops s (e_host (ent s c0))) i); try discriminate.
    inv_some. simpl. apply Hup. intros E; subst. congruence.
  - destruct (loops s h); try discriminate. destruct (lookup i (tab s)).
    + destruct (Nat.eqb (e_host (ent s c0)) h && match lookup i (alloc s) with Some c' => Nat.eqb p c' | None => true end); try discriminate.
      inv_some. reflexivity.
    + inv_some. reflexivity.
  - destruct (loops s h) eqn:EL; try discriminate. inv_some. simpl. apply Hup. intros E; subst.
    destruct (I_loop s I _ _ _ _ _ EL) as (A & _). apply (I_tab_st s I) in A. congruence.
  - destruct (loops s h); try discriminate. destruct (closed s); [inv_some; reflexivity|].
    destruct (fail_pending h (tab s) (ent s)) as [t' f'] eqn:EF.
    assert (Es : ent s' = f') by (destruct (Nat.eqb ep (epoch s)); inv_some; reflexivity). rewrite Es.
    destruct (fail_pending_spec _ _ _ _ _ (tab_callers_nodup s I) EF) as (_ & _ & C). apply C.
    intros [Hin _]. apply in_map_iff in Hin. destruct Hin as [[j c1] [E Hin]]. simpl in E; subst.
    apply (I_tab_st s I) in Hin. congruence.
  - assert (c0 <> c) by (intros E; subst; eapply N6; eauto).
    destruct (e_st (ent s c0)); try discriminate; destruct (e_ret (ent s c0)); try discriminate;
      destruct (is_abort_kind k && match k with EClosed => closed s | _ => true end); try discriminate; inv_some; simpl; auto.
  - destruct (e_ret (ent s c0)) eqn:ER; try discriminate. destruct (e_comp (ent s c0)) eqn:EC; try discriminate.
    inv_some. simpl. apply Hup. intros E; subst. congruence.
  - inv_some. reflexivity.
  - inv_some. reflexivity.
  - destruct (loops s h); try discriminate; inv_some; reflexivity.
  - destruct (loops s h); try discriminate. destruct (closed s); try discriminate. inv_some. reflexivity.
  - destruct (e_st (ent s c0)) eqn:ES; try discriminate.
    destruct (closed s && negb (loaded_on (loops s (e_host (ent s c0))) i)); try discriminate. inv_some. simpl.
    apply Hup. intros E; subst. congruence.
  - destruct (e_st (ent s c0)); try discriminate. destruct (closed s); try discriminate. inv_some. simpl.
    apply Hup. intros E; subst. now apply N7.
  - destruct (e_st (ent s c0)); try discriminate. inv_some. simpl. apply Hup. intros E; subst. now apply N8.
Qed.

(* once batchSendLoop has returned -- on close or on the idle timer -- a queued asynchronous call is completed by nothing
   but its own context: the sender's re-check of batchConn.closed happened when it enqueued, the drain when the loop exited *)
Lemma submit_other : forall s c0 h st c, step s (Submit c0 h) = Some st -> c <> c0 -> ent st c = ent s c.
Proof. intros s c0 h st c H N. simpl in H. destruct (e_st (ent s c0)); try discriminate. inversion H; subst. simpl. now apply upd_other. Qed.
Lemma queuefail_other : forall s c0 st c, step s (QueueFail c0) = Some st -> c <> c0 -> ent st c = ent s c.
Proof.
  intros s c0 st c H N. simpl in H. destruct (e_st (ent s c0)); try discriminate. destruct (closed s); try discriminate.
  inversion H; subst. simpl. now apply upd_other.
Qed.

Lemma idlefail_other : forall s c0 st c, step s (IdleFail c0) = Some st -> c <> c0 -> ent st c = ent s c.
Proof.
  intros s c0 st c H N. simpl in H. destruct (e_st (ent s c0)); try discriminate. inversion H; subst. simpl. now apply upd_other.
Qed.

Lemma async_after_exit : forall x c l x', xreach x -> sendloop x = false -> asy x c = true ->
  e_st (ent (core x) c) = Queued -> e_comp (ent (core x) c) = [] ->
  xstep x l = Some x' ->
  (forall k, l <> XCore (Abort c k)) ->
  ent (core x') c = ent (core x) c /\ sendloop x' = false /\ asy x' c = true.
Proof.
  intros x c l x' R HS HA HQ HC H N. pose proof (reachable_inv _ (xreach_core x R)) as I.
  destruct l.
  - unfold xstep in H. destruct (step (core x) (Submit c0 h)) as [st|] eqn:E; [|discriminate].
    assert (c <> c0).
    { intros E0; subst c0. simpl in E. rewrite HQ in E. discriminate. }
    assert (Hc : forall st', (if a && closed st then match step st (QueueFail c0) with Some s2 => s2 | None => st end
                              else if a && idle x then match step st (IdleFail c0) with Some s2 => s2 | None => st end else st) = st' ->
                             ent st' c = ent (core x) c).
    { intros st' Hs. destruct (a && closed st).
      - destruct (step st (QueueFail c0)) as [s2|] eqn:E2; subst; [|eapply submit_other; eauto].
        rewrite (queuefail_other _ _ _ _ E2 H0). eapply submit_other; eauto.
      - destruct (a && idle x); [|subst; eapply submit_other; eauto].
        destruct (step st (IdleFail c0)) as [s2|] eqn:E2; subst; [|eapply submit_other; eauto].
        rewrite (idlefail_other _ _ _ _ E2 H0). eapply submit_other; eauto. }
    inversion H; subst; clear H. cbn [core sendloop asy]. split; [apply Hc; reflexivity|]. split; auto.
    unfold updb. destruct (Nat.eqb_spec c c0); congruence.
  - simpl in H. rewrite HS in H. discriminate.
  - simpl in H. unfold round_guard in H. rewrite HS in H. discriminate.
  - simpl in H. rewrite HS in H. discriminate.
  - simpl in H. rewrite HS in H. discriminate.
  - simpl in H. rewrite HS in H. discriminate.
  - simpl in H. rewrite HS in H. discriminate.
  - simpl in H. rewrite HS in H. discriminate.
  - simpl in H. destruct (core_allowed x l) eqn:CA; [|discriminate]. destruct (step (core x) l) as [st|] eqn:E; [|discriminate].
    inversion H; subst; clear H. simpl. repeat split; auto.
    eapply step_keeps_queued_entry; eauto; intros; intro El; subst l; simpl in CA; rewrite ?HS, ?HA in CA; simpl in CA; try discriminate.
    eapply N; eauto.
Qed.

(* the sender's re-check: an asynchronous call that enqueues its entry while the client is closed is failed at once *)
Lemma async_submit_when_closed : forall x c h p, closed (core x) = true -> e_st (ent (core x) c) = Fresh ->
  exists x', xstep x (XSubmit c h p true) = Some x' /\ e_comp (ent (core x') c) = [Err EClosed] /\ e_st (ent (core x') c) = Retired.
Proof.
  intros x c h p HC HF. unfold xstep.
  assert (E1 : step (core x) (Submit c h) = Some (with_ent (core x) (upd (ent (core x)) c (mkEntry h Queued [] false None)))).
  { simpl. now rewrite HF. }
  rewrite E1. cbn [andb]. cbn [closed with_ent]. rewrite HC.
  match goal with |- context [step ?st (QueueFail c)] =>
    assert (E2 : step st (QueueFail c) = Some (with_ent st (upd (ent st) c (complete (ent st c) (Err EClosed))))) end.
  { simpl. rewrite upd_same. simpl. now rewrite HC. }
  rewrite E2. eexists; split; [reflexivity|]. simpl. rewrite !upd_same. simpl. auto.
Qed.

(* failQueuedAsyncRequestsOnClose: when batchSendLoop returns, every asynchronous entry still in the channel is
   completed with exactly the closed error; the channel is empty afterwards *)
Lemma run_queuefail : forall cs s s', run s (map QueueFail cs) = Some s' ->
  (forall c, In c cs -> e_st (ent s c) = Queued /\ e_comp (ent s' c) = e_comp (ent s c) ++ [Err EClosed] /\ e_st (ent s' c) = Retired)
  /\ (forall c, ~ In c cs -> ent s' c = ent s c).
Proof.
  induction cs as [|c0 r IH]; simpl; intros s s' H.
  - inversion H; subst. split; [tauto | auto].
  - destruct (e_st (ent s c0)) eqn:ES; try discriminate. destruct (closed s) eqn:EC; try discriminate.
    destruct (IH _ _ H) as [A B]. clear IH.
    assert (Hn : ~ In c0 r).
    { intros Hin. destruct (A _ Hin) as (Q & _). simpl in Q. rewrite upd_same in Q. simpl in Q. discriminate. }
    split.
    + intros c [E|Hin].
      * subst c. rewrite (B _ Hn). simpl. rewrite upd_same. simpl. auto.
      * destruct (A _ Hin) as (Q & C & D). assert (c <> c0) by (intros E; subst; tauto).
        simpl in Q, C. rewrite upd_other in Q, C by auto. auto.
    + intros c Hc. assert (c <> c0) by (intros E; subst; apply Hc; now left).
      rewrite B by (intros Hin; apply Hc; now right). simpl. now rewrite upd_other.
Qed.

Lemma send_exit_drains : forall x x', xstep x XSendExit = Some x' ->
  chq x' = [] /\ sendloop x' = false
  /\ (forall c, In c (chq x) -> asy x c = true -> e_st (ent (core x) c) = Queued ->
        e_comp (ent (core x') c) = e_comp (ent (core x) c) ++ [Err EClosed] /\ e_st (ent (core x') c) = Retired).
Proof.
  intros x x' H. unfold xstep in H.
  destruct (sendloop x && closed (core x) && match inb x with [] => true | _ => false end); [|discriminate].
  destruct (run (core x) (map QueueFail (drained x))) eqn:E; [|discriminate]. inversion H; subst; clear H. simpl.
  split; auto. split; auto. intros c Hin HA HQ. destruct (run_queuefail _ _ _ E) as [A _].
  destruct (A c) as (_ & B & C); auto. unfold drained. apply filter_In. split; auto. now rewrite HA, HQ.
Qed.

(* ---------------------------------------------------------------- the unary path *)
Lemma ustep_done_stable : forall u l u' c r, ustep u l = Some u' -> ucalls u c = UDone r -> ucalls u' c = UDone r.
Proof.
  intros u l u' c r H HD. destruct l; simpl in H.
  - destruct (ucalls u c0) eqn:E; try discriminate. inversion H; subst; simpl. unfold uupd. destruct (Nat.eqb_spec c c0); [subst; congruence | auto].
  - destruct (ucalls u c0) eqn:E; try discriminate. destruct (uclosed u); try discriminate.
    inversion H; subst; simpl. unfold uupd. destruct (Nat.eqb_spec c c0); [subst; congruence | auto].
  - destruct (ucalls u c0) eqn:E; try discriminate.
    destruct (match k with ECtx | ETimeout | EStream => true | EClosed => uclosed u | _ => false end); try discriminate.
    inversion H; subst; simpl. unfold uupd. destruct (Nat.eqb_spec c c0); [subst; congruence | auto].
  - inversion H; subst; auto.
Qed.

Lemma urun_done_stable : forall ls u u' c r, urun u ls = Some u' -> ucalls u c = UDone r -> ucalls u' c = UDone r.
Proof.
  induction ls as [|l rr IH]; simpl; intros u u' c r H HD; [inversion H; subst; auto|].
  destruct (ustep u l) eqn:E; [|discriminate]. eapply IH; eauto. eapply ustep_done_stable; eauto.
Qed.

Lemma urun_own : forall ls u u', urun u ls = Some u' ->
  (forall c p, ucalls u c = UDone (Resp p) -> p = c) -> forall c p, ucalls u' c = UDone (Resp p) -> p = c.
Proof.
  induction ls as [|l rr IH]; simpl; intros u u' H P; [inversion H; subst; auto|].
  destruct (ustep u l) as [u1|] eqn:E; [|discriminate]. eapply IH; eauto.
  intros c p Hc. destruct l; simpl in E.
  - destruct (ucalls u c0) eqn:E0; try discriminate. inversion E; subst; simpl in Hc. unfold uupd in Hc.
    destruct (Nat.eqb_spec c c0); [destruct (uclosed u); discriminate | eauto].
  - destruct (ucalls u c0) eqn:E0; try discriminate. destruct (uclosed u); try discriminate.
    inversion E; subst; simpl in Hc. unfold uupd in Hc. destruct (Nat.eqb_spec c c0); [inversion Hc; subst; auto | eauto].
  - destruct (ucalls u c0) eqn:E0; try discriminate.
    destruct (match k with ECtx | ETimeout | EStream => true | EClosed => uclosed u | _ => false end); try discriminate.
    inversion E; subst; simpl in Hc. unfold uupd in Hc. destruct (Nat.eqb_spec c c0); [discriminate | eauto].
  - inversion E; subst; eauto.
Qed.

(* after UClose every pending unary call can be completed (conn.Close fails it), and a new call fails at once *)
Lemma uclose_completes : forall u c, uclosed u = true -> ucalls u c = UPending ->
  exists u', ustep u (UFail c EClosed) = Some u' /\ ucalls u' c = UDone (Err EClosed).
Proof.
  intros u c HC HP. simpl. rewrite HP, HC. eexists; split; [reflexivity|]. simpl. unfold uupd. now rewrite Nat.eqb_refl.
Qed.

(* ---------------------------------------------------------------- the idle exit of the send loop (fix e17a7fd) *)
Lemma run_idlefail : forall cs s s', run s (map IdleFail cs) = Some s' ->
  (forall c, In c cs -> e_st (ent s c) = Queued /\ e_comp (ent s' c) = e_comp (ent s c) ++ [Err EIdle] /\ e_st (ent s' c) = Retired)
  /\ (forall c, ~ In c cs -> ent s' c = ent s c).
Proof.
  induction cs as [|c0 r IH]; simpl; intros s s' H.
  - inversion H; subst. split; [tauto | auto].
  - destruct (e_st (ent s c0)) eqn:ES; try discriminate.
    destruct (IH _ _ H) as [A B]. clear IH.
    assert (Hn : ~ In c0 r).
    { intros Hin. destruct (A _ Hin) as (Q & _). simpl in Q. rewrite upd_same in Q. simpl in Q. discriminate. }
    split.
    + intros c [E|Hin].
      * subst c. rewrite (B _ Hn). simpl. rewrite upd_same. simpl. auto.
      * destruct (A _ Hin) as (Q & C & D). assert (c <> c0) by (intros E; subst; tauto).
        simpl in Q, C. rewrite upd_other in Q, C by auto. auto.
    + intros c Hc. assert (c <> c0) by (intros E; subst; apply Hc; now left).
      rewrite B by (intros Hin; apply Hc; now right). simpl. now rewrite upd_other.
Qed.

Lemma idle_exit_drains : forall x x', xstep x XIdleExit = Some x' ->
  chq x' = [] /\ sendloop x' = false /\ idle x' = true
  /\ (forall c, In c (chq x) -> asy x c = true -> e_st (ent (core x) c) = Queued ->
        e_comp (ent (core x') c) = e_comp (ent (core x) c) ++ [Err EIdle] /\ e_st (ent (core x') c) = Retired).
Proof.
  intros x x' H. unfold xstep in H.
  destruct (sendloop x && negb (closed (core x)) && match inb x with [] => true | _ => false end); [|discriminate].
  destruct (run (core x) (map IdleFail (drained x))) eqn:E; [|discriminate]. inversion H; subst; clear H. simpl.
  split; auto. split; auto. split; auto. intros c Hin HA HQ. destruct (run_idlefail _ _ _ E) as [A _].
  destruct (A c) as (_ & B & C); auto. unfold drained. apply filter_In. split; auto. now rewrite HA, HQ.
Qed.

Lemma async_submit_when_idle : forall x c h p, idle x = true -> closed (core x) = false -> e_st (ent (core x) c) = Fresh ->
  exists x', xstep x (XSubmit c h p true) = Some x' /\ e_comp (ent (core x') c) = [Err EIdle] /\ e_st (ent (core x') c) = Retired.
Proof.
  intros x c h p HI HC HF. unfold xstep.
  assert (E1 : step (core x) (Submit c h) = Some (with_ent (core x) (upd (ent (core x)) c (mkEntry h Queued [] false None)))).
  { simpl. now rewrite HF. }
  rewrite E1. cbn [andb]. cbn [closed with_ent]. rewrite HC, HI.
  match goal with |- context [step ?st (IdleFail c)] =>
    assert (E2 : step st (IdleFail c) = Some (with_ent st (upd (ent st) c (complete (ent st c) (Err EIdle))))) end.
  { simpl. rewrite upd_same. reflexivity. }
  rewrite E2. eexists; split; [reflexivity|]. simpl. rewrite !upd_same. simpl. auto.
Qed.

(* the send loop is only ever gone because the client was closed or the conn has become idle -- and both are for good *)
Definition exit_reason (x : sys) : Prop := sendloop x = false -> closed (core x) = true \/ idle x = true.

Lemma closed_stays : forall s l s', step s l = Some s' -> closed s = true -> closed s' = true.
Proof.
  intros s l s' H HC. destruct l; simpl in H;
    repeat match type of H with
           | context [match ?x with _ => _ end] => destruct x eqn:?; try discriminate
           end; try (inv_some; simpl; auto; fail); auto.
Qed.

Lemma run_closed_stays : forall ls s s', run s ls = Some s' -> closed s = true -> closed s' = true.
Proof.
  induction ls as [|l r IH]; simpl; intros s s' H HC; [inversion H; subst; auto|].
  destruct (step s l) eqn:E; [|discriminate]. eapply IH; eauto. eapply closed_stays; eauto.
Qed.

Lemma xstep_exit_reason : forall x l x', exit_reason x -> xstep x l = Some x' -> exit_reason x'.
Proof.
  intros x l x' P H HS.
  assert (Hcore : forall ls st, run (core x) ls = Some st -> closed (core x) = true -> closed st = true) by (intros; eapply run_closed_stays; eauto).
  destruct (xstep_core_run _ _ _ H) as [ls Hrun].
  destruct l; unfold xstep in H.
  - destruct (step (core x) (Submit c h)); [|discriminate]. inversion H; subst. simpl in *.
    destruct (P HS) as [A|A]; [left; eapply Hcore; eauto | now right].
  - destruct (sendloop x && memb c (chq x) && negb (memb c (inb x)) && is_queued (e_st (ent (core x) c))) eqn:G; [|discriminate].
    inversion H; subst. simpl in *. rewrite HS in G. discriminate.
  - destruct (round_guard x lim takes) eqn:G; [|discriminate]. unfold round_guard in G.
    destruct (run (core x) _); [|discriminate]. inversion H; subst. simpl in *. rewrite HS in G. discriminate.
  - destruct (sendloop x) eqn:G; [|discriminate]. destruct (run (core x) _); [|discriminate]. inversion H; subst. simpl in *. congruence.
  - destruct (sendloop x) eqn:G; [|discriminate]. destruct (run (core x) _); [|discriminate]. inversion H; subst. simpl in *. congruence.
  - destruct (sendloop x && closed (core x) && match inb x with [] => true | _ => false end) eqn:G; [|discriminate].
    destruct (run (core x) (map QueueFail (drained x))) eqn:E; [|discriminate]. inversion H; subst. simpl in *.
    apply andb_prop in G. destruct G as [G _]. apply andb_prop in G. destruct G as [_ G]. left. eapply run_closed_stays; eauto.
  - destruct (sendloop x && negb (closed (core x)) && match inb x with [] => true | _ => false end); [|discriminate].
    destruct (run (core x) (map IdleFail (drained x))); [|discriminate]. inversion H; subst. simpl. now right.
  - destruct (sendloop x && match inb x with [] => false | _ => true end) eqn:G; [|discriminate].
    inversion H; subst. simpl in *. rewrite HS in G. discriminate.
  - destruct (core_allowed x l); [|discriminate]. destruct (step (core x) l) eqn:E; [|discriminate]. inversion H; subst. simpl in *.
    destruct (P HS) as [A|A]; [left; eapply closed_stays; eauto | now right].
Qed.

Lemma xreach_exit_reason : forall x, xreach x -> exit_reason x.
Proof.
  intros x [ls H]. revert x H.
  assert (G : forall ls0 x0 x, exit_reason x0 -> xrun x0 ls0 = Some x -> exit_reason x).
  { induction ls0 as [|l r IH]; simpl; intros x0 x P H; [inversion H; subst; auto|].
    destruct (xstep x0 l) eqn:E; [|discriminate]. eapply IH; [eapply xstep_exit_reason; eauto | eauto]. }
  intros x H. eapply G; [|exact H]. intros HS. simpl in HS. discriminate.
Qed.

(* the full statement for the fixed code: an asynchronous call is never left behind by the send loop --
   (1) whichever way batchSendLoop returns, it drains the channel and every asynchronous entry queued there gets exactly
       one error (closed / idle);
   (2) the loop is only gone when the client is closed or the conn idle, and an asynchronous call that enqueues its entry
       in such a state is failed at once by the sender's re-check *)
Lemma async_never_orphaned :
  (forall x l x', (l = XSendExit \/ l = XIdleExit) -> xstep x l = Some x' ->
     chq x' = [] /\ sendloop x' = false
     /\ (forall c, In c (chq x) -> asy x c = true -> e_st (ent (core x) c) = Queued ->
           exists e, (e = EClosed \/ e = EIdle) /\ e_comp (ent (core x') c) = e_comp (ent (core x) c) ++ [Err e]
                     /\ e_st (ent (core x') c) = Retired))
  /\ (forall x c h p, xreach x -> sendloop x = false -> e_st (ent (core x) c) = Fresh ->
        exists x' e, xstep x (XSubmit c h p true) = Some x' /\ (e = EClosed \/ e = EIdle)
                     /\ e_comp (ent (core x') c) = [Err e] /\ e_st (ent (core x') c) = Retired).
Proof.
  split.
  - intros x l x' [E|E] H; subst l.
    + destruct (send_exit_drains _ _ H) as (A & B & C). split; auto. split; auto.
      intros c H1 H2 H3. destruct (C c H1 H2 H3) as [D F]. exists EClosed. auto.
    + destruct (idle_exit_drains _ _ H) as (A & B & _ & C). split; auto. split; auto.
      intros c H1 H2 H3. destruct (C c H1 H2 H3) as [D F]. exists EIdle. auto.
  - intros x c h p R HS HF. destruct (closed (core x)) eqn:EC.
    + destruct (async_submit_when_closed x c h p EC HF) as [x' (A & B & C)]. exists x', EClosed. auto.
    + destruct (xreach_exit_reason x R HS) as [E|E]; [congruence|].
      destruct (async_submit_when_idle x c h p E EC HF) as [x' (A & B & C)]. exists x', EIdle. auto.
Qed.
