(* C18 — the epoch copy of a recv loop: a loop that lost the epoch CAS refreshes its copy, so it wins the next
   uncontended CAS and reaches failPendingRequests on the next break of its stream; the id source survives a
   restart of the send loop *)
From Coq Require Import List Arith Bool Lia Sorted.
Import ListNotations.
From Verif Require Import BatchRPC.Model BatchRPC.Proofs BatchRPC.Proofs2 BatchRPC.Proofs3.

Lemma step_epoch_mono : forall s l s', step s l = Some s' -> epoch s <= epoch s'.
Proof.
  intros s l s' H. destruct l; simpl in H;
    repeat match type of H with
           | context [match ?x with _ => _ end] => destruct x eqn:?; try discriminate
           end; try (inv_some; simpl; lia).
Qed.

Lemma run_epoch_mono : forall ls s s', run s ls = Some s' -> epoch s <= epoch s'.
Proof.
  induction ls as [|l r IH]; simpl; intros s s' H; [inversion H; lia|].
  destruct (step s l) eqn:E; [|discriminate]. apply step_epoch_mono in E. apply IH in H. lia.
Qed.

(* every epoch copy of stream h equals E *)
Definition ep_is (E : nat) (l : lstate) : Prop := forall ep, loop_ep l = Some ep -> ep = E.

Lemma step_ep_is : forall s l s' h E, step s l = Some s' -> epoch s = E -> epoch s' = E ->
  ep_is E (loops s h) -> ep_is E (loops s' h).
Proof.
  intros s l s' h E H E1 E2 P. destruct l; simpl in H.
  - destruct (e_st (ent s c)); try discriminate. inv_some. exact P.
  - destruct (e_st (ent s c)); try discriminate.
    destruct (negb (e_canceled (ent s c)) && (next_id s <? i)); try discriminate. inv_some. exact P.
  - destruct (e_st (ent s c)); try discriminate. destruct (e_canceled (ent s c)); try discriminate. inv_some. exact P.
  - destruct (e_st (ent s c)); try discriminate. inv_some. exact P.
  - destruct (e_st (ent s c)); try discriminate.
    + destruct (e_canceled (ent s c)); try discriminate. inv_some. exact P.
    + inv_some. exact P.
  - destruct (e_st (ent s c)); try discriminate. inv_some. simpl.
    destruct (loops s (e_host (ent s c))) eqn:EL; try exact P.
    destruct (Nat.eq_dec h (e_host (ent s c))) as [Eh|N].
    + subst h. rewrite updl_same. intros ep Hep. simpl in Hep. now inversion Hep.
    + rewrite updl_other; auto.
  - destruct (e_st (ent s c)); try discriminate.
    destruct (loaded_on (loops s (e_host (ent s c))) i); try discriminate. inv_some. exact P.
  - destruct (loops s h0) eqn:EL; try discriminate. destruct (lookup i (tab s)).
    + destruct (Nat.eqb (e_host (ent s c)) h0 && match lookup i (alloc s) with Some c' => Nat.eqb p c' | None => true end); try discriminate.
      inv_some. simpl. destruct (Nat.eq_dec h h0) as [Eh|N].
      * subst. rewrite updl_same. intros ep' Hep. simpl in Hep. inversion Hep; subst. apply P. rewrite EL. reflexivity.
      * rewrite updl_other; auto.
    + inv_some. exact P.
  - destruct (loops s h0) eqn:EL; try discriminate. inv_some. simpl. destruct (Nat.eq_dec h h0) as [Eh|N].
    + subst. rewrite updl_same. intros ep' Hep. simpl in Hep. inversion Hep; subst. apply P. rewrite EL. reflexivity.
    + rewrite updl_other; auto.
  - destruct (loops s h0) eqn:EL; try discriminate. destruct (closed s).
    { inv_some. simpl. destruct (Nat.eq_dec h h0) as [Eh|N]; [subst; rewrite updl_same; intros ep' Hep; discriminate | rewrite updl_other; auto]. }
    destruct (fail_pending h0 (tab s) (ent s)).
    destruct (Nat.eqb ep (epoch s)).
    { inv_some. simpl in E2. lia. }
    inv_some. simpl. destruct (Nat.eq_dec h h0) as [Eh|N].
    + subst. rewrite updl_same. intros ep' Hep. simpl in Hep. now inversion Hep.
    + rewrite updl_other; auto.
  - destruct (e_st (ent s c)); try discriminate; destruct (e_ret (ent s c)); try discriminate;
      destruct (is_abort_kind k && match k with EClosed => closed s | _ => true end); try discriminate; inv_some; exact P.
  - destruct (e_ret (ent s c)); try discriminate. destruct (e_comp (ent s c)); try discriminate. inv_some. exact P.
  - inv_some. exact P.
  - inv_some. exact P.
  - assert (Hs : loops s' = updl (loops s) h0 (LIdle (epoch s))) by (destruct (loops s h0); try discriminate; inv_some; reflexivity).
    rewrite Hs. destruct (Nat.eq_dec h h0) as [Eh|N].
    + subst. rewrite updl_same. intros ep' Hep. simpl in Hep. now inversion Hep.
    + rewrite updl_other; auto.
  - destruct (loops s h0) eqn:EL; try discriminate. destruct (closed s); try discriminate. inv_some. simpl in *.
    destruct (Nat.eq_dec h h0) as [Eh|N].
    + subst. rewrite updl_same. intros ep' Hep. simpl in Hep. now inversion Hep.
    + rewrite updl_other; auto.
  - destruct (e_st (ent s c)); try discriminate.
    destruct (closed s && negb (loaded_on (loops s (e_host (ent s c))) i)); try discriminate. inv_some. exact P.
  - destruct (e_st (ent s c)); try discriminate. destruct (closed s); try discriminate. inv_some. exact P.
  - destruct (e_st (ent s c)); try discriminate. inv_some. exact P.
Qed.

Lemma run_ep_is : forall ls s s' h E, run s ls = Some s' -> epoch s = E -> epoch s' = E ->
  ep_is E (loops s h) -> ep_is E (loops s' h).
Proof.
  induction ls as [|l r IH]; simpl; intros s s' h E H E1 E2 P; [inversion H; subst; auto|].
  destruct (step s l) as [s1|] eqn:Es; [|discriminate].
  pose proof (step_epoch_mono _ _ _ Es). pose proof (run_epoch_mono _ _ _ H).
  assert (epoch s1 = E) by lia.
  eapply IH; eauto. eapply step_ep_is; eauto.
Qed.

(* the losing branch of recreateStreamingClient refreshes the loop's epoch copy and leaves the epoch alone *)
Lemma lost_cas_refreshes : forall s h ep s', loops s h = LIdle ep -> ep <> epoch s -> closed s = false ->
  step s (StreamFail h) = Some s' ->
  loops s' h = LIdle (epoch s') /\ epoch s' = epoch s.
Proof.
  intros s h ep s' HL HN HC H. simpl in H. rewrite HL, HC in H.
  destruct (fail_pending h (tab s) (ent s)).
  destruct (Nat.eqb_spec ep (epoch s)); [congruence|]. inv_some. simpl. rewrite updl_same. auto.
Qed.

Lemma reachable_run : forall s ls s', reachable s -> run s ls = Some s' -> reachable s'.
Proof.
  intros s ls s' [l0 H0] H. exists (l0 ++ ls). rewrite run_app, H0. exact H.
Qed.

(* after a lost CAS, as long as nobody else wins a CAS (epoch unchanged), the next break of the same stream
   wins: no entry of that stream stays in flight, each gets the stream error *)
Lemma lost_cas_then_fail_pending : forall s h ep s1 ls s2 s3, reachable s ->
  loops s h = LIdle ep -> ep <> epoch s -> closed s = false -> step s (StreamFail h) = Some s1 ->
  run s1 ls = Some s2 -> epoch s2 = epoch s1 -> closed s2 = false ->
  step s2 (StreamFail h) = Some s3 ->
  epoch s3 = S (epoch s2)
  /\ (forall i c, In (i, c) (tab s3) -> e_host (ent s3 c) <> h)
  /\ (forall i c, In (i, c) (tab s2) -> e_host (ent s2 c) = h ->
        e_comp (ent s3 c) = [Err EStream] /\ e_st (ent s3 c) = Retired /\ ~ In (i, c) (tab s3)).
Proof.
  intros s h ep s1 ls s2 s3 R HL HN HC H1 Hrun HE HC2 H3.
  destruct (lost_cas_refreshes _ _ _ _ HL HN HC H1) as (L1 & E1).
  assert (P : ep_is (epoch s1) (loops s2 h)).
  { eapply run_ep_is; eauto. rewrite L1. intros ep' Hep. simpl in Hep. now inversion Hep. }
  assert (R2 : reachable s2).
  { eapply reachable_run; [|exact Hrun]. apply (reachable_run s [StreamFail h] s1 R). cbn [run]. rewrite H1. reflexivity. }
  destruct (loops s2 h) eqn:EL2; try (simpl in H3; rewrite EL2 in H3; discriminate).
  assert (ep0 = epoch s2) by (rewrite HE; apply P; reflexivity).
  destruct (fail_pending_total _ _ _ R2 HC2 H3) as (A & B & _).
  split; [|split; auto].
  simpl in H3. rewrite EL2, HC2 in H3.
  destruct (fail_pending h (tab s2) (ent s2)). rewrite H, Nat.eqb_refl in H3. inv_some. reflexivity.
Qed.

(* restart of the send loop: the id source and everything else survive *)
Lemma restart_keeps_ids : forall s s', step s Restart = Some s' -> s' = s.
Proof. intros s s' H. simpl in H. now inversion H. Qed.
