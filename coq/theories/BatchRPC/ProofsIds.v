(* C18 — in the builder / send-loop layer the request id is COMPUTED by the step, not chosen by the environment: the core
   label `Build c i` (guard next_id < i) is not a step of the layer (core_allowed); the only layer step that allocates ids
   is XBuildRound, which numbers the popped, non-cancelled entries next_id+1, next_id+2, ... (build_labels).  Freshness
   of the ids of every layer-reachable state follows from that counter. *)
From Coq Require Import List Arith Bool Sorted Lia.
Import ListNotations.
From Verif Require Import BatchRPC.Model BatchRPC.Proofs BatchRPC.Proofs2 BatchRPC.Proofs3 BatchRPC.Proofs4 BatchRPC.Proofs5
  BatchRPC.System BatchRPC.SysProofs.

Definition is_build (l : label) : bool := match l with Build _ _ => true | _ => false end.

Lemma run_alloc_nobuild : forall ls s s', run s ls = Some s' -> forallb (fun l => negb (is_build l)) ls = true -> alloc s' = alloc s.
Proof.
  induction ls as [|l r IH]; simpl; intros s s' H F; [inversion H; reflexivity|].
  destruct (step s l) as [s1|] eqn:E; [|discriminate]. apply andb_true_iff in F. destruct F as [F1 F2].
  rewrite (IH _ _ H F2). destruct (step_alloc _ _ _ E) as [Eq|(c & i & El & _)]; [exact Eq|]. subst. discriminate.
Qed.

Lemma nobuild_map : forall (A : Type) (f : A -> label) (l : list A), (forall a, is_build (f a) = false) ->
  forallb (fun l => negb (is_build l)) (map f l) = true.
Proof. intros A f l H. induction l; simpl; auto. now rewrite H, IHl. Qed.

(* every layer step other than a builder round leaves the allocation log alone *)
Lemma xstep_alloc : forall x l x', xstep x l = Some x' -> (forall lim takes, l <> XBuildRound lim takes) ->
  alloc (core x') = alloc (core x).
Proof.
  intros x l x' H N. destruct l; unfold xstep in H.
  - destruct (step (core x) (Submit c h)) as [st|] eqn:E; [|discriminate].
    assert (A0 : alloc st = alloc (core x)) by (apply (run_alloc_nobuild [Submit c h]); [cbn [run]; now rewrite E | reflexivity]).
    destruct (a && closed st).
    + destruct (step st (QueueFail c)) as [s2|] eqn:E2; inversion H; subst; cbn [core]; auto.
      rewrite <- A0. apply (run_alloc_nobuild [QueueFail c]); [cbn [run]; now rewrite E2 | reflexivity].
    + destruct (a && idle x).
      * destruct (step st (IdleFail c)) as [s2|] eqn:E2; inversion H; subst; cbn [core]; auto.
        rewrite <- A0. apply (run_alloc_nobuild [IdleFail c]); [cbn [run]; now rewrite E2 | reflexivity].
      * inversion H; subst; cbn [core]; auto.
  - destruct (sendloop x && memb c (chq x) && negb (memb c (inb x)) && is_queued (e_st (ent (core x) c))); [|discriminate].
    inversion H; subst. reflexivity.
  - exfalso. eapply N; eauto.
  - destruct (sendloop x); [|discriminate].
    destruct (run (core x) (map DropCanceled (filter (fun c => e_canceled (ent (core x) c)) (inb x)))) eqn:E; [|discriminate].
    inversion H; subst. cbn [core]. eapply run_alloc_nobuild; [exact E | now apply nobuild_map].
  - destruct (sendloop x); [|discriminate].
    destruct (run (core x) (map NoConn (inb x))) eqn:E; [|discriminate]. inversion H; subst. cbn [core].
    eapply run_alloc_nobuild; [exact E | now apply nobuild_map].
  - destruct (sendloop x && closed (core x) && match inb x with [] => true | _ => false end); [|discriminate].
    destruct (run (core x) (map QueueFail (drained x))) eqn:E; [|discriminate]. inversion H; subst. cbn [core].
    eapply run_alloc_nobuild; [exact E | now apply nobuild_map].
  - destruct (sendloop x && negb (closed (core x)) && match inb x with [] => true | _ => false end); [|discriminate].
    destruct (run (core x) (map IdleFail (drained x))) eqn:E; [|discriminate]. inversion H; subst. cbn [core].
    eapply run_alloc_nobuild; [exact E | now apply nobuild_map].
  - destruct (sendloop x && match inb x with [] => false | _ => true end); [|discriminate].
    inversion H; subst. reflexivity.
  - destruct (core_allowed x l) eqn:CA; [|discriminate]. destruct (step (core x) l) eqn:E; [|discriminate].
    inversion H; subst. unfold with_core; cbn [core].
    apply (run_alloc_nobuild [l]); [cbn [run]; now rewrite E|]. destruct l; simpl in CA; try discriminate; reflexivity.
Qed.

(* the ids of the layer: computed from the counter, hence fresh *)
Lemma ids_computed : forall x, xreach x ->
  (forall l x', xstep x l = Some x' ->
     alloc (core x') = alloc (core x)
     \/ exists lim takes, l = XBuildRound lim takes
          /\ (let ps := build_pairs (ent (core x)) (next_id (core x)) takes in
              alloc (core x') = rev ps ++ alloc (core x)
              /\ map fst ps = seq (S (next_id (core x))) (length ps)
              /\ next_id (core x') = next_id (core x) + length ps))
  /\ (forall i c, In (i, c) (alloc (core x)) -> i <= next_id (core x))
  /\ NoDup (map fst (alloc (core x)))
  /\ NoDup (map fst (tab (core x)))
  /\ (forall i c, In (i, c) (tab (core x)) -> In (i, c) (alloc (core x))).
Proof.
  intros x R. pose proof (xreach_core _ R) as RC. split; [|split; [|split; [|split]]].
  - intros l x' H. destruct l; try (left; apply (xstep_alloc _ _ _ H); intros; discriminate).
    right. exists lim, takes. split; [reflexivity|].
    destruct (round_ids_consecutive _ _ _ _ H) as (A & B & C & _). cbv zeta. auto.
  - intros i c Hin. exact (I_alloc_le _ (reachable_inv _ RC) _ _ Hin).
  - exact (proj1 (proj2 (ids_fresh _ RC))).
  - exact (proj1 (proj2 (proj2 (proj2 (proj2 (ids_fresh _ RC)))))).
  - exact (proj1 (proj2 (proj2 (proj2 (ids_fresh _ RC))))).
Qed.
