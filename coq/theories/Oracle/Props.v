(* Oracle/Props.v — property C13: the theorems, nothing else.
   Each is closed by [exact <lemma>] (or a two-line combination of lemmas) and followed by Print Assumptions.
   PD's behaviour is an explicit hypothesis:  pd : nat -> Z  is the sequence of timestamps PD hands out,
   pd_strict says it is strictly increasing. *)
From Verif Require Import Oracle.Model Oracle.ModelSys Oracle.ModelVal Oracle.ModelInt Oracle.ProofsArith Oracle.ProofsSys Oracle.ProofsVal Oracle.ModelArr Oracle.ModelTxn Oracle.ProofsTxn Oracle.ProofsInt Oracle.ProofsSeq Oracle.ProofsFresh Oracle.ProofsArr Oracle.ProofsTop.
From Coq Require Import Lia.
Open Scope Z_scope.

(* --- oracle.go: ComposeTS / ExtractPhysical / ExtractLogical --- *)
Theorem C13_compose_extract : forall p l, 0 <= p < two45 -> 0 <= l < two18 ->
  extract_physical (compose_ts p l) = p /\ extract_logical (compose_ts p l) = l /\
  (forall p' l', 0 <= p' < two45 -> 0 <= l' < two18 ->
     (compose_ts p l < compose_ts p' l' <-> (p < p' \/ (p = p' /\ l < l')))).
Proof. exact T_C13_compose_extract. Qed.
Print Assumptions C13_compose_extract.

Theorem C13_extract_compose : forall ts, 0 <= ts < two63 ->
  compose_ts (extract_physical ts) (extract_logical ts) = ts.
Proof. exact T_C13_extract_compose. Qed.
Print Assumptions C13_extract_compose.

(* --- GetTimestamp returns exactly what PD handed to this call; with PD strictly increasing, a call that
       returned before another one was invoked returned a smaller timestamp — any n, any interleaving --- *)
Theorem C13_passthrough : forall (pd : nat -> Z),
  (forall i j, (i < j)%nat -> pd i < pd j) ->
  forall n es a b tha thb va vb,
    let s := run pd (init_sys n) es in
    nth_error (thr s) a = Some tha -> nth_error (thr s) b = Some thb ->
    tpc tha = PDone (Some va) -> tpc thb = PDone (Some vb) ->
    va = pd (tidx tha) /\ (tidx tha < issued s)%nat /\ ((trett tha < tinvt thb)%nat -> va < vb).
Proof. exact T_C13_passthrough. Qed.
Print Assumptions C13_passthrough.

(* --- setLastTS (Load / compare / CAS loop), n concurrent calls, any interleaving: the published value never
       decreases and is always one of the timestamps PD issued --- *)
Theorem C13_lastts_monotone : forall (pd : nat -> Z) n es1 es2,
  let s1 := run pd (init_sys n) es1 in
  let s2 := run pd s1 es2 in
  ole (lowres s1) (lowres s2) /\
  (forall v, lowres s2 = Some v -> exists i, (i < issued s2)%nat /\ v = pd i).
Proof. exact T_C13_lastts_monotone. Qed.
Print Assumptions C13_lastts_monotone.

(* --- GetLowResolutionTimestamp (one Load of the published record): never decreases along a run and never
       exceeds the largest timestamp PD has issued --- *)
Theorem C13_lowres_bounds : forall (pd : nat -> Z),
  (forall i j, (i < j)%nat -> pd i < pd j) ->
  forall n es1 es2 v1 v2,
    let s1 := run pd (init_sys n) es1 in
    let s2 := run pd s1 es2 in
    lowres s1 = Some v1 -> lowres s2 = Some v2 ->
    v1 <= v2 /\ v2 <= pd (issued s2 - 1)%nat.
Proof. exact T_C13_lowres_bounds. Qed.
Print Assumptions C13_lowres_bounds.

(* --- IsExpired <-> UntilExpired <= 0, the int64 conversion of TTL and the int64 additions written out.
       Exact domain guard:  0 <= TTL < 2^63 - physical(lockTS)  (lockTS, lastTS any uint64; physical < 2^46, so every
       TTL < 2^63 - 2^46 ms qualifies; the earlier guard TTL < 2^62 is the corollary below).  TTL values at or beyond
       the guard are outside the property's input domain (lock TTLs are bounded by the managed TTL / max txn lifetime;
       2^62 ms is about 146 million years): C13_expiry_boundary shows the guard is sharp. --- *)
Theorem C13_expiry_consistent : forall last lock ttl,
  0 <= lock < two64 -> (forall l, last = Some l -> 0 <= l < two64) ->
  0 <= ttl < two63 - extract_physical lock ->
  (is_expired last lock ttl = true <-> until_expired last lock ttl <= 0).
Proof. exact expiry_consistent_exact. Qed.
Print Assumptions C13_expiry_consistent.

Theorem C13_expiry_consistent_ttl62 : forall last lock ttl,
  0 <= lock < two64 -> (forall l, last = Some l -> 0 <= l < two64) -> 0 <= ttl < two62 ->
  (is_expired last lock ttl = true <-> until_expired last lock ttl <= 0).
Proof. exact expiry_consistent. Qed.
Print Assumptions C13_expiry_consistent_ttl62.

(* at the boundary: the first TTL outside the domain, 2^63 - physical(lockTS), gives IsExpired = true with a positive
   UntilExpired, for every lock and every cached ts whose physical part is positive *)
Theorem C13_expiry_boundary : forall lock l,
  0 <= lock < two64 -> 0 <= l < two64 -> 1 <= extract_physical l ->
  let ttl := two63 - extract_physical lock in
  is_expired (Some l) lock ttl = true /\ 0 < until_expired (Some l) lock ttl.
Proof. exact expiry_boundary_sharp. Qed.
Print Assumptions C13_expiry_boundary.

(* why the guard on TTL is there (outside the property's input domain): for TTL = MaxInt64 the two answers disagree *)
Theorem C13_expiry_wide_ttl_refuted : exists last lock ttl,
  0 <= lock < two64 /\ 0 <= last < two64 /\ 0 <= ttl < two64 /\
  ~ (is_expired (Some last) lock ttl = true <-> until_expired (Some last) lock ttl <= 0).
Proof. exact expiry_wide_ttl_refuted. Qed.
Print Assumptions C13_expiry_wide_ttl_refuted.

(* --- GetTimestampForCommit: whatever PD answers and however many back-offs the Backoffer grants, a returned
       commit ts is strictly greater than commitWaitUntilTSO and is one of PD's answers; the loop makes at
       most fuel+1 calls --- *)
Theorem C13_commit_wait : forall bound max_sleep_ns fuel script,
  (forall ts c, commit_wait bound max_sleep_ns fuel script = (CwOk ts, c) -> bound < ts /\ In (Some ts) script) /\
  (forall r c, commit_wait bound max_sleep_ns fuel script = (r, c) -> (c <= 1 + fuel)%nat).
Proof. exact T_C13_commit_wait. Qed.
Print Assumptions C13_commit_wait.

(* --- SetCommitWaitUntilTSO may be called any number of times on one transaction (raise, lower, zero, repeat): the
       constraint in effect is the maximum of everything registered (zero never erases), and a commit timestamp
       returned by GetTimestampForCommit exceeds EVERY registered value, is positive and is one of PD's answers --- *)
Theorem C13_commit_wait_registrations : forall regs max_sleep_ns fuel script,
  (0 <= cw_bound regs /\ (forall r, In r regs -> r <= cw_bound regs) /\ (cw_bound regs = 0 \/ In (cw_bound regs) regs)) /\
  (forall ts c, commit_wait_regs regs max_sleep_ns fuel script = (CwOk ts, c) ->
     (forall r, In r regs -> r < ts) /\ 0 < ts /\ In (Some ts) script).
Proof. exact T_C13_commit_wait_registrations. Qed.
Print Assumptions C13_commit_wait_registrations.

(* --- the consumers.  tikv/kv.go getTimestampWithRetry (CurrentTimestamp, GetTimestampWithRetry): the result is the
       FIRST answer of the oracle that is not an error, reached after at most fuel back-offs; one call per attempt --- *)
Theorem C13_ts_with_retry : forall answers fuel calls r c,
  ts_with_retry fuel answers calls = (r, c) ->
  (c <= calls + S fuel)%nat /\
  (forall ts, r = Some ts ->
     exists k, nth_error answers k = Some (Some ts) /\ (forall j, (j < k)%nat -> nth_error answers j = Some None) /\
               c = (calls + S k)%nat /\ (k <= fuel)%nat).
Proof. exact ts_with_retry_spec. Qed.
Print Assumptions C13_ts_with_retry.

(* twoPhaseCommitter.execute, all three commit modes, causal consistency on or off, any registration sequence, any PD
   answers, any back-off budget, any TiKV answer tk with tk m >= m: a commit that succeeds has a commit ts beyond EVERY
   registered commit-wait value (and positive) *)
Theorem C13_commit_consumer : forall tk m causal start regs ms fuel script ts reqmin c,
  (forall x, x <= tk x) -> 0 <= start -> (forall r, In r regs -> 0 <= r) ->
  commit_txn true tk m causal start regs ms fuel script = (Some ts, reqmin, c) ->
  (forall r, In r regs -> r < ts) /\ 0 < ts.
Proof. exact commit_txn_all. Qed.
Print Assumptions C13_commit_consumer.

(* with a constraint registered, the prewrite of an async-commit / 1PC transaction already carries a min_commit_ts
   beyond every registered value: min_commit_ts - 1 is a PD answer obtained through GetTimestampForCommit *)
Theorem C13_commit_consumer_min_commit_ts : forall tk m causal start regs ms fuel script ts reqmin c,
  m <> M2PC -> 0 < cw_bound regs ->
  commit_txn true tk m causal start regs ms fuel script = (Some ts, reqmin, c) ->
  (forall r, In r regs -> r < reqmin) /\ ts = tk reqmin /\ In (Some (reqmin - 1)) script.
Proof. exact commit_txn_reqmin. Qed.
Print Assumptions C13_commit_consumer_min_commit_ts.

(* the code without the `commitWaitUntilTSO > 0` clause: async commit under causal consistency commits below it *)
Theorem C13_commit_consumer_no_clause_refuted :
  exists tk m causal start regs ms fuel script ts reqmin c,
    (forall x, x <= tk x) /\ 0 <= start /\
    commit_txn false tk m causal start regs ms fuel script = (Some ts, reqmin, c) /\ exists r, In r regs /\ ts <= r.
Proof. exact commit_txn_no_clause_refuted. Qed.
Print Assumptions C13_commit_consumer_no_clause_refuted.

(* --- ValidateReadTS + single flight, any number of validators, any schedule, any order of PD answers --- *)
(* accept-complete: a rejected read timestamp is larger than everything PD had issued when the call began *)
Theorem C13_validate_accept_complete : forall (pd : nat -> Z),
  (forall i j, (i < j)%nat -> pd i < pd j) ->
  forall n es t th c,
    nth_error (vthr (vrun pd true (init_vsys n) es)) t = Some th -> vp th = VDone (OReject c) ->
    forall i, (i < vbegk th)%nat -> pd i < vread th.
Proof. exact accept_complete. Qed.
Print Assumptions C13_validate_accept_complete.

(* reject-sound: an accepted read timestamp (other than the MaxUint64 sentinel) does not exceed what PD has
   issued — in the state where the call returned and in every later state *)
Theorem C13_validate_reject_sound : forall (pd : nat -> Z),
  (forall i j, (i < j)%nat -> pd i < pd j) ->
  forall n es t th,
    let s := vrun pd true (init_vsys n) es in
    nth_error (vthr s) t = Some th -> vp th = VDone OAccept -> vread th <> max_uint64 ->
    exists i, (i < vk s)%nat /\ vread th <= pd i.
Proof. exact reject_sound. Qed.
Print Assumptions C13_validate_reject_sound.

(* the retry is needed: with the retry removed a timestamp issued before the call began is rejected *)
Theorem C13_validate_no_retry_refuted :
  exists (pd : nat -> Z), (forall i j, (i < j)%nat -> pd i < pd j) /\
  exists n es t th c i,
    nth_error (vthr (vrun pd false (init_vsys n) es)) t = Some th /\ vp th = VDone (OReject c) /\
    (i < vbegk th)%nat /\ vread th = pd i.
Proof. exact no_retry_refuted. Qed.
Print Assumptions C13_validate_no_retry_refuted.

(* cancellation is isolated: the shared fetch runs under no caller's context, a cancel step of one validator only
   fails that validator.  For every schedule that contains no PD failure of a flight and no cancellation of
   validator u itself (any number of other validators may be cancelled at any point), u never returns the
   "fail to validate" error; together with C13_validate_accept_complete: a read ts issued before u's call is
   never refused. *)
Theorem C13_validate_cancel_isolated : forall (pd : nat -> Z) (u : nat) retry n es,
  Forall (fun e => e <> EFlightFail /\ e <> ECancel u) es ->
  voutcome_of (vrun pd retry (init_vsys n) es) u <> Some OErr.
Proof. exact T_C13_validate_cancel_isolated. Qed.
Print Assumptions C13_validate_cancel_isolated.

(* --- first use of a txn scope: init_sys n has NO entry for the scope; every caller runs lastTSMap.Load and, on a
       miss, LoadOrStore as separate interleavable steps.  For any number n of concurrent FIRST callers and any
       interleaving: the cached value starts absent, is installed at most by the one LoadOrStore that still finds no
       entry (the losers keep the winner's record and fall into the CAS loop), once installed it stays, it never
       decreases and is always a timestamp PD issued --- *)
Theorem C13_fresh_scope : forall (pd : nat -> Z) n es1 es2,
  let s1 := run pd (init_sys n) es1 in
  let s2 := run pd s1 es2 in
  lowres (init_sys n) = None /\
  (lowres s1 <> None -> lowres s2 <> None) /\
  ole (lowres s1) (lowres s2) /\
  (forall v, lowres s2 = Some v -> exists i, (i < issued s2)%nat /\ v = pd i) /\
  (forall t th ts, nth_error (thr s1) t = Some th -> tpc th = PLoadOrStore ts ->
     (cell s1 = None -> cell (step pd s1 (Ev t)) = Some (t, ts)) /\
     (forall c, cell s1 = Some c -> cell (step pd s1 (Ev t)) = Some c) /\
     exists th', nth_error (thr (step pd s1 (Ev t))) t = Some th' /\ tpc th' = PLoad ts).
Proof. exact T_C13_fresh_scope. Qed.
Print Assumptions C13_fresh_scope.

(* publishing the first timestamp of a scope with Store + return instead (two first callers, both miss, the newer
   one stores, the older one stores last) makes the cached value go back *)
Theorem C13_fresh_scope_store_refuted :
  exists (pd : nat -> Z), (forall i j, (i < j)%nat -> pd i < pd j) /\
  exists n es1 es2 v1 v2,
    lowres (fold_left (step_store pd) es1 (init_sys n)) = Some v1 /\
    lowres (fold_left (step_store pd) (es1 ++ es2) (init_sys n)) = Some v2 /\ v2 < v1.
Proof. exact store_variant_refuted. Qed.
Print Assumptions C13_fresh_scope_store_refuted.

(* --- the background refresher (updateTS.doUpdate) is a further writer of the same cell.  ModelSys.step_role: role is
       an ARBITRARY predicate on the threads; a thread with role t = true is a refresher round: it can only be launched
       for a scope that already has an entry (doUpdate ranges over lastTSMap), then runs getTimestamp + setLastTS like
       any caller; the schedule is arbitrary and may contain PD failures (EvFail) of refresher rounds and of callers.
       For every role, n and schedule: the cached value never decreases, stays once present, is a timestamp PD issued;
       a launched refresher round always finds the entry and never takes the LoadOrStore (first-use) branch.
       If a refresher round publishes with a plain Store instead, the value can go back (_store_refuted). --- *)
Theorem C13_refresher : forall (pd : nat -> Z) (role : nat -> bool) n es1 es2,
  let s1 := run_role pd role (init_sys n) es1 in
  let s2 := run_role pd role s1 es2 in
  ole (lowres s1) (lowres s2) /\
  (lowres s1 <> None -> lowres s2 <> None) /\
  (forall v, lowres s2 = Some v -> exists i, (i < issued s2)%nat /\ v = pd i) /\
  (forall t th, nth_error (thr s2) t = Some th -> role t = true ->
     (tpc th <> PIdle -> lowres s2 <> None) /\ (forall ts, tpc th <> PLoadOrStore ts)).
Proof. exact T_C13_refresher. Qed.
Print Assumptions C13_refresher.

Theorem C13_refresher_store_refuted :
  exists (pd : nat -> Z), (forall i j, (i < j)%nat -> pd i < pd j) /\
  exists n refresher es1 es2 v1 v2,
    lowres (fold_left (step_rstore pd refresher) es1 (init_sys n)) = Some v1 /\
    lowres (fold_left (step_rstore pd refresher) (es1 ++ es2) (init_sys n)) = Some v2 /\ v2 < v1.
Proof. exact rstore_variant_refuted. Qed.
Print Assumptions C13_refresher_store_refuted.

(* --- the published record is the pair lastTSO{tso, arrival}: ModelArr = the CAS system with the clock read
       (current.arrival = time.Now()), the arrival rule of the compare step and the pair in the cell; n threads
       (foreground GetTimestamp / Wait callers and refresher rounds alike), fresh scope, any interleaving, any clock
       advances.  PD's clock pd_ns is non-decreasing; PD never issues a timestamp ahead of its own clock (enabling
       condition of the issue step).  Both components of the published record never go back. --- *)
Theorem C13_arrival_monotone : forall (pd : nat -> Z) (pd_ns : Z -> Z),
  (forall a b, a <= b -> pd_ns a <= pd_ns b) ->
  forall n w0 es1 es2,
    let s1 := arun pd pd_ns (init_asys n w0) es1 in
    let s2 := arun pd pd_ns s1 es2 in
    rec_le (arec s1) (arec s2) /\ wall s1 <= wall s2.
Proof. exact T_C13_arrival_monotone. Qed.
Print Assumptions C13_arrival_monotone.

(* the future-staleness guard over any interleaving: the published record arrived in the past, its timestamp had been
   issued (by PD's clock) when it arrived; hence, PD's clock not being slower than the local one, the estimate of
   GetStaleTimestamp at any later reading never exceeds PD's current physical time minus prevSecond *)
Theorem C13_stale_not_future : forall (pd : nat -> Z) (pd_ns : Z -> Z),
  (forall a b, a <= b -> pd_ns a <= pd_ns b) ->
  forall n w0 es l a,
    let s := arun pd pd_ns (init_asys n w0) es in
    arec s = Some (l, a) ->
    a <= wall s /\ extract_physical l * 1000000 <= pd_ns a /\
    forall now prev r, stale_dom l a now prev -> pd_ns a + (now - a) <= pd_ns now ->
      stale_ts l a now prev = Some r ->
      extract_physical r <= pd_ns now / 1000000 - prev * 1000 /\ extract_logical r = 0.
Proof. exact T_C13_stale_not_future. Qed.
Print Assumptions C13_stale_not_future.

(* --- a failed refresh: in any run with any role assignment, take a refresher round t that has been launched and waits
       for PD, and let its PD request fail: the published record is untouched, the scope's entry is there (the round was
       launched for it) and stays, the round ends with an error, and whatever happens afterwards the cached value does
       not go below what it was and remains a timestamp PD issued (per scope: every scope is its own instance).  The
       variant that drops the scope's entry on a failed refresher round is refuted (_delete_refuted): a PD answer issued
       earlier but arriving later re-creates the entry with an older timestamp. --- *)
Theorem C13_refresher_failure : forall (pd : nat -> Z) (role : nat -> bool) n es t th es2,
  let s := run_role pd role (init_sys n) es in
  role t = true -> nth_error (thr s) t = Some th -> tpc th = PWaitPD ->
  let s' := step_role pd role s (EvFail t) in
  let s2 := run_role pd role s' es2 in
  cell s' = cell s /\ lowres s <> None /\
  (exists th', nth_error (thr s') t = Some th' /\ tpc th' = PDone None) /\
  ole (lowres s) (lowres s2) /\ lowres s2 <> None /\
  (forall v, lowres s2 = Some v -> exists i, (i < issued s2)%nat /\ v = pd i).
Proof. exact T_C13_refresher_failure. Qed.
Print Assumptions C13_refresher_failure.

Theorem C13_refresher_delete_refuted :
  exists (pd : nat -> Z), (forall i j, (i < j)%nat -> pd i < pd j) /\
  exists n refresher es1 es2 v1 v2,
    lowres (fold_left (step_rdelete pd refresher) es1 (init_sys n)) = Some v1 /\
    lowres (fold_left (step_rdelete pd refresher) (es1 ++ es2) (init_sys n)) = Some v2 /\ v2 < v1.
Proof. exact rdelete_variant_refuted. Qed.
Print Assumptions C13_refresher_delete_refuted.

(* --- the cached timestamp catches up: when a call (GetTimestamp, Wait, a refresher round) has returned ts — or has
       left setLastTS and is about to — the cached timestamp is >= ts, then and in every later state, for any number of
       threads, a fresh scope and any interleaving.  (This is what makes the fast paths sound: a timestamp the oracle has
       returned is validated / compared against the cache without asking PD: C13_validate_from_cache.) --- *)
Theorem C13_lowres_catches_up : forall (pd : nat -> Z) (pd_ns : Z -> Z),
  (forall a b, a <= b -> pd_ns a <= pd_ns b) ->
  forall n w0 es1 es2 t ts,
    let s1 := arun pd pd_ns (init_asys n w0) es1 in
    let s2 := arun pd pd_ns s1 es2 in
    (nth_error (athr s1) t = Some (ADone (Some ts)) \/ nth_error (athr s1) t = Some (ARet ts)) ->
    exists l a, arec s2 = Some (l, a) /\ ts <= l.
Proof. exact T_C13_lowres_catches_up. Qed.
Print Assumptions C13_lowres_catches_up.

Theorem C13_validate_from_cache : forall st scope read stale pds l,
  get_last st scope = Some l -> read <= l -> validate_pre read stale = None ->
  validate_seq true st scope read stale pds = (st, VAccept, O).
Proof. exact validate_from_cache. Qed.
Print Assumptions C13_validate_from_cache.

(* --- the SEQUENTIAL case of "the CAS-level system implements the call-level fold": for the schedule seq_sched m that
       runs the calls one after the other (each thread gets nine scheduler slots) the system publishes exactly what
       Model.set_last (publish the maximum) computes, every call returns PD's answer, untouched threads stay idle.
       This is NOT a refinement proof for every schedule; for arbitrary schedules the corresponding facts are
       C13_lastts_monotone / C13_fresh_scope (never decreases, always issued) and C13_lowres_catches_up (>= every
       returned timestamp).  It justifies the call-level model used by the sequential driver classes. --- *)
Theorem C13_setlast_refines_sequential : forall (pd : nat -> Z) n m, (m <= n)%nat ->
  let s := run pd (init_sys n) (seq_sched m) in
  lowres s = get_last (seq_state pd m) 1 /\ issued s = m /\
  (forall j, (m <= j < n)%nat -> nth_error (thr s) j = Some idle_thread) /\
  (forall j, (j < m)%nat -> exists th, nth_error (thr s) j = Some th /\ tpc th = PDone (Some (pd j))).
Proof. exact seq_refines. Qed.
Print Assumptions C13_setlast_refines_sequential.

(* --- GetLowResolutionTimestamp over interval changes: the oracle as a whole = the GetTimestamp/setLastTS system next
       to the exact updateTS loop state (interval record, the loop's currentInterval, the shrink channel);
       SetLowResolutionTimestampUpdateInterval, ticks, received shrink requests and concurrent staleness adjustments may
       be interleaved anywhere: the cached value still never decreases and never exceeds the largest timestamp PD
       issued, and the loop keeps its invariant --- *)
Theorem C13_lowres_bounds_intervals : forall (pd : nat -> Z),
  (forall i j, (i < j)%nat -> pd i < pd j) ->
  forall n l0 es1 es2 v1 v2, linv l0 ->
    let s1 := prun pd (init_sys n, l0) es1 in
    let s2 := prun pd s1 es2 in
    linv (snd s2) /\
    (lowres (fst s1) = Some v1 -> lowres (fst s2) = Some v2 -> v1 <= v2 /\ v2 <= pd (issued (fst s2) - 1)%nat).
Proof. exact T_C13_lowres_bounds_intervals. Qed.
Print Assumptions C13_lowres_bounds_intervals.

(* --- the adaptive update interval on the EXACT updateTS loop (ModelInt.lstep: ticker case, shrink-channel case with
       its three clock readings and the currentInterval comparison, SetLowResolutionTimestampUpdateInterval from any
       goroutine, non-blocking sends of concurrent staleness adjustments into the capacity-1 channel): for every
       sequence of these events from any configured interval, 0 < configured, min(500ms, configured) <= actual <=
       configured, and every request waiting in the channel is >= 1ms --- *)
Theorem C13_interval_bounds : forall c t0 ops, 0 < c ->
  let s := fold_left lstep ops (init_lstate c t0) in
  0 < cfg (li s) /\ Z.min min_interval (cfg (li s)) <= ada (li s) <= cfg (li s) /\
  (forall r, lch s = Some r -> 1000000 <= r).
Proof. exact T_C13_interval_bounds. Qed.
Print Assumptions C13_interval_bounds.

(* a request waiting in the channel that is below the current interval shrinks it when the loop receives it — in that
   one step, whatever the three clock readings; the loop's currentInterval follows, the channel is free again; and a
   tick re-synchronises currentInterval with the record *)
Theorem C13_interval_shrinks : forall s req now1 now2 now3,
  linv s -> lch s = Some req -> min_interval < cfg (li s) -> req < ada (li s) -> min_interval < ada (li s) ->
  last_tick (li s) <= now1 -> now1 <= now2 -> now2 <= now3 ->
  let s' := lstep s (LRecv now1 now2 now3) in
  ada (li s') = Z.max (req - shrink_preserve) min_interval /\ ada (li s') < ada (li s) /\ min_interval <= ada (li s') /\
  istt (li s') = ISAdapting /\ lcur s' = ada (li s') /\ lch s' = None.
Proof. exact lrecv_shrinks. Qed.
Print Assumptions C13_interval_shrinks.

Theorem C13_interval_tick_syncs : forall s now, linv s -> last_tick (li s) <= now ->
  lcur (lstep s (LTick now)) = ada (li (lstep s (LTick now))) /\ last_tick (li (lstep s (LTick now))) = now.
Proof. exact ltick_syncs. Qed.
Print Assumptions C13_interval_tick_syncs.

(* the function nextUpdateInterval itself (what the differential drives through the in-package export) *)
Theorem C13_next_interval_shrinks : forall s now req,
  int_inv s -> min_interval < cfg s -> req <> 0 -> req < ada s -> min_interval < ada s ->
  let s' := fst (next_interval s now req) in
  ada s' = Z.max (req - shrink_preserve) min_interval /\ ada s' < ada s /\ min_interval <= ada s' /\ istt s' = ISAdapting /\
  snd (next_interval s now req) = ada s'.
Proof. exact next_interval_shrinks. Qed.
Print Assumptions C13_next_interval_shrinks.

(* --- GetStaleTimestamp (domain: prev < 2^33 s, physical < 2^43 ms, arrival <= now): error exactly when the cached
       physical second is not beyond prevSecond; monotone in the clock; not beyond the cached timestamp when the
       record is at most prevSecond old (and possibly beyond otherwise: _refuted); never in PD's future --- *)
Theorem C13_stale_ts : forall tso arr now prev,
  (stale_ts tso arr now prev = None <-> extract_physical tso / 1000 <= prev) /\
  (forall r, stale_dom tso arr now prev -> stale_ts tso arr now prev = Some r ->
     extract_logical r = 0 /\
     (now - arr <= prev * 1000000000 -> r <= tso) /\
     (forall now' r', stale_dom tso arr now' prev -> now <= now' -> stale_ts tso arr now' prev = Some r' -> r <= r')).
Proof. exact T_C13_stale_ts. Qed.
Print Assumptions C13_stale_ts.

Theorem C13_stale_beyond_last_refuted : exists tso arr now prev r,
  stale_dom tso arr now prev /\ stale_ts tso arr now prev = Some r /\ tso < r.
Proof. exact stale_beyond_last_refuted. Qed.
Print Assumptions C13_stale_beyond_last_refuted.

(* the future-staleness guard (TestNonFutureStaleTSO): pd_ns t = PD's clock (ns) at local time t, non-decreasing and
   not slower than the local clock; every setLastTS call (one at a time, clock readings not going backwards) carries
   a timestamp PD had issued by then.  Then the published record's arrival never goes back, its timestamp had been
   issued when it arrived, and the estimate computed from it at any later time never exceeds PD's current physical
   time minus prevSecond. *)
Theorem C13_stale_not_future_call_level : forall (pd_ns : Z -> Z),
  (forall a b, a <= b -> pd_ns a <= pd_ns b) ->
  forall calls t0, Forall (call_ok pd_ns) calls -> clock_sorted t0 calls ->
  forall l a, fold_left (fun r c => set_last_arr r (fst c) (snd c)) calls None = Some (l, a) ->
  a <= last_clock t0 calls /\
  forall now prev r, stale_dom l a now prev -> pd_ns a + (now - a) <= pd_ns now ->
    stale_ts l a now prev = Some r ->
    extract_physical r <= pd_ns now / 1000000 - prev * 1000 /\ extract_logical r = 0.
Proof. exact T_C13_stale_not_future_call_level. Qed.
Print Assumptions C13_stale_not_future_call_level.

(* the arrival of the published record never goes back (call level) *)
Theorem C13_arrival_monotone_call_level : forall (pd_ns : Z -> Z), (forall a b, a <= b -> pd_ns a <= pd_ns b) -> forall calls t0 r,
  rec_ok pd_ns r t0 -> Forall (call_ok pd_ns) calls -> clock_sorted t0 calls ->
  rec_le r (fold_left (fun r c => set_last_arr r (fst c) (snd c)) calls r).
Proof. exact T_C13_arrival_monotone_call_level. Qed.
Print Assumptions C13_arrival_monotone_call_level.

(* --- local.go: the local oracle is strictly increasing while its clock does not go backwards and fewer than
       2^18 calls fall into one millisecond (state = (lastTimeStampTS, n), previous result = their sum) --- *)
Theorem C13_local_monotone : forall m n now,
  0 <= m <= now -> now < two45 -> 0 <= n -> n + 1 < two18 ->
  let res := local_get_ts (go_time_to_ts m, n) now in
  go_time_to_ts m + n < snd res /\
  fst (fst res) = go_time_to_ts now /\ snd res = fst (fst res) + snd (fst res) /\ 0 <= snd (fst res) <= n + 1.
Proof. exact local_monotone. Qed.
Print Assumptions C13_local_monotone.

(* --- mock.go: MockOracle.GetTimestamp (serialised by its mutex): strictly increasing while clock+offset does not go
       back and fewer than 2^18 calls fall into one millisecond --- *)
Theorem C13_mock_monotone : forall last now,
  0 <= last -> extract_physical last <= now -> now < two45 -> extract_logical last + 1 < two18 ->
  last < mock_get_ts last now /\ extract_physical (mock_get_ts last now) = now.
Proof. exact mock_monotone. Qed.
Print Assumptions C13_mock_monotone.

(* --- local_external_timestamp.go (local and mock oracle), one call at a time: an accepted external timestamp is the
       requested one, never below the previous one and never beyond the oracle's current timestamp --- *)
Theorem C13_external_ts_call_level : forall ext cur nw e,
  set_external ext cur nw = Some e -> e = nw /\ ext <= e <= cur.
Proof. exact set_external_spec. Qed.
Print Assumptions C13_external_ts_call_level.

(* --- non-vacuity --- *)
Example ex_compose : compose_ts 1700000000000 5 = 445644800000000005 /\ extract_physical 445644800000000005 = 1700000000000.
Proof. vm_compute. split; reflexivity. Qed.
Example ex_expired : is_expired (Some (compose_ts 100 0)) (compose_ts 90 7) 10 = true /\ until_expired (Some (compose_ts 100 0)) (compose_ts 90 7) 11 = 1.
Proof. vm_compute. split; reflexivity. Qed.
Example ex_commit_wait_ok : commit_wait 100 1000000000 3 [Some 90; Some 100; Some 101] = (CwOk 101, 3%nat).
Proof. vm_compute. reflexivity. Qed.
Example ex_cw_registrations : cw_bound [100; 0; 50; 0] = 100 /\ commit_wait_regs [100; 0] 1000000000 3 [Some 90; Some 101] = (CwOk 101, 2%nat).
Proof. vm_compute. split; reflexivity. Qed.
Example ex_commit_consumer :
  commit_txn true (fun x => x) MAsync true 10 [100; 0] 1000000000 3 [Some 90; Some 101] = (Some 102, 102, 2%nat) /\
  commit_txn true (fun x => x) M1PC true 10 [] 1000000000 3 [Some 90] = (Some 11, 11, 0%nat) /\
  commit_txn true (fun x => x) M2PC true 10 [100] 1000000000 0 [Some 90; Some 101] = (None, 11, 1%nat) /\
  ts_with_retry 3 [None; None; Some 7] 0 = (Some 7, 3%nat).
Proof. vm_compute. repeat split; reflexivity. Qed.
Example ex_commit_wait_fuel : commit_wait 100 1000000000 1 [Some 90; Some 100; Some 101] = (CwErr, 2%nat).
Proof. vm_compute. reflexivity. Qed.
(* two calls race: the call holding the larger timestamp publishes first, the stale CAS of the other fails *)
Example ex_cas_race :
  let pd := fun k => Z.of_nat (10 + k) in
  let s := run pd (init_sys 2) [Ev 0; Ev 1; Ev 0; Ev 1; Ev 0; Ev 0; Ev 0; Ev 1; Ev 1; Ev 1; Ev 1; Ev 1; Ev 0; Ev 0; Ev 0; Ev 0; Ev 0] in
  lowres s = Some 11 /\ option_map tpc (nth_error (thr s) 0) = Some (PDone (Some 10)) /\ option_map tpc (nth_error (thr s) 1) = Some (PDone (Some 11)).
Proof. vm_compute. repeat split; reflexivity. Qed.
(* A starts a flight, B joins, A is cancelled, PD answers: only A fails *)
Example ex_cancel_isolated :
  let s := vrun Z.of_nat true (init_vsys 2)
     [EIssueEnv; EPublish 0; EBegin 0 1 false; EStep 0; EStep 0; EFlightIssue; EBegin 1 1 true; EStep 1; EStep 1;
      ECancel 0; EFlightFinish; EStep 1] in
  voutcome_of s 0 = Some OErr /\ voutcome_of s 1 = Some OAccept.
Proof. vm_compute. split; reflexivity. Qed.
Example ex_interval : let s0 := mkI 2000000000 2000000000 0 0 ISNormal in
  ada (fst (next_interval s0 1000000000 800000000)) = 700000000 /\ istt (fst (next_interval s0 1000000000 800000000)) = ISAdapting.
Proof. vm_compute. split; reflexivity. Qed.
(* a validator's adjustment queues a 800ms request, a second one is dropped (channel full), the loop receives it *)
Example ex_loop :
  let s0 := init_lstate 2000000000 0 in
  let now := 1700000000000000000 in
  let cur := compose_ts 1700000000000 0 in
  let s1 := lstep s0 (LAdjust (compose_ts (1700000000000 - 800) 0) cur now) in
  let s2 := lstep s1 (LAdjust (compose_ts (1700000000000 - 900) 0) cur now) in
  let s3 := lstep s2 (LRecv now now now) in
  lch s1 = Some 800000000 /\ lch s2 = Some 800000000 /\ ada (li s3) = 700000000 /\ lcur s3 = 700000000 /\ lch s3 = None.
Proof. vm_compute. repeat split; reflexivity. Qed.
Example ex_stale : stale_ts (compose_ts 1700000000000 7) 5000000000 5250000000 10 = Some (compose_ts 1699999990250 0).
Proof. vm_compute. reflexivity. Qed.
(* the arrival rule at work: thread 1 (newer ts 11) read the clock at 5, thread 0 (ts 10) at 9 and installed first *)
Example ex_arrival_rule :
  arec (arun (fun k => Z.of_nat (10 + k)) (fun w => w) (init_asys 2 0)
    [AEv 0; AEv 1; AEv 0; AEv 1; EClock 5; AEv 1; EClock 9; AEv 0; AEv 0; AEv 0; AEv 1; AEv 1; AEv 1; AEv 1]) = Some (11, 9).
Proof. vm_compute. reflexivity. Qed.
(* the last TTL inside the domain and the first one outside, lock physical 5, cached physical 7 *)
Example ex_expiry_boundary :
  let lock := compose_ts 5 2 in let last := Some (compose_ts 7 0) in
  (is_expired last lock (two63 - 5 - 1) = false /\ until_expired last lock (two63 - 5 - 1) = two63 - 1 - 7) /\
  (is_expired last lock (two63 - 5) = true /\ until_expired last lock (two63 - 5) = two63 - 7).
Proof. vm_compute. repeat split; reflexivity. Qed.
(* thread 1 lost the race (its ts 10 is older than the published 11) and returns: the cache is already ahead *)
Example ex_catches_up :
  let s := arun (fun k => Z.of_nat (10 + k)) (fun w => w) (init_asys 2 0)
             ([AEv 0; AEv 1; AEv 1; AEv 0] ++ repeat (AEv 0) 8 ++ repeat (AEv 1) 8) in
  nth_error (athr s) 1 = Some (ADone (Some 10)) /\ arec s = Some (11, 0).
Proof. vm_compute. split; reflexivity. Qed.
(* a refresher round (thread 1) scheduled first is not launched while the scope has no entry; after thread 0 has created
   it the round runs, and its PD failure leaves the cached 10 alone *)
Example ex_refresher_role :
  let role := fun t => Nat.eqb t 1 in
  let s := run_role (fun k => Z.of_nat (10 + k)) role (init_sys 2) ([Ev 1; Ev 1] ++ repeat (Ev 0) 9 ++ [Ev 1; EvFail 1]) in
  lowres s = Some 10 /\ option_map tpc (nth_error (thr s) 1) = Some (PDone None) /\
  option_map tpc (nth_error (thr (run_role (fun k => Z.of_nat (10 + k)) role (init_sys 2) [Ev 1; Ev 1])) 1) = Some PIdle.
Proof. vm_compute. repeat split; reflexivity. Qed.
Example ex_retry_accepts :
  voutcome_of (vrun Z.of_nat true (init_vsys 2) (no_retry_sched ++ [EStep 1; EStep 1; EFlightIssue; EFlightFinish; EStep 1])) 1 = Some OAccept.
Proof. exact retry_same_schedule. Qed.
