(* Oracle/ModelSys.v — interleaving semantics of n concurrent GetTimestamp calls
   (pdOracle.GetTimestamp / tsFuture.Wait), each of which receives a timestamp from PD and then
   runs setLastTS — with the atomic steps of the code written out:
     lastTSMap.Load / LoadOrStore (first use of a scope), lastTSPointer.Load, the comparison
     current.tso <= last.tso, lastTSPointer.CompareAndSwap(last, current).
   CompareAndSwap compares POINTERS: every call allocates its own `current`, so the identity of the
   published record is the identity of the call that published it (owner).
   PD is a parameter  pd : nat -> Z  (the k-th timestamp PD hands out); the k counter is PD's state.
   A schedule is a list of events; an event that is not enabled is a no-op, so "all interleavings"
   = all event lists.  The clock counts events and stamps invocation / response times. *)
From Verif Require Export Oracle.Model.

Inductive pc :=
| PIdle                                   (* not yet invoked *)
| PWaitPD                                 (* invoked, PD has not answered *)
| PMapLoad (ts : Z)                       (* got ts from PD; about to lastTSMap.Load *)
| PLoadOrStore (ts : Z)                   (* map had no entry: about to LoadOrStore own pointer *)
| PLoad (ts : Z)                          (* loop head: about to lastTSPointer.Load *)
| PCmp (ts : Z) (o : nat) (v : Z)         (* loaded record of owner o with tso v *)
| PCas (ts : Z) (o : nat) (v : Z)         (* ts > v seen; about to CompareAndSwap(last, current) *)
| PRet (ts : Z)                           (* setLastTS returned *)
| PDone (r : option Z).                   (* call returned r (None = PD error) *)

Record thread := mkThread {
  tpc : pc;
  tidx : nat;        (* ghost: index of the PD answer this call received *)
  tinvk : nat;       (* ghost: PD's counter when the call was invoked *)
  tinvt : nat;       (* ghost: time of invocation *)
  tretk : nat;       (* ghost: PD's counter when the call returned *)
  trett : nat        (* ghost: time of return *)
}.

Record sys := mkSys {
  cell : option (nat * Z);   (* the published lastTSO of the scope: (owner, tso) *)
  issued : nat;              (* number of timestamps PD has handed out *)
  clock : nat;
  thr : list thread
}.

Inductive event := Ev (t : nat) | EvFail (t : nat).

Definition idle_thread := mkThread PIdle O O O O O.
Definition init_sys (n : nat) : sys := mkSys None O O (repeat idle_thread n).

Fixpoint set_nth {A} (l : list A) (i : nat) (x : A) : list A :=
  match l, i with
  | [], _ => []
  | _ :: r, O => x :: r
  | a :: r, S j => a :: set_nth r j x
  end.

Definition with_pc (th : thread) (p : pc) : thread :=
  mkThread p (tidx th) (tinvk th) (tinvt th) (tretk th) (trett th).

Section Sys.
Variable pd : nat -> Z.

(* the next atomic step of thread t (record th) in state s *)
Definition thread_step (s : sys) (t : nat) (th : thread) : sys :=
  let put th' := mkSys (cell s) (issued s) (S (clock s)) (set_nth (thr s) t th') in
  match tpc th with
  | PIdle => put (mkThread PWaitPD O (issued s) (clock s) O O)
  | PWaitPD =>
      mkSys (cell s) (S (issued s)) (S (clock s))
            (set_nth (thr s) t (mkThread (PMapLoad (pd (issued s))) (issued s) (tinvk th) (tinvt th) O O))
  | PMapLoad ts =>
      match cell s with
      | None => put (with_pc th (PLoadOrStore ts))
      | Some _ => put (with_pc th (PLoad ts))
      end
  | PLoadOrStore ts =>
      match cell s with
      | None => mkSys (Some (t, ts)) (issued s) (S (clock s)) (set_nth (thr s) t (with_pc th (PLoad ts)))
      | Some _ => put (with_pc th (PLoad ts))
      end
  | PLoad ts =>
      match cell s with
      | Some (o, v) => put (with_pc th (PCmp ts o v))
      | None => put th
      end
  | PCmp ts o v => if ts <=? v then put (with_pc th (PRet ts)) else put (with_pc th (PCas ts o v))
  | PCas ts o v =>
      match cell s with
      | Some (o', _) =>
          if Nat.eqb o' o
          then mkSys (Some (t, ts)) (issued s) (S (clock s)) (set_nth (thr s) t (with_pc th (PRet ts)))
          else put (with_pc th (PLoad ts))
      | None => put (with_pc th (PLoad ts))
      end
  | PRet ts => put (mkThread (PDone (Some ts)) (tidx th) (tinvk th) (tinvt th) (issued s) (clock s))
  | PDone _ => put th
  end.

Definition tick (s : sys) : sys := mkSys (cell s) (issued s) (S (clock s)) (thr s).

Definition step (s : sys) (e : event) : sys :=
  match e with
  | Ev t => match nth_error (thr s) t with Some th => thread_step s t th | None => tick s end
  | EvFail t =>
      match nth_error (thr s) t with
      | Some th =>
          match tpc th with
          | PWaitPD => mkSys (cell s) (issued s) (S (clock s))
                             (set_nth (thr s) t (mkThread (PDone None) O (tinvk th) (tinvt th) (issued s) (clock s)))
          | _ => tick s
          end
      | None => tick s
      end
  end.

Definition run (s : sys) (es : list event) : sys := fold_left step es s.

(* GetLowResolutionTimestamp = one atomic Load of the published record *)
Definition lowres (s : sys) : option Z := match cell s with Some (_, v) => Some v | None => None end.

End Sys.

(* The background refresher.  updateTS.doUpdate ranges over the scopes that HAVE an entry in lastTSMap and, for each,
   runs getTimestamp + setLastTS (and merely logs a PD failure).  Threads t with  role t = true  are refresher rounds:
   such a round can only be launched for a scope that has an entry — its invocation step is not enabled while the
   scope has none (a disabled event is a no-op that lets time pass) — everything else, including a PD failure
   (EvFail), is what any caller does.  role is arbitrary: any subset of the threads, any number of rounds. *)
Definition step_role (pd : nat -> Z) (role : nat -> bool) (s : sys) (e : event) : sys :=
  match e with
  | Ev t =>
      match nth_error (thr s) t with
      | Some th =>
          match tpc th, cell s with
          | PIdle, None => if role t then tick s else step pd s e
          | _, _ => step pd s e
          end
      | None => step pd s e
      end
  | _ => step pd s e
  end.
Definition run_role (pd : nat -> Z) (role : nat -> bool) (s : sys) (es : list event) : sys :=
  fold_left (step_role pd role) es s.

(* order on the cached value: absent <= anything *)
Definition ole (a b : option Z) : Prop :=
  match a, b with
  | None, _ => True
  | Some _, None => False
  | Some x, Some y => x <= y
  end.

(* a thread running setLastTS alone from Load to Ret takes at most 4 steps; used by the
   correspondence driver to run calls one after the other *)
Definition run_alone (pd : nat -> Z) (s : sys) (t : nat) : sys :=
  run pd s (repeat (Ev t) 9).
