(* Oracle/Model.v — executable model of oracle/oracle.go (ComposeTS, ExtractPhysical, ExtractLogical), the call-level
   behaviour of oracle/oracles/pd.go (setLastTS as seen by one caller at a time, GetTimestamp,
   GetLowResolutionTimestamp, IsExpired, UntilExpired, ValidateReadTS with a private flight),
   oracle/oracles/local.go (GetTimestamp / expiry) and txnkv/transaction/txn.go
   (GetTimestampForCommit).  Definitions only.  The concurrent transition systems are in
   ModelSys.v (GetTimestamp + the CAS loop of setLastTS) and ModelVal.v (ValidateReadTS + single
   flight).  All machine integers are Z; the uint64/int64 wrap-around is written out. *)
From Coq Require Export ZArith List Bool.
Export ListNotations.
Open Scope Z_scope.

Definition two18 : Z := 262144.
Definition two46 : Z := 70368744177664.
Definition two62 : Z := 4611686018427387904.
Definition two63 : Z := 9223372036854775808.
Definition two64 : Z := 18446744073709551616.
Definition max_int64 : Z := 9223372036854775807.
Definition max_uint64 : Z := 18446744073709551615.

(* value of a Go uint64 / int64 expression computed in Z *)
Definition wrap_u64 (z : Z) : Z := z mod two64.
Definition wrap_i64 (z : Z) : Z := (z + two63) mod two64 - two63.

(* ---------- oracle.go ---------- *)
(* uint64((physical << 18) + logical), int64 arithmetic wraps, conversion is mod 2^64 *)
Definition compose_ts (p l : Z) : Z := wrap_u64 (wrap_i64 (wrap_i64 (p * two18) + l)).
(* int64(ts >> 18) — the shifted value is < 2^46, conversion is the identity *)
Definition extract_physical (ts : Z) : Z := ts / two18.
(* int64(ts & (2^18-1)) *)
Definition extract_logical (ts : Z) : Z := ts mod two18.

(* ---------- pd.go: expiry ---------- *)
(* lastTS absent: IsExpired = true, UntilExpired = 0 *)
Definition is_expired (last : option Z) (lock ttl : Z) : bool :=
  match last with
  | None => true
  | Some l => wrap_i64 (extract_physical lock + wrap_i64 ttl) <=? extract_physical l
  end.
Definition until_expired (last : option Z) (lock ttl : Z) : Z :=
  match last with
  | None => 0
  | Some l => wrap_i64 (wrap_i64 (extract_physical lock + wrap_i64 ttl) - extract_physical l)
  end.

(* ---------- pd.go: the cached timestamps, one caller at a time ---------- *)
(* scopes: 0 = "", 1 = "global", others = other names; "" is normalised to "global" *)
Definition norm_scope (s : Z) : Z := if s =? 0 then 1 else s.
Definition ostate := list (Z * Z).          (* scope -> lastTS *)
Fixpoint lookup (st : ostate) (s : Z) : option Z :=
  match st with
  | [] => None
  | (k, v) :: r => if k =? s then Some v else lookup r s
  end.
Fixpoint update (st : ostate) (s v : Z) : ostate :=
  match st with
  | [] => [(s, v)]
  | (k, w) :: r => if k =? s then (k, v) :: r else (k, w) :: update r s v
  end.
Definition get_last (st : ostate) (scope : Z) : option Z := lookup st (norm_scope scope).
(* setLastTS run alone: publish only if newer *)
Definition set_last (st : ostate) (scope ts : Z) : ostate :=
  match get_last st scope with
  | None => update st (norm_scope scope) ts
  | Some l => if ts <=? l then st else update st (norm_scope scope) ts
  end.
(* GetTimestamp / tsFuture.Wait: pd = None is an error from PD *)
Definition get_ts (st : ostate) (scope : Z) (pd : option (Z * Z)) : ostate * option Z :=
  match pd with
  | None => (st, None)
  | Some (p, l) => let ts := compose_ts p l in (set_last st scope ts, Some ts)
  end.

(* ---------- pd.go: ValidateReadTS, caller alone (every flight is its own) ---------- *)
Inductive voutcome := VAccept | VReject (cur : Z) | VErrPD | VErrRange | VErrLatest.
Definition validate_pre (read : Z) (stale : bool) : option voutcome :=
  if (max_int64 <=? read) && (read <? max_uint64) then Some VErrRange
  else if read =? max_uint64 then Some (if stale then VErrLatest else VAccept)
  else None.
(* returns (state, outcome, number of PD calls made) *)
Fixpoint validate_loop (fuel : nat) (st : ostate) (scope read : Z) (retrying : bool)
         (pds : list (option (Z * Z))) (used : nat) : ostate * voutcome * nat :=
  match fuel with
  | O => (st, VErrPD, used)
  | S f =>
      let cached := match get_last st scope with Some l => read <=? l | None => false end in
      if cached then (st, VAccept, used) else
      match pds with
      | [] => (st, VErrPD, used)
      | None :: _ => (st, VErrPD, S used)
      | Some (p, l) :: rest =>
          let cur := compose_ts p l in
          let st' := set_last st scope cur in
          if cur <? read then
            if retrying then (st', VReject cur, S used)
            else validate_loop f st' scope read true rest (S used)
          else (st', VAccept, S used)
      end
  end.
Definition validate_seq (enabled : bool) (st : ostate) (scope read : Z) (stale : bool)
           (pds : list (option (Z * Z))) : ostate * voutcome * nat :=
  if negb enabled then (st, VAccept, O) else
  match validate_pre read stale with
  | Some o => (st, o, O)
  | None => validate_loop 2 st scope read false pds O
  end.

(* ---------- txn.go: GetTimestampForCommit ---------- *)
(* time.Time.Sub saturates *)
Definition sat_i64 (z : Z) : Z := if z <? - two63 then - two63 else if max_int64 <? z then max_int64 else z.
(* oracle.GetTimeFromTS(a).Sub(oracle.GetTimeFromTS(b)) in nanoseconds *)
Definition ts_time_sub (a b : Z) : Z := sat_i64 ((extract_physical a - extract_physical b) * 1000000).

Inductive cw_res := CwOk (ts : Z) | CwErr.
(* the loop  for ts := first; ts <= bound; { backoff; ts = getTS }  — one unit of fuel per
   back-off that the Backoffer grants; script = answers of GetTimestampWithRetry *)
Fixpoint cw_loop (fuel : nat) (bound ts : Z) (script : list (option Z)) (calls : nat) : cw_res * nat :=
  if ts <=? bound then
    match fuel with
    | O => (CwErr, calls)
    | S f =>
        match script with
        | [] => (CwErr, calls)
        | None :: _ => (CwErr, S calls)
        | Some ts' :: rest => cw_loop f bound ts' rest (S calls)
        end
    end
  else (CwOk ts, calls).
Definition commit_wait (bound max_sleep_ns : Z) (fuel : nat) (script : list (option Z)) : cw_res * nat :=
  match script with
  | [] => (CwErr, O)
  | None :: _ => (CwErr, 1%nat)
  | Some first :: rest =>
      if bound <? first then (CwOk first, 1%nat)
      else if max_sleep_ns =? 0 then (CwErr, 1%nat)
      else if max_sleep_ns <? ts_time_sub bound first then (CwErr, 1%nat)
      else cw_loop fuel bound first rest 1%nat
  end.

(* SetCommitWaitUntilTSO: registrations only raise the constraint (0 = "no constraint" never erases one) *)
Definition set_cw (cur nw : Z) : Z := if cur <? nw then nw else cur.
Definition cw_bound (regs : list Z) : Z := fold_left set_cw regs 0.
(* a transaction: a sequence of registrations, then GetTimestampForCommit *)
Definition commit_wait_regs (regs : list Z) (max_sleep_ns : Z) (fuel : nat) (script : list (option Z)) : cw_res * nat :=
  commit_wait (cw_bound regs) max_sleep_ns fuel script.

(* ---------- local.go ---------- *)
(* GoTimeToTS of a clock reading in ms (non-negative, < 2^45) *)
Definition go_time_to_ts (now_ms : Z) : Z := wrap_u64 (wrap_i64 (now_ms * two18)).
(* state (lastTimeStampTS, n) *)
Definition local_get_ts (st : Z * Z) (now_ms : Z) : (Z * Z) * Z :=
  let '(lastts, n) := st in
  let ts := go_time_to_ts now_ms in
  if lastts =? ts then ((lastts, n + 1), wrap_u64 (ts + (n + 1))) else ((ts, 0), ts).
(* IsExpired: !now.Before(GetTimeFromTS(lock).Add(ttl ms)); in ns, ttl small enough not to overflow *)
Definition local_is_expired (now_ns lock ttl : Z) : bool :=
  (extract_physical lock * 1000000 + ttl * 1000000) <=? now_ns.
Definition local_until_expired (now_ns lock ttl : Z) : Z :=
  wrap_i64 (wrap_i64 (extract_physical lock + wrap_i64 ttl) - now_ns / 1000000).

(* ---------- mock.go: MockOracle.GetTimestamp under its mutex (now_ms = clock + offset) ---------- *)
Definition mock_get_ts (last now_ms : Z) : Z :=
  let ts := go_time_to_ts now_ms in
  if extract_physical last =? extract_physical ts then wrap_u64 (last + 1) else ts.

(* ---------- local_external_timestamp.go: setExternalTimestamp (cur = the oracle's current timestamp) ---------- *)
Definition set_external (ext cur nw : Z) : option Z :=
  if cur <? nw then None else if nw <? ext then None else Some nw.

(* helpers for the correspondence driver *)
Definition zle (a b : Z) : bool := a <=? b.
Definition zlt (a b : Z) : bool := a <? b.
Definition zeq (a b : Z) : bool := a =? b.
Definition zadd (a b : Z) : Z := a + b.
Definition zsub (a b : Z) : Z := a - b.
Definition zmul (a b : Z) : Z := a * b.
Definition zdiv (a b : Z) : Z := a / b.
Definition z_to_n (a : Z) : N := Z.to_N a.   (* keeps the type N in the extracted module (common.ml needs it) *)
