(* Oracle/ProofsInt.v — GetStaleTimestamp arithmetic and the adaptive update-interval state machine *)
From Verif Require Import Oracle.Model Oracle.ModelSys Oracle.ModelInt Oracle.ProofsArith.
From Coq Require Import Lia ZifyBool.
Ltac Zify.zify_post_hook ::= Z.div_mod_to_equations.
Open Scope Z_scope.

(* ---------- stale timestamps ---------- *)
Definition stale_dom (tso arr now prev : Z) : Prop :=
  0 <= tso < two64 /\ extract_physical tso < 8796093022208 /\ 0 <= prev < 8589934592 /\ 0 <= arr <= now /\ now < two62.

Lemma quot_div_nonneg : forall a b, 0 <= a -> 0 < b -> Z.quot a b = a / b.
Proof. intros. apply Z.quot_div_nonneg; lia. Qed.

Lemma stale_guard : forall tso arr now prev,
  stale_ts tso arr now prev = None <-> extract_physical tso / 1000 <= prev.
Proof. intros. unfold stale_ts. destruct (extract_physical tso / 1000 <=? prev) eqn:E; split; intros; try discriminate; try reflexivity; lia. Qed.

Lemma stale_value : forall tso arr now prev r,
  stale_dom tso arr now prev -> stale_ts tso arr now prev = Some r ->
  0 <= stale_ns tso arr now prev /\ r = (stale_ns tso arr now prev / 1000000) * two18 /\
  extract_physical r = stale_ns tso arr now prev / 1000000 /\ extract_logical r = 0.
Proof.
  intros tso arr now prev r [Ht [Hp [Hprev [Harr Hnow]]]] H. unfold stale_ts in H.
  destruct (extract_physical tso / 1000 <=? prev) eqn:E; [discriminate|]. inversion H; subst r; clear H.
  assert (P0 : 0 <= extract_physical tso) by (unfold extract_physical, two18, two64 in *; lia).
  assert (N : 0 <= stale_ns tso arr now prev) by (unfold stale_ns; lia).
  assert (U : stale_ns tso arr now prev < 8796093022208 * 1000000 + two62) by (unfold stale_ns; lia).
  rewrite quot_div_nonneg by lia.
  set (q := stale_ns tso arr now prev / 1000000) in *.
  assert (Q : 0 <= q < two45) by (unfold q, two62, two45 in *; lia).
  rewrite wrap_i64_id by (unfold two45, two18, two63 in *; lia).
  rewrite wrap_u64_id by (unfold two45, two18, two64 in *; lia).
  repeat split; auto; unfold extract_physical, extract_logical, two18 in *; lia.
Qed.

(* monotone in the clock, antitone in prevSecond *)
Lemma stale_monotone : forall tso arr now now' prev r r',
  stale_dom tso arr now prev -> stale_dom tso arr now' prev -> now <= now' ->
  stale_ts tso arr now prev = Some r -> stale_ts tso arr now' prev = Some r' -> r <= r'.
Proof.
  intros tso arr now now' prev r r' D D' Hle H H'.
  destruct (stale_value _ _ _ _ _ D H) as [N [E _]]. destruct (stale_value _ _ _ _ _ D' H') as [N' [E' _]].
  subst. assert (stale_ns tso arr now prev <= stale_ns tso arr now' prev) by (unfold stale_ns; lia).
  unfold two18. lia.
Qed.

(* if the cached record is at most prevSecond old, the estimate does not exceed the cached timestamp *)
Lemma stale_le_last : forall tso arr now prev r,
  stale_dom tso arr now prev -> now - arr <= prev * 1000000000 ->
  stale_ts tso arr now prev = Some r -> r <= tso.
Proof.
  intros tso arr now prev r D Hage H. destruct (stale_value _ _ _ _ _ D H) as [N [E _]]. subst r.
  destruct D as [Ht _]. unfold stale_ns, extract_physical, two18 in *. lia.
Qed.

(* ... and without that condition it can: prevSecond = 0, the record is 5 ms old *)
Lemma stale_beyond_last_refuted : exists tso arr now prev r,
  stale_dom tso arr now prev /\ stale_ts tso arr now prev = Some r /\ tso < r.
Proof.
  exists (compose_ts 1700000000000 7), 1000000000, 1005000000, 0. eexists.
  split; [unfold stale_dom; vm_compute; repeat split; congruence|]. split; [vm_compute; reflexivity|]. vm_compute. reflexivity.
Qed.

(* non-future: the record's timestamp had been issued when it arrived (pd_ns arr = PD's clock at local time
   arr, in ns) and PD's clock is not slower than the local one; then the estimate never exceeds PD's current
   physical time minus prevSecond — it is never beyond what PD has issued or could issue now *)
Lemma stale_not_future : forall (pd_ns : Z -> Z) tso arr now prev r,
  stale_dom tso arr now prev ->
  extract_physical tso * 1000000 <= pd_ns arr ->
  pd_ns arr + (now - arr) <= pd_ns now ->
  stale_ts tso arr now prev = Some r ->
  extract_physical r <= pd_ns now / 1000000 - prev * 1000 /\ extract_logical r = 0.
Proof.
  intros pd_ns tso arr now prev r D H1 H2 H. destruct (stale_value _ _ _ _ _ D H) as [N [_ [E L]]].
  split; [|exact L]. rewrite E. unfold stale_ns in *. lia.
Qed.

(* ---------- adaptive interval ---------- *)
Definition int_inv (s : ist) : Prop := 0 < cfg s /\ Z.min min_interval (cfg s) <= ada s <= cfg s.

Lemma rec_amount_nonneg : forall dt, 0 <= dt -> 0 <= rec_amount dt.
Proof. intros. unfold rec_amount. rewrite Z.quot_div_nonneg by lia. lia. Qed.

Definition okni (s : ist) (ni : Z) : Prop := Z.min min_interval (cfg s) <= ni <= cfg s.

Lemma ok_unadj : forall s st ni, int_inv s -> check_unadjustable s = Some (st, ni) -> okni s ni.
Proof. intros s st ni [C [L U]] H. unfold check_unadjustable in H. unfold okni.
  destruct (cfg s <=? min_interval) eqn:E; [|discriminate H]. injection H as _ H2. rewrite <- H2.
  unfold min_interval in *. lia. Qed.
Lemma ok_normal : forall s cur st ni, okni s cur -> check_normal s cur = Some (st, ni) -> okni s ni.
Proof. intros s cur st ni O H. unfold check_normal in H.
  destruct ((min_interval <? cfg s) && (cur =? cfg s)); [|discriminate H]. injection H as _ H2. rewrite <- H2. exact O. Qed.
Lemma ok_adapting : forall s now req st ni, int_inv s -> check_adapting s now req = Some (st, ni) -> okni s ni.
Proof. intros s now req st ni [C [L U]] H. unfold check_adapting in H. unfold okni.
  destruct (negb (req =? 0) && (req <? ada s) && (min_interval <? ada s)) eqn:E.
  - injection H as _ H2. rewrite <- H2. unfold min_interval, shrink_preserve in *. lia.
  - destruct (negb (ada s =? cfg s) && recent s now); [|discriminate H]. injection H as _ H2. rewrite <- H2. lia.
Qed.
Lemma ok_recovering : forall s now st ni, int_inv s -> last_tick s <= now -> check_recovering s now = Some (st, ni) -> okni s ni.
Proof. intros s now st ni [C [L U]] Ht H. pose proof (rec_amount_nonneg (now - last_tick s) ltac:(lia)) as R.
  unfold check_recovering in H. unfold okni.
  destruct ((ada s =? cfg s) || recent s now); [discriminate H|].
  injection H as _ H2. rewrite <- H2. set (ra := rec_amount (now - last_tick s)) in *.
  destruct (cfg s <? ada s + ra) eqn:E; lia.
Qed.

Lemma next_interval_inv : forall s now req,
  int_inv s -> last_tick s <= now ->
  int_inv (fst (next_interval s now req)) /\ snd (next_interval s now req) = ada (fst (next_interval s now req)) /\
  cfg (fst (next_interval s now req)) = cfg s /\ last_tick (fst (next_interval s now req)) = last_tick s.
Proof.
  intros s now req I Ht. pose proof I as [C [L U]]. unfold next_interval.
  set (chosen := if negb (req =? 0) then _ else _).
  assert (O : forall st ni, chosen = Some (st, ni) -> okni s ni).
  { intros st ni H. unfold chosen, first_some in H.
    destruct (negb (req =? 0)).
    - destruct (check_unadjustable s) as [[a b]|] eqn:E1; rewrite ?E1 in H; cbv beta iota in H; [injection H as <- <-; eapply ok_unadj; eauto|].
      eapply ok_adapting; eauto.
    - destruct (check_unadjustable s) as [[a b]|] eqn:E1; rewrite ?E1 in H; cbv beta iota in H; [injection H as <- <-; eapply ok_unadj; eauto|].
      destruct (check_adapting s now req) as [[a b]|] eqn:E2; rewrite ?E2 in H; cbv beta iota in H; [injection H as <- <-; eapply ok_adapting; eauto|].
      destruct (check_normal s (ada s)) as [[a b]|] eqn:E3; rewrite ?E3 in H; cbv beta iota in H; [injection H as <- <-; eapply ok_normal; [|eauto]; unfold okni; lia|].
      eapply ok_recovering; eauto. }
  destruct chosen as [[st ni]|]; [|cbn [fst snd cfg ada last_tick]; repeat split; auto].
  specialize (O st ni eq_refl).
  assert (O' : forall st' ni', match st with
        | ISRecovering => match check_normal s ni with Some r => r | None => (st, ni) end
        | _ => (st, ni) end = (st', ni') -> okni s ni').
  { intros st' ni' H. destruct st; try (injection H as _ <-; exact O).
    destruct (check_normal s ni) as [[a b]|] eqn:E; injection H as _ <-; [eapply ok_normal; eauto|exact O]. }
  destruct (match st with ISRecovering => _ | _ => _ end) as [st' ni']. specialize (O' st' ni' eq_refl).
  cbn [fst snd cfg ada last_tick]. unfold int_inv, okni in *. cbn [cfg ada]. repeat split; lia.
Qed.

Lemma next_interval_shrinks : forall s now req,
  int_inv s -> min_interval < cfg s -> req <> 0 -> req < ada s -> min_interval < ada s ->
  let s' := fst (next_interval s now req) in
  ada s' = Z.max (req - shrink_preserve) min_interval /\ ada s' < ada s /\ min_interval <= ada s' /\ istt s' = ISAdapting /\
  snd (next_interval s now req) = ada s'.
Proof.
  intros s now req [C [L U]] Hc Hreq Hlt Hmin. cbv zeta.
  unfold next_interval, first_some, check_unadjustable, check_adapting, min_interval, shrink_preserve in *.
  assert (E0 : (req =? 0) = false) by lia. rewrite E0. cbn [negb andb].
  assert (E1 : (cfg s <=? 500000000) = false) by lia. rewrite E1.
  assert (E2 : (req <? ada s) = true) by lia. rewrite E2.
  assert (E3 : (500000000 <? ada s) = true) by lia. rewrite E3. cbn [andb fst snd ada istt]. repeat split; lia.
Qed.

Lemma set_interval_inv : forall s nw s', int_inv s -> set_interval s nw = Some s' -> int_inv s' /\ cfg s' = nw.
Proof.
  intros s nw s' [C [L U]] H. unfold set_interval, int_inv, min_interval in *.
  destruct (nw <=? 0) eqn:E0; [discriminate|].
  destruct (nw =? cfg s) eqn:E1; [inversion H; subst; repeat split; lia|].
  destruct ((ada s =? cfg s) || (nw <? ada s)) eqn:E2; inversion H; subst; cbn [cfg ada]; repeat split; lia.
Qed.

(* the loop: record invariant + every request waiting in the channel is at least 1ms *)
Definition linv (s : lstate) : Prop := int_inv (li s) /\ (forall r, lch s = Some r -> 1000000 <= r).

Lemma adjust_spec : forall s read cur now,
  int_inv s -> int_inv (fst (adjust s read cur now)) /\
  cfg (fst (adjust s read cur now)) = cfg s /\ ada (fst (adjust s read cur now)) = ada s /\
  (forall r, snd (adjust s read cur now) = Some r -> 1000000 <= r).
Proof.
  intros s read cur now I. unfold adjust. cbn [fst snd].
  split; [|split; [|split]].
  - destruct (_ <=? ada s + block_recover); exact I.
  - destruct (_ <=? ada s + block_recover); reflexivity.
  - destruct (_ <=? ada s + block_recover); reflexivity.
  - intros r H. destruct ((_ <=? ada s) && (min_interval <? ada s)); [|discriminate]. injection H as <-. lia.
Qed.

Lemma lstep_inv : forall s o, linv s -> linv (lstep s o).
Proof.
  intros s o [I Ch]. destruct o as [now|now1 now2 now3|nw|read cur now]; cbn [lstep].
  - destruct (now <? last_tick (li s)) eqn:E; [split; assumption|].
    destruct (next_interval_inv (li s) now 0 I ltac:(lia)) as [J _].
    destruct (next_interval (li s) now 0) as [i' ni]. cbn [fst] in J. split; cbn [li lch]; [exact J|exact Ch].
  - destruct (lch s) as [req|] eqn:Hc; [|split; [exact I|rewrite Hc; exact Ch]].
    destruct ((now1 <? last_tick (li s)) || (now2 <? now1) || (now3 <? now2)) eqn:E; [split; [exact I|rewrite Hc; exact Ch]|].
    destruct (next_interval_inv (li s) now1 req I ltac:(lia)) as [J _].
    destruct (next_interval (li s) now1 req) as [i' ni]. cbn [fst] in J.
    destruct (ni =? lcur s); [split; cbn [li lch]; [exact J|intros; discriminate]|].
    split; cbn [li lch]; [|intros; discriminate]. destruct (ni <=? now2 - last_tick i'); exact J.
  - destruct (set_interval (li s) nw) as [i'|] eqn:E; [|split; assumption].
    split; cbn [li lch]; [exact (proj1 (set_interval_inv _ _ _ I E))|exact Ch].
  - destruct (adjust_spec (li s) read cur now I) as [J [_ [_ R]]].
    destruct (adjust (li s) read cur now) as [i' sent]. cbn [fst snd] in *. split; cbn [li lch]; [exact J|].
    intros r H. destruct (lch s) as [c|] eqn:Hc; [apply Ch; exact H|]. destruct sent as [r'|]; [injection H as <-; apply R; reflexivity|discriminate].
Qed.

Lemma lrun_inv : forall ops s, linv s -> linv (fold_left lstep ops s).
Proof. induction ops as [|o ops IH]; intros s I; cbn; auto. apply IH, lstep_inv, I. Qed.

Lemma linv_init : forall c t0, 0 < c -> linv (init_lstate c t0).
Proof. intros c t0 H. split; cbn; [unfold int_inv, min_interval; cbn; lia|intros; discriminate]. Qed.

(* a tick re-synchronises the loop's local interval with the record *)
Lemma ltick_syncs : forall s now, linv s -> last_tick (li s) <= now ->
  lcur (lstep s (LTick now)) = ada (li (lstep s (LTick now))) /\ last_tick (li (lstep s (LTick now))) = now.
Proof.
  intros s now [I _] H. cbn [lstep]. assert (E : (now <? last_tick (li s)) = false) by lia. rewrite E.
  destruct (next_interval_inv (li s) now 0 I H) as [_ [S _]].
  destruct (next_interval (li s) now 0) as [i' ni]. cbn [fst snd] in S. cbn [lcur li with_tick ada last_tick].
  destruct (ni =? lcur s) eqn:E2; split; try reflexivity; lia.
Qed.

(* a waiting request below the current interval shrinks it when the loop receives it *)
Lemma lrecv_shrinks : forall s req now1 now2 now3,
  linv s -> lch s = Some req -> min_interval < cfg (li s) -> req < ada (li s) -> min_interval < ada (li s) ->
  last_tick (li s) <= now1 -> now1 <= now2 -> now2 <= now3 ->
  let s' := lstep s (LRecv now1 now2 now3) in
  ada (li s') = Z.max (req - shrink_preserve) min_interval /\ ada (li s') < ada (li s) /\ min_interval <= ada (li s') /\
  istt (li s') = ISAdapting /\ lcur s' = ada (li s') /\ lch s' = None.
Proof.
  intros s req now1 now2 now3 [I Ch] Hc Hcfg Hlt Hmin H1 H2 H3. cbv zeta. cbn [lstep]. rewrite Hc.
  assert (E : ((now1 <? last_tick (li s)) || (now2 <? now1) || (now3 <? now2)) = false) by lia. rewrite E.
  pose proof (Ch req Hc) as Hr.
  destruct (next_interval_shrinks (li s) now1 req I Hcfg ltac:(lia) Hlt Hmin) as [A [B [C [D F]]]].
  destruct (next_interval (li s) now1 req) as [i' ni]. cbn [fst snd] in *.
  destruct (ni =? lcur s) eqn:E2; cbn [li lcur lch].
  - repeat split; auto; lia.
  - destruct (ni <=? now2 - last_tick i'); cbn [with_tick ada istt]; repeat split; auto.
Qed.

(* ---------- arrival (call level) ---------- *)
Section Arrival.
Variable pd_ns : Z -> Z.                                   (* PD's clock (ns) at local time t *)
Hypothesis pd_ns_mono : forall a b, a <= b -> pd_ns a <= pd_ns b.

(* calls = (ts, clock reading at the call); every ts had been issued when its call read the clock *)
Definition call_ok (c : Z * Z) : Prop := extract_physical (fst c) * 1000000 <= pd_ns (snd c).
Definition rec_ok (r : option (Z * Z)) (hi : Z) : Prop :=
  match r with None => True | Some (l, a) => extract_physical l * 1000000 <= pd_ns a /\ a <= hi end.
Definition rec_le (r r' : option (Z * Z)) : Prop :=
  match r, r' with
  | None, _ => True
  | Some _, None => False
  | Some (l, a), Some (l', a') => l <= l' /\ a <= a'
  end.

Lemma rec_le_trans : forall a b c, rec_le a b -> rec_le b c -> rec_le a c.
Proof.
  intros [[l a]|] [[l1 a1]|] [[l2 a2]|]; cbn; intros; try lia; try contradiction; auto.
Qed.

Lemma set_last_arr_step : forall r ts now hi,
  rec_ok r hi -> call_ok (ts, now) -> hi <= now ->
  rec_ok (set_last_arr r ts now) now /\ rec_le r (set_last_arr r ts now).
Proof.
  intros r ts now hi R C H. unfold call_ok in C. cbn [fst snd] in C. destruct r as [[l a]|]; cbn [set_last_arr rec_ok rec_le] in *.
  - destruct R as [R1 R2]. destruct (ts <=? l) eqn:E; cbn [rec_ok rec_le].
    + repeat split; lia.
    + assert (Z.max now a = now) by lia. rewrite H0. repeat split; lia.
  - split; [split; lia|exact Logic.I].
Qed.

(* any sequence of calls whose clock readings do not go backwards *)
Fixpoint clock_sorted (hi : Z) (cs : list (Z * Z)) : Prop :=
  match cs with [] => True | (ts, now) :: r => hi <= now /\ clock_sorted now r end.
Fixpoint last_clock (hi : Z) (cs : list (Z * Z)) : Z := match cs with [] => hi | (_, now) :: r => last_clock now r end.

Lemma arrival_run : forall cs r hi,
  rec_ok r hi -> Forall call_ok cs -> clock_sorted hi cs ->
  let r' := fold_left (fun r c => set_last_arr r (fst c) (snd c)) cs r in
  rec_ok r' (last_clock hi cs) /\ rec_le r r'.
Proof.
  induction cs as [|[ts now] cs IH]; intros r hi R F S; cbn [fold_left last_clock clock_sorted fst snd] in *.
  - split; [exact R|]. destruct r as [[l a]|]; cbn; [lia|exact Logic.I].
  - destruct S as [S1 S2]. inversion F; subst.
    destruct (set_last_arr_step r ts now hi R H1 S1) as [R' L'].
    destruct (IH _ now R' H2 S2) as [R'' L'']. split; [exact R''|].
    eapply rec_le_trans; eauto.
Qed.
End Arrival.

(* ---------- interval operations do not touch the published timestamp ---------- *)
Lemma prun_proj : forall pd es s,
  fst (prun pd s es) = run pd (fst s) (sys_events es) /\ snd (prun pd s es) = fold_left lstep (int_ops es) (snd s).
Proof.
  intros pd. induction es as [|e es IH]; intros s; cbn [prun fold_left sys_events int_ops flat_map]; auto.
  destruct e as [e|o]; cbn [pstep app].
  - destruct (IH (step pd (fst s) e, snd s)) as [A B]. unfold prun in *. rewrite A, B. split; reflexivity.
  - destruct (IH (fst s, lstep (snd s) o)) as [A B]. unfold prun in *. rewrite A, B. split; reflexivity.
Qed.
