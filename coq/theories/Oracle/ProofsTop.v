(* Oracle/ProofsTop.v — the statements of Props.v whose proofs combine several lemmas; Props.v closes each theorem
   with [exact T_<name>]. *)
From Verif Require Import Oracle.Model Oracle.ModelSys Oracle.ModelVal Oracle.ModelInt Oracle.ProofsArith Oracle.ProofsSys Oracle.ProofsVal Oracle.ModelArr Oracle.ProofsInt Oracle.ProofsSeq Oracle.ProofsFresh Oracle.ProofsArr.
From Coq Require Import Lia.
Open Scope Z_scope.

Lemma T_C13_compose_extract : forall p l, 0 <= p < two45 -> 0 <= l < two18 ->
  extract_physical (compose_ts p l) = p /\ extract_logical (compose_ts p l) = l /\
  (forall p' l', 0 <= p' < two45 -> 0 <= l' < two18 ->
     (compose_ts p l < compose_ts p' l' <-> (p < p' \/ (p = p' /\ l < l')))).
Proof.
  intros p l Hp Hl. destruct (compose_extract p l (conj Hp Hl)) as [A B]. repeat split; auto;
  apply (compose_monotone p l p' l' (conj Hp Hl) (conj H H0)).
Qed.

Lemma T_C13_extract_compose : forall ts, 0 <= ts < two63 ->
  compose_ts (extract_physical ts) (extract_logical ts) = ts.
Proof. intros ts H. exact (proj1 (extract_compose ts H)). Qed.

Lemma T_C13_passthrough : forall (pd : nat -> Z),
  (forall i j, (i < j)%nat -> pd i < pd j) ->
  forall n es a b tha thb va vb,
    let s := run pd (init_sys n) es in
    nth_error (thr s) a = Some tha -> nth_error (thr s) b = Some thb ->
    tpc tha = PDone (Some va) -> tpc thb = PDone (Some vb) ->
    va = pd (tidx tha) /\ (tidx tha < issued s)%nat /\ ((trett tha < tinvt thb)%nat -> va < vb).
Proof.
  intros pd strict n es a b tha thb va vb s Ha Hb Hda Hdb.
  destruct (both_run pd es _ (inv_init pd n) (tinv_init n)) as [I TI].
  pose proof I as [_ It]. destruct (It _ _ Ha) as [G _]. rewrite Hda in G. destruct (G va eq_refl) as [E [L _]].
  repeat split; auto. intros Hlt.
  destruct (realtime_index pd _ a b tha thb va vb I TI Ha Hb Hda Hdb Hlt) as [Ea [Eb Hi]]. rewrite Ea, Eb. auto.
Qed.

Lemma T_C13_lastts_monotone : forall (pd : nat -> Z) n es1 es2,
  let s1 := run pd (init_sys n) es1 in
  let s2 := run pd s1 es2 in
  ole (lowres s1) (lowres s2) /\
  (forall v, lowres s2 = Some v -> exists i, (i < issued s2)%nat /\ v = pd i).
Proof.
  intros pd n es1 es2 s1 s2.
  assert (I1 : Inv pd s1) by (apply inv_run, inv_init).
  split; [exact (lr_run pd es2 s1 I1)|].
  intros v H. apply (lr_issued pd s2 v); [apply inv_run; exact I1|exact H].
Qed.

Lemma T_C13_lowres_bounds : forall (pd : nat -> Z),
  (forall i j, (i < j)%nat -> pd i < pd j) ->
  forall n es1 es2 v1 v2,
    let s1 := run pd (init_sys n) es1 in
    let s2 := run pd s1 es2 in
    lowres s1 = Some v1 -> lowres s2 = Some v2 ->
    v1 <= v2 /\ v2 <= pd (issued s2 - 1)%nat.
Proof.
  intros pd strict n es1 es2 v1 v2 s1 s2 H1 H2.
  destruct (T_C13_lastts_monotone pd n es1 es2) as [M B]. fold s1 s2 in M, B.
  rewrite H1, H2 in M. split; [exact M|].
  destruct (B v2 H2) as [i [Hi E]]. subst v2. apply (pd_mono pd strict). lia.
Qed.

Lemma T_C13_commit_wait : forall bound max_sleep_ns fuel script,
  (forall ts c, commit_wait bound max_sleep_ns fuel script = (CwOk ts, c) -> bound < ts /\ In (Some ts) script) /\
  (forall r c, commit_wait bound max_sleep_ns fuel script = (r, c) -> (c <= 1 + fuel)%nat).
Proof.
  intros bound ms fuel script. split.
  - intros ts c H. exact (commit_wait_ok bound ms fuel script ts c H).
  - intros r c H. exact (commit_wait_calls bound ms fuel script r c H).
Qed.

Lemma T_C13_validate_cancel_isolated : forall (pd : nat -> Z) (u : nat) retry n es,
  Forall (fun e => e <> EFlightFail /\ e <> ECancel u) es ->
  voutcome_of (vrun pd retry (init_vsys n) es) u <> Some OErr.
Proof. intros pd u retry n es H. exact (cancel_isolated pd u retry n es H). Qed.

Lemma T_C13_fresh_scope : forall (pd : nat -> Z) n es1 es2,
  let s1 := run pd (init_sys n) es1 in
  let s2 := run pd s1 es2 in
  lowres (init_sys n) = None /\
  (lowres s1 <> None -> lowres s2 <> None) /\
  ole (lowres s1) (lowres s2) /\
  (forall v, lowres s2 = Some v -> exists i, (i < issued s2)%nat /\ v = pd i) /\
  (forall t th ts, nth_error (thr s1) t = Some th -> tpc th = PLoadOrStore ts ->
     (cell s1 = None -> cell (step pd s1 (Ev t)) = Some (t, ts)) /\
     (forall c, cell s1 = Some c -> cell (step pd s1 (Ev t)) = Some c) /\
     exists th', nth_error (thr (step pd s1 (Ev t))) t = Some th' /\ tpc th' = PLoad ts).
Proof.
  intros pd n es1 es2 s1 s2. destruct (T_C13_lastts_monotone pd n es1 es2) as [M B]. fold s1 s2 in M, B.
  split; [reflexivity|]. split; [|split; [exact M|split; [exact B|]]].
  - unfold lowres. intros H1 H2. apply (cell_stays_run pd es2 s1); [destruct (cell s1) as [[o v]|]; congruence|].
    fold s2. destruct (cell s2) as [[o v]|]; congruence.
  - intros t th ts Ht Hp. exact (load_or_store_spec pd s1 t th ts Ht Hp).
Qed.


Lemma T_C13_arrival_monotone : forall (pd : nat -> Z) (pd_ns : Z -> Z),
  (forall a b, a <= b -> pd_ns a <= pd_ns b) ->
  forall n w0 es1 es2,
    let s1 := arun pd pd_ns (init_asys n w0) es1 in
    let s2 := arun pd pd_ns s1 es2 in
    rec_le (arec s1) (arec s2) /\ wall s1 <= wall s2.
Proof.
  intros pd pd_ns mono n w0 es1 es2 s1 s2. split.
  - exact (arec_run pd pd_ns mono es2 s1 (ainv_run pd pd_ns mono es1 _ (ainv_init pd_ns n w0))).
  - exact (wall_run pd pd_ns mono es2 s1).
Qed.

Lemma T_C13_stale_not_future : forall (pd : nat -> Z) (pd_ns : Z -> Z),
  (forall a b, a <= b -> pd_ns a <= pd_ns b) ->
  forall n w0 es l a,
    let s := arun pd pd_ns (init_asys n w0) es in
    arec s = Some (l, a) ->
    a <= wall s /\ extract_physical l * 1000000 <= pd_ns a /\
    forall now prev r, stale_dom l a now prev -> pd_ns a + (now - a) <= pd_ns now ->
      stale_ts l a now prev = Some r ->
      extract_physical r <= pd_ns now / 1000000 - prev * 1000 /\ extract_logical r = 0.
Proof.
  intros pd pd_ns mono n w0 es l a s H.
  destruct (arec_good pd_ns s l a (ainv_run pd pd_ns mono es _ (ainv_init pd_ns n w0)) H) as [G1 G2].
  split; [exact G2|split; [exact G1|]].
  intros now prev r D Hrate Hs. exact (stale_not_future pd_ns l a now prev r D G1 Hrate Hs).
Qed.

Lemma T_C13_lowres_bounds_intervals : forall (pd : nat -> Z),
  (forall i j, (i < j)%nat -> pd i < pd j) ->
  forall n l0 es1 es2 v1 v2, linv l0 ->
    let s1 := prun pd (init_sys n, l0) es1 in
    let s2 := prun pd s1 es2 in
    linv (snd s2) /\
    (lowres (fst s1) = Some v1 -> lowres (fst s2) = Some v2 -> v1 <= v2 /\ v2 <= pd (issued (fst s2) - 1)%nat).
Proof.
  intros pd strict n l0 es1 es2 v1 v2 I s1 s2.
  destruct (prun_proj pd es1 (init_sys n, l0)) as [A1 B1]. destruct (prun_proj pd es2 s1) as [A2 B2].
  fold s1 in A1, B1. fold s2 in A2, B2. cbn [fst snd] in A1, B1. split.
  - rewrite B2, B1. apply lrun_inv, lrun_inv, I.
  - rewrite A2, A1. apply (T_C13_lowres_bounds pd strict n (sys_events es1) (sys_events es2) v1 v2).
Qed.

Lemma T_C13_interval_bounds : forall c t0 ops, 0 < c ->
  let s := fold_left lstep ops (init_lstate c t0) in
  0 < cfg (li s) /\ Z.min min_interval (cfg (li s)) <= ada (li s) <= cfg (li s) /\
  (forall r, lch s = Some r -> 1000000 <= r).
Proof.
  intros c t0 ops H s. destruct (lrun_inv ops _ (linv_init c t0 H)) as [[A B] C]. fold s in A, B, C. auto.
Qed.

Lemma T_C13_stale_ts : forall tso arr now prev,
  (stale_ts tso arr now prev = None <-> extract_physical tso / 1000 <= prev) /\
  (forall r, stale_dom tso arr now prev -> stale_ts tso arr now prev = Some r ->
     extract_logical r = 0 /\
     (now - arr <= prev * 1000000000 -> r <= tso) /\
     (forall now' r', stale_dom tso arr now' prev -> now <= now' -> stale_ts tso arr now' prev = Some r' -> r <= r')).
Proof.
  intros tso arr now prev. split; [apply stale_guard|]. intros r D H. repeat split.
  - exact (proj2 (proj2 (proj2 (stale_value _ _ _ _ _ D H)))).
  - intros Hage. exact (stale_le_last _ _ _ _ _ D Hage H).
  - intros now' r' D' Hle H'. exact (stale_monotone _ _ _ _ _ _ _ D D' Hle H H').
Qed.

Lemma T_C13_stale_not_future_call_level : forall (pd_ns : Z -> Z),
  (forall a b, a <= b -> pd_ns a <= pd_ns b) ->
  forall calls t0, Forall (call_ok pd_ns) calls -> clock_sorted t0 calls ->
  forall l a, fold_left (fun r c => set_last_arr r (fst c) (snd c)) calls None = Some (l, a) ->
  a <= last_clock t0 calls /\
  forall now prev r, stale_dom l a now prev -> pd_ns a + (now - a) <= pd_ns now ->
    stale_ts l a now prev = Some r ->
    extract_physical r <= pd_ns now / 1000000 - prev * 1000 /\ extract_logical r = 0.
Proof.
  intros pd_ns mono calls t0 F S l a H.
  destruct (arrival_run pd_ns mono calls None t0 Logic.I F S) as [R _]. cbv zeta in R. rewrite H in R. destruct R as [R1 R2].
  split; [exact R2|]. intros now prev r D Hrate Hs. exact (stale_not_future pd_ns l a now prev r D R1 Hrate Hs).
Qed.

Lemma T_C13_arrival_monotone_call_level : forall (pd_ns : Z -> Z), (forall a b, a <= b -> pd_ns a <= pd_ns b) -> forall calls t0 r,
  rec_ok pd_ns r t0 -> Forall (call_ok pd_ns) calls -> clock_sorted t0 calls ->
  rec_le r (fold_left (fun r c => set_last_arr r (fst c) (snd c)) calls r).
Proof. intros pd_ns mono calls t0 r R F S. exact (proj2 (arrival_run pd_ns mono calls r t0 R F S)). Qed.



Lemma T_C13_commit_wait_registrations : forall regs max_sleep_ns fuel script,
  (0 <= cw_bound regs /\ (forall r, In r regs -> r <= cw_bound regs) /\ (cw_bound regs = 0 \/ In (cw_bound regs) regs)) /\
  (forall ts c, commit_wait_regs regs max_sleep_ns fuel script = (CwOk ts, c) ->
     (forall r, In r regs -> r < ts) /\ 0 < ts /\ In (Some ts) script).
Proof.
  intros regs ms fuel script. split; [exact (set_cw_fold regs 0)|].
  intros ts c H. exact (commit_wait_regs_ok regs ms fuel script ts c H).
Qed.

(* the cached timestamp catches up with every returned timestamp, at the return and forever after *)
Lemma T_C13_lowres_catches_up : forall (pd : nat -> Z) (pd_ns : Z -> Z),
  (forall a b, a <= b -> pd_ns a <= pd_ns b) ->
  forall n w0 es1 es2 t ts,
    let s1 := arun pd pd_ns (init_asys n w0) es1 in
    let s2 := arun pd pd_ns s1 es2 in
    (nth_error (athr s1) t = Some (ADone (Some ts)) \/ nth_error (athr s1) t = Some (ARet ts)) ->
    exists l a, arec s2 = Some (l, a) /\ ts <= l.
Proof.
  intros pd pd_ns mono n w0 es1 es2 t ts s1 s2 H.
  assert (I1 : AInv pd_ns s1) by (apply (ainv_run pd pd_ns mono), ainv_init).
  destruct (catches_up pd_ns s1 t ts I1 H) as [l [a [E L]]].
  pose proof (arec_run pd pd_ns mono es2 s1 I1) as M. fold s2 in M. rewrite E in M. unfold rec_le in M.
  destruct (arec s2) as [[l2 a2]|]; [|contradiction]. exists l2, a2. split; [reflexivity|lia].
Qed.

(* runs WITH a refresher: role is an arbitrary predicate on threads; refresher rounds can only be launched for a scope
   that has an entry; the schedule is arbitrary and may contain PD failures of any thread *)
Lemma run_role_app : forall pd role es1 es2 s,
  run_role pd role (run_role pd role s es1) es2 = run_role pd role s (es1 ++ es2).
Proof. intros. unfold run_role. rewrite fold_left_app. reflexivity. Qed.

Lemma T_C13_refresher : forall (pd : nat -> Z) (role : nat -> bool) n es1 es2,
  let s1 := run_role pd role (init_sys n) es1 in
  let s2 := run_role pd role s1 es2 in
  ole (lowres s1) (lowres s2) /\
  (lowres s1 <> None -> lowres s2 <> None) /\
  (forall v, lowres s2 = Some v -> exists i, (i < issued s2)%nat /\ v = pd i) /\
  (forall t th, nth_error (thr s2) t = Some th -> role t = true ->
     (tpc th <> PIdle -> lowres s2 <> None) /\ (forall ts, tpc th <> PLoadOrStore ts)).
Proof.
  intros pd role n es1 es2 s1 s2.
  destruct (run_role_sim pd role es1 (init_sys n)) as [es1' E1].
  destruct (run_role_sim pd role es2 s1) as [es2' E2]. fold s1 in E1. fold s2 in E2.
  destruct (T_C13_fresh_scope pd n es1' es2') as [_ [A [B [C _]]]]. rewrite <- E1, <- E2 in A, B, C.
  split; [exact B|split; [exact A|split; [exact C|]]].
  intros t th Ht Hr. unfold s2, s1 in Ht. rewrite run_role_app in Ht. split.
  - intros Hn. pose proof (role_ok_run pd role (es1 ++ es2) (init_sys n) (role_ok_init role n) t th Ht Hr Hn) as K.
    unfold s2, s1. rewrite run_role_app. unfold lowres.
    destruct (cell (run_role pd role (init_sys n) (es1 ++ es2))) as [[o v]|]; [discriminate|congruence].
  - intros ts. exact (role_never_installs pd role n (es1 ++ es2) t th ts Ht Hr).
Qed.

(* a refresher round that was launched (it waits for PD) and whose PD request fails *)
Lemma T_C13_refresher_failure : forall (pd : nat -> Z) (role : nat -> bool) n es t th es2,
  let s := run_role pd role (init_sys n) es in
  role t = true -> nth_error (thr s) t = Some th -> tpc th = PWaitPD ->
  let s' := step_role pd role s (EvFail t) in
  let s2 := run_role pd role s' es2 in
  cell s' = cell s /\ lowres s <> None /\
  (exists th', nth_error (thr s') t = Some th' /\ tpc th' = PDone None) /\
  ole (lowres s) (lowres s2) /\ lowres s2 <> None /\
  (forall v, lowres s2 = Some v -> exists i, (i < issued s2)%nat /\ v = pd i).
Proof.
  intros pd role n es t th es2 s Hr Ht Hp s' s2.
  assert (L : lowres s <> None).
  { pose proof (role_ok_run pd role es (init_sys n) (role_ok_init role n) t th Ht Hr) as K. rewrite Hp in K.
    specialize (K ltac:(discriminate)). intros E. apply K. fold s. unfold lowres in E.
    destruct (cell s) as [[o v]|]; [discriminate E|reflexivity]. }
  assert (Es' : s' = step pd s (EvFail t)) by reflexivity.
  split; [rewrite Es'; apply fail_keeps_cell|]. split; [exact L|]. split.
  - rewrite Es'. cbn [step]. rewrite Ht, Hp. cbn [thr]. rewrite nth_error_set_nth, Nat.eqb_refl, Ht. eexists; split; reflexivity.
  - destruct (run_role_sim pd role es (init_sys n)) as [es' E]. fold s in E.
    destruct (run_role_sim pd role es2 s') as [es2' E2]. fold s2 in E2.
    destruct (T_C13_fresh_scope pd n es' (EvFail t :: es2')) as [_ [A [B [C _]]]].
    rewrite <- E in A, B, C.
    change (run pd s (EvFail t :: es2')) with (run pd (step pd s (EvFail t)) es2') in A, B, C.
    rewrite <- Es' in A, B, C. rewrite <- E2 in A, B, C. split; [exact B|split; [exact (A L)|exact C]].
Qed.
