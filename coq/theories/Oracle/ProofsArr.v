(* Oracle/ProofsArr.v — invariants of the interleaving system with the (tso, arrival) record *)
From Verif Require Import Oracle.Model Oracle.ModelSys Oracle.ModelArr Oracle.ModelInt Oracle.ProofsSys Oracle.ProofsInt.
From Coq Require Import Lia Arith.
Open Scope Z_scope.

Definition cell_ge (c : option (nat * (Z * Z))) (v la : Z) : Prop :=
  exists o v' la', c = Some (o, (v', la')) /\ v <= v' /\ la <= la'.
Definition inkey (t : nat) (l : list (nat * (Z * Z))) : Prop := exists r, In (t, r) l.

Section Proofs.
Variable pd : nat -> Z.
Variable pd_ns : Z -> Z.
Hypothesis pd_ns_mono : forall a b, a <= b -> pd_ns a <= pd_ns b.

Definition good (w : Z) (r : Z * Z) : Prop := extract_physical (fst r) * 1000000 <= pd_ns (snd r) /\ snd r <= w.

Definition tgood (w : Z) (c : option (nat * (Z * Z))) (pb : list (nat * (Z * Z))) (t : nat) (p : apc) : Prop :=
  match p with
  | AIdle | AWaitPD => ~ inkey t pb
  | AClockRead ts => extract_physical ts * 1000000 <= pd_ns w /\ ~ inkey t pb
  | AMapLoad ts a | ALoadOrStore ts a => good w (ts, a) /\ ~ inkey t pb
  | ALoad ts a => good w (ts, a) /\ (inkey t pb -> cell_ge c ts a)
  | ACmp ts a o v la => good w (ts, a) /\ In (o, (v, la)) pb /\ cell_ge c v la /\ (inkey t pb -> ts <= v)
  | ACas ts a o v la => good w (ts, a) /\ In (o, (v, la)) pb /\ cell_ge c v la /\ v < ts /\ la <= a /\ ~ inkey t pb
  | ARet ts | ADone (Some ts) => exists la, cell_ge c ts la      (* the cached timestamp has caught up with ts *)
  | ADone None => True
  end.

Record AInv (s : asys) : Prop := {
  AP : forall o r r', In (o, r) (pubs s) -> In (o, r') (pubs s) -> r = r';
  AG : forall o r, In (o, r) (pubs s) -> good (wall s) r;
  AC : forall o r, acell s = Some (o, r) -> In (o, r) (pubs s);
  AT : forall t p, nth_error (athr s) t = Some p -> tgood (wall s) (acell s) (pubs s) t p
}.

Lemma good_mono : forall w w' r, good w r -> w <= w' -> good w' r.
Proof. intros w w' r [A B] H. split; [exact A|lia]. Qed.

(* a thread's facts survive changes made by others: clock forward, cell upward, log extended by another key *)
Lemma tgood_frame : forall w w' c c' pb pb' t p,
  tgood w c pb t p -> w <= w' ->
  (forall v la, cell_ge c v la -> cell_ge c' v la) ->
  (forall x, In x pb -> In x pb') -> (inkey t pb' -> inkey t pb) ->
  tgood w' c' pb' t p.
Proof.
  intros w w' c c' pb pb' t p H Hw Hc Hsub Hkey.
  assert (NK : ~ inkey t pb -> ~ inkey t pb') by (intros N K; apply N, Hkey, K).
  destruct p; cbn [tgood] in *; auto.
  - destruct H as [A B]. split; [pose proof (pd_ns_mono w w' Hw); lia|auto].
  - destruct H as [A B]. split; [eapply good_mono; eauto|auto].
  - destruct H as [A B]. split; [eapply good_mono; eauto|auto].
  - destruct H as [A B]. split; [eapply good_mono; eauto|auto].
  - destruct H as [A [B [C D]]]. split; [eapply good_mono; eauto|]. split; [auto|]. split; [auto|]. auto.
  - destruct H as [A [B [C [D [E F]]]]]. split; [eapply good_mono; eauto|]. repeat split; auto.
  - destruct H as [la H]. exists la. auto.
  - destruct r as [ts|]; [destruct H as [la H]; exists la; auto|exact Logic.I].
Qed.

Lemma ainv_init : forall n w0, AInv (init_asys n w0).
Proof.
  intros n w0. constructor; cbn; try contradiction; try discriminate.
  intros t p H. apply nth_error_In, repeat_spec in H. subst p. cbn. intros [r []].
Qed.

(* thread t moves to p', everything shared unchanged *)
Lemma ainv_put : forall s t p p',
  AInv s -> nth_error (athr s) t = Some p ->
  tgood (wall s) (acell s) (pubs s) t p' ->
  AInv (mkA (acell s) (aissued s) (wall s) (pubs s) (set_nth (athr s) t p')).
Proof.
  intros s t p p' [P G C T] Ht H. constructor; cbn [acell pubs wall athr]; auto.
  intros u q Hu. rewrite nth_error_set_nth in Hu. destruct (Nat.eqb t u) eqn:E.
  - apply Nat.eqb_eq in E; subst u. rewrite Ht in Hu. inversion Hu; subst; exact H.
  - eauto.
Qed.

(* thread t publishes (ts, a) *)
Lemma ainv_publish : forall s t p ts a p',
  AInv s -> nth_error (athr s) t = Some p ->
  ~ inkey t (pubs s) -> good (wall s) (ts, a) ->
  (forall v la, cell_ge (acell s) v la -> v <= ts /\ la <= a) ->
  tgood (wall s) (Some (t, (ts, a))) ((t, (ts, a)) :: pubs s) t p' ->
  AInv (mkA (Some (t, (ts, a))) (aissued s) (wall s) ((t, (ts, a)) :: pubs s) (set_nth (athr s) t p')).
Proof.
  intros s t p ts a p' [P G C T] Ht Hk Hg Hup H. constructor; cbn [acell pubs wall athr].
  - intros o r r' [E|I] [E'|I']; try congruence.
    + inversion E; subst. exfalso. apply Hk. eexists; eauto.
    + inversion E'; subst. exfalso. apply Hk. eexists; eauto.
    + eauto.
  - intros o r [E|I]; [inversion E; subst; exact Hg|eauto].
  - intros o r E. inversion E; subst. left; reflexivity.
  - intros u q Hu. rewrite nth_error_set_nth in Hu. destruct (Nat.eqb t u) eqn:E.
    + apply Nat.eqb_eq in E; subst u. rewrite Ht in Hu. inversion Hu; subst; exact H.
    + apply Nat.eqb_neq in E. eapply tgood_frame; [apply (T u q Hu)|lia| | |].
      * intros v la Hc. destruct (Hup v la Hc). exists t, ts, a. repeat split; auto.
      * intros x Hx. right; exact Hx.
      * intros [r [Er|Ir]]; [inversion Er; congruence|eexists; eauto].
Qed.

Lemma cell_ge_refl : forall o v la, cell_ge (Some (o, (v, la))) v la.
Proof. intros. exists o, v, la. repeat split; lia. Qed.

Lemma ainv_step : forall s e, AInv s -> AInv (astep pd pd_ns s e).
Proof.
  intros s e I. pose proof I as [P G C T].
  destruct e as [t|t|w]; cbn [astep].
  - destruct (nth_error (athr s) t) as [p|] eqn:Ht; [|exact I].
    pose proof (T t p Ht) as H. unfold athread_step.
    destruct p as [| |ts|ts a|ts a|ts a|ts a o v la|ts a o v la|ts|r]; cbn [tgood] in H.
    + apply (ainv_put s t _ _ I Ht). exact H.
    + destruct (issue_ok pd pd_ns (aissued s) (wall s)) eqn:Ok; [|exact I].
      destruct (ainv_put s t _ (AClockRead (pd (aissued s))) I Ht) as [P' G' C' T'].
      { cbn. split; [unfold issue_ok in Ok; lia|exact H]. }
      constructor; auto.
    + destruct H as [A B]. apply (ainv_put s t _ _ I Ht). cbn. split; [split; cbn; [exact A|lia]|exact B].
    + destruct H as [A B]. destruct (acell s) as [c|] eqn:Hc; rewrite <- Hc; apply (ainv_put s t _ _ I Ht); cbn; auto. split; [exact A|intros K; contradiction].
    + destruct H as [A B]. destruct (acell s) as [c|] eqn:Hc.
      * rewrite <- Hc. apply (ainv_put s t _ _ I Ht). cbn. split; [exact A|intros K; contradiction].
      * eapply ainv_publish; eauto.
        -- rewrite Hc. intros v la [o [v' [la' [E _]]]]. discriminate.
        -- cbn. split; [exact A|]. intros _. apply cell_ge_refl.
    + destruct H as [A B]. destruct (acell s) as [[o [v la]]|] eqn:Hc; [|exact I].
      rewrite <- Hc. apply (ainv_put s t _ _ I Ht). cbn [tgood]. rewrite Hc.
      split; [exact A|]. split; [apply C; reflexivity|]. split; [apply cell_ge_refl|].
      intros K. destruct (B K) as [o' [v' [la' [E [L1 L2]]]]]. inversion E; subst. lia.
    + destruct H as [A [B [Cg D]]]. destruct (ts <=? v) eqn:Le.
      * apply (ainv_put s t _ _ I Ht). cbn [tgood]. destruct Cg as [o' [v' [la' [Ec [L1 L2]]]]].
        exists la'. exists o', v', la'. repeat split; auto; lia.
      * apply (ainv_put s t _ _ I Ht). cbn. pose proof (G o (v, la) B) as [_ Gla]. cbn in Gla.
        destruct A as [A1 A2]. cbn in A1, A2.
        assert (Ha : a <= (if a <? la then la else a) /\ la <= (if a <? la then la else a) /\ (if a <? la then la else a) <= wall s)
          by (destruct (a <? la) eqn:Ea; lia).
        destruct Ha as [Ha1 [Ha2 Ha3]].
        split; [split; cbn [fst snd]; [pose proof (pd_ns_mono _ _ Ha1); lia|lia]|].
        split; [exact B|]. split; [exact Cg|]. split; [lia|]. split; [lia|].
        intros K. specialize (D K). lia.
    + destruct H as [A [B [Cg [D [E F]]]]]. destruct (acell s) as [[o' r']|] eqn:Hc.
      * destruct (Nat.eqb o' o) eqn:Eo.
        -- apply Nat.eqb_eq in Eo; subst o'. eapply ainv_publish; eauto.
           ++ rewrite Hc. intros v0 la0 [o1 [v1 [la1 [E1 [L1 L2]]]]]. injection E1 as E1a E1b. subst o1 r'.
              pose proof (P o (v1, la1) (v, la) (C o (v1, la1) eq_refl) B) as Er. injection Er as Er1 Er2. lia.
           ++ cbn [tgood]. exists a. apply cell_ge_refl.
        -- rewrite <- Hc. apply (ainv_put s t _ _ I Ht). cbn. split; [exact A|intros K; contradiction].
      * rewrite <- Hc. apply (ainv_put s t _ _ I Ht). cbn. split; [exact A|intros K; contradiction].
    + apply (ainv_put s t _ _ I Ht). exact H.
    + exact I.
  - destruct (nth_error (athr s) t) as [p|] eqn:Ht; [|exact I]. destruct p; try exact I.
    apply (ainv_put s t _ _ I Ht). exact Logic.I.
  - destruct (wall s <? w) eqn:E; [|exact I]. constructor; cbn [acell pubs wall athr]; auto.
    + intros o r H. eapply good_mono; [apply (G o r H)|lia].
    + intros t p H. eapply tgood_frame; [apply (T t p H)|lia|auto|auto|auto].
Qed.

Lemma ainv_run : forall es s, AInv s -> AInv (arun pd pd_ns s es).
Proof. induction es as [|e es IH]; intros s I; cbn; auto. apply IH, ainv_step, I. Qed.

(* ------------------------------------------------------------------ the published record never goes back *)
Lemma rec_le_refl : forall r, rec_le r r.
Proof. intros [[l a]|]; cbn; [lia|exact Logic.I]. Qed.

Lemma arec_step : forall s e, AInv s -> rec_le (arec s) (arec (astep pd pd_ns s e)).
Proof.
  intros s e I. pose proof I as [P G C T]. unfold arec.
  assert (R : forall c : option (nat * (Z * Z)), rec_le (match c with Some (_, r) => Some r | None => None end)
                                               (match c with Some (_, r) => Some r | None => None end)).
  { intros c. unfold rec_le. destruct c as [[o [v la]]|]; [lia|exact Logic.I]. }
  destruct e as [t|t|w]; cbn [astep].
  - destruct (nth_error (athr s) t) as [p|] eqn:Ht; [|apply rec_le_refl].
    pose proof (T t p Ht) as H. unfold athread_step.
    destruct p as [| |ts|ts a|ts a|ts a|ts a o v la|ts a o v la|ts|r]; cbn [acell]; try (apply rec_le_refl).
    + destruct (issue_ok pd pd_ns (aissued s) (wall s)); cbn [acell]; apply rec_le_refl.
    + destruct (acell s) eqn:Hc; cbn [acell]; apply rec_le_refl.
    + destruct (acell s) as [c|] eqn:Hc; cbn [acell]; [apply rec_le_refl|exact Logic.I].
    + destruct (acell s) as [[o [v la]]|] eqn:Hc; cbn [acell]; rewrite ?Hc; apply rec_le_refl.
    + destruct (ts <=? v); cbn [acell]; apply rec_le_refl.
    + cbn [tgood] in H. destruct H as [A [B [Cg [D [E F]]]]].
      destruct (acell s) as [[o' [v' la']]|] eqn:Hc; cbn [acell]; try (apply rec_le_refl).
      destruct (Nat.eqb o' o) eqn:Eo; cbn [acell]; try apply rec_le_refl.
      apply Nat.eqb_eq in Eo; subst o'.
      pose proof (P o (v', la') (v, la) (C o (v', la') eq_refl) B) as Er. injection Er as Er1 Er2. cbn. lia.
  - destruct (nth_error (athr s) t) as [p|]; [|apply rec_le_refl]. destruct p; cbn [acell]; apply rec_le_refl.
  - destruct (wall s <? w); cbn [acell]; apply rec_le_refl.
Qed.

Lemma arec_run : forall es s, AInv s -> rec_le (arec s) (arec (arun pd pd_ns s es)).
Proof.
  induction es as [|e es IH]; intros s I; cbn [arun fold_left].
  - unfold arec, rec_le; destruct (acell s) as [[o [v la]]|]; [lia|exact Logic.I].
  - pose proof (arec_step s e I) as H1. pose proof (IH _ (ainv_step s e I)) as H2. exact (rec_le_trans pd_ns pd_ns_mono _ _ _ H1 H2).
Qed.

(* the published record: its timestamp had been issued (by PD's clock) when it arrived, it arrived in the past *)
Lemma arec_good : forall s l a, AInv s -> arec s = Some (l, a) ->
  extract_physical l * 1000000 <= pd_ns a /\ a <= wall s.
Proof.
  intros s l a [P G C T] H. unfold arec in H. destruct (acell s) as [[o r]|] eqn:Hc; [|discriminate].
  inversion H; subst r. exact (G o (l, a) (C o (l, a) eq_refl)).
Qed.

(* the cached timestamp has caught up with every timestamp a call returned (or is about to return) *)
Lemma catches_up : forall s t ts, AInv s ->
  (nth_error (athr s) t = Some (ADone (Some ts)) \/ nth_error (athr s) t = Some (ARet ts)) ->
  exists l a, arec s = Some (l, a) /\ ts <= l.
Proof.
  intros s t ts [P G C T] H. unfold arec.
  assert (K : exists la, cell_ge (acell s) ts la) by (destruct H as [H|H]; exact (T t _ H)).
  destruct K as [la [o [v' [la' [E [L1 L2]]]]]]. rewrite E. exists v', la'. split; [reflexivity|exact L1].
Qed.

(* the clock never goes back *)
Lemma wall_run : forall es s, wall s <= wall (arun pd pd_ns s es).
Proof.
  induction es as [|e es IH]; intros s; cbn [arun fold_left]; [lia|].
  eapply Z.le_trans; [|apply IH]. destruct e as [t|t|w]; cbn [astep].
  - destruct (nth_error (athr s) t) as [p|]; [|lia]. unfold athread_step.
    destruct p; cbn [wall]; try lia.
    + destruct (issue_ok pd pd_ns (aissued s) (wall s)); cbn; lia.
    + destruct (acell s); cbn; lia.
    + destruct (acell s); cbn; lia.
    + destruct (acell s) as [[o [v la]]|]; cbn; lia.
    + destruct (ts <=? v); cbn; lia.
    + destruct (acell s) as [[o' r']|]; [destruct (Nat.eqb o' o)|]; cbn; lia.
  - destruct (nth_error (athr s) t) as [p|]; [|lia]. destruct p; cbn; lia.
  - destruct (wall s <? w) eqn:E; cbn; lia.
Qed.

End Proofs.
