(* Oracle/ModelVal.v — interleaving semantics of concurrent ValidateReadTS callers of one txn
   scope, PD, and the single-flight group behind getCurrentTSForValidation.

   * PD: pd : nat -> Z, vk = number of timestamps handed out so far (to anybody: EIssueEnv is
     another client / another oracle obtaining a timestamp).
   * vlast: the cached lastTS of the scope.  Who publishes it (GetTimestamp callers, the updateTS
     goroutine, the flight itself) is abstracted: EPublish i stores pd i for any i already issued
     provided the cached value does not decrease — exactly what C13_lastts_monotone establishes
     for the CAS loop.  The flight's own setLastTS is one such EPublish (optional here: the theorems
     hold whether or not / whenever it happens).
   * flight: singleflight.Group for the scope's key.  At most one call is in the map; DoChan joins it
     or creates one (under the group's mutex: one step); when the function returns the call is
     removed from the map and the result is sent to every waiter's buffered channel under the same
     mutex (EFlightFinish / EFlightFail: one step).
   * validators: the loop of ValidateReadTS with the `retrying` flag; retry_on = false is the code
     with the retry removed (used only for the refutation that the retry is needed). *)
From Verif Require Export Oracle.Model Oracle.ModelSys.

Inductive vout := OAccept | OReject (cur : Z) | OErr | OErrRange | OErrLatest.

Inductive vpc :=
| VIdle
| VCheck                      (* loop head: read the cached lastTS *)
| VJoin                       (* about to DoChan *)
| VWait (f : nat)             (* blocked on the channel of flight f *)
| VGot (r : option Z)         (* result received from the channel (None = error) *)
| VDone (o : vout).

Record vthread := mkV {
  vp : vpc;
  vread : Z;
  vstale : bool;
  vretry : bool;
  vbegk : nat                 (* ghost: PD's counter when the call began *)
}.

Record flightrec := mkF {
  fid : nat;
  ffloor : nat;               (* ghost: PD's counter when the flight was created *)
  fts : option nat            (* index of the PD answer the flight's GetTimestamp received *)
}.

Record vsys := mkVS {
  vk : nat;
  vlast : option Z;
  flight : option flightrec;
  fcount : nat;
  vthr : list vthread
}.

Inductive vevent :=
| EBegin (t : nat) (read : Z) (stale : bool)
| EStep (t : nat)
| ECancel (t : nat)
| EIssueEnv
| EPublish (i : nat)
| EFlightIssue
| EFlightFail
| EFlightFinish.

Definition idle_v := mkV VIdle 0 false false O.
Definition init_vsys (n : nat) : vsys := mkVS O None None O (repeat idle_v n).

Definition vwith (th : vthread) (p : vpc) : vthread := mkV p (vread th) (vstale th) (vretry th) (vbegk th).

Definition pre_outcome (read : Z) (stale : bool) : option vout :=
  match validate_pre read stale with
  | Some VAccept => Some OAccept
  | Some VErrLatest => Some OErrLatest
  | Some _ => Some OErrRange
  | None => None
  end.

Definition deliver (f : nat) (r : option Z) (th : vthread) : vthread :=
  match vp th with
  | VWait g => if Nat.eqb g f then vwith th (VGot r) else th
  | _ => th
  end.

Section Val.
Variable pd : nat -> Z.
Variable retry_on : bool.

Definition vput (s : vsys) (t : nat) (th : vthread) : vsys :=
  mkVS (vk s) (vlast s) (flight s) (fcount s) (set_nth (vthr s) t th).

Definition vthread_step (s : vsys) (t : nat) (th : vthread) : vsys :=
  match vp th with
  | VCheck =>
      let hit := match vlast s with Some l => vread th <=? l | None => false end in
      if hit then vput s t (vwith th (VDone OAccept)) else vput s t (vwith th VJoin)
  | VJoin =>
      match flight s with
      | Some f => vput s t (vwith th (VWait (fid f)))
      | None => mkVS (vk s) (vlast s) (Some (mkF (fcount s) (vk s) None)) (S (fcount s))
                     (set_nth (vthr s) t (vwith th (VWait (fcount s))))
      end
  | VGot None => vput s t (vwith th (VDone OErr))
  | VGot (Some cur) =>
      if cur <? vread th then
        if retry_on && negb (vretry th)
        then vput s t (mkV VCheck (vread th) (vstale th) true (vbegk th))
        else vput s t (vwith th (VDone (OReject cur)))
      else vput s t (vwith th (VDone OAccept))
  | _ => s
  end.

Definition vstep (s : vsys) (e : vevent) : vsys :=
  match e with
  | EBegin t read stale =>
      match nth_error (vthr s) t with
      | Some th =>
          match vp th with
          | VIdle =>
              match pre_outcome read stale with
              | Some o => vput s t (mkV (VDone o) read stale false (vk s))
              | None => vput s t (mkV VCheck read stale false (vk s))
              end
          | _ => s
          end
      | None => s
      end
  | EStep t => match nth_error (vthr s) t with Some th => vthread_step s t th | None => s end
  | ECancel t =>
      match nth_error (vthr s) t with
      | Some th =>
          match vp th with
          | VWait _ | VGot _ => vput s t (vwith th (VDone OErr))
          | _ => s
          end
      | None => s
      end
  | EIssueEnv => mkVS (S (vk s)) (vlast s) (flight s) (fcount s) (vthr s)
  | EPublish i =>
      if Nat.ltb i (vk s) && match vlast s with Some l => l <=? pd i | None => true end
      then mkVS (vk s) (Some (pd i)) (flight s) (fcount s) (vthr s) else s
  | EFlightIssue =>
      match flight s with
      | Some f =>
          match fts f with
          | None => mkVS (S (vk s)) (vlast s) (Some (mkF (fid f) (ffloor f) (Some (vk s)))) (fcount s) (vthr s)
          | Some _ => s
          end
      | None => s
      end
  | EFlightFail =>   (* the flight's GetTimestamp fails (before or after PD answered: a lost response) *)
      match flight s with
      | Some f => mkVS (vk s) (vlast s) None (fcount s) (map (deliver (fid f) None) (vthr s))
      | None => s
      end
  | EFlightFinish =>
      match flight s with
      | Some f =>
          match fts f with
          | Some i => mkVS (vk s) (vlast s) None (fcount s) (map (deliver (fid f) (Some (pd i))) (vthr s))
          | None => s
          end
      | None => s
      end
  end.

Definition vrun (s : vsys) (es : list vevent) : vsys := fold_left vstep es s.

End Val.

(* outcome of validator t, if it has returned *)
Definition voutcome_of (s : vsys) (t : nat) : option vout :=
  match nth_error (vthr s) t with
  | Some th => match vp th with VDone o => Some o | _ => None end
  | None => None
  end.
