(* Oracle/ModelInt.v — executable models of
   * pdOracle.getStaleTimestampWithLastTS (GetStaleTimestamp): the estimate computed from the cached
     record (tso, arrival) and a clock reading `now` (all clock readings in ns, supplied from outside);
   * the adaptive update-interval state machine: nextUpdateInterval, SetLowResolutionTimestampUpdateInterval,
     adjustUpdateLowResolutionTSIntervalWithRequestedStaleness and the two branches of the updateTS loop.
   Durations are ns (Z).  The float expression  Duration(dt.Seconds() * float64(20ms))  is modelled exactly
   as dt/50 (the correspondence driver uses dt values for which the float computation is exact). *)
From Verif Require Export Oracle.Model Oracle.ModelSys.
Open Scope Z_scope.

(* ---------- GetStaleTimestamp ---------- *)
(* guard: uint64(physicalTime.Unix()) <= prevSecond -> error.  Otherwise
   GoTimeToTS(physicalTime + (now - prev s - arrival)).  Domain: prev < 2^33 s (time.Duration(prev)*time.Second
   does not overflow), physical < 2^43 ms (UnixNano does not overflow). *)
Definition stale_ns (tso arr now prev : Z) : Z :=
  extract_physical tso * 1000000 + (now - prev * 1000000000 - arr).
Definition stale_ts (tso arr now prev : Z) : option Z :=
  if extract_physical tso / 1000 <=? prev then None
  else Some (wrap_u64 (wrap_i64 (Z.quot (stale_ns tso arr now prev) 1000000 * two18))).

(* ---------- adaptive update interval ---------- *)
Inductive istate := ISNone | ISNormal | ISAdapting | ISRecovering | ISUnadjustable.
Definition min_interval : Z := 500000000.          (* minAllowedAdaptiveUpdateTSInterval *)
Definition shrink_preserve : Z := 100000000.       (* adaptiveUpdateTSIntervalShrinkingPreserve *)
Definition block_recover : Z := 200000000.         (* adaptiveUpdateTSIntervalBlockRecoverThreshold *)
Definition delay_recover : Z := 300000000000.      (* adaptiveUpdateTSIntervalDelayBeforeRecovering *)
Definition rec_amount (dt : Z) : Z := Z.quot dt 50. (* 20ms per second *)

Record ist := mkI {
  cfg : Z;              (* lastTSUpdateInterval *)
  ada : Z;              (* adaptiveLastTSUpdateInterval *)
  last_short_ms : Z;    (* lastShortStalenessReadTime, unix ms *)
  last_tick : Z;        (* lastTick, ns *)
  istt : istate
}.

Definition check_unadjustable (s : ist) : option (istate * Z) :=
  if cfg s <=? min_interval then Some (ISUnadjustable, cfg s) else None.
Definition check_normal (s : ist) (cur : Z) : option (istate * Z) :=
  if (min_interval <? cfg s) && (cur =? cfg s) then Some (ISNormal, cur) else None.
Definition recent (s : ist) (now : Z) : bool := now - last_short_ms s * 1000000 <? delay_recover.
Definition check_adapting (s : ist) (now req : Z) : option (istate * Z) :=
  if negb (req =? 0) && (req <? ada s) && (min_interval <? ada s)
  then Some (ISAdapting, Z.max (req - shrink_preserve) min_interval)
  else if negb (ada s =? cfg s) && recent s now then Some (ISAdapting, ada s)
  else None.
Definition check_recovering (s : ist) (now : Z) : option (istate * Z) :=
  if (ada s =? cfg s) || recent s now then None
  else let ni := ada s + rec_amount (now - last_tick s) in
       Some (ISRecovering, if cfg s <? ni then cfg s else ni).

Definition first_some {A} (a b : option A) : option A := match a with Some _ => a | None => b end.

(* nextUpdateInterval(now, requiredStaleness): new record and the returned interval *)
Definition next_interval (s : ist) (now req : Z) : ist * Z :=
  let chosen :=
    if negb (req =? 0) then first_some (check_unadjustable s) (check_adapting s now req)
    else first_some (check_unadjustable s)
           (first_some (check_adapting s now req) (first_some (check_normal s (ada s)) (check_recovering s now))) in
  match chosen with
  | None => (s, ada s)
  | Some (st, ni) =>
      let '(st', ni') :=
        match st with
        | ISRecovering => match check_normal s ni with Some r => r | None => (st, ni) end
        | _ => (st, ni)
        end in
      (mkI (cfg s) ni' (last_short_ms s) (last_tick s) st', ni')
  end.

(* SetLowResolutionTimestampUpdateInterval: None = error *)
Definition set_interval (s : ist) (nw : Z) : option ist :=
  if nw <=? 0 then None
  else if nw =? cfg s then Some s
  else if (ada s =? cfg s) || (nw <? ada s)
       then Some (mkI nw nw (last_short_ms s) (last_tick s) (istt s))
       else Some (mkI nw (ada s) (last_short_ms s) (last_tick s) (istt s)).

(* adjustUpdateLowResolutionTSIntervalWithRequestedStaleness(readTS, currentTS, now):
   new record and the staleness sent to the updateTS goroutine, if any *)
Definition adjust (s : ist) (read cur now : Z) : ist * option Z :=
  let req := (extract_physical cur - extract_physical read) * 1000000 in
  let s' := if req <=? ada s + block_recover
            then mkI (cfg s) (ada s) (Z.max (last_short_ms s) (Z.quot now 1000000)) (last_tick s) (istt s)
            else s in
  (s', if (req <=? ada s) && (min_interval <? ada s) then Some (Z.max req 1000000) else None).

(* ---------- the updateTS loop, exactly ----------
   loop state: the interval record, the loop's local `currentInterval` (what the ticker was last Reset to) and the
   buffered channel shrinkIntervalCh (capacity 1).
     case now := <-ticker.C:      newInterval := nextUpdateInterval(now, 0); doUpdate(now)   [lastTick = now];
                                  if newInterval != currentInterval { currentInterval = newInterval; ticker.Reset }
     case req := <-shrinkCh:      now1 := time.Now(); newInterval := nextUpdateInterval(now1, req);
                                  if newInterval != currentInterval { currentInterval = newInterval;
                                     if time.Since(lastTick) [reading now2] >= currentInterval { doUpdate(time.Now()) [now3] };
                                     ticker.Reset }
   SetLowResolutionTimestampUpdateInterval (any goroutine, under the record's mutex) only changes the record: the
   loop picks it up at its next tick.  adjustUpdateLowResolutionTSIntervalWithRequestedStaleness (any validator,
   concurrently) updates lastShortStalenessReadTime and does a NON-BLOCKING send: the request is dropped when the
   channel is full.  Clock readings never go back: events whose readings would are not enabled (no-ops).
   WHEN the ticker fires is not constrained (a tick may be handled late, Reset re-arms it): any LTick time >= lastTick. *)
Record lstate := mkL { li : ist; lcur : Z; lch : option Z }.
Inductive lop :=
| LTick (now : Z)
| LRecv (now1 now2 now3 : Z)
| LSet (nw : Z)
| LAdjust (read cur now : Z).

Definition with_tick (s : ist) (t : Z) : ist := mkI (cfg s) (ada s) (last_short_ms s) t (istt s).
Definition lstep (s : lstate) (o : lop) : lstate :=
  match o with
  | LTick now =>
      if now <? last_tick (li s) then s else
      let '(i', ni) := next_interval (li s) now 0 in
      mkL (with_tick i' now) (if ni =? lcur s then lcur s else ni) (lch s)
  | LRecv now1 now2 now3 =>
      match lch s with
      | None => s
      | Some req =>
          if (now1 <? last_tick (li s)) || (now2 <? now1) || (now3 <? now2) then s else
          let '(i', ni) := next_interval (li s) now1 req in
          if ni =? lcur s then mkL i' (lcur s) None
          else mkL (if ni <=? now2 - last_tick i' then with_tick i' now3 else i') ni None
      end
  | LSet nw => match set_interval (li s) nw with Some i' => mkL i' (lcur s) (lch s) | None => s end
  | LAdjust read cur now =>
      let '(i', sent) := adjust (li s) read cur now in
      mkL i' (lcur s) (match lch s, sent with None, Some r => Some r | c, _ => c end)
  end.
Definition init_lstate (c : Z) (t0 : Z) : lstate := mkL (mkI c c 0 t0 ISNone) c None.

(* ---------- lastTSO.arrival, one setLastTS call at a time: record (tso, arrival) ----------
   current.arrival = time.Now() (the reading `now`); publish only if newer; the arrival never goes back *)
Definition set_last_arr (c : option (Z * Z)) (ts now : Z) : option (Z * Z) :=
  match c with
  | None => Some (ts, now)
  | Some (l, a) => if ts <=? l then c else Some (ts, Z.max now a)
  end.

(* ---------- the oracle as a whole: the GetTimestamp / setLastTS system next to the interval record ----------
   SetLowResolutionTimestampUpdateInterval, nextUpdateInterval and the staleness adjustment only touch the
   interval record; they decide WHEN the updateTS goroutine issues its GetTimestamp calls, i.e. the schedule. *)
Inductive pevent := PSys (e : event) | PInt (o : lop).
Definition pstep (pd : nat -> Z) (s : sys * lstate) (e : pevent) : sys * lstate :=
  match e with
  | PSys e => (step pd (fst s) e, snd s)
  | PInt o => (fst s, lstep (snd s) o)
  end.
Definition prun (pd : nat -> Z) (s : sys * lstate) (es : list pevent) : sys * lstate := fold_left (pstep pd) es s.
Definition sys_events (es : list pevent) : list event :=
  flat_map (fun e => match e with PSys e => [e] | PInt _ => [] end) es.
Definition int_ops (es : list pevent) : list lop :=
  flat_map (fun e => match e with PSys _ => [] | PInt o => [o] end) es.
