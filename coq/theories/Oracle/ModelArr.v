(* Oracle/ModelArr.v — the GetTimestamp / setLastTS interleaving system of ModelSys with the published record
   extended to the pair the code really publishes: lastTSO{tso, arrival}.
     current := &lastTSO{tso: ts, arrival: time.Now()}           (AClockRead: its own step)
     loop: last := Load(); if current.tso <= last.tso return;
           if last.arrival.After(current.arrival) { current.arrival = last.arrival }   (ACmp)
           CompareAndSwap(last, current)                                              (ACas, pointer identity)
   The local clock `wall` (ns) advances by EClock events (readings never go back).  PD: pd k is the k-th
   timestamp; pd_ns w is PD's own clock (ns) at local time w.  PD cannot hand out a timestamp whose physical part
   is ahead of its own clock: the issue step is enabled only if phys(pd k)*1e6 <= pd_ns wall (a disabled event
   is a no-op, as everywhere).  Every thread — foreground GetTimestamp, tsFuture.Wait, or a round of the background
   refresher (getTimestamp + setLastTS) — runs these steps; the scope starts without an entry. *)
From Verif Require Export Oracle.Model Oracle.ModelSys.
Open Scope Z_scope.

Inductive apc :=
| AIdle
| AWaitPD
| AClockRead (ts : Z)                          (* got ts from PD; about to read time.Now() *)
| AMapLoad (ts a : Z)
| ALoadOrStore (ts a : Z)
| ALoad (ts a : Z)
| ACmp (ts a : Z) (o : nat) (v la : Z)         (* loaded record of owner o: tso v, arrival la *)
| ACas (ts a : Z) (o : nat) (v la : Z)         (* a already = max(own reading, la) *)
| ARet (ts : Z)
| ADone (r : option Z).

Record asys := mkA {
  acell : option (nat * (Z * Z));              (* (owner, (tso, arrival)) *)
  aissued : nat;
  wall : Z;
  pubs : list (nat * (Z * Z));                 (* ghost: every record ever published, with its publisher *)
  athr : list apc
}.

Inductive aevent := AEv (t : nat) | AEvFail (t : nat) | EClock (w : Z).

Definition init_asys (n : nat) (w0 : Z) : asys := mkA None O w0 [] (repeat AIdle n).

Section Arr.
Variable pd : nat -> Z.
Variable pd_ns : Z -> Z.

Definition issue_ok (k : nat) (w : Z) : bool := extract_physical (pd k) * 1000000 <=? pd_ns w.

Definition athread_step (s : asys) (t : nat) (p : apc) : asys :=
  let put p' := mkA (acell s) (aissued s) (wall s) (pubs s) (set_nth (athr s) t p') in
  match p with
  | AIdle => put AWaitPD
  | AWaitPD =>
      if issue_ok (aissued s) (wall s)
      then mkA (acell s) (S (aissued s)) (wall s) (pubs s) (set_nth (athr s) t (AClockRead (pd (aissued s))))
      else s
  | AClockRead ts => put (AMapLoad ts (wall s))
  | AMapLoad ts a => match acell s with None => put (ALoadOrStore ts a) | Some _ => put (ALoad ts a) end
  | ALoadOrStore ts a =>
      match acell s with
      | None => mkA (Some (t, (ts, a))) (aissued s) (wall s) ((t, (ts, a)) :: pubs s) (set_nth (athr s) t (ALoad ts a))
      | Some _ => put (ALoad ts a)
      end
  | ALoad ts a => match acell s with Some (o, (v, la)) => put (ACmp ts a o v la) | None => s end
  | ACmp ts a o v la => if ts <=? v then put (ARet ts) else put (ACas ts (if a <? la then la else a) o v la)
  | ACas ts a o v la =>
      match acell s with
      | Some (o', _) =>
          if Nat.eqb o' o
          then mkA (Some (t, (ts, a))) (aissued s) (wall s) ((t, (ts, a)) :: pubs s) (set_nth (athr s) t (ARet ts))
          else put (ALoad ts a)
      | None => put (ALoad ts a)
      end
  | ARet ts => put (ADone (Some ts))
  | ADone _ => s
  end.

Definition astep (s : asys) (e : aevent) : asys :=
  match e with
  | AEv t => match nth_error (athr s) t with Some p => athread_step s t p | None => s end
  | AEvFail t =>
      match nth_error (athr s) t with
      | Some AWaitPD => mkA (acell s) (aissued s) (wall s) (pubs s) (set_nth (athr s) t (ADone None))
      | _ => s
      end
  | EClock w => if wall s <? w then mkA (acell s) (aissued s) w (pubs s) (athr s) else s
  end.

Definition arun (s : asys) (es : list aevent) : asys := fold_left astep es s.

End Arr.

(* what a reader (getLastTSWithArrivalTS) sees *)
Definition arec (s : asys) : option (Z * Z) := match acell s with Some (_, r) => Some r | None => None end.

