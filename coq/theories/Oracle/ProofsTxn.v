(* Oracle/ProofsTxn.v — the commit-wait clause on the caller's side *)
From Verif Require Import Oracle.Model Oracle.ModelTxn Oracle.ProofsArith.
From Coq Require Import Lia ZifyBool.
Open Scope Z_scope.

Lemma ts_with_retry_spec : forall answers fuel calls r c,
  ts_with_retry fuel answers calls = (r, c) ->
  (c <= calls + S fuel)%nat /\
  (forall ts, r = Some ts ->
     exists k, nth_error answers k = Some (Some ts) /\ (forall j, (j < k)%nat -> nth_error answers j = Some None) /\
               c = (calls + S k)%nat /\ (k <= fuel)%nat).
Proof.
  induction answers as [|a rest IH]; intros fuel calls r c H; cbn [ts_with_retry] in H.
  - injection H as <- <-. split; [lia|intros ts E; discriminate].
  - destruct a as [ts|].
    + injection H as <- <-. split; [lia|]. intros ts0 E. injection E as <-.
      exists O. repeat split; try lia.
    + destruct fuel as [|f].
      * injection H as <- <-. split; [lia|intros ts E; discriminate].
      * destruct (IH f (S calls) r c H) as [A B]. split; [lia|].
        intros ts E. destruct (B ts E) as [k [K1 [K2 [K3 K4]]]].
        exists (S k). repeat split; auto; try lia. intros [|j] Hj; [reflexivity|apply K2; lia].
Qed.

Lemma commit_txn_ok : forall tk m causal start regs ms fuel script ts reqmin c,
  (forall x, x <= tk x) -> 0 <= start -> (forall r, In r regs -> 0 <= r) ->
  commit_txn true tk m causal start regs ms fuel script = (Some ts, reqmin, c) ->
  (forall r, In r regs -> r < ts) /\ 0 < ts /\ reqmin <= ts \/ m = M2PC /\ (forall r, In r regs -> r < ts) /\ 0 < ts.
Proof.
  intros tk m causal start regs ms fuel script ts reqmin c Htk Hs Hr H.
  destruct (set_cw_fold regs 0) as [B0 [B1 B2]]. fold (cw_bound regs) in *. unfold commit_txn in H.
  destruct m.
  - right. split; [reflexivity|]. destruct (commit_wait (cw_bound regs) ms fuel script) as [r c'] eqn:E.
    destruct r as [t|]; [|discriminate]. injection H as <- _ _.
    destruct (commit_wait_ok _ _ _ _ _ _ E) as [A _]. split; [|lia]. intros r Hin. specialize (B1 r Hin). lia.
  - left. unfold pre_fetch in H. cbn [andb] in H. destruct (negb causal || (0 <? cw_bound regs)) eqn:P.
    + destruct (commit_wait (cw_bound regs) ms fuel script) as [r c'] eqn:E.
      destruct r as [t|]; [|discriminate]. injection H as <- <- _.
      destruct (commit_wait_ok _ _ _ _ _ _ E) as [A _]. pose proof (Htk (t + 1)).
      split; [intros r Hin; specialize (B1 r Hin); lia|split; lia].
    + injection H as <- <- _. pose proof (Htk (start + 1)). assert (cw_bound regs <= 0) by lia.
      split; [intros r Hin; specialize (B1 r Hin); specialize (Hr r Hin); lia|split; lia].
  - left. unfold pre_fetch in H. cbn [andb] in H. destruct (negb causal || (0 <? cw_bound regs)) eqn:P.
    + destruct (commit_wait (cw_bound regs) ms fuel script) as [r c'] eqn:E.
      destruct r as [t|]; [|discriminate]. injection H as <- <- _.
      destruct (commit_wait_ok _ _ _ _ _ _ E) as [A _]. pose proof (Htk (t + 1)).
      split; [intros r Hin; specialize (B1 r Hin); lia|split; lia].
    + injection H as <- <- _. pose proof (Htk (start + 1)). assert (cw_bound regs <= 0) by lia.
      split; [intros r Hin; specialize (B1 r Hin); specialize (Hr r Hin); lia|split; lia].
Qed.

(* without the commit-wait clause an async-commit transaction under causal consistency commits below its constraint *)
Lemma commit_txn_no_clause_refuted :
  exists tk m causal start regs ms fuel script ts reqmin c,
    (forall x, x <= tk x) /\ 0 <= start /\
    commit_txn false tk m causal start regs ms fuel script = (Some ts, reqmin, c) /\ exists r, In r regs /\ ts <= r.
Proof.
  exists (fun x => x), MAsync, true, 10, [100], 1000000000, 3%nat, [Some 90; Some 101], 11, 11, O.
  repeat split; try lia. exists 100. split; [left; reflexivity|lia].
Qed.

(* with a registered constraint the prewrite of an async-commit / 1PC transaction already carries a min_commit_ts
   beyond every registered value — whatever TiKV answers later *)
Lemma commit_txn_reqmin : forall tk m causal start regs ms fuel script ts reqmin c,
  m <> M2PC -> 0 < cw_bound regs ->
  commit_txn true tk m causal start regs ms fuel script = (Some ts, reqmin, c) ->
  (forall r, In r regs -> r < reqmin) /\ ts = tk reqmin /\ In (Some (reqmin - 1)) script.
Proof.
  intros tk m causal start regs ms fuel script ts reqmin c Hm Hb H.
  destruct (set_cw_fold regs 0) as [B0 [B1 B2]]. fold (cw_bound regs) in *. unfold commit_txn in H.
  destruct m; [congruence| |]; unfold pre_fetch in H; cbn [andb] in H;
    (assert (P : (negb causal || (0 <? cw_bound regs)) = true) by (destruct causal; cbn; lia)); rewrite P in H;
    (destruct (commit_wait (cw_bound regs) ms fuel script) as [r c'] eqn:E);
    (destruct r as [t|]; [|discriminate]); injection H as <- <- _;
    destruct (commit_wait_ok _ _ _ _ _ _ E) as [A I];
    (split; [intros r Hin; specialize (B1 r Hin); lia|split; [reflexivity|replace (t + 1 - 1) with t by lia; exact I]]).
Qed.

Lemma commit_txn_all : forall tk m causal start regs ms fuel script ts reqmin c,
  (forall x, x <= tk x) -> 0 <= start -> (forall r, In r regs -> 0 <= r) ->
  commit_txn true tk m causal start regs ms fuel script = (Some ts, reqmin, c) ->
  (forall r, In r regs -> r < ts) /\ 0 < ts.
Proof.
  intros tk m causal start regs ms fuel script ts reqmin c Htk Hs Hr H.
  destruct (commit_txn_ok tk m causal start regs ms fuel script ts reqmin c Htk Hs Hr H) as [[A [B _]]|[_ [A B]]]; auto.
Qed.
