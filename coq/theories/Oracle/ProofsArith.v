(* Oracle/ProofsArith.v — ComposeTS / Extract, expiry, commit wait *)
From Verif Require Import Oracle.Model.
From Coq Require Import Lia ZifyBool.
Ltac Zify.zify_post_hook ::= Z.div_mod_to_equations.
Open Scope Z_scope.

Lemma wrap_i64_id : forall z, - two63 <= z < two63 -> wrap_i64 z = z.
Proof. intros z H. unfold wrap_i64, two63, two64 in *. lia. Qed.
Lemma wrap_u64_id : forall z, 0 <= z < two64 -> wrap_u64 z = z.
Proof. intros z H. unfold wrap_u64, two64 in *. lia. Qed.

Definition two45 : Z := 35184372088832.
Definition pl_range (p l : Z) : Prop := 0 <= p < two45 /\ 0 <= l < two18.

Lemma compose_exact : forall p l, pl_range p l -> compose_ts p l = p * two18 + l.
Proof.
  intros p l [Hp Hl]. unfold compose_ts.
  assert (Hb : 0 <= p * two18 + l < two63) by (unfold two45, two46, two18, two63 in *; lia).
  rewrite (wrap_i64_id (p * two18)) by (unfold two45, two46, two18, two63 in *; lia).
  rewrite wrap_i64_id by (unfold two63 in *; lia).
  apply wrap_u64_id. unfold two63, two64 in *; lia.
Qed.

Lemma compose_extract : forall p l, pl_range p l ->
  extract_physical (compose_ts p l) = p /\ extract_logical (compose_ts p l) = l.
Proof.
  intros p l H. rewrite (compose_exact p l H). destruct H as [Hp Hl].
  unfold extract_physical, extract_logical, two18 in *. split; lia.
Qed.

Lemma extract_compose : forall ts, 0 <= ts < two63 ->
  compose_ts (extract_physical ts) (extract_logical ts) = ts /\ pl_range (extract_physical ts) (extract_logical ts).
Proof.
  intros ts H.
  assert (R : pl_range (extract_physical ts) (extract_logical ts)).
  { unfold pl_range, extract_physical, extract_logical, two45, two46, two18, two63 in *. lia. }
  split; [|exact R]. rewrite (compose_exact _ _ R).
  unfold extract_physical, extract_logical, two18. lia.
Qed.

Lemma compose_monotone : forall p l p' l', pl_range p l -> pl_range p' l' ->
  (compose_ts p l < compose_ts p' l' <-> (p < p' \/ (p = p' /\ l < l'))).
Proof.
  intros p l p' l' H H'. rewrite (compose_exact _ _ H), (compose_exact _ _ H').
  destruct H as [Hp Hl], H' as [Hp' Hl']. unfold two18 in *. lia.
Qed.

Lemma compose_injective : forall p l p' l', pl_range p l -> pl_range p' l' ->
  compose_ts p l = compose_ts p' l' -> p = p' /\ l = l'.
Proof.
  intros p l p' l' H H'. rewrite (compose_exact _ _ H), (compose_exact _ _ H').
  destruct H as [Hp Hl], H' as [Hp' Hl']. unfold two18 in *. lia.
Qed.

(* ---------- expiry ---------- *)
Definition u64 (z : Z) : Prop := 0 <= z < two64.

Lemma expiry_consistent : forall last lock ttl,
  u64 lock -> (forall l, last = Some l -> u64 l) -> 0 <= ttl < two62 ->
  (is_expired last lock ttl = true <-> until_expired last lock ttl <= 0).
Proof.
  intros last lock ttl Hlock Hlast Httl. destruct last as [l|]; cbn [is_expired until_expired]; [|split; [lia|reflexivity]].
  specialize (Hlast l eq_refl). unfold u64 in *.
  assert (Hpl : 0 <= extract_physical lock < two46) by (unfold extract_physical, two18, two46, two64 in *; lia).
  assert (Hp : 0 <= extract_physical l < two46) by (unfold extract_physical, two18, two46, two64 in *; lia).
  rewrite (wrap_i64_id ttl) by (unfold two62, two63 in *; lia).
  rewrite (wrap_i64_id (extract_physical lock + ttl)) by (unfold two46, two62, two63 in *; lia).
  rewrite wrap_i64_id by (unfold two46, two62, two63 in *; lia).
  rewrite Z.leb_le. lia.
Qed.

(* the exact domain: the int64 conversion of TTL and the int64 sum with the lock's physical time do not wrap,
   i.e. TTL < 2^63 - physical(lockTS)  (physical < 2^46, so every TTL < 2^63 - 2^46 qualifies) *)
Lemma expiry_consistent_exact : forall last lock ttl,
  u64 lock -> (forall l, last = Some l -> u64 l) -> 0 <= ttl < two63 - extract_physical lock ->
  (is_expired last lock ttl = true <-> until_expired last lock ttl <= 0).
Proof.
  intros last lock ttl Hlock Hlast Httl. destruct last as [l|]; cbn [is_expired until_expired]; [|split; [lia|reflexivity]].
  specialize (Hlast l eq_refl). unfold u64 in *.
  assert (Hpl : 0 <= extract_physical lock < two46) by (unfold extract_physical, two18, two46, two64 in *; lia).
  assert (Hp : 0 <= extract_physical l < two46) by (unfold extract_physical, two18, two46, two64 in *; lia).
  rewrite (wrap_i64_id ttl) by (unfold two46, two63 in *; lia).
  rewrite (wrap_i64_id (extract_physical lock + ttl)) by (unfold two46, two63 in *; lia).
  rewrite wrap_i64_id by (unfold two46, two63 in *; lia).
  rewrite Z.leb_le. lia.
Qed.

(* the boundary is sharp: for every lock and every cached ts with a positive physical part, the first TTL outside
   the domain, 2^63 - physical(lockTS), makes the two answers disagree *)
Lemma expiry_boundary_sharp : forall lock l,
  u64 lock -> u64 l -> 1 <= extract_physical l ->
  let ttl := two63 - extract_physical lock in
  is_expired (Some l) lock ttl = true /\ 0 < until_expired (Some l) lock ttl.
Proof.
  intros lock l Hlock Hl Hp ttl. unfold u64 in *.
  assert (Hpl : 0 <= extract_physical lock < two46) by (unfold extract_physical, two18, two46, two64 in *; lia).
  assert (Hpp : 1 <= extract_physical l < two46) by (unfold extract_physical, two18, two46, two64 in *; lia).
  cbn [is_expired until_expired]. unfold ttl.
  set (p := extract_physical lock) in *. set (q := extract_physical l) in *.
  assert (W1 : wrap_i64 (p + wrap_i64 (two63 - p)) = - two63) by (unfold wrap_i64, two63, two64, two46 in *; lia).
  rewrite W1.
  assert (W2 : wrap_i64 (- two63 - q) = two63 - q) by (unfold wrap_i64, two63, two64, two46 in *; lia).
  rewrite W2. split; [apply Z.leb_le; unfold two63, two46 in *; lia|unfold two63, two46 in *; lia].
Qed.

Lemma expiry_wide_ttl_refuted : exists last lock ttl,
  u64 lock /\ u64 last /\ u64 ttl /\
  ~ (is_expired (Some last) lock ttl = true <-> until_expired (Some last) lock ttl <= 0).
Proof.
  exists (compose_ts 5 2), (compose_ts 5 2), max_int64.
  unfold u64. repeat split; try (vm_compute; congruence).
  intros [H _]. assert (E : is_expired (Some (compose_ts 5 2)) (compose_ts 5 2) max_int64 = true) by (vm_compute; reflexivity).
  specialize (H E). vm_compute in H. apply H. reflexivity.
Qed.

(* ---------- commit wait ---------- *)
Lemma cw_loop_ok : forall fuel bound ts script calls r c,
  cw_loop fuel bound ts script calls = (CwOk r, c) ->
  bound < r /\ (r = ts \/ In (Some r) script).
Proof.
  induction fuel as [|f IH]; intros bound ts script calls r c H; cbn [cw_loop] in H.
  - destruct (ts <=? bound) eqn:E; [discriminate|]. inversion H; subst. split; [lia|now left].
  - destruct (ts <=? bound) eqn:E.
    + destruct script as [|[ts'|] rest]; try discriminate.
      apply IH in H. destruct H as [H1 [H2|H2]]; split; auto; right; [left; congruence|right; exact H2].
    + inversion H; subst. split; [lia|now left].
Qed.

Lemma commit_wait_ok : forall bound max_sleep fuel script r c,
  commit_wait bound max_sleep fuel script = (CwOk r, c) -> bound < r /\ In (Some r) script.
Proof.
  intros bound ms fuel script r c H. unfold commit_wait in H.
  destruct script as [|[first|] rest]; try discriminate.
  destruct (bound <? first) eqn:E1.
  - inversion H; subst. split; [lia|now left].
  - destruct (ms =? 0); [discriminate|]. destruct (ms <? ts_time_sub bound first); [discriminate|].
    apply cw_loop_ok in H. destruct H as [H1 [H2|H2]]; split; auto; [left; congruence|right; exact H2].
Qed.

(* the loop cannot run longer than the fuel the Backoffer grants: calls <= fuel + 1 *)
Lemma cw_loop_calls : forall fuel bound ts script calls r c,
  cw_loop fuel bound ts script calls = (r, c) -> (c <= calls + fuel)%nat.
Proof.
  induction fuel as [|f IH]; intros bound ts script calls r c H; cbn [cw_loop] in H.
  - destruct (ts <=? bound); inversion H; lia.
  - destruct (ts <=? bound); [|inversion H; lia].
    destruct script as [|[ts'|] rest]; try (inversion H; lia).
    apply IH in H. lia.
Qed.

Lemma commit_wait_calls : forall bound ms fuel script r c,
  commit_wait bound ms fuel script = (r, c) -> (c <= 1 + fuel)%nat.
Proof.
  intros bound ms fuel script r c H. unfold commit_wait in H.
  destruct script as [|[first|] rest]; try (inversion H; lia).
  destruct (bound <? first); [inversion H; lia|].
  destruct (ms =? 0); [inversion H; lia|]. destruct (ms <? ts_time_sub bound first); [inversion H; lia|].
  apply cw_loop_calls in H. lia.
Qed.

(* ---------- call-level setLastTS: max ---------- *)
Lemma lookup_update_same : forall st s v, lookup (update st s v) s = Some v.
Proof. induction st as [|[k w] r IH]; intros s v; cbn [update lookup]; [rewrite Z.eqb_refl; reflexivity|].
  destruct (k =? s) eqn:E; cbn [lookup]; rewrite E; auto. Qed.
Lemma lookup_update_other : forall st s s' v, s <> s' -> lookup (update st s v) s' = lookup st s'.
Proof. induction st as [|[k w] r IH]; intros s s' v H; cbn [update lookup].
  - destruct (s =? s') eqn:E; [lia|reflexivity].
  - destruct (k =? s) eqn:E; cbn [lookup]; [|rewrite IH by assumption; reflexivity].
    assert (k = s) by lia; subst. destruct (s =? s') eqn:E'; [lia|reflexivity]. Qed.

Lemma set_last_max : forall st scope ts,
  get_last (set_last st scope ts) scope =
  Some (match get_last st scope with Some l => Z.max l ts | None => ts end).
Proof.
  intros st scope ts. unfold set_last. destruct (get_last st scope) as [l|] eqn:E.
  - destruct (ts <=? l) eqn:C.
    + rewrite E. f_equal. lia.
    + unfold get_last. rewrite lookup_update_same. f_equal. lia.
  - unfold get_last. rewrite lookup_update_same. reflexivity.
Qed.

(* ---------- local.go: GetTimestamp under a clock that does not go backwards ---------- *)
Lemma go_time_exact : forall m, 0 <= m < two45 -> go_time_to_ts m = m * two18.
Proof.
  intros m H. unfold go_time_to_ts. rewrite wrap_i64_id by (unfold two45, two18, two63 in *; lia).
  apply wrap_u64_id. unfold two45, two18, two64 in *; lia.
Qed.

(* state (lastTimeStampTS, n) with lastTimeStampTS = GoTimeToTS(m): the previous call returned
   lastTimeStampTS + n.  The next call at time now >= m returns something larger, provided fewer
   than 2^18 calls fall into one millisecond. *)
Lemma local_monotone : forall m n now,
  0 <= m <= now -> now < two45 -> 0 <= n -> n + 1 < two18 ->
  let res := local_get_ts (go_time_to_ts m, n) now in
  go_time_to_ts m + n < snd res /\
  fst (fst res) = go_time_to_ts now /\ snd res = fst (fst res) + snd (fst res) /\ 0 <= snd (fst res) <= n + 1.
Proof.
  intros m n now Hm Hnow Hn Hn1. cbv zeta. unfold local_get_ts.
  rewrite (go_time_exact m) by lia. rewrite (go_time_exact now) by lia.
  destruct (m * two18 =? now * two18) eqn:E; cbn [fst snd].
  - assert (m = now) by (unfold two18 in *; lia). subst.
    rewrite wrap_u64_id by (unfold two45, two18, two64 in *; lia). repeat split; lia.
  - assert (m < now) by (unfold two18 in *; lia). unfold two18 in *. repeat split; lia.
Qed.

(* ---------- mock.go ---------- *)
Lemma mock_monotone : forall last now,
  0 <= last -> extract_physical last <= now -> now < two45 -> extract_logical last + 1 < two18 ->
  last < mock_get_ts last now /\ extract_physical (mock_get_ts last now) = now.
Proof.
  intros last now H0 Hp Hn Hl. unfold mock_get_ts. rewrite (go_time_exact now) by (unfold extract_physical, two18 in *; lia).
  assert (E : extract_physical (now * two18) = now) by (unfold extract_physical, two18; lia). rewrite E.
  destruct (extract_physical last =? now) eqn:C.
  - rewrite wrap_u64_id by (unfold extract_physical, extract_logical, two18, two45, two64 in *; lia).
    unfold extract_physical, extract_logical, two18 in *. lia.
  - unfold extract_physical, two18 in *. lia.
Qed.

Lemma set_external_spec : forall ext cur nw e, set_external ext cur nw = Some e -> e = nw /\ ext <= e <= cur.
Proof.
  intros ext cur nw e H. unfold set_external in H.
  destruct (cur <? nw) eqn:A; [discriminate|]. destruct (nw <? ext) eqn:B; [discriminate|]. injection H as <-. lia.
Qed.

(* ---------- SetCommitWaitUntilTSO: the constraint in effect is the maximum over the registration sequence ---------- *)
Lemma set_cw_fold : forall regs c, c <= fold_left set_cw regs c /\ (forall r, In r regs -> r <= fold_left set_cw regs c) /\
  (fold_left set_cw regs c = c \/ In (fold_left set_cw regs c) regs).
Proof.
  induction regs as [|x regs IH]; intros c; cbn [fold_left].
  - split; [lia|split; [intros r []|left; reflexivity]].
  - destruct (IH (set_cw c x)) as [A [B C]]. unfold set_cw in *. destruct (c <? x) eqn:E.
    + split; [lia|split].
      * intros r [<-|H]; [exact A|apply B, H].
      * destruct C as [C|C]; [right; left; symmetry; exact C|right; right; exact C].
    + split; [exact A|split].
      * intros r [<-|H]; [lia|apply B, H].
      * destruct C as [C|C]; [left; exact C|right; right; exact C].
Qed.

Lemma commit_wait_regs_ok : forall regs ms fuel script ts c,
  commit_wait_regs regs ms fuel script = (CwOk ts, c) ->
  (forall r, In r regs -> r < ts) /\ 0 < ts /\ In (Some ts) script.
Proof.
  intros regs ms fuel script ts c H. unfold commit_wait_regs in H. destruct (commit_wait_ok _ _ _ _ _ _ H) as [A B].
  destruct (set_cw_fold regs 0) as [F0 [F1 _]]. unfold cw_bound in A. split; [|split; [lia|exact B]].
  intros r Hr. specialize (F1 r Hr). lia.
Qed.

(* ---------- ValidateReadTS fast path: a read ts not beyond the cached one is accepted without asking PD ---------- *)
Lemma validate_from_cache : forall st scope read stale pds l,
  get_last st scope = Some l -> read <= l -> validate_pre read stale = None ->
  validate_seq true st scope read stale pds = (st, VAccept, O).
Proof.
  intros st scope read stale pds l H Hle Hpre. unfold validate_seq. cbn [negb]. rewrite Hpre.
  cbn [validate_loop]. rewrite H. assert (E : (read <=? l) = true) by lia. rewrite E. reflexivity.
Qed.
