(* Oracle/ProofsFresh.v — first use of a txn scope.  ModelSys starts from init_sys n whose cell is None:
   the scope has NO entry yet, lastTSMap.Load (PMapLoad) and LoadOrStore (PLoadOrStore) are separate
   interleavable steps of every caller, so all the theorems about run pd (init_sys n) es are theorems about n
   concurrent FIRST users of a fresh scope.  This file spells out the LoadOrStore facts and refutes the variant
   that publishes the first timestamp with Store + return. *)
From Verif Require Import Oracle.Model Oracle.ModelSys Oracle.ProofsSys.
From Coq Require Import Lia Arith.
Open Scope Z_scope.

Section Fresh.
Variable pd : nat -> Z.

(* once a caller has installed the entry it is never removed *)
Lemma cell_stays : forall s e, cell s <> None -> cell (step pd s e) <> None.
Proof.
  intros s e H. destruct e as [t|t]; cbn [step]; destruct (nth_error (thr s) t) as [th|]; cbn [tick cell]; auto.
  - unfold thread_step. destruct (tpc th) as [| |ts|ts|ts|ts o1 v1|ts o1 v1|ts|r]; cbn [cell]; auto;
      try (destruct (ts <=? v1); cbn [cell]; exact H);
      destruct (cell s) as [[o2 v2]|] eqn:Hc; cbn [cell]; try congruence.
    destruct (Nat.eqb o2 o1); cbn [cell]; congruence.
  - destruct (tpc th); cbn [tick cell]; auto.
Qed.

Lemma cell_stays_run : forall es s, cell s <> None -> cell (run pd s es) <> None.
Proof. induction es as [|e es IH]; intros s H; cbn; auto. apply IH, cell_stays, H. Qed.

(* LoadOrStore: a first caller installs its own record only if there is still no entry; a caller that lost the
   race installs nothing, keeps the winner's record and falls into the CAS loop (PLoad) *)
Lemma load_or_store_spec : forall s t th ts,
  nth_error (thr s) t = Some th -> tpc th = PLoadOrStore ts ->
  let s' := step pd s (Ev t) in
  (cell s = None -> cell s' = Some (t, ts)) /\
  (forall c, cell s = Some c -> cell s' = Some c) /\
  exists th', nth_error (thr s') t = Some th' /\ tpc th' = PLoad ts.
Proof.
  intros s t th ts Ht Hp. cbv zeta. cbn [step]. rewrite Ht. unfold thread_step. rewrite Hp.
  destruct (cell s) as [c|] eqn:Hc; cbn [cell thr]; (split; [intros; congruence|split; [intros; congruence|]]);
    rewrite nth_error_set_nth, Nat.eqb_refl, Ht; eexists; split; reflexivity.
Qed.

End Fresh.

(* ------------------------------------------------------------------ the variant "Store + return" ---------- *)
(* same system, except that a caller that saw no entry publishes with an unconditional Store and returns *)
Definition step_store (pd : nat -> Z) (s : sys) (e : event) : sys :=
  match e with
  | Ev t =>
      match nth_error (thr s) t with
      | Some th =>
          match tpc th with
          | PLoadOrStore ts => mkSys (Some (t, ts)) (issued s) (S (clock s)) (set_nth (thr s) t (with_pc th (PRet ts)))
          | _ => step pd s e
          end
      | None => step pd s e
      end
  | _ => step pd s e
  end.

(* two first callers: both miss, the newer one stores, the older one stores last: the cached value goes back *)
Definition store_sched : list event := [Ev 0; Ev 1; Ev 0; Ev 1; Ev 0; Ev 1; Ev 1; Ev 0].

Lemma store_variant_refuted :
  exists (pd : nat -> Z), (forall i j, (i < j)%nat -> pd i < pd j) /\
  exists n es1 es2 v1 v2,
    lowres (fold_left (step_store pd) es1 (init_sys n)) = Some v1 /\
    lowres (fold_left (step_store pd) (es1 ++ es2) (init_sys n)) = Some v2 /\ v2 < v1.
Proof.
  exists (fun k => Z.of_nat (10 + k)). split; [intros; lia|].
  exists 2%nat, (firstn 7 store_sched), (skipn 7 store_sched), 11, 10. vm_compute. repeat split; reflexivity.
Qed.

(* the same schedule on the real system: the loser of LoadOrStore falls into the CAS loop and gives up *)
Lemma store_sched_real : lowres (run (fun k => Z.of_nat (10 + k)) (init_sys 2) (store_sched ++ [Ev 0; Ev 0; Ev 0])) = Some 11.
Proof. vm_compute. reflexivity. Qed.

(* ------------------------------------------------------------------ the background refresher ---------------- *)
(* updateTS.doUpdate, for every scope that has an entry: ts := getTimestamp(); setLastTS(ts, scope) — the same
   steps as a foreground GetTimestamp: a refresher round IS one of the n threads of ModelSys (it is merely never
   the first user of a scope), so every theorem over run pd (init_sys n) es quantifies over it as well.
   The variant below lets the threads flagged by `refresher` publish with a plain Store on the entry instead of
   the CAS loop; with no thread flagged it is the real system, with one flagged it is refuted. *)
Definition step_rstore (pd : nat -> Z) (refresher : nat -> bool) (s : sys) (e : event) : sys :=
  match e with
  | Ev t =>
      match nth_error (thr s) t with
      | Some th =>
          match tpc th, cell s with
          | PMapLoad ts, Some _ =>
              if refresher t
              then mkSys (Some (t, ts)) (issued s) (S (clock s)) (set_nth (thr s) t (with_pc th (PRet ts)))
              else step pd s e
          | _, _ => step pd s e
          end
      | None => step pd s e
      end
  | _ => step pd s e
  end.

Lemma step_rstore_none : forall pd s e, step_rstore pd (fun _ => false) s e = step pd s e.
Proof.
  intros pd s e. destruct e as [t|t]; cbn [step_rstore]; auto.
  destruct (nth_error (thr s) t) as [th|]; auto. destruct (tpc th); auto. destruct (cell s); auto.
Qed.

(* thread 0 = foreground caller that created the entry, thread 1 = refresher round whose PD answer (allocated
   first among the two later ones) lands after foreground thread 2 has cached a later timestamp *)
Definition rstore_sched : list event :=
  repeat (Ev 0) 9 ++ [Ev 1; Ev 1; Ev 2; Ev 2] ++ repeat (Ev 2) 7 ++ [Ev 1].

Lemma rstore_variant_refuted :
  exists (pd : nat -> Z), (forall i j, (i < j)%nat -> pd i < pd j) /\
  exists n refresher es1 es2 v1 v2,
    lowres (fold_left (step_rstore pd refresher) es1 (init_sys n)) = Some v1 /\
    lowres (fold_left (step_rstore pd refresher) (es1 ++ es2) (init_sys n)) = Some v2 /\ v2 < v1.
Proof.
  exists (fun k => Z.of_nat (10 + k)). split; [intros; lia|].
  exists 3%nat, (fun t => Nat.eqb t 1), (firstn 20 rstore_sched), (skipn 20 rstore_sched), 12, 11.
  vm_compute. repeat split; reflexivity.
Qed.

Lemma rstore_sched_real :
  lowres (run (fun k => Z.of_nat (10 + k)) (init_sys 3) (rstore_sched ++ repeat (Ev 1) 6)) = Some 12.
Proof. vm_compute. reflexivity. Qed.

(* ------------------------------------------------------------------ a failed refresh ------------------------ *)
(* updateTS.doUpdate logs a failed getTimestamp and goes on: EvFail leaves the published record alone *)
Lemma fail_keeps_cell : forall pd s t, cell (step pd s (EvFail t)) = cell s.
Proof.
  intros pd s t. cbn [step]. destruct (nth_error (thr s) t) as [th|]; [|reflexivity]. destruct (tpc th); reflexivity.
Qed.

(* the variant that drops the entry of the scope when a refresher round fails *)
Definition step_rdelete (pd : nat -> Z) (refresher : nat -> bool) (s : sys) (e : event) : sys :=
  match e with
  | EvFail t =>
      let s' := step pd s e in
      match nth_error (thr s) t with
      | Some th => match tpc th with
                   | PWaitPD => if refresher t then mkSys None (issued s') (clock s') (thr s') else s'
                   | _ => s'
                   end
      | None => s'
      end
  | _ => step pd s e
  end.

Lemma step_rdelete_none : forall pd s e, step_rdelete pd (fun _ => false) s e = step pd s e.
Proof.
  intros pd s e. destruct e as [t|t]; cbn [step_rdelete]; auto.
  destruct (nth_error (thr s) t) as [th|]; auto. destruct (tpc th); auto.
Qed.

(* thread 0 creates the entry (10); thread 1's answer (11) is issued but arrives late; thread 2 caches 12;
   refresher round 3 fails and drops the entry; thread 1's late answer re-creates it with 11 *)
Definition rdelete_sched : list event :=
  repeat (Ev 0) 9 ++ [Ev 1; Ev 1] ++ repeat (Ev 2) 9 ++ [Ev 3; EvFail 3] ++ repeat (Ev 1) 7.

Lemma rdelete_variant_refuted :
  exists (pd : nat -> Z), (forall i j, (i < j)%nat -> pd i < pd j) /\
  exists n refresher es1 es2 v1 v2,
    lowres (fold_left (step_rdelete pd refresher) es1 (init_sys n)) = Some v1 /\
    lowres (fold_left (step_rdelete pd refresher) (es1 ++ es2) (init_sys n)) = Some v2 /\ v2 < v1.
Proof.
  exists (fun k => Z.of_nat (10 + k)). split; [intros; lia|].
  exists 4%nat, (fun t => Nat.eqb t 3), (firstn 20 rdelete_sched), (skipn 20 rdelete_sched), 12, 11.
  vm_compute. repeat split; reflexivity.
Qed.

Lemma rdelete_sched_real :
  lowres (run (fun k => Z.of_nat (10 + k)) (init_sys 4) rdelete_sched) = Some 12.
Proof. vm_compute. reflexivity. Qed.

(* ------------------------------------------------------------------ runs WITH a refresher role ---------------- *)
Section Role.
Variable pd : nat -> Z.
Variable role : nat -> bool.

(* every step of the system with roles is a step of the plain system (a disabled refresher launch = an idle tick) *)
Lemma step_role_sim : forall s e, exists e', step_role pd role s e = step pd s e'.
Proof.
  intros s e. destruct e as [t|t]; cbn [step_role]; try (eexists; reflexivity).
  destruct (nth_error (thr s) t) as [th|] eqn:Ht; [|eexists; reflexivity].
  destruct (tpc th) eqn:Hp; try (eexists; reflexivity).
  destruct (cell s) eqn:Hc; [eexists; reflexivity|].
  destruct (role t); [|eexists; reflexivity].
  exists (Ev (length (thr s))). cbn [step].
  assert (E : nth_error (thr s) (length (thr s)) = None) by (apply nth_error_None; lia). rewrite E. reflexivity.
Qed.

Lemma run_role_sim : forall es s, exists es', run_role pd role s es = run pd s es'.
Proof.
  induction es as [|e es IH]; intros s; cbn [run_role fold_left].
  - exists []. reflexivity.
  - destruct (step_role_sim s e) as [e' E]. rewrite E. destruct (IH (step pd s e')) as [es' E'].
    exists (e' :: es'). unfold run_role in E'. rewrite E'. reflexivity.
Qed.

(* a step of thread t leaves every other thread alone *)
Lemma step_other : forall s t u, t <> u ->
  nth_error (thr (step pd s (Ev t))) u = nth_error (thr s) u /\
  nth_error (thr (step pd s (EvFail t))) u = nth_error (thr s) u.
Proof.
  intros s t u Hne. assert (N : Nat.eqb t u = false) by (apply Nat.eqb_neq; exact Hne).
  split; cbn [step]; destruct (nth_error (thr s) t) as [th|]; cbn [tick thr]; try reflexivity.
  - unfold thread_step. destruct (tpc th); cbn [thr];
      repeat match goal with
      | |- context [match cell s with _ => _ end] => destruct (cell s) as [[? ?]|]
      | |- context [if ?b then _ else _] => destruct b
      end; cbn [thr]; rewrite ?nth_error_set_nth, ?N; reflexivity.
  - destruct (tpc th); cbn [tick thr]; rewrite ?nth_error_set_nth, ?N; reflexivity.
Qed.

(* a refresher round is never the first user of a scope: once launched, the scope has an entry *)
Definition role_ok (s : sys) : Prop :=
  forall t th, nth_error (thr s) t = Some th -> role t = true -> tpc th <> PIdle -> cell s <> None.

Lemma role_ok_step : forall s e, role_ok s -> role_ok (step_role pd role s e).
Proof.
  intros s e R u thu Hu Hr Hn.
  destruct (step_role_sim s e) as [e' E].
  destruct (cell s) as [c|] eqn:Hc.
  - rewrite E. apply cell_stays. rewrite Hc. discriminate.
  - (* no entry yet: every refresher thread is idle, and stays idle through this step *)
    exfalso. apply Hn.
    assert (Idle : forall th, nth_error (thr s) u = Some th -> tpc th = PIdle).
    { intros th H. destruct (tpc th) eqn:Hp; try reflexivity; exfalso; (eapply R; [exact H|exact Hr|rewrite Hp; discriminate|exact Hc]). }
    destruct e as [t|t]; cbn [step_role] in Hu.
    + destruct (Nat.eq_dec t u) as [->|Hne].
      * destruct (nth_error (thr s) u) as [th|] eqn:Ht.
        -- rewrite (Idle th eq_refl), Hc, Hr in Hu. cbn [tick thr] in Hu. rewrite Ht in Hu. inversion Hu; subst. apply Idle; reflexivity.
        -- cbn [step] in Hu. rewrite Ht in Hu. cbn [tick thr] in Hu. congruence.
      * assert (Hu' : nth_error (thr (step pd s (Ev t))) u = Some thu).
        { destruct (nth_error (thr s) t) as [th|] eqn:Ht; [|exact Hu].
          destruct (tpc th); try exact Hu. rewrite Hc in Hu. destruct (role t); [|exact Hu].
          cbn [tick thr] in Hu. rewrite (proj1 (step_other s t u Hne)). exact Hu. }
        rewrite (proj1 (step_other s t u Hne)) in Hu'. apply Idle; exact Hu'.
    + destruct (Nat.eq_dec t u) as [->|Hne].
      * cbn [step] in Hu. destruct (nth_error (thr s) u) as [th|] eqn:Ht; [|cbn [tick thr] in Hu; congruence].
        rewrite (Idle th eq_refl) in Hu. cbn [tick thr] in Hu. rewrite Ht in Hu. inversion Hu; subst. apply Idle; reflexivity.
      * rewrite (proj2 (step_other s t u Hne)) in Hu. apply Idle; exact Hu.
Qed.

Lemma role_ok_run : forall es s, role_ok s -> role_ok (run_role pd role s es).
Proof. induction es as [|e es IH]; intros s R; cbn [run_role fold_left]; auto. apply IH, role_ok_step, R. Qed.

Lemma role_ok_init : forall n, role_ok (init_sys n).
Proof. intros n t th H _ Hn. apply nth_error_In, repeat_spec in H. subst th. cbn in Hn. congruence. Qed.

(* hence a refresher round never takes the LoadOrStore branch *)
Lemma role_never_installs : forall n es t th ts,
  nth_error (thr (run_role pd role (init_sys n) es)) t = Some th -> role t = true -> tpc th <> PLoadOrStore ts.
Proof.
  intros n es. induction es as [|e es IH] using rev_ind; intros t th ts H Hr Hp.
  - cbn in H. apply nth_error_In, repeat_spec in H. subst th. cbn in Hp. discriminate.
  - unfold run_role in *. rewrite fold_left_app in H. cbn [fold_left] in H.
    set (s := fold_left (step_role pd role) es (init_sys n)) in *.
    assert (R : role_ok s) by (apply role_ok_run, role_ok_init).
    (* the step that produced PLoadOrStore is a PMapLoad step of thread t with no entry: but t was launched *)
    destruct e as [t'|t']; cbn [step_role] in H.
    + destruct (Nat.eq_dec t' t) as [->|Hne].
      * destruct (nth_error (thr s) t) as [th0|] eqn:Ht; [|cbn [step] in H; rewrite Ht in H; cbn [tick thr] in H; congruence].
        destruct (tpc th0) eqn:Hp0.
        -- destruct (cell s) eqn:Hc; [|rewrite Hr in H; cbn [tick thr] in H; rewrite Ht in H; inversion H; subst; congruence].
           cbn [step] in H. rewrite Ht in H. unfold thread_step in H. rewrite Hp0 in H. cbn [thr] in H.
           rewrite nth_error_set_nth, Nat.eqb_refl, Ht in H. inversion H; subst; cbn in Hp; discriminate.
        -- cbn [step] in H. rewrite Ht in H. unfold thread_step in H. rewrite Hp0 in H. cbn [thr] in H.
           rewrite nth_error_set_nth, Nat.eqb_refl, Ht in H. inversion H; subst; cbn in Hp; discriminate.
        -- assert (C : cell s <> None) by (eapply R; [exact Ht|exact Hr|rewrite Hp0; discriminate]).
           cbn [step] in H. rewrite Ht in H. unfold thread_step in H. rewrite Hp0 in H.
           destruct (cell s) as [c|]; [|congruence]. cbn [thr] in H.
           rewrite nth_error_set_nth, Nat.eqb_refl, Ht in H. inversion H; subst; cbn in Hp; discriminate.
        -- exact (IH t th0 ts0 Ht Hr Hp0).
        -- cbn [step] in H. rewrite Ht in H. unfold thread_step in H. rewrite Hp0 in H.
           destruct (cell s) as [[o v]|]; cbn [thr] in H; rewrite ?nth_error_set_nth, ?Nat.eqb_refl, ?Ht in H; inversion H; subst; cbn in Hp; try discriminate; congruence.
        -- cbn [step] in H. rewrite Ht in H. unfold thread_step in H. rewrite Hp0 in H.
           destruct (ts0 <=? v); cbn [thr] in H; rewrite nth_error_set_nth, Nat.eqb_refl, Ht in H; inversion H; subst; cbn in Hp; discriminate.
        -- cbn [step] in H. rewrite Ht in H. unfold thread_step in H. rewrite Hp0 in H.
           destruct (cell s) as [[o' v']|]; [destruct (Nat.eqb o' o)|]; cbn [thr] in H; rewrite nth_error_set_nth, Nat.eqb_refl, Ht in H; inversion H; subst; cbn in Hp; discriminate.
        -- cbn [step] in H. rewrite Ht in H. unfold thread_step in H. rewrite Hp0 in H. cbn [thr] in H.
           rewrite nth_error_set_nth, Nat.eqb_refl, Ht in H. inversion H; subst; cbn in Hp; discriminate.
        -- cbn [step] in H. rewrite Ht in H. unfold thread_step in H. rewrite Hp0 in H. cbn [thr] in H.
           rewrite nth_error_set_nth, Nat.eqb_refl, Ht in H. inversion H; subst. congruence.
      * assert (H' : nth_error (thr s) t = Some th).
        { destruct (nth_error (thr s) t') as [th0|] eqn:Ht'; [|cbn [step] in H; rewrite Ht' in H; exact H].
          destruct (tpc th0); try (rewrite (proj1 (step_other s t' t Hne)) in H; exact H).
          destruct (cell s); [rewrite (proj1 (step_other s t' t Hne)) in H; exact H|].
          destruct (role t'); [exact H|rewrite (proj1 (step_other s t' t Hne)) in H; exact H]. }
        exact (IH t th ts H' Hr Hp).
    + destruct (Nat.eq_dec t' t) as [->|Hne].
      * cbn [step] in H. destruct (nth_error (thr s) t) as [th0|] eqn:Ht; [|cbn [tick thr] in H; congruence].
        destruct (tpc th0) eqn:Hp0; cbn [tick thr] in H; try (rewrite Ht in H; inversion H; subst; exact (IH t th ts Ht Hr Hp)).
        rewrite nth_error_set_nth, Nat.eqb_refl, Ht in H. inversion H; subst; cbn in Hp; discriminate.
      * rewrite (proj2 (step_other s t' t Hne)) in H. exact (IH t th ts H Hr Hp).
Qed.
End Role.
