(* Oracle/ProofsFresh.v — first use of a txn scope.  ModelSys starts from init_sys n whose cell is None:
   the scope has NO entry yet, lastTSMap.Load (PMapLoad) and LoadOrStore (PLoadOrStore) are separate
   interleavable steps of every caller, so all the theorems about run pd (init_sys n) es are theorems about n
   concurrent FIRST users of a fresh scope.  This file spells out the LoadOrStore facts and refutes the variant
   that publishes the first timestamp with Store + return. *)
From Verif Require Import Oracle.Model Oracle.ModelSys Oracle.ProofsSys.
From Coq Require Import Lia Arith.
Open Scope Z_scope.

Section Fresh.
Variable pd : nat -> Z.

(* once a caller has installed the entry it is never removed *)
Lemma cell_stays : forall s e, cell s <> None -> cell (step pd s e) <> None.
Proof.
  intros s e H. destruct e as [t|t]; cbn [step]; destruct (nth_error (thr s) t) as [th|]; cbn [tick cell]; auto.
  - unfold thread_step. destruct (tpc th) as [| |ts|ts|ts|ts o1 v1|ts o1 v1|ts|r]; cbn [cell]; auto;
      try (destruct (ts <=? v1); cbn [cell]; exact H);
      destruct (cell s) as [[o2 v2]|] eqn:Hc; cbn [cell]; try congruence.
    destruct (Nat.eqb o2 o1); cbn [cell]; congruence.
  - destruct (tpc th); cbn [tick cell]; auto.
Qed.

Lemma cell_stays_run : forall es s, cell s <> None -> cell (run pd s es) <> None.
Proof. induction es as [|e es IH]; intros s H; cbn; auto. apply IH, cell_stays, H. Qed.

(* LoadOrStore: a first caller installs its own record only if there is still no entry; a caller that lost the
   race installs nothing, keeps the winner's record and falls into the CAS loop (PLoad) *)
Lemma load_or_store_spec : forall s t th ts,
  nth_error (thr s) t = Some th -> tpc th = PLoadOrStore ts ->
  let s' := step pd s (Ev t) in
  (cell s = None -> cell s' = Some (t, ts)) /\
  (forall c, cell s = Some c -> cell s' = Some c) /\
  exists th', nth_error (thr s') t = Some th' /\ tpc th' = PLoad ts.
Proof.
  intros s t th ts Ht Hp. cbv zeta. cbn [step]. rewrite Ht. unfold thread_step. rewrite Hp.
  destruct (cell s) as [c|] eqn:Hc; cbn [cell thr]; (split; [intros; congruence|split; [intros; congruence|]]);
    rewrite nth_error_set_nth, Nat.eqb_refl, Ht; eexists; split; reflexivity.
Qed.

End Fresh.

(* ------------------------------------------------------------------ the variant "Store + return" ---------- *)
(* same system, except that a caller that saw no entry publishes with an unconditional Store and returns *)
Definition step_store (pd : nat -> Z) (s : sys) (e : event) : sys :=
  match e with
  | Ev t =>
      match nth_error (thr s) t with
      | Some th =>
          match tpc th with
          | PLoadOrStore ts => mkSys (Some (t, ts)) (issued s) (S (clock s)) (set_nth (thr s) t (with_pc th (PRet ts)))
          | _ => step pd s e
          end
      | None => step pd s e
      end
  | _ => step pd s e
  end.

(* two first callers: both miss, the newer one stores, the older one stores last: the cached value goes back *)
Definition store_sched : list event := [Ev 0; Ev 1; Ev 0; Ev 1; Ev 0; Ev 1; Ev 1; Ev 0].

Lemma store_variant_refuted :
  exists (pd : nat -> Z), (forall i j, (i < j)%nat -> pd i < pd j) /\
  exists n es1 es2 v1 v2,
    lowres (fold_left (step_store pd) es1 (init_sys n)) = Some v1 /\
    lowres (fold_left (step_store pd) (es1 ++ es2) (init_sys n)) = Some v2 /\ v2 < v1.
Proof.
  exists (fun k => Z.of_nat (10 + k)). split; [intros; lia|].
  exists 2%nat, (firstn 7 store_sched), (skipn 7 store_sched), 11, 10. vm_compute. repeat split; reflexivity.
Qed.

(* the same schedule on the real system: the loser of LoadOrStore falls into the CAS loop and gives up *)
Lemma store_sched_real : lowres (run (fun k => Z.of_nat (10 + k)) (init_sys 2) (store_sched ++ [Ev 0; Ev 0; Ev 0])) = Some 11.
Proof. vm_compute. reflexivity. Qed.

(* ------------------------------------------------------------------ the background refresher ---------------- *)
(* updateTS.doUpdate, for every scope that has an entry: ts := getTimestamp(); setLastTS(ts, scope) — the same
   steps as a foreground GetTimestamp: a refresher round IS one of the n threads of ModelSys (it is merely never
   the first user of a scope), so every theorem over run pd (init_sys n) es quantifies over it as well.
   The variant below lets the threads flagged by `refresher` publish with a plain Store on the entry instead of
   the CAS loop; with no thread flagged it is the real system, with one flagged it is refuted. *)
Definition step_rstore (pd : nat -> Z) (refresher : nat -> bool) (s : sys) (e : event) : sys :=
  match e with
  | Ev t =>
      match nth_error (thr s) t with
      | Some th =>
          match tpc th, cell s with
          | PMapLoad ts, Some _ =>
              if refresher t
              then mkSys (Some (t, ts)) (issued s) (S (clock s)) (set_nth (thr s) t (with_pc th (PRet ts)))
              else step pd s e
          | _, _ => step pd s e
          end
      | None => step pd s e
      end
  | _ => step pd s e
  end.

Lemma step_rstore_none : forall pd s e, step_rstore pd (fun _ => false) s e = step pd s e.
Proof.
  intros pd s e. destruct e as [t|t]; cbn [step_rstore]; auto.
  destruct (nth_error (thr s) t) as [th|]; auto. destruct (tpc th); auto. destruct (cell s); auto.
Qed.

(* thread 0 = foreground caller that created the entry, thread 1 = refresher round whose PD answer (allocated
   first among the two later ones) lands after foreground thread 2 has cached a later timestamp *)
Definition rstore_sched : list event :=
  repeat (Ev 0) 9 ++ [Ev 1; Ev 1; Ev 2; Ev 2] ++ repeat (Ev 2) 7 ++ [Ev 1].

Lemma rstore_variant_refuted :
  exists (pd : nat -> Z), (forall i j, (i < j)%nat -> pd i < pd j) /\
  exists n refresher es1 es2 v1 v2,
    lowres (fold_left (step_rstore pd refresher) es1 (init_sys n)) = Some v1 /\
    lowres (fold_left (step_rstore pd refresher) (es1 ++ es2) (init_sys n)) = Some v2 /\ v2 < v1.
Proof.
  exists (fun k => Z.of_nat (10 + k)). split; [intros; lia|].
  exists 3%nat, (fun t => Nat.eqb t 1), (firstn 20 rstore_sched), (skipn 20 rstore_sched), 12, 11.
  vm_compute. repeat split; reflexivity.
Qed.

Lemma rstore_sched_real :
  lowres (run (fun k => Z.of_nat (10 + k)) (init_sys 3) (rstore_sched ++ repeat (Ev 1) 6)) = Some 12.
Proof. vm_compute. reflexivity. Qed.

(* ------------------------------------------------------------------ a failed refresh ------------------------ *)
(* updateTS.doUpdate logs a failed getTimestamp and goes on: EvFail leaves the published record alone *)
Lemma fail_keeps_cell : forall pd s t, cell (step pd s (EvFail t)) = cell s.
Proof.
  intros pd s t. cbn [step]. destruct (nth_error (thr s) t) as [th|]; [|reflexivity]. destruct (tpc th); reflexivity.
Qed.

(* the variant that drops the entry of the scope when a refresher round fails *)
Definition step_rdelete (pd : nat -> Z) (refresher : nat -> bool) (s : sys) (e : event) : sys :=
  match e with
  | EvFail t =>
      let s' := step pd s e in
      match nth_error (thr s) t with
      | Some th => match tpc th with
                   | PWaitPD => if refresher t then mkSys None (issued s') (clock s') (thr s') else s'
                   | _ => s'
                   end
      | None => s'
      end
  | _ => step pd s e
  end.

Lemma step_rdelete_none : forall pd s e, step_rdelete pd (fun _ => false) s e = step pd s e.
Proof.
  intros pd s e. destruct e as [t|t]; cbn [step_rdelete]; auto.
  destruct (nth_error (thr s) t) as [th|]; auto. destruct (tpc th); auto.
Qed.

(* thread 0 creates the entry (10); thread 1's answer (11) is issued but arrives late; thread 2 caches 12;
   refresher round 3 fails and drops the entry; thread 1's late answer re-creates it with 11 *)
Definition rdelete_sched : list event :=
  repeat (Ev 0) 9 ++ [Ev 1; Ev 1] ++ repeat (Ev 2) 9 ++ [Ev 3; EvFail 3] ++ repeat (Ev 1) 7.

Lemma rdelete_variant_refuted :
  exists (pd : nat -> Z), (forall i j, (i < j)%nat -> pd i < pd j) /\
  exists n refresher es1 es2 v1 v2,
    lowres (fold_left (step_rdelete pd refresher) es1 (init_sys n)) = Some v1 /\
    lowres (fold_left (step_rdelete pd refresher) (es1 ++ es2) (init_sys n)) = Some v2 /\ v2 < v1.
Proof.
  exists (fun k => Z.of_nat (10 + k)). split; [intros; lia|].
  exists 4%nat, (fun t => Nat.eqb t 3), (firstn 20 rdelete_sched), (skipn 20 rdelete_sched), 12, 11.
  vm_compute. repeat split; reflexivity.
Qed.

Lemma rdelete_sched_real :
  lowres (run (fun k => Z.of_nat (10 + k)) (init_sys 4) rdelete_sched) = Some 12.
Proof. vm_compute. reflexivity. Qed.
